(* C11 proofs, part 4: whole-query statements: P / NOT P / P IS NULL partition the result;
   every plan gen_plan can produce returns the same rows; ORDER BY output is sorted by the sort
   reader's comparison, NULLS FIRST/LAST included (after fix f375c29 of coversOrdCols);
   with a total ORDER BY the result SEQUENCE, LIMIT/OFFSET included, is plan independent. *)
From V Require Import Plan.Model Plan.EncOrder Plan.Ranges Plan.Scan.
From Coq Require Import Sorting.Sorted Sorting.Permutation.

(* ------------------------------------------------------------------ partition *)
Lemma eval_split p r :
  (eval p r = true /\ eval (PNot p) r = false /\ eval (PIsUnk false p) r = false) \/
  (eval p r = false /\ eval (PNot p) r = true /\ eval (PIsUnk false p) r = false).
Proof. cbn [eval cmp_sat]. destruct (eval p r); auto. Qed.

Lemma filter_partition3 {A} (f f1 f2 f3 : A -> bool) l :
  (forall x, In x l ->
     (f x = true -> (f1 x = true /\ f2 x = false /\ f3 x = false) \/
                    (f1 x = false /\ f2 x = true /\ f3 x = false) \/
                    (f1 x = false /\ f2 x = false /\ f3 x = true)) /\
     (f x = false -> f1 x = false /\ f2 x = false /\ f3 x = false)) ->
  Permutation (filter f1 l ++ filter f2 l ++ filter f3 l) (filter f l).
Proof.
  induction l as [|x l IH]; intros H; cbn [filter]; auto.
  assert (IH' : Permutation (filter f1 l ++ filter f2 l ++ filter f3 l) (filter f l))
    by (apply IH; intros y Hy; apply H; right; auto).
  destruct (H x (or_introl eq_refl)) as [Ht Hf].
  destruct (f x).
  - destruct (Ht eq_refl) as [(E1 & E2 & E3)|[(E1 & E2 & E3)|(E1 & E2 & E3)]]; rewrite E1, E2, E3.
    + cbn [app]. apply perm_skip; auto.
    + eapply perm_trans; [|apply perm_skip; exact IH'].
      apply Permutation_sym. apply Permutation_middle.
    + eapply perm_trans; [|apply perm_skip; exact IH'].
      rewrite !app_assoc. apply Permutation_sym, Permutation_middle.
  - destruct (Hf eq_refl) as (E1 & E2 & E3); rewrite E1, E2, E3. auto.
Qed.

Theorem partition_lemma t q p
        pfx0 cs0 d0 pfx1 cs1 d1 pfx2 cs2 d2 pfx3 cs3 d3 :
  table_ok t = true -> pred_ok q = true -> pred_ok p = true ->
  Permutation (index_scan pfx1 cs1 d1 t (PAnd q p) ++
               index_scan pfx2 cs2 d2 t (PAnd q (PNot p)) ++
               index_scan pfx3 cs3 d3 t (PAnd q (PIsUnk false p)))
              (index_scan pfx0 cs0 d0 t q) /\
  (forall r, eval q r = true ->
     (eval (PAnd q p) r = true /\ eval (PAnd q (PNot p)) r = false /\ eval (PAnd q (PIsUnk false p)) r = false) \/
     (eval (PAnd q p) r = false /\ eval (PAnd q (PNot p)) r = true /\ eval (PAnd q (PIsUnk false p)) r = false)).
Proof.
  intros Ht Hq Hp.
  assert (Split : forall r, eval q r = true ->
     (eval (PAnd q p) r = true /\ eval (PAnd q (PNot p)) r = false /\ eval (PAnd q (PIsUnk false p)) r = false) \/
     (eval (PAnd q p) r = false /\ eval (PAnd q (PNot p)) r = true /\ eval (PAnd q (PIsUnk false p)) r = false)).
  { intros r Hr. cbn [eval]. rewrite Hr. cbn [cmp_sat]. destruct (eval p r); auto. }
  split; auto.
  assert (O1 : pred_ok (PAnd q p) = true) by (cbn [pred_ok]; rewrite Hq, Hp; auto).
  assert (O2 : pred_ok (PAnd q (PNot p)) = true) by (cbn [pred_ok]; rewrite Hq, Hp; auto).
  assert (O3 : pred_ok (PAnd q (PIsUnk false p)) = true) by (cbn [pred_ok]; rewrite Hq, Hp; auto).
  eapply perm_trans; [|apply Permutation_sym, index_scan_perm; auto].
  eapply perm_trans.
  - apply Permutation_app; [apply index_scan_perm; auto|].
    apply Permutation_app; apply index_scan_perm; auto.
  - apply filter_partition3. intros r _. split.
    + intros Hr. destruct (Split r Hr) as [H|H]; auto.
    + intros Hr. cbn [eval]. rewrite Hr. auto.
Qed.

Example partition_example :
  let t := [mkRow 1 (Some 5%Z) None None; mkRow 2 None (Some 1%Z) None; mkRow 3 (Some 9%Z) None None] in
  let p := PCmp CA OLt (Some 6%Z) in
  map r_id (index_scan [1] [CA] false t (PAnd PTrue p)) = [2; 1]%Z /\
  map r_id (index_scan [1] [CA] true t (PAnd PTrue (PNot p))) = [3]%Z /\
  index_scan [1] [CId] false t (PAnd PTrue (PIsUnk false p)) = [].
Proof. vm_compute. auto. Qed.

(* ------------------------------------------------------------------ plans *)
Lemma gen_plan_shape pfx_of idxs q pl :
  gen_plan pfx_of idxs q = Some pl ->
  (p_lo pl, p_hi pl) =
    key_reader_spec (pfx_of (p_index pl)) (ix_cols (p_index pl)) (sel_ranges (q_where q) no_ranges) /\
  (p_sort pl = false -> p_desc pl = true -> q_order q <> []) /\
  (p_sort pl = false -> q_order q <> [] ->
     covers_ord_cols (ix_cols (p_index pl)) (q_order q) (sel_ranges (q_where q) no_ranges) = true /\
     p_desc pl = match q_order q with o :: _ => o_desc o | [] => false end) /\
  (q_order q = [] -> p_sort pl = false /\ p_desc pl = false).
Proof.
  unfold gen_plan. intros H.
  destruct (match q_use q with
            | Some cs => match find (fun i => cols_eqb (ix_cols i) cs) idxs with
                         | Some i => Some (Some i) | None => None end
            | None => Some None end) as [pref|]; [|discriminate].
  match type of H with
  | (let '(lo, hi) := key_reader_spec (pfx_of ?ix) _ ?rs in _) = _ => set (IX := ix) in *; set (RS := rs) in *
  end.
  destruct (key_reader_spec (pfx_of IX) (ix_cols IX) RS) as [lo hi] eqn:Ek.
  inversion H; subst; clear H. cbn [p_lo p_hi p_index p_sort p_desc].
  split; [rewrite Ek; reflexivity|].
  destruct (q_order q) as [|o os] eqn:Eo.
  - repeat split; intros; try discriminate; try congruence.
  - destruct (covers_ord_cols (ix_cols IX) (o :: os) RS) eqn:Ec; cbn [negb];
      repeat split; intros; try discriminate; try congruence.
Qed.

Lemma exec_plan_unsorted pfx_of idxs t q pl :
  gen_plan pfx_of idxs q = Some pl ->
  exec_plan pfx_of t q pl =
  let l := index_scan (pfx_of (p_index pl)) (ix_cols (p_index pl)) (p_desc pl) t (q_where q) in
  if p_sort pl then sort_rows (q_order q) l else l.
Proof.
  intros H. apply gen_plan_shape in H as [Hk _].
  unfold exec_plan, exec_entries, index_scan. rewrite <- Hk. destruct (p_desc pl); reflexivity.
Qed.

Lemma insert_row_perm os x l : Permutation (insert_row os x l) (x :: l).
Proof.
  induction l as [|y l IH]; cbn [insert_row]; auto.
  destruct (ord_le os x y); auto.
  eapply perm_trans; [apply perm_skip; exact IH | apply perm_swap].
Qed.

Lemma sort_rows_perm os l : Permutation (sort_rows os l) l.
Proof.
  unfold sort_rows. induction l as [|x l IH]; cbn [fold_right]; auto.
  eapply perm_trans; [apply insert_row_perm | apply perm_skip; auto].
Qed.

(* whatever index genScanSpecs picks or is forced to use, the rows are the satisfying rows *)
Theorem exec_plan_rows pfx_of idxs t q pl :
  table_ok t = true -> pred_ok (q_where q) = true ->
  gen_plan pfx_of idxs q = Some pl ->
  Permutation (exec_plan pfx_of t q pl) (filter (eval (q_where q)) t).
Proof.
  intros Ht Hp H. rewrite (exec_plan_unsorted _ _ _ _ _ H). cbv zeta.
  destruct (p_sort pl).
  - eapply perm_trans; [apply sort_rows_perm | apply index_scan_perm; auto].
  - apply index_scan_perm; auto.
Qed.

(* ------------------------------------------------------------------ the sort comparator *)
Definition col_cmp (o : ordexp) (v1 v2 : sval) : comparison :=
  match v1, v2 with
  | None, None => Eq
  | None, Some _ => if nulls_first o then Lt else Gt
  | Some _, None => if nulls_first o then Gt else Lt
  | Some x, Some y => if o_desc o then CompOpp (Z.compare x y) else Z.compare x y
  end.

Lemma ord_cmp_unfold o os r1 r2 :
  ord_cmp (o :: os) r1 r2 =
  match col_cmp o (getcol (o_col o) r1) (getcol (o_col o) r2) with
  | Eq => ord_cmp os r1 r2
  | c => c
  end.
Proof.
  cbn [ord_cmp]. unfold col_cmp.
  destruct (getcol (o_col o) r1) as [x|], (getcol (o_col o) r2) as [y|]; auto.
  - destruct (Z.compare x y), (o_desc o); reflexivity.
  - destruct (nulls_first o); reflexivity.
  - destruct (nulls_first o); reflexivity.
Qed.

Lemma col_cmp_antisym o x y : col_cmp o y x = CompOpp (col_cmp o x y).
Proof.
  unfold col_cmp. destruct x as [a|], y as [b|]; auto.
  - rewrite (Z.compare_antisym a b). destruct (o_desc o), (Z.compare a b); reflexivity.
  - destruct (nulls_first o); reflexivity.
  - destruct (nulls_first o); reflexivity.
Qed.

Lemma col_cmp_eq o x y : col_cmp o x y = Eq -> x = y.
Proof.
  unfold col_cmp. destruct x as [a|], y as [b|]; auto.
  - destruct (Z.compare_spec a b), (o_desc o); simpl; try discriminate; intros; subst; auto.
  - destruct (nulls_first o); discriminate.
  - destruct (nulls_first o); discriminate.
Qed.

Lemma col_cmp_refl o x : col_cmp o x x = Eq.
Proof. unfold col_cmp. destruct x; auto. rewrite Z.compare_refl. destruct (o_desc o); auto. Qed.

Lemma col_cmp_lt_trans o x y z : col_cmp o x y = Lt -> col_cmp o y z = Lt -> col_cmp o x z = Lt.
Proof.
  unfold col_cmp. destruct x as [a|], y as [b|], z as [c|]; auto;
    destruct (nulls_first o), (o_desc o); simpl; try discriminate; auto;
    destruct (Z.compare_spec a b), (Z.compare_spec b c), (Z.compare_spec a c); simpl;
    try discriminate; auto; lia.
Qed.

Lemma ord_cmp_antisym os r1 r2 : ord_cmp os r2 r1 = CompOpp (ord_cmp os r1 r2).
Proof.
  induction os as [|o os IH]; auto. rewrite !ord_cmp_unfold.
  rewrite (col_cmp_antisym o (getcol (o_col o) r1)).
  destruct (col_cmp o (getcol (o_col o) r1) (getcol (o_col o) r2)); simpl; auto.
Qed.

Lemma ord_le_total os r1 r2 : ord_le os r1 r2 = false -> ord_le os r2 r1 = true.
Proof.
  unfold ord_le. rewrite (ord_cmp_antisym os r1 r2). destruct (ord_cmp os r1 r2); simpl; auto; discriminate.
Qed.

Lemma ord_cmp_trans os : forall r1 r2 r3,
  ord_cmp os r1 r2 <> Gt -> ord_cmp os r2 r3 <> Gt -> ord_cmp os r1 r3 <> Gt.
Proof.
  induction os as [|o os IH]; intros r1 r2 r3; [cbn; discriminate|].
  rewrite !ord_cmp_unfold.
  destruct (col_cmp o (getcol (o_col o) r1) (getcol (o_col o) r2)) eqn:E12;
    destruct (col_cmp o (getcol (o_col o) r2) (getcol (o_col o) r3)) eqn:E23;
    intros H1 H2; try congruence.
  - apply col_cmp_eq in E12, E23. rewrite E12, E23, col_cmp_refl. eauto.
  - apply col_cmp_eq in E12. rewrite E12, E23. discriminate.
  - apply col_cmp_eq in E23. rewrite <- E23, E12. discriminate.
  - rewrite (col_cmp_lt_trans _ _ _ _ E12 E23). discriminate.
Qed.

Lemma ord_le_trans os r1 r2 r3 : ord_le os r1 r2 = true -> ord_le os r2 r3 = true -> ord_le os r1 r3 = true.
Proof.
  unfold ord_le. intros H1 H2.
  pose proof (ord_cmp_trans os r1 r2 r3) as T.
  destruct (ord_cmp os r1 r2), (ord_cmp os r2 r3), (ord_cmp os r1 r3); auto; try discriminate;
    exfalso; apply T; auto; discriminate.
Qed.

Definition ord_sorted (os : list ordexp) (l : list row) : Prop :=
  StronglySorted (fun r1 r2 => ord_le os r1 r2 = true) l.

Lemma insert_row_sorted os x l : ord_sorted os l -> ord_sorted os (insert_row os x l).
Proof.
  unfold ord_sorted. induction 1 as [|y l Hs IH Hy]; cbn [insert_row].
  - constructor; constructor.
  - destruct (ord_le os x y) eqn:E.
    + constructor; [constructor; auto|]. constructor; auto.
      rewrite Forall_forall in *. intros z Hz. eapply ord_le_trans; eauto.
    + constructor; auto. rewrite Forall_forall in *. intros z Hz.
      apply (Permutation_in _ (insert_row_perm os x l)) in Hz as [<-|Hz]; auto.
      apply ord_le_total; auto.
Qed.

Lemma sort_rows_sorted os l : ord_sorted os (sort_rows os l).
Proof.
  unfold sort_rows. induction l as [|x l IH]; cbn [fold_right]; [constructor|].
  apply insert_row_sorted; auto.
Qed.

(* ------------------------------------------------------------------ ORDER BY served by the index *)
(* the ordering expression asks for the placement of NULLs that the index provides *)
Definition nulls_default (o : ordexp) : bool := Bool.eqb (nulls_first o) (negb (o_desc o)).

Lemma nulls_served_default o : nulls_served o = nulls_default o.
Proof. unfold nulls_served, nulls_default, nulls_first. destruct (o_nulls o), (o_desc o); reflexivity. Qed.

Lemma col_cmp_default o x y :
  nulls_default o = true ->
  col_cmp o x y = if o_desc o then CompOpp (sv_cmp x y) else sv_cmp x y.
Proof.
  unfold nulls_default, col_cmp. intros H. apply Bool.eqb_prop in H. rewrite H.
  destruct x, y, (o_desc o); reflexivity.
Qed.

(* with uniform direction d and default NULL placement, the sort comparator is the tuple order *)
Lemma ord_cmp_tuple d os r1 r2 :
  forallb (fun o => Bool.eqb (o_desc o) d && nulls_default o) os = true ->
  ord_cmp os r1 r2 =
  let c := tup_cmp (col_vals (map o_col os) r1) (col_vals (map o_col os) r2) in
  if d then CompOpp c else c.
Proof.
  induction os as [|o os IH]; intros H; [destruct d; reflexivity|].
  cbn [forallb] in H. apply andb_prop in H as [Ho H]. apply andb_prop in Ho as [Hd Hn].
  apply Bool.eqb_prop in Hd.
  rewrite ord_cmp_unfold, col_cmp_default by assumption. rewrite Hd.
  cbn [map col_vals tup_cmp]. fold (col_vals (map o_col os) r1). fold (col_vals (map o_col os) r2).
  rewrite IH by assumption. cbv zeta.
  destruct d, (sv_cmp (getcol (o_col o) r1) (getcol (o_col o) r2)); reflexivity.
Qed.

Lemma has_prefix_split cols os :
  has_prefix cols os = true -> exists rest, cols = map o_col os ++ rest.
Proof.
  revert cols; induction os as [|o os IH]; intros cols H; cbn [has_prefix] in H.
  - exists cols; reflexivity.
  - destruct cols as [|c cols]; [discriminate|]. apply andb_prop in H as [H1 H2].
    apply col_eqb_eq in H1. destruct (IH _ H2) as [rest ->]. exists rest. cbn [map app]. congruence.
Qed.

Lemma sortable_loop_split icols first os rs :
  sortable_loop icols first os rs = true ->
  exists U rest, icols = U ++ rest /\
                 (forall c, In c U -> exists rg, rs c = Some rg /\ unitary rg = true) /\
                 has_prefix rest os = true.
Proof.
  induction icols as [|c icols IH]; cbn [sortable_loop]; [discriminate|].
  destruct (col_eqb c first).
  - intros H. exists [], (c :: icols). repeat split; auto. intros x [].
  - destruct (rs c) as [rg|] eqn:Ec; [|discriminate].
    destruct (unitary rg) eqn:Eu; [|discriminate].
    intros H. destruct (IH H) as (U & rest & -> & HU & Hp).
    exists (c :: U), rest. repeat split; auto.
    intros x [<-|Hx]; eauto.
Qed.

Lemma col_vals_app a b r : col_vals (a ++ b) r = col_vals a r ++ col_vals b r.
Proof. unfold col_vals. apply map_app. Qed.

Lemma col_vals_length a r : length (col_vals a r) = length a.
Proof. unfold col_vals. apply map_length. Qed.

Lemma unitary_cols_equal rs U r1 r2 :
  (forall c, In c U -> exists rg, rs c = Some rg /\ unitary rg = true) ->
  ranges_sound rs r1 -> ranges_sound rs r2 -> col_vals U r1 = col_vals U r2.
Proof.
  intros HU H1 H2. induction U as [|c U IH]; auto.
  cbn [col_vals map]. f_equal.
  - destruct (HU c (or_introl eq_refl)) as (rg & Ec & Eu).
    destruct (unitary_fixes rg _ Eu (H1 _ _ Ec)) as (l1 & E1 & V1).
    destruct (unitary_fixes rg _ Eu (H2 _ _ Ec)) as (l2 & E2 & V2).
    congruence.
  - apply IH. intros x Hx. apply HU. right; auto.
Qed.

(* index order of two rows that both satisfy the WHERE clause implies their ORDER BY order,
   whenever coversOrdCols accepted the index and NULL placement is the default one *)
Lemma covers_order icols os rs d r1 r2 :
  os <> [] ->
  covers_ord_cols icols os rs = true ->
  d = match os with o :: _ => o_desc o | [] => false end ->
  ranges_sound rs r1 -> ranges_sound rs r2 ->
  row_le icols d r1 r2 -> ord_le os r1 r2 = true.
Proof.
  intros Hne Hc Hd S1 S2 Hle.
  unfold covers_ord_cols in Hc. apply andb_prop in Hc as [Hdir Hc].
  apply andb_prop in Hdir as [Hdir Hn].
  assert (Hn' : forallb nulls_default os = true).
  { rewrite forallb_forall in *. intros x Hx. rewrite <- nulls_served_default. auto. }
  clear Hn. rename Hn' into Hn.
  assert (Huni : forallb (fun o => Bool.eqb (o_desc o) d && nulls_default o) os = true).
  { destruct os as [|o os]; [congruence|]. subst d. cbn [same_direction] in Hdir.
    cbn [forallb] in *. apply andb_prop in Hn as [Hn1 Hn2].
    rewrite Bool.eqb_reflx, Hn1. cbn [andb].
    rewrite forallb_forall in *. intros x Hx. rewrite (Hdir x Hx), (Hn2 x Hx). reflexivity. }
  unfold ord_le. rewrite (ord_cmp_tuple d) by assumption. cbv zeta.
  (* reduce to: icols = U ++ map o_col os ++ rest with U pinned *)
  assert (Hsplit : exists U rest, icols = U ++ map o_col os ++ rest /\
                     (forall c, In c U -> exists rg, rs c = Some rg /\ unitary rg = true)).
  { apply orb_prop in Hc as [Hc|Hc].
    - destruct (has_prefix_split _ _ Hc) as [rest ->]. exists [], rest. split; auto. intros c [].
    - unfold sortable_using in Hc. destruct os as [|o os]; [discriminate|].
      destruct (sortable_loop_split _ _ _ _ Hc) as (U & rest0 & -> & HU & Hp).
      destruct (has_prefix_split _ _ Hp) as [rest ->]. exists U, rest. split; auto. }
  destruct Hsplit as (U & rest & -> & HU).
  unfold row_le, ix_tuple in Hle. rewrite !col_vals_app, <- !app_assoc in Hle.
  rewrite (unitary_cols_equal rs U r1 r2 HU S1 S2) in Hle.
  rewrite tup_cmp_app, tup_cmp_refl in Hle by reflexivity.
  rewrite tup_cmp_app in Hle by (rewrite !col_vals_length; reflexivity).
  destruct d; destruct (tup_cmp (col_vals (map o_col os) r1) (col_vals (map o_col os) r2));
    simpl; auto; congruence.
Qed.

Lemma index_scan_in pfx cs desc t p r :
  table_ok t = true -> pred_ok p = true ->
  In r (index_scan pfx cs desc t p) -> In r t /\ eval p r = true.
Proof.
  intros Ht Hp H. apply (Permutation_in _ (index_scan_perm pfx cs desc t p Ht Hp)) in H.
  apply filter_In in H. auto.
Qed.

(* ORDER BY output is sorted by the sort reader's comparison (NULLS FIRST/LAST included), for every
   plan: explicit sort, or index-served when coversOrdCols accepts the index *)
Theorem order_by_sorted_lemma pfx_of idxs t q pl :
  table_ok t = true -> pred_ok (q_where q) = true ->
  gen_plan pfx_of idxs q = Some pl ->
  ord_sorted (q_order q) (exec_plan pfx_of t q pl).
Proof.
  intros Ht Hp H. rewrite (exec_plan_unsorted _ _ _ _ _ H). cbv zeta.
  destruct (p_sort pl) eqn:Es; [apply sort_rows_sorted|].
  destruct (gen_plan_shape _ _ _ _ H) as (_ & _ & Hcov & Hnil).
  destruct (q_order q) as [|o os] eqn:Eo.
  - (* no ORDER BY: every list is sorted for the empty comparator *)
    unfold ord_sorted. generalize (index_scan (pfx_of (p_index pl)) (ix_cols (p_index pl)) (p_desc pl) t (q_where q)).
    intros l. induction l as [|x l IH]; constructor; auto. rewrite Forall_forall; intros; reflexivity.
  - destruct (Hcov Es) as [Hc Hd]; [discriminate|].
    eapply StronglySorted_weaken; [|apply index_order_lemma; auto].
    intros x y Hx Hy Hle.
    apply index_scan_in in Hx as [_ Hx]; auto. apply index_scan_in in Hy as [_ Hy]; auto.
    eapply (covers_order _ (o :: os) _ (p_desc pl)); eauto.
    + discriminate.
    + apply sel_ranges_sound; auto using no_ranges_sound.
    + apply sel_ranges_sound; auto using no_ranges_sound.
Qed.

(* boolean check of adjacent order, to refute sortedness by computation *)
Fixpoint adj_sorted (os : list ordexp) (l : list row) : bool :=
  match l with
  | x :: ((y :: _) as r) => ord_le os x y && adj_sorted os r
  | _ => true
  end.

Lemma ord_sorted_adj os l : ord_sorted os l -> adj_sorted os l = true.
Proof.
  unfold ord_sorted. induction 1 as [|x l Hs IH Hx]; auto.
  destruct l as [|y l]; auto.
  change (adj_sorted os (x :: y :: l)) with (ord_le os x y && adj_sorted os (y :: l)).
  inversion Hx; subst. rewrite H1, IH. reflexivity.
Qed.

Definition refute_idxs : list index := [mkIndex 0 [CId]; mkIndex 1 [CA]].
Definition refute_table : list row :=
  [mkRow 1 (Some 5%Z) None None; mkRow 2 None None None; mkRow 3 (Some 7%Z) None None].

(* regression of the defect fixed by f375c29: ORDER BY a NULLS LAST is no longer served by the
   index on a; the explicit sort puts the NULL last *)
Example order_by_nulls_last_example :
  let q := mkQuery PTrue [mkOrd CA false NLast] 0 0 None in
  exists pl, gen_plan (mk_pfx [115] 1) refute_idxs q = Some pl /\ p_sort pl = true /\
             map r_id (exec_plan (mk_pfx [115] 1) refute_table q pl) = [1; 3; 2]%Z.
Proof. eexists. split; [vm_compute; reflexivity|]. vm_compute. auto. Qed.

Example order_by_sorted_example :
  exists pl, gen_plan (mk_pfx [115] 1) refute_idxs (mkQuery PTrue [mkOrd CA true NDefault] 0 0 None) = Some pl /\
             p_sort pl = false /\ p_desc pl = true /\
             map r_id (exec_plan (mk_pfx [115] 1) refute_table (mkQuery PTrue [mkOrd CA true NDefault] 0 0 None) pl) = [3; 1; 2]%Z.
Proof. eexists. split; [vm_compute; reflexivity|]. vm_compute. auto. Qed.

(* ------------------------------------------------------------------ total ORDER BY: sequences *)
Lemma sorted_perm_unique {A} (le : A -> A -> Prop) (l1 l2 : list A) :
  (forall x y, In x l1 -> In y l1 -> le x y -> le y x -> x = y) ->
  StronglySorted le l1 -> StronglySorted le l2 -> Permutation l1 l2 -> l1 = l2.
Proof.
  revert l2. induction l1 as [|x l1 IH]; intros l2 Hanti S1 S2 P.
  - apply Permutation_nil in P. auto.
  - destruct l2 as [|y l2]; [apply Permutation_sym, Permutation_nil in P; discriminate|].
    inversion S1 as [|? ? S1' F1]; subst. inversion S2 as [|? ? S2' F2]; subst.
    rewrite Forall_forall in F1, F2.
    assert (x = y).
    { assert (Hy : In y (x :: l1)) by (eapply Permutation_in; [apply Permutation_sym; exact P | left; auto]).
      assert (Hx : In x (y :: l2)) by (eapply Permutation_in; [exact P | left; auto]).
      destruct Hy as [Hy|Hy]; auto. destruct Hx as [Hx|Hx]; auto.
      apply Hanti; [left; auto | right; auto | apply F1; auto | apply F2; auto]. }
    subst y. f_equal. apply IH; auto.
    + intros a b Ha Hb. apply Hanti; right; auto.
    + eapply Permutation_cons_inv; eauto.
Qed.

Lemma ord_cmp_eq_id os r1 r2 :
  In CId (map o_col os) -> ord_cmp os r1 r2 = Eq -> r_id r1 = r_id r2.
Proof.
  induction os as [|o os IH]; intros Hin; [destruct Hin|].
  rewrite ord_cmp_unfold.
  destruct (col_cmp o (getcol (o_col o) r1) (getcol (o_col o) r2)) eqn:E; try discriminate.
  intros H. destruct Hin as [Hin|Hin]; auto.
  apply col_cmp_eq in E. rewrite Hin in E. cbn [getcol] in E. congruence.
Qed.

Lemma nodup_ids_inj t r1 r2 :
  NoDup (map r_id t) -> In r1 t -> In r2 t -> r_id r1 = r_id r2 -> r1 = r2.
Proof.
  induction t as [|x t IH]; intros Hn H1 H2 E; [destruct H1|].
  cbn [map] in Hn. inversion Hn as [|? ? Hnx Hn']; subst.
  destruct H1 as [<-|H1], H2 as [<-|H2]; auto.
  - exfalso. apply Hnx. rewrite E. apply in_map; auto.
  - exfalso. apply Hnx. rewrite <- E. apply in_map; auto.
Qed.

(* a total ORDER BY (it mentions the primary key) makes the result a function of the table and
   the query alone: any two plans return the same SEQUENCE, hence also the same LIMIT/OFFSET window *)
Theorem total_order_plan_independent_lemma pfx_of pfx_of' idxs idxs' t q u u' pl pl' :
  table_ok t = true -> NoDup (map r_id t) -> pred_ok (q_where q) = true ->
  In CId (map o_col (q_order q)) ->
  gen_plan pfx_of idxs (mkQuery (q_where q) (q_order q) (q_limit q) (q_offset q) u) = Some pl ->
  gen_plan pfx_of' idxs' (mkQuery (q_where q) (q_order q) (q_limit q) (q_offset q) u') = Some pl' ->
  exec pfx_of idxs t (mkQuery (q_where q) (q_order q) (q_limit q) (q_offset q) u) =
  exec pfx_of' idxs' t (mkQuery (q_where q) (q_order q) (q_limit q) (q_offset q) u').
Proof.
  intros Ht Hnd Hp Hid G1 G2. unfold exec. rewrite G1, G2. cbn [q_limit q_offset].
  f_equal. f_equal. f_equal.
  set (q1 := mkQuery (q_where q) (q_order q) (q_limit q) (q_offset q) u) in *.
  set (q2 := mkQuery (q_where q) (q_order q) (q_limit q) (q_offset q) u') in *.
  pose proof (exec_plan_rows pfx_of idxs t q1 pl Ht Hp G1) as P1.
  pose proof (exec_plan_rows pfx_of' idxs' t q2 pl' Ht Hp G2) as P2.
  pose proof (order_by_sorted_lemma pfx_of idxs t q1 pl Ht Hp G1) as S1.
  pose proof (order_by_sorted_lemma pfx_of' idxs' t q2 pl' Ht Hp G2) as S2.
  cbn [q_where q_order q1 q2] in *.
  eapply sorted_perm_unique; [| exact S1 | exact S2 |].
  - intros x y Hx Hy L1 L2.
    apply (Permutation_in _ P1) in Hx. apply (Permutation_in _ P1) in Hy.
    apply filter_In in Hx as [Hx _]. apply filter_In in Hy as [Hy _].
    apply (nodup_ids_inj t); auto. apply (ord_cmp_eq_id (q_order q)); auto.
    unfold ord_le in L1, L2. rewrite (ord_cmp_antisym _ x y) in L2.
    destruct (ord_cmp (q_order q) x y); simpl in *; auto; discriminate.
  - eapply perm_trans; [exact P1 | apply Permutation_sym; exact P2].
Qed.

Example total_order_example :
  let q u := mkQuery (PCmp CA OGe (Some 5%Z)) [mkOrd CA true NDefault; mkOrd CId true NDefault] 1 1 u in
  option_map (map r_id) (exec (mk_pfx [115] 1) refute_idxs refute_table (q None)) = Some [1%Z] /\
  option_map (map r_id) (exec (mk_pfx [115] 1) refute_idxs refute_table (q (Some [CA]))) = Some [1%Z].
Proof. vm_compute. auto. Qed.

(* ------------------------------------------------------------------ inside an open transaction *)
Definition ops_ok (ops : list txop) : bool :=
  forallb (fun o => match o with TxPut r => row_ok r | TxDel _ => true end) ops.

Lemma put_row_ok w view : row_ok w = true -> table_ok view = true -> table_ok (put_row w view) = true.
Proof.
  intros Hw. unfold table_ok. induction view as [|c view IH]; cbn [put_row forallb]; intros H.
  - rewrite Hw; reflexivity.
  - apply andb_prop in H as [H1 H2]. destruct (Z.eqb (r_id c) (r_id w)); cbn [forallb].
    + rewrite Hw, H2; reflexivity.
    + rewrite H1, IH; auto.
Qed.

Lemma filter_table_ok (f : row -> bool) view : table_ok view = true -> table_ok (filter f view) = true.
Proof.
  unfold table_ok. intros H. rewrite forallb_forall in *. intros x Hx. apply filter_In in Hx as [Hx _]. auto.
Qed.

(* the rows visible through the primary key do not depend on which secondary index is looked at *)
Lemma tx_run_view pfx cs pfx' cs' ops : forall view tr tr',
  fst (tx_run pfx cs ops view tr) = fst (tx_run pfx' cs' ops view tr').
Proof.
  induction ops as [|o ops IH]; intros view tr tr'; cbn [tx_run]; auto.
  destruct o; apply IH.
Qed.

Lemma tx_run_view_ok pfx cs ops : forall view tr,
  ops_ok ops = true -> table_ok view = true -> table_ok (fst (tx_run pfx cs ops view tr)) = true.
Proof.
  induction ops as [|o ops IH]; intros view tr Ho Hv; cbn [tx_run]; auto.
  cbn [ops_ok forallb] in Ho. apply andb_prop in Ho as [Ho1 Ho2].
  destruct o; apply IH; auto using put_row_ok, filter_table_ok.
Qed.

(* through the PRIMARY index a SELECT inside an open transaction returns exactly the satisfying
   rows of the table as the transaction has made it *)
Theorem in_tx_primary_exact_lemma pfx_of idxs committed ops q pl :
  table_ok committed = true -> ops_ok ops = true -> pred_ok (q_where q) = true ->
  gen_plan pfx_of idxs q = Some pl -> ix_primary (p_index pl) = true ->
  Permutation (exec_plan_in_tx pfx_of committed ops q pl)
              (filter (eval (q_where q)) (tx_table committed ops)).
Proof.
  intros Hc Ho Hp Hg Hprim.
  assert (E : exec_plan_in_tx pfx_of committed ops q pl = exec_plan pfx_of (tx_table committed ops) q pl).
  { unfold exec_plan_in_tx, exec_plan, tx_entries, tx_table.
    destruct (tx_run (pfx_of (p_index pl)) (ix_cols (p_index pl)) ops committed []) as [view tr] eqn:Er.
    rewrite Hprim. f_equal. f_equal.
    rewrite (tx_run_view [] [] (pfx_of (p_index pl)) (ix_cols (p_index pl)) ops committed [] []), Er.
    reflexivity. }
  rewrite E. apply (exec_plan_rows pfx_of idxs); auto.
  unfold tx_table. apply tx_run_view_ok; auto.
Qed.

(* a transaction that has written nothing reads what a committed read does, whatever the index *)
Theorem in_tx_no_writes_lemma pfx_of committed q pl :
  exec_plan_in_tx pfx_of committed [] q pl = exec_plan pfx_of committed q pl.
Proof.
  unfold exec_plan_in_tx, exec_plan, tx_entries. cbn [tx_run]. destruct (ix_primary (p_index pl)); reflexivity.
Qed.

(* through a SECONDARY index it does not: the faithful model of the transaction-local index view
   returns the pre-transaction version of an updated row next to the new one.
   Witness replayed on the Go engine: INSERT (1,5); BEGIN; UPDATE a=7 WHERE id=1;
   SELECT .. USE INDEX ON (a) returns (1,5) and (1,7), SELECT .. USE INDEX ON (id) returns (1,7). *)
Definition tx_witness_committed : list row := [mkRow 1 (Some 5%Z) None None].
Definition tx_witness_ops : list txop := [TxPut (mkRow 1 (Some 7%Z) None None)].

Theorem in_tx_plan_independence_refuted_lemma :
  exists pfx_of idxs committed ops q u1 u2 pl1 pl2,
    table_ok committed = true /\ ops_ok ops = true /\ pred_ok (q_where q) = true /\
    gen_plan pfx_of idxs (mkQuery (q_where q) (q_order q) (q_limit q) (q_offset q) u1) = Some pl1 /\
    gen_plan pfx_of idxs (mkQuery (q_where q) (q_order q) (q_limit q) (q_offset q) u2) = Some pl2 /\
    ~ Permutation (exec_plan_in_tx pfx_of committed ops q pl1) (exec_plan_in_tx pfx_of committed ops q pl2).
Proof.
  exists (mk_pfx [115; 113; 108] 1), refute_idxs, tx_witness_committed, tx_witness_ops,
         (mkQuery PTrue [] 0 0 None), (Some [CA]), (Some [CId]).
  eexists. eexists.
  split; [reflexivity|]. split; [reflexivity|]. split; [reflexivity|].
  split; [vm_compute; reflexivity|]. split; [vm_compute; reflexivity|].
  intros H. apply Permutation_length in H. vm_compute in H. discriminate.
Qed.

Example in_tx_primary_exact_example :
  let q := mkQuery (PCmp CA OGe (Some 6%Z)) [] 0 0 (Some [CId]) in
  exists pl, gen_plan (mk_pfx [115] 1) refute_idxs q = Some pl /\ ix_primary (p_index pl) = true /\
             map r_id (exec_plan_in_tx (mk_pfx [115] 1) tx_witness_committed tx_witness_ops q pl) = [1%Z] /\
             tx_table tx_witness_committed tx_witness_ops = [mkRow 1 (Some 7%Z) None None].
Proof. eexists. split; [vm_compute; reflexivity|]. vm_compute. auto. Qed.
