(* SQL key / value encodings of embedded/sql, transliterated from
     catalog.go   EncodeRawValueAsKey / DecodeValueFromKey   (index-key form of a column value)
                  EncodeRawValue / decodeValue               (row-payload form of a column value)
                  MapKey, Column.MaxLen
     engine.go    indexEntryMapperFor (composition of an index key)
     stmt.go      TypedValue.Compare of Integer/Bool/Varchar/Blob/UUID/Timestamp/Float64/NullValue,
                  Tuple.Compare
     timestamp.go TimeToInt64 / TimeFromInt64
   Model only, no proofs (proofs: SQL/KeyEncProofs.v).

   Values: an INTEGER is the mathematical value of the Go int64 (Z); a VARCHAR is the byte string
   of the Go string; a TIMESTAMP is a Go time.Time given as its (unbounded) number of nanoseconds
   since the Unix epoch; a FLOAT is the 64-bit IEEE-754 pattern math.Float64bits gives (N).
   The int64 <-> uint64 conversions and the wrap-around of time.Time.UnixNano are explicit.
   The dynamic type of the value handed to the encoders is the column's type (or nil): the implicit
   conversions of mayApplyImplicitConversion are not modelled. *)
From V Require Export Base.Bytes gen.SqlConsts.
From Coq Require Import String Ascii.

Definition EInvalidValue : N := 10.
Definition EMaxKeyLengthExceeded : N := 11.
Definition EMaxLengthExceeded : N := 12.

Notation p63 := 9223372036854775808 (only parsing).
Notation p64 := 18446744073709551616 (only parsing).
Notation p32 := 4294967296 (only parsing).
Notation zp63 := 9223372036854775808%Z (only parsing).
Notation zp64 := 18446744073709551616%Z (only parsing).

Inductive sqltype := TInteger | TBoolean | TVarchar | TBlob | TUuid | TTimestamp | TFloat.

Inductive sqlval :=
| VNull
| VInt (z : Z)
| VBool (b : bool)
| VStr (s : bytes)
| VBlob (s : bytes)
| VUuid (u : bytes)
| VTs (ns : Z)
| VFloat (bits : N).

(* uint64(x) of an int64 whose mathematical value is z; also the int64 wrap of an overflowing
   computation whose exact result is z *)
Definition wrap64 (z : Z) : N := Z.to_N (z mod zp64)%Z.
(* int64(u) of a uint64 *)
Definition to_int64 (u : N) : Z := if u <? p63 then Z.of_N u else (Z.of_N u - zp64)%Z.

(* ------------------------------------------------------------------ *)
(* IEEE-754 binary64 through its bit pattern                            *)
Definition f_sign (x : N) : N := x / p63.
Definition f_exp (x : N) : N := (x / 4503599627370496) mod 2048.
Definition f_mant (x : N) : N := x mod 4503599627370496.
Definition f_isnan (x : N) : bool := (f_exp x =? 2047) && negb (f_mant x =? 0).
Definition f_iszero (x : N) : bool := (f_exp x =? 0) && (f_mant x =? 0).
(* magnitude order of two non-NaN patterns: exponent first, then mantissa *)
Definition mag_compare (a b : N) : comparison :=
  match N.compare (f_exp a) (f_exp b) with Eq => N.compare (f_mant a) (f_mant b) | c => c end.
(* Go's a == b and a > b on float64 *)
Definition f_eq (a b : N) : bool :=
  negb (f_isnan a) && negb (f_isnan b) && ((f_iszero a && f_iszero b) || (a =? b)).
Definition f_gt (a b : N) : bool :=
  negb (f_isnan a) && negb (f_isnan b) && negb (f_iszero a && f_iszero b) &&
  (if f_sign a =? 0 then
     if f_sign b =? 0 then match mag_compare a b with Gt => true | _ => false end else true
   else
     if f_sign b =? 0 then false else match mag_compare a b with Lt => true | _ => false end).
(* Float64.Compare:  if v.val == rval {0}; if v.val > rval {1}; return -1 *)
Definition float_compare (a b : N) : comparison :=
  if f_eq a b then Eq else if f_gt a b then Gt else Lt.

(* ------------------------------------------------------------------ *)
(* byte helpers                                                         *)
(* encv[1] ^= m *)
Definition xor_first (m : N) (l : bytes) : bytes :=
  match l with x :: r => N.lxor x m :: r | [] => [] end.
(* encv[i] = ^encv[i] on every byte *)
Definition compl_all (l : bytes) : bytes := map (fun b => N.lxor b 255) l.
Definition zeros (n : N) : bytes := repeat 0 (N.to_nat n).

(* the float mangling of EncodeRawValueAsKey on the 8 big-endian bytes of the pattern *)
Definition float_mangle (raw : bytes) : bytes :=
  match raw with
  | b0 :: _ => if negb (N.land b0 128 =? 0) then compl_all raw else xor_first 128 raw
  | [] => []
  end.
(* the inverse as DecodeValueFromKey performs it *)
Definition float_demangle (raw : bytes) : bytes :=
  match raw with
  | b0 :: _ => if negb (N.land b0 128 =? 0) then xor_first 128 raw else compl_all raw
  | [] => []
  end.

(* `fix_negzero` = false: the code as it is (math.Float64bits of the value is mangled as is).
   Setting it to true models the candidate repair `if floatVal == 0 { floatVal = 0 }` before
   taking the bits (turns -0.0 into +0.0); that repair is NOT proposed, because the pinned test
   TestFloatIndexOnNegatives requires -0.0 to sort before +0.0 in an index. *)
Definition fix_negzero : bool := false.
Definition float_key_bits (fz : bool) (bits : N) : N := if fz && f_iszero bits then 0 else bits.

(* time.Time.UnixNano(): (sec*1e9 + nsec) in wrapping int64 arithmetic *)
Definition unix_nano (ns : Z) : Z := to_int64 (wrap64 ns).
(* TimeToInt64: t.Unix()*1e6 + int64(t.Nanosecond())/1e3, wrapping *)
Definition time_to_int64 (ns : Z) : Z :=
  to_int64 (wrap64 ((ns / 1000000000) * 1000000 + (ns mod 1000000000) / 1000))%Z.
(* TimeFromInt64: time.Unix(t/1e6, (t%1e6)*1e3) *)
Definition time_from_int64 (t : Z) : Z := (Z.quot t 1000000 * 1000000000 + Z.rem t 1000000 * 1000)%Z.

(* ------------------------------------------------------------------ *)
(* EncodeRawValueAsKey (generalised over the -0.0 normalisation flag)    *)
Definition enc_key_gen (fz : bool) (mkl : N) (ty : sqltype) (maxLen : N) (v : sqlval) : res (bytes * N) :=
  if maxLen =? 0 then Err EInvalidValue else
  if mkl <? maxLen then Err EMaxKeyLengthExceeded else
  match v with
  | VNull => Ok ([sq_KeyValPrefixNull], 0)
  | _ =>
    match ty, v with
    | TVarchar, VStr s | TBlob, VBlob s =>
        (* len(strVal) > maxLen: `len s` is the number of BYTES of the Go string (a VARCHAR[n] column holds
           n bytes, not n characters: the key slot below is maxLen bytes wide) *)
        if maxLen <? len s then Err EMaxLengthExceeded else
        (* make([]byte, 1+maxLen+EncLenLen); [0]=tag; copy(encv[1:], s); PutUint32(encv[len-4:], uint32(len)) *)
        Ok ([sq_KeyValPrefixNotNull] ++ s ++ zeros (maxLen - len s) ++ be_enc 4 (len s mod p32), len s)
    | TInteger, VInt z =>
        if negb (maxLen =? 8) then Err ECorruptedData else
        Ok (sq_KeyValPrefixNotNull :: xor_first 128 (be_enc 8 (wrap64 z)), 8)
    | TBoolean, VBool b =>
        if negb (maxLen =? 1) then Err ECorruptedData else
        Ok ([sq_KeyValPrefixNotNull; if b then 1 else 0], 1)
    | TUuid, VUuid u =>
        (* make([]byte,17); copy(encv[1:], uuid[:])  (a [16]byte array) *)
        Ok (sq_KeyValPrefixNotNull :: take 16 (u ++ zeros 16), 16)
    | TTimestamp, VTs ns =>
        if negb (maxLen =? 8) then Err ECorruptedData else
        Ok (sq_KeyValPrefixNotNull :: xor_first 128 (be_enc 8 (wrap64 (unix_nano ns))), 8)
    | TFloat, VFloat bits =>
        Ok (sq_KeyValPrefixNotNull :: float_mangle (be_enc 8 (float_key_bits fz bits)), 8)
    | _, _ => Err EInvalidValue
    end
  end.

Definition enc_key := enc_key_gen fix_negzero.

(* ------------------------------------------------------------------ *)
(* DecodeValueFromKey                                                    *)
Definition dec_key (ty : sqltype) (maxLen : N) (buf : bytes) : res (sqlval * N) :=
  if maxLen =? 0 then Err EInvalidValue else
  if len buf <? 1 then Err ECorruptedData else
  do tag <- at_ buf 0;
  if tag =? sq_KeyValPrefixNull then Ok (VNull, 1) else
  if negb (tag =? sq_KeyValPrefixNotNull) then Err ECorruptedData else
  match ty with
  | TVarchar | TBlob =>
      let need := 1 + maxLen + sq_EncLenLen in
      if len buf <? need then Err ECorruptedData else
      do s <- from_ buf (1 + maxLen); do n <- uint_ 4 s;
      if maxLen <? n then Err ECorruptedData else
      do v <- sub_ buf 1 (1 + n);
      Ok (match ty with TVarchar => VStr v | _ => VBlob v end, need)
  | TInteger =>
      if negb (maxLen =? 8) then Err ECorruptedData else
      if len buf <? 9 then Err ECorruptedData else
      do raw <- sub_ buf 1 9;
      Ok (VInt (to_int64 (be_dec (xor_first 128 raw))), 9)
  | TBoolean =>
      if negb (maxLen =? 1) then Err ECorruptedData else
      if len buf <? 2 then Err ECorruptedData else
      do b <- at_ buf 1;
      Ok (VBool (negb (b =? 0)), 2)
  | TUuid =>
      if negb (maxLen =? 16) then Err ECorruptedData else
      if len buf <? 17 then Err ECorruptedData else
      do u <- sub_ buf 1 17;
      Ok (VUuid u, 17)
  | TTimestamp =>
      if negb (maxLen =? 8) then Err ECorruptedData else
      if len buf <? 9 then Err ECorruptedData else
      do raw <- sub_ buf 1 9;
      (* time.Unix(0, nanos) *)
      Ok (VTs (to_int64 (be_dec (xor_first 128 raw))), 9)
  | TFloat =>
      if negb (maxLen =? 8) then Err ECorruptedData else
      if len buf <? 9 then Err ECorruptedData else
      do raw <- sub_ buf 1 9;
      Ok (VFloat (be_dec (float_demangle raw)), 9)
  end.

(* ------------------------------------------------------------------ *)
(* EncodeRawValue (maxLen 0 = no limit) and decodeValue                  *)
Definition enc_val (ty : sqltype) (maxLen : N) (nullable : bool) (v : sqlval) : res bytes :=
  match v with
  | VNull => if nullable then Ok (be_enc 4 0) else Err EInvalidValue
  | _ =>
    match ty, v with
    | TVarchar, VStr s | TBlob, VBlob s =>
        if (0 <? maxLen) && (maxLen <? len s) then Err EMaxLengthExceeded else
        Ok (be_enc 4 (len s mod p32) ++ s)
    | TInteger, VInt z => Ok (be_enc 4 8 ++ be_enc 8 (wrap64 z))
    | TBoolean, VBool b => Ok (be_enc 4 1 ++ [if b then 1 else 0])
    | TUuid, VUuid u => Ok (be_enc 4 16 ++ take 16 (u ++ zeros 16))
    | TTimestamp, VTs ns => Ok (be_enc 4 8 ++ be_enc 8 (wrap64 (time_to_int64 ns)))
    | TFloat, VFloat bits => Ok (be_enc 4 8 ++ be_enc 8 bits)
    | _, _ => Err EInvalidValue
    end
  end.

Definition dec_val (ty : sqltype) (nullable : bool) (b : bytes) : res (sqlval * N) :=
  (* DecodeValueLength *)
  if len b <? sq_EncLenLen then Err ECorruptedData else
  do vlen <- uint_ 4 b;
  let voff := sq_EncLenLen in
  if len b <? voff + vlen then Err ECorruptedData else
  if (vlen =? 0) && nullable then Ok (VNull, voff) else
  match ty with
  | TVarchar => do v <- sub_ b voff (voff + vlen); Ok (VStr v, voff + vlen)
  | TBlob => do v <- sub_ b voff (voff + vlen); Ok (VBlob v, voff + vlen)
  | TInteger =>
      if negb (vlen =? 8) then Err ECorruptedData else
      do s <- from_ b voff; do u <- uint_ 8 s; Ok (VInt (to_int64 u), voff + vlen)
  | TBoolean =>
      if negb (vlen =? 1) then Err ECorruptedData else
      do x <- at_ b voff; Ok (VBool (x =? 1), voff + 1)
  | TUuid =>
      if negb (vlen =? 16) then Err ECorruptedData else
      do u <- sub_ b voff (voff + 16); Ok (VUuid u, voff + vlen)
  | TTimestamp =>
      if negb (vlen =? 8) then Err ECorruptedData else
      do s <- from_ b voff; do u <- uint_ 8 s; Ok (VTs (time_from_int64 (to_int64 u)), voff + vlen)
  | TFloat =>
      if negb (vlen =? 8) then Err ECorruptedData else
      do s <- from_ b voff; do u <- uint_ 8 s; Ok (VFloat u, voff + vlen)
  end.

(* ------------------------------------------------------------------ *)
(* TypedValue.Compare between two values of one column (None = ErrNotComparableValues)  *)
Definition sql_compare (a b : sqlval) : option comparison :=
  match a, b with
  | VNull, VNull => Some Eq
  | VNull, _ => Some Lt
  | _, VNull => Some Gt
  | VInt x, VInt y => Some (Z.compare x y)
  | VBool x, VBool y => Some (if Bool.eqb x y then Eq else if x then Gt else Lt)
  | VStr x, VStr y => Some (bcmp x y)
  | VBlob x, VBlob y => Some (bcmp x y)
  | VUuid x, VUuid y => Some (bcmp x y)
  | VTs x, VTs y => Some (Z.compare x y)
  | VFloat x, VFloat y => Some (float_compare x y)
  | _, _ => None
  end.

(* Tuple.Compare: first non-equal (or failing) column decides *)
Fixpoint tuple_compare (a b : list sqlval) : option comparison :=
  match a, b with
  | [], [] => Some Eq
  | x :: a', y :: b' =>
      match sql_compare x y with
      | Some Eq => tuple_compare a' b'
      | r => r
      end
  | _, _ => None
  end.

(* ------------------------------------------------------------------ *)
(* composite keys                                                        *)
Definition col := (sqltype * N)%type.          (* column type, Column.MaxLen() *)

(* Column.MaxLen(): fixed for the fixed-width types, the declared length otherwise *)
Definition col_maxlen (ty : sqltype) (declared : N) : N :=
  match ty with
  | TBoolean => 1 | TInteger => 8 | TTimestamp => 8 | TFloat => 8 | TUuid => 16
  | TVarchar | TBlob => declared
  end.

Fixpoint enc_tuple_gen (fz : bool) (mkl : N) (cols : list col) (vals : list sqlval) : res bytes :=
  match cols, vals with
  | [], [] => Ok []
  | (ty, ml) :: cs, v :: vs =>
      do r <- enc_key_gen fz mkl ty ml v;
      do rest <- enc_tuple_gen fz mkl cs vs;
      Ok (fst r ++ rest)
  | _, _ => Err EInvalidValue
  end.
Definition enc_tuple := enc_tuple_gen fix_negzero.

Definition str_bytes (s : string) : bytes := map N_of_ascii (list_ascii_of_string s).
(* MapKey(prefix, mappingPrefix, encValues...) *)
Definition map_key (prefix : bytes) (mapping : string) (parts : list bytes) : bytes :=
  prefix ++ str_bytes mapping ++ List.concat parts.
(* EncodeID *)
Definition enc_id (id : N) : bytes := be_enc 4 (id mod p32).

(* indexEntryMapperFor: M.{tableID}{indexID}{index column values}{primary key values} *)
Definition index_key (mkl : N) (prefix : bytes) (tid iid : N)
           (cols : list col) (vals : list sqlval) (pkcols : list col) (pkvals : list sqlval) : res bytes :=
  do ev <- enc_tuple mkl cols vals;
  do pk <- enc_tuple mkl pkcols pkvals;
  Ok (map_key prefix sq_MappedPrefix [enc_id tid; enc_id iid; ev; pk]).

(* ------------------------------------------------------------------ *)
(* well-typed values of a column and the domains of the theorems         *)
Definition val_ok (ty : sqltype) (maxLen : N) (v : sqlval) : bool :=
  match v, ty with
  | VNull, _ => true
  | VInt z, TInteger => (- zp63 <=? z)%Z && (z <? zp63)%Z
  | VBool _, TBoolean => true
  | VStr s, TVarchar | VBlob s, TBlob => bytes_ok s && (len s <=? maxLen)
  | VUuid u, TUuid => bytes_ok u && (len u =? 16)
  | VTs _, TTimestamp => true
  | VFloat b, TFloat => b <? p64
  | _, _ => false
  end.

(* a column as the catalog allows it in an index: MaxLen() of its type, 1 .. MaxKeyLen for
   the variable-sized types *)
Definition col_ok (mkl : N) (c : col) : bool :=
  let '(ty, ml) := c in
  (1 <=? ml) && (ml <=? mkl) && (ml =? col_maxlen ty ml).

(* the part of the value space on which the key order agrees with the SQL comparison:
   no NaN, no -0.0 (unless normalised), timestamps inside the UnixNano range (years 1678..2262) *)
Definition in_order_domain (fz : bool) (v : sqlval) : bool :=
  match v with
  | VFloat b => negb (f_isnan b) && (fz || negb (b =? p63))
  | VTs ns => (- zp63 <=? ns)%Z && (ns <? zp63)%Z
  | _ => true
  end.

(* SQL timestamps are truncated to microseconds by the engine *)
Definition micro_precise (v : sqlval) : bool :=
  match v with
  | VTs ns => (ns mod 1000 =? 0)%Z && (- zp63 * 1000 <=? ns)%Z && (ns <? zp63 * 1000)%Z
  | _ => true
  end.
