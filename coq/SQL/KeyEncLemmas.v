(* C15, SQL part: arithmetic and byte-level lemmas about the key mangling of SQL/KeyEnc.v
   (sign-bit flip, complement, float pattern order), used by SQL/KeyEncProofs.v. *)
From V Require Import SQL.KeyEnc Store.CodecTotal.
From Coq Require Import ZifyN ZifyNat ZifyBool.
Ltac Zify.zify_post_hook ::= Z.to_euclidean_division_equations.

(* ------------------------------------------------------------------ *)
(* sweeping the 256 byte values                                         *)
Definition all_bytes : list N := map N.of_nat (seq 0 256).
Lemma in_all_bytes b : b < 256 -> In b all_bytes.
Proof.
  intros H. unfold all_bytes. apply in_map_iff. exists (N.to_nat b). split; [lia|].
  apply in_seq. lia.
Qed.
Lemma byte_sweep (f : N -> bool) : forallb f all_bytes = true -> forall b, b < 256 -> f b = true.
Proof. intros H b Hb. rewrite forallb_forall in H. apply H, in_all_bytes, Hb. Qed.

Lemma lxor128 b : b < 256 -> N.lxor b 128 = if b <? 128 then b + 128 else b - 128.
Proof.
  intros H. apply N.eqb_eq.
  apply (byte_sweep (fun b => N.lxor b 128 =? (if b <? 128 then b + 128 else b - 128)));
    [vm_compute; reflexivity | exact H].
Qed.
Lemma lxor255 b : b < 256 -> N.lxor b 255 = 255 - b.
Proof.
  intros H. apply N.eqb_eq.
  apply (byte_sweep (fun b => N.lxor b 255 =? 255 - b)); [vm_compute; reflexivity | exact H].
Qed.
Lemma land128 b : b < 256 -> (N.land b 128 =? 0) = (b <? 128).
Proof.
  intros H. apply Bool.eqb_prop.
  apply (byte_sweep (fun b => Bool.eqb (N.land b 128 =? 0) (b <? 128))); [vm_compute; reflexivity | exact H].
Qed.

(* ------------------------------------------------------------------ *)
(* big-endian facts                                                     *)
Lemma byte_ok_lt b : byte_ok b = true <-> b < 256.
Proof. unfold byte_ok. apply N.ltb_lt. Qed.

Lemma bytes_ok_cons x l : bytes_ok (x :: l) = true <-> x < 256 /\ bytes_ok l = true.
Proof. unfold bytes_ok; simpl. rewrite andb_true_iff, byte_ok_lt. reflexivity. Qed.

Lemma fold_be_acc l : forall acc,
  fold_left (fun acc b => acc * 256 + b) l acc = acc * 256 ^ len l + be_dec l.
Proof.
  unfold be_dec, len. induction l as [|x l IH]; intros acc.
  - simpl. lia.
  - cbn [fold_left length]. rewrite IH. rewrite (IH (0 * 256 + x)).
    rewrite Nnat.Nat2N.inj_succ, N.pow_succ_r'. lia.
Qed.
Lemma be_dec_cons x l : be_dec (x :: l) = x * 256 ^ len l + be_dec l.
Proof. unfold be_dec at 1. cbn [fold_left]. rewrite fold_be_acc. lia. Qed.

(* equal length, equal value => equal bytes *)
Lemma be_dec_inj a b :
  bytes_ok a = true -> bytes_ok b = true -> length a = length b -> be_dec a = be_dec b -> a = b.
Proof.
  intros Ha Hb Hl E. rewrite <- (be_enc_dec a Ha), <- (be_enc_dec b Hb), Hl, E. reflexivity.
Qed.

Lemma len_length l : len l = N.of_nat (length l). Proof. reflexivity. Qed.

Lemma pow256_8 : 256 ^ N.of_nat 8 = p64. Proof. reflexivity. Qed.
Lemma pow256_4 : 256 ^ N.of_nat 4 = p32. Proof. reflexivity. Qed.
Lemma pow256_7 : 256 ^ 7 = 72057594037927936. Proof. reflexivity. Qed.

(* the 8 bytes of u: head byte and the value of the tail *)
Lemma be_enc8_split u : u < p64 ->
  exists x r, be_enc 8 u = x :: r /\ length r = 7%nat /\ x < 256 /\ bytes_ok r = true /\
              u = x * 72057594037927936 + be_dec r /\ be_dec r < 72057594037927936.
Proof.
  intros Hu. pose proof (be_enc_length 8 u) as HL. pose proof (be_enc_ok 8 u) as HO.
  pose proof (be_dec_enc_small 8 u) as HD. rewrite pow256_8 in HD. specialize (HD Hu).
  destruct (be_enc 8 u) as [|x r]; [discriminate|].
  apply bytes_ok_cons in HO as [Hx Hr]. exists x, r.
  assert (Hlr : length r = 7%nat) by (simpl in HL; lia).
  rewrite be_dec_cons in HD. pose proof (be_dec_bound r Hr) as HB.
  unfold len in *. rewrite Hlr in *. change (N.of_nat 7) with 7 in *. rewrite pow256_7 in *.
  repeat split; auto; lia.
Qed.

(* encv[1] ^= 0x80 on the big-endian bytes of u adds / subtracts 2^63 *)
Lemma xor_first_be8 u : u < p64 ->
  xor_first 128 (be_enc 8 u) = be_enc 8 (if u <? p63 then u + p63 else u - p63).
Proof.
  intros Hu. destruct (be_enc8_split u Hu) as (x & r & E & Hl & Hx & Hr & Hv & Hb).
  rewrite E. cbn [xor_first]. rewrite lxor128 by exact Hx.
  set (u' := if u <? p63 then u + p63 else u - p63).
  assert (Hu' : u' < p64) by (unfold u'; destruct (N.ltb_spec u p63); lia).
  apply be_dec_inj.
  - apply bytes_ok_cons. split; [destruct (N.ltb_spec x 128); lia | exact Hr].
  - apply be_enc_ok.
  - rewrite be_enc_length. simpl. lia.
  - rewrite be_dec_enc_small by (rewrite pow256_8; exact Hu').
    rewrite be_dec_cons. unfold len. rewrite Hl. change (N.of_nat 7) with 7. rewrite pow256_7.
    unfold u'. destruct (N.ltb_spec x 128); destruct (N.ltb_spec u p63); lia.
Qed.

Lemma xor_first_invol l : xor_first 128 (xor_first 128 l) = l.
Proof.
  destruct l as [|x r]; auto. cbn [xor_first].
  rewrite N.lxor_assoc, N.lxor_nilpotent, N.lxor_0_r. reflexivity.
Qed.

Lemma compl_all_ok l : bytes_ok l = true -> bytes_ok (compl_all l) = true.
Proof.
  induction l as [|x l IH]; intros H; auto. apply bytes_ok_cons in H as [Hx Hl].
  cbn [compl_all map]. apply bytes_ok_cons. split; [rewrite lxor255 by exact Hx; lia | apply IH, Hl].
Qed.
Lemma compl_all_length l : length (compl_all l) = length l.
Proof. apply map_length. Qed.
Lemma compl_all_dec l : bytes_ok l = true -> be_dec (compl_all l) = 256 ^ len l - 1 - be_dec l.
Proof.
  induction l as [|x l IH]; intros H; [reflexivity|]. apply bytes_ok_cons in H as [Hx Hl].
  cbn [compl_all map]. rewrite !be_dec_cons. fold (compl_all l). rewrite IH by exact Hl.
  rewrite lxor255 by exact Hx. pose proof (be_dec_bound l Hl) as HB.
  unfold len in *. rewrite compl_all_length. cbn [length]. rewrite Nnat.Nat2N.inj_succ, N.pow_succ_r'.
  set (P := 256 ^ N.of_nat (length l)) in *. nia.
Qed.
Lemma compl_all_invol l : compl_all (compl_all l) = l.
Proof.
  induction l as [|x l IH]; auto. cbn [compl_all map]. fold (compl_all l). fold (compl_all (compl_all l)).
  rewrite IH, N.lxor_assoc, N.lxor_nilpotent, N.lxor_0_r. reflexivity.
Qed.
Lemma compl_all_be8 u : u < p64 -> compl_all (be_enc 8 u) = be_enc 8 (p64 - 1 - u).
Proof.
  intros Hu. apply be_dec_inj.
  - apply compl_all_ok, be_enc_ok.
  - apply be_enc_ok.
  - rewrite compl_all_length, !be_enc_length. reflexivity.
  - rewrite compl_all_dec by apply be_enc_ok. rewrite len_be_enc, pow256_8.
    rewrite !be_dec_enc_small by (rewrite pow256_8; lia). reflexivity.
Qed.

(* the float mangling as arithmetic on the pattern *)
Definition fkey (u : N) : N := if u <? p63 then u + p63 else p64 - 1 - u.
Lemma float_mangle_be8 u : u < p64 -> float_mangle (be_enc 8 u) = be_enc 8 (fkey u).
Proof.
  intros Hu. destruct (be_enc8_split u Hu) as (x & r & E & Hl & Hx & Hr & Hv & Hb).
  unfold float_mangle, fkey. rewrite E. rewrite land128 by exact Hx. rewrite <- E.
  destruct (N.ltb_spec x 128) as [L|G]; cbn [negb].
  - rewrite xor_first_be8 by exact Hu. destruct (N.ltb_spec u p63); [reflexivity | lia].
  - rewrite compl_all_be8 by exact Hu. destruct (N.ltb_spec u p63); [lia | reflexivity].
Qed.
Lemma fkey_lt u : u < p64 -> fkey u < p64.
Proof. unfold fkey. destruct (N.ltb_spec u p63); lia. Qed.
Lemma float_demangle_be8 u : u < p64 -> float_demangle (be_enc 8 (fkey u)) = be_enc 8 u.
Proof.
  intros Hu. pose proof (fkey_lt u Hu) as Hk.
  destruct (be_enc8_split (fkey u) Hk) as (x & r & E & Hl & Hx & Hr & Hv & Hb).
  unfold float_demangle. rewrite E. rewrite land128 by exact Hx. rewrite <- E.
  unfold fkey in *. destruct (N.ltb_spec u p63) as [L|G].
  - destruct (N.ltb_spec x 128); [lia|]. cbn [negb].
    rewrite xor_first_be8 by lia. destruct (N.ltb_spec (u + p63) p63); [lia|]. f_equal. lia.
  - destruct (N.ltb_spec x 128); [|lia]. cbn [negb].
    rewrite compl_all_be8 by lia. f_equal. lia.
Qed.

(* ------------------------------------------------------------------ *)
(* int64 <-> uint64                                                     *)
Definition int64_ok (z : Z) : Prop := (- zp63 <= z < zp63)%Z.

Lemma wrap64_lt z : wrap64 z < p64.
Proof. unfold wrap64. lia. Qed.
Lemma to_int64_ok u : u < p64 -> int64_ok (to_int64 u).
Proof. unfold to_int64, int64_ok. intros H. destruct (N.ltb_spec u p63); lia. Qed.
Lemma to_int64_wrap64 z : int64_ok z -> to_int64 (wrap64 z) = z.
Proof. unfold to_int64, wrap64, int64_ok. intros H. destruct (N.ltb_spec (Z.to_N (z mod zp64)) p63); lia. Qed.
Lemma wrap64_to_int64 u : u < p64 -> wrap64 (to_int64 u) = u.
Proof. unfold to_int64, wrap64. intros H. destruct (N.ltb_spec u p63); lia. Qed.
Lemma unix_nano_ok ns : int64_ok (unix_nano ns).
Proof. apply to_int64_ok, wrap64_lt. Qed.
Lemma unix_nano_id ns : int64_ok ns -> unix_nano ns = ns.
Proof. apply to_int64_wrap64. Qed.

(* the number whose 8 big-endian bytes follow the tag in an INTEGER / TIMESTAMP key *)
Definition ikey (z : Z) : N := Z.to_N (z + zp63).
Lemma int_key_bytes z : int64_ok z -> xor_first 128 (be_enc 8 (wrap64 z)) = be_enc 8 (ikey z).
Proof.
  intros H. rewrite xor_first_be8 by apply wrap64_lt. f_equal.
  unfold wrap64, ikey, int64_ok in *. destruct (N.ltb_spec (Z.to_N (z mod zp64)) p63); lia.
Qed.
Lemma ikey_lt z : int64_ok z -> ikey z < p64.
Proof. unfold ikey, int64_ok. lia. Qed.
Lemma ikey_compare a b : int64_ok a -> int64_ok b -> N.compare (ikey a) (ikey b) = Z.compare a b.
Proof.
  unfold ikey, int64_ok. intros Ha Hb.
  destruct (Z.compare_spec a b); [apply N.compare_eq_iff | apply N.compare_lt_iff | apply N.compare_gt_iff]; lia.
Qed.

(* ------------------------------------------------------------------ *)
(* floats: order of the mangled patterns                                *)
Lemma f_decomp a : a < p64 ->
  a = f_sign a * p63 + f_exp a * 4503599627370496 + f_mant a /\
  f_sign a < 2 /\ f_exp a < 2048 /\ f_mant a < 4503599627370496.
Proof. unfold f_sign, f_exp, f_mant. intros H. lia. Qed.

Lemma float_order_refl a : f_isnan a = false -> float_compare a a = Eq.
Proof. intros N. unfold float_compare, f_eq. rewrite N, N.eqb_refl, orb_true_r. reflexivity. Qed.

Lemma float_order a b : a < p64 -> b < p64 ->
  f_isnan a = false -> f_isnan b = false ->
  (f_iszero a && f_iszero b = false \/ a = b) ->
  N.compare (fkey a) (fkey b) = float_compare a b.
Proof.
  intros Ha Hb Na Nb Hz.
  destruct (N.eq_dec a b) as [E|NE].
  { subst b. rewrite float_order_refl by exact Na. apply N.compare_eq_iff. reflexivity. }
  destruct Hz as [Hz|Hz]; [|contradiction].
  destruct (f_decomp a Ha) as (Da & Sa & Ea & Ma). destruct (f_decomp b Hb) as (Db & Sb & Eb & Mb).
  unfold float_compare, f_eq, f_gt. rewrite Na, Nb, Hz. cbn [negb andb orb].
  destruct (N.eqb_spec a b) as [E|_]; [contradiction|].
  unfold f_isnan, f_iszero in *.
  assert (FA : fkey a = if f_sign a =? 0 then a + p63 else p64 - 1 - a).
  { unfold fkey. destruct (N.ltb_spec a p63); destruct (N.eqb_spec (f_sign a) 0); lia. }
  assert (FB : fkey b = if f_sign b =? 0 then b + p63 else p64 - 1 - b).
  { unfold fkey. destruct (N.ltb_spec b p63); destruct (N.eqb_spec (f_sign b) 0); lia. }
  rewrite FA, FB. clear FA FB. unfold mag_compare.
  set (sa := f_sign a) in *; set (ea := f_exp a) in *; set (ma := f_mant a) in *.
  set (sb := f_sign b) in *; set (eb := f_exp b) in *; set (mb := f_mant b) in *.
  destruct (N.eqb_spec sa 0) as [SA|SA]; destruct (N.eqb_spec sb 0) as [SB|SB];
  destruct (N.compare_spec ea eb) as [EE|EL|EG]; try destruct (N.compare_spec ma mb) as [ME|ML|MG];
  try (apply N.compare_lt_iff; lia); try (apply N.compare_gt_iff; lia); try (exfalso; lia).
  all: destruct (N.eqb_spec ea 0); destruct (N.eqb_spec ma 0); destruct (N.eqb_spec eb 0); destruct (N.eqb_spec mb 0);
       cbn [andb] in Hz; try discriminate; try (apply N.compare_lt_iff; lia); try (apply N.compare_gt_iff; lia).
Qed.
