(* C15, SQL part: order preservation, equal-values-equal-keys, decode/encode round trips and
   composite keys for the model of SQL/KeyEnc.v; refutation witnesses for the value ranges on
   which the code as it is violates the property. *)
From V Require Import SQL.KeyEnc Store.CodecTotal SQL.KeyEncLemmas.
From Coq Require Import ZifyN ZifyNat ZifyBool.
Ltac Zify.zify_post_hook ::= Z.to_euclidean_division_equations.

(* ------------------------------------------------------------------ *)
(* zero padding + length suffix preserves the order of byte strings     *)
Lemma bcmp_zeros_not_gt k : forall x, length x = k -> bcmp (repeat 0 k) x <> Gt.
Proof.
  induction k as [|k IH]; intros [|y x] H; cbn [repeat bcmp length] in *; try discriminate.
  destruct y as [|p]; cbn [N.compare]; [|discriminate].
  apply IH. lia.
Qed.

Lemma pad_nil_lt k b : b <> [] -> (length b <= k)%nat -> len b < p32 ->
  bcmp (repeat 0 k ++ be_enc 4 0) (b ++ repeat 0 (k - length b) ++ be_enc 4 (len b)) = Lt.
Proof.
  intros Hb Hl Hn. rewrite (app_assoc b).
  rewrite bcmp_app_eqlen by (rewrite app_length, !repeat_length; lia).
  pose proof (bcmp_zeros_not_gt k (b ++ repeat 0 (k - length b))) as HZ.
  destruct (bcmp (repeat 0 k) (b ++ repeat 0 (k - length b))); auto.
  - rewrite bcmp_be_enc by (rewrite ?pow256_4; lia). apply N.compare_lt_iff.
    destruct b; [congruence|]. unfold len. simpl length. lia.
  - exfalso. apply HZ; [rewrite app_length, repeat_length; lia | reflexivity].
Qed.

Lemma bcmp_suffix_swap h1 h2 s1 s2 t1 t2 :
  length h1 = length h2 -> bcmp s1 s2 = bcmp t1 t2 -> bcmp (h1 ++ s1) (h2 ++ s2) = bcmp (h1 ++ t1) (h2 ++ t2).
Proof. intros Hl E. rewrite (bcmp_app_eqlen h1 s1), (bcmp_app_eqlen h1 t1), E by exact Hl. reflexivity. Qed.

Lemma pad_order : forall a k b, (length a <= k)%nat -> (length b <= k)%nat -> len a < p32 -> len b < p32 ->
  bcmp (a ++ repeat 0 (k - length a) ++ be_enc 4 (len a)) (b ++ repeat 0 (k - length b) ++ be_enc 4 (len b)) = bcmp a b.
Proof.
  induction a as [|x a IH]; intros k b Ha Hb La Lb.
  - destruct b as [|y b].
    + apply bcmp_refl.
    + cbn [app length]. rewrite Nat.sub_0_r. change (len []) with 0.
      change (y :: b ++ repeat 0 (k - S (length b)) ++ be_enc 4 (len (y :: b)))
        with ((y :: b) ++ repeat 0 (k - length (y :: b)) ++ be_enc 4 (len (y :: b))).
      rewrite pad_nil_lt; auto. discriminate.
  - destruct b as [|y b].
    + rewrite bcmp_antisym. cbn [app length]. rewrite Nat.sub_0_r. change (len []) with 0.
      change (x :: a ++ repeat 0 (k - S (length a)) ++ be_enc 4 (len (x :: a)))
        with ((x :: a) ++ repeat 0 (k - length (x :: a)) ++ be_enc 4 (len (x :: a))).
      rewrite pad_nil_lt; auto. discriminate.
    + destruct k as [|k]; [simpl in Ha; lia|].
      cbn [app length bcmp]. rewrite !Nat.sub_succ.
      destruct (N.compare x y); auto.
      assert (E : forall (z : N) l, len (z :: l) = len l + 1) by (intros; unfold len; simpl length; lia).
      (* the length suffixes compare like the lengths of the tails *)
      assert (G : forall a' b', (length a' <= k)%nat -> (length b' <= k)%nat -> len a' + 1 < p32 -> len b' + 1 < p32 ->
                 bcmp (a' ++ repeat 0 (k - length a') ++ be_enc 4 (len a' + 1))
                      (b' ++ repeat 0 (k - length b') ++ be_enc 4 (len b' + 1)) =
                 bcmp (a' ++ repeat 0 (k - length a') ++ be_enc 4 (len a'))
                      (b' ++ repeat 0 (k - length b') ++ be_enc 4 (len b'))).
      { intros a' b' H1 H2 H3 H4. rewrite !(app_assoc _ (repeat _ _)).
        apply bcmp_suffix_swap; [rewrite !app_length, !repeat_length; lia|].
        rewrite !bcmp_be_enc by (rewrite pow256_4; lia).
        destruct (N.compare_spec (len a') (len b')); [apply N.compare_eq_iff | apply N.compare_lt_iff | apply N.compare_gt_iff]; lia. }
      rewrite !E. rewrite E in La, Lb. simpl in Ha, Hb.
      rewrite G by lia. apply IH; lia.
Qed.

(* ------------------------------------------------------------------ *)
(* normal form of a successfully encoded key                            *)
Definition key_nf (fz : bool) (ty : sqltype) (ml : N) (v : sqlval) (k : bytes) (n : N) : Prop :=
  match v with
  | VNull => k = [32] /\ n = 0
  | VInt z => ty = TInteger /\ ml = 8 /\ k = 128 :: be_enc 8 (ikey z) /\ n = 8
  | VBool b => ty = TBoolean /\ ml = 1 /\ k = [128; if b then 1 else 0] /\ n = 1
  | VStr s => ty = TVarchar /\ len s <= ml /\
              k = 128 :: s ++ repeat 0 (N.to_nat ml - length s) ++ be_enc 4 (len s) /\ n = len s
  | VBlob s => ty = TBlob /\ len s <= ml /\
              k = 128 :: s ++ repeat 0 (N.to_nat ml - length s) ++ be_enc 4 (len s) /\ n = len s
  | VUuid u => ty = TUuid /\ k = 128 :: u /\ n = 16
  | VTs ns => ty = TTimestamp /\ ml = 8 /\ k = 128 :: be_enc 8 (ikey (unix_nano ns)) /\ n = 8
  | VFloat bits => ty = TFloat /\ k = 128 :: be_enc 8 (fkey (float_key_bits fz bits)) /\ n = 8
  end.

Lemma val_ok_true ty ml v : val_ok ty ml v = true ->
  match v with
  | VNull => True
  | VInt z => ty = TInteger /\ int64_ok z
  | VBool _ => ty = TBoolean
  | VStr s => ty = TVarchar /\ bytes_ok s = true /\ len s <= ml
  | VBlob s => ty = TBlob /\ bytes_ok s = true /\ len s <= ml
  | VUuid u => ty = TUuid /\ bytes_ok u = true /\ len u = 16
  | VTs _ => ty = TTimestamp
  | VFloat b => ty = TFloat /\ b < p64
  end.
Proof.
  unfold int64_ok. destruct v, ty; simpl; try discriminate; auto; intros H;
    repeat match goal with H : _ && _ = true |- _ => apply andb_prop in H as [? ?] end;
    repeat split; auto; lia.
Qed.

Lemma float_key_bits_lt fz b : b < p64 -> float_key_bits fz b < p64.
Proof. unfold float_key_bits. destruct (fz && f_iszero b); lia. Qed.

Lemma zeros_repeat ml s : zeros (ml - len s) = repeat 0 (N.to_nat ml - length s).
Proof. unfold zeros, len. f_equal. lia. Qed.

Lemma enc_key_nf fz mkl ty ml v k n : mkl < p32 ->
  val_ok ty ml v = true -> enc_key_gen fz mkl ty ml v = Ok (k, n) ->
  key_nf fz ty ml v k n /\ 1 <= ml <= mkl.
Proof.
  intros Hm Hv. apply val_ok_true in Hv. unfold enc_key_gen.
  destruct (N.eqb_spec ml 0) as [|M0]; [discriminate|].
  destruct (N.ltb_spec mkl ml) as [|M1]; [discriminate|].
  unfold sq_KeyValPrefixNull, sq_KeyValPrefixNotNull.
  intros E. split; [|lia].
  destruct v; cbn [key_nf].
  - split; congruence.
  - destruct Hv as [-> Hz]. destruct (N.eqb_spec ml 8) as [->|]; cbn [negb] in E; [|discriminate].
    rewrite int_key_bytes in E by exact Hz. repeat split; congruence.
  - subst ty. destruct (N.eqb_spec ml 1) as [->|]; cbn [negb] in E; [|discriminate].
    repeat split; congruence.
  - destruct Hv as (-> & Hs & Hl). destruct (N.ltb_spec ml (len s)); [discriminate|].
    rewrite N.mod_small in E by lia. rewrite zeros_repeat in E. cbn [app] in E. repeat split; auto; congruence.
  - destruct Hv as (-> & Hs & Hl). destruct (N.ltb_spec ml (len s)); [discriminate|].
    rewrite N.mod_small in E by lia. rewrite zeros_repeat in E. cbn [app] in E. repeat split; auto; congruence.
  - destruct Hv as (-> & Hs & Hl).
    replace (take 16 (u ++ zeros 16)) with u in E
      by (symmetry; rewrite <- Hl; apply take_app_exact).
    repeat split; congruence.
  - subst ty. destruct (N.eqb_spec ml 8) as [->|]; cbn [negb] in E; [|discriminate].
    rewrite int_key_bytes in E by apply unix_nano_ok. repeat split; congruence.
  - destruct Hv as [-> Hb]. rewrite float_mangle_be8 in E by (apply float_key_bits_lt, Hb).
    repeat split; congruence.
Qed.

(* ------------------------------------------------------------------ *)
(* -0.0 and +0.0                                                        *)
Lemma f_iszero_spec a : a < p64 -> (f_iszero a = true <-> a = 0 \/ a = p63).
Proof.
  intros Ha. destruct (f_decomp a Ha) as (D & S & E & M). unfold f_iszero.
  rewrite andb_true_iff, !N.eqb_eq. lia.
Qed.

Lemma float_compare_negzero_l b : float_compare p63 b = float_compare 0 b.
Proof.
  unfold float_compare, f_eq, f_gt, mag_compare.
  change (f_isnan p63) with false. change (f_isnan 0) with false.
  change (f_iszero p63) with true. change (f_iszero 0) with true.
  change (f_sign p63 =? 0) with false. change (f_sign 0 =? 0) with true.
  change (f_exp p63) with 0. change (f_exp 0) with 0. change (f_mant p63) with 0. change (f_mant 0) with 0.
  cbn [negb andb]. destruct (f_isnan b) eqn:NB; cbn [negb andb]; [reflexivity|].
  destruct (f_iszero b) eqn:ZB; cbn [orb negb andb]; [reflexivity|].
  assert (b <> 0 /\ b <> p63) as [B0 B1].
  { split; intros ->; vm_compute in ZB; discriminate. }
  destruct (N.eqb_spec p63 b); [congruence|]. destruct (N.eqb_spec 0 b); [congruence|].
  unfold f_iszero in ZB.
  destruct (f_sign b =? 0); destruct (f_exp b) as [|pe]; destruct (f_mant b) as [|pm];
    cbn [N.compare N.eqb andb] in *; try reflexivity; discriminate.
Qed.

Lemma float_compare_negzero_r a : float_compare a p63 = float_compare a 0.
Proof.
  unfold float_compare, f_eq, f_gt, mag_compare.
  change (f_isnan p63) with false. change (f_isnan 0) with false.
  change (f_iszero p63) with true. change (f_iszero 0) with true.
  change (f_sign p63 =? 0) with false. change (f_sign 0 =? 0) with true.
  change (f_exp p63) with 0. change (f_exp 0) with 0. change (f_mant p63) with 0. change (f_mant 0) with 0.
  destruct (f_isnan a) eqn:NA; cbn [negb andb]; [reflexivity|].
  destruct (f_iszero a) eqn:ZA; rewrite ?andb_true_r, ?andb_false_r; cbn [orb negb andb]; [reflexivity|].
  assert (a <> 0 /\ a <> p63) as [A0 A1].
  { split; intros ->; vm_compute in ZA; discriminate. }
  destruct (N.eqb_spec a p63); [congruence|]. destruct (N.eqb_spec a 0); [congruence|].
  unfold f_iszero in ZA.
  destruct (f_sign a =? 0); destruct (f_exp a) as [|pe]; destruct (f_mant a) as [|pm];
    cbn [N.compare N.eqb andb] in *; try reflexivity; discriminate.
Qed.

Lemma float_compare_norm a b : a < p64 -> b < p64 ->
  float_compare (float_key_bits true a) (float_key_bits true b) = float_compare a b.
Proof.
  intros Ha Hb. unfold float_key_bits. cbn [andb].
  destruct (f_iszero a) eqn:ZA; destruct (f_iszero b) eqn:ZB;
    try (apply (f_iszero_spec a Ha) in ZA; destruct ZA as [-> | ->]);
    try (apply (f_iszero_spec b Hb) in ZB; destruct ZB as [-> | ->]);
    rewrite ?float_compare_negzero_l, ?float_compare_negzero_r; reflexivity.
Qed.

Lemma f_isnan_norm fz a : a < p64 -> f_isnan (float_key_bits fz a) = f_isnan a.
Proof.
  intros Ha. unfold float_key_bits. destruct fz; cbn [andb]; auto.
  destruct (f_iszero a) eqn:Z; auto. apply (f_iszero_spec a Ha) in Z. destruct Z as [-> | ->]; reflexivity.
Qed.

(* ------------------------------------------------------------------ *)
(* THE ORDER THEOREM                                                    *)
Lemma in_order_domain_float fz b : in_order_domain fz (VFloat b) = true ->
  f_isnan b = false /\ (fz = true \/ b <> p63).
Proof.
  cbn [in_order_domain]. rewrite andb_true_iff, negb_true_iff, orb_true_iff, negb_true_iff, N.eqb_neq. tauto.
Qed.
Lemma in_order_domain_ts fz ns : in_order_domain fz (VTs ns) = true -> int64_ok ns.
Proof. cbn [in_order_domain]. unfold int64_ok. lia. Qed.

Lemma float_key_order fz a b : a < p64 -> b < p64 ->
  in_order_domain fz (VFloat a) = true -> in_order_domain fz (VFloat b) = true ->
  N.compare (fkey (float_key_bits fz a)) (fkey (float_key_bits fz b)) = float_compare a b.
Proof.
  intros Ha Hb Da Db.
  apply in_order_domain_float in Da as [Na Za]. apply in_order_domain_float in Db as [Nb Zb].
  destruct fz.
  - rewrite <- (float_compare_norm a b Ha Hb).
    apply float_order; try apply float_key_bits_lt; auto; try (rewrite f_isnan_norm; auto).
    unfold float_key_bits. cbn [andb].
    destruct (f_iszero a) eqn:ZA; destruct (f_iszero b) eqn:ZB;
      [right; reflexivity | left; rewrite ZB; apply andb_false_r
       | left; rewrite ZA; reflexivity | left; rewrite ZA; reflexivity].
  - destruct Za as [|Za]; [discriminate|]. destruct Zb as [|Zb]; [discriminate|].
    unfold float_key_bits. cbn [andb]. apply float_order; auto.
    destruct (f_iszero a) eqn:ZA; destruct (f_iszero b) eqn:ZB; auto.
    apply (f_iszero_spec a Ha) in ZA. apply (f_iszero_spec b Hb) in ZB. right. lia.
Qed.

Theorem key_order_gen fz mkl ty ml a b ka na kb nb :
  mkl < p32 ->
  val_ok ty ml a = true -> val_ok ty ml b = true ->
  in_order_domain fz a = true -> in_order_domain fz b = true ->
  enc_key_gen fz mkl ty ml a = Ok (ka, na) -> enc_key_gen fz mkl ty ml b = Ok (kb, nb) ->
  sql_compare a b = Some (bcmp ka kb).
Proof.
  intros Hm Va Vb Da Db Ea Eb.
  destruct (enc_key_nf fz mkl ty ml a ka na Hm Va Ea) as [NA Hml].
  destruct (enc_key_nf fz mkl ty ml b kb nb Hm Vb Eb) as [NB _].
  apply val_ok_true in Va. apply val_ok_true in Vb.
  destruct a, b; cbn [key_nf] in NA, NB; cbn [sql_compare];
    repeat match goal with H : _ /\ _ |- _ => destruct H end; subst; try discriminate;
    try reflexivity.
  - (* INTEGER *)
    cbn [bcmp]. rewrite N.compare_refl, bcmp_be_enc by (rewrite pow256_8; apply ikey_lt; assumption).
    rewrite ikey_compare by assumption. reflexivity.
  - (* BOOLEAN *) destruct b0, b; reflexivity.
  - (* VARCHAR *)
    cbn [bcmp]. rewrite N.compare_refl. rewrite pad_order by (unfold len in *; lia). reflexivity.
  - (* BLOB *)
    cbn [bcmp]. rewrite N.compare_refl. rewrite pad_order by (unfold len in *; lia). reflexivity.
  (* UUID: closed by reflexivity above *)
  - (* TIMESTAMP *)
    apply in_order_domain_ts in Da, Db.
    cbn [bcmp]. rewrite N.compare_refl, bcmp_be_enc by (rewrite pow256_8; apply ikey_lt, unix_nano_ok).
    rewrite ikey_compare by apply unix_nano_ok. rewrite !unix_nano_id by assumption. reflexivity.
  - (* FLOAT *)
    cbn [bcmp]. rewrite N.compare_refl,
      bcmp_be_enc by (rewrite pow256_8; apply fkey_lt, float_key_bits_lt; assumption).
    rewrite float_key_order by assumption. reflexivity.
Qed.

(* ------------------------------------------------------------------ *)
(* equal values, identical keys                                         *)
Definition eq_domain (fz : bool) (v : sqlval) : bool :=
  match v with VFloat b => fz || negb (b =? p63) | _ => true end.

Lemma float_compare_eq a b : float_compare a b = Eq -> f_eq a b = true.
Proof. unfold float_compare. destruct (f_eq a b); auto. destruct (f_gt a b); discriminate. Qed.

Theorem equal_values_equal_keys_gen fz mkl ty ml a b ka na kb nb :
  mkl < p32 ->
  val_ok ty ml a = true -> val_ok ty ml b = true ->
  eq_domain fz a = true -> eq_domain fz b = true ->
  enc_key_gen fz mkl ty ml a = Ok (ka, na) -> enc_key_gen fz mkl ty ml b = Ok (kb, nb) ->
  sql_compare a b = Some Eq -> ka = kb.
Proof.
  intros Hm Va Vb Da Db Ea Eb.
  destruct (enc_key_nf fz mkl ty ml a ka na Hm Va Ea) as [NA Hml].
  destruct (enc_key_nf fz mkl ty ml b kb nb Hm Vb Eb) as [NB _].
  apply val_ok_true in Va. apply val_ok_true in Vb.
  destruct a, b; cbn [key_nf] in NA, NB; cbn [sql_compare];
    repeat match goal with H : _ /\ _ |- _ => destruct H end; subst; try discriminate;
    intros C; try reflexivity.
  - assert (E : (z ?= z0)%Z = Eq) by congruence. apply Z.compare_eq in E. subst. reflexivity.
  - destruct b0, b; try discriminate; reflexivity.
  - assert (E : bcmp s s0 = Eq) by congruence. apply bcmp_eq in E. subst. reflexivity.
  - assert (E : bcmp s s0 = Eq) by congruence. apply bcmp_eq in E. subst. reflexivity.
  - assert (E : bcmp u u0 = Eq) by congruence. apply bcmp_eq in E. subst. reflexivity.
  - assert (E : (ns ?= ns0)%Z = Eq) by congruence. apply Z.compare_eq in E. subst. reflexivity.
  - assert (E : float_compare bits bits0 = Eq) by congruence. apply float_compare_eq in E.
    unfold f_eq in E. apply andb_prop in E as [E1 E2]. apply orb_prop in E2.
    cbn [eq_domain] in Da, Db. unfold float_key_bits.
    destruct fz; cbn [andb orb] in *.
    + destruct E2 as [E2|E2].
      * apply andb_prop in E2 as [-> ->]. reflexivity.
      * apply N.eqb_eq in E2. subst. reflexivity.
    + apply negb_true_iff, N.eqb_neq in Da, Db. destruct E2 as [E2|E2].
      * apply andb_prop in E2 as [Z1 Z2].
        apply (f_iszero_spec bits) in Z1; auto. apply (f_iszero_spec bits0) in Z2; auto.
        replace bits with 0 by lia. replace bits0 with 0 by lia. reflexivity.
      * apply N.eqb_eq in E2. subst. reflexivity.
Qed.

(* ------------------------------------------------------------------ *)
(* composite keys                                                       *)
Definition same_shape (x y : bytes) : Prop :=
  length x = length y \/ exists hx tx hy ty, x = hx :: tx /\ y = hy :: ty /\ hx <> hy.

Lemma bcmp_app_shape x y x' y' : same_shape x y ->
  bcmp (x ++ x') (y ++ y') = match bcmp x y with Eq => bcmp x' y' | c => c end.
Proof.
  intros [H | (hx & tx & hy & ty & -> & -> & NE)]; [apply bcmp_app_eqlen, H|].
  cbn [app bcmp]. destruct (N.compare_spec hx hy); [contradiction | reflexivity | reflexivity].
Qed.

Lemma key_nf_shape fz ty ml a b ka na kb nb :
  val_ok ty ml a = true -> val_ok ty ml b = true ->
  key_nf fz ty ml a ka na -> key_nf fz ty ml b kb nb -> same_shape ka kb.
Proof.
  intros Va Vb NA NB. apply val_ok_true in Va. apply val_ok_true in Vb.
  destruct a, b; cbn [key_nf] in NA, NB;
    repeat match goal with H : _ /\ _ |- _ => destruct H end; subst; try discriminate;
    try (left; reflexivity);
    try (right; do 4 eexists; split; [reflexivity | split; [reflexivity | discriminate]]).
  all: left; cbn [length]; rewrite ?app_length, ?repeat_length, ?be_enc_length; unfold len in *; lia.
Qed.

Fixpoint tuple_ok (fz : bool) (cols : list col) (vals : list sqlval) : bool :=
  match cols, vals with
  | [], [] => true
  | (ty, ml) :: cs, v :: vs => val_ok ty ml v && in_order_domain fz v && tuple_ok fz cs vs
  | _, _ => false
  end.

Theorem composite_gen fz mkl : mkl < p32 -> forall cols va vb ka kb ta tb,
  tuple_ok fz cols va = true -> tuple_ok fz cols vb = true ->
  enc_tuple_gen fz mkl cols va = Ok ka -> enc_tuple_gen fz mkl cols vb = Ok kb ->
  exists c, tuple_compare va vb = Some c /\
            bcmp (ka ++ ta) (kb ++ tb) = match c with Eq => bcmp ta tb | _ => c end.
Proof.
  intros Hm. induction cols as [|[ty ml] cs IH]; intros va vb ka kb ta tb Oa Ob Ea Eb.
  - destruct va, vb; try discriminate. cbn in Ea, Eb.
    assert (ka = []) by congruence. assert (kb = []) by congruence. subst.
    exists Eq. split; reflexivity.
  - destruct va as [|x va]; [discriminate|]. destruct vb as [|y vb]; [discriminate|].
    cbn [tuple_ok] in Oa, Ob.
    apply andb_prop in Oa as [Oa Oa3]. apply andb_prop in Oa as [Oa1 Oa2].
    apply andb_prop in Ob as [Ob Ob3]. apply andb_prop in Ob as [Ob1 Ob2].
    cbn [enc_tuple_gen] in Ea, Eb.
    apply bind_ok in Ea as ([k1 n1] & Ea1 & Ea). apply bind_ok in Ea as (ra & Ea2 & Ea).
    apply bind_ok in Eb as ([k2 n2] & Eb1 & Eb). apply bind_ok in Eb as (rb & Eb2 & Eb).
    cbn [fst] in Ea, Eb. assert (ka = k1 ++ ra) by congruence. assert (kb = k2 ++ rb) by congruence. subst.
    rewrite <- !app_assoc.
    destruct (enc_key_nf _ _ _ _ _ _ _ Hm Oa1 Ea1) as [N1 _].
    destruct (enc_key_nf _ _ _ _ _ _ _ Hm Ob1 Eb1) as [N2 _].
    rewrite bcmp_app_shape by (apply (key_nf_shape fz ty ml x y k1 n1 k2 n2); assumption).
    pose proof (key_order_gen _ _ _ _ _ _ _ _ _ _ Hm Oa1 Ob1 Oa2 Ob2 Ea1 Eb1) as KO.
    cbn [tuple_compare]. rewrite KO.
    destruct (bcmp k1 k2).
    + apply IH; auto.
    + exists Lt. split; reflexivity.
    + exists Gt. split; reflexivity.
Qed.

Lemma tuple_ok_length fz : forall cols vals, tuple_ok fz cols vals = true -> length vals = length cols.
Proof.
  induction cols as [|[ty ml] cs IH]; intros [|v vs] H; try discriminate; auto.
  cbn [tuple_ok] in H. apply andb_prop in H as [_ H]. simpl. f_equal. auto.
Qed.

Lemma tuple_compare_app : forall va vb pa pb, length va = length vb ->
  tuple_compare (va ++ pa) (vb ++ pb) =
  match tuple_compare va vb with Some Eq => tuple_compare pa pb | r => r end.
Proof.
  induction va as [|x va IH]; intros [|y vb] pa pb H; try discriminate; [reflexivity|].
  cbn [app tuple_compare]. destruct (sql_compare x y) as [[| |]|]; auto.
Qed.

(* the whole index entry key: same table and index, order = (index columns, then primary key) *)
Theorem index_key_order_gen fz mkl prefix tid iid cols pkcols va vb pa pb KA KB :
  mkl < p32 ->
  tuple_ok fz cols va = true -> tuple_ok fz cols vb = true ->
  tuple_ok fz pkcols pa = true -> tuple_ok fz pkcols pb = true ->
  (do ev <- enc_tuple_gen fz mkl cols va; do pk <- enc_tuple_gen fz mkl pkcols pa;
   Ok (map_key prefix sq_MappedPrefix [enc_id tid; enc_id iid; ev; pk])) = Ok KA ->
  (do ev <- enc_tuple_gen fz mkl cols vb; do pk <- enc_tuple_gen fz mkl pkcols pb;
   Ok (map_key prefix sq_MappedPrefix [enc_id tid; enc_id iid; ev; pk])) = Ok KB ->
  tuple_compare (va ++ pa) (vb ++ pb) = Some (bcmp KA KB).
Proof.
  intros Hm Oa Ob Pa Pb Ea Eb.
  apply bind_ok in Ea as (ea & Ea1 & Ea). apply bind_ok in Ea as (pka & Ea2 & Ea).
  apply bind_ok in Eb as (eb & Eb1 & Eb). apply bind_ok in Eb as (pkb & Eb2 & Eb).
  assert (KA = map_key prefix sq_MappedPrefix [enc_id tid; enc_id iid; ea; pka]) by congruence.
  assert (KB = map_key prefix sq_MappedPrefix [enc_id tid; enc_id iid; eb; pkb]) by congruence.
  subst. unfold map_key. cbn [List.concat]. rewrite !app_nil_r.
  rewrite !bcmp_app_same.
  destruct (composite_gen fz mkl Hm cols va vb ea eb pka pkb Oa Ob Ea1 Eb1) as (c & C1 & C2).
  destruct (composite_gen fz mkl Hm pkcols pa pb pka pkb [] [] Pa Pb Ea2 Eb2) as (c' & C1' & C2').
  rewrite !app_nil_r in C2'. cbn [bcmp] in C2'.
  rewrite tuple_compare_app by (rewrite (tuple_ok_length _ _ _ Oa), (tuple_ok_length _ _ _ Ob); reflexivity).
  rewrite C1, C2. destruct c; auto.
  rewrite C1', C2'. destruct c'; reflexivity.
Qed.

(* ------------------------------------------------------------------ *)
(* DecodeValueFromKey (EncodeRawValueAsKey v) = v, also when the key is followed by other columns *)
Lemma at_0 x l : at_ (x :: l) 0 = Ok x. Proof. reflexivity. Qed.
Lemma at_1 x y l : at_ (x :: y :: l) 1 = Ok y. Proof. reflexivity. Qed.
Lemma len_cons (x : N) l : len (x :: l) = 1 + len l.
Proof. unfold len. simpl length. lia. Qed.
Lemma sub_cons_1 x p r j : j = 1 + len p -> sub_ (x :: p ++ r) 1 j = Ok p.
Proof.
  intros ->. rewrite sub_ok by (rewrite ?len_cons, ?len_app; lia).
  replace (1 + len p - 1) with (len p) by lia.
  change (drop 1 (x :: p ++ r)) with (p ++ r). rewrite take_app_exact. reflexivity.
Qed.
Lemma from_app_exact p q i : i = len p -> from_ (p ++ q) i = Ok q.
Proof. intros ->. rewrite from_ok by (rewrite len_app; lia). rewrite drop_app_exact. reflexivity. Qed.
Lemma uint_be k v r : v < 256 ^ N.of_nat k -> uint_ k (be_enc k v ++ r) = Ok v.
Proof.
  intros H. rewrite uint_ok by (rewrite len_app, len_be_enc; lia).
  rewrite firstn_app, be_enc_length, Nat.sub_diag, firstn_O, app_nil_r.
  rewrite <- (be_enc_length k v) at 1. rewrite firstn_all. rewrite be_dec_enc_small by exact H. reflexivity.
Qed.

Ltac ltb_false :=
  match goal with |- context [if ?a <? ?b then _ else _] =>
    destruct (N.ltb_spec a b) as [?|?]; [lia|] end.

(* what a decoded key value is: the value itself, except that the -0.0 normalisation (if enabled)
   has turned -0.0 into +0.0 *)
Definition key_canon (fz : bool) (v : sqlval) : sqlval :=
  match v with VFloat b => VFloat (float_key_bits fz b) | _ => v end.
(* timestamps inside the UnixNano range *)
Definition key_rt_domain (v : sqlval) : bool :=
  match v with VTs ns => (- zp63 <=? ns)%Z && (ns <? zp63)%Z | _ => true end.

Theorem key_decode_encode_gen fz mkl ty ml v k n rest :
  mkl < p32 -> col_ok mkl (ty, ml) = true ->
  val_ok ty ml v = true -> key_rt_domain v = true ->
  enc_key_gen fz mkl ty ml v = Ok (k, n) ->
  dec_key ty ml (k ++ rest) = Ok (key_canon fz v, len k).
Proof.
  intros Hm Hc Hv Hd E.
  destruct (enc_key_nf fz mkl ty ml v k n Hm Hv E) as [NF Hml].
  pose proof (val_ok_true _ _ _ Hv) as Hv'.
  unfold col_ok in Hc. apply andb_prop in Hc as [_ Hc]. apply N.eqb_eq in Hc.
  unfold dec_key. destruct (N.eqb_spec ml 0) as [|_]; [lia|].
  unfold sq_KeyValPrefixNull, sq_KeyValPrefixNotNull, sq_EncLenLen.
  destruct v; cbn [key_nf] in NF; repeat match goal with H : _ /\ _ |- _ => destruct H end; subst;
    cbn [key_canon app]; rewrite ?len_cons, ?len_app, ?len_be_enc;
    change (N.of_nat 8) with 8; change (N.of_nat 4) with 4; change (len []) with 0.
  - (* NULL *)
    ltb_false. rewrite at_0. reflexivity.
  - (* INTEGER *)
    ltb_false. rewrite at_0. cbn [bind N.eqb Pos.eqb negb]. ltb_false.
    rewrite sub_cons_1 by (rewrite len_be_enc; reflexivity). cbn [bind].
    rewrite <- int_key_bytes by assumption. rewrite xor_first_invol.
    rewrite be_dec_enc_small by (rewrite pow256_8; apply wrap64_lt).
    rewrite to_int64_wrap64 by assumption. reflexivity.
  - (* BOOLEAN *)
    ltb_false. rewrite at_0. cbn [bind N.eqb Pos.eqb negb]. ltb_false. rewrite at_1. cbn [bind].
    destruct b; reflexivity.
  - (* VARCHAR *)
    assert (LR : len (repeat 0 (N.to_nat ml - length s)) = ml - len s) by (unfold len; rewrite repeat_length; lia).
    rewrite LR.
    ltb_false. rewrite at_0. cbn [bind N.eqb Pos.eqb negb]. ltb_false.
    replace (128 :: (s ++ repeat 0 (N.to_nat ml - length s) ++ be_enc 4 (len s)) ++ rest)
      with ((128 :: s ++ repeat 0 (N.to_nat ml - length s)) ++ be_enc 4 (len s) ++ rest)
      by (cbn [app]; rewrite <- !app_assoc; reflexivity).
    rewrite from_app_exact by (rewrite len_cons, len_app, LR; lia). cbn [bind].
    rewrite uint_be by (rewrite pow256_4; lia). cbn [bind]. ltb_false.
    cbn [app]. rewrite <- !app_assoc. rewrite sub_cons_1 by reflexivity. cbn [bind].
    do 2 f_equal; lia.
  - (* BLOB *)
    assert (LR : len (repeat 0 (N.to_nat ml - length s)) = ml - len s) by (unfold len; rewrite repeat_length; lia).
    rewrite LR.
    ltb_false. rewrite at_0. cbn [bind N.eqb Pos.eqb negb]. ltb_false.
    replace (128 :: (s ++ repeat 0 (N.to_nat ml - length s) ++ be_enc 4 (len s)) ++ rest)
      with ((128 :: s ++ repeat 0 (N.to_nat ml - length s)) ++ be_enc 4 (len s) ++ rest)
      by (cbn [app]; rewrite <- !app_assoc; reflexivity).
    rewrite from_app_exact by (rewrite len_cons, len_app, LR; lia). cbn [bind].
    rewrite uint_be by (rewrite pow256_4; lia). cbn [bind]. ltb_false.
    cbn [app]. rewrite <- !app_assoc. rewrite sub_cons_1 by reflexivity. cbn [bind].
    do 2 f_equal; lia.
  - (* UUID *)
    cbn [col_maxlen] in Hc. subst ml.
    ltb_false. rewrite at_0. cbn [bind N.eqb Pos.eqb negb]. ltb_false.
    rewrite sub_cons_1 by lia. cbn [bind]. do 2 f_equal; lia.
  - (* TIMESTAMP *)
    ltb_false. rewrite at_0. cbn [bind N.eqb Pos.eqb negb]. ltb_false.
    rewrite sub_cons_1 by (rewrite len_be_enc; reflexivity). cbn [bind].
    rewrite <- int_key_bytes by apply unix_nano_ok. rewrite xor_first_invol.
    rewrite be_dec_enc_small by (rewrite pow256_8; apply wrap64_lt).
    rewrite to_int64_wrap64 by apply unix_nano_ok.
    rewrite unix_nano_id by (cbn [key_rt_domain] in Hd; unfold int64_ok; lia). reflexivity.
  - (* FLOAT *)
    cbn [col_maxlen] in Hc. subst ml.
    ltb_false. rewrite at_0. cbn [bind N.eqb Pos.eqb negb]. ltb_false.
    rewrite sub_cons_1 by (rewrite len_be_enc; reflexivity). cbn [bind].
    rewrite float_demangle_be8 by (apply float_key_bits_lt; assumption).
    rewrite be_dec_enc_small by (rewrite pow256_8; apply float_key_bits_lt; assumption). reflexivity.
Qed.

(* ------------------------------------------------------------------ *)
(* decodeValue (EncodeRawValue v) = v                                    *)
(* values as a row payload holds them (no column-length limit needed for the round trip) *)
Definition rowval_ok (ty : sqltype) (v : sqlval) : bool :=
  match v, ty with
  | VNull, _ => true
  | VInt z, TInteger => (- zp63 <=? z)%Z && (z <? zp63)%Z
  | VBool _, TBoolean => true
  | VStr s, TVarchar | VBlob s, TBlob => len s <? p32
  | VUuid u, TUuid => len u =? 16
  | VTs _, TTimestamp => true
  | VFloat b, TFloat => b <? p64
  | _, _ => false
  end.
(* DecodeNullableValue cannot tell an empty VARCHAR/BLOB from NULL *)
Definition nullable_rt_domain (nullable : bool) (v : sqlval) : bool :=
  match v with
  | VStr s | VBlob s => negb nullable || negb (len s =? 0)
  | _ => true
  end.

Lemma time_roundtrip ns : micro_precise (VTs ns) = true ->
  time_from_int64 (to_int64 (wrap64 (time_to_int64 ns))) = ns.
Proof.
  cbn [micro_precise]. intros H.
  apply andb_prop in H as [H H3]. apply andb_prop in H as [H1 H2].
  assert (Hm : (ns mod 1000 = 0)%Z) by lia.
  assert (Hr : (- zp63 * 1000 <= ns < zp63 * 1000)%Z) by lia. clear H1 H2 H3.
  set (q := (ns / 1000)%Z).
  assert (Hq : ns = (q * 1000)%Z) by (unfold q; lia).
  assert (Iq : int64_ok q) by (unfold int64_ok; lia).
  assert (T : time_to_int64 ns = q).
  { unfold time_to_int64.
    replace ((ns / 1000000000) * 1000000 + (ns mod 1000000000) / 1000)%Z with q by (unfold q; lia).
    apply to_int64_wrap64, Iq. }
  rewrite T, to_int64_wrap64 by exact Iq.
  unfold time_from_int64. lia.
Qed.

Ltac eqb_step :=
  match goal with |- context [if negb (?a =? ?b) then _ else _] =>
    destruct (N.eqb_spec a b) as [?|?]; cbn [negb]; [|lia] end.

Theorem val_decode_encode ty ml nullable v enc rest :
  rowval_ok ty v = true -> micro_precise v = true -> nullable_rt_domain nullable v = true ->
  enc_val ty ml nullable v = Ok enc ->
  dec_val ty nullable (enc ++ rest) = Ok (v, len enc).
Proof.
  intros Hv Hmic Hn E. unfold dec_val, sq_EncLenLen.
  destruct v, ty; cbn [rowval_ok] in Hv; try discriminate; cbn [enc_val] in E;
    try (destruct nullable; [|discriminate]);
    try (destruct ((0 <? ml) && (ml <? len s)); [discriminate|]);
    try (rewrite N.mod_small in E by (apply N.ltb_lt; exact Hv));
    match type of E with Ok ?x = _ => assert (enc = x) by congruence end; subst enc; clear E;
    rewrite ?len_app, ?len_be_enc; change (N.of_nat 4) with 4; change (N.of_nat 8) with 8;
    try change (len [if b then 1 else 0]) with 1;
    try ltb_false;
    try (rewrite <- app_assoc);
    (rewrite uint_be by (rewrite pow256_4; try (apply N.ltb_lt; exact Hv); lia)); cbn [bind];
    try ltb_false.
  1-7: reflexivity.
  - (* INTEGER *) apply andb_prop in Hv as [H1 H2].
    cbn [andb N.eqb Pos.eqb negb].
    rewrite from_app_exact by (rewrite len_be_enc; reflexivity). cbn [bind].
    rewrite uint_be by (rewrite pow256_8; apply wrap64_lt). cbn [bind].
    rewrite to_int64_wrap64 by (unfold int64_ok; lia). reflexivity.
  - (* BOOLEAN *)
    cbn [andb N.eqb Pos.eqb negb].
    replace (be_enc 4 1 ++ [if b then 1 else 0] ++ rest) with (be_enc 4 1 ++ (if b then 1 else 0) :: rest) by reflexivity.
    destruct b; reflexivity.
  - (* VARCHAR *)
    cbn [nullable_rt_domain] in Hn.
    destruct ((len s =? 0) && nullable) eqn:Z.
    { apply andb_prop in Z as [Z1 Z2]. rewrite Z1, Z2 in Hn. discriminate. }
    rewrite sub_ok by (rewrite ?len_app, ?len_be_enc; change (N.of_nat 4) with 4; lia).
    replace (4 + len s - 4) with (len s) by lia.
    change 4 with (len (be_enc 4 (len s))) at 1. rewrite drop_app_exact, take_app_exact. reflexivity.
  - (* BLOB *)
    cbn [nullable_rt_domain] in Hn.
    destruct ((len s =? 0) && nullable) eqn:Z.
    { apply andb_prop in Z as [Z1 Z2]. rewrite Z1, Z2 in Hn. discriminate. }
    rewrite sub_ok by (rewrite ?len_app, ?len_be_enc; change (N.of_nat 4) with 4; lia).
    replace (4 + len s - 4) with (len s) by lia.
    change 4 with (len (be_enc 4 (len s))) at 1. rewrite drop_app_exact, take_app_exact. reflexivity.
  - (* UUID *) apply N.eqb_eq in Hv.
    assert (TU : take 16 (u ++ zeros 16) = u) by (rewrite <- Hv; apply take_app_exact).
    rewrite TU. ltb_false. cbn [andb N.eqb Pos.eqb negb].
    rewrite sub_ok by (rewrite ?len_app, ?len_be_enc; change (N.of_nat 4) with 4; lia).
    replace (4 + 16 - 4) with (len u) by lia.
    change 4 with (len (be_enc 4 16)) at 1. rewrite drop_app_exact, take_app_exact. cbn [bind].
    do 2 f_equal. lia.
  - (* TIMESTAMP *)
    cbn [andb N.eqb Pos.eqb negb].
    rewrite from_app_exact by (rewrite len_be_enc; reflexivity). cbn [bind].
    rewrite uint_be by (rewrite pow256_8; apply wrap64_lt). cbn [bind].
    rewrite time_roundtrip by exact Hmic. reflexivity.
  - (* FLOAT *) apply N.ltb_lt in Hv.
    cbn [andb N.eqb Pos.eqb negb].
    rewrite from_app_exact by (rewrite len_be_enc; reflexivity). cbn [bind].
    rewrite uint_be by (rewrite pow256_8; exact Hv). cbn [bind]. reflexivity.
Qed.

(* ------------------------------------------------------------------ *)
(* the code as it is: where the full statements fail (witnesses evaluated by vm_compute) *)
Definition key_of (ty : sqltype) (ml : N) (v : sqlval) : bytes :=
  match enc_key 1024 ty ml v with Ok (k, _) => k | _ => [] end.

(* +0.0 and -0.0 are equal for the SQL comparison but have different keys *)
Theorem equal_values_equal_keys_refuted : exists a b,
  val_ok TFloat 8 a = true /\ val_ok TFloat 8 b = true /\ sql_compare a b = Some Eq /\
  is_ok (enc_key 1024 TFloat 8 a) = true /\ is_ok (enc_key 1024 TFloat 8 b) = true /\
  key_of TFloat 8 a <> key_of TFloat 8 b.
Proof.
  exists (VFloat 0), (VFloat p63). repeat split; try (vm_compute; reflexivity).
  vm_compute. discriminate.
Qed.

(* a NaN compares below 1.0 (Float64.Compare answers -1 whenever an operand is NaN) but its key is above *)
Theorem key_order_refuted_nan : exists a b,
  val_ok TFloat 8 a = true /\ val_ok TFloat 8 b = true /\
  is_ok (enc_key 1024 TFloat 8 a) = true /\ is_ok (enc_key 1024 TFloat 8 b) = true /\
  sql_compare a b = Some Lt /\ bcmp (key_of TFloat 8 a) (key_of TFloat 8 b) = Gt.
Proof.
  exists (VFloat 9221120237041090560), (VFloat 4607182418800017408).
  repeat split; vm_compute; reflexivity.
Qed.

(* 1600-01-01T00:00:00Z is before 1970-01-01T00:00:00Z but its key is above (UnixNano wraps) *)
Theorem key_order_refuted_timestamp : exists a b,
  val_ok TTimestamp 8 a = true /\ val_ok TTimestamp 8 b = true /\
  micro_precise a = true /\ micro_precise b = true /\
  is_ok (enc_key 1024 TTimestamp 8 a) = true /\ is_ok (enc_key 1024 TTimestamp 8 b) = true /\
  sql_compare a b = Some Lt /\ bcmp (key_of TTimestamp 8 a) (key_of TTimestamp 8 b) = Gt.
Proof.
  exists (VTs (-11676096000000000000)), (VTs 0).
  repeat split; vm_compute; reflexivity.
Qed.

(* ... and it does not decode back to itself *)
Theorem key_decode_encode_refuted_timestamp : exists v,
  val_ok TTimestamp 8 v = true /\ micro_precise v = true /\
  is_ok (enc_key 1024 TTimestamp 8 v) = true /\
  dec_key TTimestamp 8 (key_of TTimestamp 8 v) = Ok (VTs 6770648073709551616, 9).
Proof.
  exists (VTs (-11676096000000000000)). repeat split; vm_compute; reflexivity.
Qed.

(* EncodeNullableValue / DecodeNullableValue (file sorter): an empty VARCHAR comes back as NULL *)
Theorem val_decode_encode_refuted_nullable_empty :
  exists enc, enc_val TVarchar 0 true (VStr []) = Ok enc /\ dec_val TVarchar true enc = Ok (VNull, 4).
Proof. exists [0; 0; 0; 0]. split; vm_compute; reflexivity. Qed.

(* ------------------------------------------------------------------ *)
(* the premises of the theorems are satisfiable                          *)
Example key_order_sat : exists a b ka na kb nb,
  val_ok TVarchar 3 a = true /\ val_ok TVarchar 3 b = true /\
  in_order_domain fix_negzero a = true /\ in_order_domain fix_negzero b = true /\
  enc_key 1024 TVarchar 3 a = Ok (ka, na) /\ enc_key 1024 TVarchar 3 b = Ok (kb, nb) /\
  sql_compare a b = Some Lt.
Proof.
  exists (VStr [97]), (VStr [97; 0]). do 4 eexists. repeat split; vm_compute; reflexivity.
Qed.

Example key_order_sat_float : exists a b ka na kb nb,
  val_ok TFloat 8 a = true /\ val_ok TFloat 8 b = true /\
  in_order_domain fix_negzero a = true /\ in_order_domain fix_negzero b = true /\
  enc_key 1024 TFloat 8 a = Ok (ka, na) /\ enc_key 1024 TFloat 8 b = Ok (kb, nb) /\
  sql_compare a b = Some Lt.
Proof.
  (* -Inf and the smallest positive subnormal *)
  exists (VFloat 18442240474082181120), (VFloat 1). do 4 eexists. repeat split; vm_compute; reflexivity.
Qed.

Example composite_sat : exists cols va vb ka kb,
  tuple_ok fix_negzero cols va = true /\ tuple_ok fix_negzero cols vb = true /\
  enc_tuple 1024 cols va = Ok ka /\ enc_tuple 1024 cols vb = Ok kb /\
  tuple_compare va vb = Some Gt.
Proof.
  exists [(TVarchar, 2); (TInteger, 8); (TFloat, 8)],
         [VStr [97]; VInt 5; VFloat 0], [VStr [97]; VNull; VFloat 4607182418800017408].
  do 2 eexists. repeat split; vm_compute; reflexivity.
Qed.

Example key_decode_encode_sat : exists v k n,
  col_ok 1024 (TTimestamp, 8) = true /\ val_ok TTimestamp 8 v = true /\ key_rt_domain v = true /\
  enc_key 1024 TTimestamp 8 v = Ok (k, n).
Proof. exists (VTs (-1000)). do 2 eexists. repeat split; vm_compute; reflexivity. Qed.

Example val_decode_encode_sat : exists v enc,
  rowval_ok TTimestamp v = true /\ micro_precise v = true /\ nullable_rt_domain false v = true /\
  enc_val TTimestamp 0 false v = Ok enc.
Proof. exists (VTs (-11676096000000000000)). eexists. repeat split; vm_compute; reflexivity. Qed.
