(* C11 — SQL query results do not depend on the physical plan.
   Fragment: one table t(id INTEGER PK, a, b INTEGER NULL, s VARCHAR), indexes over any sequence
   of the integer columns, WHERE = comparisons column-vs-constant (=,<>,<,<=,>,>=, IS [NOT] NULL),
   const-vs-column, AND/OR/NOT, [NOT] IN, (P) IS [NOT] NULL; ORDER BY columns asc/desc with
   NULLS FIRST/LAST; LIMIT/OFFSET; USE INDEX ON.  Joins, GROUP BY, DISTINCT, subqueries,
   historical queries and count-on-index are NOT modelled (they are
   covered by the differential twin-query harness only).
   This file contains only the property theorems, each closed by `exact`. *)
From V Require Import Plan.Model Plan.EncOrder Plan.Ranges Plan.Scan Plan.Exec.
From Coq Require Import Sorting.Sorted Sorting.Permutation.

(* No false negatives of the pushed-down range: for EVERY index (prefix, columns), predicate and
   int64 row, if the row satisfies the predicate then its mapped key in that index lies inside the
   [loKey, hiKey] that keyReaderSpecFrom builds from selectorRanges (0xFF upper bound, stop at the
   first unbounded column included). *)
Theorem C11_scan_range_complete :
  forall (pfx : bytes) (cols : list col) (p : pred) (r : row),
    row_ok r = true -> pred_ok p = true -> eval p r = true ->
    let '(lo, hi) := key_reader_spec pfx cols (sel_ranges p no_ranges) in
    key_le lo (mapped_key pfx cols r) = true /\ key_le (mapped_key pfx cols r) hi = true.
Proof. exact scan_range_complete_lemma. Qed.
Print Assumptions C11_scan_range_complete.

(* For EVERY table content, every index, either scan direction and every predicate of the
   fragment: range scan of the index + residual filter returns exactly the rows (as a multiset)
   that the primary-key scan + filter returns, which are exactly the satisfying rows of the table. *)
Theorem C11_index_scan_eq_pk_scan :
  forall (pfx1 pfx2 : bytes) (cols : list col) (desc1 desc2 : bool) (t : list row) (p : pred),
    table_ok t = true -> pred_ok p = true ->
    Permutation (index_scan pfx1 cols desc1 t p) (index_scan pfx2 [CId] desc2 t p) /\
    Permutation (index_scan pfx1 cols desc1 t p) (filter (eval p) t).
Proof. exact index_scan_eq_pk_scan_lemma. Qed.
Print Assumptions C11_index_scan_eq_pk_scan.

(* Rows leave an index scan in the SQL order of (index columns, primary key): NULL first,
   ascending; exactly reversed when the scan is descending. *)
Theorem C11_index_order_is_sql_order :
  forall (pfx : bytes) (cols : list col) (desc : bool) (t : list row) (p : pred),
    table_ok t = true -> pred_ok p = true ->
    StronglySorted (row_le cols desc) (index_scan pfx cols desc t p).
Proof. exact index_order_lemma. Qed.
Print Assumptions C11_index_order_is_sql_order.

(* Splitting a query Q by a predicate P into Q AND P, Q AND NOT P, Q AND (P IS NULL) -- each part
   served by ANY index in any direction -- partitions the result of Q: the three parts together
   are the rows of Q and every row of Q is in exactly one part. (The engine's comparisons are
   two-valued with NULL lowest, so the third part is always empty.) *)
Theorem C11_partition_by_predicate :
  forall (t : list row) (q p : pred)
         (pfx0 : bytes) (cs0 : list col) (d0 : bool) (pfx1 : bytes) (cs1 : list col) (d1 : bool)
         (pfx2 : bytes) (cs2 : list col) (d2 : bool) (pfx3 : bytes) (cs3 : list col) (d3 : bool),
    table_ok t = true -> pred_ok q = true -> pred_ok p = true ->
    Permutation (index_scan pfx1 cs1 d1 t (PAnd q p) ++
                 index_scan pfx2 cs2 d2 t (PAnd q (PNot p)) ++
                 index_scan pfx3 cs3 d3 t (PAnd q (PIsUnk false p)))
                (index_scan pfx0 cs0 d0 t q) /\
    (forall r, eval q r = true ->
       (eval (PAnd q p) r = true /\ eval (PAnd q (PNot p)) r = false /\ eval (PAnd q (PIsUnk false p)) r = false) \/
       (eval (PAnd q p) r = false /\ eval (PAnd q (PNot p)) r = true /\ eval (PAnd q (PIsUnk false p)) r = false)).
Proof. exact partition_lemma. Qed.
Print Assumptions C11_partition_by_predicate.

(* Whatever index genScanSpecs selects (ORDER BY coverage, equality-range fallback) or is forced
   to use by USE INDEX ON, with or without an explicit sort: the rows returned before
   OFFSET/LIMIT are exactly the satisfying rows of the table. *)
Theorem C11_every_plan_same_rows :
  forall (pfx_of : index -> bytes) (idxs : list index) (t : list row) (q : query) (pl : plan),
    table_ok t = true -> pred_ok (q_where q) = true ->
    gen_plan pfx_of idxs q = Some pl ->
    Permutation (exec_plan pfx_of t q pl) (filter (eval (q_where q)) t).
Proof. exact exec_plan_rows. Qed.
Print Assumptions C11_every_plan_same_rows.

(* ORDER BY output is sorted by the SQL comparison of the ordering columns (the sort reader's
   comparator: ASC/DESC per column, NULLS FIRST/LAST honoured), for EVERY plan: explicit sort, or
   index-served ORDER BY whenever coversOrdCols accepts the index (index prefix, or leading columns
   pinned by equality ranges; one direction; no NULLS clause opposite to the index's placement --
   the rule as fixed by f375c29, before which this statement was refuted). *)
Theorem C11_order_by_sorted :
  forall (pfx_of : index -> bytes) (idxs : list index) (t : list row) (q : query) (pl : plan),
    table_ok t = true -> pred_ok (q_where q) = true ->
    gen_plan pfx_of idxs q = Some pl ->
    ord_sorted (q_order q) (exec_plan pfx_of t q pl).
Proof. exact order_by_sorted_lemma. Qed.
Print Assumptions C11_order_by_sorted.

(* With a total ORDER BY (it mentions the primary key) the result
   SEQUENCE, LIMIT/OFFSET window included, is the same for any two available index sets and any
   two USE INDEX choices. *)
Theorem C11_total_order_plan_independent :
  forall (pfx_of pfx_of' : index -> bytes) (idxs idxs' : list index) (t : list row) (q : query)
         (u u' : option (list col)) (pl pl' : plan),
    table_ok t = true -> NoDup (map r_id t) -> pred_ok (q_where q) = true ->
    In CId (map o_col (q_order q)) ->
    gen_plan pfx_of idxs (mkQuery (q_where q) (q_order q) (q_limit q) (q_offset q) u) = Some pl ->
    gen_plan pfx_of' idxs' (mkQuery (q_where q) (q_order q) (q_limit q) (q_offset q) u') = Some pl' ->
    exec pfx_of idxs t (mkQuery (q_where q) (q_order q) (q_limit q) (q_offset q) u) =
    exec pfx_of' idxs' t (mkQuery (q_where q) (q_order q) (q_limit q) (q_offset q) u').
Proof. exact total_order_plan_independent_lemma. Qed.
Print Assumptions C11_total_order_plan_independent.

(* "inside an open transaction as well as after commit" is REFUTED on the code as it is: the
   transaction-local view of a secondary index keeps the committed entries of rows the transaction
   has rewritten or deleted (and holds one pk-less transient entry per distinct tuple of index
   values), so two USE INDEX choices inside one transaction return different rows.  The model of
   that view (Plan.Model.tx_entries) is tied to the engine by in-transaction cases. *)
Theorem C11_in_tx_plan_independence_refuted :
  exists (pfx_of : index -> bytes) (idxs : list index) (committed : list row) (ops : list txop)
         (q : query) (u1 u2 : option (list col)) (pl1 pl2 : plan),
    table_ok committed = true /\ ops_ok ops = true /\ pred_ok (q_where q) = true /\
    gen_plan pfx_of idxs (mkQuery (q_where q) (q_order q) (q_limit q) (q_offset q) u1) = Some pl1 /\
    gen_plan pfx_of idxs (mkQuery (q_where q) (q_order q) (q_limit q) (q_offset q) u2) = Some pl2 /\
    ~ Permutation (exec_plan_in_tx pfx_of committed ops q pl1) (exec_plan_in_tx pfx_of committed ops q pl2).
Proof. exact in_tx_plan_independence_refuted_lemma. Qed.
Print Assumptions C11_in_tx_plan_independence_refuted.

(* What does hold inside a transaction: every plan over the PRIMARY index returns exactly the
   satisfying rows of the table as the transaction's own inserts/updates/deletes have made it. *)
Theorem C11_in_tx_primary_index_partial :
  forall (pfx_of : index -> bytes) (idxs : list index) (committed : list row) (ops : list txop)
         (q : query) (pl : plan),
    table_ok committed = true -> ops_ok ops = true -> pred_ok (q_where q) = true ->
    gen_plan pfx_of idxs q = Some pl -> ix_primary (p_index pl) = true ->
    Permutation (exec_plan_in_tx pfx_of committed ops q pl)
                (filter (eval (q_where q)) (tx_table committed ops)).
Proof. exact in_tx_primary_exact_lemma. Qed.
Print Assumptions C11_in_tx_primary_index_partial.

(* ... and a transaction that has not written reads, through any index, what a committed read does
   (so all the statements above carry over to it). *)
Theorem C11_in_tx_without_writes_partial :
  forall (pfx_of : index -> bytes) (committed : list row) (q : query) (pl : plan),
    exec_plan_in_tx pfx_of committed [] q pl = exec_plan pfx_of committed q pl.
Proof. exact in_tx_no_writes_lemma. Qed.
Print Assumptions C11_in_tx_without_writes_partial.
