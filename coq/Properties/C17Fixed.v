(* C17 — Appendable files behave as a persistent byte log: the theorems that hold AFTER the repair
   fixes/C17-rewind-truncates.diff (SetOffset below the flushed size truncates the file; multiapp's
   SetOffset into an earlier chunk removes the chunk files that follow; Open reads preallocSize from
   its own metadata key).  NOT about the code that exists today: this file replaces Properties/C17.v
   in the step that commits the fix and flips `use_fixed_models` in Tie/C17.v.
   Models: App/Fixed.v (`s_step_fx`, `m_step_fx`: only SetOffset differs from Single.v / Multi.v).
   This file contains only theorems, each closed by `exact`. *)
From V Require Import App.Spec App.Single App.SingleProofs App.SingleSim.
From V Require Import App.Multi App.MultiProofs App.MultiRead App.MultiSim.
From V Require Import App.Fixed App.FixedProofs App.FixedMulti.

(* singleapp (not preallocated) IS the byte array: for EVERY operation sequence — appends, reads,
   rewinds below the flushed size, flush/sync, discard, read-only switch, close, REOPEN with any
   valid options, COPY at any point — and every option combination (buffer size, retryableSync,
   autoSync incl. ErrBufferFull), every returned offset / byte string / size / error class / copy
   content equals the byte array's.  No clean-state premise. *)
Theorem C17_single_refines_log : forall meta o ops,
  opts_valid o = true ->
  Forall2 out_match (s_run_fx false (s_create 0 meta o) ops) (spec_run (log_init (zeros 0) meta o) ops).
Proof. exact single_refines_log_fixed. Qed.
Print Assumptions C17_single_refines_log.

(* multiapp (not preallocated) IS the byte array: every operation sequence (rewinds into earlier
   chunks, reopen, Copy included), every chunk size > 0, flush-when-full or retryableSync+autoSync *)
Theorem C17_multi_refines_log : forall fs meta o ops,
  0 < fs -> opts_valid o = true -> nocap o = true -> ops_nocap ops = true ->
  Forall2 out_match (m_run_fx (m_create fs false meta o) ops) (spec_run (log_init (zeros 0) meta o) ops).
Proof. exact multi_refines_log_fixed. Qed.
Print Assumptions C17_multi_refines_log.

(* preallocated singleapp files are not touched by the repair (they keep their size by design):
   the model is the one of Single.v, to which the theorems below apply *)
Theorem C17_single_prealloc_unchanged : forall s ops, s_run_fx true s ops = s_run s ops.
Proof. exact single_fixed_prealloc_same. Qed.
Print Assumptions C17_single_prealloc_unchanged.

(* singleapp incl. preallocation: exact outputs as long as no reopen / Copy happens while the
   file is longer than the offset; within one session unconditional up to the content of such a Copy *)
Theorem C17_single_refines_log_partial : forall p meta o ops,
  opts_valid o = true ->
  s_clean (s_create p meta o) ops = true ->
  Forall2 out_match (s_run (s_create p meta o) ops) (spec_run (log_init (zeros p) meta o) ops).
Proof. exact single_refines_log_partial. Qed.
Print Assumptions C17_single_refines_log_partial.

Theorem C17_single_refines_log_session : forall p meta o ops,
  opts_valid o = true -> no_reopen ops = true ->
  Forall2 out_match_c (s_run (s_create p meta o) ops) (spec_run (log_init (zeros p) meta o) ops).
Proof. exact single_refines_log_session. Qed.
Print Assumptions C17_single_refines_log_session.

(* along EVERY run of the repaired model the write-buffer indices stay in range *)
Theorem C17_single_buffer_indices_in_range : forall pre p meta o ops,
  opts_valid o = true ->
  let h := s_h (s_state_fx pre (s_create p meta o) ops) in
  h_fl h <= h_uw h /\ h_uw h <= len (h_wbuf h) /\ h_fl h <= h_fo h.
Proof. exact single_buffer_indices_in_range_fixed. Qed.
Print Assumptions C17_single_buffer_indices_in_range.

(* DiscardUpto is not changed by the repair: in ANY state a successful DiscardUpto(n) changes the
   result of no ReadAt at an offset >= n *)
Theorem C17_multi_discard_keeps_suffix : forall m n k off,
  0 < m_fs m -> snd (m_step_fx m (Discard n)) = OOk -> n <= off ->
  snd (m_step_fx (fst (m_step_fx m (Discard n))) (ReadAt k off)) = snd (m_step_fx m (ReadAt k off)).
Proof. exact multi_discard_keeps_suffix. Qed.
Print Assumptions C17_multi_discard_keeps_suffix.
