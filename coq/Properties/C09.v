(* C09 — Corruption of stored data is detected, never served as valid.
   Only the property theorems, each closed by `exact`. The model (Corrupt/TxRecord.v) is the code
   as it is: the readers compare the recomputed Alh ONLY with the 32 bytes stored inside the record (and the
   decoded id with the requested one),
   vLen/vOff are under no hash, ReadValue answers vLen = 0 before any check. The statement of the
   property therefore splits into what holds (…_partial, …_detected, …_no_panic) and what the
   current code violates (…_refuted, witnesses replayed on the Go code by harness/c09).
   The refutations are proved for EVERY hash function (GenericRefute.v, from the round-trip
   theorem); instances evaluated with the executable SHA-256 (one flipped bit of a real record) are in Corrupt/Witness.v, which this file imports so that they are re-checked
   on every run; they are not restated here because Print Assumptions lists Coq's primitive
   63-bit integers, used by that SHA-256, as axioms. *)
From V Require Import Corrupt.TxRecord Corrupt.HTreeBind Corrupt.Binding Corrupt.ReaderSound
  Corrupt.NoPanic Corrupt.Roundtrip Corrupt.GenericRefute Corrupt.IdAndExport Corrupt.Witness Merkle.Sha256.

(* The entry tree binds its leaves: two lists of entry digests of equal length with the same root
   are the same list, or a hash collision has been exhibited. *)
Theorem C09_htree_root_binds_leaves :
  forall H : bytes -> bytes, (forall x, length (H x) = 32%nat) ->
  forall ds ds' : list bytes, length ds = length ds' ->
  htree_root H ds = htree_root H ds' -> ds = ds' \/ Collision H.
Proof. exact htree_root_inj. Qed.
Print Assumptions C09_htree_root_binds_leaves.

(* The Alh binds every hashed field: two well-formed transactions with the same Alh have the same
   id, PrevAlh, timestamp, version, tx metadata, entry count, Eh, BlTxID, BlRoot, and entry by
   entry the same key, key metadata and value digest — or a collision. vLen and vOff are absent:
   they are under no hash. *)
Theorem C09_alh_binds_content :
  forall H : bytes -> bytes, (forall x, length (H x) = 32%nat) ->
  forall (t t' : tx) (a : bytes),
  tx_wf H t -> tx_wf H t' -> tx_alh H (t_hdr t) = Ok a -> tx_alh H (t_hdr t') = Ok a ->
  same_hashed t t' \/ Collision H.
Proof. exact alh_binding. Qed.
Print Assumptions C09_alh_binds_content.

(* Transactions, the strongest true statement: for a committed transaction t with Alh a and EVERY
   byte string s handed to the integrity-checked reader (any alteration of any number of bytes of
   the record and of whatever follows it), if the read succeeds and the 32 bytes it compared the
   recomputed Alh with are the committed Alh a, then header, keys, key metadata and value digests
   are the committed ones, or a collision has been exhibited. *)
Theorem C09_corrupt_tx_detected_partial :
  forall H : bytes -> bytes, (forall x, length (H x) = 32%nat) ->
  forall (t : tx) (a : bytes), tx_wf H t -> tx_alh H (t_hdr t) = Ok a ->
  forall (ns mk : N) (s : bytes) (t' : tx) (rest : bytes),
  bytes_ok s = true -> read_tx H true ns mk s = Ok (t', a, rest) ->
  same_hashed t t' \/ Collision H.
Proof. exact corrupt_tx_detected_partial. Qed.
Print Assumptions C09_corrupt_tx_detected_partial.

(* The same in terms of the stored record: rec is the record written for t; rec' is ANY byte string
   of the same length whose last 32 bytes (the stored Alh) are those of rec, followed by anything;
   if the integrity-checked read of rec' succeeds, everything hashed is the committed content. *)
Theorem C09_corrupt_tx_detected_partial_record :
  forall H : bytes -> bytes, (forall x, length (H x) = 32%nat) ->
  forall (t : tx) (rec : bytes), tx_wf H t -> write_tx H t = Ok rec ->
  forall (rec' rest : list N) (ns mk : N) (t' : tx) (a : bytes),
  length rec' = length rec ->
  skipn (length rec - 32) rec' = skipn (length rec - 32) rec ->
  bytes_ok (rec' ++ rest) = true ->
  read_tx H true ns mk (rec' ++ rest) = Ok (t', a, rest) ->
  same_hashed t t' \/ Collision H.
Proof. exact corrupt_tx_detected_partial_record. Qed.
Print Assumptions C09_corrupt_tx_detected_partial_record.

(* Sequential scans: if the following transaction is read unaltered and the chain check
   "PrevAlh(next) = Alh(this one as read)" of TxReader.Read passes, this one is the committed
   content (whatever Alh is stored inside its own record). *)
Theorem C09_chain_check_detects :
  forall H : bytes -> bytes, (forall x, length (H x) = 32%nat) ->
  forall (t : tx) (a : bytes), tx_wf H t -> tx_alh H (t_hdr t) = Ok a ->
  forall (ns mk : N) (s : bytes) (t' : tx) (a' rest : bytes) (next : txhdr),
  bytes_ok s = true -> read_tx H true ns mk s = Ok (t', a', rest) ->
  h_prevalh next = a -> tx_alh H (t_hdr t') = Ok (h_prevalh next) ->
  same_hashed t t' \/ Collision H.
Proof. exact chain_check_detects. Qed.
Print Assumptions C09_chain_check_detects.



(* The transaction that is returned is the one that was asked for: whatever bytes are stored where
   the commit log places transaction id, a successful ReadTx(id) — with or without integrity check —
   returns a transaction carrying that id; the record of another committed transaction copied there
   is refused (code as fixed by 93c30ce). *)
Theorem C09_read_tx_id_checked :
  forall (H : bytes -> bytes) (chk : bool) (ns mk : N) (txlog : bytes) (off size id : N) (t : tx),
  read_tx_at H chk ns mk txlog off size id = Ok t -> h_id (t_hdr t) = id.
Proof. exact read_tx_at_id. Qed.
Print Assumptions C09_read_tx_id_checked.

(* No false alarm / completeness: the record written for a well-formed metadata-free transaction,
   followed by anything, is read back as exactly that transaction and compared with its Alh. *)
Theorem C09_read_write_roundtrip :
  forall H : bytes -> bytes, (forall x, length (H x) = 32%nat) ->
  forall (t : tx) (rec a : bytes),
  tx_wf H t -> tx_nomd t -> h_id (t_hdr t) <> 0 ->
  write_tx H t = Ok rec -> tx_alh H (t_hdr t) = Ok a ->
  forall (ns mk : N) (rest : bytes),
  h_nentries (t_hdr t) <= ns -> Forall (fun e => len (e_key e) <= mk) (t_entries t) ->
  read_tx H true ns mk (rec ++ rest) = Ok (t, a, rest).
Proof. exact read_write_roundtrip. Qed.
Print Assumptions C09_read_write_roundtrip.

(* The full statement ("whatever bytes replace the record, a successful integrity-checked read
   returns the committed transaction") is FALSE for the code as it is, for every hash function: a
   record rewritten consistently (other key, Eh and Alh recomputed, same length) is read without
   error, because the recomputed Alh is compared only with the Alh stored in the record itself. *)
Theorem C09_corrupt_tx_detected_refuted :
  forall H : bytes -> bytes, (forall x, length (H x) = 32%nat) ->
  exists t rec rec' t' a',
    tx_wf H t /\ write_tx H t = Ok rec /\ length rec' = length rec /\
    read_tx H true 6 12 rec' = Ok (t', a', []) /\
    map e_key (t_entries t') <> map e_key (t_entries t).
Proof. exact corrupt_tx_detected_refuted_any_hash. Qed.
Print Assumptions C09_corrupt_tx_detected_refuted.

(* ... and even when the Alh the reader compares with IS the committed one: a stored vLen altered
   (2 -> 0) is read without error and returned: vLen and vOff are under no hash. *)
Theorem C09_corrupt_tx_vlen_refuted :
  forall H : bytes -> bytes, (forall x, length (H x) = 32%nat) ->
  exists t rec rec' t' a,
    tx_wf H t /\ write_tx H t = Ok rec /\ tx_alh H (t_hdr t) = Ok a /\
    length rec' = length rec /\
    read_tx H true 6 12 rec' = Ok (t', a, []) /\
    map e_vlen (t_entries t') <> map e_vlen (t_entries t).
Proof. exact corrupt_tx_vlen_refuted_any_hash. Qed.
Print Assumptions C09_corrupt_tx_vlen_refuted.

(* Values: read with the committed (length, digest) pair from ANY bytes at ANY offset of any value
   log, with ANY content of the value cache (entries are stored before validation, so after a failed
   read of altered bytes the cache holds them): an error, or exactly the committed value, or a
   collision. A cache hit goes through the same length-and-digest test as a read from the log. *)
Theorem C09_corrupt_value_detected :
  forall H : bytes -> bytes, (forall x, length (H x) = 32%nat) ->
  forall (v : bytes) (mvl : N) (mode : vmode) (txlog : bytes) (vlogs : list bytes)
         (c : option vcache) (off : N) (v' : bytes),
  fst (read_value H mvl mode txlog vlogs c (len v) off (H v)) = Ok v' -> v' = v \/ Collision H.
Proof. exact corrupt_value_detected. Qed.
Print Assumptions C09_corrupt_value_detected.

(* Values through an altered record (vLen', vOff' arbitrary, digest committed): an error, or the
   committed value, or the EMPTY value when vLen' = 0, or a collision. *)
Theorem C09_corrupt_entry_value_partial :
  forall H : bytes -> bytes, (forall x, length (H x) = 32%nat) ->
  forall (v : bytes) (mvl : N) (mode : vmode) (txlog : bytes) (vlogs : list bytes)
         (c : option vcache) (vlen' off' : N) (v' : bytes),
  fst (read_value H mvl mode txlog vlogs c vlen' off' (H v)) = Ok v' ->
  v' = v \/ (vlen' = 0 /\ v' = []) \/ Collision H.
Proof. exact corrupt_entry_value_partial. Qed.
Print Assumptions C09_corrupt_entry_value_partial.


(* The middle case happens, for every hash function: an entry whose stored vLen was altered to 0 is
   answered with the empty value, without error, whatever the committed (non-empty) value is.
   (Full chain on a concrete record — one flipped bit, ReadTx ok, ReadValue = empty — in
   Corrupt/Witness.v: corrupt_entry_value_refuted.) *)
Theorem C09_corrupt_entry_value_refuted :
  forall (H : bytes -> bytes) (v : bytes) (mvl : N) (mode : vmode) (txlog : bytes) (vlogs : list bytes)
         (c : option vcache) (off : N),
  v <> [] -> exists v', fst (read_value H mvl mode txlog vlogs c 0 off (H v)) = Ok v' /\ v' <> v.
Proof. exact corrupt_entry_value_refuted_any_hash. Qed.
Print Assumptions C09_corrupt_entry_value_refuted.

(* ExportTx: when values are exported (flag "truncated" off) they are the committed ones, whatever
   vLen/vOff the record carried, or a collision. *)
Theorem C09_export_values_sound :
  forall H : bytes -> bytes, (forall x, length (H x) = 32%nat) ->
  forall (mvl : N) (mode : vmode) (txlog : bytes) (vlogs : list bytes)
         (es : list entry) (vs : list bytes) (c : option vcache) (i : N) (l : list bytes),
  map e_hval es = map H vs ->
  fst (export_values H true mvl mode txlog vlogs c es i false) = Ok (false, l) -> l = vs \/ Collision H.
Proof. exact export_values_sound. Qed.
Print Assumptions C09_export_values_sound.


(* An export is flagged "values truncated" only when some entry carries a value reference without a
   value log (vLogID 0 outside embedded mode); every other unreadable value — vOff / vLen altered so
   that the read leaves the log, altered value bytes — makes ExportTx fail (code as fixed by 6fe0104;
   a store has at most MaxParallelIO = 127 value logs). *)
Theorem C09_export_truncated_only_without_vlog :
  forall (H : bytes -> bytes) (chk : bool) (mvl : N) (mode : vmode) (txlog : bytes) (vlogs : list bytes),
  (length vlogs <= 127)%nat ->
  forall (es : list entry) (c : option vcache) (i : N) (trunc t : bool) (l : list bytes),
  fst (export_values H chk mvl mode txlog vlogs c es i trunc) = Ok (t, l) ->
  t = true -> trunc = true \/ exists e, In e es /\ no_vlog mode (e_voff e).
Proof. exact export_truncated_only_without_vlog. Qed.
Print Assumptions C09_export_truncated_only_without_vlog.

(* ... and that remaining case happens: a vOff whose vLogID byte was altered to 0 (value intact in the
   log) is exported as "truncated", digest in place of the value, no error. *)
Theorem C09_export_values_refuted :
  forall (H : bytes -> bytes) (hval : bytes),
  fst (export_values H true 64 VSingle [] [w_vlog] None [w_entry [107; 49] 2 3 hval] 0 false)
    = Ok (true, [hval]).
Proof. exact export_no_vlog_as_truncated. Qed.
Print Assumptions C09_export_values_refuted.

(* Never crashes, transactions: for EVERY byte string, holder size, key-buffer size, with or
   without integrity check, reading a transaction returns a value or an error, never a panic. *)
Theorem C09_read_tx_no_panic :
  forall (H : bytes -> bytes) (chk : bool) (ns mk : N) (s : bytes), read_tx H chk ns mk s <> Panic.
Proof. exact read_tx_no_panic. Qed.
Print Assumptions C09_read_tx_no_panic.

(* Never crashes, values (the code as fixed by c6a3ff8): for EVERY value reference — any vLen, any
   vOff including value-log ids the store does not have — any log contents and any MaxValueLen,
   ReadValue returns a value or an error. The only premise is about the store, not about the
   data: with MaxIOConcurrency = 1 and no embedded values its one value log exists. *)
Theorem C09_read_value_no_panic :
  forall (H : bytes -> bytes) (mvl : N) (mode : vmode) (txlog : bytes) (vlogs : list bytes)
         (c : option vcache) (vlen off : N) (hval : bytes),
  vlogs_present mode vlogs -> fst (read_value H mvl mode txlog vlogs c vlen off hval) <> Panic.
Proof. exact read_value_no_panic. Qed.
Print Assumptions C09_read_value_no_panic.

(* ... and so does the value loop of ExportTx. *)
Theorem C09_export_values_no_panic :
  forall (H : bytes -> bytes) (chk : bool) (mvl : N) (mode : vmode) (txlog : bytes) (vlogs : list bytes),
  vlogs_present mode vlogs -> forall (es : list entry) (c : option vcache) (i : N) (trunc : bool),
  fst (export_values H chk mvl mode txlog vlogs c es i trunc) <> Panic.
Proof. exact export_values_no_panic. Qed.
Print Assumptions C09_export_values_no_panic.

(* The buffer allocated for a value read never exceeds MaxValueLen, whatever vLen the (possibly
   altered) record carries (the code as fixed by 85f50b0). *)
Theorem C09_read_value_alloc_bounded :
  forall mvl vlen : N, read_value_alloc mvl vlen <= mvl.
Proof. exact read_value_alloc_bounded. Qed.
Print Assumptions C09_read_value_alloc_bounded.
