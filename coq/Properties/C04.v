(* C04 — Reads reflect exactly the committed log (index agrees with history).
   This file contains only the property theorems, each closed by `exact`.

   Two models of embedded/store/indexer.go are involved (coq/Idx/Indexer.v, record `fixes`):
     cur_code  = the code as it stands in /repo (tied to it on every run by Tie.C04 / harness/c04);
     all_fixed = the code with fixes/C04-bulk-key-copy.diff, fixes/C04-tombstone-deleted.diff and
                 fixes/C04-kvs-capacity.diff applied (the harness probes which of the repairs are present and evaluates the
                 corresponding model, so the tie follows the code when the repairs are committed).
   For cur_code the property is REFUTED (five witnesses, each replayed on the real store by
   harness/c04/probes.go) and the strongest true statement is kept as `..._partial`.
   For all_fixed the full theorems are proved: for every history, every index specification and
   every bulk schedule. *)
From V Require Import Store.Codec Idx.Spec Idx.Indexer Idx.IndexerProofs Idx.SerProofs Idx.ReadProofs
  Idx.Theorems Idx.Partial Idx.Refuted.
From Coq Require Import Sorted.

(* ------------------------------------------------------------------ *)
(* the code as it stands                                                *)

(* REFUTED for the current code: there is a committed history, an index (the default one), a bulk
   schedule (one bulk of 2) after which the index has caught up with the whole history and its
   content is NOT the index of that history (key aliasing in indexSince). *)
Theorem C04_index_equals_history_refuted :
  exists s lim h ks st,
    wf_history h = true /\ history_ok h = true /\ spec_ok s /\
    run cur_code s lim h ks istate_init = Ok st /\ N.to_nat (tb_ts (is_tb st)) = length h /\
    tb_map (is_tb st) <> ser_index (index_of_history s (firstn (N.to_nat (tb_ts (is_tb st))) h)).
Proof. exact index_equals_history_refuted. Qed.
Print Assumptions C04_index_equals_history_refuted.

(* REFUTED for the current code: a committed live key is not found by Get once indexing has caught
   up (the lost key of the witness above). *)
Theorem C04_get_is_latest_live_refuted :
  exists s lim h ks st now k x,
    wf_history h = true /\ history_ok h = true /\ spec_ok s /\
    run cur_code s lim h ks istate_init = Ok st /\ N.to_nat (tb_ts (is_tb st)) = length h /\
    get now (index_of_history s h) k = Ok x /\ store_get now (is_tb st) k = Err ENotFound.
Proof. exact get_is_latest_live_refuted. Qed.
Print Assumptions C04_get_is_latest_live_refuted.

(* REFUTED for the current code: in an injective (SQL-like secondary) index a mapped key whose row
   has since been overwritten stays live: (1) when the overwritten version was written inside the
   same bulk (the lookup is made as of the first transaction of the bulk), (2) with bulks of one
   transaction when the overwritten entry carries metadata (the tombstone is not marked deleted). *)
Theorem C04_injective_tombstone_refuted :
  (exists h ks st k r,
     wf_history h = true /\ history_ok h = true /\
     run cur_code w_secondary wlim h ks istate_init = Ok st /\ N.to_nat (tb_ts (is_tb st)) = length h /\
     get 0 (index_of_history w_secondary h) k = Err ENotFound /\ store_get 0 (is_tb st) k = Ok r) /\
  (exists h n st k r,
     wf_history h = true /\ history_ok h = true /\
     run cur_code w_secondary wlim h (repeat 1%nat n) istate_init = Ok st /\ N.to_nat (tb_ts (is_tb st)) = length h /\
     get 0 (index_of_history w_secondary h) k = Err ENotFound /\ store_get 0 (is_tb st) k = Ok r).
Proof. exact injective_tombstone_refuted. Qed.
Print Assumptions C04_injective_tombstone_refuted.

(* REFUTED for the current code: Snapshot.History(key, offset 2, ascending, limit 2) over 5 versions
   numbers the versions 5, 4 where the history of the key says 3, 4. *)
Theorem C04_snapshot_history_refuted :
  exists st, run cur_code w_default wlim h4 (repeat 1%nat 5) istate_init = Ok st /\
             option_map (fun x => map r_hc (fst x))
               (match snapshot_history false (is_tb st) [107] 2 false 2 with Ok x => Some x | _ => None end) = Some [5; 4] /\
             option_map (fun x => map r_hc (fst x))
               (match store_history (is_tb st) [107] 2 false 2 with Ok x => Some x | _ => None end) = Some [3; 4].
Proof. exact snapshot_history_refuted. Qed.
Print Assumptions C04_snapshot_history_refuted.

(* REFUTED for the current code: indexing does not even terminate normally — with MaxTxEntries = 4 a
   transaction that re-maps 4 keys of an injective index makes indexSince write 8 items into the 4
   pre-allocated ones: a Go runtime panic in the indexer goroutine (the process dies). The repaired
   code (room for entry + tombstone) indexes the same history. *)
Theorem C04_indexer_panics_refuted :
  wf_history h6 = true /\ history_ok h6 = true /\
  Forall (fun t => (length (t_entries t) <= N.to_nat (maxtx wlim4))%nat) h6 /\
  run cur_code w_secondary wlim4 h6 [1%nat; 1%nat] istate_init = Panic /\
  (exists st, run all_fixed w_secondary wlim4 h6 [1%nat; 1%nat] istate_init = Ok st /\ tb_ts (is_tb st) = 2).
Proof. exact indexer_panics_refuted. Qed.
Print Assumptions C04_indexer_panics_refuted.

(* PARTIAL, true of the current code: with bulks of ONE transaction (MaxBulkSize = 1, the default)
   and an index that writes no tombstones (not injective, or no index registered for its source
   keys), for every history and however far indexing got, the index content is exactly the index
   of the history up to there. *)
Theorem C04_index_equals_history_partial :
  forall s lim h n st,
    wf_history h = true -> tomb_active s = false -> spec_ok s ->
    run cur_code s lim h (repeat 1%nat n) istate_init = Ok st ->
    (N.to_nat (tb_ts (is_tb st)) <= length h)%nat /\
    tb_map (is_tb st) = ser_index (index_of_history s (firstn (N.to_nat (tb_ts (is_tb st))) h)).
Proof. exact index_equals_history_partial. Qed.
Print Assumptions C04_index_equals_history_partial.

(* ------------------------------------------------------------------ *)
(* the repaired code                                                    *)

(* For EVERY committed history, EVERY index specification (prefixes, source/target mappers,
   injective or not) and EVERY grouping of the transactions into bulks: when the indexer stops,
   having indexed up to n, the tree holds exactly index_of_history of the first n transactions
   (keys in key order, for each key its versions newest first, each as (tx id, serialised value)). *)
Theorem C04_index_equals_history :
  forall s lim h ks st,
    wf_history h = true -> spec_ok s ->
    run all_fixed s lim h ks istate_init = Ok st ->
    (N.to_nat (tb_ts (is_tb st)) <= length h)%nat /\
    tb_map (is_tb st) = ser_index (index_of_history s (firstn (N.to_nat (tb_ts (is_tb st))) h)).
Proof. exact index_equals_history_fixed. Qed.
Print Assumptions C04_index_equals_history.

(* Get returns the value reference, metadata, transaction id and revision (= number of versions)
   of the latest committed version of the key up to n; not-found when there is none, when it is a
   logical delete, or when it has expired. *)
Theorem C04_get_is_latest_live :
  forall s lim h ks st,
    wf_history h = true -> history_ok h = true -> spec_ok s ->
    run all_fixed s lim h ks istate_init = Ok st ->
    forall now k,
      store_get now (is_tb st) k =
      match versions s (firstn (N.to_nat (tb_ts (is_tb st))) h) k with
      | [] => Err ENotFound
      | v :: r =>
          if expired now (v_md v) then Err EExpired
          else if kv_deleted (v_md v) then Err ENotFound
          else Ok (vref_of (v, nlen (v :: r)))
      end.
Proof. exact get_is_latest_live_fixed. Qed.
Print Assumptions C04_get_is_latest_live.

(* The complete history of a key lists every committed version of it up to n: oldest first with
   revisions 1, 2, 3, ... (number_up _ 1) and newest first with revisions count, count-1, ...;
   the reported count is the number of versions. *)
Theorem C04_history_is_all_versions_in_order :
  forall s lim h ks st,
    wf_history h = true -> history_ok h = true -> spec_ok s ->
    run all_fixed s lim h ks istate_init = Ok st ->
    forall k lim,
      versions s (firstn (N.to_nat (tb_ts (is_tb st))) h) k <> [] ->
      nlen (versions s (firstn (N.to_nat (tb_ts (is_tb st))) h) k) <= lim ->
      store_history (is_tb st) k 0 false lim =
        Ok (map vref_of (number_up (rev (versions s (firstn (N.to_nat (tb_ts (is_tb st))) h) k)) 1),
            nlen (versions s (firstn (N.to_nat (tb_ts (is_tb st))) h) k)) /\
      store_history (is_tb st) k 0 true lim =
        Ok (map vref_of (number_down (versions s (firstn (N.to_nat (tb_ts (is_tb st))) h) k)
                                     (nlen (versions s (firstn (N.to_nat (tb_ts (is_tb st))) h) k))),
            nlen (versions s (firstn (N.to_nat (tb_ts (is_tb st))) h) k)).
Proof. exact history_is_all_versions_in_order_fixed. Qed.
Print Assumptions C04_history_is_all_versions_in_order.

(* the numbering used above is consecutive: m, m+1, m+2, ... over exactly the listed versions *)
Theorem C04_revisions_consecutive :
  forall vs m,
    map snd (number_up vs m) = map (fun i => m + N.of_nat i) (seq 0 (length vs)) /\
    map fst (number_up vs m) = vs.
Proof. exact (fun vs m => conj (number_up_consecutive vs m) (number_up_versions vs m)). Qed.
Print Assumptions C04_revisions_consecutive.

(* History with any offset / direction / limit is the specification's listing *)
Theorem C04_history_is_spec :
  forall s lim h ks st,
    wf_history h = true -> history_ok h = true -> spec_ok s ->
    run all_fixed s lim h ks istate_init = Ok st ->
    forall k off desc lim,
      store_history (is_tb st) k off desc lim =
      rmap (fun x => (map vref_of (fst x), snd x))
           (history_of (index_of_history s (firstn (N.to_nat (tb_ts (is_tb st))) h)) k off desc lim).
Proof. exact history_is_spec_fixed. Qed.
Print Assumptions C04_history_is_spec.

(* A scan over a prefix with the liveness filters returns exactly the keys with that prefix whose
   latest version up to n is neither a logical delete nor expired, each with that version and its
   revision, in key order (the key list is strictly increasing for bytes.Compare). *)
Theorem C04_scan_is_sorted_live_keys :
  forall s lim h ks st,
    wf_history h = true -> history_ok h = true -> spec_ok s ->
    run all_fixed s lim h ks istate_init = Ok st ->
    forall now p,
      store_scan now (is_tb st) (live_scan p) =
      Ok (flat_map (fun k =>
            match versions s (firstn (N.to_nat (tb_ts (is_tb st))) h) k with
            | [] => []
            | v :: r =>
                if has_prefix k p && negb (kv_deleted (v_md v)) && negb (expired now (v_md v))
                then [(k, vref_of (v, nlen (v :: r)))] else []
            end) (keys s (firstn (N.to_nat (tb_ts (is_tb st))) h))) /\
      StronglySorted (fun a b => bcmp a b = Lt) (keys s (firstn (N.to_nat (tb_ts (is_tb st))) h)).
Proof. exact scan_is_sorted_live_keys_fixed. Qed.
Print Assumptions C04_scan_is_sorted_live_keys.

(* Lookups bounded by a transaction range, prefix lookups, and key readers of every shape (range,
   direction, filters, offset) return what the specification defines on the index of the history. *)
Theorem C04_reads_are_spec :
  forall s lim h ks st,
    wf_history h = true -> history_ok h = true -> spec_ok s ->
    run all_fixed s lim h ks istate_init = Ok st ->
    forall now,
      (forall k lo hi, store_get_between (is_tb st) k lo hi =
                       rmap vref_of (get_between (index_of_history s (firstn (N.to_nat (tb_ts (is_tb st))) h)) k lo hi)) /\
      (forall p neq, store_get_with_prefix now (is_tb st) p neq =
                     rmap kref_of (get_with_prefix now (index_of_history s (firstn (N.to_nat (tb_ts (is_tb st))) h)) p neq)) /\
      (forall r, store_scan now (is_tb st) r =
                 Ok (map kref_of (scan now (index_of_history s (firstn (N.to_nat (tb_ts (is_tb st))) h)) r))).
Proof. exact reads_are_spec_fixed. Qed.
Print Assumptions C04_reads_are_spec.

(* Two bulk schedules that got equally far built the same index: the indexing batch size has no
   influence on what reads return. *)
Theorem C04_bulk_partition_irrelevant :
  forall s lim h ks ks' st st',
    wf_history h = true -> spec_ok s ->
    run all_fixed s lim h ks istate_init = Ok st ->
    run all_fixed s lim h ks' istate_init = Ok st' ->
    tb_ts (is_tb st) = tb_ts (is_tb st') ->
    tb_map (is_tb st) = tb_map (is_tb st').
Proof. exact bulk_partition_irrelevant_fixed. Qed.
Print Assumptions C04_bulk_partition_irrelevant.

(* The serialised indexed value (serializeIndexableEntry) parses back (valueRefFrom) to the value
   length, offset, digest, transaction metadata and entry metadata that were serialised. *)
Theorem C04_indexed_value_roundtrip :
  forall v hc, ver_ok v = true -> value_ref_from (v_tx v) hc (ser_ver v) = Ok (vref_of (v, hc)).
Proof. exact value_ref_roundtrip. Qed.
Print Assumptions C04_indexed_value_roundtrip.
