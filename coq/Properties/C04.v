(* C04 — Reads reflect exactly the committed log (index agrees with history).
   This file contains only the property theorems, each closed by `exact`.

   The model of embedded/store/indexer.go is `all_fixed` of coq/Idx/Indexer.v: the code of /repo
   after the repairs d549efb (keys accumulated into a bulk are copied; each transaction's own id is
   used for the injective-mapping lookup; an index does not wait for itself), e3b45a5 (bulk buffer
   has room for the tombstones), 9ae1e79 (tombstone marked deleted whatever the replaced entry's
   metadata) and 89781aa (Snapshot.History revision numbers).  Tie.C04 evaluates this model — and
   the specification — on every run; the directed replays of the five repaired defects
   (harness/c04/probes.go) run on every check and a recurrence is a violation.  The model of the code
   before the repairs (`cur_code`) and its refutation witnesses are kept in coq/Idx/Refuted.v and
   coq/Idx/Partial.v as history; nothing here depends on them. *)
From V Require Import Store.Codec Idx.Spec Idx.Indexer Idx.IndexerProofs Idx.SerProofs Idx.ReadProofs
  Idx.Theorems.
From Coq Require Import Sorted.

(* ------------------------------------------------------------------ *)
(* the theorems                                                         *)

(* For EVERY committed history, EVERY index specification (prefixes, source/target mappers,
   injective or not) and EVERY grouping of the transactions into bulks: when the indexer stops,
   having indexed up to n, the tree holds exactly index_of_history of the first n transactions
   (keys in key order, for each key its versions newest first, each as (tx id, serialised value)). *)
Theorem C04_index_equals_history :
  forall s lim h ks st,
    wf_history h = true -> spec_ok s ->
    run all_fixed s lim h ks istate_init = Ok st ->
    (N.to_nat (tb_ts (is_tb st)) <= length h)%nat /\
    tb_map (is_tb st) = ser_index (index_of_history s (firstn (N.to_nat (tb_ts (is_tb st))) h)).
Proof. exact index_equals_history_fixed. Qed.
Print Assumptions C04_index_equals_history.

(* Get returns the value reference, metadata, transaction id and revision (= number of versions)
   of the latest committed version of the key up to n; not-found when there is none, when it is a
   logical delete, or when it has expired. *)
Theorem C04_get_is_latest_live :
  forall s lim h ks st,
    wf_history h = true -> history_ok h = true -> spec_ok s ->
    run all_fixed s lim h ks istate_init = Ok st ->
    forall now k,
      store_get now (is_tb st) k =
      match versions s (firstn (N.to_nat (tb_ts (is_tb st))) h) k with
      | [] => Err ENotFound
      | v :: r =>
          if expired now (v_md v) then Err EExpired
          else if kv_deleted (v_md v) then Err ENotFound
          else Ok (vref_of (v, nlen (v :: r)))
      end.
Proof. exact get_is_latest_live_fixed. Qed.
Print Assumptions C04_get_is_latest_live.

(* The complete history of a key lists every committed version of it up to n: oldest first with
   revisions 1, 2, 3, ... (number_up _ 1) and newest first with revisions count, count-1, ...;
   the reported count is the number of versions. *)
Theorem C04_history_is_all_versions_in_order :
  forall s lim h ks st,
    wf_history h = true -> history_ok h = true -> spec_ok s ->
    run all_fixed s lim h ks istate_init = Ok st ->
    forall k lim,
      versions s (firstn (N.to_nat (tb_ts (is_tb st))) h) k <> [] ->
      nlen (versions s (firstn (N.to_nat (tb_ts (is_tb st))) h) k) <= lim ->
      store_history (is_tb st) k 0 false lim =
        Ok (map vref_of (number_up (rev (versions s (firstn (N.to_nat (tb_ts (is_tb st))) h) k)) 1),
            nlen (versions s (firstn (N.to_nat (tb_ts (is_tb st))) h) k)) /\
      store_history (is_tb st) k 0 true lim =
        Ok (map vref_of (number_down (versions s (firstn (N.to_nat (tb_ts (is_tb st))) h) k)
                                     (nlen (versions s (firstn (N.to_nat (tb_ts (is_tb st))) h) k))),
            nlen (versions s (firstn (N.to_nat (tb_ts (is_tb st))) h) k)).
Proof. exact history_is_all_versions_in_order_fixed. Qed.
Print Assumptions C04_history_is_all_versions_in_order.

(* the numbering used above is consecutive: m, m+1, m+2, ... over exactly the listed versions *)
Theorem C04_revisions_consecutive :
  forall vs m,
    map snd (number_up vs m) = map (fun i => m + N.of_nat i) (seq 0 (length vs)) /\
    map fst (number_up vs m) = vs.
Proof. exact (fun vs m => conj (number_up_consecutive vs m) (number_up_versions vs m)). Qed.
Print Assumptions C04_revisions_consecutive.

(* History with any offset / direction / limit is the specification's listing *)
Theorem C04_history_is_spec :
  forall s lim h ks st,
    wf_history h = true -> history_ok h = true -> spec_ok s ->
    run all_fixed s lim h ks istate_init = Ok st ->
    forall k off desc lim,
      store_history (is_tb st) k off desc lim =
      rmap (fun x => (map vref_of (fst x), snd x))
           (history_of (index_of_history s (firstn (N.to_nat (tb_ts (is_tb st))) h)) k off desc lim).
Proof. exact history_is_spec_fixed. Qed.
Print Assumptions C04_history_is_spec.

(* A scan over a prefix with the liveness filters returns exactly the keys with that prefix whose
   latest version up to n is neither a logical delete nor expired, each with that version and its
   revision, in key order (the key list is strictly increasing for bytes.Compare). *)
Theorem C04_scan_is_sorted_live_keys :
  forall s lim h ks st,
    wf_history h = true -> history_ok h = true -> spec_ok s ->
    run all_fixed s lim h ks istate_init = Ok st ->
    forall now p,
      store_scan now (is_tb st) (live_scan p) =
      Ok (flat_map (fun k =>
            match versions s (firstn (N.to_nat (tb_ts (is_tb st))) h) k with
            | [] => []
            | v :: r =>
                if has_prefix k p && negb (kv_deleted (v_md v)) && negb (expired now (v_md v))
                then [(k, vref_of (v, nlen (v :: r)))] else []
            end) (keys s (firstn (N.to_nat (tb_ts (is_tb st))) h))) /\
      StronglySorted (fun a b => bcmp a b = Lt) (keys s (firstn (N.to_nat (tb_ts (is_tb st))) h)).
Proof. exact scan_is_sorted_live_keys_fixed. Qed.
Print Assumptions C04_scan_is_sorted_live_keys.

(* Lookups bounded by a transaction range, prefix lookups, and key readers of every shape (range,
   direction, filters, offset) return what the specification defines on the index of the history. *)
Theorem C04_reads_are_spec :
  forall s lim h ks st,
    wf_history h = true -> history_ok h = true -> spec_ok s ->
    run all_fixed s lim h ks istate_init = Ok st ->
    forall now,
      (forall k lo hi, store_get_between (is_tb st) k lo hi =
                       rmap vref_of (get_between (index_of_history s (firstn (N.to_nat (tb_ts (is_tb st))) h)) k lo hi)) /\
      (forall p neq, store_get_with_prefix now (is_tb st) p neq =
                     rmap kref_of (get_with_prefix now (index_of_history s (firstn (N.to_nat (tb_ts (is_tb st))) h)) p neq)) /\
      (forall r, store_scan now (is_tb st) r =
                 Ok (map kref_of (scan now (index_of_history s (firstn (N.to_nat (tb_ts (is_tb st))) h)) r))).
Proof. exact reads_are_spec_fixed. Qed.
Print Assumptions C04_reads_are_spec.

(* Two bulk schedules that got equally far built the same index: the indexing batch size has no
   influence on what reads return. *)
Theorem C04_bulk_partition_irrelevant :
  forall s lim h ks ks' st st',
    wf_history h = true -> spec_ok s ->
    run all_fixed s lim h ks istate_init = Ok st ->
    run all_fixed s lim h ks' istate_init = Ok st' ->
    tb_ts (is_tb st) = tb_ts (is_tb st') ->
    tb_map (is_tb st) = tb_map (is_tb st').
Proof. exact bulk_partition_irrelevant_fixed. Qed.
Print Assumptions C04_bulk_partition_irrelevant.

(* The serialised indexed value (serializeIndexableEntry) parses back (valueRefFrom) to the value
   length, offset, digest, transaction metadata and entry metadata that were serialised. *)
Theorem C04_indexed_value_roundtrip :
  forall v hc, ver_ok v = true -> value_ref_from (v_tx v) hc (ser_ver v) = Ok (vref_of (v, hc)).
Proof. exact value_ref_roundtrip. Qed.
Print Assumptions C04_indexed_value_roundtrip.
