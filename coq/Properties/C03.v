(* C03 — Crash durability: acknowledged commits survive; recovery is a consistent prefix.
   Only property theorems, each closed by `exact`.  The model: coq/Crash/Storage.v (a log file as
   durable content + pending OS writes + user-space buffer; a crash image = durable content
   overwritten by any prefix of the pending operations and a torn next write, independently per file;
   since fix 09014a8 a rewind below the flushed size is a TRUNCATION (singleapp: Truncate; multiapp:
   chunk files removed, directory fsynced, then Truncate) that stays pending until the next fsync of
   that file: a crash image may have it applied completely, partly (at any larger offset: the chunk
   files are gone, the bytes behind the new offset inside its chunk are not) or not at all),
   coq/Crash/Protocol.v (the commit protocol of embedded/store as a state
   machine at the granularity of its storage operations, for any interleaving of any number of
   committers; `recover` = OpenWith).  H is ANY function with 32-byte outputs standing for SHA-256.
   `reach c nv s`: s is reachable from a fresh store with configuration c and nv value logs by any
   sequence of protocol steps AND crashes followed by (complete or interrupted) recoveries.
   `history_ok H tx cm n`: transactions 1..n read back through commit log cm from tx log tx are
   present, have ids 1..n without gap, each PrevAlh is the Alh recorded for its predecessor and each
   recorded Alh is the record's own (consistent hash chain). *)
From V Require Import Crash.Protocol Crash.Theorems Crash.Progress Crash.TreeProofs Crash.Refuted Crash.Examples.

(* Write ordering (ack_implies_durable): in EVERY reachable state — any interleaving, any number of
   earlier crashes and recoveries — every acknowledged transaction (id <= acked) has its commit-log
   entry, the tx-log record it points to AND the value-log extent the record refers to inside the
   FSYNCED content of their files; the records are well formed and chained and the value bytes hash
   to the digest stored in the record.  (PreallocFiles off; the preallocated variant is refuted
   below.)  The value part holds across crashes since fix ccd70f3 (recovery reloads a precommitted
   record only with its values). *)
Theorem C03_ack_implies_durable :
  forall (H : bytes -> bytes), (forall x, length (H x) = 32%nat) ->
  forall (c : cfg) (nv : nat) (s : st),
    c_prealloc c = false -> 0 < c_thld c -> reach H c nv s ->
    acked s <= committed s /\
    history_ok H (durable (txl s)) (durable (cml s)) (acked s) /\
    forall k, 1 <= k <= acked s -> values_durable_for H s k.
Proof. exact ack_implies_durable. Qed.
Print Assumptions C03_ack_implies_durable.

(* Crash safety (logs AND values; the hash-tree CONTENT is C03_crash_safety_tree below), the code as
   it is: since fix b260503 (c_ahtsync = true) and fix 0b488aa (c_ahtreset = RSync: ahtree.ResetSize
   rewinds the tree's commit log AND fsyncs it before the payload/digest logs can be truncated) —
   the two switches the correspondence run compares with the code (Tie.C03.repair_applied,
   Tie.C03.aht_durable_reset).  For EVERY reachable state and EVERY crash image of it (per file: any
   prefix of the un-fsynced operations, torn last write, pending truncations applied completely,
   partly or not at all), recovery SUCCEEDS, is again a reachable state ready for commits (idle, hash
   tree re-linked to the precommitted id) whose files are the images, every acknowledged transaction
   is read back BYTE-IDENTICAL, the recovered committed history is gap-free with a consistent hash
   chain and extends the acknowledged one, and EVERY transaction of the recovered committed history
   has its values in the value-log image. *)
Theorem C03_crash_safety_values :
  forall (H : bytes -> bytes), (forall x, length (H x) = 32%nat) ->
  forall (c : cfg) (nv : nat) (s : st) (im : images),
    c_prealloc c = false -> 0 < c_thld c -> c_ahtsync c = true -> c_ahtreset c = RSync ->
    reach H c nv s -> crash s im ->
    exists s', recover H c im = Ok s' /\ reach H c nv s' /\
      acked s <= committed s' /\ acked s' = committed s' /\ phase_ s' = PIdle /\
      asize s' = precommitted s' /\
      durable (txl s') = i_txl im /\ durable (cml s') = i_cml im /\ map durable (vls s') = i_vls im /\
      (forall k, 1 <= k <= acked s ->
         tx_at (i_txl im) (i_cml im) k = tx_at (durable (txl s)) (durable (cml s)) k) /\
      history_ok H (i_txl im) (i_cml im) (committed s') /\
      (forall k, 1 <= k <= committed s' -> values_durable_for H s' k).
Proof. exact crash_safety_repaired. Qed.
Print Assumptions C03_crash_safety_values.

(* HISTORY, any ResetSize variant (in particular the code between 09014a8 and 0b488aa, c_ahtreset =
   RCut / RMem): the tx, commit and value logs ALWAYS recover; the only thing that can go wrong is
   the size check of ahtree.OpenWith (the tree's digest log shorter than its commit log says), and
   then recovery returns ErrCorruptedData. *)
Theorem C03_crash_safety_values_before_0b488aa_partial :
  forall (H : bytes -> bytes), (forall x, length (H x) = 32%nat) ->
  forall (c : cfg) (nv : nat) (s : st) (im : images),
    c_prealloc c = false -> 0 < c_thld c -> reach H c nv s -> crash s im ->
    (len (i_ahd im) < 32 * (len (i_ahc im) / 12) /\ recover H c im = Err ECorruptedData) \/
    (~ len (i_ahd im) < 32 * (len (i_ahc im) / 12) /\
     exists s', recover H c im = Ok s' /\ reach H c nv s' /\
      acked s <= committed s' /\ acked s' = committed s' /\ phase_ s' = PIdle /\
      asize s' = precommitted s' /\
      durable (txl s') = i_txl im /\ durable (cml s') = i_cml im /\ map durable (vls s') = i_vls im /\
      (forall k, 1 <= k <= acked s ->
         tx_at (i_txl im) (i_cml im) k = tx_at (durable (txl s)) (durable (cml s)) k) /\
      history_ok H (i_txl im) (i_cml im) (committed s') /\
      (forall k, 1 <= k <= committed s' -> values_durable_for H s' k)).
Proof. exact crash_safety. Qed.
Print Assumptions C03_crash_safety_values_before_0b488aa_partial.

(* HISTORY (finding D, FIXED by 0b488aa; the code between 09014a8 and 0b488aa, c_ahtreset = RCut):
   that exception did happen.  Transaction 1 committed and acknowledged; 2 and 3 precommitted, the
   tree reaches its sync threshold and fsyncs 3 leaves, crash before the tx log is fsynced; recovery
   resets the tree to 1 leaf (commit log truncated, NOT fsynced); the next precommit appends leaf 2'
   at offset 32 = the digest log is truncated there; second crash with the second truncation on disk
   and the first not: ahtree.OpenWith fails, the store does not open although it holds an
   acknowledged commit.  The scenario keeps running on the real store (harness/c03 directed D). *)
Theorem C03_crash_safety_values_before_0b488aa_refuted :
  exists (c : cfg) (nv : nat) (s : st) (im : images),
    c_prealloc c = false /\ 0 < c_thld c /\ c_ahtsync c = true /\ c_ahtreset c = RCut /\
    reach Hh c nv s /\ crash s im /\ acked s = 1 /\
    len (i_ahd im) < 32 * (len (i_ahc im) / 12) /\
    recover Hh c im = Err ECorruptedData.
Proof. exact aht_truncation_refuted. Qed.
Print Assumptions C03_crash_safety_values_before_0b488aa_refuted.

(* The machine accepts new commits from every idle reachable state whose hash tree is linked up to
   the precommitted id — in particular from every recovered state (C03_crash_safety_values gives
   exactly these premises): (1) a sync cycle commits and acknowledges the reloaded backlog ... *)
Theorem C03_backlog_is_committed :
  forall (H : bytes -> bytes), (forall x, length (H x) = 32%nat) ->
  forall (c : cfg) (nv : nat) (s : st),
    c_prealloc c = false -> 0 < c_thld c -> reach H c nv s ->
    phase_ s = PIdle -> asize s = precommitted s -> committed s < precommitted s ->
    exists s', run H s (sync_cycle nv) = Ok s' /\ reach H c nv s' /\
      committed s' = precommitted s /\ acked s' = precommitted s /\ precommitted s' = precommitted s /\
      phase_ s' = PIdle /\ asize s' = asize s.
Proof. exact backlog_is_committed. Qed.
Print Assumptions C03_backlog_is_committed.

(* ... (2) a new transaction (values dd, payload) is precommitted, synced, acknowledged, and reads back
   from the fsynced logs as exactly the record that was written.  Side conditions: below the
   MaxActiveTransactions limit and inside the fixed-width fields of the formats. *)
Theorem C03_accepts_new_commits :
  forall (H : bytes -> bytes), (forall x, length (H x) = 32%nat) ->
  forall (c : cfg) (nv : nat) (s : st) (dd payload : bytes) (f0 : file),
    c_prealloc c = false -> 0 < c_thld c -> reach H c nv s ->
    phase_ s = PIdle -> asize s = precommitted s -> precommitted s < committed s + c_maxact c ->
    nth_error (vls s) 0 = Some f0 ->
    precommitted s + 1 < 2 ^ 64 -> 121 + len payload < 2 ^ 32 -> pts s + 121 + len payload < 2 ^ 64 ->
    f_offset f0 < 2 ^ 64 -> len dd < 2 ^ 32 ->
    exists s',
      run H s ([OVal 0 dd; OPre (length (inflight s)) payload] ++ sync_cycle nv) = Ok s' /\
      reach H c nv s' /\ phase_ s' = PIdle /\
      committed s' = precommitted s + 1 /\ acked s' = precommitted s + 1 /\
      tx_at (durable (txl s')) (durable (cml s')) (precommitted s + 1) =
        Some (enc_rec H (precommitted s + 1) (palh s) (enc_vref 0 (f_offset f0) (len dd) (H dd) ++ payload)).
Proof. exact accepts_new_commits. Qed.
Print Assumptions C03_accepts_new_commits.

(* Crash DURING recovery (the code as it is, same switches): recovery interrupted after re-linking any
   number `upto` of hash-tree leaves, then ANY crash image of the interrupted state: both the
   uninterrupted recovery of the first image and the recovery of the second image succeed and give
   the same committed id, committed Alh, reloaded precommitted transactions, log positions and tx /
   value log files (both idle, tree linked up to the precommitted id). *)
Theorem C03_crash_during_recovery :
  forall (H : bytes -> bytes), (forall x, length (H x) = 32%nat) ->
  forall (c : cfg) (nv : nat) (s : st) (im : images) (upto : nat) (s1 : st) (im' : images),
    c_prealloc c = false -> 0 < c_thld c -> c_ahtsync c = true -> c_ahtreset c = RSync ->
    reach H c nv s -> crash s im -> recover_upto H upto c im = Ok s1 -> crash s1 im' ->
    exists sf s2,
      recover H c im = Ok sf /\ recover H c im' = Ok s2 /\
      committed s2 = committed sf /\ calh s2 = calh sf /\ pbuf s2 = pbuf sf /\ palh s2 = palh sf /\
      pts s2 = pts sf /\ acked s2 = acked sf /\ txl s2 = txl sf /\ vls s2 = vls sf /\
      phase_ s2 = PIdle /\ phase_ sf = PIdle /\ asize s2 = precommitted s2 /\ asize sf = precommitted sf.
Proof. exact crash_during_recovery_repaired. Qed.
Print Assumptions C03_crash_during_recovery.

(* ... in detail, for any ResetSize variant: the interrupted recovery has written nothing to the tx
   and value logs and at most TRUNCATED the partial last entry off the commit log (pending: the
   second commit-log image is the first one cut anywhere at or after its last whole entry); the
   second recovery either fails the tree's size check (impossible since 0b488aa, theorem above) or
   agrees with the uninterrupted one. *)
Theorem C03_crash_during_recovery_images :
  forall (H : bytes -> bytes), (forall x, length (H x) = 32%nat) ->
  forall (c : cfg) (nv : nat) (s : st) (im : images) (upto : nat) (s1 : st) (im' : images),
    c_prealloc c = false -> 0 < c_thld c -> reach H c nv s -> crash s im ->
    recover_upto H upto c im = Ok s1 -> crash s1 im' ->
    i_txl im' = i_txl im /\ i_vls im' = i_vls im /\
    (exists m, len (i_cml im) - len (i_cml im) mod 44 <= m /\ i_cml im' = take m (i_cml im)) /\
    exists sf,
      recover H c im = Ok sf /\ phase_ sf = PIdle /\ asize sf = precommitted sf /\
      ((len (i_ahd im') < 32 * (len (i_ahc im') / 12) /\ recover H c im' = Err ECorruptedData) \/
       (~ len (i_ahd im') < 32 * (len (i_ahc im') / 12) /\ exists s2,
          recover H c im' = Ok s2 /\
          committed s2 = committed sf /\ calh s2 = calh sf /\ pbuf s2 = pbuf sf /\ palh s2 = palh sf /\
          pts s2 = pts sf /\ acked s2 = acked sf /\ txl s2 = txl sf /\ vls s2 = vls sf /\
          phase_ s2 = PIdle /\ asize s2 = precommitted s2)).
Proof. exact crash_during_recovery. Qed.
Print Assumptions C03_crash_during_recovery_images.

(* Crash safety, hash-tree part (the code since fix b260503: store.sync() fsyncs the tree after the
   tx log and before the commit entries are appended; model switch c_ahtsync = true, which is what
   the correspondence run compares with the code: Tie.C03.repair_applied): in EVERY reachable state —
   hence in every recovered state, after any number of crashes, also during recovery — every leaf k
   of the tree (1 <= k <= tree size) is the Alh of transaction k.  Together with
   C03_crash_safety_values (tree size = precommitted id after recovery) this
   completes the crash-safety statement for stores without PreallocFiles.  (For the code before b260503 the
   statement was false: Crash/Refuted.v tree_refuted, known finding B, now fixed.) *)
Theorem C03_crash_safety_tree :
  forall (H : bytes -> bytes), (forall x, length (H x) = 32%nat) ->
  forall (c : cfg) (nv : nat) (s : st),
    c_prealloc c = false -> 0 < c_thld c -> c_ahtsync c = true -> reach H c nv s ->
    forall k, 1 <= k <= asize s -> tree_leaf s k = tx_alh H s k /\ len (tree_leaf s k) = 32.
Proof. exact tree_ok. Qed.
Print Assumptions C03_crash_safety_tree.

(* REFUTED (known finding C): with PreallocFiles the commit-log size is not trimmed to a multiple of
   the entry size; a partially written entry (write buffer flushed inside the entry, or torn write)
   of a NOT acknowledged transaction is taken as the last commit and recovery fails.  (Proposed
   repair fixes/C03-prealloc-clog-trim.diff = model switch c_preallocfix: the same image recovers,
   Crash/Refuted.v scenario_C_repaired; no general theorem for PreallocFiles is claimed.) *)
Theorem C03_crash_safety_prealloc_refuted :
  exists (c : cfg) (nv : nat) (s : st) (im : images),
    c_prealloc c = true /\ reach Hh c nv s /\ crash s im /\ acked s = 0 /\
    is_ok (recover Hh c im) = false.
Proof. exact prealloc_refuted. Qed.
Print Assumptions C03_crash_safety_prealloc_refuted.
