(* C03 — Crash durability: acknowledged commits survive; recovery is a consistent prefix.
   Only property theorems, each closed by `exact`.  The model: coq/Crash/Storage.v (a log file as
   durable content + pending OS writes + user-space buffer; a crash image = durable content
   overwritten by any prefix of the pending writes and a torn next write, independently per file;
   rewinds never truncate), coq/Crash/Protocol.v (the commit protocol of embedded/store as a state
   machine at the granularity of its storage operations, for any interleaving of any number of
   committers; `recover` = OpenWith).  H is ANY function with 32-byte outputs standing for SHA-256.
   `reach c nv s`: s is reachable from a fresh store with configuration c and nv value logs by any
   sequence of protocol steps AND crashes followed by (complete or interrupted) recoveries.
   `history_ok H tx cm n`: transactions 1..n read back through commit log cm from tx log tx are
   present, have ids 1..n without gap, each PrevAlh is the Alh recorded for its predecessor and each
   recorded Alh is the record's own (consistent hash chain). *)
From V Require Import Crash.Protocol Crash.Theorems Crash.Refuted.

(* Write ordering (ack_implies_durable, log part): in EVERY reachable state — any interleaving, any
   number of earlier crashes — every acknowledged transaction (id <= acked) has its commit-log entry
   and the tx-log record it points to inside the FSYNCED content of their files, well formed and
   chained.  (PreallocFiles off; the preallocated variant is refuted below.) *)
Theorem C03_ack_implies_durable_logs :
  forall (H : bytes -> bytes), (forall x, length (H x) = 32%nat) ->
  forall (c : cfg) (nv : nat) (s : st),
    c_prealloc c = false -> 0 < c_thld c -> reach H c nv s ->
    acked s <= committed s /\
    history_ok H (durable (txl s)) (durable (cml s)) (acked s).
Proof. exact ack_implies_durable_logs. Qed.
Print Assumptions C03_ack_implies_durable_logs.

(* Crash safety (log part; the strongest form that is TRUE of the code, see the refutations below):
   for EVERY reachable state and EVERY crash image of it (per file: any prefix of the un-fsynced
   writes, torn last write, stale bytes past rewound offsets as they are), recovery succeeds, is
   again a reachable state ready for commits (idle, hash tree re-linked to the precommitted id),
   every acknowledged transaction is read back BYTE-IDENTICAL, and the recovered committed history
   is gap-free with a consistent hash chain and extends the acknowledged one. *)
Theorem C03_crash_safety_partial :
  forall (H : bytes -> bytes), (forall x, length (H x) = 32%nat) ->
  forall (c : cfg) (nv : nat) (s : st) (im : images),
    c_prealloc c = false -> 0 < c_thld c -> reach H c nv s -> crash s im ->
    exists s', recover H c im = Ok s' /\ reach H c nv s' /\
      acked s <= committed s' /\ acked s' = committed s' /\ phase_ s' = PIdle /\
      asize s' = precommitted s' /\
      (forall k, 1 <= k <= acked s ->
         tx_at (i_txl im) (i_cml im) k = tx_at (durable (txl s)) (durable (cml s)) k) /\
      history_ok H (i_txl im) (i_cml im) (committed s').
Proof. exact crash_safety_logs. Qed.
Print Assumptions C03_crash_safety_partial.

(* REFUTED (known finding A): the FULL crash-safety statement also requires every committed
   transaction to have its values.  Recovery reloads precommitted transactions from the tx log
   WITHOUT looking at their values: a record that reached the disk (buffer flush) while its values
   did not is reloaded and then committed: a reachable idle state with a committed, acknowledged
   transaction whose value extent lies beyond the end of its value log.  Hh = the executable
   32-byte hash of Crash/ToyHash.v (the positive theorems hold for every H; no witness depends on
   a property of the hash). *)
Theorem C03_crash_safety_values_refuted :
  exists (c : cfg) (nv : nat) (s : st),
    c_prealloc c = false /\ reach Hh c nv s /\ phase_ s = PIdle /\
    1 <= acked s /\ committed s = 1 /\ values_readable s 1 = false /\
    map (fun f => len (lview f)) (vls s) = [0].
Proof. exact values_refuted. Qed.
Print Assumptions C03_crash_safety_values_refuted.

(* REFUTED (known finding B): the FULL statement requires the recovered hash tree to hold the Alh of
   transaction k at leaf k.  The tree fsyncs on its own threshold, possibly ahead of the tx log, and
   its ResetSize is not durable: after two crashes there is a reachable idle state whose tree has
   exactly as many leaves as there are transactions ("binary-linking up to date") while leaf 1 is the
   Alh of a transaction that was lost. *)
Theorem C03_crash_safety_tree_refuted :
  exists (c : cfg) (nv : nat) (s : st),
    c_prealloc c = false /\ reach Hh c nv s /\ phase_ s = PIdle /\
    committed s = 1 /\ acked s = 1 /\ asize s = precommitted s /\ tree_matches s = false.
Proof. exact tree_refuted. Qed.
Print Assumptions C03_crash_safety_tree_refuted.

(* REFUTED (known finding C): with PreallocFiles the commit-log size is not trimmed to a multiple of
   the entry size; a partially written entry (write buffer flushed inside the entry, or torn write)
   of a NOT acknowledged transaction is taken as the last commit and recovery fails. *)
Theorem C03_crash_safety_prealloc_refuted :
  exists (c : cfg) (nv : nat) (s : st) (im : images),
    c_prealloc c = true /\ reach Hh c nv s /\ crash s im /\ acked s = 0 /\
    is_ok (recover Hh c im) = false.
Proof. exact prealloc_refuted. Qed.
Print Assumptions C03_crash_safety_prealloc_refuted.
