(* C12 — SQL integrity constraints hold in every reachable state.
   Model: coq/SQLCons/Model.v (one table t(id PK [AUTO_INCREMENT], v INTEGER [NOT NULL], s VARCHAR[n])
   [CHECK (v >= 0)], optional UNIQUE index on v, optional index on s).  [run g fx evs] is the state after
   the history evs: ANY list of events (BEGIN / statement / COMMIT / ROLLBACK / autocommit batch /
   CREATE [UNIQUE] INDEX) issued by ANY number of sessions in ANY interleaving, with MVCC validation at
   commit.  [cur_code] = the code as it is; [fixed_code] = with the three proposed repairs
   (fixes/C12-*.diff).  This file contains only the property theorems, each closed by `exact`. *)
From V Require Import SQLCons.Model SQLCons.Spec SQLCons.Basics SQLCons.Steps SQLCons.Frame SQLCons.RowInv SQLCons.Unique
     SQLCons.Refuted SQLCons.Insert SQLCons.Theorems.
From Coq Require Import ZArith.
Open Scope N_scope.

(* Primary keys: after every history (code as it is or repaired), no two live rows share a key. *)
Theorem pk_unique :
  forall (g : cfg) (fx : fixes) (evs : list event), NoDup (map fst (live_rows (s_c (run g fx evs)))).
Proof. exact pk_unique_all. Qed.
Print Assumptions pk_unique.

(* Type and length: after every history, every live row holds NULL or an int64 in v, and NULL or a
   string of at most the declared length in s (code as it is or repaired). *)
Theorem type_and_length_hold :
  forall (g : cfg) (fx : fixes) (evs : list event) (k : Z) (r : row),
    In (k, r) (live_rows (s_c (run g fx evs))) ->
    (r_v r = VNull \/ exists z, r_v r = VInt z /\ in_i64 z = true) /\
    (r_s r = VNull \/ exists s, r_s r = VStr s /\ len s <= k_maxlen g).
Proof. exact type_and_length_all. Qed.
Print Assumptions type_and_length_hold.

(* NOT NULL, repaired code: after every history no live row holds NULL in the NOT NULL column. *)
Theorem not_null_holds_fixed :
  forall (g : cfg) (evs : list event) (k : Z) (r : row),
    k_notnull g = true -> In (k, r) (live_rows (s_c (run g fixed_code evs))) -> r_v r <> VNull.
Proof. exact not_null_fixed. Qed.
Print Assumptions not_null_holds_fixed.

(* NOT NULL, code as it is: REFUTED — UPDATE t SET v = NULL stores NULL into the NOT NULL column ... *)
Theorem not_null_holds_refuted :
  exists (g : cfg) (evs : list event) (k : Z) (r : row),
    k_notnull g = true /\ In (k, r) (live_rows (s_c (run g cur_code evs))) /\ r_v r = VNull.
Proof. exact not_null_refuted. Qed.
Print Assumptions not_null_holds_refuted.

(* ... and so does INSERT ... ON CONFLICT DO UPDATE SET v = NULL. *)
Theorem not_null_holds_refuted_on_conflict :
  exists (g : cfg) (evs : list event) (k : Z) (r : row),
    k_notnull g = true /\ In (k, r) (live_rows (s_c (run g cur_code evs))) /\ r_v r = VNull.
Proof. exact not_null_conflict_refuted. Qed.
Print Assumptions not_null_holds_refuted_on_conflict.

(* NOT NULL, any code: it holds after every history none of whose statements assigns NULL to v through
   UPDATE or ON CONFLICT DO UPDATE (ev_safe ... true false); with the repair every history is such. *)
Theorem not_null_holds_partial :
  forall (g : cfg) (fx : fixes) (evs : list event) (k : Z) (r : row),
    forallb (ev_safe g fx true false) evs = true -> k_notnull g = true ->
    In (k, r) (live_rows (s_c (run g fx evs))) -> r_v r <> VNull.
Proof. exact not_null_safe. Qed.
Print Assumptions not_null_holds_partial.

(* CHECK (v >= 0), repaired code: true of every live row after every history. *)
Theorem check_holds_fixed :
  forall (g : cfg) (evs : list event) (k : Z) (r : row),
    In (k, r) (live_rows (s_c (run g fixed_code evs))) -> check_ok g (r_v r) = true.
Proof. exact check_fixed. Qed.
Print Assumptions check_holds_fixed.

(* CHECK, code as it is: REFUTED — INSERT ... ON CONFLICT DO UPDATE SET v = -5 commits the row. *)
Theorem check_holds_refuted :
  exists (g : cfg) (evs : list event) (k : Z) (r : row),
    In (k, r) (live_rows (s_c (run g cur_code evs))) /\ check_ok g (r_v r) = false.
Proof. exact check_refuted. Qed.
Print Assumptions check_holds_refuted.

(* CHECK, any code: holds after every history whose ON CONFLICT DO UPDATE SET v = x statements assign
   only values satisfying the CHECK (ev_safe ... false true). *)
Theorem check_holds_partial :
  forall (g : cfg) (fx : fixes) (evs : list event) (k : Z) (r : row),
    forallb (ev_safe g fx false true) evs = true ->
    In (k, r) (live_rows (s_c (run g fx evs))) -> check_ok g (r_v r) = true.
Proof. exact check_safe. Qed.
Print Assumptions check_holds_partial.

(* Auto-increment: from every reachable state, an autocommit batch of INSERTs (keys auto-generated or
   explicit, with or without ON CONFLICT DO NOTHING) that succeeds leaves every existing live row in
   place; with pk_unique, the generated keys differ from every existing key and from each other. *)
Theorem auto_increment_never_collides :
  forall (g : cfg) (fx : fixes) (evs : list event) (ss : list stmt) (c' : cstate),
    forallb plain_insert ss = true -> run_auto g fx (s_c (run g fx evs)) ss = Ok c' ->
    forall (k : Z) (r : row), In (k, r) (live_rows (s_c (run g fx evs))) -> In (k, r) (live_rows c').
Proof. exact insert_preserves. Qed.
Print Assumptions auto_increment_never_collides.

(* A failing event (constraint violation, read conflict, ...) leaves the committed state untouched,
   closes the transaction of the issuing session (none of that transaction's effects can ever become
   visible), and does not touch the other sessions' transactions. *)
Theorem failed_statement_has_no_effect :
  forall (g : cfg) (fx : fixes) (st : state) (ev : event),
    snd (step g fx st ev) = false ->
    s_c (fst (step g fx st ev)) = s_c st /\
    slookup (fst ev) (s_tx (fst (step g fx st ev))) = None /\
    forall sid', sid' <> fst ev -> slookup sid' (s_tx (fst (step g fx st ev))) = slookup sid' (s_tx st).
Proof. exact failed_event. Qed.
Print Assumptions failed_statement_has_no_effect.

(* UNIQUE index, repaired uniqueness check: after every history and interleaving, no two live rows
   hold the same value in v (NULL included, as the index treats it). *)
Theorem unique_index_no_duplicates_fixed :
  forall (g : cfg) (evs : list event), unique_ok (s_c (run g fixed_code evs)).
Proof. exact unique_fixed_code. Qed.
Print Assumptions unique_index_no_duplicates_fixed.

(* UNIQUE index, code as it is: REFUTED — INSERT (1,10); UPDATE v=20 WHERE id=1; INSERT (2,10);
   INSERT (3,10) leaves rows 2 and 3 with v = 10: only the first key under the value prefix is read. *)
Theorem unique_index_no_duplicates_refuted :
  exists (g : cfg) (evs : list event), ~ unique_ok (s_c (run g cur_code evs)).
Proof. exact unique_refuted. Qed.
Print Assumptions unique_index_no_duplicates_refuted.

(* ... the same duplicate through two concurrent sessions: neither commit sees a read conflict ... *)
Theorem unique_index_no_duplicates_refuted_concurrent :
  dup_rows (s_c (run g_plain cur_code wit_unique_conc)).
Proof. exact wit_unique_conc_dup. Qed.
Print Assumptions unique_index_no_duplicates_refuted_concurrent.

(* ... and CREATE UNIQUE INDEX is accepted on a table holding duplicates when the row with the lowest
   primary key was deleted (same first-key lookup in the emptiness test). *)
Theorem unique_index_create_refuted :
  dup_rows (s_c (run g_plain cur_code wit_create)).
Proof. exact wit_create_dup. Qed.
Print Assumptions unique_index_create_refuted.

(* UNIQUE index, code as it is: holds after every history on which the first-key lookup is never
   fooled, i.e. on which the code as it is reaches the same committed state as the repaired check. *)
Theorem unique_index_no_duplicates_partial :
  forall (g : cfg) (evs : list event),
    s_c (run g cur_code evs) = s_c (run g fix_unique_only evs) -> unique_ok (s_c (run g cur_code evs)).
Proof. exact unique_partial. Qed.
Print Assumptions unique_index_no_duplicates_partial.
