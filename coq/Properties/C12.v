(* C12 — SQL integrity constraints hold in every reachable state.
   Model: coq/SQLCons/Model.v (one table t(id PK [AUTO_INCREMENT], v INTEGER [NOT NULL], s VARCHAR[n])
   [CHECK (v >= 0)], optional UNIQUE index on (v) or composite on (v, s), optional index on s).  [run g fx evs] is the state after
   the history evs: ANY list of events (BEGIN / statement / COMMIT / ROLLBACK / autocommit batch /
   CREATE [UNIQUE] INDEX) issued by ANY number of sessions in ANY interleaving, with MVCC validation at
   commit.  [fixed_code] is the code as it is (with the repairs c876bb2, 12bf3b7, a77403f that this
   check led to); the correspondence run (Tie.C12) ties exactly this model to /repo.  What the code
   before the repairs violated is kept, machine-checked, in coq/SQLCons/Refuted.v.
   This file contains only the property theorems, each closed by `exact`. *)
From V Require Import SQLCons.Model SQLCons.Spec SQLCons.Basics SQLCons.Steps SQLCons.Frame SQLCons.RowInv SQLCons.Unique
     SQLCons.Refuted SQLCons.Insert SQLCons.Theorems.
From Coq Require Import ZArith.
Open Scope N_scope.

(* Primary keys: after every history, no two live rows share a key. *)
Theorem pk_unique :
  forall (g : cfg) (evs : list event), NoDup (map fst (live_rows (s_c (run g fixed_code evs)))).
Proof. exact pk_unique_code. Qed.
Print Assumptions pk_unique.

(* UNIQUE index — on (v), or the composite one on (v, s) when k_ucomp g —: after every history and
   interleaving, no two live rows hold the same value under it (NULL included, as the index treats it). *)
Theorem unique_index_no_duplicates :
  forall (g : cfg) (evs : list event), unique_ok g (s_c (run g fixed_code evs)).
Proof. exact unique_fixed_code. Qed.
Print Assumptions unique_index_no_duplicates.

(* NOT NULL: after every history no live row holds NULL in the NOT NULL column. *)
Theorem not_null_holds :
  forall (g : cfg) (evs : list event) (k : Z) (r : row),
    k_notnull g = true -> In (k, r) (live_rows (s_c (run g fixed_code evs))) -> r_v r <> VNull.
Proof. exact not_null_fixed. Qed.
Print Assumptions not_null_holds.

(* CHECK (v >= 0): true of every live row after every history. *)
Theorem check_holds :
  forall (g : cfg) (evs : list event) (k : Z) (r : row),
    In (k, r) (live_rows (s_c (run g fixed_code evs))) -> check_ok g (r_v r) = true.
Proof. exact check_fixed. Qed.
Print Assumptions check_holds.

(* Type and length: after every history, every live row holds NULL or an int64 in v, and NULL or a
   string of at most the declared length in s. *)
Theorem type_and_length_hold :
  forall (g : cfg) (evs : list event) (k : Z) (r : row),
    In (k, r) (live_rows (s_c (run g fixed_code evs))) ->
    (r_v r = VNull \/ exists z, r_v r = VInt z /\ in_i64 z = true) /\
    (r_s r = VNull \/ exists s, r_s r = VStr s /\ len s <= k_maxlen g).
Proof. exact type_and_length_code. Qed.
Print Assumptions type_and_length_hold.

(* Auto-increment: from every reachable state, an autocommit batch of INSERTs (keys auto-generated or
   explicit, with or without ON CONFLICT DO NOTHING) that succeeds leaves every existing live row in
   place; with pk_unique, the generated keys differ from every existing key and from each other. *)
Theorem auto_increment_never_collides :
  forall (g : cfg) (evs : list event) (ss : list stmt) (c' : cstate),
    forallb plain_insert ss = true -> run_auto g fixed_code (s_c (run g fixed_code evs)) ss = Ok c' ->
    forall (k : Z) (r : row), In (k, r) (live_rows (s_c (run g fixed_code evs))) -> In (k, r) (live_rows c').
Proof. exact insert_preserves_code. Qed.
Print Assumptions auto_increment_never_collides.

(* A failing event (constraint violation, read conflict, ...) leaves the committed state untouched,
   closes the transaction of the issuing session (none of that transaction's effects can ever become
   visible), and does not touch the other sessions' transactions. *)
Theorem failed_statement_has_no_effect :
  forall (g : cfg) (st : state) (ev : event),
    snd (step g fixed_code st ev) = false ->
    s_c (fst (step g fixed_code st ev)) = s_c st /\
    slookup (fst ev) (s_tx (fst (step g fixed_code st ev))) = None /\
    forall sid', sid' <> fst ev ->
      slookup sid' (s_tx (fst (step g fixed_code st ev))) = slookup sid' (s_tx st).
Proof. exact failed_event_code. Qed.
Print Assumptions failed_statement_has_no_effect.
