(* C16 — Decoders/parsers are total: malformed input gives an error, never a crash.
   This file contains only the property theorems, each closed by `exact`. *)
From V Require Import Store.Codec Store.CodecTotal Store.AppMeta Store.AppMetaTotal.

(* For EVERY byte string, each store decoder returns a value or an error: it never hits a Go
   runtime panic (out-of-range index/slice), and its loops terminate within the fuel
   |input|+1 (every iteration consumes at least one input byte). *)
Theorem C16_txmd_read_total : forall b : bytes, txmd_read b <> Panic /\ txmd_read b <> Err EFuel.
Proof. exact txmd_read_safe. Qed.
Print Assumptions C16_txmd_read_total.

Theorem C16_kvmd_read_total : forall b : bytes, kvmd_read b <> Panic /\ kvmd_read b <> Err EFuel.
Proof. exact kvmd_read_safe. Qed.
Print Assumptions C16_kvmd_read_total.

Theorem C16_txhdr_read_total : forall b : bytes, txhdr_read b <> Panic /\ txhdr_read b <> Err EFuel.
Proof. exact txhdr_read_safe. Qed.
Print Assumptions C16_txhdr_read_total.

Theorem C16_replicate_framing_total : forall b : bytes, repl_parse b <> Panic /\ repl_parse b <> Err EFuel.
Proof. exact repl_parse_safe. Qed.
Print Assumptions C16_replicate_framing_total.

(* The metadata block at the head of every appendable file (embedded/appendable/metadata.go, read
   at open time): decoding never panics and stops within |input|+1 iterations; the typed getters
   (GetInt / GetBool) never panic on whatever value was stored. *)
Theorem C16_appendable_metadata_total :
  forall b : bytes, snd (appmd_read b) <> Panic /\ snd (appmd_read b) <> Err EFuel.
Proof. exact appmd_read_safe. Qed.
Print Assumptions C16_appendable_metadata_total.

Theorem C16_appendable_metadata_getters_total :
  forall b k : bytes,
    (appmd_get_int b k <> Panic /\ appmd_get_int b k <> Err EFuel) /\
    (appmd_get_bool b k <> Panic /\ appmd_get_bool b k <> Err EFuel).
Proof. exact appmd_getters_safe. Qed.
Print Assumptions C16_appendable_metadata_getters_total.

(* ------------------------------------------------------------------------------------------ *)
(* PostgreSQL wire protocol (pkg/pgsql/server): Wire/PgMsg.v over the bufio.Reader model Wire/Bufio.v.
   A parser result is (outcome, bytes asked from the allocator).                               *)
From V Require Import Wire.Alloc Wire.Bufio Wire.PgMsg Wire.PgMsgTotal Wire.AllocProofs.

(* For EVERY type byte and EVERY payload, session.parseRawMessage (Bind / Parse / Execute /
   Describe / Query / PasswordMessage / Copy* / Sync / Flush / Terminate) returns a message or an
   error: no slice or index expression panics, bufio never "fills a full buffer", and the
   ReadBytes loops end within their fuel. Holds for the code as found and for the repaired code. *)
Theorem C16_pg_messages_total :
  forall (fixed : bool) (maxmsg t : N) (payload : bytes),
    fst (pg_dispatch fixed maxmsg t payload) <> Panic /\
    fst (pg_dispatch fixed maxmsg t payload) <> Err EFuel.
Proof. exact pg_dispatch_safe. Qed.
Print Assumptions C16_pg_messages_total.

(* Memory, code as found: whatever the outcome, a message parser allocates at most
   2 * MaxMsgSize + 21 * |payload| + 131088 bytes ... *)
Theorem C16_pg_messages_memory_partial :
  forall (maxmsg t : N) (payload : bytes),
    snd (pg_dispatch false maxmsg t payload) <= 2 * maxmsg + 21 * len payload + 131088.
Proof. exact pg_dispatch_alloc. Qed.
Print Assumptions C16_pg_messages_memory_partial.

(* ... and the MaxMsgSize term is real: an 11-byte Bind message makes ParseBindMsg allocate 64 MiB
   (a 32 MiB parameter value and its string copy) before rejecting the message. *)
Theorem C16_pg_bind_memory_refuted :
  exists p : bytes, len p <= 11 /\
    64 * 1048576 <= snd (bind_parse false (32 * 1048576) p) /\
    is_ok (fst (bind_parse false (32 * 1048576) p)) = false.
Proof. exact bind_alloc_refuted. Qed.
Print Assumptions C16_pg_bind_memory_refuted.

(* Memory, repaired code (parameter length checked against what is left of the message): linear
   in the payload length, independent of MaxMsgSize. The constant is two int16 count fields
   (make([]int16, n) with n <= 32767, twice) plus the reader. *)
Theorem C16_pg_messages_memory_fixed :
  forall (maxmsg t : N) (payload : bytes),
    snd (pg_dispatch true maxmsg t payload) <= 21 * len payload + 131088.
Proof. exact pg_dispatch_fixed_alloc. Qed.
Print Assumptions C16_pg_messages_memory_fixed.

(* Framing (messageReader.ReadRawMessage) on a connection that delivers the bytes conn and then
   EOF: never panics; the length field is validated before the payload buffer is made, which
   therefore is at most MaxMsgSize (+5): a bound by the configured limit, not by the input (the
   buffer is made before the payload arrives); a returned message accounts for exactly the bytes
   taken from the connection. *)
Theorem C16_pg_framing_total_and_memory :
  forall (maxmsg : N) (conn : bytes),
    (fst (raw_read maxmsg conn) <> Panic /\ fst (raw_read maxmsg conn) <> Err EFuel) /\
    snd (raw_read maxmsg conn) <= 5 + maxmsg mod 4294967296 /\
    (forall t payload rest, fst (raw_read maxmsg conn) = Ok (t, payload, rest) ->
       snd (raw_read maxmsg conn) = 5 + len payload /\ len conn = 5 + len payload + len rest).
Proof. exact raw_read_safe. Qed.
Print Assumptions C16_pg_framing_total_and_memory.

(* ------------------------------------------------------------------------------------------ *)
(* pkg/stream receivers: Wire/Stream.v. A stream is a LIST OF CHUNKS followed by io.EOF or a
   transport error, so "for every stream" is "for every byte string and every way of cutting it
   into gRPC chunks". bs is the buffer (chunk) size of the receiving side.                       *)
From V Require Import Wire.Stream Wire.StreamTotal.

(* Code as found: a single 8-byte chunk announcing a message length with the top bit set makes
   msgReceiver.Read panic (make([]byte, negative)) -- and with it the key/value, sorted-set,
   verifiable-entry and exec-all receivers of the server's streaming RPCs. *)
Theorem C16_stream_read_refuted :
  exists s : strm, len (concat (s_chunks s)) = 8 /\
    fst (mr_read false 8 (mr_new s)) = Panic /\ fst (kv_next false 8 (mr_new s)) = Panic.
Proof. exact mr_read_refuted. Qed.
Print Assumptions C16_stream_read_refuted.

(* Code as found: ReadFully (streamed ReplicateTx / ExportTx) panics on the same chunk, and a
   12-byte chunk announcing 256 MiB makes it allocate 256 MiB before reporting a short stream. *)
Theorem C16_stream_readfully_refuted :
  fst (read_fully false st_witness_neg) = Panic /\
  (exists s : strm, len (concat (s_chunks s)) = 12 /\ 268435456 <= snd (read_fully false s) /\
                    is_ok (fst (read_fully false s)) = false).
Proof. exact read_fully_refuted. Qed.
Print Assumptions C16_stream_readfully_refuted.

(* What holds for the code as found (fixed = false) and in full for the repaired code
   (fixed = true), for EVERY stream s and buffer size: Read and the typed receivers' Next never run
   out of fuel (their loops end: every iteration consumes a chunk or a byte), with fixed = true
   never panic, and allocate at most twice the bytes of the stream plus a constant in the buffer
   size per value read (W bs = 5 bs + 8); the exec-all receiver, which skips unknown operations,
   pays that constant once per byte at worst. *)
Theorem C16_stream_receivers_total :
  forall (fixed : bool) (bs : N) (s : strm),
    bs <= 281474976710656 ->
    let L := len (concat (s_chunks s)) in
    let total {A} (m : M A) (bound : N) :=
      fst m <> Err EFuel /\ (fixed = true -> fst m <> Panic) /\ snd m <= bound in
    total (mr_read fixed bs (mr_new s)) (8 + bs) /\
    total (kv_next fixed bs (mr_new s)) (2 * L + (5 * bs + 8)) /\
    total (z_next fixed bs (mr_new s)) (2 * L + 4 * (5 * bs + 8) + 16) /\
    total (ventry_next fixed bs (mr_new s)) (2 * L + 3 * (5 * bs + 8)) /\
    total (execall_next fixed bs (mr_new s)) ((L + 2) * (5 * bs + 8) + 2 * L).
Proof. exact stream_fresh_total. Qed.
Print Assumptions C16_stream_receivers_total.

(* The same for a receiver in ANY state that keeps the invariant 0 <= s <= tl (every state reached
   from a fresh receiver does: it is part of the read theorems), i.e. for the 2nd, 3rd, ... value
   of a stream: ReadValue on such a state. *)
Theorem C16_stream_read_value_total :
  forall (fixed : bool) (bs : N) (r : mrecv),
    (0 <= mr_sz r <= mr_tl r)%Z -> bs <= 281474976710656 ->
    fst (read_value fixed bs r) <> Err EFuel /\
    (fixed = true -> fst (read_value fixed bs r) <> Panic) /\
    snd (read_value fixed bs r) <= 2 * mr_avail r + (5 * bs + 8).
Proof. exact read_value_total. Qed.
Print Assumptions C16_stream_read_value_total.

(* Repaired ReadFully: for every stream, no panic, and the memory it asks for is at most the
   number of bytes the stream delivered. *)
Theorem C16_stream_readfully_fixed_total :
  forall s : strm,
    fst (read_fully true s) <> Err EFuel /\ (true = true -> fst (read_fully true s) <> Panic) /\
    snd (read_fully true s) <= len (concat (s_chunks s)).
Proof. exact read_fully_fixed_total. Qed.
Print Assumptions C16_stream_readfully_fixed_total.

(* ------------------------------------------------------------------------------------------ *)
(* Open-time parsing of the index (embedded/tbtree) and of the binary-linking tree
   (embedded/ahtree): Store/OpenTime.v. int64 / uint32 arithmetic wraps as in Go.             *)
From V Require Import Store.OpenTime Store.OpenTimeTotal.

(* Code as found: a commit-log entry of the index whose initialHLogSize has the top bit set passes
   isValid and makes OpenWith panic inside io.SectionReader (Checksum over a range whose bounds
   wrapped around). *)
Theorem C16_tbtree_clog_entry_refuted :
  exists b : bytes, len b = 100 /\ tb_entry_check false b = Panic.
Proof. exact tb_entry_check_refuted. Qed.
Print Assumptions C16_tbtree_clog_entry_refuted.

(* Repaired isValid: for EVERY 100-byte commit-log entry, deserialising it, validating it and
   setting up the two Checksum ranges neither panics nor loops, and an accepted entry has a
   non-negative root offset. *)
Theorem C16_tbtree_clog_entry_fixed_total :
  forall b : bytes, 100 <= len b ->
    tb_entry_check true b <> Panic /\ tb_entry_check true b <> Err EFuel /\
    (forall off, tb_entry_check true b = Ok (Some off) -> (0 <= off)%Z).
Proof. exact tb_entry_check_fixed_total. Qed.
Print Assumptions C16_tbtree_clog_entry_fixed_total.

(* The parameters kept in the commit-log metadata (any byte string as metadata block): decoding
   them never panics; as found any 64-bit MAX_NODE_SIZE is accepted (witness: 2^40, the size of
   every node read buffer and snapshot buffer made afterwards: an out-of-memory crash) ... *)
Theorem C16_tbtree_open_params_total :
  forall (fixed : bool) (md : bytes) (okey oval : Z),
    tb_open_params fixed md okey oval <> Panic /\ tb_open_params fixed md okey oval <> Err EFuel.
Proof. exact tb_open_params_safe. Qed.
Print Assumptions C16_tbtree_open_params_total.

Theorem C16_tbtree_open_params_refuted :
  exists md : bytes, tb_open_params false md 32 64 = Ok (1099511627776, 32, 64)%Z /\
                     snd (tb_reader_alloc 1099511627776) = 1099511627776.
Proof. exact tb_open_params_refuted. Qed.
Print Assumptions C16_tbtree_open_params_refuted.

(* ... repaired: accepted parameters satisfy the constraints options are validated against, and
   the buffer made from maxNodeSize is at most 128 MiB. *)
Theorem C16_tbtree_open_params_fixed_bounds :
  forall (md : bytes) (okey oval mns mk mv : Z),
    tb_open_params true md okey oval = Ok (mns, mk, mv) ->
    (0 < mk <= 65535)%Z /\ (0 < mv <= 65535)%Z /\ (0 < mns <= tb_max_node_size)%Z /\
    fst (tb_reader_alloc mns) = Ok tt /\ snd (tb_reader_alloc mns) <= 134217728.
Proof. exact tb_open_params_fixed_bounds. Qed.
Print Assumptions C16_tbtree_open_params_fixed_bounds.

(* Node parsing (readNodeAt) on EVERY content of the nodes log (as a string of bytes): a node or an
   error, never a panic; memory at most 4 bytes per byte of the log behind the node's offset plus
   the children/values array of one count field (16 * 65535 + 64) plus one key/value buffer whose
   bytes do not arrive (65535); repaired code: never an inner node without children. *)
Theorem C16_tbtree_read_node_total :
  forall (fixed : bool) (s : bytes), bytes_ok s = true ->
    (fst (read_node fixed s) <> Panic /\ fst (read_node fixed s) <> Err EFuel) /\
    snd (read_node fixed s) <= 4 * len s + 16 * 65535 + 64 + 65535 /\
    (fixed = true -> fst (read_node fixed s) <> Ok (NInner [])).
Proof. exact read_node_total. Qed.
Print Assumptions C16_tbtree_read_node_total.

(* as found: the three bytes 00 00 00 parse as an inner node without children (innerNode.get then
   indexes nodes[0]: index out of range) *)
Theorem C16_tbtree_read_node_refuted : fst (read_node false [0; 0; 0]) = Ok (NInner []).
Proof. exact read_node_refuted. Qed.
Print Assumptions C16_tbtree_read_node_refuted.

(* timestamp file: as found a file shorter than 8 bytes panics OpenWith (Uint64 on a short slice);
   repaired: every content gives a value *)
Theorem C16_tbtree_ts_file_refuted : exists b : bytes, len b < 8 /\ ts_read false b = Panic.
Proof. exact ts_read_refuted. Qed.
Print Assumptions C16_tbtree_ts_file_refuted.

Theorem C16_tbtree_ts_file_fixed_total : forall b : bytes, exists v, ts_read true b = Ok v.
Proof. exact ts_read_fixed_total. Qed.
Print Assumptions C16_tbtree_ts_file_fixed_total.

(* ahtree.OpenWith, last commit-log entry -> payload-log size: as found (pOff = 2^63-1, pSize = 9)
   the int64 sum wraps to a negative size that passes the file-size check; repaired: never a panic
   and an accepted entry puts the size inside the payload log. *)
Theorem C16_ahtree_open_refuted :
  exists p d, ah_open false 36 ah_entry_witness 24 1048576 = Ok (p, d) /\ (p < 0)%Z.
Proof. exact ah_open_refuted. Qed.
Print Assumptions C16_ahtree_open_refuted.

Theorem C16_ahtree_open_fixed_total :
  forall (clog_size : Z) (entry : bytes) (pf df : Z), 12 <= len entry -> (0 <= pf)%Z ->
    (ah_open true clog_size entry pf df <> Panic /\ ah_open true clog_size entry pf df <> Err EFuel) /\
    (forall p d, ah_open true clog_size entry pf df = Ok (p, d) -> (0 <= p <= pf)%Z).
Proof. exact ah_open_fixed_total. Qed.
Print Assumptions C16_ahtree_open_fixed_total.

(* ahtree.DataAt: as found the 32-bit size field of a commit-log entry is allocated unchecked
   (256 MiB for a 64-byte payload log in the witness, up to 4 GiB); repaired: at most the size of
   the payload log. *)
Theorem C16_ahtree_data_at_refuted :
  exists entry : bytes, len entry = 12 /\ snd (ah_data_at false 64 entry) = 268435456.
Proof. exact ah_data_at_refuted. Qed.
Print Assumptions C16_ahtree_data_at_refuted.

Theorem C16_ahtree_data_at_fixed_total :
  forall (plog : Z) (entry : bytes), 12 <= len entry -> (0 <= plog)%Z ->
    (fst (ah_data_at true plog entry) <> Panic /\ fst (ah_data_at true plog entry) <> Err EFuel) /\
    snd (ah_data_at true plog entry) <= Z.to_N plog.
Proof. exact ah_data_at_fixed_total. Qed.
Print Assumptions C16_ahtree_data_at_fixed_total.

(* ------------------------------------------------------------------------------------------ *)
(* SQL text: the scanning loops of lexer.Lex (SQLLex/Lexer.v: block and line comments, string and
   blob literals, quoted identifiers, words, numbers, operators, parameters), positions only.    *)
From V Require Import SQLLex.Lexer SQLLex.LexerTotal.

(* For EVERY text: the loop that skips white space and comments ends within |text|+1 iterations
   (an unterminated block comment ends at the end of the input), every call of Lex that does not
   report the end of the input takes at least one byte, and therefore lexing the whole text ends
   within |text|+1 calls. (The goyacc automaton driven by these tokens is not modelled.) *)
Theorem C16_sql_lexer_terminates :
  forall s : bytes,
    lex_skip (S (length s)) s <> SkFuel /\
    (forall pt pt' s', lex_one pt s = Some (pt', s') -> len s' + 1 <= len s) /\
    lex_positions s <> None.
Proof. exact (fun s => conj (lex_skip_terminates s) (conj (fun pt pt' s' => lex_one_progress pt s pt' s') (lex_positions_total s))). Qed.
Print Assumptions C16_sql_lexer_terminates.
