(* C16 — Decoders/parsers are total: malformed input gives an error, never a crash.
   This file contains only the property theorems, each closed by `exact`. *)
From V Require Import Store.Codec Store.CodecTotal Store.AppMeta Store.AppMetaTotal.

(* For EVERY byte string, each store decoder returns a value or an error: it never hits a Go
   runtime panic (out-of-range index/slice), and its loops terminate within the fuel
   |input|+1 (every iteration consumes at least one input byte). *)
Theorem C16_txmd_read_total : forall b : bytes, txmd_read b <> Panic /\ txmd_read b <> Err EFuel.
Proof. exact txmd_read_safe. Qed.
Print Assumptions C16_txmd_read_total.

Theorem C16_kvmd_read_total : forall b : bytes, kvmd_read b <> Panic /\ kvmd_read b <> Err EFuel.
Proof. exact kvmd_read_safe. Qed.
Print Assumptions C16_kvmd_read_total.

Theorem C16_txhdr_read_total : forall b : bytes, txhdr_read b <> Panic /\ txhdr_read b <> Err EFuel.
Proof. exact txhdr_read_safe. Qed.
Print Assumptions C16_txhdr_read_total.

Theorem C16_replicate_framing_total : forall b : bytes, repl_parse b <> Panic /\ repl_parse b <> Err EFuel.
Proof. exact repl_parse_safe. Qed.
Print Assumptions C16_replicate_framing_total.

(* The metadata block at the head of every appendable file (embedded/appendable/metadata.go, read
   at open time): decoding never panics and stops within |input|+1 iterations; the typed getters
   (GetInt / GetBool) never panic on whatever value was stored. *)
Theorem C16_appendable_metadata_total :
  forall b : bytes, snd (appmd_read b) <> Panic /\ snd (appmd_read b) <> Err EFuel.
Proof. exact appmd_read_safe. Qed.
Print Assumptions C16_appendable_metadata_total.

Theorem C16_appendable_metadata_getters_total :
  forall b k : bytes,
    (appmd_get_int b k <> Panic /\ appmd_get_int b k <> Err EFuel) /\
    (appmd_get_bool b k <> Panic /\ appmd_get_bool b k <> Err EFuel).
Proof. exact appmd_getters_safe. Qed.
Print Assumptions C16_appendable_metadata_getters_total.
