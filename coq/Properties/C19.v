(* C19 — Document collections store and find documents faithfully.
   Only the property theorems, each closed by `exact`.  Model: Doc/Model.v (tied to
   embedded/document on every run by Tie/C19.v); spec = the write log (HistProofs.v) and the
   evaluation of a query on the stored JSON payloads (spec_search in Model.v).
   The model is the code after the repairs 964c526 (INTEGER fields accept only numbers with an exact
   int64 representation), c876bb2 (unique checks consider every live entry), 4461e96 (CREATE INDEX
   refuses entry keys longer than the store's key length) and 7c93d7c (an over-long range bound is cut
   to the column length); the only fact still
   handed in from a probe of the real code is s_nz (the float key encoder keeps the sign of zero). *)
From V Require Import Doc.Model Doc.Facts Doc.RangeProofs Doc.SearchProofs Doc.HistProofs
                      Doc.UniqueProofs Doc.Witness.

(* After EVERY history of inserts / replaces / deletes / schema changes / reads, lookup of an id
   returns the payload of the last write to that id, unchanged, with the number of writes to the id
   as its revision; and returns nothing when the id was never written or was deleted last.
   (The log takes from each replace/delete the ids it selected; whether the right ones were
   selected is what the search theorems are about.) *)
Theorem stored_document_returned_unchanged :
  forall (sch : schema) (ops : list op) (id : bytes),
    let '(st, outs) := run (init sch) ops in
    snd (step st (OGet id)) = spec_out (log_of sch ops outs) (OGet id) XErr.
Proof. exact lookup_returns_last_write. Qed.
Print Assumptions stored_document_returned_unchanged.

(* Every output of every operation of every history is the one the write log prescribes: the
   revision reported for a written document is the count of writes to it (consecutive revisions),
   lookups and audit trails in the middle of the history included. *)
Theorem revisions_consecutive_and_outputs_follow_the_write_log :
  forall (sch : schema) (ops : list op),
    let '(st, outs) := run (init sch) ops in spec_outs sch [] ops outs = outs.
Proof. exact history_refines_write_log. Qed.
Print Assumptions revisions_consecutive_and_outputs_follow_the_write_log.

(* An operation that reports an error leaves the collection as it was (a multi-document insert or
   replace is all-or-nothing). *)
Theorem failed_operation_changes_nothing :
  forall (st : state) (o : op), snd (step st o) = XErr -> fst (step st o) = st.
Proof. exact failed_op_changes_nothing. Qed.
Print Assumptions failed_operation_changes_nothing.

(* After every history the audit trail of an id is the list of ALL writes to it (deletions
   included), numbered 1, 2, ... in order, reversed when asked, cut to the page asked for. *)
Theorem audit_lists_all_revisions :
  forall (sch : schema) (ops : list op) (id : bytes) (desc : bool) (off lim : N),
    let '(st, outs) := run (init sch) ops in
    snd (step st (OAudit id desc off lim)) = spec_out (log_of sch ops outs) (OAudit id desc off lim) XErr.
Proof. exact audit_is_the_write_log. Qed.
Print Assumptions audit_lists_all_revisions.

(* "A search returns exactly the documents whose PAYLOAD satisfies the filter" is still FALSE for a
   field added after a document was stored: AddField does not back-fill, the new column is NULL for
   the document although its payload holds a value. *)
Theorem search_sound_and_complete_refuted_late_field :
  let st := fst (run (init sch_int) ops_late) in
  engine_search st (qeq fM (jint 5)) 0 <> spec_search st (qeq fM (jint 5)) 0.
Proof. exact search_refuted_late_field. Qed.
Print Assumptions search_sound_and_complete_refuted_late_field.

(* What holds: for every collection state in which the row of every live document is the conversion
   of its payload under the current schema (i.e. no field was added after the document was
   written), and -- while the key encoder keeps the sign of zero -- without negative zeros among
   DOUBLE values / constants, every search
   (OR-groups of comparisons, ordering, limit, offset) returns exactly what the same query returns
   on the payloads: same documents, same order, same errors (a constant that is not a value of the
   field's type -- e.g. 0.5 for an INTEGER field -- is an error on both sides).  No proviso on the
   numbers held by INTEGER fields or on the length of string constants is needed any more. *)
Theorem search_sound_and_complete_partial :
  forall (st : state) (q : query) (off : N),
    rows_agree st -> nz_safe st q ->
    engine_search st q off = spec_search st q off.
Proof. exact search_partial. Qed.
Print Assumptions search_sound_and_complete_partial.

(* "Searches return the same documents whether or not an index exists" is still FALSE: -0.0 and
   +0.0 are one value with two index keys, so d = 0 misses {d: -0.0} once an index on d is used. *)
Theorem search_index_independent_refuted :
  exists st ixs1 ixs2 q,
    engine_search (with_indexes st ixs1) q 0 <> engine_search (with_indexes st ixs2) q 0.
Proof. exact index_independent_refuted. Qed.
Print Assumptions search_index_independent_refuted.

(* What holds: for all stored rows, queries, pages and ANY two sets of indexes the results are
   identical, provided no negative zero occurs among the column values and constants (index choice,
   key-range pruning with AND/OR range merging never drop a matching row). *)
Theorem search_index_independent_partial :
  forall (st : state) (ixs1 ixs2 : list index) (q : query) (off : N),
    nz_safe st q ->
    engine_search (with_indexes st ixs1) q off = engine_search (with_indexes st ixs2) q off.
Proof. exact index_independent_partial. Qed.
Print Assumptions search_index_independent_partial.

(* ... and with a key encoder that normalises the sign of zero (s_nz = false; the harness probes the
   real encoder on every run) no proviso is left: results never depend on the indexes. *)
Theorem search_index_independent_when_keys_normalised :
  forall (st : state) (ixs1 ixs2 : list index) (q : query) (off : N),
    s_nz (st_sch st) = false ->
    engine_search (with_indexes st ixs1) q off = engine_search (with_indexes st ixs2) q off.
Proof. exact index_independent_when_keys_normalised. Qed.
Print Assumptions search_index_independent_when_keys_normalised.

(* Unique indexes hold no duplicates: after EVERY history of inserts (single or multi-document),
   replaces, deletes, index creations / deletions and reads -- any history that does not add or
   remove typed fields -- no two live documents share the (key of the) tuple of a unique index.
   (Outside the model: InsertDocuments runs on a snapshot that need not include the latest
   transactions; that sequential violation is found by the harness directly and is a known
   finding.) *)
Theorem unique_index_no_duplicates_partial :
  forall (sch : schema) (ops : list op),
    forallb keeps_fields ops = true -> uniq_okb (fst (run (init sch) ops)) = true.
Proof. exact unique_no_duplicates. Qed.
Print Assumptions unique_index_no_duplicates_partial.
