(* C18 — Access control: every operation is gated by the caller's database permission.
   Only property theorems, each closed by `exact`.  The RPC list (`rpcs`), the per-RPC guard
   sequences (`gates`) and the permission tables are REGENERATED from /repo's Go source on every run
   (gen/Rpcs.v, gen/Gates.v, gen/AuthTables.v); `decide` is the server's decision procedure over the
   finite request context cx = (configuration, user kind, credential carried, database selected by
   the credential, database named in the request, what happened to the credential after issue). *)
From Coq Require Import String List.
From V Require Import Auth.Policy Auth.PolicyProofs.
Open Scope string_scope.

(* Every RPC of every gRPC service the server registers has a handler, a row in the specification
   table and the gate its class requires (read/write/admin-on-selected classes: a getDBFromCtx call
   whose method-name literal HAS an entry in methodsPermissions; session classes: a login/session
   look-up; admin classes: a login look-up followed by an IsSysAdmin/HasPermission refusal), no gate
   uses a computed method name, the session/auth interceptors are in the chains, and no
   specification row is stale.  A new RPC without table entry, gate or classification fails here. *)
Theorem C18_every_rpc_classified_and_gated :
  (forall svc rpc st, In (svc, rpc, st) rpcs ->
     exists g s, find_gate svc rpc = Some g /\ find_spec svc rpc = Some s /\
                 gt_handler g <> "" /\ well_gated (sp_class s) (full_steps g) = true) /\
  interceptors_ok = true /\
  (forall s, In s spec_table -> spec_row_live s = true).
Proof. exact every_rpc_classified_and_gated. Qed.
Print Assumptions C18_every_rpc_classified_and_gated.

(* A request of a write-class RPC reaches the operation body (with authentication or maintenance
   mode on) only if it carries a credential, a database is selected, and the user is sysadmin or
   holds admin / read-write permission on the selected database. *)
Theorem C18_write_requires_rw :
  forall g c, In g gates -> class_of g = Some ClWrite -> cx_cfg c <> CfgOpen ->
              decide g c = Through -> holds_rw c.
Proof. exact write_requires_rw. Qed.
Print Assumptions C18_write_requires_rw.

(* A read-class RPC returns data only to a sysadmin or to a holder of at least read permission on
   the selected database. *)
Theorem C18_read_requires_r :
  forall g c, In g gates -> class_of g = Some ClRead -> cx_cfg c <> CfgOpen ->
              decide g c = Through -> holds_r c.
Proof. exact read_requires_r. Qed.
Print Assumptions C18_read_requires_r.

(* Administrative RPCs go through only for: sysadmin, or admin of the selected database
   (flush/compact index, export/replicate), or admin of the database named in the request (database
   life cycle and settings, user creation, permission changes), or admin of some database (password /
   activation of users), or sysadmin alone (database creation, server configuration). *)
Theorem C18_admin_requires_admin :
  forall g c cl, In g gates -> class_of g = Some cl -> is_admin_class cl = true ->
                 cx_cfg c <> CfgOpen -> decide g c = Through -> holds_admin cl c.
Proof. exact admin_requires_admin. Qed.
Print Assumptions C18_admin_requires_admin.

(* Selecting a database needs sysadmin or some permission on it; UseDatabase judges by the user
   record of the credential, OpenSession by the record as it is now (it authenticates afresh, so a
   permission revoked / replaced after an earlier login counts as revoked / replaced). *)
Theorem C18_select_requires_permission :
  forall g c, In g gates -> (class_of g = Some ClSelect \/ class_of g = Some ClCred) -> gt_rpc g <> "Login" ->
              cx_cfg c = CfgAuth -> decide g c = Through ->
              judged_kind g c = KSys \/ (cx_tgt c = DOwn /\ judged_kind g c <> KNone).
Proof. exact select_requires_permission. Qed.
Print Assumptions C18_select_requires_permission.

(* With authentication on, every RPC that is neither public nor carries its own user name and
   password refuses a request without credential, with an expired one, or with one issued before
   the user was deactivated or re-permissioned — cx_st ranges over REVOKE (SReperm) and over GRANTs
   that replace the permission by a lower (SLowered) or a higher (SRaised) one alike — EXCEPT a login
   token of a user name that still has a second live login (see the refutation below).  Whether
   SetActiveUser / ChangePermission invalidate unconditionally is read from the generated gate table. *)
Theorem C18_invalid_session_refused_partial :
  forall g c cl, In g gates -> class_of g = Some cl -> needs_login cl = true ->
                 cx_cfg c = CfgAuth -> (cx_hdr c = HNone \/ cx_st c <> SValid) ->
                 stale_second_login c = false ->
                 decide g c = Refused.
Proof. exact invalid_session_refused_partial. Qed.
Print Assumptions C18_invalid_session_refused_partial.

(* The unrestricted statement is false for the code as it stands: SetActiveUser/ChangePermission
   only decrement the per-user login counter, so with two logins the old token of a deactivated
   read-write user still passes Set (replayed on the server by the harness: known finding). *)
Theorem C18_invalid_session_refused_refuted :
  exists g c cl, In g gates /\ class_of g = Some cl /\ needs_login cl = true /\ cx_cfg c = CfgAuth /\
                 cx_st c = SDeact /\ decide g c = Through.
Proof. exact invalid_session_refused_refuted. Qed.
Print Assumptions C18_invalid_session_refused_refuted.

(* A deactivated user cannot obtain a new credential (Login / OpenSession). *)
Theorem C18_deactivated_user_cannot_login :
  forall g c, In g gates -> class_of g = Some ClCred -> cx_cfg c = CfgAuth -> cx_st c = SDeact ->
              decide g c = Refused.
Proof. exact deactivated_user_cannot_login. Qed.
Print Assumptions C18_deactivated_user_cannot_login.

(* The RPCs that change the selected database and still reach their body when that database is
   systemdb are EXACTLY the listed ones (document-collection writers, replicateTx — all in
   maintenanceMethods — and TxSQLExec, whose statement check is gated as "SQLQuery"). *)
Theorem C18_system_write_paths_exactly : system_write_paths = known_system_write_paths.
Proof. exact system_write_paths_exactly. Qed.
Print Assumptions C18_system_write_paths_exactly.

(* "systemdb cannot be written through the public API" is false for the code as it stands:
   a sysadmin session on systemdb reaches CreateCollection (replayed on the server: known finding). *)
Theorem C18_systemdb_not_writable_refuted :
  exists g c, In g gates /\ mutates g = true /\ cx_cfg c = CfgAuth /\ cx_sel c = DSystem /\ decide g c = Through.
Proof. exact systemdb_not_writable_refuted. Qed.
Print Assumptions C18_systemdb_not_writable_refuted.

(* Every other RPC that changes the selected database is refused when systemdb is selected, for every
   user kind, credential and state. *)
Theorem C18_systemdb_not_writable_partial :
  forall g c, In g gates -> mutates g = true -> in_known g = false ->
              cx_cfg c <> CfgOpen -> cx_sel c = DSystem -> decide g c = Refused.
Proof. exact systemdb_not_writable_partial. Qed.
Print Assumptions C18_systemdb_not_writable_partial.

(* Database life-cycle RPCs (load, unload, delete, update, truncate) refuse systemdb for everyone. *)
Theorem C18_systemdb_not_manageable :
  forall g c, In g gates -> dbmgmt g = true -> cx_tgt c = DSystem -> decide g c = Refused.
Proof. exact systemdb_not_manageable. Qed.
Print Assumptions C18_systemdb_not_manageable.

(* Streams that serve SEVERAL requests (bidirectional streams of the service descriptors, handlers
   with a receive loop: StreamExportTx) authorize EVERY request: all their authentication/permission
   guards sit inside the receive loop, so a request on an already open stream is decided by the
   caller's context at the time of that request — with the theorems above: refused once the session
   ended or the user was deactivated / re-permissioned.  Hoisting a guard out of the loop changes the
   regenerated table and breaks this theorem. *)
Theorem C18_stream_requests_reauthorized :
  forall g c_open c_now, In g gates -> multi_request g = true ->
    per_request g = true /\ decide_next g c_open c_now = decide g c_now.
Proof. exact stream_requests_reauthorized. Qed.
Print Assumptions C18_stream_requests_reauthorized.
