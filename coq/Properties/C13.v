(* C13 — SQL transactions are atomic and isolated, incl. rollback and savepoints.
   Only the property theorems, each closed by `exact`.  The model (SQLTx/Model.v) is the code as it
   is: one store transaction per SQL transaction, per-table snapshots taken at first access, the
   write-set appended by every statement, SQLTx's counters and savepoints, MVCC validation at
   COMMIT; sessions are interleaved step by step.  The spec (SQLTx/Spec.v) is the obvious one. *)
From V Require Import SQLTx.Model SQLTx.Spec SQLTx.Lemmas SQLTx.Atomic SQLTx.Counters SQLTx.Refine SQLTx.Witness.

(* ATOMICITY.  For EVERY state, session and statement (hence along every program and interleaving):
   a step either leaves the committed tables untouched, or it is a COMMIT (explicit, or of the
   implicit transaction of a statement issued outside a transaction) that reported success, and
   then every key holds the LAST value that transaction wrote to it and every other key is
   unchanged: all writes of the transaction, at once, under one new transaction id.  A step that
   reports an error changes nothing; COMMIT (also a rejected one), ROLLBACK and closing the
   session leave the session without a transaction; no step touches another session's transaction.
   This holds for programs with ROLLBACK TO SAVEPOINT too. *)
Theorem commit_all_or_nothing : forall st s o,
  let st' := fst (mstep st (s, o)) in
  let ob := snd (mstep st (s, o)) in
  ((m_db st' = m_db st /\ m_last st' = m_last st)
   \/ (exists x, commit_attempt (m_db st) (m_last st) (tg s (m_sess st)) o = Some x /\
                 o_err ob = false /\ o_ctx ob = Some (x_cnt x, true) /\
                 m_last st' = m_last st + 1 /\
                 forall t pk, afind pk (tg t (m_db st')) =
                              match last_write t pk (x_log x) with
                              | Some w => Some (committed_cell (m_last st + 1) w)
                              | None => afind pk (tg t (m_db st))
                              end))
  /\ (o_err ob = true -> m_db st' = m_db st /\ m_last st' = m_last st)
  /\ (o = OCommit \/ o = ORollback \/ o = OClose -> tg s (m_sess st') = None)
  /\ (forall s', s' <> s -> tg s' (m_sess st') = tg s' (m_sess st)).
Proof. exact commit_all_or_nothing_proof. Qed.
Print Assumptions commit_all_or_nothing.

(* ROLLBACK LEAVES NOTHING.  Take ANY interleaving of sessions in which session s starts without a
   transaction, ends without one, and none of its steps reported a committed transaction (its
   transactions ended by ROLLBACK, by a failed statement, by a rejected COMMIT or by closing the
   session).  Erasing all of s's steps from the schedule yields exactly the same final state of
   the whole machine and exactly the same observation for every step of every other session:
   nothing of what s did is visible, ever. *)
Theorem rollback_leaves_nothing : forall s steps st,
  tg s (m_sess st) = None ->
  (forall e, In e (mtrace st steps) -> fst (fst e) = s -> commits (snd e) = false) ->
  tg s (m_sess (mrun st steps)) = None ->
  mrun st steps = mrun st (filter (not_of s) steps) /\
  others s (mtrace st steps) = mtrace st (filter (not_of s) steps).
Proof. exact rollback_leaves_nothing_proof. Qed.
Print Assumptions rollback_leaves_nothing.

(* NO DIRTY READS.  What a statement returns and does is a function of the committed tables and
   the session's OWN transaction only: two machine states that agree on these (and differ
   arbitrarily in the uncommitted transactions of the other sessions) give the same observation,
   the same committed tables and the same own transaction; the other sessions' transactions are
   neither read nor written. *)
Theorem no_dirty_reads : forall a b s o,
  m_db a = m_db b -> m_last a = m_last b -> tg s (m_sess a) = tg s (m_sess b) ->
  snd (mstep a (s, o)) = snd (mstep b (s, o)) /\
  m_db (fst (mstep a (s, o))) = m_db (fst (mstep b (s, o))) /\
  m_last (fst (mstep a (s, o))) = m_last (fst (mstep b (s, o))) /\
  tg s (m_sess (fst (mstep a (s, o)))) = tg s (m_sess (fst (mstep b (s, o)))) /\
  (forall s', s' <> s -> tg s' (m_sess (fst (mstep a (s, o)))) = tg s' (m_sess a)).
Proof. exact no_dirty_reads_proof. Qed.
Print Assumptions no_dirty_reads.

(* COUNTERS.  Along EVERY program without ROLLBACK TO SAVEPOINT (any interleaving): the
   updatedRows / firstInsertedPKs / lastInsertedPKs of the open transaction equal what is computed
   from its write-set (number of row changes; first and last key put into the AUTO_INCREMENT
   table), and a reported commit carries the counters of exactly the write-set it installed. *)
Theorem counters_match_applied : forall steps s o,
  no_rbto (steps ++ [(s, o)]) = true ->
  let st := mrun minit steps in
  let st' := fst (mstep st (s, o)) in
  let ob := snd (mstep st (s, o)) in
  (forall x, tg s (m_sess st') = Some x -> o_cnt ob = Some (x_cnt x) /\ x_cnt x = derive (x_log x)) /\
  (forall k, o_ctx ob = Some (k, true) ->
             exists x, k = derive (x_log x) /\ x_log x <> [] /\
                       m_db st' = install (m_last st + 1) (x_log x) (m_db st)).
Proof. exact counters_match_applied_proof. Qed.
Print Assumptions counters_match_applied.

(* OWN WRITES ON A SNAPSHOT, equality with the spec (the strongest true statement).  For EVERY
   program without ROLLBACK TO SAVEPOINT and every interleaving: every observation (statement outcome, rows of every
   SELECT, counters, committed tables after every step) equals that of the abstract spec in which a
   transaction works on a private copy of each table taken when it first touches the table, reads
   its own changes, and COMMIT installs its changes atomically or is rejected as a whole (the
   spec's COMMIT verdicts are the engine's MVCC verdicts). *)
Theorem statement_sees_own_writes_on_fixed_snapshot_partial : forall steps,
  no_rbto steps = true ->
  mtrace minit steps = strace false sinit (with_verdicts minit steps).
Proof. exact (fun steps => refinement_proof steps minit sinit Rst_init). Qed.
Print Assumptions statement_sees_own_writes_on_fixed_snapshot_partial.

(* ... REFUTED at full strength (one snapshot of all tables fixed at BEGIN): a read-only
   transaction reads ta; another session commits ONE transaction inserting into ta and tc; the
   read-only transaction then sees the new row of tc but not the new row of ta. *)
Theorem statement_sees_own_writes_on_fixed_snapshot_refuted :
  exists steps,
    no_rbto steps = true /\
    map (fun e => o_rows (snd e)) (skipn 6 (mtrace minit steps)) = [[]; [(2, 20)]]%Z /\
    map (fun e => o_rows (snd e)) (skipn 6 (strace true sinit (with_verdicts minit steps))) = [[]; []] /\
    mtrace minit steps <> strace true sinit (with_verdicts minit steps).
Proof. exact fixed_snapshot_refuted_proof. Qed.
Print Assumptions statement_sees_own_writes_on_fixed_snapshot_refuted.

(* ROLLBACK TO SAVEPOINT undoes exactly the statements after the savepoint: REFUTED.
   INSERT 1; SAVEPOINT s; INSERT 2; ROLLBACK TO SAVEPOINT s; COMMIT commits both rows (the spec:
   row 1 only). *)
Theorem rollback_to_savepoint_undoes_suffix_refuted :
  exists steps,
    t_0 (vis (m_db (mrun minit steps))) = [(1, 10); (2, 20)]%Z /\
    t_0 (svis (s_db (srun false sinit (with_verdicts minit steps)))) = [(1, 10)]%Z /\
    mtrace minit steps <> strace false sinit (with_verdicts minit steps).
Proof. exact rollback_to_savepoint_refuted_proof. Qed.
Print Assumptions rollback_to_savepoint_undoes_suffix_refuted.

(* ... the partial statement: programs with SAVEPOINT and RELEASE SAVEPOINT in any nesting but
   without ROLLBACK TO SAVEPOINT behave exactly as the spec (in which ROLLBACK TO would restore the
   copy taken at the savepoint): same statement as above, seen from the savepoint side. *)
Theorem rollback_to_savepoint_undoes_suffix_partial : forall steps,
  no_rbto steps = true ->
  mtrace minit steps = strace false sinit (with_verdicts minit steps).
Proof. exact (fun steps => refinement_proof steps minit sinit Rst_init). Qed.
Print Assumptions rollback_to_savepoint_undoes_suffix_partial.
