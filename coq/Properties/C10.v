(* C10 — Timed B-tree equals a multi-version ordered map; snapshots are immutable.
   This file contains only the property theorems, each closed by `exact`.
   Model: Index/BTree.v (tree), Index/TBState.v (TBtree object); spec: Index/MVMap.v.
   The model follows /repo incl. e30fc04 (lastUpdateBetween stays inside the key's own history
   chain) and 18b7c7d (lastSnapRoot = loaded root after OpenWith). *)
From V Require Import Index.MVMap Index.MVMapProofs Index.BTree Index.BTreeProofs Index.QueryProofs
  Index.ReaderProofs Index.TBState Index.TBStateProofs Index.WalkProofs Index.KeyInv Index.PastState Index.C10Theorems.

(* One bulk insert at the tree level (node.insert with every split on the way, then the root-growth
   loop), on ANY well-formed tree and ANY batch: it is rejected exactly when the abstract map rejects
   the batch, and otherwise the new tree denotes exactly the map after the map's bulk insert, is
   again well-formed (no empty node, every node within MaxNodeSize), has strictly sorted keys and
   well-formed entries. *)
Theorem C10_tree_insert_refines_map : forall maxn maxkey maxval root kvts,
  cfg_sizes maxn maxkey maxval -> root_ok maxn root -> tree_ok maxn maxkey maxval root ->
  kvts <> [] -> Forall (kvt_ok maxkey maxval) kvts ->
  match tree_insert maxn root kvts with
  | None => mv_insert kvts (abs root) = None
  | Some r => mv_insert kvts (abs root) = Some (abs r) /\ wfn maxn r /\ tree_ok maxn maxkey maxval r
  end.
Proof. exact tree_insert_refines. Qed.
Print Assumptions C10_tree_insert_refines_map.

(* btree_refines_mvmap: for EVERY sequence of operations (bulk inserts incl. refused/rejected ones,
   IncreaseTs, flushes with or without cleanup, syncs, compactions, close/reopen, snapshots, snapshot
   closes) and EVERY tree that lives in the resulting state (current root, last flushed root, every
   open snapshot, every compaction dump): the tree satisfies the invariants, and Get, GetBetween (any
   time window, whatever the history log holds elsewhere), History (both directions, any offset and
   limit) and GetWithPrefix return exactly what the abstract map defines. *)
Theorem C10_btree_refines_mvmap : forall cfg ops n,
  cfg_ok cfg -> in_state n (mrun cfg ops) ->
  good cfg n /\
  (forall k, get n k = mv_get k (abs n)) /\
  (forall h0 k i f, get_between h0 n k i f = mv_get_between k i f (abs n)) /\
  (forall k off desc limit, history n k off desc limit = mv_history k off desc limit (abs n)) /\
  (forall prefix neq, get_with_prefix n prefix neq = Ok (mv_get_with_prefix prefix neq (abs n))).
Proof. exact btree_refines_mvmap. Qed.
Print Assumptions C10_btree_refines_mvmap.

(* The sorted-keys invariant gives the separator invariant of every inner node: the children's
   min keys are strictly increasing and every key below a child is smaller than the next child's
   min key. *)
Theorem C10_separators : forall maxn t cs,
  wfn maxn (Inner t cs) -> ssorted (lkeys (flatten (Inner t cs))) ->
  ssorted (map min_key cs) /\
  forall c c2 r pre x, cs = pre ++ c :: c2 :: r -> In x (lkeys (flatten c)) -> klt x (min_key c2).
Proof. exact separators_sorted. Qed.
Print Assumptions C10_separators.

(* How every operation acts on the abstract content of the tree: a refused batch (malformed, or a
   timestamp not above the current one) changes nothing; an accepted batch is the map's bulk insert
   of the batch with zero timestamps replaced by current+1; IncreaseTs, flushes (any cleanup), sync,
   compaction, snapshots change nothing; close/reopen gives the same content or the content of a
   compaction dump.  Partial: a batch the MAP rejects (same key, decreasing timestamp inside the
   batch) should change nothing, but the tree may go back to its last flushed root
   (C10_rollback_refuted; asserted as intended by TestMultiTimedBulkInsertion); it is replaced by an
   empty tree only if it was never flushed or restarted. *)
Theorem C10_operations_on_content_partial : forall cfg st o, cfg_ok cfg -> st_good cfg st ->
  let st' := mstep cfg st o in
  match o with
  | MInsert kvts =>
      match spec_insert cfg (node_ts (s_root st)) kvts (abs (s_root st)) with
      | Refused => abs (s_root st') = abs (s_root st)
      | Accepted m' => abs (s_root st') = m'
      | Rejected =>
          abs (s_root st') = abs (s_root st) \/
          (exists l, s_last st = Some l /\ abs (s_root st') = abs l) \/
          (s_last st = None /\ abs (s_root st') = [])
      end
  | MReopen => abs (s_root st') = abs (s_root st) \/
               exists d, In d (s_dumps st) /\ abs (s_root st') = abs (snd d)
  | _ => abs (s_root st') = abs (s_root st)
  end.
Proof. exact mstep_content. Qed.
Print Assumptions C10_operations_on_content_partial.

(* Since 18b7c7d a restart defines the last flushed root (the loaded root), no later operation
   undefines it, and then a rejected batch leaves the content as it is or as that root has it: the
   tree is never emptied by a rejected batch after a restart. *)
Theorem C10_restart_defines_last_root : forall cfg st st',
  reopen cfg st = (st', true) -> s_last st' <> None.
Proof. exact reopen_defines_last. Qed.
Print Assumptions C10_restart_defines_last_root.

Theorem C10_last_root_stays_defined : forall cfg st o,
  s_last st <> None -> s_last (mstep cfg st o) <> None.
Proof. exact last_stays_defined. Qed.
Print Assumptions C10_last_root_stays_defined.

Theorem C10_rejected_batch_never_empties_tree : forall cfg st kvts,
  cfg_ok cfg -> st_good cfg st -> s_last st <> None ->
  spec_insert cfg (node_ts (s_root st)) kvts (abs (s_root st)) = Rejected ->
  let st' := mstep cfg st (MInsert kvts) in
  abs (s_root st') = abs (s_root st) \/ exists l, s_last st = Some l /\ abs (s_root st') = abs l.
Proof. exact rejected_batch_after_restart. Qed.
Print Assumptions C10_rejected_batch_never_empties_tree.

(* Readers: for EVERY combination of reader fields (seek/end key, inclusiveness, prefix, direction,
   offset), every mode (Read, Read with history, ReadBetween with any window) and every tree of every
   reachable state, everything the Reader returns until ErrNoMoreEntries -- by the path-climbing
   cursor over the B-tree -- is exactly the operational reading of the abstract map (MVMap.mv_walk). *)
Theorem C10_reader_refines_map : forall cfg ops n h0 s mode,
  cfg_ok cfg -> in_state n (mrun cfg ops) ->
  read_all h0 n s mode = Ok (mv_walk s mode (abs n)).
Proof. exact reader_refines. Qed.
Print Assumptions C10_reader_refines_map.

(* reader_spec: for EVERY ReaderSpec that Snapshot.NewReader accepts (every combination of seek key,
   end key, inclusiveness of both, prefix, direction, offset) and every mode, on every tree of every
   reachable state (the keys handed to BulkInsert being byte strings), everything the Reader returns
   until ErrNoMoreEntries is exactly the declarative range of the abstract map: the keys with the
   prefix between the seek and the end bound in reader order, the first `offset` of them skipped,
   each expanded by the mode (latest version / whole history in reader direction / newest version
   in the time window).  The seek/end adjustment of NewReader (prefix padding with 0xFF up to
   MaxKeySize) is part of what is proved. *)
Theorem C10_reader_spec : forall cfg ops n h0 s s' mode,
  cfg_ok cfg -> ops_bytes_ok ops -> in_state n (mrun cfg ops) ->
  new_reader (c_maxkey cfg) s = Some s' ->
  read_all h0 n s' mode = Ok (mv_scan s mode (abs n)).
Proof. exact reader_spec. Qed.
Print Assumptions C10_reader_spec.

(* Snapshots are values of the persistent tree: no later operation other than closing it changes
   an open snapshot, so every query on it keeps returning the same result (by the theorems above no
   query depends on anything but the snapshot's tree); block 0 of the history log never changes
   once it exists. *)
Theorem C10_snapshot_immutable : forall cfg st ops id r,
  snap_find id st = Some r -> Forall (keeps_snapshot id) ops ->
  snap_find id (fold_left (mstep cfg) ops st) = Some r /\
  (s_h0 st <> [] -> s_h0 (fold_left (mstep cfg) ops st) = s_h0 st).
Proof. exact snapshot_immutable_all. Qed.
Print Assumptions C10_snapshot_immutable.

(* A snapshot reflects ONE fixed state of the tree: the content of every open snapshot of every
   reachable state is the content the tree had at the boundary of some earlier (or the current)
   operation of the sequence. *)
Theorem C10_snapshot_reflects_past_state : forall cfg ops id r,
  snap_find id (mrun cfg ops) = Some r ->
  exists k, (k <= length ops)%nat /\ abs r = abs (s_root (mrun cfg (firstn k ops))).
Proof. exact snapshot_reflects_past_state. Qed.
Print Assumptions C10_snapshot_reflects_past_state.

(* Compaction: every full dump waiting to be loaded by the next restart holds the content the tree
   had at an operation boundary and is filed under exactly the logical time of its root (the time
   Compact reports); by C10_operations_on_content_partial the restart loads the current content or
   one of these dumps. *)
Theorem C10_compaction_equals_reported_ts : forall cfg ops id r,
  In (id, r) (s_dumps (mrun cfg ops)) ->
  (exists k, (k <= length ops)%nat /\ abs r = abs (s_root (mrun cfg (firstn k ops)))) /\ id = node_ts r.
Proof. exact compaction_dump. Qed.
Print Assumptions C10_compaction_equals_reported_ts.

(* A snapshot asked to include logical time ts is not older than ts. *)
Theorem C10_snapshot_not_older_than_requested : forall cfg id ts renew st st' r,
  snapshot cfg id ts renew st = (st', Some r) -> ts <= node_ts r.
Proof. exact snapshot_not_older. Qed.
Print Assumptions C10_snapshot_not_older_than_requested.

(* The code that exists: a batch the map rejects is not without effect.  After a@1 flush c@2, the
   batch [d@9; d@8] is rejected, and with it c disappears and Ts() goes back from 2 to 1 (known
   finding; the in-process rollback is asserted by TestMultiTimedBulkInsertion). *)
Theorem C10_rollback_refuted :
  exists cfg ops kvts k, cfg_ok cfg /\
    let st := mrun cfg ops in
    let st' := mstep cfg st (MInsert kvts) in
    spec_insert cfg (node_ts (s_root st)) kvts (abs (s_root st)) = Rejected /\
    get (s_root st) k = Some ([67; 50], 2, 1) /\ get (s_root st') k = None /\
    node_ts (s_root st) = 2 /\ node_ts (s_root st') = 1.
Proof. exact rollback_refuted. Qed.
Print Assumptions C10_rollback_refuted.
