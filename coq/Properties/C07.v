(* C07 — Replication reproduces exactly the primary's history, nothing else.
   Only property theorems, each closed by `exact`.  H is ANY hash function (32-byte outputs where
   stated); `Collision H` = exists x <> y with H x = H y.  Hs = the executable SHA-256, used in the
   `_refuted` witnesses.
   The model (Repl/Model.v) transliterates ReplicateTx = framing (Store/Codec.v) + precommit
   against the expected header + performPrecommit + mayCommit, AllowCommitUpto,
   DiscardPrecommittedTxsSince, Close/Open (reload of the precommitted backlog), and pkg/database's
   ExportTxByID validation, mayUpdateReplicaState and replica-side AllowCommitUpto.
   Vocabulary (Repl/Spec.v): a primary history P is a list of records (header, entries, Alh);
   primary_valid = what the primary's own ReadTx returns (ids = positions, Eh = root of the entry
   digests, value hash = H(value), Alh computed from the header, field widths within the encoders'
   limits); export_rec tr r = the bytes of ExportTx (tr: values were truncated, digests are sent);
   run c P acts = the replica store after the replicator actions acts (ADeliver skip j tr = ReplicateTx
   of the export of P's (j+1)-th transaction, AAllow, ADiscard, ARestart);
   is_prefix P l = l is the primary's history up to length l (same headers, keys, metadata, value
   hashes, values unless truncated, same Alh). *)
From V Require Import Repl.Spec Repl.Prefix Repl.Altered Repl.Sync Repl.Witness.

(* ExportTx -> ReplicateTx round trip: for every valid record, with or without truncated values,
   the exported bytes exist, are parsed back to exactly the primary's header, keys, metadata and
   values (digests when truncated), and the entries the replica precommits are the primary's. *)
Theorem C07_export_replicate_roundtrip :
  forall (H : bytes -> bytes) (id : N) (p : txrec) (tr : bool),
    rec_valid H id p = true ->
    exists b, export_rec tr p = Ok b /\
              repl_parse b = Ok (t_hdr p, map (xe_of tr) (t_ents p), tr) /\
              map (mk_rentry H tr) (map (xe_of tr) (t_ents p))
              = (if tr then map forget_entry (t_ents p) else t_ents p).
Proof. exact export_replicate_roundtrip. Qed.
Print Assumptions C07_export_replicate_roundtrip.

(* replica_prefix: for EVERY primary history and EVERY finite schedule of deliveries of unaltered
   exports (any order, duplicates, retries, with or without integrity check, values truncated or not),
   allowances, discards and restarts, the replica's committed and precommitted histories are prefixes
   of the primary's, with identical Alh values.
   (Until /repo commit 7c27871 this was refuted: performPrecommit left the BlRoot of the pooled tx
   holder's previous use in a header with BlTxID = 0; deliver tx 1, deliver tx 2,
   DiscardPrecommittedTxsSince(1), deliver tx 1 gave a transaction 1 with another Alh.  The harness
   runs that schedule on every check; Repl/Witness.v stale_schedule_repaired is the model's run.) *)
Theorem C07_replica_prefix :
  forall (H : bytes -> bytes) (c : cfg) (P : list txrec) (acts : list action),
    primary_valid H P = true ->
    let st := run H c P acts in
    is_prefix P (chain st) /\ is_prefix P (s_com st) /\
    map t_alh (chain st) = map t_alh (firstn (length (chain st)) P).
Proof. exact replica_prefix. Qed.
Print Assumptions C07_replica_prefix.

(* altered_rejected ("every alteration of the exported bytes is rejected, or yields the primary's
   Alh, or exhibits a collision") is REFUTED: Repl/Witness.v, altered_rejected_refuted -- one flipped
   bit of Ts (byte 4+8+32+7 of the export of tx 2), offered to an asynchronous replica that holds
   exactly the primary's tx 1, is accepted and committed with an Alh that is not the primary's -- and
   uncovered_fields_accepted, which enumerates on the model the fields no check covers: Ts; BlTxID
   together with BlRoot; the transaction metadata; the header version (with the entries hash of the
   other digest function); Eh together with the entries; with skipIntegrityCheck the entries alone.
   (SHA-256 witnesses, compiled with this file, see above.)  Known findings. *)



(* altered_rejected_partial: for EVERY byte string b offered to a replica that holds exactly the
   primary's transactions 1..j: if b parses and leaves the uncovered fields (Ts, Version, metadata
   bytes, BlTxID, and Eh -- or the entry digests when the integrity check is skipped) as the
   primary's, then an accepted b appends a transaction whose Alh IS the primary's, or a hash
   collision is exhibited.  So id, PrevAlh, BlRoot, NEntries and (through Eh) keys, entry metadata
   and values are covered.  (Rejection leaves the store's transactions unchanged by construction:
   `replicate` returns Err and no state.) *)
Theorem C07_altered_rejected_partial :
  forall (H : bytes -> bytes), (forall x, length (H x) = 32%nat) ->
  forall (c : cfg) (skip : bool) (P : list txrec) (j : nat) (p : txrec) (st : store) (b : bytes)
         (hdr : txhdr) (xes : list xentry) (tr : bool) (st' : store),
    primary_valid H P = true -> nth_error P j = Some p ->
    Forall2 matches (chain st) (firstn j P) ->
    h_prevalh (t_hdr p) = last_alh H (firstn j P) ->
    h_blroot (t_hdr p) = (if 0 <? h_bltxid (t_hdr p)
                          then root_at H (h_bltxid (t_hdr p)) (map t_alh (firstn j P)) else zeros32) ->
    repl_parse b = Ok (hdr, xes, tr) ->
    h_ts hdr = h_ts (t_hdr p) -> h_version hdr = h_version (t_hdr p) ->
    opt_md_bytes (h_md hdr) = opt_md_bytes (h_md (t_hdr p)) -> h_bltxid hdr = h_bltxid (t_hdr p) ->
    (skip = false -> h_eh hdr = h_eh (t_hdr p)) ->
    (skip = true -> digests H (h_version hdr) (map (mk_rentry H tr) xes)
                    = digests H (h_version (t_hdr p)) (t_ents p)) ->
    replicate H c skip st b = Ok st' ->
    (exists r, chain st' = chain st ++ [r] /\ t_alh r = t_alh p) \/ Collision H.
Proof. exact altered_rejected_partial. Qed.
Print Assumptions C07_altered_rejected_partial.

(* ReplicateTx on arbitrary bytes returns a header or an error, never a Go panic. *)
Theorem C07_replicate_never_panics :
  forall (H : bytes -> bytes) (c : cfg) (skip : bool) (st : store) (b : bytes),
    replicate H c skip st b <> Panic.
Proof. exact replicate_no_panic. Qed.
Print Assumptions C07_replicate_never_panics.

(* sync_ack_safety, primary side: after ANY sequence of precommits and replica reports (honest,
   stale or forged), a report that raises the commit allowance of the primary's store leaves at
   least syncAcks recorded replica states, of pairwise distinct replicas, each with a precommitted
   id at or beyond the new allowance and each carrying the primary's own Alh for that id. *)
Theorem C07_sync_ack_safety_primary :
  forall (H : bytes -> bytes) (acks : N) (ops : list pop) (r : report) (p' : primary) (may : N * bytes),
    p_report H acks (prun H acks ops) r = Ok (p', may) ->
    p_allowed (prun H acks ops) < p_allowed p' ->
    acks <= lenN (p_states p') /\ NoDup (map rs_uuid (p_states p')) /\
    forall s, In s (p_states p') -> p_allowed p' <= rs_pre s /\ validated p' s.
Proof. exact sync_ack_primary. Qed.
Print Assumptions C07_sync_ack_safety_primary.

(* sync_ack_safety, replica side: one primary and n replicas in synchronous mode, ANY schedule of
   primary precommits, fetches (report + obey the reply), other reports, deliveries of ANY bytes
   (altered ones included), discards and restarts: every replica's committed id is at most the
   primary's committed id, and its committed Alh is the primary's Alh for that id.  (This is the
   layer that catches an altered Ts before it is committed -- in synchronous mode only.) *)
Theorem C07_sync_ack_safety_replica :
  forall (H : bytes -> bytes) (acks : N) (c : cfg), c_ext c = true ->
  forall (n : nat) (ops : list sop) (st : store),
    In st (y_r (yrun H acks c n ops)) ->
    com_id st <= p_com (y_p (yrun H acks c n ops)) /\
    (com_id st = 0 \/ p_alh_at (y_p (yrun H acks c n ops)) (com_id st) = Some (com_alh H st)).
Proof. exact sync_replica_commits_after_primary. Qed.
Print Assumptions C07_sync_ack_safety_replica.
