(* C17 — Appendable files behave as a persistent byte log.
   This file contains only the property theorems, each closed by `exact`.

   Models: App/Single.v, App/Multi.v and App/Fixed.v (SetOffset as it is since /repo commit 09014a8:
   a rewind below the flushed size truncates the file, a rewind into an earlier chunk removes the
   chunk files that follow; `s_run_fx` / `m_run_fx`), specification: App/Spec.v (ONE growable byte
   array).  The runs give the list of outputs (returned offsets, byte strings, sizes, error classes,
   the full content of a Copy opened read-only) of an operation sequence; `out_match` is equality,
   except where the specification leaves the result open (reads below a DiscardUpto offset).
   Not in the models: compression, failing OS calls, handle-cache eviction, concurrency.
   At the end: what was false before 09014a8, kept as refutations of the pre-fix models. *)
From V Require Import App.Spec App.Single App.SingleProofs App.SingleSim.
From V Require Import App.Multi App.MultiProofs App.MultiRead App.MultiSim.
From V Require Import App.Fixed App.FixedProofs App.FixedMulti.

(* singleapp (not preallocated) IS the byte array: for EVERY operation sequence — appends, reads,
   rewinds below the flushed size, flush/sync, discard, read-only switch, close, REOPEN with any
   valid options, COPY at any point — and every option combination (buffer size, retryableSync,
   autoSync incl. ErrBufferFull), every returned offset / byte string / size / error class / copy
   content equals the byte array's.  No clean-state premise. *)
Theorem C17_single_refines_log : forall meta o ops,
  opts_valid o = true ->
  Forall2 out_match (s_run_fx false (s_create 0 meta o) ops) (spec_run (log_init (zeros 0) meta o) ops).
Proof. exact single_refines_log_fixed. Qed.
Print Assumptions C17_single_refines_log.

(* multiapp (not preallocated) IS the byte array: every operation sequence (rewinds into earlier
   chunks, reopen, Copy included), every chunk size > 0, flush-when-full or retryableSync+autoSync *)
Theorem C17_multi_refines_log : forall fs meta o ops,
  0 < fs -> opts_valid o = true -> nocap o = true -> ops_nocap ops = true ->
  Forall2 out_match (m_run_fx (m_create fs false meta o) ops) (spec_run (log_init (zeros 0) meta o) ops).
Proof. exact multi_refines_log_fixed. Qed.
Print Assumptions C17_multi_refines_log.

(* preallocated singleapp files are not truncated (they keep their size by design):
   the model is the one of Single.v, to which the theorems below apply *)
Theorem C17_single_prealloc_unchanged : forall s ops, s_run_fx true s ops = s_run s ops.
Proof. exact single_fixed_prealloc_same. Qed.
Print Assumptions C17_single_prealloc_unchanged.

(* singleapp incl. preallocation: exact outputs as long as no reopen / Copy happens while the
   file is longer than the offset; within one session unconditional up to the content of such a Copy *)
Theorem C17_single_refines_log_partial : forall p meta o ops,
  opts_valid o = true ->
  s_clean (s_create p meta o) ops = true ->
  Forall2 out_match (s_run (s_create p meta o) ops) (spec_run (log_init (zeros p) meta o) ops).
Proof. exact single_refines_log_partial. Qed.
Print Assumptions C17_single_refines_log_partial.

Theorem C17_single_refines_log_session : forall p meta o ops,
  opts_valid o = true -> no_reopen ops = true ->
  Forall2 out_match_c (s_run (s_create p meta o) ops) (spec_run (log_init (zeros p) meta o) ops).
Proof. exact single_refines_log_session. Qed.
Print Assumptions C17_single_refines_log_session.

(* along EVERY run the write-buffer indices stay in range: no Go slice expression of AppendableFile can panic *)
Theorem C17_single_buffer_indices_in_range : forall pre p meta o ops,
  opts_valid o = true ->
  let h := s_h (s_state_fx pre (s_create p meta o) ops) in
  h_fl h <= h_uw h /\ h_uw h <= len (h_wbuf h) /\ h_fl h <= h_fo h.
Proof. exact single_buffer_indices_in_range_fixed. Qed.
Print Assumptions C17_single_buffer_indices_in_range.

(* discarding a prefix never affects bytes at or after the given offset: in ANY state a successful DiscardUpto(n) changes the
   result of no ReadAt at an offset >= n *)
Theorem C17_multi_discard_keeps_suffix : forall m n k off,
  0 < m_fs m -> snd (m_step_fx m (Discard n)) = OOk -> n <= off ->
  snd (m_step_fx (fst (m_step_fx m (Discard n))) (ReadAt k off)) = snd (m_step_fx m (ReadAt k off)).
Proof. exact multi_discard_keeps_suffix. Qed.
Print Assumptions C17_multi_discard_keeps_suffix.

(* ---------------- before 09014a8 (historical: models `s_run` / `m_run` with the old SetOffset) ----------------
   SetOffset never truncated and never removed chunk files; these witnesses are what the repair removed.
   The directed scenarios of harness/c17 replay them on the real code at every run: a recurrence is
   reported as a violation. *)
Theorem C17_before_09014a8_single_reopen_same_size_refuted : exists p meta o ops o',
  opts_valid o = true /\ opts_valid o' = true /\
  let s1 := s_state (s_create p meta o) (ops ++ [Flush]) in
  h_closed (s_h s1) = false /\
  snd (s_step s1 Size) = ON 4 /\
  snd (s_step (s_state s1 [Close; Reopen o']) Size) = ON 10.
Proof. exact single_reopen_same_size_refuted. Qed.
Print Assumptions C17_before_09014a8_single_reopen_same_size_refuted.

Theorem C17_before_09014a8_multi_reopen_same_size_refuted : exists fs pre meta o o' bs,
  0 < fs /\ opts_valid o = true /\ opts_valid o' = true /\
  m_run (m_create fs pre meta o) [Append bs; SetOffset 2; Size; Close; Reopen o'; Size] =
  [OApp 0 10; OOk; ON 2; OOk; OOk; ON 10].
Proof. exact multi_reopen_same_size_refuted. Qed.
Print Assumptions C17_before_09014a8_multi_reopen_same_size_refuted.

Theorem C17_before_09014a8_multi_stale_chunk_read_refuted : exists fs pre meta o ops,
  0 < fs /\ opts_valid o = true /\ nocap o = true /\ ops_nocap ops = true /\
  ~ Forall2 out_match (m_run (m_create fs pre meta o) ops)
                      (spec_run (log_init (zeros (if pre then fs else 0)) meta o) ops).
Proof. exact multi_refines_log_refuted. Qed.
Print Assumptions C17_before_09014a8_multi_stale_chunk_read_refuted.
