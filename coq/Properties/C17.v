(* C17 — Appendable files behave as a persistent byte log.
   This file contains only the property theorems, each closed by `exact`.

   Models: App/Single.v (singleapp.AppendableFile), App/Multi.v (multiapp.MultiFileAppendable),
   specification: App/Spec.v (ONE growable byte array).  `s_run` / `spec_run` give the
   list of outputs (returned offsets, byte strings, sizes, error classes) of an operation
   sequence; `out_match` is equality, except where the specification leaves the result open
   (reads below a DiscardUpto offset).

   Since the fix "singleapp readAt never reads the file beyond the logical file offset" reads are
   exact.  What is left: a file may hold bytes beyond fileOffset (SetOffset below the flushed size
   never truncates; preallocation) and Open takes the file end as the size, so a reopen in that
   situation finds a larger size (`s_risky`, `s_clean` = no such reopen); multiapp's SetOffset
   into an earlier chunk leaves the later chunk FILES, which a ReadAt running past the end of the
   current chunk walks into and which Open takes as current (`m_risky`, `m_clean`).
   Not in the models: compression, failing OS calls, handle-cache eviction, concurrency. *)
From V Require Import App.Spec App.Single App.SingleProofs App.SingleSim.
From V Require Import App.Multi App.MultiProofs App.MultiRead App.MultiSim.

(* singleapp: for EVERY operation sequence and every valid option combination (buffer size,
   retryableSync, autoSync incl. the ErrBufferFull mode, preallocation, read-only reopen), as long
   as no reopen happens — and no Copy is made — while the file is longer than fileOffset, every
   returned offset / byte string / size / error class / copy content equals the byte array's
   (the result of Copy is everything a read-only Open of the copied file holds) *)
Theorem C17_single_refines_log_partial : forall p meta o ops,
  opts_valid o = true ->
  s_clean (s_create p meta o) ops = true ->
  Forall2 out_match (s_run (s_create p meta o) ops) (spec_run (log_init (zeros p) meta o) ops).
Proof. exact single_refines_log_partial. Qed.
Print Assumptions C17_single_refines_log_partial.

(* within one session (any sequence without a reopen, Copy included anywhere) the refinement needs no
   premise: rewinds below the flushed size, stale tails and preallocation included, every output
   equals the byte array's, and a Copy changes nothing that is observable afterwards.  Only the
   CONTENT of a copy made while the file holds bytes beyond the current offset may carry those bytes
   behind the byte array (`out_match_c`: impl = OCopy (bs ++ t) where the specification has OCopy bs) *)
Theorem C17_single_refines_log_session : forall p meta o ops,
  opts_valid o = true -> no_reopen ops = true ->
  Forall2 out_match_c (s_run (s_create p meta o) ops) (spec_run (log_init (zeros p) meta o) ops).
Proof. exact single_refines_log_session. Qed.
Print Assumptions C17_single_refines_log_session.

(* the full statement (any reopen allowed) is false on the current code: append 10 bytes, Flush,
   SetOffset 4, Close, reopen, Size = 10 where the byte array has 4 bytes *)
Theorem C17_single_refines_log_refuted : exists p meta o ops,
  opts_valid o = true /\
  ~ Forall2 out_match (s_run (s_create p meta o) ops) (spec_run (log_init (zeros p) meta o) ops).
Proof. exact single_refines_log_refuted. Qed.
Print Assumptions C17_single_refines_log_refuted.

(* rewinding then appending overwrites: in EVERY reachable state (stale tail or not, flushed or
   still buffered), when SetOffset n and Append bs succeed, the append is at offset n and reading
   |bs| bytes at n returns bs *)
Theorem C17_single_rewind_then_append_overwrites : forall p meta o ops n bs off,
  opts_valid o = true ->
  let s := s_state (s_create p meta o) ops in
  s_run s [SetOffset n; Append bs] = [OOk; OApp off (len bs)] ->
  s_run s [SetOffset n; Append bs; ReadAt (len bs) n] = [OOk; OApp n (len bs); ORead bs false].
Proof. exact single_rewind_then_append_overwrites. Qed.
Print Assumptions C17_single_rewind_then_append_overwrites.

(* after Flush, Close and reopening with any valid options, every read and the size are what
   they were before the Close, provided the file holds nothing beyond the flushed offset *)
Theorem C17_single_reopen_same_bytes_and_size_partial : forall p meta o ops o' n off,
  opts_valid o = true -> opts_valid o' = true -> 0 < n ->
  let s1 := s_state (s_create p meta o) (ops ++ [Flush]) in
  h_closed (s_h s1) = false ->
  h_tail (s_h s1) (s_file s1) = false ->
  let s2 := s_state s1 [Close; Reopen o'] in
  snd (s_step s2 (ReadAt n off)) = snd (s_step s1 (ReadAt n off)) /\
  snd (s_step s2 Size) = snd (s_step s1 Size).
Proof. exact single_reopen_same_bytes_and_size_partial. Qed.
Print Assumptions C17_single_reopen_same_bytes_and_size_partial.

(* the proviso is needed on the current code: append 10, Flush, SetOffset 4 (Size 4), Close,
   reopen: Size is 10 *)
Theorem C17_single_reopen_same_size_refuted : exists p meta o ops o',
  opts_valid o = true /\ opts_valid o' = true /\
  let s1 := s_state (s_create p meta o) (ops ++ [Flush]) in
  h_closed (s_h s1) = false /\
  snd (s_step s1 Size) = ON 4 /\
  snd (s_step (s_state s1 [Close; Reopen o']) Size) = ON 10.
Proof. exact single_reopen_same_size_refuted. Qed.
Print Assumptions C17_single_reopen_same_size_refuted.

(* along EVERY run the write-buffer indices stay in range: no Go slice expression of
   AppendableFile can panic *)
Theorem C17_single_buffer_indices_in_range : forall p meta o ops,
  opts_valid o = true ->
  let h := s_h (s_state (s_create p meta o) ops) in
  h_fl h <= h_uw h /\ h_uw h <= len (h_wbuf h) /\ h_fl h <= h_fo h.
Proof. exact single_buffer_indices_in_range. Qed.
Print Assumptions C17_single_buffer_indices_in_range.

(* ---------------- multiapp ---------------- *)

(* multiapp: for EVERY operation sequence, every chunk size > 0 (appends spanning any number of
   chunks), buffer size, flush-when-full or retryableSync+autoSync, preallocation, read-only reopen:
   as long as no step observes stale chunk files (`m_clean`: no ReadAt running past the end of the
   current chunk while chunk files beyond the current one exist; no reopen and no Copy while such
   files exist or the current chunk file is longer than its offset), every output — also the full
   content of a Copy opened read-only — equals the byte array's.  (`nocap`: not retryableSync without autoSync, see trusted_base.) *)
Theorem C17_multi_refines_log_partial : forall fs pre meta o ops,
  0 < fs -> opts_valid o = true -> nocap o = true -> ops_nocap ops = true ->
  m_clean (m_create fs pre meta o) ops = true ->
  Forall2 out_match (m_run (m_create fs pre meta o) ops)
                    (spec_run (log_init (zeros (if pre then fs else 0)) meta o) ops).
Proof. exact multi_refines_log_partial. Qed.
Print Assumptions C17_multi_refines_log_partial.

(* without `m_clean` it is false on the current code: chunk size 4, append 10 bytes, SetOffset 2
   (Size 2), ReadAt(2 bytes, 4) returns "45" from the stale chunk file 1 *)
Theorem C17_multi_refines_log_refuted : exists fs pre meta o ops,
  0 < fs /\ opts_valid o = true /\ nocap o = true /\ ops_nocap ops = true /\
  ~ Forall2 out_match (m_run (m_create fs pre meta o) ops)
                      (spec_run (log_init (zeros (if pre then fs else 0)) meta o) ops).
Proof. exact multi_refines_log_refuted. Qed.
Print Assumptions C17_multi_refines_log_refuted.

(* "reopening finds the same size" is false on the current code after a rewind into an earlier
   chunk: chunk size 4, append 10 bytes, SetOffset 2 (Size 2), Close, reopen: Size 10 *)
Theorem C17_multi_reopen_same_size_refuted : exists fs pre meta o o' bs,
  0 < fs /\ opts_valid o = true /\ opts_valid o' = true /\
  m_run (m_create fs pre meta o) [Append bs; SetOffset 2; Size; Close; Reopen o'; Size] =
  [OApp 0 10; OOk; ON 2; OOk; OOk; ON 10].
Proof. exact multi_reopen_same_size_refuted. Qed.
Print Assumptions C17_multi_reopen_same_size_refuted.

(* discarding a prefix never affects bytes at or after the given offset: in ANY state of the
   multiapp model, a successful DiscardUpto(n) changes the result of no ReadAt at an offset >= n
   (singleapp's DiscardUpto changes nothing at all) *)
Theorem C17_multi_discard_keeps_suffix : forall m n k off,
  0 < m_fs m -> snd (m_step m (Discard n)) = OOk -> n <= off ->
  snd (m_step (fst (m_step m (Discard n))) (ReadAt k off)) = snd (m_step m (ReadAt k off)).
Proof. exact multi_discard_keeps_suffix. Qed.
Print Assumptions C17_multi_discard_keeps_suffix.

Theorem C17_single_discard_keeps_everything : forall s n, fst (s_step s (Discard n)) = s.
Proof. exact single_discard_keeps_everything. Qed.
Print Assumptions C17_single_discard_keeps_everything.
