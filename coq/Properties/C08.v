(* C08 — Hash trees equal the reference Merkle construction.
   Only property theorems, each closed by `exact`. H is ANY hash function with 32-byte outputs;
   `Collision H` = exists x <> y with H x = H y (an explicit collision, exhibited by the proof).
   `tree`, `th` (tree hash: leaf = H(0x00‖d), node = H(0x01‖l‖r)), `leaves`, `mk_tree` (RFC 6962
   shape) are in Merkle/Tree.v and Merkle/Ref.v; the verifiers transliterated from
   embedded/ahtree/verification.go and embedded/htree/htree.go are in Merkle/Verify.v. *)
From V Require Import Merkle.Verify Merkle.Sound Merkle.Levels Merkle.Honest Merkle.Exact Merkle.RefEq Merkle.Main.

(* The reference tree over a non-empty list of payloads has exactly those payloads as leaves, in
   order (so `mth L` commits to L and to nothing else). *)
Theorem C08_reference_tree_leaves : forall L : list bytes, L <> [] -> leaves (mk_tree L) = L.
Proof. exact mk_tree_leaves. Qed.
Print Assumptions C08_reference_tree_leaves.

(* The level-by-level construction (pair adjacent nodes, promote an odd last node: what
   htree.BuildWith computes and the AHtree maintains) builds EXACTLY the reference RFC 6962 tree,
   for every non-empty payload list. *)
Theorem C08_level_construction_is_reference :
  forall L : list bytes, L <> [] -> root (map Leaf L) = mk_tree L.
Proof. exact level_root_is_reference. Qed.
Print Assumptions C08_level_construction_is_reference.

(* ahtree.VerifyInclusion is POSITION-EXACT: for every payload list L (any size), every proof an
   adversary can assemble (any number of 32-byte terms), every claimed i and payload d: acceptance
   against the genuine (size, root) pair implies that d is exactly the i-th payload (and
   1 <= i <= size), or a hash collision is exhibited. *)
Theorem C08_ahtree_inclusion_sound_exact :
  forall (H : bytes -> bytes), (forall x, length (H x) = 32%nat) ->
  forall (L : list bytes) (terms : list bytes) (i j : N) (d : bytes),
    L <> [] -> j = N.of_nat (length L) -> len32 terms ->
    verify_inclusion H terms i j (leafh H d) (mth H L) = true ->
    (nth_error L (N.to_nat (i - 1)) = Some d /\ (1 <= i <= j)%N) \/ Collision H.
Proof. exact ahtree_inclusion_sound_exact. Qed.
Print Assumptions C08_ahtree_inclusion_sound_exact.

(* Completeness: for every L and every valid position i the honest proof (the sibling path through
   the level construction; the harness checks on every run that AHtree.InclusionProof returns
   exactly these terms) is accepted. *)
Theorem C08_ahtree_inclusion_complete :
  forall (H : bytes -> bytes), (forall x, length (H x) = 32%nat) ->
  forall (L : list bytes) (i j : N) (d : bytes),
    L <> [] -> j = N.of_nat (length L) -> (1 <= i)%N -> nth_error L (N.to_nat (i - 1)) = Some d ->
    verify_inclusion H (honest_inclusion_proof H L i) i j (leafh H d) (mth H L) = true.
Proof. exact ahtree_inclusion_complete. Qed.
Print Assumptions C08_ahtree_inclusion_complete.

(* Also for ANY tree t (not only the reference shape): an accepted payload is a leaf of t. *)
Theorem C08_ahtree_inclusion_sound_anytree :
  forall (H : bytes -> bytes), (forall x, length (H x) = 32%nat) ->
  forall (t : tree) (terms : list bytes) (i j : N) (d : bytes),
    len32 terms ->
    verify_inclusion H terms i j (leafh H d) (th H t) = true ->
    In d (leaves t) \/ Collision H.
Proof. exact inclusion_sound_membership. Qed.
Print Assumptions C08_ahtree_inclusion_sound_anytree.

(* ahtree.VerifyLastInclusion is exact: an accepted payload is THE LAST leaf of the tree. *)
Theorem C08_ahtree_last_inclusion_sound :
  forall (H : bytes -> bytes), (forall x, length (H x) = 32%nat) ->
  forall (t : tree) (terms : list bytes) (i : N) (d : bytes),
    len32 terms ->
    verify_last_inclusion H terms i (leafh H d) (th H t) = true ->
    (exists pre, leaves t = pre ++ [d]) \/ Collision H.
Proof. exact last_inclusion_sound. Qed.
Print Assumptions C08_ahtree_last_inclusion_sound.

(* ahtree.VerifyConsistency: an accepted old root is the hash of a tree whose leaves are a PREFIX
   of the leaves of the (genuine) new tree — history can only have been extended, never rewritten.
   FULL statement ("... and that prefix has exactly i leaves in the reference shape") is REFUTED on
   the code as it stands (known finding: VerifyConsistency([R2],1,2,R2,R2) accepts); this is the
   _partial form. The Go panic on an empty proof is excluded by the verifier's own guards
   (the model returns Panic for cproof[0] on [] and the theorem's premise is `= Ok true`). *)
Theorem C08_ahtree_consistency_sound_partial :
  forall (H : bytes -> bytes), (forall x, length (H x) = 32%nat) ->
  forall (t : tree) (cproof : list bytes) (i j : N) (iroot : bytes),
    len32 cproof ->
    verify_consistency H cproof i j iroot (th H t) = Ok true ->
    (exists u post, th H u = iroot /\ leaves t = leaves u ++ post) \/ Collision H.
Proof. exact consistency_sound_prefix. Qed.
Print Assumptions C08_ahtree_consistency_sound_partial.

(* htree.VerifyInclusion (per-transaction entry tree): an accepted digest is a leaf of the tree. *)
Theorem C08_htree_inclusion_sound_partial :
  forall (H : bytes -> bytes), (forall x, length (H x) = 32%nat) ->
  forall (t : tree) (leaf width : Z) (terms : list bytes) (d : bytes),
    len32 terms ->
    htree_verify_inclusion H leaf width terms d (th H t) = true ->
    In d (leaves t) \/ Collision H.
Proof. exact htree_inclusion_sound_membership. Qed.
Print Assumptions C08_htree_inclusion_sound_partial.
