(* C08 — Hash trees equal the reference Merkle construction.
   Only property theorems, each closed by `exact`. H is ANY hash function with 32-byte outputs;
   `Collision H` = exists x <> y with H x = H y (an explicit collision, exhibited by the proof).
   `tree`, `th` (tree hash: leaf = H(0x00‖d), node = H(0x01‖l‖r)), `leaves`, `mk_tree` (RFC 6962
   shape) are in Merkle/Tree.v and Merkle/Ref.v; the verifiers transliterated from
   embedded/ahtree/verification.go and embedded/htree/htree.go are in Merkle/Verify.v. *)
From V Require Import Merkle.Verify Merkle.Sound.

(* The reference tree over a non-empty list of payloads has exactly those payloads as leaves, in
   order (so `mth L` commits to L and to nothing else). *)
Theorem C08_reference_tree_leaves : forall L : list bytes, L <> [] -> leaves (mk_tree L) = L.
Proof. exact mk_tree_leaves. Qed.
Print Assumptions C08_reference_tree_leaves.

(* ahtree.VerifyInclusion, for every tree t, every proof (any number of 32-byte terms), every
   claimed i, j and payload d: acceptance against the hash of t implies that d IS a leaf of t, or a
   collision is exhibited.
   FULL statement (position-exact: "... implies nth (i-1) (leaves t) = d and the proof has the
   reference length") is not proved yet; this is the _partial form (membership). *)
Theorem C08_ahtree_inclusion_sound_partial :
  forall (H : bytes -> bytes), (forall x, length (H x) = 32%nat) ->
  forall (t : tree) (terms : list bytes) (i j : N) (d : bytes),
    len32 terms ->
    verify_inclusion H terms i j (leafh H d) (th H t) = true ->
    In d (leaves t) \/ Collision H.
Proof. exact inclusion_sound_membership. Qed.
Print Assumptions C08_ahtree_inclusion_sound_partial.

(* ahtree.VerifyLastInclusion is exact: an accepted payload is THE LAST leaf of the tree. *)
Theorem C08_ahtree_last_inclusion_sound :
  forall (H : bytes -> bytes), (forall x, length (H x) = 32%nat) ->
  forall (t : tree) (terms : list bytes) (i : N) (d : bytes),
    len32 terms ->
    verify_last_inclusion H terms i (leafh H d) (th H t) = true ->
    (exists pre, leaves t = pre ++ [d]) \/ Collision H.
Proof. exact last_inclusion_sound. Qed.
Print Assumptions C08_ahtree_last_inclusion_sound.

(* ahtree.VerifyConsistency: an accepted old root is the hash of a tree whose leaves are a PREFIX
   of the leaves of the (genuine) new tree — history can only have been extended, never rewritten.
   FULL statement ("... and that prefix has exactly i leaves in the reference shape") is REFUTED on
   the code as it stands (known finding: VerifyConsistency([R2],1,2,R2,R2) accepts); this is the
   _partial form. The Go panic on an empty proof is excluded by the verifier's own guards
   (the model returns Panic for cproof[0] on [] and the theorem's premise is `= Ok true`). *)
Theorem C08_ahtree_consistency_sound_partial :
  forall (H : bytes -> bytes), (forall x, length (H x) = 32%nat) ->
  forall (t : tree) (cproof : list bytes) (i j : N) (iroot : bytes),
    len32 cproof ->
    verify_consistency H cproof i j iroot (th H t) = Ok true ->
    (exists u post, th H u = iroot /\ leaves t = leaves u ++ post) \/ Collision H.
Proof. exact consistency_sound_prefix. Qed.
Print Assumptions C08_ahtree_consistency_sound_partial.

(* htree.VerifyInclusion (per-transaction entry tree): an accepted digest is a leaf of the tree. *)
Theorem C08_htree_inclusion_sound_partial :
  forall (H : bytes -> bytes), (forall x, length (H x) = 32%nat) ->
  forall (t : tree) (leaf width : Z) (terms : list bytes) (d : bytes),
    len32 terms ->
    htree_verify_inclusion H leaf width terms d (th H t) = true ->
    In d (leaves t) \/ Collision H.
Proof. exact htree_inclusion_sound_membership. Qed.
Print Assumptions C08_htree_inclusion_sound_partial.
