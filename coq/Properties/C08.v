(* C08 — Hash trees equal the reference Merkle construction.
   Only property theorems, each closed by `exact`. H is ANY hash function with 32-byte outputs;
   `Collision H` = exists x <> y with H x = H y (an explicit collision, exhibited by the proof).
   `tree`, `th` (tree hash: leaf = H(0x00‖d), node = H(0x01‖l‖r)), `leaves`, `mk_tree` (RFC 6962
   shape) are in Merkle/Tree.v and Merkle/Ref.v; the verifiers transliterated from
   embedded/ahtree/verification.go and embedded/htree/htree.go are in Merkle/Verify.v. *)
From V Require Import Merkle.Verify Merkle.Sound Merkle.Levels Merkle.Honest Merkle.Exact Merkle.RefEq Merkle.Main.
From V Require Import Merkle.RefPath Merkle.HExact Merkle.AHT Merkle.AHTArith Merkle.AHTSpec Merkle.AHTInv Merkle.AHTIncl Merkle.AHTCons Merkle.ConsComplete Merkle.ConsExact Merkle.AHTMain Merkle.InclUnique Merkle.LastIncl Merkle.VerifyFixed Merkle.ConsFixed Merkle.HTree Merkle.HTreeLevels Merkle.HTreeProof Merkle.AHTReopen.

(* The reference tree over a non-empty list of payloads has exactly those payloads as leaves, in
   order (so `mth L` commits to L and to nothing else). *)
Theorem C08_reference_tree_leaves : forall L : list bytes, L <> [] -> leaves (mk_tree L) = L.
Proof. exact mk_tree_leaves. Qed.
Print Assumptions C08_reference_tree_leaves.

(* The level-by-level construction (pair adjacent nodes, promote an odd last node: what
   htree.BuildWith computes and the AHtree maintains) builds EXACTLY the reference RFC 6962 tree,
   for every non-empty payload list. *)
Theorem C08_level_construction_is_reference :
  forall L : list bytes, L <> [] -> root (map Leaf L) = mk_tree L.
Proof. exact level_root_is_reference. Qed.
Print Assumptions C08_level_construction_is_reference.

(* ahtree.VerifyInclusion is POSITION-EXACT: for every payload list L (any size), every proof an
   adversary can assemble (any number of 32-byte terms), every claimed i and payload d: acceptance
   against the genuine (size, root) pair implies that d is exactly the i-th payload (and
   1 <= i <= size), or a hash collision is exhibited. *)
Theorem C08_ahtree_inclusion_sound_exact :
  forall (H : bytes -> bytes), (forall x, length (H x) = 32%nat) ->
  forall (L : list bytes) (terms : list bytes) (i j : N) (d : bytes),
    L <> [] -> j = N.of_nat (length L) -> len32 terms ->
    verify_inclusion H terms i j (leafh H d) (mth H L) = true ->
    (nth_error L (N.to_nat (i - 1)) = Some d /\ (1 <= i <= j)%N) \/ Collision H.
Proof. exact ahtree_inclusion_sound_exact. Qed.
Print Assumptions C08_ahtree_inclusion_sound_exact.

(* Completeness: for every L and every valid position i the honest proof (the sibling path through
   the level construction; the harness checks on every run that AHtree.InclusionProof returns
   exactly these terms) is accepted. *)
Theorem C08_ahtree_inclusion_complete :
  forall (H : bytes -> bytes), (forall x, length (H x) = 32%nat) ->
  forall (L : list bytes) (i j : N) (d : bytes),
    L <> [] -> j = N.of_nat (length L) -> (1 <= i)%N -> nth_error L (N.to_nat (i - 1)) = Some d ->
    verify_inclusion H (honest_inclusion_proof H L i) i j (leafh H d) (mth H L) = true.
Proof. exact ahtree_inclusion_complete. Qed.
Print Assumptions C08_ahtree_inclusion_complete.

(* Also for ANY tree t (not only the reference shape): an accepted payload is a leaf of t. *)
Theorem C08_ahtree_inclusion_sound_anytree :
  forall (H : bytes -> bytes), (forall x, length (H x) = 32%nat) ->
  forall (t : tree) (terms : list bytes) (i j : N) (d : bytes),
    len32 terms ->
    verify_inclusion H terms i j (leafh H d) (th H t) = true ->
    In d (leaves t) \/ Collision H.
Proof. exact inclusion_sound_membership. Qed.
Print Assumptions C08_ahtree_inclusion_sound_anytree.

(* ahtree.VerifyLastInclusion is exact: an accepted payload is THE LAST leaf of the tree. *)
Theorem C08_ahtree_last_inclusion_sound :
  forall (H : bytes -> bytes), (forall x, length (H x) = 32%nat) ->
  forall (t : tree) (terms : list bytes) (i : N) (d : bytes),
    len32 terms ->
    verify_last_inclusion H terms i (leafh H d) (th H t) = true ->
    (exists pre, leaves t = pre ++ [d]) \/ Collision H.
Proof. exact last_inclusion_sound. Qed.
Print Assumptions C08_ahtree_last_inclusion_sound.

(* About the PRE-FIX verifier `verify_consistency` (ahtree.VerifyConsistency before /repo 05f2785; the
   current one is `verify_consistency_fixed`, see C08_consistency_fixed_sound_exact below, and accepts
   only what this one accepts: C08_consistency_fixed_implies_present): an accepted old root is the hash
   of a tree whose leaves are a PREFIX of the leaves of the (genuine) new tree — history can only
   have been extended, never rewritten.  The full statement ("... and that prefix has exactly i
   leaves") was REFUTED for this pre-fix function (VerifyConsistency([R2],1,2,R2,R2) accepted,
   Merkle/Refuted.v); it holds for the current verifier.  The Go panic on an empty proof is excluded
   by the verifier's own guards (the model returns Panic for cproof[0] on [] and the premise is
   `= Ok true`). *)
Theorem C08_ahtree_consistency_sound_partial :
  forall (H : bytes -> bytes), (forall x, length (H x) = 32%nat) ->
  forall (t : tree) (cproof : list bytes) (i j : N) (iroot : bytes),
    len32 cproof ->
    verify_consistency H cproof i j iroot (th H t) = Ok true ->
    (exists u post, th H u = iroot /\ leaves t = leaves u ++ post) \/ Collision H.
Proof. exact consistency_sound_prefix. Qed.
Print Assumptions C08_ahtree_consistency_sound_partial.

(* htree.VerifyInclusion (per-transaction entry tree): an accepted digest is a leaf of the tree. *)
Theorem C08_htree_inclusion_sound_partial :
  forall (H : bytes -> bytes), (forall x, length (H x) = 32%nat) ->
  forall (t : tree) (leaf width : Z) (terms : list bytes) (d : bytes),
    len32 terms ->
    htree_verify_inclusion H leaf width terms d (th H t) = true ->
    In d (leaves t) \/ Collision H.
Proof. exact htree_inclusion_sound_membership. Qed.
Print Assumptions C08_htree_inclusion_sound_partial.

(* htree.VerifyInclusion (Go ints, final `i == r` test) is POSITION-EXACT when the claimed Width is
   the genuine number of digests: for every digest list ds (any size, also empty), every proof an
   adversary can assemble, every claimed Leaf (any Go int, also negative): acceptance against
   (|ds|, mth ds) implies that d is exactly ds[Leaf] and 0 <= Leaf < Width, or a collision is
   exhibited. *)
Theorem C08_htree_inclusion_sound_exact :
  forall (H : bytes -> bytes), (forall x, length (H x) = 32%nat) ->
  forall (ds terms : list bytes) (leaf width : Z) (d : bytes),
    width = Z.of_nat (length ds) -> len32 terms ->
    htree_verify_inclusion H leaf width terms d (mth H ds) = true ->
    (nth_error ds (Z.to_nat leaf) = Some d /\ (0 <= leaf < width)%Z) \/ Collision H.
Proof. exact htree_inclusion_sound_exact. Qed.
Print Assumptions C08_htree_inclusion_sound_exact.

(* htree completeness: for every ds and every position x the honest proof (= the RFC 6962 audit
   path, theorem C08_audit_is_honest; the harness checks on every run that htree.InclusionProof
   returns exactly these terms) is accepted. *)
Theorem C08_htree_inclusion_complete :
  forall (H : bytes -> bytes), (forall x, length (H x) = 32%nat) ->
  forall (ds : list bytes) (x : nat) (d : bytes),
    nth_error ds x = Some d ->
    htree_verify_inclusion H (Z.of_nat x) (Z.of_nat (length ds))
      (honest_inclusion_proof H ds (N.of_nat x + 1)) d (mth H ds) = true.
Proof. exact htree_inclusion_complete. Qed.
Print Assumptions C08_htree_inclusion_complete.

(* The RFC 6962 audit path of the reference tree IS the honest level path of the completeness
   theorems (the path to a leaf position is unique). *)
Theorem C08_audit_is_honest :
  forall (H : bytes -> bytes) (X : list bytes) (x : nat),
    (x < length X)%nat ->
    audit H (mk_tree X) (N.of_nat x) = honest_inclusion_proof H X (N.of_nat x + 1).
Proof. exact audit_is_honest_proof. Qed.
Print Assumptions C08_audit_is_honest.

(* ---- the AHtree digest log (model Merkle/AHT.v: nodesUpto / nodesUntil / levelsAt, node(n,l),
   the Append w,l,k loop, rootAt, highestNode, inclusionProof, ResetSize rewinding the sizes over
   files that keep their stale tails). `aht_run H ops` is the state after ANY history of
   Append d / ResetSize k from the empty tree; `final_payloads ops` its abstract content. ---- *)

(* The arithmetic crux: nodesUpto(n+1) = nodesUpto(n) + 1 + levelsAt(n+1), i.e. group n+1 of the
   digest log (one leaf digest + one digest per set bit of n) starts where nodesUntil(n+1) says. *)
Theorem C08_nodes_upto_recurrence :
  forall n : N, nodes_upto (n + 1) = nodes_upto n + 1 + levels_at (n + 1).
Proof. exact nodes_upto_succ. Qed.
Print Assumptions C08_nodes_upto_recurrence.

(* aht_append_inv: after every history the valid part of the digest log (below dLogSize, which
   equals nodesUpto(size)) is exactly the specification log of the payloads: for n = 1..size the
   group [mth (payloads (base n h, n]) : h = 0 and h = r+1 for each set bit r of n-1]. *)
Theorem C08_aht_append_inv :
  forall (H : bytes -> bytes) (ops : list aop),
    let t := aht_run H ops in
    payloads t = final_payloads ops /\
    size t = lenN (final_payloads ops) /\
    dsize t = nodes_upto (size t) /\
    firstn (N.to_nat (dsize t)) (dlog t) = spec_log H (final_payloads ops).
Proof. exact aht_append_inv. Qed.
Print Assumptions C08_aht_append_inv.

(* ... read through the code's own addressing: node(n, #set bits of n-1 below h) is the reference
   tree hash of the payloads (((n-1)>>h)<<h, n] — the subtree the code means it to be. *)
Theorem C08_aht_node_is_subtree :
  forall (H : bytes -> bytes) (ops : list aop) (n : N) (h : nat),
    let t := aht_run H ops in
    1 <= n <= size t ->
    node t n (highest_level n h) = Ok (mth H (slice (final_payloads ops) (base n (N.of_nat h)) n)).
Proof. exact aht_node_is_subtree. Qed.
Print Assumptions C08_aht_node_is_subtree.

(* aht_rootAt_is_mth: RootAt(n) is the reference Merkle tree hash of the first n payloads, for
   every history and every 1 <= n <= size. *)
Theorem C08_aht_rootAt_is_mth :
  forall (H : bytes -> bytes) (ops : list aop) (n : N),
    let t := aht_run H ops in
    1 <= n <= size t ->
    root_at t n = Ok (mth H (firstn (N.to_nat n) (final_payloads ops))).
Proof. exact aht_rootAt_is_mth. Qed.
Print Assumptions C08_aht_rootAt_is_mth.

(* aht_inclusion_proof_is_honest: InclusionProof(i, j) returns exactly the honest proof of
   C08_ahtree_inclusion_complete (no error), for every history and 1 <= i <= j <= size ... *)
Theorem C08_aht_inclusion_proof_is_honest :
  forall (H : bytes -> bytes) (ops : list aop) (i j : N),
    let t := aht_run H ops in
    1 <= i -> i <= j -> j <= size t ->
    inclusion_proof t i j = Ok (honest_inclusion_proof H (firstn (N.to_nat j) (final_payloads ops)) i).
Proof. exact aht_inclusion_proof_is_honest. Qed.
Print Assumptions C08_aht_inclusion_proof_is_honest.

(* ... hence it is accepted by ahtree.VerifyInclusion against RootAt(j). *)
Theorem C08_aht_inclusion_proof_verifies :
  forall (H : bytes -> bytes), (forall x, length (H x) = 32%nat) ->
  forall (ops : list aop) (i j : N) (d : bytes),
    let t := aht_run H ops in
    1 <= i -> i <= j -> j <= size t ->
    nth_error (final_payloads ops) (N.to_nat (i - 1)) = Some d ->
    exists p r, inclusion_proof t i j = Ok p /\ root_at t j = Ok r /\
                verify_inclusion H p i j (leafh H d) r = true.
Proof. exact aht_inclusion_proof_verifies. Qed.
Print Assumptions C08_aht_inclusion_proof_verifies.

(* Every reachable state is observationally (size, every RootAt — also its errors —, every
   InclusionProof and ConsistencyProof — also their errors for i = 0, i > j, j > size) the tree obtained
   by appending its payloads to an empty tree: the stale tails ResetSize leaves behind are never
   read. *)
Theorem C08_aht_history_irrelevant :
  forall (H : bytes -> bytes) (ops : list aop),
    let t := aht_run H ops in
    let t0 := aht_run H (map OAppend (final_payloads ops)) in
    size t = size t0 /\
    (forall n, root_at t n = root_at t0 n) /\
    (forall i j, inclusion_proof t i j = inclusion_proof t0 i j) /\
    (forall i j, consistency_proof t i j = consistency_proof t0 i j).
Proof. exact aht_history_irrelevant. Qed.
Print Assumptions C08_aht_history_irrelevant.

(* aht_reset_append: ResetSize k followed by appends == appends to the k-prefix. *)
Theorem C08_aht_reset_append :
  forall (H : bytes -> bytes) (ops : list aop) (k : N) (ds : list bytes),
    k <= lenN (final_payloads ops) ->
    let t := aht_run H (ops ++ OReset k :: map OAppend ds) in
    let t0 := aht_run H (map OAppend (firstn (N.to_nat k) (final_payloads ops) ++ ds)) in
    payloads t = firstn (N.to_nat k) (final_payloads ops) ++ ds /\
    size t = size t0 /\
    (forall n, root_at t n = root_at t0 n) /\
    (forall i j, inclusion_proof t i j = inclusion_proof t0 i j) /\
    (forall i j, consistency_proof t i j = consistency_proof t0 i j).
Proof. exact aht_reset_append. Qed.
Print Assumptions C08_aht_reset_append.

(* ---- consistency completeness ---- *)

(* AHtree.ConsistencyProof(i, j) never fails for 1 <= i <= j <= size and is
   the function `consistency_ref_proof` (= cons_ref, Merkle/AHTCons.v: the code's recursion reading
   the meant digests) of the payloads, for every history. *)
Theorem C08_aht_consistency_proof_is_ref :
  forall (H : bytes -> bytes) (ops : list aop) (i j : N),
    let t := aht_run H ops in
    1 <= i -> i <= j -> j <= size t ->
    consistency_proof t i j = Ok (consistency_ref_proof H (final_payloads ops) i j).
Proof. exact aht_consistency_proof_is_ref. Qed.
Print Assumptions C08_aht_consistency_proof_is_ref.

(* Completeness, stated for the PRE-FIX function `verify_consistency` (the statement for the current
   verifier is C08_consistency_fixed_complete): for every payload list L and all 1 <= i <= j <= |L|
   the generated proof is accepted for the genuine pairs (i, mth (first i)), (j, mth (first j)). *)
Theorem C08_consistency_complete :
  forall (H : bytes -> bytes) (L : list bytes) (i j : N),
    1 <= i -> i <= j -> j <= lenN L ->
    verify_consistency H (consistency_ref_proof H L i j) i j
      (mth H (firstn (N.to_nat i) L)) (mth H (firstn (N.to_nat j) L)) = Ok true.
Proof. exact consistency_complete. Qed.
Print Assumptions C08_consistency_complete.

(* ... on the tree: ConsistencyProof(i, j) verifies (pre-fix function; for the current verifier
   combine C08_aht_consistency_proof_is_ref with C08_consistency_fixed_complete) against RootAt(i)
   and RootAt(j), for every history. *)
Theorem C08_aht_consistency_proof_verifies :
  forall (H : bytes -> bytes) (ops : list aop) (i j : N),
    let t := aht_run H ops in
    1 <= i -> i <= j -> j <= size t ->
    exists p ri rj, consistency_proof t i j = Ok p /\ root_at t i = Ok ri /\ root_at t j = Ok rj /\
                    verify_consistency H p i j ri rj = Ok true.
Proof. exact aht_consistency_proof_verifies. Qed.
Print Assumptions C08_aht_consistency_proof_verifies.

(* The lemma behind the repair, about the PRE-FIX function: if the proof has the length of the proof
   the tree generates for (i, j) — a pure function of i and j — then an accepted old root is the
   root of EXACTLY the first i payloads and 1 <= i <= j (or a collision is exhibited).  The current
   verifier checks that length itself: C08_consistency_fixed_sound_exact. *)
Theorem C08_consistency_sound_exact_honest_length :
  forall (H : bytes -> bytes), (forall x, length (H x) = 32%nat) ->
  forall (L cproof : list bytes) (i j : N) (iroot : bytes),
    L <> [] -> j = lenN L -> len32 cproof ->
    length cproof = length (consistency_ref_proof H L i j) ->
    verify_consistency H cproof i j iroot (mth H L) = Ok true ->
    (iroot = mth H (firstn (N.to_nat i) L) /\ 1 <= i <= j) \/ Collision H.
Proof. exact consistency_sound_exact_len. Qed.
Print Assumptions C08_consistency_sound_exact_honest_length.

(* Against an ARBITRARY root (not assumed to be the root of any genuine tree): since
   ahtree.VerifyInclusion pins the proof length as a function of (i, j) (/repo c59ab5b), two accepted
   proofs for the same position and root carry the same payload AND are the same proof, or a
   collision is exhibited: a root commits every position to at most one leaf. *)
Theorem C08_ahtree_inclusion_proof_unique :
  forall (H : bytes -> bytes), (forall x, length (H x) = 32%nat) ->
  forall (t1 t2 : list bytes) (i j : N) (a b root : bytes),
    len32 t1 -> len32 t2 ->
    verify_inclusion H t1 i j (leafh H a) root = true ->
    verify_inclusion H t2 i j (leafh H b) root = true ->
    (a = b /\ t1 = t2) \/ Collision H.
Proof. exact inclusion_unique. Qed.
Print Assumptions C08_ahtree_inclusion_proof_unique.

(* The same for ahtree.VerifyLastInclusion (length pinned to inclusionProofLen(i, i)). *)
Theorem C08_ahtree_last_inclusion_proof_unique :
  forall (H : bytes -> bytes), (forall x, length (H x) = 32%nat) ->
  forall (t1 t2 : list bytes) (i : N) (a b root : bytes),
    len32 t1 -> len32 t2 ->
    verify_last_inclusion H t1 i (leafh H a) root = true ->
    verify_last_inclusion H t2 i (leafh H b) root = true ->
    (a = b /\ t1 = t2) \/ Collision H.
Proof. exact last_inclusion_unique. Qed.
Print Assumptions C08_ahtree_last_inclusion_proof_unique.

(* ahtree.VerifyLastInclusion(p, i, leaf, root) IS ahtree.VerifyInclusion(p, i, i, leaf, root), for
   ALL inputs (same length test, and with i1 = j1 every term is hashed on the left). *)
Theorem C08_last_inclusion_is_inclusion :
  forall (H : bytes -> bytes) (terms : list bytes) (i : N) (leaf root : bytes),
    verify_last_inclusion H terms i leaf root = verify_inclusion H terms i i leaf root.
Proof. exact last_is_inclusion. Qed.
Print Assumptions C08_last_inclusion_is_inclusion.

(* hence exact soundness against the genuine (size, root) pair ... *)
Theorem C08_ahtree_last_inclusion_sound_exact :
  forall (H : bytes -> bytes), (forall x, length (H x) = 32%nat) ->
  forall (L : list bytes) (terms : list bytes) (i : N) (d : bytes),
    L <> [] -> i = N.of_nat (length L) -> len32 terms ->
    verify_last_inclusion H terms i (leafh H d) (mth H L) = true ->
    nth_error L (N.to_nat (i - 1)) = Some d \/ Collision H.
Proof. exact last_inclusion_sound_exact. Qed.
Print Assumptions C08_ahtree_last_inclusion_sound_exact.

(* ... and completeness on the tree: InclusionProof(i, i) verifies with VerifyLastInclusion against
   RootAt(i), for every history. *)
Theorem C08_aht_last_inclusion_proof_verifies :
  forall (H : bytes -> bytes), (forall x, length (H x) = 32%nat) ->
  forall (ops : list aop) (i : N) (d : bytes),
    let t := aht_run H ops in
    1 <= i -> i <= size t ->
    nth_error (final_payloads ops) (N.to_nat (i - 1)) = Some d ->
    exists p r, inclusion_proof t i i = Ok p /\ root_at t i = Ok r /\
                verify_last_inclusion H p i (leafh H d) r = true.
Proof. exact aht_last_inclusion_proof_verifies. Qed.
Print Assumptions C08_aht_last_inclusion_proof_verifies.

(* ---- THE CURRENT ahtree.VerifyConsistency (/repo 05f2785: after the `i == j && len(cproof) == 0`
   case the proof must have consistencyProofLen(i, j) terms); model `verify_consistency_fixed`
   (Merkle/VerifyFixed.v), tied by the CVerCons cases.  These are the headline consistency theorems
   about the code. ---- *)

(* consistencyProofLen(i, j) is the number of terms AHtree.ConsistencyProof(i, j) returns. *)
Theorem C08_consistency_proof_len_is_generator_length :
  forall (H : bytes -> bytes) (L : list bytes) (i j : N),
    lenN (consistency_ref_proof H L i j) = consistency_proof_len i j.
Proof. exact consistency_proof_len_spec. Qed.
Print Assumptions C08_consistency_proof_len_is_generator_length.

(* ahtree.VerifyConsistency is POSITION-EXACT, with no premise on the proof: for every payload list
   L, every proof an adversary can assemble, every claimed i and old root: acceptance against the
   genuine (|L|, mth L) implies that the old root is the root of exactly the first i payloads and
   1 <= i <= j, or a collision is exhibited. *)
Theorem C08_consistency_fixed_sound_exact :
  forall (H : bytes -> bytes), (forall x, length (H x) = 32%nat) ->
  forall (L cproof : list bytes) (i j : N) (iroot : bytes),
    L <> [] -> j = lenN L -> len32 cproof ->
    verify_consistency_fixed H cproof i j iroot (mth H L) = Ok true ->
    (iroot = mth H (firstn (N.to_nat i) L) /\ 1 <= i <= j) \/ Collision H.
Proof. exact consistency_fixed_sound_exact. Qed.
Print Assumptions C08_consistency_fixed_sound_exact.

(* It still accepts every generated proof ... *)
Theorem C08_consistency_fixed_complete :
  forall (H : bytes -> bytes) (L : list bytes) (i j : N),
    1 <= i -> i <= j -> j <= lenN L ->
    verify_consistency_fixed H (consistency_ref_proof H L i j) i j
      (mth H (firstn (N.to_nat i) L)) (mth H (firstn (N.to_nat j) L)) = Ok true.
Proof. exact consistency_fixed_complete. Qed.
Print Assumptions C08_consistency_fixed_complete.

(* ... accepts nothing the pre-fix verifier rejected, and never panics. *)
Theorem C08_consistency_fixed_implies_present :
  forall (H : bytes -> bytes) (cproof : list bytes) (i j : N) (iroot jroot : bytes),
    verify_consistency_fixed H cproof i j iroot jroot = Ok true ->
    verify_consistency H cproof i j iroot jroot = Ok true /\
    ((i = j /\ cproof = []) \/ lenN cproof = consistency_proof_len i j).
Proof. exact fixed_implies_old. Qed.
Print Assumptions C08_consistency_fixed_implies_present.

Theorem C08_consistency_fixed_no_panic :
  forall (H : bytes -> bytes) (cproof : list bytes) (i j : N) (iroot jroot : bytes),
    verify_consistency_fixed H cproof i j iroot jroot <> Panic.
Proof. exact verify_consistency_fixed_no_panic. Qed.
Print Assumptions C08_consistency_fixed_no_panic.

(* ---- htree.BuildWith / htree.InclusionProof (model Merkle/HTree.v: level arrays as BuildWith
   writes them, the m, n, offset, l, r, layer, index loop) ---- *)

(* htree_root_is_mth: Root() after BuildWith(ds) is the reference tree hash, for every non-empty ds. *)
Theorem C08_htree_root_is_mth :
  forall (H : bytes -> bytes) (ds : list bytes),
    ds <> [] -> ht_root (ht_build H ds) = mth H ds.
Proof. exact htree_root_is_mth. Qed.
Print Assumptions C08_htree_root_is_mth.

(* what the level arrays hold: entry x of level t (for every level BuildWith wrote) is the reference
   tree hash of the digests [x 2^t, min((x+1) 2^t, width)). *)
Theorem C08_htree_levels_inv :
  forall (H : bytes -> bytes) (ds : list bytes) (t x : nat),
    ds <> [] -> (2 ^ t <= length ds)%nat -> (x * 2 ^ t < length ds)%nat ->
    level_at (ht_build H ds) (N.of_nat t) (N.of_nat x) =
    Ok (mth H (firstn (Nat.min ((S x) * 2 ^ t) (length ds) - x * 2 ^ t) (skipn (x * 2 ^ t) ds))).
Proof. exact level_at_ok. Qed.
Print Assumptions C08_htree_levels_inv.

(* htree_proof_is_honest: InclusionProof(i) never fails for 0 <= i < width, never reads outside what
   BuildWith wrote, and returns the RFC 6962 audit path = the honest proof. *)
Theorem C08_htree_proof_is_audit :
  forall (H : bytes -> bytes) (ds : list bytes) (i : Z),
    (0 <= i < Z.of_nat (length ds))%Z ->
    ht_inclusion_proof (ht_build H ds) i = Ok (audit H (mk_tree ds) (Z.to_N i)).
Proof. exact htree_proof_is_audit. Qed.
Print Assumptions C08_htree_proof_is_audit.

Theorem C08_htree_proof_is_honest :
  forall (H : bytes -> bytes) (ds : list bytes) (x : nat),
    (x < length ds)%nat ->
    ht_inclusion_proof (ht_build H ds) (Z.of_nat x) = Ok (honest_inclusion_proof H ds (N.of_nat x + 1)).
Proof. exact htree_proof_is_honest. Qed.
Print Assumptions C08_htree_proof_is_honest.

(* BuildWith + InclusionProof + VerifyInclusion end to end. *)
Theorem C08_htree_proof_verifies :
  forall (H : bytes -> bytes), (forall x, length (H x) = 32%nat) ->
  forall (ds : list bytes) (x : nat) (d : bytes),
    nth_error ds x = Some d ->
    exists terms, ht_inclusion_proof (ht_build H ds) (Z.of_nat x) = Ok terms /\
      htree_verify_inclusion H (Z.of_nat x) (Z.of_N (ht_width (ht_build H ds))) terms d
        (ht_root (ht_build H ds)) = true.
Proof. exact htree_proof_verifies. Qed.
Print Assumptions C08_htree_proof_verifies.

(* ---- Sync / Close / Open / crash images (model: run2, sync2, aht_step2, reopen_at in Merkle/AHT.v:
   SetOffset drops what lies behind the offset (/repo 09014a8), ResetSize cuts the commit log at once
   (/repo 6a85281), OpenWith re-derives all sizes from the commit log).  `aht_run2 H ops` = state
   after ANY history of A2 d (Append) / R2 k (ResetSize) / Reopen2 (Close + Open) / Crash2 c (Close,
   then Open on a copy whose commit log was cut to c entries, payload and digest logs left longer);
   `strip2 ops` = the same history for a tree that never restarts: Reopen2 dropped, Crash2 c read as
   ResetSize c. ---- *)

(* A restart gives back the very same state. *)
Theorem C08_aht_reopen_same_state :
  forall (H : bytes -> bytes) (t : aht), Inv H t -> reopen_at t (size t) = Ok t.
Proof. exact reopen_ok. Qed.
Print Assumptions C08_aht_reopen_same_state.

(* OpenWith on an image whose payload and digest logs extend beyond what the commit log commits
   (c <= size entries): the tree is the tree of the first c payloads and satisfies the digest-log
   invariant, so the stale tails are overwritten by the next appends and never read. *)
Theorem C08_aht_crash_image_is_prefix :
  forall (H : bytes -> bytes) (t : aht) (c : N),
    Inv H t -> c <= size t ->
    exists t', reopen_at t c = Ok t' /\ Inv H t' /\
               payloads t' = firstn (N.to_nat c) (payloads t) /\ size t' = c.
Proof. exact crash_image_is_prefix. Qed.
Print Assumptions C08_aht_crash_image_is_prefix.

(* For EVERY history with resets, restarts and crash images — no premise — the tree is, state for
   state, the tree of the restart-free history: restarts are invisible and a crash image is a rewind.
   Hence every C08_aht_* theorem (digest-log invariant, RootAt = mth, honest inclusion proofs,
   consistency completeness, reset_append) applies with `strip2 ops`. *)
Theorem C08_aht_restarts_invisible :
  forall (H : bytes -> bytes) (ops : list aop2),
    rtree (aht_run2 H ops) = aht_run H (strip2 ops).
Proof. exact (fun H ops => proj2 (aht_run2_is_run H ops)). Qed.
Print Assumptions C08_aht_restarts_invisible.

(* In particular Close + Open never changes the tree, whatever happened before (also right after a
   ResetSize; before /repo 6a85281 resp. 09014a8 that was refuted: the rewind was lost). *)
Theorem C08_aht_restart_changes_nothing :
  forall (H : bytes -> bytes) (ops : list aop2),
    rtree (aht_run2 H (ops ++ [Reopen2])) = rtree (aht_run2 H ops).
Proof. exact restart_invisible. Qed.
Print Assumptions C08_aht_restart_changes_nothing.
