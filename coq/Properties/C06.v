From V Require Import Lin.Checker Lin.CheckerSound Lin.Machine Lin.MachineProofs Lin.Refuted.

(* A recorded concurrent call/return history (every completed write carrying the transaction id the
   API returned, every read what it observed) that the executable checker accepts is linearizable
   with respect to the sequential key-value specification with preconditions: there is a total
   order of its completed calls, consistent with real-time precedence, whose sequential execution
   from the empty database gives exactly the recorded responses.  The real histories recorded by the
   harness are decided by this checker. *)
Theorem checker_sound : forall h : history, check h = true -> linearizable h.
Proof. exact checker_sound_proof. Qed.
Print Assumptions checker_sound.

(* Every history the protocol machine can produce - any interleaving of invocations, commits,
   indexer steps, index look-ups and returns, with all writes waiting for the index (mode = true)
   or all reads waiting for the committed frontier (mode = false) - is linearizable, provided no
   call was answered from an index state other than the current one with a different response
   (m_split = []: no Get whose two look-ups on the live index straddled an indexing step, no
   SinceTx > 0 snapshot read served from a reused older snapshot, no index compaction that moved
   the index back).  Writes take effect at their commit step,
   reads after the transaction whose index state they returned. *)
Theorem kv_linearizable_partial : forall (mode : bool) (m : mstate),
  reach mode m -> m_split m = [] -> linearizable (m_hist m).
Proof. exact kv_linearizable_partial_proof. Qed.
Print Assumptions kv_linearizable_partial.

(* Without that proviso the statement is false for the code that exists: Get of a key holding an
   unbound reference reads the reference and then its target with two look-ups on the live index;
   a transaction committed and indexed in between makes it answer with a pair that no committed
   state contained (witness replayed on the Go code by the harness; known finding). *)
Theorem kv_linearizable_refuted : exists (mode : bool) (m : mstate),
  reach mode m /\ ~ linearizable (m_hist m).
Proof. exact kv_linearizable_refuted_proof. Qed.
Print Assumptions kv_linearizable_refuted.

(* Second departure of the code from the property, also in the machine: GetAll / Scan / ZScan called
   with SinceTx > 0 may be served from a reused index snapshot that only has to include SinceTx
   (tbtree snapshot reuse); such a call, invoked after a later write was acknowledged, answers with
   the older state.  The witness history contains no Get.  Replayed on the Go code (known finding). *)
Theorem snapshot_since_refuted : exists (mode : bool) (m : mstate),
  reach mode m /\ no_get (m_hist m) /\ ~ linearizable (m_hist m).
Proof. exact snapshot_since_refuted_proof. Qed.
Print Assumptions snapshot_since_refuted.

(* Third departure, again in the machine as the code has it: CompactIndex re-opens the index from a
   copy dumped from an older snapshot while the hub that every WaitForIndexingUpto looks at keeps its
   high-water mark; until re-indexing catches up, waits succeed on a stale index.  Witness: after
   Set(k0:=1) was acknowledged and the index compacted, Set(k0:=2) with KeyMustNotExist(k0) is
   committed although its precondition is false on the committed state it is appended to; the
   resulting history (two Sets, nothing else) is not linearizable.  Seen on the Go code in the
   thorough tier (background CompactIndex; known finding). *)
Theorem compaction_refuted :
  exists (mode : bool) (m0 : mstate) (i : nat) (w : wop) (t : tx) (m1 m : mstate),
    reach mode m0 /\ mstep mode m0 (LCommit i w t) m1 /\ pre_all (m_committed m0) w = false /\
    reach mode m /\ only_sets (m_hist m) /\ ~ linearizable (m_hist m).
Proof. exact compaction_refuted_proof. Qed.
Print Assumptions compaction_refuted.

(* Conditional writes are atomic: in every step of the machine from a reachable state, as long as no
   index compaction moved the index back and no call was answered from a stale index state
   (m_split = []), a write is committed only if all its
   preconditions (KeyMustExist / KeyMustNotExist / KeyNotModifiedAfterTx) hold on the committed
   state it is appended to (the state immediately preceding it in commit order), it is refused
   with the precondition verdict only if one of them is false on exactly that state and then the
   committed state is unchanged, and nothing but a commit step changes the committed state - for
   every interleaving of racing writers. *)
Theorem precondition_atomic : forall (mode : bool) (m : mstate) (l : label) (m' : mstate),
  reach mode m -> mstep mode m l m' -> m_split m' = [] ->
  (forall i w t, l = LCommit i w t ->
     apply (m_committed m) w = Ok t /\ pre_all (m_committed m) w = true /\
     m_committed m' = m_committed m ++ [t] /\
     m_res m' i = Some (ResTx (slen (m_committed m) + 1))) /\
  (forall i w, l = LRefuse i w EPrecond ->
     apply (m_committed m) w = Err EPrecond /\ pre_all (m_committed m) w = false /\
     m_committed m' = m_committed m /\ m_res m' i = Some (ResErr EPrecond)) /\
  ((forall i w t, l <> LCommit i w t) -> m_committed m' = m_committed m).
Proof. exact precondition_atomic_proof. Qed.
Print Assumptions precondition_atomic.
