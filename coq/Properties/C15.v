(* C15 — Codecs round-trip, and key encodings preserve SQL order.
   This file contains only the property theorems, each closed by `exact`. *)
From V Require Import Store.Codec Store.CodecRoundtrip Store.ProtoConv Store.ProtoConvProofs SQL.KeyEnc SQL.KeyEncLemmas SQL.KeyEncProofs.

(* ---------------- store codecs ---------------- *)

(* Every transaction metadata value the encoder accepts (truncation id a uint64, extra attribute of
   1..256 bytes) decodes from its own serialisation to exactly itself. *)
Theorem C15_txmd_roundtrip : forall m : txmd,
  txmd_valid m = true -> txmd_read (txmd_bytes m) = Ok m.
Proof. exact txmd_roundtrip. Qed.
Print Assumptions C15_txmd_roundtrip.

(* Same for entry (KV) metadata: every combination of deleted / expiration (uint64 seconds) /
   non-indexable. *)
Theorem C15_kvmd_roundtrip : forall m : kvmd,
  kvmd_valid m = true -> kvmd_read (kvmd_bytes m) = Ok m.
Proof. exact kvmd_roundtrip. Qed.
Print Assumptions C15_kvmd_roundtrip.

(* Every well-formed transaction header (ID >= 1, BlTxID < ID, 32-byte hashes, version 0 without
   metadata and NEntries 1..2^16-1, or version 1 with valid metadata and NEntries 1..2^32-1)
   serialises, and ReadFrom of those bytes gives back every field; a metadata object without
   attributes comes back as nil (the only identification made). *)
Theorem C15_txhdr_roundtrip : forall h : txhdr,
  txhdr_valid h = true -> exists b, txhdr_bytes h = Ok b /\ txhdr_read b = Ok (hdr_canon h).
Proof. exact txhdr_roundtrip. Qed.
Print Assumptions C15_txhdr_roundtrip.

(* The bytes ExportTx produces for a header and ANY list of entries (keys < 2^16 bytes, values
   < 2^32 bytes, any entry metadata, either value of the truncation flag) are parsed by the
   ReplicateTx framing into the same header, the same keys, metadata and values, in order, and the
   same flag. *)
Theorem C15_export_roundtrip : forall (h : txhdr) (es : list xentry) (tr : bool) (hb : bytes),
  txhdr_valid h = true -> forallb xentry_valid es = true ->
  h_nentries h = N.of_nat (length es) -> txhdr_bytes h = Ok hb ->
  repl_parse (export_tx hb es tr) = Ok (hdr_canon h, map xentry_canon es, tr).
Proof. exact export_roundtrip. Qed.
Print Assumptions C15_export_roundtrip.

(* ---------------- SQL index keys ---------------- *)

(* ORDER (partial: the code as it is). For every SQL type, every column length up to MaxKeyLen
   (< 2^32), and every two values of the column (NULL included) the byte order of the two index
   keys IS the result of the engine's comparison - provided no operand is a NaN or -0.0 and
   timestamps lie inside the UnixNano range (1677-09-21 .. 2262-04-11). NULL sorts first.
   The three excluded value classes are genuine violations, see the _refuted theorems below. *)
Theorem C15_key_order_preserved_partial :
  forall (mkl : N) (ty : sqltype) (ml : N) (a b : sqlval) (ka : bytes) (na : N) (kb : bytes) (nb : N),
  mkl < 4294967296 ->
  val_ok ty ml a = true -> val_ok ty ml b = true ->
  in_order_domain fix_negzero a = true -> in_order_domain fix_negzero b = true ->
  enc_key mkl ty ml a = Ok (ka, na) -> enc_key mkl ty ml b = Ok (kb, nb) ->
  sql_compare a b = Some (bcmp ka kb).
Proof. exact (key_order_gen fix_negzero). Qed.
Print Assumptions C15_key_order_preserved_partial.

(* What a normalisation of -0.0 to +0.0 before the bits are mangled would give (the encoder variant
   enc_key_gen true; NOT the code as it is, and not proposed as a repair since the test suite pins
   "-0.0 sorts before +0.0"): -0.0 would no longer need to be excluded. *)
Theorem C15_key_order_preserved_if_negzero_normalised :
  forall (mkl : N) (ty : sqltype) (ml : N) (a b : sqlval) (ka : bytes) (na : N) (kb : bytes) (nb : N),
  mkl < 4294967296 ->
  val_ok ty ml a = true -> val_ok ty ml b = true ->
  in_order_domain true a = true -> in_order_domain true b = true ->
  enc_key_gen true mkl ty ml a = Ok (ka, na) -> enc_key_gen true mkl ty ml b = Ok (kb, nb) ->
  sql_compare a b = Some (bcmp ka kb).
Proof. exact (key_order_gen true). Qed.
Print Assumptions C15_key_order_preserved_if_negzero_normalised.

(* The full statement is false for the code as it is: *)
(* (1) FLOAT +0.0 and -0.0 compare equal, their keys differ (80 80 00.. / 80 7f ff..). *)
Theorem C15_equal_values_equal_keys_refuted : exists a b : sqlval,
  val_ok TFloat 8 a = true /\ val_ok TFloat 8 b = true /\ sql_compare a b = Some Eq /\
  is_ok (enc_key 1024 TFloat 8 a) = true /\ is_ok (enc_key 1024 TFloat 8 b) = true /\
  key_of TFloat 8 a <> key_of TFloat 8 b.
Proof. exact equal_values_equal_keys_refuted. Qed.
Print Assumptions C15_equal_values_equal_keys_refuted.

(* (2) a NaN compares below 1.0 but its key sorts above. *)
Theorem C15_key_order_refuted_nan : exists a b : sqlval,
  val_ok TFloat 8 a = true /\ val_ok TFloat 8 b = true /\
  is_ok (enc_key 1024 TFloat 8 a) = true /\ is_ok (enc_key 1024 TFloat 8 b) = true /\
  sql_compare a b = Some Lt /\ bcmp (key_of TFloat 8 a) (key_of TFloat 8 b) = Gt.
Proof. exact key_order_refuted_nan. Qed.
Print Assumptions C15_key_order_refuted_nan.

(* (3) a microsecond-precision TIMESTAMP in the year 1600 is earlier than 1970 but its key sorts
   above (UnixNano overflows int64), and it does not decode back from its key. *)
Theorem C15_key_order_refuted_timestamp : exists a b : sqlval,
  val_ok TTimestamp 8 a = true /\ val_ok TTimestamp 8 b = true /\
  micro_precise a = true /\ micro_precise b = true /\
  is_ok (enc_key 1024 TTimestamp 8 a) = true /\ is_ok (enc_key 1024 TTimestamp 8 b) = true /\
  sql_compare a b = Some Lt /\ bcmp (key_of TTimestamp 8 a) (key_of TTimestamp 8 b) = Gt.
Proof. exact key_order_refuted_timestamp. Qed.
Print Assumptions C15_key_order_refuted_timestamp.

(* EQUAL VALUES, IDENTICAL KEYS (partial): whenever the engine's comparison of two values of a
   column answers "equal", the two keys are byte-identical - for every type, all timestamps
   included; only -0.0 has to be excluded on the code as it is. *)
Theorem C15_equal_values_equal_keys_partial :
  forall (mkl : N) (ty : sqltype) (ml : N) (a b : sqlval) (ka : bytes) (na : N) (kb : bytes) (nb : N),
  mkl < 4294967296 ->
  val_ok ty ml a = true -> val_ok ty ml b = true ->
  eq_domain fix_negzero a = true -> eq_domain fix_negzero b = true ->
  enc_key mkl ty ml a = Ok (ka, na) -> enc_key mkl ty ml b = Ok (kb, nb) ->
  sql_compare a b = Some Eq -> ka = kb.
Proof. exact (equal_values_equal_keys_gen fix_negzero). Qed.
Print Assumptions C15_equal_values_equal_keys_partial.

(* COMPOSITE KEYS: for every list of index columns and every two value tuples, the byte order of
   the concatenated column keys - also when followed by arbitrary further bytes ta / tb, e.g. the
   primary-key part - is the lexicographic order of the tuples under the column comparison
   (Tuple.Compare): the first differing column decides, equal tuples leave the decision to what
   follows. (Same value domain as the order theorem.) *)
Theorem C15_composite_lexicographic :
  forall (mkl : N), mkl < 4294967296 ->
  forall (cols : list col) (va vb : list sqlval) (ka kb ta tb : bytes),
  tuple_ok fix_negzero cols va = true -> tuple_ok fix_negzero cols vb = true ->
  enc_tuple mkl cols va = Ok ka -> enc_tuple mkl cols vb = Ok kb ->
  exists c, tuple_compare va vb = Some c /\
            bcmp (ka ++ ta) (kb ++ tb) = match c with Eq => bcmp ta tb | _ => c end.
Proof. exact (composite_gen fix_negzero). Qed.
Print Assumptions C15_composite_lexicographic.

(* The complete index entry key M.{table}{index}{column values}{primary key values} of two rows of
   one index orders by (index columns, then primary key). *)
Theorem C15_index_key_order :
  forall (mkl : N) (prefix : bytes) (tid iid : N) (cols pkcols : list col)
         (va vb pa pb : list sqlval) (KA KB : bytes),
  mkl < 4294967296 ->
  tuple_ok fix_negzero cols va = true -> tuple_ok fix_negzero cols vb = true ->
  tuple_ok fix_negzero pkcols pa = true -> tuple_ok fix_negzero pkcols pb = true ->
  index_key mkl prefix tid iid cols va pkcols pa = Ok KA ->
  index_key mkl prefix tid iid cols vb pkcols pb = Ok KB ->
  tuple_compare (va ++ pa) (vb ++ pb) = Some (bcmp KA KB).
Proof. exact (index_key_order_gen fix_negzero). Qed.
Print Assumptions C15_index_key_order.

(* KEY ROUND TRIP (partial): DecodeValueFromKey applied to the key of any value - also when the
   key is followed by further bytes of a composite key - returns the value and consumes exactly
   the key; timestamps restricted to the UnixNano range (refuted outside, above). *)
Theorem C15_key_decode_encode_partial :
  forall (mkl : N) (ty : sqltype) (ml : N) (v : sqlval) (k : bytes) (n : N) (rest : bytes),
  mkl < 4294967296 -> col_ok mkl (ty, ml) = true ->
  val_ok ty ml v = true -> key_rt_domain v = true ->
  enc_key mkl ty ml v = Ok (k, n) ->
  dec_key ty ml (k ++ rest) = Ok (key_canon fix_negzero v, len k).
Proof. exact (key_decode_encode_gen fix_negzero). Qed.
Print Assumptions C15_key_decode_encode_partial.

(* ---------------- SQL row values ---------------- *)

(* VALUE ROUND TRIP (partial): decodeValue applied to EncodeRawValue of any value (timestamps at
   microsecond precision, as the engine holds them, within +-292,000 years) returns the value and
   consumes exactly the encoding; in the nullable variant an empty VARCHAR/BLOB is excluded ... *)
Theorem C15_value_decode_encode_partial :
  forall (ty : sqltype) (ml : N) (nullable : bool) (v : sqlval) (enc rest : bytes),
  rowval_ok ty v = true -> micro_precise v = true -> nullable_rt_domain nullable v = true ->
  enc_val ty ml nullable v = Ok enc ->
  dec_val ty nullable (enc ++ rest) = Ok (v, len enc).
Proof. exact val_decode_encode. Qed.
Print Assumptions C15_value_decode_encode_partial.

(* ... because there the statement is false: EncodeNullableValue/DecodeNullableValue (the file
   sorter's row codec) turn an empty VARCHAR into NULL. *)
Theorem C15_value_decode_encode_refuted_nullable_empty :
  exists enc, enc_val TVarchar 0 true (VStr []) = Ok enc /\ dec_val TVarchar true enc = Ok (VNull, 4).
Proof. exact val_decode_encode_refuted_nullable_empty. Qed.
Print Assumptions C15_value_decode_encode_refuted_nullable_empty.

(* ---------------- protocol conversions (pkg/api/schema/database_protoconv.go) ---------------- *)

(* PROTOCOL ROUND TRIP, transaction header: for every header with 32-byte hashes, Version and
   NEntries below 2^31 (the message fields are int32) and metadata as its setters can build it
   (truncation id >= 1, extra payload of 1..maxExtraLen bytes, or none), TxHeaderFromProto of
   TxHeaderToProto gives back every field; nothing else is assumed (any id, ts, BlTxID). *)
Theorem C15_txhdr_proto_roundtrip : forall h : txhdr,
  txhdr_proto_ok h = true -> txhdr_from_proto (txhdr_to_proto h) = h.
Proof. exact txhdr_proto_roundtrip. Qed.
Print Assumptions C15_txhdr_proto_roundtrip.

(* ... hence the header a client rebuilds from the message serialises to the bytes the server
   hashed (same Alh), and two different headers never share a message. *)
Theorem C15_txhdr_proto_same_bytes : forall h : txhdr,
  txhdr_proto_ok h = true -> txhdr_bytes (txhdr_from_proto (txhdr_to_proto h)) = txhdr_bytes h.
Proof. exact txhdr_proto_same_bytes. Qed.
Print Assumptions C15_txhdr_proto_same_bytes.

Theorem C15_txhdr_to_proto_injective : forall h1 h2 : txhdr,
  txhdr_proto_ok h1 = true -> txhdr_proto_ok h2 = true ->
  txhdr_to_proto h1 = txhdr_to_proto h2 -> h1 = h2.
Proof. exact txhdr_to_proto_inj. Qed.
Print Assumptions C15_txhdr_to_proto_injective.

(* Transaction metadata, both directions: store value -> message -> store value on the setters'
   domain, and message -> store value -> message for every message whose extra payload is within
   the limit; whatever message arrives, the converted metadata lies in the lossless domain. *)
Theorem C15_txmd_proto_roundtrip : forall m : txmd,
  txmd_proto_ok m = true -> txmd_from_proto (txmd_to_proto m) = m.
Proof. exact txmd_proto_roundtrip. Qed.
Print Assumptions C15_txmd_proto_roundtrip.

Theorem C15_txmd_proto_roundtrip_rev : forall p : p_txmd,
  len (pt_extra p) <=? st_maxExtraLen = true ->
  txmd_to_proto (txmd_from_proto p) = p /\ txmd_proto_ok (txmd_from_proto p) = true.
Proof. intros p H. split; [exact (txmd_proto_roundtrip_rev p H) | exact (from_proto_always_valid p)]. Qed.
Print Assumptions C15_txmd_proto_roundtrip_rev.

(* Entry metadata and transaction entries: every combination of deleted / expiration /
   non-indexable survives in both directions; an entry with a 32-byte value hash and a value
   length below 2^31 survives TxEntryToProto followed by the per-entry part of TxFromProto. *)
Theorem C15_kvmd_proto_roundtrip : forall (m : kvmd) (p : p_kvmd),
  kvmd_from_proto (kvmd_to_proto m) = m /\ kvmd_to_proto (kvmd_from_proto p) = p.
Proof. intros m p. split; [exact (kvmd_proto_roundtrip m) | exact (kvmd_proto_roundtrip_rev p)]. Qed.
Print Assumptions C15_kvmd_proto_roundtrip.

Theorem C15_entry_proto_roundtrip : forall e : s_entry,
  entry_proto_ok e = true -> entry_from_proto (entry_to_proto e) = e.
Proof. exact entry_proto_roundtrip. Qed.
Print Assumptions C15_entry_proto_roundtrip.

(* Outside the setters' domain the metadata statement is FALSE on the code as it is:
   TxMetadata.ReadFrom accepts a truncation attribute holding id 0 and an extra attribute with an
   empty payload (so ReplicateTx stores such headers), and the conversion drops either attribute,
   so the metadata - and the header bytes a client hashes - differ from what the server holds. *)
Theorem C15_txmd_proto_roundtrip_refuted_degenerate :
  (exists m : txmd, txmd_read degenerate_trunc_bytes = Ok m /\
             txmd_from_proto (txmd_to_proto m) <> m /\
             txmd_bytes (txmd_from_proto (txmd_to_proto m)) <> txmd_bytes m) /\
  (exists m : txmd, txmd_read degenerate_extra_bytes = Ok m /\
             txmd_from_proto (txmd_to_proto m) <> m /\
             txmd_bytes (txmd_from_proto (txmd_to_proto m)) <> txmd_bytes m).
Proof. split; [exact txmd_proto_roundtrip_refuted_trunc0 | exact txmd_proto_roundtrip_refuted_extra_empty]. Qed.
Print Assumptions C15_txmd_proto_roundtrip_refuted_degenerate.

(* Proof terms (linear, dual and inclusion proofs travel as lists of digests): every list of
   32-byte digests survives DigestsToProto followed by DigestsFromProto, and whatever message
   arrives the converted list has the same number of terms, each exactly 32 bytes long. *)
Theorem C15_digests_proto_roundtrip : forall l : list bytes,
  (forallb digest_ok l = true -> digests_from_proto (digests_to_proto l) = l) /\
  length (digests_from_proto l) = length l /\ forallb digest_ok (digests_from_proto l) = true.
Proof. intros l. split; [exact (digests_proto_roundtrip l) | exact (digests_from_proto_shape l)]. Qed.
Print Assumptions C15_digests_proto_roundtrip.
