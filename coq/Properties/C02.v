(* C02 — Committed history is append-only and immutable.
   Only property theorems, each closed by `exact`. The model (coq/Hist/Machine.v) is the commit
   pipeline of embedded/store/immustore.go at the granularity of its critical sections; a run is ANY
   list of steps OBegin (precommit up to the lock: validations, value write, checks against an expected
   header) / OLocked (critical section incl. performPrecommit and mayCommit) / OSync / OAllow
   (AllowCommitUpto) / ODiscard (DiscardPrecommittedTxsSince) / OSetExt / OReopen (Close + Open) issued
   by any number of clients, i.e. every interleaving of the atomic sections. `read_tx s k` is what
   ReadTx(k) returns: the record found THROUGH the commit-log entry (offset, size) in the tx log.
   H is ANY hash function; no collision assumption is used. The premise 0 < c_maxactive is
   Options.Validate (MaxActiveTransactions > 0). *)
(* coq/Hist/Refuted.v holds the refutation of the one full statement that the code as it stands still
   violates (ack_refuted_witness: a commit call of a discarded transaction acknowledged under another
   transaction's id) and the regression witnesses of the two defects fixed meanwhile (blroot_fixed_witness:
   2077e08; reopen_fixed_witness: 8728288), evaluated with the executable SHA-256 (Coq's primitive 63-bit
   integers, hence not listed here where every theorem must be closed under the global context) and
   replayed on the real store by the directed scripts of harness/c02 on every run. *)
From V Require Import Hist.Machine Hist.Hist Hist.Aht Hist.Theorems Hist.Refuted.

(* Committed ids are exactly 1..committedTxID: every id in that range reads back a record carrying
   that id, id 0 and every id beyond the frontier read nothing. *)
Theorem C02_ids_dense :
  forall (H : bytes -> bytes) (c : cfg) (ops : list op) (k : N), 0 < c_maxactive c ->
  let s := run H (init H c) ops in
  (1 <= k /\ k <= s_committed s -> exists r, read_tx s k = Ok r /\ h_id (r_hdr r) = k) /\
  (k = 0 \/ s_committed s < k -> exists e, read_tx s k = Err e).
Proof. exact ids_dense. Qed.
Print Assumptions C02_ids_dense.

(* Immutability: whatever was committed at some point of an execution (state s1) reads back
   identically (header, entries with value digests and offsets, stored Alh) at every later point s2 of
   every continuation ops2 — further commits, concurrent writers, discards, failed precommits that
   already appended bytes, allowance changes, close/reopen cycles — and the frontier never goes back. *)
Theorem C02_history_prefix_monotone :
  forall (H : bytes -> bytes) (c : cfg) (ops1 ops2 : list op), 0 < c_maxactive c ->
  let s1 := run H (init H c) ops1 in
  let s2 := run H s1 ops2 in
  s_committed s1 <= s_committed s2 /\
  forall k, 1 <= k -> k <= s_committed s1 -> read_tx s2 k = read_tx s1 k.
Proof. exact history_prefix_monotone. Qed.
Print Assumptions C02_history_prefix_monotone.

(* Chain: the committed record k links to its predecessor (PrevAlh_k = stored Alh_{k-1}; the hash of
   the empty string for k = 1), BlTxID_k < k, and its stored Alh is the hash of its own header.
   The BlRoot clause is C02_blroot below; this part holds for ALL executions without any premise. *)
Theorem C02_alh_chain :
  forall (H : bytes -> bytes) (c : cfg) (ops : list op) (k : N) (r : rec), 0 < c_maxactive c ->
  let s := run H (init H c) ops in
  1 <= k -> k <= s_committed s -> read_tx s k = Ok r ->
  (k = 1 -> h_prevalh (r_hdr r) = H []) /\
  (1 < k -> exists r', read_tx s (k - 1) = Ok r' /\ h_prevalh (r_hdr r) = r_alh r') /\
  h_bltxid (r_hdr r) < k /\
  alh_of H (r_hdr r) = Ok (r_alh r).
Proof. exact alh_chain_links. Qed.
Print Assumptions C02_alh_chain.


(* BlRoot clause of the chain, for ALL executions incl. close/reopen cycles and discards (OpenWith rebuilds
   the binary-linking tree from the reloaded transactions: 2077e08; Discard cuts the tx log and an incomplete
   commit loop rewinds the commit log: 8728288): a committed record with BlTxID > 0 embeds the Merkle root
   (RFC 6962 shape: Merkle/Ref.v) over the stored Alh values of transactions 1..BlTxID as a reader gets them
   (`alhs s n`), or a collision of H is exhibited (a record reloaded from the tx log at reopen is tied to
   its ancestry only through the PrevAlh hash chain). H has 32-byte outputs. *)
Theorem C02_blroot :
  forall (H : bytes -> bytes) (c : cfg) (ops : list op) (k : N) (r : rec),
  (forall x, length (H x) = 32%nat) -> 0 < c_maxactive c ->
  let s := run H (init H c) ops in
  1 <= k -> k <= s_committed s -> read_tx s k = Ok r -> 0 < h_bltxid (r_hdr r) ->
  h_blroot (r_hdr r) = mth H (alhs s (h_bltxid (r_hdr r))) \/ Collision H.
Proof. exact blroot. Qed.
Print Assumptions C02_blroot.

(* "Reported committed" from the caller's side, _partial form: in every execution WITHOUT
   DiscardPrecommittedTxsSince, each commit call that has returned success (acked s: its id and the Alh
   of the header it returned) returned the header of the committed transaction with that id.
   (With a Discard the statement is false on the code as it stands: ack_refuted_witness.) *)
Theorem C02_ack_is_history_partial :
  forall (H : bytes -> bytes) (c : cfg) (ops : list op) (id : N) (alh : bytes),
  0 < c_maxactive c -> existsb is_discard ops = false ->
  let s := run H (init H c) ops in
  In (id, alh) (acked s) -> exists r, read_tx s id = Ok r /\ r_alh r = alh.
Proof. exact ack_partial. Qed.
Print Assumptions C02_ack_is_history_partial.

(* The state the store reports (CommittedAlh) is the id and the stored Alh of the last committed
   transaction (hash of the empty string for the empty store). *)
Theorem C02_state_is_last :
  forall (H : bytes -> bytes) (c : cfg) (ops : list op), 0 < c_maxactive c ->
  let s := run H (init H c) ops in
  (s_committed s = 0 -> snd (committed_state s) = H []) /\
  (0 < s_committed s -> exists r, read_tx s (s_committed s) = Ok r /\ r_alh r = snd (committed_state s)) /\
  fst (committed_state s) = s_committed s.
Proof. exact state_is_last. Qed.
Print Assumptions C02_state_is_last.

(* Byte-level statement behind "a racing precommit overwrites an earlier tx": whatever a step writes
   into the tx log (a write w that was not there before) starts at or above the END of every record
   that is committed or precommitted (held by cLogBuf) — incl. after Discard (which rewinds
   precommittedTxLogSize to the end of the last kept record), after failed precommits that had already appended bytes, after reopen. *)
Theorem C02_txlog_extents_disjoint :
  forall (H : bytes -> bytes) (c : cfg) (ops : list op) (o : op) (w x : wr), 0 < c_maxactive c ->
  let s := run H (init H c) ops in
  In w (s_txlog (fst (step H s o))) -> ~ In w (s_txlog s) -> live_record s x -> w_end x <= w_off w.
Proof. exact txlog_extents_disjoint. Qed.
Print Assumptions C02_txlog_extents_disjoint.

(* DiscardPrecommittedTxsSince: committed id and Alh and the commit log are left untouched, every
   committed transaction reads back identically although the tx log is cut at the last kept transaction,
   and a request to discard a committed id is refused. *)
Theorem C02_discard_respects_committed :
  forall (H : bytes -> bytes) (c : cfg) (ops : list op) (n : N), 0 < c_maxactive c ->
  let s := run H (init H c) ops in
  let s' := fst (discard s n) in
  s_committed s' = s_committed s /\ committed_state s' = committed_state s /\
  s_clog s' = s_clog s /\
  (forall k, 1 <= k -> k <= s_committed s -> read_tx s' k = read_tx s k) /\
  (n <= s_committed s -> exists e, snd (discard s n) = Err e).
Proof. exact discard_respects_committed. Qed.
Print Assumptions C02_discard_respects_committed.

(* Clean close/reopen: the reported state (committed id and Alh) is the same and every committed
   transaction reads back identically (full statement since 8728288: the commit log never holds entries
   beyond the committed id, so a restart cannot commit anything). *)
Theorem C02_reopen_same_history :
  forall (H : bytes -> bytes) (c : cfg) (ops : list op), 0 < c_maxactive c ->
  let s := run H (init H c) ops in
  let s' := fst (step H s OReopen) in
  committed_state s' = committed_state s /\
  forall k, 1 <= k -> k <= s_committed s -> read_tx s' k = read_tx s k.
Proof. exact reopen_same_history. Qed.
Print Assumptions C02_reopen_same_history.
