(* C14 — Value-log truncation keeps everything at or after the cut readable.
   Only the property theorems, each closed by `exact`.  Model: Trunc/Model.v (a state machine
   whose steps are the critical sections of embedded/store: value append into ANY value log,
   commit, abort, TruncateUptoTx, ExportTx, restart), tied to /repo by Tie/C14.v.  The boolean
   `fixed` selects the ExportTx of the code before (false) / since (true) commit 7ccd103; the
   truncation theorems hold for both, the export theorem is about the code as it is (true). *)
From V Require Import Base.Bytes Trunc.Model Trunc.Lemmas Trunc.Safety Trunc.Theorems Trunc.Export.

(* For EVERY reachable state — any number of committers whose value appends and commits interleave
   in any order (values sit in the value logs out of id order), any choice among the
   maxIOConcurrency value logs, any file size, empty values anywhere, earlier truncations, exports,
   restarts — and EVERY cut point n: TruncateUptoTx(n) leaves every entry of every committed
   transaction with id >= n that could be read readable, with identical bytes. *)
Theorem truncate_preserves_suffix :
  forall (fixed : bool) (c : cfg) (ops : list op) (n : N),
    cfg_ok c = true -> ops_bytes ops < two55 ->
    forall id tx e v, n <= id ->
      get_tx (s_txs (run_state fixed c ops)) id = Some tx -> In e tx ->
      read_entry c (run_state fixed c ops) e = RdOk v ->
      read_entry c (fst (do_truncate c (run_state fixed c ops) n)) e = RdOk v.
Proof. exact truncate_step. Qed.
Print Assumptions truncate_preserves_suffix.

(* Running the same truncation again changes nothing (same files, same result): repeated
   truncation is harmless.  Holds for every state, reachable or not. *)
Theorem truncate_idempotent :
  forall (c : cfg) (st : state) (n : N),
    do_truncate c (fst (do_truncate c st n)) n = do_truncate c st n.
Proof. exact truncate_idem. Qed.
Print Assumptions truncate_idempotent.

(* Truncation touches chunk files of value logs only: the transaction log (headers, entries,
   digests, hence Alh, proofs and what the indexer reads) is the same list afterwards.  In the
   model this is by construction; that the implementation agrees is what the harness checks
   (headers, Alh, ExportTx bytes and index lookups before/after). *)
Theorem truncate_touches_only_value_logs :
  forall (c : cfg) (st : state) (n : N),
    s_txs (fst (do_truncate c st n)) = s_txs st /\
    s_pending (fst (do_truncate c st n)) = s_pending st /\
    s_valmux (fst (do_truncate c st n)) = s_valmux st.
Proof. exact do_truncate_frame. Qed.
Print Assumptions truncate_touches_only_value_logs.

(* Truncation racing with a committer: REFUTED on the code as it is.  Values are appended to a
   value log before the committer takes the commit lock; a truncation that runs in between sees
   only committed transactions and deletes the chunk holding the stalled committer's values; the
   transaction then commits with an id ABOVE the cut and cannot be read. *)
Theorem truncate_vs_stalled_writer_refuted :
  exists c ops id tx e, cfg_ok c = true /\ ops_bytes ops < two55 /\
    s_cut (run_state true c ops) < id /\
    get_tx (s_txs (run_state true c ops)) id = Some tx /\ In e tx /\
    read_entry c (run_state true c ops) e = RdEOF.
Proof. exact race_refuted. Qed.
Print Assumptions truncate_vs_stalled_writer_refuted.

(* ... and the strongest statement that holds: in every run in which no truncation executes while
   a committer sits between its value append and the commit lock (any number of truncations with
   any arguments otherwise), every entry of every committed transaction whose id is at or above
   the largest successful cut reads back exactly the value that was written. *)
Theorem truncate_vs_stalled_writer_partial :
  forall (fixed : bool) (c : cfg) (ops : list op),
    cfg_ok c = true -> ops_bytes ops < two55 -> quiescent fixed c ops = true ->
    forall id tx e, s_cut (run_state fixed c ops) <= id ->
      get_tx (s_txs (run_state fixed c ops)) id = Some tx -> In e tx ->
      read_entry c (run_state fixed c ops) e = RdOk (e_val e).
Proof. exact suffix_readable. Qed.
Print Assumptions truncate_vs_stalled_writer_partial.

(* ExportTx of a transaction at or above the cut is complete (every value, in order) and leaves
   the value mutex free. *)
Theorem export_full_at_or_after_cut :
  forall (fixed : bool) (c : cfg) (ops : list op),
    cfg_ok c = true -> ops_bytes ops < two55 -> quiescent fixed c ops = true ->
    s_valmux (run_state fixed c ops) = false ->
    forall id tx, s_cut (run_state fixed c ops) <= id ->
      get_tx (s_txs (run_state fixed c ops)) id = Some tx ->
      snd (do_export fixed c (run_state fixed c ops) id) = XFull (map e_val tx) /\
      s_valmux (fst (do_export fixed c (run_state fixed c ops) id)) = false.
Proof. exact export_full. Qed.
Print Assumptions export_full_at_or_after_cut.

(* For EVERY run of the code as it is (any history, truncations, races, restarts), every ExportTx
   returns — in full, by digest or with an error, never waiting for a mutex nobody releases — and
   leaves _valBsMux free. *)
Theorem export_terminates_and_releases :
  forall (c : cfg) (ops : list op), Forall export_fine (run_outs true c ops).
Proof. exact export_fixed_ok. Qed.
Print Assumptions export_terminates_and_releases.

(* The defect repaired by 7ccd103, kept as a witness on the model of the code before it: a
   truncated transaction with one non-empty and one empty value made ExportTx return "partially
   truncated transaction" with _valBsMux held; the next ExportTx never returned. *)
Theorem export_terminates_and_releases_refuted_before_7ccd103 :
  exists c ops, cfg_ok c = true /\ ops_bytes ops < two55 /\ quiescent false c ops = true /\
    In (UExport XErrPartial true) (run_outs false c ops) /\
    In (UExport XBlocked true) (run_outs false c ops).
Proof. exact export_refuted. Qed.
Print Assumptions export_terminates_and_releases_refuted_before_7ccd103.
