(* C01 — Verified reads/writes: proofs are sound (tamper evidence).
   Only property theorems, each closed by `exact`. H is ANY hash function with 32-byte outputs;
   `Collision H` = exists x <> y with H x = H y (an explicit collision, exhibited by the proof).
   Model of embedded/store/verification.go + tx.go: Proofs/Model.v (alh, verify_linear_proof,
   verify_dual_proof, verify_dual_proof_v2, entry digests, verify_entry_inclusion); well-formed
   histories (any binary-linking lag): Proofs/History.v; `hdr_valid` = the Go field ranges (uint64
   ids, 32-byte digests), Version in {0,1}, NEntries / metadata length inside the widths innerHash
   casts them to; `hashed_fields` = ID, PrevAlh, Ts, Version, metadata bytes (version 1), NEntries,
   Eh, BlTxID, BlRoot.  Sessions against an arbitrary server: Proofs/Session.v. *)
From V Require Import Proofs.History Proofs.Session Proofs.Binding Proofs.Linear
  Proofs.Sound Proofs.Fork Proofs.HistoryB Proofs.Refuted Proofs.Gen Proofs.Complete Proofs.CompleteFull Proofs.Unique Proofs.Transport Proofs.SessionProof
  Merkle.Sound Merkle.Verify Merkle.VerifyFixed.

(* Alh commits to every hashed header field: two valid headers with the same Alh agree on all of
   them (so a header altered in any of these fields no longer matches a trusted Alh). *)
Theorem C01_alh_binding :
  forall (H : bytes -> bytes), (forall x, length (H x) = 32%nat) ->
  forall h h' : txhdr,
    hdr_valid h = true -> hdr_valid h' = true ->
    alh_v H h = alh_v H h' -> hashed_fields h = hashed_fields h' \/ Collision H.
Proof. exact alh_binding. Qed.
Print Assumptions C01_alh_binding.

(* Entry digests (EntrySpecDigest_v0 / TxEntryDigest_v1_1) commit to key and value hash. *)
Theorem C01_entry_digest_binding_v0 :
  forall (H : bytes -> bytes), (forall x, length (H x) = 32%nat) ->
  forall key key' hval hval' : bytes,
    length hval = 32%nat -> length hval' = 32%nat ->
    entry_digest_v0 H key hval = entry_digest_v0 H key' hval' ->
    (key = key' /\ hval = hval') \/ Collision H.
Proof. exact entry_digest_binding_v0. Qed.
Print Assumptions C01_entry_digest_binding_v0.

(* Entry digests (EntrySpecDigest_v1 / TxEntryDigest_v1_2) commit to metadata bytes, key and value
   hash, for lengths inside the uint16 casts. *)
Theorem C01_entry_digest_binding_v1 :
  forall (H : bytes -> bytes) (md md' key key' hval hval' : bytes),
    len md < 65536 -> len md' < 65536 -> len key < 65536 -> len key' < 65536 ->
    entry_digest_v1 H md key hval = entry_digest_v1 H md' key' hval' ->
    (md = md' /\ key = key' /\ hval = hval') \/ Collision H.
Proof. exact entry_digest_binding_v1. Qed.
Print Assumptions C01_entry_digest_binding_v1.

(* VerifyLinearProof: for EVERY hash chain (A k = Alh up to k, I k = inner hash of k) and every
   accepted proof (any number of terms) whose target value is the chain's value at targetTxID, the
   source value is the chain's value at sourceTxID. *)
Theorem C01_linear_proof_sound :
  forall (H : bytes -> bytes), (forall x, length (H x) = 32%nat) ->
  forall (A I : N -> bytes) (p : option linear_proof) (src tgt : N) (salh talh : bytes),
    is_chain H A I src tgt ->
    length salh = 32%nat ->
    verify_linear_proof H p src tgt salh talh = true ->
    talh = A tgt ->
    salh = A src \/ Collision H.
Proof. exact linear_proof_sound. Qed.
Print Assumptions C01_linear_proof_sound.

(* The boolean checker the correspondence run applies to the histories of the real store implies
   the well-formedness the theorems below assume. *)
Theorem C01_history_checker_sound :
  forall (H : bytes -> bytes) (hs : list txhdr), wf_histb H hs = true -> wf_hist H hs.
Proof. exact wf_histb_sound. Qed.
Print Assumptions C01_history_checker_sound.

(* TAMPER EVIDENCE (VerifyDualProof as it stands, i.e. with the repair of /repo commit d34d669;
   trusted state = target): for every well-formed history (any
   length, any lag of the binary linking), every proof (any terms, any headers within the Go field
   ranges) accepted against the Alh of the history's transaction targetTxID proves a source header
   that equals the history's header of transaction sourceTxID in every hashed field, and the
   source Alh is that transaction's Alh — no altered, forged or re-ordered transaction verifies. *)
Theorem C01_dual_proof_sound_wrt_history :
  forall (H : bytes -> bytes), (forall x, length (H x) = 32%nat) ->
  forall (hs : list txhdr) (p : dual_proof) (src tgt : N) (salh : bytes) (sh th tg : txhdr),
    wf_hist H hs ->
    tx_at hs tgt = Some tg ->
    dp_src p = Some sh -> dp_tgt p = Some th -> hdr_valid sh = true -> hdr_valid th = true ->
    len32 (dp_incl p) ->
    verify_dual_proof H (Some p) src tgt salh (alh_v H tg) = Ok true ->
    (exists g, tx_at hs src = Some g /\ hashed_fields sh = hashed_fields g /\ salh = alh_v H g)
    \/ Collision H.
Proof. exact dual_proof_sound_wrt_history. Qed.
Print Assumptions C01_dual_proof_sound_wrt_history.

(* NO FORK, "the new state extends the trusted one" (either direction of the client flow: trusted
   state = source when a newer transaction / state is being accepted, = target when an older
   transaction is read): if the client's pair (src, salh) is a state of a well-formed history hs1
   and the other pair of an accepted proof is a state of a well-formed history hs2, then hs1 and
   hs2 are the same history up to transaction src (all hashed header fields, hence entries through
   Eh) — a server holding a forked, re-ordered or rewritten well-formed history cannot get a state
   of it accepted.  (Against a server that presents headers that belong to NO well-formed history
   the statement is false for the code as it stands: Proofs/Refuted.v.) *)
Theorem C01_dual_proof_no_fork :
  forall (H : bytes -> bytes), (forall x, length (H x) = 32%nat) ->
  forall (hs1 hs2 : list txhdr) (p : dual_proof) (src tgt : N) (sh th g1 tg : txhdr),
    wf_hist H hs1 -> wf_hist H hs2 ->
    tx_at hs1 src = Some g1 -> tx_at hs2 tgt = Some tg ->
    dp_src p = Some sh -> dp_tgt p = Some th -> hdr_valid sh = true -> hdr_valid th = true ->
    len32 (dp_incl p) ->
    verify_dual_proof H (Some p) src tgt (alh_v H g1) (alh_v H tg) = Ok true ->
    agree_upto hs1 hs2 src \/ Collision H.
Proof. exact dual_proof_no_fork. Qed.
Print Assumptions C01_dual_proof_no_fork.

(* The same for VerifyDualProofV2 (for sourceTxID = targetTxID the verifier demands sourceAlh =
   targetAlh since /repo commit dd8ca50). *)
Theorem C01_dual_proof_v2_sound_wrt_history :
  forall (H : bytes -> bytes), (forall x, length (H x) = 32%nat) ->
  forall (hs : list txhdr) (p : dual_proof_v2) (src tgt : N) (salh : bytes) (sh th tg : txhdr),
    wf_hist H hs ->
    tx_at hs tgt = Some tg ->
    d2_src p = Some sh -> d2_tgt p = Some th -> hdr_valid sh = true -> hdr_valid th = true ->
    len32 (d2_incl p) ->
    verify_dual_proof_v2 H (Some p) src tgt salh (alh_v H tg) = Ok true ->
    (exists g, tx_at hs src = Some g /\ hashed_fields sh = hashed_fields g /\ salh = alh_v H g)
    \/ Collision H.
Proof. exact dual_proof_v2_sound_wrt_history. Qed.
Print Assumptions C01_dual_proof_v2_sound_wrt_history.

(* With the header pinned, an accepted entry inclusion proof against its Eh pins the entry (key,
   metadata bytes, value hash) as one of the entries of that transaction. *)
Theorem C01_verified_entry_sound :
  forall (H : bytes -> bytes), (forall x, length (H x) = 32%nat) ->
  forall (v : N) (es : list entry) (sh g : txhdr) (e' : entry) (leaf width : Z) (terms : list bytes),
    es <> [] -> Forall (fun e => entry_valid e = true) es -> entry_valid e' = true ->
    h_eh g = eh_of H v es ->
    hashed_fields sh = hashed_fields g ->
    len32 terms ->
    verify_entry_inclusion H (Some (leaf, width, terms)) (entry_digest H v e') (h_eh sh) = true ->
    (exists e, In e es /\ entry_fields v e' = entry_fields v e) \/ Collision H.
Proof. exact verified_entry_sound. Qed.
Print Assumptions C01_verified_entry_sound.

(* Verified read, end to end (the client's trusted state is at or after the proven transaction):
   an accepted dual proof plus an accepted entry inclusion proof against the proven header's Eh
   mean that the returned key / metadata / value hash is an entry of the history's transaction
   sourceTxID and the header is that transaction's header. *)
Theorem C01_verified_read_sound :
  forall (H : bytes -> bytes), (forall x, length (H x) = 32%nat) ->
  forall (hs : list txhdr) (ents : N -> list entry) (p : dual_proof) (src tgt : N) (salh : bytes)
         (sh th tg : txhdr) (e' : entry) (leaf width : Z) (terms : list bytes),
    wf_hist H hs ->
    (forall k g, tx_at hs k = Some g ->
       ents k <> [] /\ Forall (fun e => entry_valid e = true) (ents k) /\
       h_eh g = eh_of H (h_version g) (ents k)) ->
    tx_at hs tgt = Some tg ->
    dp_src p = Some sh -> dp_tgt p = Some th -> hdr_valid sh = true -> hdr_valid th = true ->
    len32 (dp_incl p) -> len32 terms -> entry_valid e' = true ->
    verify_dual_proof H (Some p) src tgt salh (alh_v H tg) = Ok true ->
    verify_entry_inclusion H (Some (leaf, width, terms)) (entry_digest H (h_version sh) e') (h_eh sh) = true ->
    (exists g e, tx_at hs src = Some g /\ hashed_fields sh = hashed_fields g /\
                 In e (ents src) /\ entry_fields (h_version sh) e' = entry_fields (h_version sh) e)
    \/ Collision H.
Proof. exact verified_read_sound. Qed.
Print Assumptions C01_verified_read_sound.

(* COMPLETENESS. The honest proofs are those of Proofs/Gen.v: what ImmuStore.LinearProof /
   LinearAdvanceProof / DualProof / DualProofV2 / Tx.Proof assemble, with the honest Merkle sibling
   paths of coq/Merkle; the correspondence run compares them term by term with the proofs the real
   store generates (cases CLinGen, CDualGen incl. lagging histories, CEntryGen).

   VerifyLinearProof accepts the honest linear proof between any two transactions of a well-formed
   history. *)
Theorem C01_linear_proof_complete :
  forall (H : bytes -> bytes), (forall x, length (H x) = 32%nat) ->
  forall (hs : list txhdr) (s t : N),
    wf_hist H hs -> 1 <= s -> s <= t -> t <= lenN hs ->
    verify_linear_proof H (gen_linear_proof H hs s t) s t (A_at H hs s) (A_at H hs t) = true.
Proof. exact linear_proof_complete. Qed.
Print Assumptions C01_linear_proof_complete.

(* VerifyDualProof accepts the honest dual proof (gen_dual_proof_full: inclusion, consistency — the
   proof AHtree.ConsistencyProof generates, coq/Merkle cons_ref —, last inclusion, linear and
   linear-advance parts) for EVERY well-formed history (any length, any lag of the binary linking)
   and every 1 <= i <= j <= n. No side condition. *)
Theorem C01_dual_proof_complete :
  forall (H : bytes -> bytes), (forall x, length (H x) = 32%nat) ->
  forall (hs : list txhdr) (i j : N),
    wf_hist H hs -> 1 <= i -> i <= j -> j <= lenN hs ->
    verify_dual_proof H (Some (gen_dual_proof_full H hs i j)) i j (A_at H hs i) (A_at H hs j) = Ok true.
Proof. exact dual_proof_complete_full. Qed.
Print Assumptions C01_dual_proof_complete.

(* The same for VerifyDualProofV2 (headers with BlTxID = ID - 1, which the verifier demands). *)
Theorem C01_dual_proof_v2_complete :
  forall (H : bytes -> bytes), (forall x, length (H x) = 32%nat) ->
  forall (hs : list txhdr) (i j : N),
    wf_hist H hs -> 1 <= i -> i <= j -> j <= lenN hs ->
    h_bltxid (hd_at hs i) = i - 1 -> h_bltxid (hd_at hs j) = j - 1 ->
    verify_dual_proof_v2 H (Some (gen_dual_proof_v2_full H hs i j)) i j (A_at H hs i) (A_at H hs j) = Ok true.
Proof. exact dual_proof_v2_complete_full. Qed.
Print Assumptions C01_dual_proof_v2_complete.

(* store.VerifyInclusion accepts Tx.Proof of every entry of every transaction (no side condition). *)
Theorem C01_entry_inclusion_complete :
  forall (H : bytes -> bytes), (forall x, length (H x) = 32%nat) ->
  forall (v : N) (es : list entry) (idx : N) (e : entry),
    nth_error es (N.to_nat idx) = Some e ->
    verify_entry_inclusion H (gen_entry_proof H v es idx) (entry_digest H v e) (eh_of H v es) = true.
Proof. exact entry_inclusion_complete. Qed.
Print Assumptions C01_entry_inclusion_complete.

(* The client's step (Proofs/Session.v client_step: source/target selection of VerifiedTxByID and
   verifiedGet, trusted pair taken from the client's state) accepts every honest answer: from no
   state or any state of the history, a verified read of any transaction v ends in the state of the
   history at max(trusted id, v). *)
Theorem C01_client_accepts_honest :
  forall (H : bytes -> bytes), (forall x, length (H x) = 32%nat) ->
  forall (hs : list txhdr) (st : option (N * bytes)) (v : N),
    wf_hist H hs -> 1 <= v -> v <= lenN hs ->
    let s := match st with Some x => fst x | None => v end in
    (1 <= s /\ s <= lenN hs /\ (forall x, st = Some x -> snd x = A_at H hs s)) ->
    let i := N.min s v in let j := N.max s v in
    client_step H st v (gen_dual_proof_full H hs i j) = Ok (Some (j, A_at H hs j)).
Proof. exact client_accepts_honest_full. Qed.
Print Assumptions C01_client_accepts_honest.

(* CONSISTENCY AGAINST AN ARBITRARY SERVER, as far as the code allows.
   Against one and the same root — which need not be the root of any genuine tree — two accepted
   inclusion proofs for the same position (i, j) carry the same payload (the proof length is a
   function of (i, j) since /repo commit c59ab5b, so both proofs hash along the same directions). *)
Theorem C01_inclusion_unique :
  forall (H : bytes -> bytes), (forall x, length (H x) = 32%nat) ->
  forall (t1 t2 : list bytes) (i j : N) (a b root : bytes),
    len32 t1 -> len32 t2 ->
    verify_inclusion H t1 i j (leafh H a) root = true ->
    verify_inclusion H t2 i j (leafh H b) root = true ->
    a = b \/ Collision H.
Proof. exact inclusion_unique. Qed.
Print Assumptions C01_inclusion_unique.

(* READ-READ consistency: whatever a server sends, two proofs accepted by VerifyDualProof for the
   same source transaction id against ONE trusted target state (tgt, talh) carry the same source Alh
   (hence, by C01_alh_binding, the same header): under one trusted state a transaction id has one
   verifiable content. *)
Theorem C01_dual_proof_same_target_unique :
  forall (H : bytes -> bytes), (forall x, length (H x) = 32%nat) ->
  forall (p1 p2 : dual_proof) (src tgt : N) (a b talh : bytes) (t1 t2 : txhdr),
    dp_tgt p1 = Some t1 -> dp_tgt p2 = Some t2 -> hdr_valid t1 = true -> hdr_valid t2 = true ->
    len32 (dp_incl p1) -> len32 (dp_incl p2) ->
    verify_dual_proof H (Some p1) src tgt a talh = Ok true ->
    verify_dual_proof H (Some p2) src tgt b talh = Ok true ->
    a = b \/ Collision H.
Proof. exact dual_proof_same_target_unique. Qed.
Print Assumptions C01_dual_proof_same_target_unique.

(* The same for VerifyDualProofV2. *)
Theorem C01_dual_proof_v2_same_target_unique :
  forall (H : bytes -> bytes), (forall x, length (H x) = 32%nat) ->
  forall (p1 p2 : dual_proof_v2) (src tgt : N) (a b talh : bytes) (t1 t2 : txhdr),
    d2_tgt p1 = Some t1 -> d2_tgt p2 = Some t2 -> hdr_valid t1 = true -> hdr_valid t2 = true ->
    len32 (d2_incl p1) -> len32 (d2_incl p2) ->
    verify_dual_proof_v2 H (Some p1) src tgt a talh = Ok true ->
    verify_dual_proof_v2 H (Some p2) src tgt b talh = Ok true ->
    a = b \/ Collision H.
Proof. exact dual_proof_v2_same_target_unique. Qed.
Print Assumptions C01_dual_proof_v2_same_target_unique.

(* FACT (T), transport across a state advance, against an ARBITRARY server: R and R' are any 32-byte
   values (no genuine tree anywhere). If ahtree.VerifyConsistency accepts (m, R) -> (n, R') and
   ahtree.VerifyInclusion accepts `leaf` at position i of (m, R), then some inclusion proof of the
   same leaf at the same position is accepted against (n, R') — or a collision is exhibited. (The
   proof lengths are pinned since /repo commits c59ab5b and 05f2785; the new path is assembled from
   the terms of the two proofs.) *)
Theorem C01_consistency_transport :
  forall (H : bytes -> bytes), (forall x, length (H x) = 32%nat) ->
  forall (cproof t : list bytes) (i m n : N) (leaf R R' : bytes),
    len32 cproof -> len32 t -> length leaf = 32%nat ->
    verify_consistency_fixed H cproof m n R R' = Ok true ->
    verify_inclusion H t i m leaf R = true ->
    (exists t', len32 t' /\ verify_inclusion H t' i n leaf R' = true) \/ Collision H.
Proof. exact consistency_transport. Qed.
Print Assumptions C01_consistency_transport.

(* FULL SESSION CONSISTENCY against an arbitrary server, VerifyDualProofV2: along ONE session of a
   verifying client (Proofs/Session.v: every call accepted, the client's trusted pair is the source or
   the target of the call, the new state is the call's target; any number of state advances and
   verified reads, in any order) every two accepted (transaction id, Alh) pairs with the same id
   carry the same Alh — hence by C01_alh_binding the same header, entries digest and linking — or a
   collision is exhibited. No forked, re-ordered or rewritten history is ever accepted within a
   session. good_v2 = the Go types: headers within their field ranges, 32-byte proof terms. *)
Theorem C01_session_consistency_v2 :
  forall (H : bytes -> bytes), (forall x, length (H x) = 32%nat) ->
  forall (st : N * bytes) (cs : list call),
    session (verify_dual_proof_v2_call H) st cs -> Forall good_v2 cs ->
    forall id a b, In (id, a) (st :: pairs cs) -> In (id, b) (st :: pairs cs) -> a = b \/ Collision H.
Proof. exact session_consistency_v2. Qed.
Print Assumptions C01_session_consistency_v2.

(* The same for VerifyDualProof when every header carried by the session's proofs has
   BlTxID = ID - 1 (good_v1; what every current server emits). For headers whose binary linking
   lags (source.BlTxID < target.BlTxID < sourceTxID) the statement is REFUTED: Proofs/Refuted.v
   session_consistency_v1_refuted, known finding. *)
Theorem C01_session_consistency_v1_nonlagging :
  forall (H : bytes -> bytes), (forall x, length (H x) = 32%nat) ->
  forall (st : N * bytes) (cs : list call),
    session (verify_dual_proof H) st cs -> Forall good_v1 cs ->
    forall id a b, In (id, a) (st :: pairs cs) -> In (id, b) (st :: pairs cs) -> a = b \/ Collision H.
Proof. exact session_consistency_v1_nonlagging. Qed.
Print Assumptions C01_session_consistency_v1_nonlagging.

(* NEGATIVE RESULTS about the code as it stands are in Proofs/Refuted.v (witnesses computed with the
   executable SHA-256, whose primitive-integer operations Print Assumptions would list; the file is
   compiled on every run through Tie/C01.v; replayed on the Go verifiers by the harness):
     session_consistency_v1_refuted        session consistency against an arbitrary server is FALSE
                                           for VerifyDualProof on headers whose binary linking lags
                                           (source.BlTxID < target.BlTxID < sourceTxID): a forged
                                           leaf enters the tree unrelated to the source's chain;
   and, fixed in /repo: (d34d669) session_family_a_before_repair_refuted (the verifier before the
   repair accepted a forged session on ordinary headers) with family_a_rejected (it no longer does);
   (c59ab5b) family_d_rejected (over-long inclusion proofs, VerifyDualProof and VerifyDualProofV2);
   (dd8ca50) dual_proof_v2_same_id_refuted (about the verifier before the repair) with
   dual_proof_v2_same_id_rejected. *)

(* Alh does not commit to NEntries beyond the uint16 cast of innerHash (header version 0). *)
Theorem C01_alh_nentries_truncation_refuted :
  forall (H : bytes -> bytes), exists h h',
    h_nentries h <> h_nentries h' /\ alh H h = alh H h' /\ exists a, alh H h = Ok a.
Proof. exact alh_nentries_truncation_refuted. Qed.
Print Assumptions C01_alh_nentries_truncation_refuted.
