(* C05 — Read-write transactions are serializable in commit order (MVCC).
   This file contains only the property theorems, each closed by `exact`.
   Model: MVCC/Spec.v (committed state), MVCC/Tx.v (OngoingTx and its read-set), MVCC/Validate.v
   (checkPreconditions, precommit, the interleaving machine), MVCC/Serial.v (serial execution,
   the two unprotected read shapes).

   `env s0 c` says that s0 and c are two states of one history, s0 not later than c: both are
   key-ordered, every entry carries a tx id >= 1, the same key written by the same transaction is
   the same entry in both, keys of s0 are still present in c (proved of `state_at l i`,
   `state_at l j`, i <= j, in MVCC/MachineProofs.v env_state_at). *)
From V Require Import MVCC.Spec MVCC.SpecProofs MVCC.Tx MVCC.Validate MVCC.Serial
  MVCC.ViewProofs MVCC.TxProofs MVCC.MachineProofs MVCC.OwnProofs.

(* VALIDATED READS ARE CURRENT, as far as it is true of the code.  For EVERY snapshot state s0,
   EVERY program p (any sequence of point reads with filters incl. not-found, prefix reads with
   exclusion key, sets / transient sets with metadata, deletes, key readers with bounds, direction,
   filters, offsets, any pattern of Read / Reset / early stop, prefix fingerprints) and EVERY
   current state c: if the read-set p produced on s0 passes the commit-time validation against c,
   and the execution is gap-free (no prefix read was answered by an own write other than the prefix
   itself, no reader segment ends on own writes), then p run alone on c returns exactly the same result for every
   operation and writes exactly the same entries. *)
Theorem validated_reads_are_current_partial :
  forall (s0 c : state) (p : list op),
    env s0 c ->
    validate c (t_rs (fst (run s0 p))) = true ->
    gapfree (fst (run s0 p)) = true ->
    serial_obs c p = snd (run s0 p) /\ serial_ws c p = committed_ws (fst (run s0 p)).
Proof. exact validated_reads_are_current_partial_proof. Qed.
Print Assumptions validated_reads_are_current_partial.

(* Without the gap-freedom premise the statement is FALSE of the code as it is.
   Witness 1: ab committed; the transaction sets ac and calls GetWithPrefix(prefix a, neq ab),
   which returns its own ac and records nothing; abz is committed concurrently; validation passes;
   alone on the current state the prefix read returns abz. *)
Theorem validated_reads_are_current_refuted :
  exists (s0 c : state) (p : list op),
    env s0 c /\ validate c (t_rs (fst (run s0 p))) = true /\ serial_obs c p <> snd (run s0 p).
Proof. exact validated_refuted_prefix_proof. Qed.
Print Assumptions validated_reads_are_current_refuted.

(* Witness 2: a committed; the transaction sets c, opens a reader, Read -> a, Read -> c (own) and
   stops; b is committed concurrently; the replay of the expected reads accepts the own-write
   record without looking at where the current reader stands; alone on the current state the
   second Read returns b. *)
Theorem validated_reads_are_current_refuted_reader :
  exists (s0 c : state) (p : list op),
    env s0 c /\ validate c (t_rs (fst (run s0 p))) = true /\ serial_obs c p <> snd (run s0 p).
Proof. exact validated_refuted_reader_proof. Qed.
Print Assumptions validated_reads_are_current_refuted_reader.

(* OWN WRITES VISIBLE.  After ANY program prefix, a Set / SetTransient of k that succeeded is what
   every later point read of k returns (whatever the filters and whatever the snapshot holds for
   k) and what every key reader whose range contains k goes through, until the transaction
   writes k again. *)
Theorem own_writes_visible :
  forall (s0 : state) (pre : list op) (k v : bytes) (del exp tr : bool) (rest : list op) (fs : list filt),
    let tx1 := fst (run s0 pre) in
    snd (exec_op s0 tx1 (OSet k v del exp tr)) = BOk ->
    forallb (fun o => negb (writes_key o k)) rest = true ->
    let tx2 := fst (run_from s0 (fst (exec_op s0 tx1 (OSet k v del exp tr))) rest) in
    snd (exec_op s0 tx2 (OGet k fs)) = BFound (mkE k v 0 del exp) /\
    (forall sp, dsorted false s0 -> in_range sp k = true ->
                In (mkE k v 0 del exp) (scan sp (view s0 (t_ws tx2)))).
Proof. exact own_writes_visible_proof. Qed.
Print Assumptions own_writes_visible.

(* SERIALIZABLE, as far as it is true of the code.  For EVERY initial history l0 and EVERY
   interleaving ss of any number of read-write transaction programs (GBegin with any snapshot not
   in the future, GOp), commits (validation + append in one atomic step), cancels and write-only
   committers: every committed read-write transaction whose execution is gap-free observed
   exactly what its program observes when run alone on the state produced by all transactions
   with smaller ids, and the history holds at its id exactly the entries that serial run writes. *)
Theorem serializable_partial :
  forall (l0 : log) (ss : list gstep) (c : crec),
    In c (g_done (grun (g_init l0) ss)) -> gapfree (c_tx c) = true ->
    let lf := g_log (grun (g_init l0) ss) in
    c_obs c = serial_obs (state_at lf (c_txid c - 1)) (c_prog c) /\
    nth_error lf (N.to_nat (c_txid c - 1)) = Some (serial_ws (state_at lf (c_txid c - 1)) (c_prog c)).
Proof. exact serializable_partial_proof. Qed.
Print Assumptions serializable_partial.

(* Without gap-freedom it is FALSE of the code as it is: in each of the two schedules (the
   witnesses above as interleavings with a write-only committer) the transaction commits as id 3
   and its observations are not those of its program alone after transaction 2. *)
Theorem serializable_refuted :
  forall ss, ss = w2_steps \/ ss = w3_steps ->
    exists c, In c (g_done (grun (g_init []) ss)) /\ c_txid c = 3 /\
              c_obs c <> serial_obs (state_at (g_log (grun (g_init []) ss)) (c_txid c - 1)) (c_prog c).
Proof. exact serializable_refuted_proof. Qed.
Print Assumptions serializable_refuted.

(* CONFLICT LEAVES NO TRACE.  In EVERY machine state, a commit that precommit rejects (read
   conflict, or no entries) changes neither the history nor any state of it nor the committed
   transactions nor any other active transaction: the rejected transaction is simply gone. *)
Theorem conflict_leaves_no_trace :
  forall (g : gstate) (tid : N) (a : atx),
    find_act tid (g_act g) = Some a ->
    decide (last_id (g_log g)) (a_sid a) (state_at (g_log g) (last_id (g_log g))) (a_tx a) <> CCommitted ->
    let g' := fst (gexec g (GCommit tid)) in
    g_log g' = g_log g /\ g_done g' = g_done g /\ g_act g' = remove_act tid (g_act g) /\
    (forall i, state_at (g_log g') i = state_at (g_log g) i).
Proof. exact conflict_leaves_no_trace_proof. Qed.
Print Assumptions conflict_leaves_no_trace.

(* ATOMIC VISIBILITY.  In EVERY machine state, a commit that passes appends exactly one
   transaction, id n+1; every snapshot at or below n is unchanged (sees none of its entries);
   the state at n+1 is the state at n with ALL its entries applied: every key it wrote reads as
   the entry the transaction left for it, every other key as before. *)
Theorem atomic_visibility :
  forall (g : gstate) (tid : N) (a : atx),
    find_act tid (g_act g) = Some a ->
    decide (last_id (g_log g)) (a_sid a) (state_at (g_log g) (last_id (g_log g))) (a_tx a) = CCommitted ->
    let g' := fst (gexec g (GCommit tid)) in
    let n := last_id (g_log g) in
    let ws := committed_ws (a_tx a) in
    g_log g' = g_log g ++ [ws] /\
    (forall i, i <= n -> state_at (g_log g') i = state_at (g_log g) i) /\
    state_at (g_log g') (n + 1) = apply_tx (n + 1) ws (state_at (g_log g) n) /\
    (forall k, lookup k (state_at (g_log g') (n + 1)) =
               match lookup k (apply_tx (n + 1) ws []) with
               | Some e => Some e
               | None => lookup k (state_at (g_log g) n)
               end).
Proof. exact atomic_visibility_proof. Qed.
Print Assumptions atomic_visibility.
