(* C01 — sessions of a verifying client against an ARBITRARY (possibly malicious) server.
   The client keeps one trusted pair (txID, Alh). Every verified call carries a dual proof between
   the trusted pair and the pair being proven: the trusted pair is the SOURCE when the proven
   transaction is at or after it (then the proven pair becomes the new trusted state), the TARGET
   otherwise (pkg/client verifiedGet / VerifiedSet / VerifiedTxByID: `if state.TxId <= vTx`); in both
   cases the new state is the call's target.  In `session` below the trusted pair of a call is, by
   definition, the CLIENT'S state `st` (never a value taken from the response): a client that takes
   e.g. the target hash from the response's TargetTxHeader instead of from its state is outside this
   model — the harness (harness/c01/clientflow.go) detects it with responses from forked databases.
   Session consistency = any two pairs accepted along one session with the same transaction id
   carry the same Alh (hence, by alh_binding, the same header): no fork is ever accepted.
   No proofs in this file. *)
From V Require Export Proofs.Model.

Record call := { c_proof : dual_proof; c_src : N; c_tgt : N; c_salh : bytes; c_talh : bytes }.

Definition verifier := option dual_proof -> N -> N -> bytes -> bytes -> res bool.

Definition accepted (V : verifier) (c : call) : Prop :=
  V (Some (c_proof c)) (c_src c) (c_tgt c) (c_salh c) (c_talh c) = Ok true.

Fixpoint session (V : verifier) (st : N * bytes) (cs : list call) : Prop :=
  match cs with
  | [] => True
  | c :: r =>
      accepted V c /\
      ((c_src c, c_salh c) = st \/ (c_tgt c, c_talh c) = st) /\
      session V (c_tgt c, c_talh c) r
  end.

Definition pairs (cs : list call) : list (N * bytes) :=
  flat_map (fun c => [(c_src c, c_salh c); (c_tgt c, c_talh c)]) cs.

(* the FULL statement of session consistency for a hash H:

     forall st cs, session (V H) st cs ->
     forall id a b, In (id, a) (st :: pairs cs) -> In (id, b) (st :: pairs cs) ->
     a = b \/ Collision H                                                                      *)
(* With respect to well-formed histories (Proofs/Sound.v, Proofs/Fork.v): whenever the OTHER pair of an accepted call
   is a state of a well-formed history, the client's pair is a state of that same history, and two
   well-formed histories that share an accepted call agree up to the client's transaction
   (dual_proof_no_fork) — sessions against servers whose states all come from well-formed histories
   are consistent.

   PROVED against an arbitrary server:
     (U) Proofs/Unique.v — two accepted inclusion (or last inclusion) proofs for the same position
         against ONE unknown root carry the same leaf (proof length = function of (i, j), c59ab5b);
     (T) Proofs/Transport.v consistency_transport — an accepted consistency proof (m, R) -> (n, R')
         carries every leaf provable at position i of (m, R) to one provable at position i of
         (n, R') (consistency proof length pinned, 05f2785);
     and from them the FULL statement above (Proofs/SessionProof.v):
       session_consistency_v2               for verify_dual_proof_v2_call,
       session_consistency_v1_nonlagging    for verify_dual_proof when every header carried by the
                                            session's proofs has BlTxID = ID - 1.
   REFUTED: the statement for verify_dual_proof on headers whose binary linking lags
   (source.BlTxID < target.BlTxID < sourceTxID: Proofs/Refuted.v session_consistency_v1_refuted) —
   there a part of the target's tree is related to the source by nothing at all.  Closed families
   (historical witnesses in Refuted.v): d34d669 (TargetBlTxAlh), c59ab5b (over-long inclusion proofs),
   dd8ca50 (V2 equal ids). *)

(* VerifyDualProofV2 as a verifier of calls (the V2 proof carries the two headers, the inclusion and
   the consistency terms only) *)
Definition dp_to_v2 (p : dual_proof) : dual_proof_v2 :=
  {| d2_src := dp_src p; d2_tgt := dp_tgt p; d2_incl := dp_incl p; d2_cons := dp_cons p |}.
Definition verify_dual_proof_v2_call (H : bytes -> bytes) : verifier :=
  fun p src tgt salh talh => verify_dual_proof_v2 H (option_map dp_to_v2 p) src tgt salh talh.

(* One verified read of transaction v by the client (pkg/client VerifiedTxByID; verifiedGet selects
   source and target in the same way): the trusted (id, hash) comes from the client's state `st`
   (None: no state yet, TxId 0, nothing is verified), the other side's hash is computed from the
   header in the response; the new state is the call's target. Result: Ok (Some st') accepted,
   Ok None rejected (ErrCorruptedData), Panic for a nil header (Go: nil dereference in Alh()).
   The state signature and the comparison of the returned Tx with the proven header (commit
   89a7093) are outside this model. *)
Definition client_step (H : bytes -> bytes) (st : option (N * bytes)) (v : N) (p : dual_proof)
  : res (option (N * bytes)) :=
  let '(sid, shash) := match st with Some x => x | None => (0, zeros32) end in
  match dp_src p, dp_tgt p with
  | Some sh, Some th =>
      do r <- (if sid <=? v then do ta <- alh H th; Ok (sid, shash, v, ta)
               else do sa <- alh H sh; Ok (v, sa, sid, shash));
      let '(s, sa, t, ta) := r in
      do ok <- (if 0 <? sid then verify_dual_proof H (Some p) s t sa ta else Ok true);
      Ok (if ok then Some (t, ta) else None)
  | _, _ => Panic
  end.

Definition session_inconsistent (V : verifier) : Prop :=
  exists st cs id a b,
    session V st cs /\ In (id, a) (st :: pairs cs) /\ In (id, b) (st :: pairs cs) /\ a <> b.
