(* C01 — sessions of a verifying client against an ARBITRARY (possibly malicious) server.
   The client keeps one trusted pair (txID, Alh). Every verified call carries a dual proof between
   the trusted pair and the pair being proven: the trusted pair is the SOURCE when the proven
   transaction is at or after it (then the proven pair becomes the new trusted state), the TARGET
   otherwise (pkg/client verifiedGet / VerifiedSet / VerifiedTxByID: `if state.TxId <= vTx`); in both
   cases the new state is the call's target.  In `session` below the trusted pair of a call is, by
   definition, the CLIENT'S state `st` (never a value taken from the response): a client that takes
   e.g. the target hash from the response's TargetTxHeader instead of from its state is outside this
   model — the harness (harness/c01/clientflow.go) detects it with responses from forked databases.
   Session consistency = any two pairs accepted along one session with the same transaction id
   carry the same Alh (hence, by alh_binding, the same header): no fork is ever accepted.
   No proofs in this file. *)
From V Require Export Proofs.Model.

Record call := { c_proof : dual_proof; c_src : N; c_tgt : N; c_salh : bytes; c_talh : bytes }.

Definition verifier := option dual_proof -> N -> N -> bytes -> bytes -> res bool.

Definition accepted (V : verifier) (c : call) : Prop :=
  V (Some (c_proof c)) (c_src c) (c_tgt c) (c_salh c) (c_talh c) = Ok true.

Fixpoint session (V : verifier) (st : N * bytes) (cs : list call) : Prop :=
  match cs with
  | [] => True
  | c :: r =>
      accepted V c /\
      ((c_src c, c_salh c) = st \/ (c_tgt c, c_talh c) = st) /\
      session V (c_tgt c, c_talh c) r
  end.

Definition pairs (cs : list call) : list (N * bytes) :=
  flat_map (fun c => [(c_src c, c_salh c); (c_tgt c, c_talh c)]) cs.

(* the FULL statement of session consistency for a hash H (refuted for verify_dual_proof — on
   headers with lagging binary linking; before /repo commit d34d669 also on headers as the store
   emits them; see Refuted.v):

     forall st cs, session (V H) st cs ->
     forall id a b, In (id, a) (st :: pairs cs) -> In (id, b) (st :: pairs cs) ->
     a = b \/ Collision H                                                                      *)
(* What IS proved instead (Proofs/Sound.v, Proofs/Fork.v): whenever the OTHER pair of an accepted call
   is a state of a well-formed history, the client's pair is a state of that same history, and two
   well-formed histories that share an accepted call agree up to the client's transaction
   (dual_proof_no_fork) — sessions against servers whose states all come from well-formed histories
   are consistent.

   NOT proved (statements kept here; against an arbitrary server the roots inside the headers are
   not known to be roots of genuine trees, so the soundness theorems of coq/Merkle — all of the form
   "accepted against the root of a genuine tree => ..." — do not apply; what is needed is the
   agreement of two acceptances against ONE unknown root, for VerifyInclusion, VerifyLastInclusion
   and VerifyConsistency together, which has not been developed):
     session_consistency_v1_partial : for verify_dual_proof, the full statement above restricted
       to sessions in which no call has  source.BlTxID < target.BlTxID < sourceTxID  (what every
       header a current server emits satisfies: BlTxID = ID - 1);
     session_consistency_v2 : the full statement above for verify_dual_proof_v2 with sourceTxID <
       targetTxID in every call.                                                                *)
Definition session_inconsistent (V : verifier) : Prop :=
  exists st cs id a b,
    session V st cs /\ In (id, a) (st :: pairs cs) /\ In (id, b) (st :: pairs cs) /\ a <> b.
