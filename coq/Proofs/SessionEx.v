(* C01 — the premises of the session-consistency theorems and of fact (T) are satisfiable: an honest
   non-lagging history of four transactions (SHA-256), a session with a state advance 2 -> 4 and a
   verified read of transaction 1 against the state 4, for both verifiers. *)
From V Require Import Proofs.History Proofs.Gen Proofs.Session Proofs.CompleteFull Proofs.SessionProof
  Proofs.Transport Proofs.HistoryB Merkle.Sound Merkle.VerifyFixed Merkle.Sha256.
Open Scope N_scope.

Definition s_h1 := ex_mk 1 (sha256 []) 0 zeros32 1.
Definition s_a1 := alh_v sha256 s_h1.
Definition s_h2 := ex_mk 2 s_a1 1 (mth sha256 [s_a1]) 1.
Definition s_a2 := alh_v sha256 s_h2.
Definition s_h3 := ex_mk 3 s_a2 2 (mth sha256 [s_a1; s_a2]) 0.
Definition s_a3 := alh_v sha256 s_h3.
Definition s_h4 := ex_mk 4 s_a3 3 (mth sha256 [s_a1; s_a2; s_a3]) 1.
Definition s_a4 := alh_v sha256 s_h4.
Definition s_hist := [s_h1; s_h2; s_h3; s_h4].

Example s_hist_wf : wf_hist sha256 s_hist.
Proof. apply wf_histb_sound. vm_compute. reflexivity. Qed.

Definition of_v2 (p : dual_proof_v2) : dual_proof :=
  {| dp_src := d2_src p; dp_tgt := d2_tgt p; dp_incl := d2_incl p; dp_cons := d2_cons p;
     dp_tblalh := zeros32; dp_last := []; dp_lin := None; dp_lap := None |}.

Definition s_call (p : dual_proof) (s t : N) (sa ta : bytes) : call :=
  {| c_proof := p; c_src := s; c_tgt := t; c_salh := sa; c_talh := ta |}.

Definition s_cs1 : list call :=
  [ s_call (gen_dual_proof_full sha256 s_hist 2 4) 2 4 s_a2 s_a4;
    s_call (gen_dual_proof_full sha256 s_hist 1 4) 1 4 s_a1 s_a4 ].
Definition s_cs2 : list call :=
  [ s_call (of_v2 (gen_dual_proof_v2_full sha256 s_hist 2 4)) 2 4 s_a2 s_a4;
    s_call (of_v2 (gen_dual_proof_v2_full sha256 s_hist 1 4)) 1 4 s_a1 s_a4 ].

Ltac good_hdr := let h := fresh in let E := fresh in
  intros h [E|E]; vm_compute in E; injection E as <-; repeat split; vm_compute; reflexivity.

Example session_v1_premises_sat :
  session (verify_dual_proof sha256) (2, s_a2) s_cs1 /\ Forall good_v1 s_cs1.
Proof.
  split.
  - cbn [session s_cs1]. unfold accepted, s_call. cbn [c_proof c_src c_tgt c_salh c_talh].
    split; [vm_compute; reflexivity|]. split; [left; reflexivity|].
    split; [vm_compute; reflexivity|]. split; [right; reflexivity | exact I].
  - constructor; [|constructor; [|constructor]];
      (split; [good_hdr | repeat split; vm_compute; repeat constructor]).
Qed.

Example session_v2_premises_sat :
  session (verify_dual_proof_v2_call sha256) (2, s_a2) s_cs2 /\ Forall good_v2 s_cs2.
Proof.
  split.
  - cbn [session s_cs2]. unfold accepted, s_call. cbn [c_proof c_src c_tgt c_salh c_talh].
    split; [vm_compute; reflexivity|]. split; [left; reflexivity|].
    split; [vm_compute; reflexivity|]. split; [right; reflexivity | exact I].
  - constructor; [|constructor; [|constructor]];
      (split; [good_hdr | repeat split; vm_compute; repeat constructor]).
Qed.

(* fact (T): the consistency proof 2 -> 3 of the tree and the inclusion proof of leaf 1 in the tree
   of size 2 are both accepted *)
Example transport_premises_sat :
  let L := [s_a1; s_a2; s_a3] in
  verify_consistency_fixed sha256 (gen_cons sha256 s_hist 2 3) 2 3 (mth sha256 [s_a1; s_a2]) (mth sha256 L) = Ok true /\
  verify_inclusion sha256 (honest_inclusion_proof sha256 [s_a1; s_a2] 1) 1 2 (leafh sha256 s_a1) (mth sha256 [s_a1; s_a2]) = true.
Proof. split; vm_compute; reflexivity. Qed.
