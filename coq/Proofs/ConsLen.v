(* C01 — the pinned length of a consistency proof, in terms of the inclusion-proof length at the
   level of its first term:  consistencyProofLen(m, n) = 1 + inclusionProofLen at (fn, sn), where
   (fn, sn) is what the verifier's strip_odd makes of (m-1, n-1).  A pure arithmetic fact, obtained
   from the honest generator over a genuine tree (adapted from coq/Merkle/ConsComplete.v
   cons_honest_path, whose statement hides the honest level path). *)
From V Require Import Merkle.Verify Merkle.Sound Merkle.Honest Merkle.Exact Merkle.RefEq Merkle.Main.
From V Require Import Merkle.AHT Merkle.AHTArith Merkle.AHTSpec Merkle.AHTInv Merkle.AHTIncl Merkle.AHTCons Merkle.ConsPath.
From V Require Import Merkle.ConsComplete Merkle.VerifyFixed Merkle.ConsFixed.
From Coq Require Import Lia Arith ZifyN ZifyNat ZifyBool.
Open Scope N_scope.

Section ConsLen.
Variable H : bytes -> bytes.
Notation mth := (mth H).
Notation th := (th H).
Notation cons_ref := (cons_ref H).

Lemma cons_honest_len (L : list bytes) i j : 1 <= i -> i < j -> j <= lenN L ->
  exists (fn sn : N) (f2 : nat),
    strip_odd (S (N.size_nat (i - 1))) (i - 1) (j - 1) = (fn, sn) /\
    fn <= sn /\ sn < 2 ^ N.of_nat f2 /\
    lenN (cons_ref L (height_of j) i j []) = 1 + incl_len_f f2 fn sn.
Proof.
  intros L1 Li Lj. set (X := firstn (N.to_nat j) L).
  destruct (cons_ref_spath H L (height_of j) i j) as (t & q & steps & pre & post & Ei & Oq & Lo & Eq & P & Lp);
    [rewrite base_top; lia | lia | lia |].
  rewrite base_top in *. rewrite (Eq []), app_nil_r. clear Eq. rewrite slice_0 in P.
  change (mth (slice L (i - 2 ^ N.of_nat t) i)) with (th (mk_tree (slice L (i - 2 ^ N.of_nat t) i))).
  fold X in P.
  assert (LX : length X = N.to_nat j) by (unfold X, lenN in *; rewrite firstn_length; lia).
  assert (NX : X <> []) by (intros E; rewrite E in LX; cbn in LX; lia).
  pose proof (pow2_pos (N.of_nat t)) as PP.
  pose proof (pow_N_nat t) as PN.
  set (PNv := 2 ^ N.of_nat t) in *. set (Pn := (2 ^ t)%nat) in *.
  assert (Q1 : 1 <= q) by (destruct q; [discriminate | lia]).
  set (x := N.to_nat (q - 1)).
  assert (Ein : N.to_nat i = (S x * Pn)%nat).
  { rewrite Ei, Nnat.N2Nat.inj_mul, PN. unfold x. f_equal. lia. }
  assert (Hn : (S x * Pn <= length X)%nat) by lia.
  destruct (upn_node X t x Hn) as (Lx & B1 & B2). fold Pn in B1, B2.
  set (ts := upn t (Exact.lv0 X)) in *.
  assert (L0 : (1 <= length (Exact.lv0 X))%nat) by (unfold Exact.lv0; rewrite map_length; lia).
  destruct (honest_path H (length ts) ts x (le_n _) Lx) as [post' P'].
  unfold ts in P' at 1. rewrite (root_upn t _ L0) in P'.
  change (Exact.lv0 X) with (RefEq.lv0 X) in P' at 1.
  rewrite (level_root_is_reference X NX) in P'.
  set (hs := hsteps (length ts) ts x) in *.
  (* the generator's path IS the level path *)
  assert (LS : length (leaves (mk_tree (slice L (i - PNv) i))) = Pn).
  { rewrite mk_tree_leaves by (apply slice_nonempty; lia).
    pose proof (slice_length L (i - PNv) i ltac:(lia) ltac:(lia)) as SL. unfold lenN in SL. lia. }
  assert (Lpre : length pre = (x * Pn)%nat).
  { unfold lenN in Lp. rewrite Nat.mul_succ_l in Ein. lia. }
  destruct (spath_unique_node H _ _ _ _ _ P _ _ _ _ P') as [Es ES]; [lia | lia |].
  subst steps. rewrite ES in *. clear ES.
  assert (Msnd : map snd (hmap H hs) = hterms H hs).
  { unfold hmap, hterms. rewrite map_map. reflexivity. }
  rewrite Msnd.
  assert (Efn : q - 1 = N.of_nat x) by (unfold x; lia).
  assert (Esn : N.shiftr (j - 1) (N.of_nat t) = N.of_nat (length ts - 1)).
  { unfold ts. rewrite (upn_last t _ L0).
    replace (j - 1) with (N.of_nat (length (Exact.lv0 X) - 1))
      by (unfold Exact.lv0; rewrite map_length; lia).
    apply shiftr_of_nat. }
  assert (Bd : (length ts - 1 < 2 ^ length ts)%nat).
  { pose proof (Nat.pow_gt_lin_r 2 (length ts) ltac:(lia)). lia. }
  exists (q - 1), (N.shiftr (j - 1) (N.of_nat t)), (length ts).
  split.
  { replace (i - 1) with (q * 2 ^ N.of_nat t - 1) by (fold PNv; lia).
    apply (strip_odd_mult t q (j - 1) _ Oq). lia. }
  split; [rewrite Efn, Esn; lia|].
  split.
  { rewrite Esn. rewrite <- (Nnat.Nat2N.id (length ts)) in Bd at 2.
    change 2%nat with (N.to_nat 2) in Bd. rewrite <- Nnat.N2Nat.inj_pow in Bd. lia. }
  unfold lenN. cbn [length]. unfold hterms. rewrite map_length. unfold hs.
  rewrite (hsteps_len (length ts) ts x (length ts) (le_n _) Lx Bd).
  rewrite Efn, Esn, incl_len_of_nat. lia.
Qed.


(* the arithmetic fact, free of any tree *)
Lemma cons_len_incl_len (m n : N) : 1 <= m -> m < n ->
  exists (fn sn : N) (f2 : nat),
    strip_odd (S (N.size_nat (m - 1))) (m - 1) (n - 1) = (fn, sn) /\
    fn <= sn /\ sn < 2 ^ N.of_nat f2 /\
    consistency_proof_len m n = 1 + incl_len_f f2 fn sn.
Proof.
  intros Hm Hmn. set (L := repeat (@nil N) (N.to_nat n)).
  assert (Ll : n <= lenN L) by (unfold lenN, L; rewrite repeat_length; lia).
  destruct (cons_honest_len L m n Hm Hmn Ll) as (fn & sn & f2 & Es & Le & Bd & Len).
  exists fn, sn, f2. repeat split; auto.
  rewrite <- Len. symmetry. apply (consistency_proof_len_spec H).
Qed.

End ConsLen.
