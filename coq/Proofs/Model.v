(* C01 — the proof verifiers of embedded/store/verification.go and the hashing of
   embedded/store/tx.go, transliterated branch by branch over an ABSTRACT hash function H
   (run against Go with Merkle.Sha256.sha256).

     TxHeader.innerHash / Alh          -> inner_bytes / inner_hash / alh
     leafFor                           -> leaf_for            (= Merkle.Tree.leafh)
     advanceLinearHash                 -> advance_linear_hash
     VerifyLinearProof                 -> verify_linear_proof
     VerifyLinearAdvanceProof          -> verify_linear_advance_proof
     VerifyDualProof                   -> verify_dual_proof
     VerifyDualProofV2                 -> verify_dual_proof_v2  (error = Ok false: classes not compared)
     EntrySpecDigest_v0/_v1, TxEntryDigest_v1_1/_v1_2 -> entry_digest_v0 / entry_digest_v1
     store.VerifyInclusion             -> verify_entry_inclusion (= htree_verify_inclusion)

   nil pointers are `None`; Go's [32]byte values are byte lists (32 bytes long in every case the
   harness can produce; the theorems carry the length as a boolean guard). A Go runtime panic
   (innerHash on a header whose Version is neither 0 nor 1) is the outcome Panic.
   ahtree.VerifyConsistency is verify_consistency_fixed of coq/Merkle/VerifyFixed.v (the verifier
   since /repo commit 05f2785: the number of terms must be consistencyProofLen(i, j)).
   No proofs in this file. *)
From V Require Export Merkle.Verify Merkle.VerifyFixed Store.Codec.

Definition zeros32 : bytes := repeat 0 32.
Definition two64 : N := 18446744073709551616.

Section Model.
Variable H : bytes -> bytes.

(* ---------------- TxHeader.innerHash / Alh ---------------- *)
(* the bytes hashed by innerHash for a header of version 0 / of version 1:
     ts(8) ‖ version(2) ‖ nentries(2)                       ‖ eh(32) ‖ blTxID(8) ‖ blRoot(32)
     ts(8) ‖ version(2) ‖ mdLen(2) ‖ md ‖ nentries(4)      ‖ eh(32) ‖ blTxID(8) ‖ blRoot(32)
   uint16()/uint32() conversions truncate (be_enc keeps the low bytes), as in Go. *)
Definition inner_bytes_v (h : txhdr) : bytes :=
  be_enc w_ts (h_ts h) ++ be_enc w_ssz (h_version h) ++
  (if h_version h =? 0 then be_enc w_ssz (h_nentries h)
   else
     let mdbs := opt_md_bytes (h_md h) in
     be_enc w_ssz (len mdbs) ++ mdbs ++ be_enc w_lsz (h_nentries h)) ++
  h_eh h ++ be_enc w_txid (h_bltxid h) ++ h_blroot h.

Definition version_ok (h : txhdr) : bool := (h_version h =? 0) || (h_version h =? 1).

(* `switch hdr.Version { case 0: .. case 1: .. default: panic(..) }` *)
Definition inner_bytes (h : txhdr) : res bytes :=
  if version_ok h then Ok (inner_bytes_v h) else Panic.

Definition inner_hash_v (h : txhdr) : bytes := H (inner_bytes_v h).
Definition inner_hash (h : txhdr) : res bytes := do b <- inner_bytes h; Ok (H b).

(* txID(8) ‖ prevAlh(32) ‖ innerHash(32) *)
Definition alh_bytes (id : N) (prev inner : bytes) : bytes := be_enc w_txid id ++ prev ++ inner.
Definition alh_v (h : txhdr) : bytes := H (alh_bytes (h_id h) (h_prevalh h) (inner_hash_v h)).
Definition alh (h : txhdr) : res bytes :=
  do ih <- inner_hash h; Ok (H (alh_bytes (h_id h) (h_prevalh h) ih)).

(* leafFor: sha256(LeafPrefix ‖ d): the AHT payload of transaction k is the raw Alh_k *)
Definition leaf_for (d : bytes) : bytes := H (0 :: d).

(* advanceLinearHash(alh, txID, term) = sha256(txID ‖ alh ‖ term) *)
Definition advance_linear_hash (a : bytes) (txid : N) (term : bytes) : bytes :=
  H (alh_bytes txid a term).

(* ---------------- VerifyLinearProof ---------------- *)
Record linear_proof := { lp_src : N; lp_tgt : N; lp_terms : list bytes }.

(* for i := 1; i < len(Terms); i++ { c = advanceLinearHash(c, SourceTxID+i, Terms[i]) } *)
Fixpoint lin_fold (terms : list bytes) (txid : N) (c : bytes) : bytes :=
  match terms with
  | [] => c
  | t :: r => lin_fold r (txid + 1) (advance_linear_hash c txid t)
  end.

Definition verify_linear_proof (p : option linear_proof) (src tgt : N) (salh talh : bytes) : bool :=
  match p with
  | None => false
  | Some p =>
    if negb (lp_src p =? src) || negb (lp_tgt p =? tgt) then false else
    match lp_terms p with
    | [] => false
    | t0 :: rest =>
      if (lp_src p =? 0) || (lp_tgt p <? lp_src p) || negb (bytes_eqb salh t0) then false else
      if negb (lenN (lp_terms p) =? tgt - src + 1) then false else
      bytes_eqb talh (lin_fold rest (lp_src p + 1) t0)
    end
  end.

(* ---------------- VerifyLinearAdvanceProof ---------------- *)
Record linear_advance_proof := { lap_terms : list bytes; lap_incls : list (list bytes) }.

(* the loop `for txID := startTxID+1; txID < endTxID; txID++` runs once per inclusion proof (their
   number is checked to be endTxID-startTxID-1 before the loop); the k-th iteration uses
   InclusionProofs[k] and LinearProofTerms[k+1]. `terms` is LinearProofTerms[1:]. A missing term
   (Go: index out of range) cannot happen after the length checks; it is Panic here. *)
Fixpoint lap_loop (incls : list (list bytes)) (terms : list bytes) (txid : N) (c root : bytes) (size : N)
  : res (option bytes) :=
  match incls with
  | [] => Ok (Some c)
  | ip :: incls' =>
    if negb (verify_inclusion H ip txid size (leaf_for c) root) then Ok None else
    match terms with
    | [] => Panic
    | t :: terms' => lap_loop incls' terms' (txid + 1) (advance_linear_hash c (txid + 1) t) root size
    end
  end.

Definition verify_linear_advance_proof (p : option linear_advance_proof)
  (startid endid : N) (endalh root : bytes) (size : N) : res bool :=
  if endid <? startid then Ok false else
  (* endTxID <= startTxID+1, uint64 arithmetic *)
  if endid <=? (startid + 1) mod two64 then Ok true else
  match p with
  | None => Ok false
  | Some p =>
    if negb (lenN (lap_terms p) =? endid - startid) || negb (lenN (lap_incls p) =? endid - startid - 1)
    then Ok false else
    match lap_terms p with
    | [] => Panic                       (* LinearProofTerms[0]; excluded by the length check *)
    | t0 :: rest =>
      do r <- lap_loop (lap_incls p) rest (startid + 1) t0 root size;
      match r with
      | None => Ok false
      | Some c => Ok (bytes_eqb c endalh)
      end
    end
  end.

(* ---------------- VerifyDualProof ---------------- *)
Record dual_proof := {
  dp_src : option txhdr; dp_tgt : option txhdr;
  dp_incl : list bytes; dp_cons : list bytes;
  dp_tblalh : bytes; dp_last : list bytes;
  dp_lin : option linear_proof; dp_lap : option linear_advance_proof }.

(* `repaired` = true: the code as it stands (since /repo commit d34d669: in the branch
   sourceTxID >= TargetTxHeader.BlTxID, when sourceTxID == TargetTxHeader.BlTxID the last leaf of the
   target's tree, TargetBlTxAlh, must be the source's own Alh). `repaired` = false: the verifier
   before that commit, kept only for the historical witness in Proofs/Refuted.v; every theorem of
   Proofs/Sound.v is proved for both. *)
Definition verify_dual_proof_gen (repaired : bool) (p : option dual_proof) (src tgt : N) (salh talh : bytes)
  : res bool :=
  match p with
  | None => Ok false
  | Some p =>
    match dp_src p, dp_tgt p with
    | Some sh, Some th =>
      if negb (h_id sh =? src) || negb (h_id th =? tgt) then Ok false else
      if (h_id sh =? 0) || (h_id th <? h_id sh) then Ok false else
      do csalh <- alh sh;
      if negb (bytes_eqb salh csalh) then Ok false else
      do ctalh <- alh th;
      if negb (bytes_eqb talh ctalh) then Ok false else
      if (src <? h_bltxid th) &&
         negb (verify_inclusion H (dp_incl p) src (h_bltxid th) (leaf_for salh) (h_blroot th))
      then Ok false else
      do c <- (if 0 <? h_bltxid sh
               then verify_consistency_fixed H (dp_cons p) (h_bltxid sh) (h_bltxid th) (h_blroot sh) (h_blroot th)
               else Ok true);
      if negb c then Ok false else
      if (0 <? h_bltxid th) &&
         negb (verify_last_inclusion H (dp_last p) (h_bltxid th) (leaf_for (dp_tblalh p)) (h_blroot th))
      then Ok false else
      if src <? h_bltxid th then
        if negb (verify_linear_proof (dp_lin p) (h_bltxid th) tgt (dp_tblalh p) talh) then Ok false else
        verify_linear_advance_proof (dp_lap p) (h_bltxid sh) src salh (h_blroot th) (h_bltxid th)
      else
        (* if sourceTxID == BlTxID && TargetBlTxAlh != sourceAlh { return false } *)
        if repaired && (src =? h_bltxid th) && negb (bytes_eqb (dp_tblalh p) salh) then Ok false else
        if negb (verify_linear_proof (dp_lin p) src tgt salh talh) then Ok false else
        verify_linear_advance_proof (dp_lap p) (h_bltxid sh) (h_bltxid th) (dp_tblalh p)
                                    (h_blroot th) (h_bltxid th)
    | _, _ => Ok false
    end
  end.

(* VerifyDualProof as it stands in /repo *)
Definition verify_dual_proof := verify_dual_proof_gen true.

(* ---------------- VerifyDualProofV2 ---------------- *)
Record dual_proof_v2 := {
  d2_src : option txhdr; d2_tgt : option txhdr; d2_incl : list bytes; d2_cons : list bytes }.

(* `repaired` = true: the code as it stands (since /repo commit dd8ca50: with sourceTxID ==
   targetTxID both sides must be the very same state); `repaired` = false: the verifier before that
   commit, kept for the historical witness in Proofs/Refuted.v *)
Definition verify_dual_proof_v2_gen (repaired : bool) (p : option dual_proof_v2) (src tgt : N) (salh talh : bytes)
  : res bool :=
  match p with
  | None => Ok false
  | Some p =>
    match d2_src p, d2_tgt p with
    | Some sh, Some th =>
      if (h_id sh =? 0) || negb (h_id sh =? src) || negb (h_id th =? tgt) then Ok false else
      if tgt <? src then Ok false else
      do csalh <- alh sh;
      if negb (bytes_eqb salh csalh) then Ok false else
      do ctalh <- alh th;
      if negb (bytes_eqb talh ctalh) then Ok false else
      (* ID-1 in uint64: the source ID is non-zero here, the target ID is >= the source ID *)
      if negb (h_id sh - 1 =? h_bltxid sh) || negb (h_id th - 1 =? h_bltxid th) then Ok false else
      if src =? tgt then Ok (if repaired then bytes_eqb salh talh else true) else
      if negb (verify_inclusion H (d2_incl p) src (h_bltxid th) (leaf_for salh) (h_blroot th))
      then Ok false else
      if src =? 1 then
        verify_consistency_fixed H (d2_cons p) src (h_bltxid th) (leaf_for salh) (h_blroot th)
      else
        verify_consistency_fixed H (d2_cons p) (h_bltxid sh) (h_bltxid th) (h_blroot sh) (h_blroot th)
    | _, _ => Ok false
    end
  end.

(* VerifyDualProofV2 as it stands in /repo *)
Definition verify_dual_proof_v2 := verify_dual_proof_v2_gen true.

(* ---------------- entry digests and entry inclusion ---------------- *)
(* EntrySpecDigest_v0 / TxEntryDigest_v1_1: sha256(key ‖ hValue); metadata is not hashed *)
Definition entry_digest_v0 (key hval : bytes) : bytes := H (key ++ hval).

(* EntrySpecDigest_v1 / TxEntryDigest_v1_2:
   sha256(uint16(mdLen) ‖ md ‖ uint16(kLen) ‖ key ‖ hValue) *)
Definition entry_digest_v1 (mdbs key hval : bytes) : bytes :=
  H (be_enc w_ssz (len mdbs) ++ mdbs ++ be_enc w_ssz (len key) ++ key ++ hval).

Definition opt_kvmd_bytes (m : option kvmd) : bytes :=
  match m with Some m => kvmd_bytes m | None => [] end.

(* EntrySpecDigestFor(version) applied to an EntrySpec {Key, Metadata, Value} (hValue =
   sha256(Value)); None = ErrUnsupportedTxVersion *)
Definition entry_spec_digest (version : N) (md : option kvmd) (key value : bytes) : option bytes :=
  if version =? 0 then Some (entry_digest_v0 key (H value))
  else if version =? 1 then Some (entry_digest_v1 (opt_kvmd_bytes md) key (H value))
  else None.

(* TxHeader.TxEntryDigest() applied to a TxEntry {md, key, hVal}: TxEntryDigest_v1_1 (header
   version 0) refuses non-empty metadata (ErrMetadataUnsupported), TxEntryDigest_v1_2 hashes it *)
Definition tx_entry_digest (version : N) (md : option kvmd) (key hval : bytes) : res bytes :=
  if version =? 0 then
    if 0 <? len (opt_kvmd_bytes md) then Err EMetadataUnsupported else Ok (entry_digest_v0 key hval)
  else if version =? 1 then Ok (entry_digest_v1 (opt_kvmd_bytes md) key hval)
  else Err EUnsupportedVersion.

(* store.VerifyInclusion(proof, entryDigest, eh) with proof = {Leaf, Width, Terms} or nil *)
Definition verify_entry_inclusion (p : option (Z * Z * list bytes)) (digest eh : bytes) : bool :=
  match p with
  | None => false
  | Some (leaf, width, terms) => htree_verify_inclusion H leaf width terms digest eh
  end.

End Model.
