(* C01 — what the inclusion verifier does guarantee against an UNKNOWN root (a root that need not be
   the root of any genuine tree): two accepted proofs of the SAME LENGTH for the same position carry
   the same leaf.  (Proofs of different lengths do not: Proofs/Refuted.v, family D.) *)
From V Require Import Proofs.History Merkle.Sound.
From Coq Require Import ZifyN ZifyNat ZifyBool.
Open Scope N_scope.

Section Unique.
Variable H : bytes -> bytes.
Hypothesis H_len : forall x, length (H x) = 32%nat.
Notation Collision := (Collision H).

Lemma eval_inclusion_inj : forall (t1 t2 : list bytes) (x y : N) (c1 c2 : bytes),
  length t1 = length t2 -> len32 t1 -> len32 t2 -> length c1 = length c2 ->
  eval_inclusion H t1 x y c1 = eval_inclusion H t2 x y c2 ->
  c1 = c2 \/ Collision.
Proof.
  induction t1 as [|h1 r1 IH]; intros [|h2 r2] x y c1 c2 L F1 F2 Lc E; try discriminate.
  - left. exact E.
  - cbn [eval_inclusion] in E. inversion F1 as [|? ? L1 F1']; subst. inversion F2 as [|? ? L2 F2']; subst.
    simpl in L. injection L as L.
    destruct (N.even x && negb (x =? y)).
    + destruct (IH r2 _ _ _ _ L F1' F2' ltac:(unfold nodeh; rewrite !H_len; reflexivity) E) as [E1|C]; auto.
      destruct (nodeh_inj H c1 h1 c2 h2 Lc E1) as [[-> _]|C]; auto.
    + destruct (IH r2 _ _ _ _ L F1' F2' ltac:(unfold nodeh; rewrite !H_len; reflexivity) E) as [E1|C]; auto.
      destruct (nodeh_inj H h1 c1 h2 c2 ltac:(congruence) E1) as [[_ ->]|C]; auto.
Qed.

Theorem inclusion_unique_same_length (t1 t2 : list bytes) (i j : N) (a b root : bytes) :
  len32 t1 -> len32 t2 -> length t1 = length t2 ->
  verify_inclusion H t1 i j (leafh H a) root = true ->
  verify_inclusion H t2 i j (leafh H b) root = true ->
  a = b \/ Collision.
Proof.
  intros F1 F2 L V1 V2. unfold verify_inclusion in V1, V2.
  destruct ((j <? i) || (i =? 0) || (i <? j) && (lenN t1 =? 0)); [discriminate|].
  destruct ((j <? i) || (i =? 0) || (i <? j) && (lenN t2 =? 0)); [discriminate|].
  destruct (negb (N.shiftr (i - 1) (lenN t1) =? _)); [discriminate|].
  destruct (negb (N.shiftr (i - 1) (lenN t2) =? _)); [discriminate|].
  apply list_eqb_eq in V1. apply list_eqb_eq in V2.
  destruct (eval_inclusion_inj t1 t2 (i - 1) (j - 1) (leafh H a) (leafh H b) L F1 F2) as [E|C]; auto.
  - unfold leafh. rewrite !H_len. reflexivity.
  - congruence.
  - apply (leafh_inj H _ _ E).
Qed.

End Unique.
