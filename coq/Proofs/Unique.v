(* C01 — what the inclusion verifier guarantees against an UNKNOWN root (a root that need not be the
   root of any genuine tree): two accepted proofs for the same position carry the same leaf. Since
   /repo commit c59ab5b the verifier pins the proof length as a function of (i, j), so both proofs
   hash along the same directions (fact (U) of Proofs/Session.v). *)
From V Require Import Proofs.History Proofs.Gen Proofs.Binding Proofs.Linear Proofs.Sound Merkle.Sound.
From Coq Require Import ZifyN ZifyNat ZifyBool.
Open Scope N_scope.

Section Unique.
Variable H : bytes -> bytes.
Hypothesis H_len : forall x, length (H x) = 32%nat.
Notation Collision := (Collision H).

Lemma eval_inclusion_inj : forall (t1 t2 : list bytes) (x y : N) (c1 c2 : bytes),
  length t1 = length t2 -> len32 t1 -> len32 t2 -> length c1 = length c2 ->
  eval_inclusion H t1 x y c1 = eval_inclusion H t2 x y c2 ->
  c1 = c2 \/ Collision.
Proof.
  induction t1 as [|h1 r1 IH]; intros [|h2 r2] x y c1 c2 L F1 F2 Lc E; try discriminate.
  - left. exact E.
  - cbn [eval_inclusion] in E. inversion F1 as [|? ? L1 F1']; subst. inversion F2 as [|? ? L2 F2']; subst.
    simpl in L. injection L as L.
    destruct (N.even x && negb (x =? y)).
    + destruct (IH r2 _ _ _ _ L F1' F2' ltac:(unfold nodeh; rewrite !H_len; reflexivity) E) as [E1|C]; auto.
      destruct (nodeh_inj H c1 h1 c2 h2 Lc E1) as [[-> _]|C]; auto.
    + destruct (IH r2 _ _ _ _ L F1' F2' ltac:(unfold nodeh; rewrite !H_len; reflexivity) E) as [E1|C]; auto.
      destruct (nodeh_inj H h1 c1 h2 c2 ltac:(congruence) E1) as [[_ ->]|C]; auto.
Qed.

Theorem inclusion_unique (t1 t2 : list bytes) (i j : N) (a b root : bytes) :
  len32 t1 -> len32 t2 ->
  verify_inclusion H t1 i j (leafh H a) root = true ->
  verify_inclusion H t2 i j (leafh H b) root = true ->
  a = b \/ Collision.
Proof.
  intros F1 F2 V1 V2. unfold verify_inclusion in V1, V2.
  destruct ((j <? i) || (i =? 0) || (i <? j) && (lenN t1 =? 0)); [discriminate|].
  destruct ((j <? i) || (i =? 0) || (i <? j) && (lenN t2 =? 0)); [discriminate|].
  destruct (N.eqb_spec (lenN t1) (inclusion_proof_len i j)) as [L1|]; [|discriminate].
  destruct (N.eqb_spec (lenN t2) (inclusion_proof_len i j)) as [L2|]; [|discriminate].
  cbn [negb] in V1, V2.
  apply list_eqb_eq in V1. apply list_eqb_eq in V2.
  assert (L : length t1 = length t2) by (unfold lenN in *; lia).
  destruct (eval_inclusion_inj t1 t2 (i - 1) (j - 1) (leafh H a) (leafh H b) L F1 F2) as [E|C]; auto.
  - unfold leafh. rewrite !H_len. reflexivity.
  - congruence.
  - apply (leafh_inj H _ _ E).
Qed.

(* the same for the last-inclusion verifier *)
Lemma eval_last_inj : forall (t1 t2 : list bytes) (c1 c2 : bytes),
  length t1 = length t2 -> len32 t1 -> len32 t2 -> length c1 = length c2 ->
  eval_last_inclusion H t1 c1 = eval_last_inclusion H t2 c2 -> c1 = c2 \/ Collision.
Proof.
  induction t1 as [|h1 r1 IH]; intros [|h2 r2] c1 c2 L F1 F2 Lc E; try discriminate.
  - left. exact E.
  - cbn [eval_last_inclusion] in E. inversion F1 as [|? ? L1 F1']; subst. inversion F2 as [|? ? L2 F2']; subst.
    simpl in L. injection L as L.
    destruct (IH r2 _ _ L F1' F2' ltac:(unfold nodeh; rewrite !H_len; reflexivity) E) as [E1|C]; auto.
    destruct (nodeh_inj H h1 c1 h2 c2 ltac:(congruence) E1) as [[_ ->]|C]; auto.
Qed.

Theorem last_inclusion_unique (t1 t2 : list bytes) (i : N) (a b root : bytes) :
  len32 t1 -> len32 t2 ->
  verify_last_inclusion H t1 i (leafh H a) root = true ->
  verify_last_inclusion H t2 i (leafh H b) root = true ->
  a = b \/ Collision.
Proof.
  intros F1 F2 V1 V2. unfold verify_last_inclusion in V1, V2.
  destruct (i =? 0); [discriminate|]. cbn [orb] in V1, V2.
  destruct (N.eqb_spec (lenN t1) (inclusion_proof_len i i)) as [L1|]; [|discriminate].
  destruct (N.eqb_spec (lenN t2) (inclusion_proof_len i i)) as [L2|]; [|discriminate].
  cbn [negb] in V1, V2. apply list_eqb_eq in V1. apply list_eqb_eq in V2.
  assert (L : length t1 = length t2) by (unfold lenN in *; lia).
  destruct (eval_last_inj t1 t2 (leafh H a) (leafh H b) L F1 F2) as [E|C]; auto.
  - unfold leafh. rewrite !H_len. reflexivity.
  - congruence.
  - apply (leafh_inj H _ _ E).
Qed.


(* ---------- linear proofs: the chain is determined by its end ---------- *)
Lemma lin_fold_inj : forall (r1 r2 : list bytes) (s : N) (a b : bytes),
  length r1 = length r2 -> length a = length b ->
  lin_fold H r1 s a = lin_fold H r2 s b -> a = b \/ Collision.
Proof.
  induction r1 as [|t1 r1 IH]; intros [|t2 r2] s a b L La E; try discriminate.
  - left. exact E.
  - cbn [lin_fold] in E. simpl in L. injection L as L.
    destruct (IH r2 (s + 1) _ _ L ltac:(unfold advance_linear_hash; rewrite !H_len; reflexivity) E) as [E1|C]; auto.
    unfold advance_linear_hash in E1. destruct (H_inj H _ _ E1) as [E2|C]; auto.
    unfold alh_bytes in E2. apply app_inv_head in E2. apply app_inj_len in E2 as [-> _]; auto.
Qed.

Lemma verify_linear_proof_inv p src tgt salh talh :
  verify_linear_proof H p src tgt salh talh = true ->
  exists rest, lenN rest = tgt - src /\ src <= tgt /\ talh = lin_fold H rest (src + 1) salh.
Proof.
  unfold verify_linear_proof. destruct p as [p|]; [|discriminate].
  destruct (N.eqb_spec (lp_src p) src) as [Es|]; [|discriminate].
  destruct (N.eqb_spec (lp_tgt p) tgt) as [Et|]; [|discriminate]. cbn [negb orb].
  destruct (lp_terms p) as [|t0 rest]; [discriminate|].
  destruct (N.eqb_spec (lp_src p) 0); [discriminate|].
  destruct (N.ltb_spec (lp_tgt p) (lp_src p)); [discriminate|]. cbn [orb].
  destruct (bytes_eqb salh t0) eqn:E0; [|discriminate]. cbn [negb]. apply list_eqb_eq in E0. subst t0.
  destruct (N.eqb_spec (lenN (salh :: rest)) (tgt - src + 1)) as [El|]; [|discriminate]. cbn [negb].
  intros V. apply list_eqb_eq in V. exists rest. rewrite lenN_cons in El. rewrite Es in V.
  repeat split; auto; lia.
Qed.

(* READ-READ consistency against an ARBITRARY server (VerifyDualProof as it stands): two accepted
   proofs for the same source id against ONE target state (tgt, talh) carry the same source Alh —
   whatever headers, roots and terms the server sends. *)
Theorem dual_proof_same_target_unique p1 p2 src tgt a b talh t1 t2 :
  dp_tgt p1 = Some t1 -> dp_tgt p2 = Some t2 -> hdr_valid t1 = true -> hdr_valid t2 = true ->
  len32 (dp_incl p1) -> len32 (dp_incl p2) ->
  verify_dual_proof H (Some p1) src tgt a talh = Ok true ->
  verify_dual_proof H (Some p2) src tgt b talh = Ok true ->
  a = b \/ Collision.
Proof.
  intros T1 T2 V1 V2 F1 F2 A1 A2. unfold verify_dual_proof in A1, A2.
  apply (verify_dual_proof_gen_inv H H_len) in A1 as (s1 & t1' & _ & T1' & _ & _ & _ & _ & Ea1 & Eb1 & Ci1 & Cl1 & _).
  apply (verify_dual_proof_gen_inv H H_len) in A2 as (s2 & t2' & _ & T2' & _ & _ & _ & _ & Ea2 & Eb2 & Ci2 & Cl2 & _).
  rewrite T1 in T1'. rewrite T2 in T2'. injection T1' as <-. injection T2' as <-.
  apply alh_ok in Ea1 as [Ea1 _]. apply alh_ok in Ea2 as [Ea2 _].
  apply alh_ok in Eb1 as [Eb1 _]. apply alh_ok in Eb2 as [Eb2 _].
  destruct (alh_binding H H_len t1 t2 V1 V2 ltac:(congruence)) as [Ef|C]; auto.
  assert (EB : h_bltxid t1 = h_bltxid t2) by (unfold hashed_fields in Ef; congruence).
  assert (ER : h_blroot t1 = h_blroot t2) by (unfold hashed_fields in Ef; congruence).
  destruct (N.lt_ge_cases src (h_bltxid t1)) as [Lt|Ge].
  - destruct (Ci1 Lt) as [I1 _]. destruct (Ci2 ltac:(lia)) as [I2 _].
    rewrite <- EB, <- ER in I2. unfold leaf_for in I1, I2.
    apply (inclusion_unique _ _ _ _ _ _ _ F1 F2 I1 I2).
  - specialize (Cl1 Ge). specialize (Cl2 ltac:(lia)).
    apply verify_linear_proof_inv in Cl1 as (r1 & L1 & _ & E1).
    apply verify_linear_proof_inv in Cl2 as (r2 & L2 & _ & E2).
    apply (lin_fold_inj r1 r2 (src + 1) a b).
    + unfold lenN in *. lia.
    + rewrite Ea1, Ea2. unfold alh_v. rewrite !H_len. reflexivity.
    + congruence.
Qed.

(* the same for VerifyDualProofV2 *)
Theorem dual_proof_v2_same_target_unique p1 p2 src tgt a b talh t1 t2 :
  d2_tgt p1 = Some t1 -> d2_tgt p2 = Some t2 -> hdr_valid t1 = true -> hdr_valid t2 = true ->
  len32 (d2_incl p1) -> len32 (d2_incl p2) ->
  verify_dual_proof_v2 H (Some p1) src tgt a talh = Ok true ->
  verify_dual_proof_v2 H (Some p2) src tgt b talh = Ok true ->
  a = b \/ Collision.
Proof.
  intros T1 T2 V1 V2 F1 F2 A1 A2.
  apply (verify_dual_proof_v2_inv H H_len) in A1 as (s1 & t1' & _ & T1' & _ & _ & _ & _ & _ & Eb1 & _ & B1 & Ceq1 & Clt1).
  apply (verify_dual_proof_v2_inv H H_len) in A2 as (s2 & t2' & _ & T2' & _ & _ & _ & Le & _ & Eb2 & _ & B2 & Ceq2 & Clt2).
  rewrite T1 in T1'. rewrite T2 in T2'. injection T1' as <-. injection T2' as <-.
  destruct (N.eq_dec src tgt) as [E|Ne].
  - left. rewrite (Ceq1 E), (Ceq2 E). reflexivity.
  - destruct (Clt1 ltac:(lia)) as [I1 _]. destruct (Clt2 ltac:(lia)) as [I2 _].
    apply alh_ok in Eb1 as [Eb1 _]. apply alh_ok in Eb2 as [Eb2 _].
    destruct (alh_binding H H_len t1 t2 V1 V2 ltac:(congruence)) as [Ef|C]; auto.
    assert (ER : h_blroot t1 = h_blroot t2) by (unfold hashed_fields in Ef; congruence).
    rewrite <- ER in I2. unfold leaf_for in I1, I2.
    apply (inclusion_unique _ _ _ _ _ _ _ F1 F2 I1 I2).
Qed.

End Unique.
