(* C01 — tamper evidence: soundness of VerifyDualProof / VerifyDualProofV2 / entry inclusion with
   respect to a well-formed history whose state (targetTxID, targetAlh) the verifier trusts. *)
From V Require Import Proofs.History Proofs.Gen Proofs.Binding Proofs.Linear Merkle.Sound.
From Coq Require Import ZifyN ZifyNat ZifyBool.

Lemma In_takeN {A} (l : list A) : forall n x, In x (takeN n l) -> In x l.
Proof.
  induction l as [|y l IH]; intros n x; cbn [takeN]; auto.
  destruct (n =? 0); [intros []|]. intros [->|Hin]; [left; auto | right; eauto].
Qed.

Lemma takeN_nonempty {A} (l : list A) n : n <> 0 -> l <> [] -> takeN n l <> [].
Proof.
  intros Hn Hl. destruct l as [|x l]; [congruence|]. cbn [takeN].
  destruct (N.eqb_spec n 0); [contradiction | discriminate].
Qed.

Lemma tx_at_range hs k h : tx_at hs k = Some h -> 1 <= k <= lenN hs.
Proof.
  unfold tx_at, lenN. destruct (N.eqb_spec k 0); [discriminate|]. intros E.
  assert (N.to_nat (k - 1) < length hs)%nat by (apply nth_error_Some; congruence). lia.
Qed.

Lemma tx_at_hd_at hs k : 1 <= k <= lenN hs -> tx_at hs k = Some (hd_at hs k).
Proof.
  unfold tx_at, hd_at, lenN. intros Hk. destruct (N.eqb_spec k 0); [lia|].
  apply nth_error_nth'. lia.
Qed.

Lemma nth_error_tx_at hs i h : nth_error hs i = Some h -> tx_at hs (N.of_nat i + 1) = Some h.
Proof.
  intros E. unfold tx_at. destruct (N.eqb_spec (N.of_nat i + 1) 0); [lia|].
  replace (N.to_nat (N.of_nat i + 1 - 1)) with i by lia. exact E.
Qed.

Section Sound.
Variable H : bytes -> bytes.
Hypothesis H_len : forall x, length (H x) = 32%nat.
Notation Collision := (Collision H).

(* the linear chain of a well-formed history *)
Lemma hist_chain hs : wf_hist H hs -> forall lo hi, 1 <= lo -> hi <= lenN hs ->
  is_chain H (fun k => alh_v H (hd_at hs k)) (fun k => inner_hash_v H (hd_at hs k)) lo hi.
Proof.
  intros W lo hi Hlo Hhi. split; intros k Hk.
  - apply H_len.
  - assert (T1 : tx_at hs k = Some (hd_at hs k)) by (apply tx_at_hd_at; lia).
    assert (T2 : tx_at hs (k + 1) = Some (hd_at hs (k + 1))) by (apply tx_at_hd_at; lia).
    pose proof (wf_prev H hs W _ _ _ T1 T2) as P.
    pose proof (wf_id H hs W _ _ T2) as I.
    unfold alh_v at 1. rewrite P, I. reflexivity.
Qed.

(* what an accepted dual proof has checked *)
Lemma verify_dual_proof_gen_inv repaired p src tgt salh talh :
  verify_dual_proof_gen H repaired (Some p) src tgt salh talh = Ok true ->
  exists sh th,
    dp_src p = Some sh /\ dp_tgt p = Some th /\ h_id sh = src /\ h_id th = tgt /\
    src <> 0 /\ src <= tgt /\ alh H sh = Ok salh /\ alh H th = Ok talh /\
    (src < h_bltxid th ->
       verify_inclusion H (dp_incl p) src (h_bltxid th) (leaf_for H salh) (h_blroot th) = true /\
       verify_linear_proof H (dp_lin p) (h_bltxid th) tgt (dp_tblalh p) talh = true) /\
    (h_bltxid th <= src -> verify_linear_proof H (dp_lin p) src tgt salh talh = true) /\
    (0 < h_bltxid sh ->
       verify_consistency_fixed H (dp_cons p) (h_bltxid sh) (h_bltxid th) (h_blroot sh) (h_blroot th) = Ok true) /\
    (0 < h_bltxid th ->
       verify_last_inclusion H (dp_last p) (h_bltxid th) (leaf_for H (dp_tblalh p)) (h_blroot th) = true).
Proof.
  intros V. unfold verify_dual_proof_gen in V.
  destruct (dp_src p) as [sh|]; [|discriminate].
  destruct (dp_tgt p) as [th|]; [|discriminate].
  destruct (N.eqb_spec (h_id sh) src) as [Is|]; [|discriminate].
  destruct (N.eqb_spec (h_id th) tgt) as [It|]; [|discriminate].
  cbn [negb orb] in V.
  destruct (N.eqb_spec (h_id sh) 0) as [|S0]; [discriminate|].
  destruct (N.ltb_spec (h_id th) (h_id sh)) as [|Le]; [discriminate|].
  cbn [orb] in V.
  destruct (alh H sh) as [a| |] eqn:Ea; cbn [bind] in V; try discriminate.
  destruct (bytes_eqb salh a) eqn:Eqa; cbn [negb] in V; [|discriminate].
  apply list_eqb_eq in Eqa. subst a.
  destruct (alh H th) as [b| |] eqn:Eb; cbn [bind] in V; try discriminate.
  destruct (bytes_eqb talh b) eqn:Eqb; cbn [negb] in V; [|discriminate].
  apply list_eqb_eq in Eqb. subst b.
  exists sh, th.
  destruct (N.ltb_spec src (h_bltxid th)) as [Lt|Ge]; cbn [andb] in V.
  - destruct (verify_inclusion H (dp_incl p) src (h_bltxid th) (leaf_for H salh) (h_blroot th)) eqn:Vi;
      cbn [negb] in V; [|discriminate].
    destruct (N.ltb_spec 0 (h_bltxid sh)) as [Ps|Zs].
    + destruct (verify_consistency_fixed H (dp_cons p) (h_bltxid sh) (h_bltxid th) (h_blroot sh) (h_blroot th))
        as [[|]| |] eqn:Vc; cbn [bind negb] in V; try discriminate.
      destruct (N.ltb_spec 0 (h_bltxid th)) as [Pt|Zt]; cbn [andb] in V; [|lia].
      destruct (verify_last_inclusion H (dp_last p) (h_bltxid th) (leaf_for H (dp_tblalh p)) (h_blroot th)) eqn:Vl;
        cbn [negb] in V; [|discriminate].
      destruct (verify_linear_proof H (dp_lin p) (h_bltxid th) tgt (dp_tblalh p) talh) eqn:Vlin;
        cbn [negb] in V; [|discriminate].
      repeat split; auto; try lia; intros; lia.
    + cbn [bind negb] in V.
      destruct (N.ltb_spec 0 (h_bltxid th)) as [Pt|Zt]; cbn [andb] in V; [|lia].
      destruct (verify_last_inclusion H (dp_last p) (h_bltxid th) (leaf_for H (dp_tblalh p)) (h_blroot th)) eqn:Vl;
        cbn [negb] in V; [|discriminate].
      destruct (verify_linear_proof H (dp_lin p) (h_bltxid th) tgt (dp_tblalh p) talh) eqn:Vlin;
        cbn [negb] in V; [|discriminate].
      repeat split; auto; try lia; intros; lia.
  - destruct (N.ltb_spec 0 (h_bltxid sh)) as [Ps|Zs].
    + destruct (verify_consistency_fixed H (dp_cons p) (h_bltxid sh) (h_bltxid th) (h_blroot sh) (h_blroot th))
        as [[|]| |] eqn:Vc; cbn [bind negb] in V; try discriminate.
      destruct (N.ltb_spec 0 (h_bltxid th)) as [Pt|Zt]; cbn [andb] in V.
      * destruct (verify_last_inclusion H (dp_last p) (h_bltxid th) (leaf_for H (dp_tblalh p)) (h_blroot th)) eqn:Vl;
          cbn [negb] in V; [|discriminate].
        destruct (repaired && (src =? h_bltxid th) && negb (bytes_eqb (dp_tblalh p) salh)); [discriminate|].
        destruct (verify_linear_proof H (dp_lin p) src tgt salh talh) eqn:Vlin;
          cbn [negb] in V; [|discriminate].
        repeat split; auto; try lia; intros; lia.
      * destruct (repaired && (src =? h_bltxid th) && negb (bytes_eqb (dp_tblalh p) salh)); [discriminate|].
        destruct (verify_linear_proof H (dp_lin p) src tgt salh talh) eqn:Vlin;
          cbn [negb] in V; [|discriminate].
        repeat split; auto; try lia; intros; lia.
    + cbn [bind negb] in V.
      destruct (N.ltb_spec 0 (h_bltxid th)) as [Pt|Zt]; cbn [andb] in V.
      * destruct (verify_last_inclusion H (dp_last p) (h_bltxid th) (leaf_for H (dp_tblalh p)) (h_blroot th)) eqn:Vl;
          cbn [negb] in V; [|discriminate].
        destruct (repaired && (src =? h_bltxid th) && negb (bytes_eqb (dp_tblalh p) salh)); [discriminate|].
        destruct (verify_linear_proof H (dp_lin p) src tgt salh talh) eqn:Vlin;
          cbn [negb] in V; [|discriminate].
        repeat split; auto; try lia; intros; lia.
      * destruct (repaired && (src =? h_bltxid th) && negb (bytes_eqb (dp_tblalh p) salh)); [discriminate|].
        destruct (verify_linear_proof H (dp_lin p) src tgt salh talh) eqn:Vlin;
          cbn [negb] in V; [|discriminate].
        repeat split; auto; try lia; intros; lia.
Qed.

(* an Alh value that is a leaf of the genuine tree below a genuine header, and that is the Alh of a
   header carrying ID = src, is the Alh of the history's transaction src *)
Lemma incl_pins_source hs sh tg terms src salh :
  wf_hist H hs ->
  hdr_valid sh = true -> h_id sh = src -> alh_v H sh = salh ->
  (exists k, tx_at hs k = Some tg) ->
  0 < h_bltxid tg ->
  len32 terms ->
  verify_inclusion H terms src (h_bltxid tg) (leaf_for H salh) (h_blroot tg) = true ->
  (exists g, tx_at hs src = Some g /\ hashed_fields sh = hashed_fields g /\ salh = alh_v H g) \/ Collision.
Proof.
  intros W Vs Is Ea [kt Tt] Lt F Vi.
  destruct (wf_bl H hs W _ _ Tt) as [Bk Br].
  unfold bl_root in Br. destruct (N.eqb_spec (h_bltxid tg) 0) as [|B0]; [lia|].
  pose proof (tx_at_range _ _ _ Tt) as Rk.
  assert (Hne : alhs H (takeN (h_bltxid tg) hs) <> []).
  { unfold alhs. intros E. apply map_eq_nil in E. revert E. apply takeN_nonempty; auto.
    intros ->. unfold lenN in Rk. simpl in Rk. lia. }
  rewrite Br in Vi. unfold mth in Vi.
  destruct (inclusion_sound_membership H H_len _ terms src (h_bltxid tg) salh F Vi) as [Hin|C]; auto.
  rewrite (mk_tree_leaves _ Hne) in Hin. unfold alhs in Hin.
  apply in_map_iff in Hin as (g & Eg & Hg). apply In_takeN in Hg.
  apply In_nth_error in Hg as [i Hi]. apply nth_error_tx_at in Hi.
  pose proof (wf_valid H hs W _ _ Hi) as Vg.
  pose proof (wf_id H hs W _ _ Hi) as Ig.
  destruct (alh_binding H H_len sh g Vs Vg) as [Ef|C]; auto; [congruence|].
  left. exists g. split; auto.
  assert (h_id sh = h_id g) by (unfold hashed_fields in Ef; congruence).
  replace src with (N.of_nat i + 1) by congruence. exact Hi.
Qed.

(* TAMPER EVIDENCE, VerifyDualProof: the trusted side is the target (a state of the history) *)
Theorem dual_proof_gen_sound_wrt_history repaired hs p src tgt salh sh th tg :
  wf_hist H hs ->
  tx_at hs tgt = Some tg ->
  dp_src p = Some sh -> dp_tgt p = Some th -> hdr_valid sh = true -> hdr_valid th = true ->
  len32 (dp_incl p) ->
  verify_dual_proof_gen H repaired (Some p) src tgt salh (alh_v H tg) = Ok true ->
  (exists g, tx_at hs src = Some g /\ hashed_fields sh = hashed_fields g /\ salh = alh_v H g) \/ Collision.
Proof.
  intros W Tt Ps Pt Vs Vt F V.
  apply verify_dual_proof_gen_inv in V
    as (sh' & th' & Ps' & Pt' & Is & It & S0 & Le & Ea & Eb & Cincl & Clin & _ & _).
  rewrite Ps in Ps'. rewrite Pt in Pt'. injection Ps' as <-. injection Pt' as <-.
  apply alh_ok in Ea as [Ea _]. apply alh_ok in Eb as [Eb _].
  pose proof (wf_valid H hs W _ _ Tt) as Vg.
  destruct (alh_binding H H_len th tg Vt Vg (eq_sym Eb)) as [Ef|C]; auto.
  assert (EB : h_bltxid th = h_bltxid tg) by (unfold hashed_fields in Ef; congruence).
  assert (ER : h_blroot th = h_blroot tg) by (unfold hashed_fields in Ef; congruence).
  pose proof (tx_at_range _ _ _ Tt) as Rt.
  destruct (N.lt_ge_cases src (h_bltxid th)) as [Lt|Ge].
  - destruct (Cincl Lt) as [Vi _]. rewrite EB, ER in Vi.
    apply (incl_pins_source hs sh tg (dp_incl p) src salh); eauto. lia.
  - specialize (Clin Ge).
    assert (Ch := hist_chain hs W src tgt ltac:(lia) ltac:(lia)).
    assert (Ls : length salh = 32%nat) by (rewrite Ea; apply H_len).
    destruct (linear_proof_sound H H_len _ _ _ src tgt salh (alh_v H tg) Ch Ls Clin) as [E|C]; auto.
    { pose proof (tx_at_hd_at hs tgt Rt) as T. rewrite Tt in T. injection T as <-. reflexivity. }
    assert (Ts : tx_at hs src = Some (hd_at hs src)) by (apply tx_at_hd_at; lia).
    pose proof (wf_valid H hs W _ _ Ts) as Vg'.
    destruct (alh_binding H H_len sh (hd_at hs src) Vs Vg') as [Ef'|C]; auto; [congruence|].
    left. exists (hd_at hs src). auto.
Qed.


Theorem dual_proof_sound_wrt_history hs p src tgt salh sh th tg :
  wf_hist H hs ->
  tx_at hs tgt = Some tg ->
  dp_src p = Some sh -> dp_tgt p = Some th -> hdr_valid sh = true -> hdr_valid th = true ->
  len32 (dp_incl p) ->
  verify_dual_proof H (Some p) src tgt salh (alh_v H tg) = Ok true ->
  (exists g, tx_at hs src = Some g /\ hashed_fields sh = hashed_fields g /\ salh = alh_v H g) \/ Collision.
Proof. unfold verify_dual_proof. apply dual_proof_gen_sound_wrt_history. Qed.

(* what an accepted V2 proof has checked *)
Lemma verify_dual_proof_v2_inv p src tgt salh talh :
  verify_dual_proof_v2 H (Some p) src tgt salh talh = Ok true ->
  exists sh th,
    d2_src p = Some sh /\ d2_tgt p = Some th /\ h_id sh = src /\ h_id th = tgt /\
    src <> 0 /\ src <= tgt /\ alh H sh = Ok salh /\ alh H th = Ok talh /\
    h_bltxid sh = src - 1 /\ h_bltxid th = tgt - 1 /\
    (src = tgt -> salh = talh) /\
    (src < tgt ->
       verify_inclusion H (d2_incl p) src (tgt - 1) (leaf_for H salh) (h_blroot th) = true /\
       (if src =? 1
        then verify_consistency_fixed H (d2_cons p) src (tgt - 1) (leaf_for H salh) (h_blroot th)
        else verify_consistency_fixed H (d2_cons p) (src - 1) (tgt - 1) (h_blroot sh) (h_blroot th)) = Ok true).
Proof.
  intros V. unfold verify_dual_proof_v2, verify_dual_proof_v2_gen in V.
  destruct (d2_src p) as [sh|]; [|discriminate].
  destruct (d2_tgt p) as [th|]; [|discriminate].
  destruct (N.eqb_spec (h_id sh) 0) as [|S0]; [discriminate|].
  destruct (N.eqb_spec (h_id sh) src) as [Is|]; [|discriminate].
  destruct (N.eqb_spec (h_id th) tgt) as [It|]; [|discriminate].
  cbn [negb orb] in V.
  destruct (N.ltb_spec tgt src) as [|Le]; [discriminate|].
  destruct (alh H sh) as [a| |] eqn:Ea; cbn [bind] in V; try discriminate.
  destruct (bytes_eqb salh a) eqn:Eqa; cbn [negb] in V; [|discriminate].
  apply list_eqb_eq in Eqa. subst a.
  destruct (alh H th) as [b| |] eqn:Eb; cbn [bind] in V; try discriminate.
  destruct (bytes_eqb talh b) eqn:Eqb; cbn [negb] in V; [|discriminate].
  apply list_eqb_eq in Eqb. subst b.
  destruct (N.eqb_spec (h_id sh - 1) (h_bltxid sh)) as [L1|]; [|discriminate].
  destruct (N.eqb_spec (h_id th - 1) (h_bltxid th)) as [L2|]; [|discriminate].
  cbn [negb orb] in V.
  exists sh, th. rewrite <- L2, It in V.
  destruct (N.eqb_spec src tgt) as [E|Ne].
  - injection V as V. apply list_eqb_eq in V.
    repeat split; auto; try lia; intros; lia.
  - destruct (verify_inclusion H (d2_incl p) src (tgt - 1) (leaf_for H salh) (h_blroot th)) eqn:Vi;
      cbn [negb] in V; [|discriminate].
    rewrite <- L1, Is in V.
    repeat split; auto; try lia; intros; lia.
Qed.

(* TAMPER EVIDENCE, VerifyDualProofV2 *)
Theorem dual_proof_v2_sound_wrt_history hs p src tgt salh sh th tg :
  wf_hist H hs ->
  tx_at hs tgt = Some tg ->
  d2_src p = Some sh -> d2_tgt p = Some th -> hdr_valid sh = true -> hdr_valid th = true ->
  len32 (d2_incl p) ->
  verify_dual_proof_v2 H (Some p) src tgt salh (alh_v H tg) = Ok true ->
  (exists g, tx_at hs src = Some g /\ hashed_fields sh = hashed_fields g /\ salh = alh_v H g) \/ Collision.
Proof.
  intros W Tt Ps Pt Vs Vt F V.
  apply verify_dual_proof_v2_inv in V
    as (sh' & th' & Ps' & Pt' & Is & It & S0 & Le & Ea & Eb & Bs & Bt & Ceq & Clt).
  rewrite Ps in Ps'. rewrite Pt in Pt'. injection Ps' as <-. injection Pt' as <-.
  apply alh_ok in Ea as [Ea _]. apply alh_ok in Eb as [Eb _].
  pose proof (wf_valid H hs W _ _ Tt) as Vg.
  destruct (N.eq_dec src tgt) as [E|Ne].
  - specialize (Ceq E). subst tgt.
    destruct (alh_binding H H_len sh tg Vs Vg ltac:(congruence)) as [Ef|C]; auto.
    left. exists tg. rewrite E. auto.
  - destruct (Clt ltac:(lia)) as [Vi _].
    destruct (alh_binding H H_len th tg Vt Vg (eq_sym Eb)) as [Ef|C]; auto.
    assert (EB : h_bltxid th = h_bltxid tg) by (unfold hashed_fields in Ef; congruence).
    assert (ER : h_blroot th = h_blroot tg) by (unfold hashed_fields in Ef; congruence).
    rewrite ER in Vi. rewrite <- Bt, EB in Vi.
    apply (incl_pins_source hs sh tg (d2_incl p) src salh); eauto. lia.
Qed.

(* with the header pinned, an accepted entry inclusion proof against its Eh pins the entry as SOME
   entry of that transaction *)
Theorem verified_entry_sound (v : N) (es : list entry) (sh g : txhdr) (e' : entry)
        (leaf width : Z) (terms : list bytes) :
  es <> [] -> Forall (fun e => entry_valid e = true) es -> entry_valid e' = true ->
  h_eh g = eh_of H v es ->
  hashed_fields sh = hashed_fields g ->
  len32 terms ->
  verify_entry_inclusion H (Some (leaf, width, terms)) (entry_digest H v e') (h_eh sh) = true ->
  (exists e, In e es /\ entry_fields v e' = entry_fields v e) \/ Collision.
Proof.
  intros Hne Fv V' Eh Ef F V. cbn [verify_entry_inclusion] in V.
  assert (E : h_eh sh = h_eh g) by (unfold hashed_fields in Ef; congruence).
  rewrite E, Eh in V. unfold eh_of, mth in V.
  destruct (htree_inclusion_sound_membership H H_len _ leaf width terms _ F V) as [Hin|C]; auto.
  rewrite mk_tree_leaves in Hin by (intros M; apply map_eq_nil in M; auto).
  apply in_map_iff in Hin as (e & Ee & He).
  rewrite Forall_forall in Fv.
  destruct (entry_digest_binding H H_len v e' e V' (Fv _ He) (eq_sym Ee)) as [Eq|C]; auto.
  left. exists e. auto.
Qed.

(* verified read, end to end: trusted state = a state of the history at or after the proven
   transaction; accepted dual proof + accepted entry inclusion against the proven header's Eh
   => the entry (key, metadata bytes, value hash) is an entry of the history's transaction src *)
Theorem verified_read_sound hs (ents : N -> list entry) p src tgt salh sh th tg (e' : entry)
        (leaf width : Z) (terms : list bytes) :
  wf_hist H hs ->
  (forall k g, tx_at hs k = Some g ->
     ents k <> [] /\ Forall (fun e => entry_valid e = true) (ents k) /\
     h_eh g = eh_of H (h_version g) (ents k)) ->
  tx_at hs tgt = Some tg ->
  dp_src p = Some sh -> dp_tgt p = Some th -> hdr_valid sh = true -> hdr_valid th = true ->
  len32 (dp_incl p) -> len32 terms -> entry_valid e' = true ->
  verify_dual_proof H (Some p) src tgt salh (alh_v H tg) = Ok true ->
  verify_entry_inclusion H (Some (leaf, width, terms)) (entry_digest H (h_version sh) e') (h_eh sh) = true ->
  (exists g e, tx_at hs src = Some g /\ hashed_fields sh = hashed_fields g /\
               In e (ents src) /\ entry_fields (h_version sh) e' = entry_fields (h_version sh) e)
  \/ Collision.
Proof.
  intros W He Tt Ps Pt Vs Vt F Ft Ve V Vi.
  destruct (dual_proof_sound_wrt_history hs p src tgt salh sh th tg W Tt Ps Pt Vs Vt F V)
    as [(g & Tg & Ef & _)|C]; auto.
  destruct (He _ _ Tg) as (Hne & Fv & Eh).
  assert (Ev : h_version sh = h_version g) by (unfold hashed_fields in Ef; congruence).
  rewrite <- Ev in Eh.
  destruct (verified_entry_sound (h_version sh) (ents src) sh g e' leaf width terms Hne Fv Ve Eh Ef Ft Vi)
    as [(e & Hin & Ee)|C]; auto.
  left. exists g, e. auto.
Qed.

End Sound.
