(* C01 — FULL session consistency against an ARBITRARY server, from
     (U) uniqueness of inclusion against an unknown root (Proofs/Unique.v) and
     (T) transport of inclusion across a consistency proof (Proofs/Transport.v):
   along one session of a verifying client every two accepted pairs with the same transaction id
   carry the same Alh, or a collision of H is exhibited.
   For store.VerifyDualProofV2, and for store.VerifyDualProof when every header carried by the
   session's proofs has BlTxID = ID - 1 (what every current server emits; with lagging headers the
   statement is refuted: Proofs/Refuted.v session_consistency_v1_refuted). *)
From V Require Import Proofs.History Proofs.Gen Proofs.Binding Proofs.Linear Proofs.Sound
  Proofs.Session Proofs.Unique Proofs.Transport Merkle.Sound Merkle.VerifyFixed Merkle.LastIncl.
From Coq Require Import ZifyN ZifyNat ZifyBool.
Open Scope N_scope.

Section SessionProof.
Variable H : bytes -> bytes.
Hypothesis H_len : forall x, length (H x) = 32%nat.
Notation Collision := (Collision H).

(* the pair pr = (k, a) is committed by the state st = (n, an): it is the state itself, or k < n and
   some valid non-lagging header with Alh an holds a at position k of its tree of size n - 1 *)
Definition committed (st pr : N * bytes) : Prop :=
  pr = st \/
  (1 <= fst pr /\ fst pr < fst st /\
   exists (h : txhdr) (t : list bytes),
     hdr_valid h = true /\ alh_v H h = snd st /\ h_bltxid h = fst st - 1 /\ len32 t /\
     verify_inclusion H t (fst pr) (fst st - 1) (leafh H (snd pr)) (h_blroot h) = true).

Lemma committed_unique st k a b :
  committed st (k, a) -> committed st (k, b) -> a = b \/ Collision.
Proof.
  intros [E1|(K1 & L1 & h1 & t1 & V1 & A1 & B1 & F1 & I1)] [E2|(K2 & L2 & h2 & t2 & V2 & A2 & B2 & F2 & I2)];
    cbn [fst snd] in *.
  - left. congruence.
  - subst st. cbn [fst] in L2. lia.
  - subst st. cbn [fst] in L1. lia.
  - destruct (alh_binding H H_len h1 h2 V1 V2 ltac:(congruence)) as [Ef|C]; auto.
    assert (ER : h_blroot h1 = h_blroot h2) by (unfold hashed_fields in Ef; congruence).
    rewrite <- ER in I2. apply (inclusion_unique H H_len _ _ _ _ _ _ _ F1 F2 I1 I2).
Qed.

(* what one accepted call of a session establishes *)
Definition call_facts (c : call) : Prop :=
  exists sh th : txhdr,
    hdr_valid sh = true /\ hdr_valid th = true /\
    alh_v H sh = c_salh c /\ alh_v H th = c_talh c /\
    h_bltxid sh = c_src c - 1 /\ h_bltxid th = c_tgt c - 1 /\
    1 <= c_src c /\ c_src c <= c_tgt c /\
    (c_src c = c_tgt c -> c_salh c = c_talh c) /\
    (c_src c < c_tgt c ->
       exists t, len32 t /\
         verify_inclusion H t (c_src c) (c_tgt c - 1) (leafh H (c_salh c)) (h_blroot th) = true) /\
    (2 <= c_src c -> c_src c < c_tgt c ->
       exists cp, len32 cp /\
         verify_consistency_fixed H cp (c_src c - 1) (c_tgt c - 1) (h_blroot sh) (h_blroot th) = Ok true).

Lemma committed_source c : call_facts c -> committed (c_tgt c, c_talh c) (c_src c, c_salh c).
Proof.
  intros (sh & th & Vs & Vt & As & At & Bs & Bt & S1 & Le & Ceq & Cinc & _).
  destruct (N.eq_dec (c_src c) (c_tgt c)) as [E|Ne].
  - left. rewrite E, (Ceq E). reflexivity.
  - right. cbn [fst snd]. destruct (Cinc ltac:(lia)) as (t & Ft & Vi).
    split; [lia|]. split; [lia|]. exists th, t. auto.
Qed.

(* a state advance (the trusted state is the source) carries every committed pair along *)
Lemma committed_advance c pr :
  call_facts c -> committed (c_src c, c_salh c) pr -> committed (c_tgt c, c_talh c) pr \/ Collision.
Proof.
  intros F Cm. pose proof (committed_source c F) as Cs.
  destruct F as (sh & th & Vs & Vt & As & At & Bs & Bt & S1 & Le & Ceq & Cinc & Ccons).
  destruct Cm as [->|(K1 & K2 & h & t & Vh & Ah & Bh & Ft & Vi)]; [left; exact Cs|].
  cbn [fst snd] in *.
  destruct (N.eq_dec (c_src c) (c_tgt c)) as [E|Ne].
  - left. right. cbn [fst snd]. rewrite <- E, <- (Ceq E).
    split; auto. split; auto. exists h, t. auto.
  - destruct (alh_binding H H_len h sh Vh Vs ltac:(congruence)) as [Ef|C]; auto.
    assert (ER : h_blroot h = h_blroot sh) by (unfold hashed_fields in Ef; congruence).
    destruct (Ccons ltac:(lia) ltac:(lia)) as (cp & Fc & Vc).
    rewrite ER in Vi.
    destruct (consistency_transport H H_len cp t (fst pr) (c_src c - 1) (c_tgt c - 1)
                (leafh H (snd pr)) (h_blroot sh) (h_blroot th) Fc Ft ltac:(apply H_len) Vc Vi)
      as [(t' & Ft' & Vi')|C]; auto.
    left. right. cbn [fst snd]. split; auto. split; [lia|]. exists th, t'. auto.
Qed.

Definition inv (st : N * bytes) (S : list (N * bytes)) : Prop :=
  forall pr, In pr S -> committed st pr \/ Collision.

Fixpoint final (st : N * bytes) (cs : list call) : N * bytes :=
  match cs with [] => st | c :: r => final (c_tgt c, c_talh c) r end.

Section Generic.
Variable V : verifier.
Variable good : call -> Prop.
Hypothesis V_facts : forall c, accepted V c -> good c -> call_facts c.

Lemma session_inv : forall (cs : list call) (st : N * bytes) (S : list (N * bytes)),
  session V st cs -> Forall good cs -> inv st S -> inv (final st cs) (S ++ pairs cs).
Proof.
  induction cs as [|c r IH]; intros st S Ss Fg I.
  - cbn [final pairs flat_map]. rewrite app_nil_r. exact I.
  - cbn [session] in Ss. destruct Ss as (Acc & Link & Sr).
    pose proof (Forall_inv Fg) as Gc. pose proof (Forall_inv_tail Fg) as Gr.
    pose proof (V_facts c Acc Gc) as F.
    cbn [final]. change (pairs (c :: r)) with ([(c_src c, c_salh c); (c_tgt c, c_talh c)] ++ pairs r).
    rewrite app_assoc. apply IH; auto.
    intros pr Hin. apply in_app_or in Hin as [Hin|Hin].
    + destruct (I pr Hin) as [Cm|C]; auto.
      destruct Link as [Ls|Lt].
      * rewrite <- Ls in Cm. apply (committed_advance c pr F Cm).
      * rewrite <- Lt in Cm. left. exact Cm.
    + destruct Hin as [<-|[<-|[]]].
      * left. apply committed_source; auto.
      * left. left. reflexivity.
Qed.

Theorem session_consistent_generic (st : N * bytes) (cs : list call) :
  session V st cs -> Forall good cs ->
  forall id a b, In (id, a) (st :: pairs cs) -> In (id, b) (st :: pairs cs) -> a = b \/ Collision.
Proof.
  intros Ss Fg id a b Ia Ib.
  assert (I : inv (final st cs) ([st] ++ pairs cs)).
  { apply session_inv; auto. intros pr [<-|[]]. left. left. reflexivity. }
  cbn [app] in I.
  destruct (I _ Ia) as [Ca|C]; auto. destruct (I _ Ib) as [Cb|C]; auto.
  apply (committed_unique _ _ _ _ Ca Cb).
Qed.

End Generic.

(* ---------- VerifyDualProofV2 ---------- *)
Definition good_v2 (c : call) : Prop :=
  (forall h, dp_src (c_proof c) = Some h \/ dp_tgt (c_proof c) = Some h -> hdr_valid h = true) /\
  len32 (dp_incl (c_proof c)) /\ len32 (dp_cons (c_proof c)).

Lemma v2_facts c : accepted (verify_dual_proof_v2_call H) c -> good_v2 c -> call_facts c.
Proof.
  unfold accepted, verify_dual_proof_v2_call. cbn [option_map]. intros A (Gh & Gi & Gc).
  apply (verify_dual_proof_v2_inv H H_len) in A
    as (sh & th & Ps & Pt & Is & It & S0 & Le & Ea & Eb & Bs & Bt & Ceq & Clt).
  cbn [dp_to_v2 d2_src d2_tgt d2_incl d2_cons] in *.
  apply alh_ok in Ea as [Ea _]. apply alh_ok in Eb as [Eb _].
  exists sh, th. repeat split; auto; try lia.
  - intros Lt. destruct (Clt Lt) as [Vi _]. exists (dp_incl (c_proof c)). split; auto.
  - intros S2 Lt. destruct (Clt Lt) as [_ Vc]. destruct (N.eqb_spec (c_src c) 1); [lia|].
    exists (dp_cons (c_proof c)). split; auto.
Qed.

(* FULL SESSION CONSISTENCY, VerifyDualProofV2, arbitrary server *)
Theorem session_consistency_v2 (st : N * bytes) (cs : list call) :
  session (verify_dual_proof_v2_call H) st cs -> Forall good_v2 cs ->
  forall id a b, In (id, a) (st :: pairs cs) -> In (id, b) (st :: pairs cs) -> a = b \/ Collision.
Proof. apply (session_consistent_generic _ good_v2 v2_facts). Qed.

(* ---------- VerifyDualProof, non-lagging headers ---------- *)
Definition good_v1 (c : call) : Prop :=
  (forall h, dp_src (c_proof c) = Some h \/ dp_tgt (c_proof c) = Some h ->
             hdr_valid h = true /\ h_bltxid h = h_id h - 1) /\
  len32 (dp_incl (c_proof c)) /\ len32 (dp_cons (c_proof c)) /\ len32 (dp_last (c_proof c)).

Ltac vstep V :=
  match type of V with
  | (if ?c then Ok false else _) = Ok true => destruct c eqn:?; [discriminate|]
  | bind ?r _ = Ok true => destruct r as [?| |] eqn:?; cbn [bind] in V; try discriminate
  end.

(* the repair of d34d669: when the source is the last leaf of the target's tree, TargetBlTxAlh is
   the source's Alh *)
Lemma verify_dual_proof_tbl p src tgt salh talh th :
  verify_dual_proof H (Some p) src tgt salh talh = Ok true ->
  dp_tgt p = Some th -> src = h_bltxid th -> dp_tblalh p = salh.
Proof.
  unfold verify_dual_proof, verify_dual_proof_gen. intros V T E.
  destruct (dp_src p) as [sh|]; [|discriminate]. rewrite T in V.
  repeat vstep V.
  rewrite E in V. rewrite N.ltb_irrefl, N.eqb_refl in V. cbn [andb] in V.
  destruct (bytes_eqb (dp_tblalh p) salh) eqn:Eq; [apply list_eqb_eq in Eq; exact Eq | discriminate].
Qed.

Lemma v1_facts c : accepted (verify_dual_proof H) c -> good_v1 c -> call_facts c.
Proof.
  unfold accepted. intros A (Gh & Gi & Gc & Gl).
  pose proof A as A0. unfold verify_dual_proof in A.
  apply (verify_dual_proof_gen_inv H H_len) in A
    as (sh & th & Ps & Pt & Is & It & S0 & Le & Ea & Eb & Cincl & Clin & Ccons & Clast).
  destruct (Gh sh (or_introl Ps)) as [Vs Ns]. destruct (Gh th (or_intror Pt)) as [Vt Nt].
  rewrite Is in Ns. rewrite It in Nt.
  apply alh_ok in Ea as [Ea _]. apply alh_ok in Eb as [Eb _].
  exists sh, th. repeat split; auto; try lia.
  - (* same id: the one-term linear proof *)
    intros E. specialize (Clin ltac:(lia)).
    apply (verify_linear_proof_inv H H_len) in Clin as (rest & Lr & _ & El).
    assert (rest = []) by (destruct rest; [reflexivity | unfold lenN in Lr; cbn [length] in Lr; lia]).
    subst rest. cbn [lin_fold] in El. congruence.
  - intros Lt. destruct (N.lt_ge_cases (c_src c) (h_bltxid th)) as [Lb|Gb].
    + destruct (Cincl Lb) as [Vi _]. rewrite Nt in Vi. exists (dp_incl (c_proof c)). split; auto.
    + (* the source is the last leaf of the target's tree *)
      assert (Eb' : c_src c = h_bltxid th) by lia.
      pose proof (verify_dual_proof_tbl _ _ _ _ _ th A0 Pt Eb') as Et.
      specialize (Clast ltac:(lia)). rewrite Et, last_is_inclusion in Clast.
      rewrite <- Eb' in Clast at 1. rewrite Nt in Clast.
      exists (dp_last (c_proof c)). split; auto.
  - intros S2 Lt. specialize (Ccons ltac:(lia)). rewrite Ns, Nt in Ccons.
    exists (dp_cons (c_proof c)). split; auto.
Qed.

(* FULL SESSION CONSISTENCY, VerifyDualProof, arbitrary server, every header with BlTxID = ID - 1 *)
Theorem session_consistency_v1_nonlagging (st : N * bytes) (cs : list call) :
  session (verify_dual_proof H) st cs -> Forall good_v1 cs ->
  forall id a b, In (id, a) (st :: pairs cs) -> In (id, b) (st :: pairs cs) -> a = b \/ Collision.
Proof. apply (session_consistent_generic _ good_v1 v1_facts). Qed.

End SessionProof.
