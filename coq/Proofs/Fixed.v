(* C01 — the two versions of VerifyDualProof carried by the one transliteration
   verify_dual_proof_gen of Proofs/Model.v:
     verify_dual_proof_fixed      = verify_dual_proof, the code as it stands (repair of /repo commit
                                    d34d669: TargetBlTxAlh == sourceAlh when sourceTxID ==
                                    TargetTxHeader.BlTxID in the branch sourceTxID >= BlTxID);
     verify_dual_proof_unrepaired = the verifier before that commit (historical witness only).
   No proofs in this file. *)
From V Require Export Proofs.Model.

Definition verify_dual_proof_fixed (H : bytes -> bytes) := verify_dual_proof_gen H true.
Definition verify_dual_proof_unrepaired (H : bytes -> bytes) := verify_dual_proof_gen H false.
