(* C01 — VerifyDualProof with the repair proposed in fixes/C01-targetblalh.diff: in the branch
   `sourceTxID >= TargetTxHeader.BlTxID`, when sourceTxID == TargetTxHeader.BlTxID the last leaf of
   the target's tree (TargetBlTxAlh, proven by LastInclusionProof) is position sourceTxID and must
   therefore be the source's own Alh. Everything else is verify_dual_proof unchanged (the one
   transliteration verify_dual_proof_gen of Proofs/Model.v carries the repair under a flag).
   No proofs in this file. *)
From V Require Export Proofs.Model.

Definition verify_dual_proof_fixed (H : bytes -> bytes) := verify_dual_proof_gen H true.
