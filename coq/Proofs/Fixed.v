(* C01 — VerifyDualProof with the repair proposed in fixes/C01-targetblalh.diff: in the branch
   `sourceTxID >= TargetTxHeader.BlTxID`, when sourceTxID == TargetTxHeader.BlTxID the last leaf of
   the target's tree (TargetBlTxAlh, proven by LastInclusionProof) is position sourceTxID and must
   therefore be the source's own Alh. Everything else is verify_dual_proof unchanged.
   No proofs in this file. *)
From V Require Export Proofs.Model.

Section Fixed.
Variable H : bytes -> bytes.

Definition verify_dual_proof_fixed (p : option dual_proof) (src tgt : N) (salh talh : bytes) : res bool :=
  match p with
  | None => Ok false
  | Some p =>
    match dp_src p, dp_tgt p with
    | Some sh, Some th =>
      if negb (h_id sh =? src) || negb (h_id th =? tgt) then Ok false else
      if (h_id sh =? 0) || (h_id th <? h_id sh) then Ok false else
      do csalh <- alh H sh;
      if negb (bytes_eqb salh csalh) then Ok false else
      do ctalh <- alh H th;
      if negb (bytes_eqb talh ctalh) then Ok false else
      if (src <? h_bltxid th) &&
         negb (verify_inclusion H (dp_incl p) src (h_bltxid th) (leaf_for H salh) (h_blroot th))
      then Ok false else
      do c <- (if 0 <? h_bltxid sh
               then verify_consistency H (dp_cons p) (h_bltxid sh) (h_bltxid th) (h_blroot sh) (h_blroot th)
               else Ok true);
      if negb c then Ok false else
      if (0 <? h_bltxid th) &&
         negb (verify_last_inclusion H (dp_last p) (h_bltxid th) (leaf_for H (dp_tblalh p)) (h_blroot th))
      then Ok false else
      if src <? h_bltxid th then
        if negb (verify_linear_proof H (dp_lin p) (h_bltxid th) tgt (dp_tblalh p) talh) then Ok false else
        verify_linear_advance_proof H (dp_lap p) (h_bltxid sh) src salh (h_blroot th) (h_bltxid th)
      else
        (* the repair *)
        if (src =? h_bltxid th) && negb (bytes_eqb (dp_tblalh p) salh) then Ok false else
        if negb (verify_linear_proof H (dp_lin p) src tgt salh talh) then Ok false else
        verify_linear_advance_proof H (dp_lap p) (h_bltxid sh) (h_bltxid th) (dp_tblalh p)
                                    (h_blroot th) (h_bltxid th)
    | _, _ => Ok false
    end
  end.

End Fixed.
