(* C01 — the honest proofs, as ImmuStore assembles them (immustore.go DualProof / DualProofV2 /
   LinearProof / LinearAdvanceProof) over a history `hs` (header of transaction k at index k-1) whose
   binary-linking tree holds the payloads Alh_1 .. ; Merkle inclusion proofs are the honest sibling
   paths of coq/Merkle (honest_inclusion_proof; the C08 tie checks that AHtree.InclusionProof returns
   exactly these terms). The consistency proof is a PARAMETER `cons` (its generator is not modelled:
   completeness below is relative to `cons` being accepted by verify_consistency).
   No proofs in this file. *)
From V Require Export Proofs.History Merkle.Main.

Fixpoint range_from (s : N) (n : nat) : list N :=
  match n with O => [] | S n' => s :: range_from (s + 1) n' end.

Definition hdr0 : txhdr :=
  {| h_id := 0; h_prevalh := []; h_ts := 0; h_version := 0; h_md := None; h_nentries := 0;
     h_eh := []; h_bltxid := 0; h_blroot := [] |}.
(* the header of transaction k (1-based) *)
Definition hd_at (hs : list txhdr) (k : N) : txhdr := nth (N.to_nat (k - 1)) hs hdr0.

Section Gen.
Variable H : bytes -> bytes.

Definition A_at (hs : list txhdr) (k : N) : bytes := alh_v H (hd_at hs k).
Definition I_at (hs : list txhdr) (k : N) : bytes := inner_hash_v H (hd_at hs k).

(* payloads of the binary-linking tree of size b *)
Definition tree_payloads (hs : list txhdr) (b : N) : list bytes := alhs H (takeN b hs).

(* LinearProof(s, t): Alh_s, innerHash_{s+1}, .., innerHash_t *)
Definition gen_linear_proof (hs : list txhdr) (s t : N) : option linear_proof :=
  Some {| lp_src := s; lp_tgt := t;
          lp_terms := A_at hs s :: map (I_at hs) (range_from (s + 1) (N.to_nat (t - s))) |}.

(* LinearAdvanceProof(s, e, bl): nil when e <= s+1; else Alh_{s+1}, innerHash_{s+2..e} and the
   inclusion proofs of transactions s+1 .. e-1 in the tree of size bl *)
Definition gen_lap (hs : list txhdr) (s e bl : N) : option linear_advance_proof :=
  if e <=? s + 1 then None else
  Some {| lap_terms := A_at hs (s + 1) :: map (I_at hs) (range_from (s + 1 + 1) (N.to_nat (e - s - 1)));
          lap_incls := map (fun k => honest_inclusion_proof H (tree_payloads hs bl) k)
                           (range_from (s + 1) (N.to_nat (e - s - 1))) |}.

Definition gen_dual_proof (hs : list txhdr) (cons : list bytes) (i j : N) : dual_proof :=
  let sh := hd_at hs i in let th := hd_at hs j in let b := h_bltxid th in
  {| dp_src := Some sh; dp_tgt := Some th;
     dp_incl := if i <? b then honest_inclusion_proof H (tree_payloads hs b) i else [];
     dp_cons := cons;
     dp_tblalh := if 0 <? b then A_at hs b else zeros32;
     dp_last := if 0 <? b then honest_inclusion_proof H (tree_payloads hs b) b else [];
     dp_lin := gen_linear_proof hs (N.max i b) j;
     dp_lap := gen_lap hs (h_bltxid sh) (N.min i b) b |}.

Definition gen_dual_proof_v2 (hs : list txhdr) (cons : list bytes) (i j : N) : dual_proof_v2 :=
  let sh := hd_at hs i in let th := hd_at hs j in
  {| d2_src := Some sh; d2_tgt := Some th;
     d2_incl := if i <? j then honest_inclusion_proof H (tree_payloads hs (h_bltxid th)) i else [];
     d2_cons := cons |}.

(* Tx.Proof(key) for the entry at index idx (0-based) of a transaction with entries es *)
Definition gen_entry_proof (version : N) (es : list entry) (idx : N) : option (Z * Z * list bytes) :=
  Some (Z.of_N idx, Z.of_N (lenN es),
        honest_inclusion_proof H (map (entry_digest H version) es) (idx + 1)).

End Gen.
