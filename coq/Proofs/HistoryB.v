(* C01 — the boolean history checker is sound; a lagging history exists (the premises of the
   soundness theorems are satisfiable). *)
From V Require Import Proofs.History Proofs.Binding Merkle.Sound Merkle.Sha256.
From Coq Require Import ZifyN ZifyNat ZifyBool.

Section HistoryB.
Variable H : bytes -> bytes.

Lemma wf_from_nth all : forall rest k prev prevbl,
  wf_from H all k prev prevbl rest = true ->
  forall i h, nth_error rest i = Some h ->
    hdr_valid h = true /\ h_id h = k + N.of_nat i /\ h_bltxid h < k + N.of_nat i /\
    h_blroot h = bl_root H all (h_bltxid h) /\ prevbl <= h_bltxid h /\
    (i = 0%nat -> h_prevalh h = prev) /\
    (forall h', nth_error rest (S i) = Some h' -> h_prevalh h' = alh_v H h).
Proof.
  induction rest as [|h0 r IH]; intros k prev prevbl W i h Hi.
  - destruct i; discriminate.
  - cbn [wf_from] in W. apply andb_prop in W as [W Wr]. apply andb_prop in W as [W Wroot].
    apply andb_prop in W as [W Wmono]. apply andb_prop in W as [W Wlt].
    apply andb_prop in W as [W Wprev]. apply andb_prop in W as [Wv Wid].
    destruct i as [|i].
    + cbn in Hi. injection Hi as <-.
      repeat split; auto; try lia.
      * apply list_eqb_eq; auto.
      * intros _. apply list_eqb_eq; auto.
      * intros h' Hh'. cbn in Hh'.
        destruct (IH _ _ _ Wr 0%nat h' Hh') as (_ & _ & _ & _ & _ & P & _). auto.
    + cbn in Hi. destruct (IH _ _ _ Wr i h Hi) as (V1 & I1 & B1 & R1 & M1 & _ & N1).
      repeat split; auto; try lia.
Qed.

Lemma wf_from_mono all : forall rest k prev prevbl,
  wf_from H all k prev prevbl rest = true ->
  forall i j h h', (i <= j)%nat -> nth_error rest i = Some h -> nth_error rest j = Some h' ->
  h_bltxid h <= h_bltxid h'.
Proof.
  induction rest as [|h0 r IH]; intros k prev prevbl W i j h h' Le Hi Hj.
  - destruct i; discriminate.
  - cbn [wf_from] in W. apply andb_prop in W as [W Wr]. apply andb_prop in W as [W Wroot].
    apply andb_prop in W as [W Wmono]. apply andb_prop in W as [W Wlt].
    apply andb_prop in W as [W Wprev]. apply andb_prop in W as [Wv Wid].
    destruct i as [|i], j as [|j]; try lia.
    + cbn in Hi, Hj. assert (h = h') by congruence. subst. lia.
    + cbn in Hi, Hj. injection Hi as <-.
      destruct (wf_from_nth all _ _ _ _ Wr j h' Hj) as (_ & _ & _ & _ & M & _). exact M.
    + cbn in Hi, Hj. eapply (IH _ _ _ Wr i j); eauto. lia.
Qed.

Theorem wf_histb_sound hs : wf_histb H hs = true -> wf_hist H hs.
Proof.
  unfold wf_histb. intros W.
  assert (T : forall k h, tx_at hs k = Some h -> k <> 0 /\ nth_error hs (N.to_nat (k - 1)) = Some h).
  { unfold tx_at. intros k h. destruct (N.eqb_spec k 0); [discriminate|]. auto. }
  constructor.
  - intros k h Hk. apply T in Hk as [K0 Hk]. apply (wf_from_nth hs _ _ _ _ W _ _ Hk).
  - intros k h Hk. apply T in Hk as [K0 Hk].
    destruct (wf_from_nth hs _ _ _ _ W _ _ Hk) as (_ & I & _). lia.
  - intros h Hk. apply T in Hk as [K0 Hk].
    destruct (wf_from_nth hs _ _ _ _ W _ _ Hk) as (_ & _ & _ & _ & _ & P & _). apply P. reflexivity.
  - intros k h h' Hk Hk'. apply T in Hk as [K0 Hk]. apply T in Hk' as [_ Hk'].
    destruct (wf_from_nth hs _ _ _ _ W _ _ Hk) as (_ & _ & _ & _ & _ & _ & Nx). apply Nx.
    replace (S (N.to_nat (k - 1))) with (N.to_nat (k + 1 - 1)) by lia. exact Hk'.
  - intros k h Hk. apply T in Hk as [K0 Hk].
    destruct (wf_from_nth hs _ _ _ _ W _ _ Hk) as (_ & _ & B & R & _). split; auto. lia.
  - intros k k' h h' Le Hk Hk'. apply T in Hk as [K0 Hk]. apply T in Hk' as [K0' Hk'].
    eapply (wf_from_mono hs _ _ _ _ W (N.to_nat (k - 1)) (N.to_nat (k' - 1))); eauto. lia.
Qed.

End HistoryB.

(* a well-formed history whose binary linking lags (BlTxID: 0, 0, 1, 1, 3), and an accepted dual
   proof over it with a genuine target: the premises of dual_proof_sound_wrt_history hold together *)
Definition ex_mk (id : N) (prev : bytes) (bl : N) (blroot : bytes) (v : N) : txhdr :=
  {| h_id := id; h_prevalh := prev; h_ts := 1700000000 + id; h_version := v; h_md := None;
     h_nentries := id; h_eh := repeat id 32; h_bltxid := bl; h_blroot := blroot |}.
Definition ex_h1 := ex_mk 1 (sha256 []) 0 zeros32 0.
Definition ex_h2 := ex_mk 2 (alh_v sha256 ex_h1) 0 zeros32 1.
Definition ex_h3 := ex_mk 3 (alh_v sha256 ex_h2) 1 (mth sha256 [alh_v sha256 ex_h1]) 1.
Definition ex_h4 := ex_mk 4 (alh_v sha256 ex_h3) 1 (mth sha256 [alh_v sha256 ex_h1]) 0.
Definition ex_h5 := ex_mk 5 (alh_v sha256 ex_h4) 3
  (mth sha256 [alh_v sha256 ex_h1; alh_v sha256 ex_h2; alh_v sha256 ex_h3]) 1.
Definition ex_hist := [ex_h1; ex_h2; ex_h3; ex_h4; ex_h5].

Example wf_hist_sat : wf_hist sha256 ex_hist.
Proof. apply wf_histb_sound. vm_compute. reflexivity. Qed.

(* source 2 < target.BlTxID 3: inclusion of Alh_2 at position 2 of 3, linear proof 3 -> 5 *)
Definition ex_proof : dual_proof :=
  let a1 := alh_v sha256 ex_h1 in let a2 := alh_v sha256 ex_h2 in let a3 := alh_v sha256 ex_h3 in
  let l := leafh sha256 in let n := nodeh sha256 in
  {| dp_src := Some ex_h2; dp_tgt := Some ex_h5;
     dp_incl := [l a1; l a3]; dp_cons := []; dp_tblalh := a3; dp_last := [n (l a1) (l a2)];
     dp_lin := Some {| lp_src := 3; lp_tgt := 5;
                       lp_terms := [a3; inner_hash_v sha256 ex_h4; inner_hash_v sha256 ex_h5] |};
     dp_lap := Some {| lap_terms := [a1; inner_hash_v sha256 ex_h2]; lap_incls := [[l a2; l a3]] |} |}.

Example dual_proof_sound_premises_sat :
  tx_at ex_hist 5 = Some ex_h5 /\ hdr_valid ex_h2 = true /\ hdr_valid ex_h5 = true /\
  len32 (dp_incl ex_proof) /\
  verify_dual_proof sha256 (Some ex_proof) 2 5 (alh_v sha256 ex_h2) (alh_v sha256 ex_h5) = Ok true.
Proof.
  repeat split; try (vm_compute; reflexivity).
  repeat constructor.
Qed.
