(* C01 — witnesses, evaluated with the executable SHA-256 (no collision is involved: every value
   below is computed), that the code as it stands does NOT have session consistency (residual
   family on lagging headers: session_consistency_v1_refuted), the historical witness of the family
   closed by /repo commit d34d669 (now REJECTED by the verifier: family_a_rejected), the over-long
   inclusion proofs closed by c59ab5b (family_d_rejected), and two smaller
   binding gaps. Replayed on the Go verifiers by harness/c01 (forgery.go). *)
From V Require Import Proofs.History Proofs.Fixed Proofs.Session Merkle.Sha256.

Definition Hs := sha256.
Definition lf (d : bytes) : bytes := leafh Hs d.
Definition nd (a b : bytes) : bytes := nodeh Hs a b.

(* a header with the given linking; `tag` makes the entry-tree root (hence the content) differ *)
Definition mkh (id : N) (prev : bytes) (bl : N) (blroot : bytes) (tag : N) : txhdr :=
  {| h_id := id; h_prevalh := prev; h_ts := 1700000000 + id; h_version := 1; h_md := None;
     h_nentries := 1; h_eh := repeat tag 32; h_bltxid := bl; h_blroot := blroot |}.
Definition A (h : txhdr) : bytes := alh_v Hs h.
Definition lin (s t : N) (a : bytes) (h : txhdr) : option linear_proof :=
  Some {| lp_src := s; lp_tgt := t; lp_terms := [a; inner_hash_v Hs h] |}.

(* ---------------------------------------------------------------------------------------------
   Family (a): VerifyDualProof never relates TargetBlTxAlh to the source when
   sourceTxID >= TargetTxHeader.BlTxID.  Four transactions; the server shows the REAL tx 2 first,
   then a tx 3 whose tree holds a FAKE leaf 2 (X), then tx 4; afterwards the fake tx 2 verifies
   against the trusted state 4. *)
Definition h1 := mkh 1 zeros32 0 zeros32 1.
Definition A1 := A h1.
Definition h2 := mkh 2 A1 1 (mth Hs [A1]) 2.            (* the real transaction 2 *)
Definition A2 := A h2.
Definition h2f := mkh 2 A1 1 (mth Hs [A1]) 66.          (* the forged transaction 2 *)
Definition X := A h2f.
Definition h3 := mkh 3 A2 2 (mth Hs [A1; X]) 3.         (* linear chain: real; tree: fake leaf 2 *)
Definition A3 := A h3.
Definition h4 := mkh 4 A3 3 (mth Hs [A1; X; A3]) 4.
Definition A4 := A h4.
Definition H12 := nd (lf A1) (lf X).

Definition p1 : dual_proof :=   (* state (2, A2) -> 3 *)
  {| dp_src := Some h2; dp_tgt := Some h3; dp_incl := []; dp_cons := [lf A1; lf X];
     dp_tblalh := X; dp_last := [lf A1]; dp_lin := lin 2 3 A2 h3; dp_lap := None |}.
Definition p2 : dual_proof :=   (* state (3, A3) -> 4 *)
  {| dp_src := Some h3; dp_tgt := Some h4; dp_incl := []; dp_cons := [H12; lf A3];
     dp_tblalh := A3; dp_last := [H12]; dp_lin := lin 3 4 A3 h4; dp_lap := None |}.
Definition p3 : dual_proof :=   (* forged tx 2 against the trusted state (4, A4) *)
  {| dp_src := Some h2f; dp_tgt := Some h4; dp_incl := [lf A1; lf A3]; dp_cons := [lf A1; lf X; lf A3];
     dp_tblalh := A3; dp_last := [H12]; dp_lin := lin 3 4 A3 h4; dp_lap := None |}.

Definition sessionA : list call :=
  [ {| c_proof := p1; c_src := 2; c_tgt := 3; c_salh := A2; c_talh := A3 |};
    {| c_proof := p2; c_src := 3; c_tgt := 4; c_salh := A3; c_talh := A4 |};
    {| c_proof := p3; c_src := 2; c_tgt := 4; c_salh := X; c_talh := A4 |} ].

(* HISTORICAL: the verifier before commit d34d669 accepted that session *)
Theorem session_family_a_before_repair_refuted : session_inconsistent (verify_dual_proof_unrepaired Hs).
Proof.
  exists (2, A2), sessionA, 2, A2, X. split; [|split; [|split]].
  - cbn [session sessionA]. unfold accepted. cbn [c_proof c_src c_tgt c_salh c_talh].
    repeat split; try (vm_compute; reflexivity).
    + left. reflexivity.
    + left. reflexivity.
    + right. reflexivity.
  - left. reflexivity.
  - right. vm_compute. tauto.
  - vm_compute. discriminate.
Qed.

(* the verifier as it stands rejects the first step of that session (and accepts the honest second) *)
Example family_a_rejected :
  verify_dual_proof Hs (Some p1) 2 3 A2 A3 = Ok false /\
  verify_dual_proof Hs (Some p2) 3 4 A3 A4 = Ok true.
Proof. split; vm_compute; reflexivity. Qed.

(* ---------------------------------------------------------------------------------------------
   Residual family: source.BlTxID < target.BlTxID < sourceTxID (headers whose binary linking lags).
   Neither the repair of d34d669 nor any check on the proof as it is transmitted covers it: the leaves
   source.BlTxID+1 .. target.BlTxID of the target's tree are never related to the source's own
   chain (a linear proof from target.BlTxID to sourceTxID would be needed).  Five transactions. *)
Definition g3 := mkh 3 A2 1 (mth Hs [A1]) 3.            (* real chain, linking lags: BlTxID = 1 *)
Definition B3 := A g3.
Definition g4 := mkh 4 B3 2 (mth Hs [A1; X]) 4.         (* tree holds the forged leaf 2 *)
Definition B4 := A g4.
Definition g5 := mkh 5 B4 4 (mth Hs [A1; X; B3; B4]) 5.
Definition B5 := A g5.
Definition G12 := nd (lf A1) (lf X).
Definition G34 := nd (lf B3) (lf B4).

Definition q1 : dual_proof :=   (* state (2, A2) -> 3 *)
  {| dp_src := Some h2; dp_tgt := Some g3; dp_incl := []; dp_cons := [];
     dp_tblalh := A1; dp_last := []; dp_lin := lin 2 3 A2 g3; dp_lap := None |}.
Definition q2 : dual_proof :=   (* state (3, B3) -> 4: 1 = source.BlTxID < target.BlTxID = 2 < 3 *)
  {| dp_src := Some g3; dp_tgt := Some g4; dp_incl := []; dp_cons := [lf A1; lf X];
     dp_tblalh := X; dp_last := [lf A1]; dp_lin := lin 3 4 B3 g4; dp_lap := None |}.
Definition q3 : dual_proof :=   (* state (4, B4) -> 5, an honest-looking step *)
  {| dp_src := Some g4; dp_tgt := Some g5; dp_incl := []; dp_cons := [G12; G34];
     dp_tblalh := B4; dp_last := [lf B3; G12]; dp_lin := lin 4 5 B4 g5;
     dp_lap := Some {| lap_terms := [B3; inner_hash_v Hs g4]; lap_incls := [[lf B4; G12]] |} |}.
Definition q4 : dual_proof :=   (* forged tx 2 against the trusted state (5, B5) *)
  {| dp_src := Some h2f; dp_tgt := Some g5; dp_incl := [lf A1; G34]; dp_cons := [lf A1; lf X; G34];
     dp_tblalh := B4; dp_last := [lf B3; G12]; dp_lin := lin 4 5 B4 g5; dp_lap := None |}.

Definition sessionB : list call :=
  [ {| c_proof := q1; c_src := 2; c_tgt := 3; c_salh := A2; c_talh := B3 |};
    {| c_proof := q2; c_src := 3; c_tgt := 4; c_salh := B3; c_talh := B4 |};
    {| c_proof := q3; c_src := 4; c_tgt := 5; c_salh := B4; c_talh := B5 |};
    {| c_proof := q4; c_src := 2; c_tgt := 5; c_salh := X; c_talh := B5 |} ].

(* session consistency of the CURRENT verifier is refuted *)
Theorem session_consistency_v1_refuted : session_inconsistent (verify_dual_proof Hs).
Proof.
  exists (2, A2), sessionB, 2, A2, X. split; [|split; [|split]].
  - cbn [session sessionB]. unfold accepted. cbn [c_proof c_src c_tgt c_salh c_talh].
    repeat split; try (vm_compute; reflexivity).
    + left. reflexivity.
    + left. reflexivity.
    + left. reflexivity.
    + right. reflexivity.
  - left. reflexivity.
  - right. vm_compute. tauto.
  - vm_compute. discriminate.
Qed.

(* ---------------------------------------------------------------------------------------------
   Family D (CLOSED by /repo commit c59ab5b): OVER-LONG inclusion proofs. Before that commit
   ahtree.VerifyInclusion demanded enough terms to reach the right-most path ((i-1)>>len = (j-1)>>len)
   but accepted any number of FURTHER terms, and VerifyLastInclusion checked no length at all. Against a root that is not the root of a genuine tree
   of the claimed size the position is therefore not unique: with
       R = node( node(leaf a1, leaf a2), Y ),    Y = node( node(z, leaf X), leaf a3 )
   (Y stands where leaf 3 of a size-3 tree would be, but is a subtree holding X = Alh of a forged
   tx 2) the state (4, Alh of a header with BlTxID 3, BlRoot R) commits to BOTH a2 and X at
   "position 2 of 3". Ordinary, non-lagging headers; VerifyDualProof (with the repair of d34d669)
   and VerifyDualProofV2 alike. *)
Definition e1 := mkh 1 (Hs []) 0 zeros32 1.
Definition E1 := A e1.
Definition e2 := mkh 2 E1 1 (lf E1) 2.                 (* the real transaction 2 *)
Definition E2 := A e2.
Definition e2f := mkh 2 E1 1 (lf E1) 66.               (* the forged transaction 2 *)
Definition XD := A e2f.
Definition e3 := mkh 3 E2 2 (nd (lf E1) (lf E2)) 3.
Definition E3 := A e3.
Definition zD : bytes := 90 :: repeat 0 31.
Definition R12 := nd (lf E1) (lf E2).
Definition YD := nd (nd zD (lf XD)) (lf E3).
Definition RD := nd R12 YD.
Definition e4 := mkh 4 E3 3 RD 4.
Definition E4 := A e4.
Definition dreal : dual_proof :=
  {| dp_src := Some e2; dp_tgt := Some e4; dp_incl := [lf E1; YD]; dp_cons := [lf E1; lf E2; YD];
     dp_tblalh := E3; dp_last := [nd zD (lf XD); R12]; dp_lin := lin 3 4 E3 e4; dp_lap := None |}.
Definition dfake : dual_proof :=
  {| dp_src := Some e2f; dp_tgt := Some e4; dp_incl := [zD; lf E3; R12]; dp_cons := [lf E1; lf E2; YD];
     dp_tblalh := E3; dp_last := [nd zD (lf XD); R12]; dp_lin := lin 3 4 E3 e4; dp_lap := None |}.
Definition sessionD : list call :=
  [ {| c_proof := dreal; c_src := 2; c_tgt := 4; c_salh := E2; c_talh := E4 |};
    {| c_proof := dfake; c_src := 2; c_tgt := 4; c_salh := XD; c_talh := E4 |} ].

(* Since /repo commit c59ab5b (ahtree inclusion verifiers require the exact proof length for the
   claimed position) both verifiers REJECT the forged transaction (and the over-long last-inclusion
   proof the shape needs): the family is closed; the harness keeps replaying it. *)
Example family_d_rejected :
  verify_dual_proof Hs (Some dfake) 2 4 XD E4 = Ok false /\
  verify_dual_proof_v2_call Hs (Some dfake) 2 4 XD E4 = Ok false /\
  verify_inclusion Hs (dp_incl dfake) 2 3 (lf XD) RD = false /\
  verify_last_inclusion Hs (dp_last dreal) 3 (lf E3) RD = false.
Proof. repeat split; vm_compute; reflexivity. Qed.

(* ---------------------------------------------------------------------------------------------
   HISTORICAL (closed by /repo commit dd8ca50): VerifyDualProofV2 with sourceTxID = targetTxID
   returned nil without comparing the two headers or the two Alh values: a forged header for the
   trusted transaction id was "verified". *)
Definition same_id_proof : dual_proof_v2 :=
  {| d2_src := Some h2f; d2_tgt := Some h2; d2_incl := []; d2_cons := [] |}.

Theorem dual_proof_v2_same_id_refuted :
  exists p salh talh,
    verify_dual_proof_v2_gen Hs false (Some p) 2 2 salh talh = Ok true /\ salh <> talh.
Proof.
  exists same_id_proof, X, A2. split; [vm_compute; reflexivity | vm_compute; discriminate].
Qed.

(* the verifier as it stands rejects it *)
Example dual_proof_v2_same_id_rejected :
  verify_dual_proof_v2 Hs (Some same_id_proof) 2 2 X A2 = Ok false.
Proof. vm_compute. reflexivity. Qed.

(* ---------------------------------------------------------------------------------------------
   Alh does not commit to NEntries outside the width of the cast in innerHash: uint16(NEntries) in
   header version 0. For every hash function. (schema.TxHeaderFromProto delivers an int32.) *)
Theorem alh_nentries_truncation_refuted :
  forall (H : bytes -> bytes), exists h h',
    h_nentries h <> h_nentries h' /\ alh H h = alh H h' /\ exists a, alh H h = Ok a.
Proof.
  intros H.
  exists {| h_id := 1; h_prevalh := zeros32; h_ts := 0; h_version := 0; h_md := None;
            h_nentries := 3; h_eh := zeros32; h_bltxid := 0; h_blroot := zeros32 |},
         {| h_id := 1; h_prevalh := zeros32; h_ts := 0; h_version := 0; h_md := None;
            h_nentries := 65539; h_eh := zeros32; h_bltxid := 0; h_blroot := zeros32 |}.
  split; [cbn; discriminate|]. split; [reflexivity | eexists; reflexivity].
Qed.
