(* C01 — binding: Alh commits to every hashed header field, entry digests commit to
   key / metadata bytes / value hash — or the proof exhibits an explicit collision of H. *)
From V Require Import Proofs.History.
From Coq Require Import ZifyN ZifyNat ZifyBool.

Lemma pow_w_txid : 256 ^ N.of_nat w_txid = two64. Proof. vm_compute. reflexivity. Qed.
Lemma pow_w_ts : 256 ^ N.of_nat w_ts = two64. Proof. vm_compute. reflexivity. Qed.
Lemma pow_w_ssz : 256 ^ N.of_nat w_ssz = 65536. Proof. vm_compute. reflexivity. Qed.
Lemma pow_w_lsz : 256 ^ N.of_nat w_lsz = 4294967296. Proof. vm_compute. reflexivity. Qed.

Lemma app_inj_tail_len {A} (a a' b b' : list A) :
  length b = length b' -> a ++ b = a' ++ b' -> a = a' /\ b = b'.
Proof.
  intros L E. apply app_inj_len; auto.
  apply (f_equal (@length A)) in E. rewrite !app_length in E. lia.
Qed.

(* equal encodings of the same width: equal numbers (within the width) and equal rests *)
Lemma be_head_inj k v w r r' :
  v < 256 ^ N.of_nat k -> w < 256 ^ N.of_nat k ->
  be_enc k v ++ r = be_enc k w ++ r' -> v = w /\ r = r'.
Proof.
  intros Hv Hw E. apply app_inj_len in E as [E1 E2]; [|rewrite !be_enc_length; reflexivity].
  split; auto. eapply be_enc_inj; eauto.
Qed.

Lemma len_eq_length (a b : bytes) : len a = len b -> length a = length b.
Proof. unfold len. lia. Qed.

Lemma hdr_valid_spec h : hdr_valid h = true ->
  (h_version h = 0 \/ h_version h = 1) /\ h_id h < two64 /\ h_ts h < two64 /\ h_bltxid h < two64 /\
  (h_version h = 0 -> h_nentries h < 65536) /\ h_nentries h < 4294967296 /\
  length (h_prevalh h) = 32%nat /\ length (h_eh h) = 32%nat /\ length (h_blroot h) = 32%nat /\
  len (opt_md_bytes (h_md h)) < 65536.
Proof.
  unfold hdr_valid, version_ok, len. intros V.
  repeat (apply andb_prop in V as [V ?]).
  destruct (N.eqb_spec (h_version h) 0) as [E0|E0].
  - repeat split; try lia.
  - repeat split; try lia.
Qed.

Section Binding.
Variable H : bytes -> bytes.
Hypothesis H_len : forall x, length (H x) = 32%nat.
Notation Collision := (Collision H).

Lemma inner_bytes_v_inj h h' :
  hdr_valid h = true -> hdr_valid h' = true ->
  inner_bytes_v h = inner_bytes_v h' ->
  h_ts h = h_ts h' /\ h_version h = h_version h' /\
  (if h_version h =? 0 then True else opt_md_bytes (h_md h) = opt_md_bytes (h_md h')) /\
  h_nentries h = h_nentries h' /\ h_eh h = h_eh h' /\ h_bltxid h = h_bltxid h' /\
  h_blroot h = h_blroot h'.
Proof.
  intros V V' E.
  apply hdr_valid_spec in V as (Vv & Vid & Vts & Vbl & Vne0 & Vne & Lp & Le & Lr & Lmd).
  apply hdr_valid_spec in V' as (Vv' & Vid' & Vts' & Vbl' & Vne0' & Vne' & Lp' & Le' & Lr' & Lmd').
  unfold inner_bytes_v in E.
  apply be_head_inj in E as [Ets E]; [|rewrite pow_w_ts; auto ..].
  apply be_head_inj in E as [Ev E]; [|rewrite pow_w_ssz; lia ..].
  rewrite <- Ev in E.
  assert (Tail : forall x x' : bytes,
            x ++ h_eh h ++ be_enc w_txid (h_bltxid h) ++ h_blroot h =
            x' ++ h_eh h' ++ be_enc w_txid (h_bltxid h') ++ h_blroot h' ->
            x = x' /\ h_eh h = h_eh h' /\ h_bltxid h = h_bltxid h' /\ h_blroot h = h_blroot h').
  { intros x x' E1. apply app_inj_tail_len in E1 as [Ex E1].
    2:{ rewrite !app_length, !be_enc_length. lia. }
    apply app_inj_len in E1 as [Eeh E1]; [|lia].
    apply be_head_inj in E1 as [Ebl Er]; [|rewrite pow_w_txid; auto ..].
    auto. }
  destruct (N.eqb_spec (h_version h) 0) as [E0|E0].
  - apply Tail in E as (Ene & Eeh & Ebl & Er).
    assert (h_nentries h = h_nentries h').
    { apply (be_enc_inj w_ssz); [rewrite pow_w_ssz; apply Vne0; auto | rewrite pow_w_ssz; apply Vne0'; congruence | exact Ene]. }
    repeat split; auto.
  - rewrite <- !app_assoc in E.
    apply be_head_inj in E as [Emdl E]; [|rewrite pow_w_ssz; auto ..].
    apply app_inj_len in E as [Emd E]; [|apply len_eq_length; auto].
    apply Tail in E as (Ene & Eeh & Ebl & Er).
    assert (h_nentries h = h_nentries h').
    { apply (be_enc_inj w_lsz); [rewrite pow_w_lsz; auto | rewrite pow_w_lsz; auto | exact Ene]. }
    repeat split; auto.
Qed.

(* Alh commits to every hashed field *)
Theorem alh_binding h h' :
  hdr_valid h = true -> hdr_valid h' = true ->
  alh_v H h = alh_v H h' -> hashed_fields h = hashed_fields h' \/ Collision.
Proof.
  intros V V' E. unfold alh_v in E.
  destruct (H_inj H _ _ E) as [E1|C]; auto.
  pose proof (hdr_valid_spec _ V) as (Vv & Vid & Vts & Vbl & Vne0 & Vne & Lp & Le & Lr & Lmd).
  pose proof (hdr_valid_spec _ V') as (Vv' & Vid' & Vts' & Vbl' & Vne0' & Vne' & Lp' & Le' & Lr' & Lmd').
  unfold alh_bytes in E1.
  apply be_head_inj in E1 as [Eid E1]; [|rewrite pow_w_txid; auto ..].
  apply app_inj_len in E1 as [Eprev Ein]; [|lia].
  unfold inner_hash_v in Ein.
  destruct (H_inj H _ _ Ein) as [E2|C]; auto.
  destruct (inner_bytes_v_inj _ _ V V' E2) as (Ets & Ev & Emd & Ene & Eeh & Ebl & Er).
  left. unfold hashed_fields. rewrite <- Ev.
  destruct (h_version h =? 0); congruence.
Qed.

(* alh (the partial function with Go's panic) agrees with alh_v wherever it returns *)
Lemma alh_ok h a : alh H h = Ok a -> a = alh_v H h /\ version_ok h = true.
Proof.
  unfold alh, inner_hash, inner_bytes, alh_v, inner_hash_v.
  destruct (version_ok h); cbn [bind]; intros E; [|discriminate].
  split; congruence.
Qed.

Lemma alh_of_valid h : hdr_valid h = true -> alh H h = Ok (alh_v H h).
Proof.
  unfold hdr_valid. intros V. repeat (apply andb_prop in V as [V _]).
  unfold alh, inner_hash, inner_bytes. rewrite V. reflexivity.
Qed.

(* ---- entry digests ---- *)
Theorem entry_digest_binding_v0 (key key' hval hval' : bytes) :
  length hval = 32%nat -> length hval' = 32%nat ->
  entry_digest_v0 H key hval = entry_digest_v0 H key' hval' ->
  (key = key' /\ hval = hval') \/ Collision.
Proof.
  intros L L' E. unfold entry_digest_v0 in E.
  destruct (H_inj H _ _ E) as [E1|C]; auto. left.
  apply app_inj_tail_len in E1; auto. lia.
Qed.

Theorem entry_digest_binding_v1 (md md' key key' hval hval' : bytes) :
  len md < 65536 -> len md' < 65536 -> len key < 65536 -> len key' < 65536 ->
  entry_digest_v1 H md key hval = entry_digest_v1 H md' key' hval' ->
  (md = md' /\ key = key' /\ hval = hval') \/ Collision.
Proof.
  intros Lm Lm' Lk Lk' E. unfold entry_digest_v1 in E.
  destruct (H_inj H _ _ E) as [E1|C]; auto. left.
  apply be_head_inj in E1 as [Eml E1]; [|rewrite pow_w_ssz; auto ..].
  apply app_inj_len in E1 as [Emd E1]; [|apply len_eq_length; auto].
  apply be_head_inj in E1 as [Ekl E1]; [|rewrite pow_w_ssz; auto ..].
  apply app_inj_len in E1 as [Ek Ev]; [|apply len_eq_length; auto].
  auto.
Qed.

Lemma entry_valid_spec e : entry_valid e = true ->
  len (e_md e) < 65536 /\ len (e_key e) < 65536 /\ length (e_hval e) = 32%nat.
Proof. unfold entry_valid, len. intros V. repeat (apply andb_prop in V as [V ?]). lia. Qed.

Theorem entry_digest_binding (v : N) (e e' : entry) :
  entry_valid e = true -> entry_valid e' = true ->
  entry_digest H v e = entry_digest H v e' -> entry_fields v e = entry_fields v e' \/ Collision.
Proof.
  intros V V' E. apply entry_valid_spec in V as (Lm & Lk & Lv).
  apply entry_valid_spec in V' as (Lm' & Lk' & Lv').
  unfold entry_digest, entry_fields in *. destruct (v =? 0).
  - destruct (entry_digest_binding_v0 _ _ _ _ Lv Lv' E) as [[-> ->]|C]; auto.
  - destruct (entry_digest_binding_v1 _ _ _ _ _ _ Lm Lm' Lk Lk' E) as [(-> & -> & ->)|C]; auto.
Qed.

End Binding.

(* ---- the guards are satisfiable ---- *)
Example hdr_valid_sat :
  hdr_valid {| h_id := 7; h_prevalh := zeros32; h_ts := 1700000000; h_version := 1;
               h_md := Some {| md_trunc := Some 3; md_extra := Some [1; 2; 3] |};
               h_nentries := 2; h_eh := zeros32; h_bltxid := 5; h_blroot := zeros32 |} = true.
Proof. vm_compute. reflexivity. Qed.

Example entry_valid_sat :
  entry_valid {| e_md := [0]; e_key := [0; 107]; e_hval := zeros32 |} = true.
Proof. vm_compute. reflexivity. Qed.
