(* C01 — well-formed histories: what ImmuStore.performPrecommit produces, generalised to ANY
   binary-linking lag.  A history is the list of the headers of transactions 1..n (transaction k at
   list index k-1):
     ID_k      = k
     PrevAlh_k = Alh_{k-1}            (sha256 of the empty string for k = 1: `committedAlh := sha256.Sum256(nil)`
                                      when ImmuStore opens an empty store)
     BlTxID_k  = b_k  for ANY non-decreasing b_k < k   (the store as it stands always has b_k = k-1;
                                      headers whose linking lags by more than one are allowed)
     BlRoot_k  = root of the append-only hash tree over the payloads Alh_1 .. Alh_{b_k}
                 (aht.Append(alh[:]): the payload is the raw 32-byte Alh; 32 zero bytes when b_k = 0)
     Eh_k, Ts_k, Version_k in {0,1}, Metadata_k, NEntries_k arbitrary within the field ranges.
   No proofs in this file. *)
From V Require Export Proofs.Model.

(* the field ranges of the Go struct (uint64 ids and timestamps, [32]byte digests), the header
   versions innerHash knows, and the ranges inside which the truncating casts of innerHash
   (uint16(NEntries) in version 0, uint32(NEntries) in version 1, uint16(len(md))) are exact *)
Definition hdr_valid (h : txhdr) : bool :=
  version_ok h &&
  (h_id h <? two64) && (h_ts h <? two64) && (h_bltxid h <? two64) &&
  (if h_version h =? 0 then h_nentries h <? 65536 else h_nentries h <? 4294967296) &&
  (len (h_prevalh h) =? 32) && (len (h_eh h) =? 32) && (len (h_blroot h) =? 32) &&
  (len (opt_md_bytes (h_md h)) <? 65536).

(* the fields of a header that Alh commits to (Metadata is hashed in version 1 only) *)
Definition hashed_fields (h : txhdr) :=
  (h_id h, h_prevalh h, h_ts h, h_version h,
   (if h_version h =? 0 then [] else opt_md_bytes (h_md h)),
   h_nentries h, h_eh h, h_bltxid h, h_blroot h).

Section History.
Variable H : bytes -> bytes.

Definition alhs (hs : list txhdr) : list bytes := map (alh_v H) hs.

(* the header of transaction k (1-based) *)
Definition tx_at (hs : list txhdr) (k : N) : option txhdr :=
  if k =? 0 then None else nth_error hs (N.to_nat (k - 1)).

Definition bl_root (hs : list txhdr) (b : N) : bytes :=
  if b =? 0 then zeros32 else mth H (alhs (takeN b hs)).

Record wf_hist (hs : list txhdr) : Prop := {
  wf_valid : forall k h, tx_at hs k = Some h -> hdr_valid h = true;
  wf_id    : forall k h, tx_at hs k = Some h -> h_id h = k;
  wf_first : forall h, tx_at hs 1 = Some h -> h_prevalh h = H [];
  wf_prev  : forall k h h', tx_at hs k = Some h -> tx_at hs (k + 1) = Some h' ->
                            h_prevalh h' = alh_v H h;
  wf_bl    : forall k h, tx_at hs k = Some h ->
                         h_bltxid h < k /\ h_blroot h = bl_root hs (h_bltxid h);
  wf_mono  : forall k k' h h', k <= k' -> tx_at hs k = Some h -> tx_at hs k' = Some h' ->
                               h_bltxid h <= h_bltxid h'
}.


(* boolean checker of wf_hist (sound: Proofs/HistoryB.v), used to check that the histories the real
   store produces ARE well-formed histories in the above sense *)
Fixpoint wf_from (all : list txhdr) (k : N) (prev : bytes) (prevbl : N) (rest : list txhdr) : bool :=
  match rest with
  | [] => true
  | h :: r =>
      hdr_valid h && (h_id h =? k) && bytes_eqb (h_prevalh h) prev &&
      (h_bltxid h <? k) && (prevbl <=? h_bltxid h) &&
      bytes_eqb (h_blroot h) (bl_root all (h_bltxid h)) &&
      wf_from all (k + 1) (alh_v H h) (h_bltxid h) r
  end.
Definition wf_histb (hs : list txhdr) : bool := wf_from hs 1 (H []) 0 hs.

(* a transaction = header + entries; Eh is the root of the entry-digest tree (htree.BuildWith over
   TxEntryDigest of each entry, in order; a transaction has at least one entry) *)
Record entry := { e_md : bytes; e_key : bytes; e_hval : bytes }.

(* validateEntries / MaxKeyLen / maxKVMetadataLen keep these far below the uint16 casts of the digest *)
Definition entry_valid (e : entry) : bool :=
  (len (e_md e) <? 65536) && (len (e_key e) <? 65536) && (len (e_hval e) =? 32).

(* TxHeader.TxEntryDigest(): version 0 -> TxEntryDigest_v1_1 (metadata must be empty and is not
   hashed), version 1 -> TxEntryDigest_v1_2 *)
Definition entry_digest (version : N) (e : entry) : bytes :=
  if version =? 0 then entry_digest_v0 H (e_key e) (e_hval e)
  else entry_digest_v1 H (e_md e) (e_key e) (e_hval e).

(* what an entry digest of the given header version commits to *)
Definition entry_fields (version : N) (e : entry) :=
  ((if version =? 0 then [] else e_md e), e_key e, e_hval e).

Definition eh_of (version : N) (es : list entry) : bytes := mth H (map (entry_digest version) es).

End History.
