(* C01 — no fork between well-formed histories: the Alh of transaction k commits to the whole
   prefix 1..k, so a verified advance from a trusted state of one history to a state of another
   history implies that both histories agree up to the trusted transaction. *)
From V Require Import Proofs.History Proofs.Gen Proofs.Binding Proofs.Linear Proofs.Sound Merkle.Sound.
From Coq Require Import ZifyN ZifyNat ZifyBool.

Section Fork.
Variable H : bytes -> bytes.
Hypothesis H_len : forall x, length (H x) = 32%nat.
Notation Collision := (Collision H).

Definition agree_upto (hs1 hs2 : list txhdr) (k : N) : Prop :=
  forall j, 1 <= j <= k ->
    exists a b, tx_at hs1 j = Some a /\ tx_at hs2 j = Some b /\ hashed_fields a = hashed_fields b.

Lemma alh_determines_prefix hs1 hs2 :
  wf_hist H hs1 -> wf_hist H hs2 ->
  forall n : nat, forall k g1 g2, N.to_nat k = n ->
    tx_at hs1 k = Some g1 -> tx_at hs2 k = Some g2 -> alh_v H g1 = alh_v H g2 ->
    agree_upto hs1 hs2 k \/ Collision.
Proof.
  intros W1 W2. induction n as [|n IH]; intros k g1 g2 En T1 T2 E.
  - apply tx_at_range in T1. lia.
  - pose proof (wf_valid H hs1 W1 _ _ T1) as V1. pose proof (wf_valid H hs2 W2 _ _ T2) as V2.
    destruct (alh_binding H H_len g1 g2 V1 V2 E) as [Ef|C]; auto.
    destruct (N.eq_dec k 1) as [->|K1].
    + left. intros j Hj. assert (j = 1) by lia. subst j. exists g1, g2. auto.
    + pose proof (tx_at_range _ _ _ T1) as R1. pose proof (tx_at_range _ _ _ T2) as R2.
      assert (P1 : tx_at hs1 (k - 1) = Some (hd_at hs1 (k - 1))) by (apply tx_at_hd_at; lia).
      assert (P2 : tx_at hs2 (k - 1) = Some (hd_at hs2 (k - 1))) by (apply tx_at_hd_at; lia).
      assert (T1' : tx_at hs1 (k - 1 + 1) = Some g1) by (replace (k - 1 + 1) with k by lia; auto).
      assert (T2' : tx_at hs2 (k - 1 + 1) = Some g2) by (replace (k - 1 + 1) with k by lia; auto).
      pose proof (wf_prev H hs1 W1 _ _ _ P1 T1') as Q1.
      pose proof (wf_prev H hs2 W2 _ _ _ P2 T2') as Q2.
      assert (Ep : h_prevalh g1 = h_prevalh g2) by (unfold hashed_fields in Ef; congruence).
      destruct (IH (k - 1) _ _ ltac:(lia) P1 P2 ltac:(congruence)) as [A|C]; auto.
      left. intros j Hj. destruct (N.eq_dec j k) as [->|Nj].
      * exists g1, g2. auto.
      * apply A. lia.
Qed.

(* NO FORK (VerifyDualProof, either direction of the client flow): the client's pair (src, salh) is
   a state of the well-formed history hs1, the other pair (tgt, talh) of the accepted proof is a
   state of the well-formed history hs2 — then hs1 and hs2 are the same history up to transaction
   src (all hashed header fields; entries through Eh), or a collision is exhibited.  In particular a
   verified state advance (trusted = source) can only lead to a history that extends the trusted
   one, and a verified read of an older transaction (trusted = target) returns a transaction of
   the trusted history. *)
Theorem dual_proof_no_fork hs1 hs2 p src tgt sh th g1 tg :
  wf_hist H hs1 -> wf_hist H hs2 ->
  tx_at hs1 src = Some g1 -> tx_at hs2 tgt = Some tg ->
  dp_src p = Some sh -> dp_tgt p = Some th -> hdr_valid sh = true -> hdr_valid th = true ->
  len32 (dp_incl p) ->
  verify_dual_proof H (Some p) src tgt (alh_v H g1) (alh_v H tg) = Ok true ->
  agree_upto hs1 hs2 src \/ Collision.
Proof.
  intros W1 W2 T1 T2 Ps Pt Vs Vt F V.
  destruct (dual_proof_sound_wrt_history H H_len hs2 p src tgt _ sh th tg W2 T2 Ps Pt Vs Vt F V)
    as [(g2 & Tg2 & _ & Ea)|C]; auto.
  apply (alh_determines_prefix hs1 hs2 W1 W2 (N.to_nat src) src g1 g2); auto.
Qed.

End Fork.
