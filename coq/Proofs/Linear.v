(* C01 — soundness of VerifyLinearProof against ANY hash chain, by induction over the proof terms. *)
From V Require Import Proofs.History Proofs.Binding Merkle.Sound.
From Coq Require Import ZifyN ZifyNat ZifyBool.

Lemma bytes_eqb_refl (a : bytes) : bytes_eqb a a = true.
Proof. unfold bytes_eqb. induction a as [|x a IH]; cbn [list_eqb]; auto. rewrite N.eqb_refl. exact IH. Qed.

Section Linear.
Variable H : bytes -> bytes.
Hypothesis H_len : forall x, length (H x) = 32%nat.
Notation Collision := (Collision H).

(* A k = accumulated linear hash up to transaction k, I k = inner hash of transaction k:
   A (k+1) = H(k+1 ‖ A k ‖ I (k+1)) for lo <= k < hi, every A k being a 32-byte value *)
Definition is_chain (A I : N -> bytes) (lo hi : N) : Prop :=
  (forall k, lo <= k <= hi -> length (A k) = 32%nat) /\
  (forall k, lo <= k < hi -> A (k + 1) = advance_linear_hash H (A k) (k + 1) (I (k + 1))).

Lemma lenN_cons {A} (x : A) l : lenN (x :: l) = lenN l + 1.
Proof. unfold lenN. simpl length. lia. Qed.

Lemma lin_fold_sound (A I : N -> bytes) : forall (rest : list bytes) (s : N) (c : bytes),
  length c = 32%nat ->
  is_chain A I s (s + lenN rest) ->
  lin_fold H rest (s + 1) c = A (s + lenN rest) -> c = A s \/ Collision.
Proof.
  induction rest as [|t r IH]; intros s c Lc Ch E.
  - cbn [lin_fold] in E. unfold lenN in E. simpl in E. rewrite N.add_0_r in E. auto.
  - cbn [lin_fold] in E. rewrite lenN_cons in E, Ch.
    replace (s + (lenN r + 1)) with (s + 1 + lenN r) in E, Ch by lia.
    destruct Ch as [ChL ChS].
    destruct (IH (s + 1) (advance_linear_hash H c (s + 1) t)) as [E1|C]; auto.
    + apply H_len.
    + split; intros k Hk; [apply ChL | apply ChS]; lia.
    + rewrite (ChS s) in E1 by lia. unfold advance_linear_hash in E1.
      destruct (H_inj H _ _ E1) as [E2|C]; auto.
      unfold alh_bytes in E2. apply app_inv_head in E2.
      apply app_inj_len in E2 as [E3 _]; auto.
      rewrite Lc. symmetry. apply ChL. lia.
Qed.

(* VerifyLinearProof: for every chain and every accepted proof whose target value is the chain's
   value at targetTxID, the source value is the chain's value at sourceTxID — or a collision. *)
Theorem linear_proof_sound (A I : N -> bytes) (p : option linear_proof) (src tgt : N) (salh talh : bytes) :
  is_chain A I src tgt ->
  length salh = 32%nat ->
  verify_linear_proof H p src tgt salh talh = true ->
  talh = A tgt ->
  salh = A src \/ Collision.
Proof.
  intros Ch Ls V Et. unfold verify_linear_proof in V.
  destruct p as [p|]; [|discriminate].
  destruct (N.eqb_spec (lp_src p) src) as [Es|]; [|discriminate].
  destruct (N.eqb_spec (lp_tgt p) tgt) as [Etg|]; [|discriminate].
  cbn [negb orb] in V.
  destruct (lp_terms p) as [|t0 rest] eqn:Tm; [discriminate|].
  destruct (N.eqb_spec (lp_src p) 0) as [|S0]; [discriminate|].
  destruct (N.ltb_spec (lp_tgt p) (lp_src p)) as [|Le]; [discriminate|].
  cbn [orb] in V.
  destruct (bytes_eqb salh t0) eqn:Eq0; [|discriminate]. cbn [negb] in V.
  apply list_eqb_eq in Eq0. subst t0.
  destruct (N.eqb_spec (lenN (salh :: rest)) (tgt - src + 1)) as [El|]; [|discriminate].
  cbn [negb] in V. apply list_eqb_eq in V.
  rewrite lenN_cons in El.
  assert (Etgt : tgt = src + lenN rest) by lia.
  rewrite Es in V.
  apply (lin_fold_sound A I rest src salh); auto.
  - rewrite <- Etgt. exact Ch.
  - rewrite <- Etgt, <- Et. symmetry. exact V.
Qed.

(* the premises are satisfiable: the one-element chain and the one-term proof *)
Example linear_proof_sound_sat :
  let a := H [] in
  is_chain (fun _ => a) (fun _ => []) 1 1 /\
  verify_linear_proof H (Some {| lp_src := 1; lp_tgt := 1; lp_terms := [a] |}) 1 1 a a = true.
Proof.
  cbn zeta. split.
  - split; intros k Hk; [apply H_len | lia].
  - unfold verify_linear_proof. cbn [lp_src lp_tgt lp_terms lin_fold].
    rewrite !bytes_eqb_refl. reflexivity.
Qed.

End Linear.
