(* C01 — completeness: over every well-formed history (any lag) the honest proofs are accepted. *)
From V Require Import Proofs.History Proofs.Gen Proofs.Binding Proofs.Linear Proofs.Sound
  Proofs.Session Merkle.Sound Merkle.HExact.
From Coq Require Import ZifyN ZifyNat ZifyBool.
Open Scope N_scope.

Lemma range_from_length n : forall s, length (range_from s n) = n.
Proof. induction n as [|n IH]; intros s; simpl; auto. Qed.

Lemma nth_error_takeN {A} (l : list A) : forall n i,
  N.of_nat i < n -> nth_error (takeN n l) i = nth_error l i.
Proof.
  induction l as [|x l IH]; intros n i Hi; cbn [takeN]; auto.
  destruct (N.eqb_spec n 0); [lia|].
  destruct i as [|i]; simpl; auto. apply IH. lia.
Qed.

Section Complete.
Variable H : bytes -> bytes.
Hypothesis H_len : forall x, length (H x) = 32%nat.
Notation A_at := (A_at H).
Notation I_at := (I_at H).

(* ---------- linear proofs ---------- *)
Lemma lin_fold_chain (A I : N -> bytes) lo hi : is_chain H A I lo hi ->
  forall n s, lo <= s -> s + N.of_nat n <= hi ->
  lin_fold H (map I (range_from (s + 1) n)) (s + 1) (A s) = A (s + N.of_nat n).
Proof.
  intros [_ Ch]. induction n as [|n IH]; intros s Hlo Hhi.
  - simpl. f_equal. lia.
  - cbn [range_from map lin_fold]. rewrite <- (Ch s) by lia.
    rewrite IH by lia. f_equal. lia.
Qed.

Lemma hist_chain' hs : wf_hist H hs -> is_chain H (A_at hs) (I_at hs) 1 (lenN hs).
Proof. intros W. apply (hist_chain H H_len hs W); lia. Qed.

Theorem linear_proof_complete hs s t :
  wf_hist H hs -> 1 <= s -> s <= t -> t <= lenN hs ->
  verify_linear_proof H (gen_linear_proof H hs s t) s t (A_at hs s) (A_at hs t) = true.
Proof.
  intros W Hs Hst Ht. unfold gen_linear_proof, verify_linear_proof. cbn [lp_src lp_tgt lp_terms].
  rewrite !N.eqb_refl. cbn [negb orb].
  destruct (N.eqb_spec s 0); [lia|]. destruct (N.ltb_spec t s); [lia|]. cbn [orb].
  rewrite bytes_eqb_refl. cbn [negb].
  assert (L : lenN (A_at hs s :: map (I_at hs) (range_from (s + 1) (N.to_nat (t - s)))) = t - s + 1).
  { unfold lenN. cbn [length]. rewrite map_length, range_from_length. lia. }
  rewrite L, N.eqb_refl. cbn [negb].
  rewrite (lin_fold_chain _ _ 1 (lenN hs) (hist_chain' hs W)) by lia.
  replace (s + N.of_nat (N.to_nat (t - s))) with t by lia. apply bytes_eqb_refl.
Qed.

(* ---------- inclusion in the binary-linking tree ---------- *)
Lemma tree_payloads_nth hs b k : 1 <= k -> k <= b -> b <= lenN hs ->
  nth_error (tree_payloads H hs b) (N.to_nat (k - 1)) = Some (A_at hs k).
Proof.
  intros Hk Hkb Hb. unfold tree_payloads, alhs, A_at.
  apply map_nth_error. rewrite nth_error_takeN by lia.
  unfold hd_at. apply nth_error_nth'. unfold lenN in Hb. lia.
Qed.

Lemma tree_payloads_length hs b : b <= lenN hs -> b = N.of_nat (length (tree_payloads H hs b)).
Proof.
  intros Hb. unfold tree_payloads, alhs. rewrite map_length.
  pose proof (takeN_length b hs). unfold lenN in Hb. lia.
Qed.

Lemma tree_inclusion_complete hs b k :
  1 <= k -> k <= b -> b <= lenN hs ->
  verify_inclusion H (honest_inclusion_proof H (tree_payloads H hs b) k) k b
                   (leaf_for H (A_at hs k)) (bl_root H hs b) = true.
Proof.
  intros Hk Hkb Hb. unfold bl_root. destruct (N.eqb_spec b 0); [lia|].
  apply (ahtree_inclusion_complete H H_len (tree_payloads H hs b) k b (A_at hs k)); auto.
  - intros E. pose proof (tree_payloads_length hs b Hb) as L. rewrite E in L. simpl in L. lia.
  - apply tree_payloads_length; auto.
  - apply tree_payloads_nth; auto.
Qed.

Lemma eval_inclusion_same terms : forall x c,
  eval_inclusion H terms x x c = eval_last_inclusion H terms c.
Proof.
  induction terms as [|h r IH]; intros x c; cbn [eval_inclusion eval_last_inclusion]; auto.
  rewrite N.eqb_refl, andb_false_r. apply IH.
Qed.

Lemma tree_last_inclusion_complete hs b :
  1 <= b -> b <= lenN hs ->
  verify_last_inclusion H (honest_inclusion_proof H (tree_payloads H hs b) b) b
                        (leaf_for H (A_at hs b)) (bl_root H hs b) = true.
Proof.
  intros Hb Hl. pose proof (tree_inclusion_complete hs b b Hb ltac:(lia) Hl) as V.
  unfold verify_inclusion in V. unfold verify_last_inclusion.
  destruct (N.eqb_spec b 0); [lia|]. cbn [orb].
  destruct (_ || _); [discriminate|]. destruct (negb _); [discriminate|].
  rewrite eval_inclusion_same in V. exact V.
Qed.

(* ---------- linear advance proofs ---------- *)
Lemma lap_loop_complete hs bl : wf_hist H hs -> bl <= lenN hs ->
  forall m s, 1 <= s -> s + N.of_nat m <= bl -> s + N.of_nat m <= lenN hs ->
  lap_loop H (map (fun k => honest_inclusion_proof H (tree_payloads H hs bl) k) (range_from s m))
           (map (I_at hs) (range_from (s + 1) m)) s (A_at hs s) (bl_root H hs bl) bl
  = Ok (Some (A_at hs (s + N.of_nat m))).
Proof.
  intros W Hbl. destruct (hist_chain' hs W) as [_ Ch].
  induction m as [|m IH]; intros s Hs Hb Hl.
  - simpl. do 3 f_equal. lia.
  - cbn [range_from map lap_loop].
    rewrite tree_inclusion_complete by lia. cbn [negb].
    rewrite <- (Ch s) by lia. rewrite IH by lia. do 3 f_equal. lia.
Qed.

Lemma lap_complete hs s e bl :
  wf_hist H hs -> s <= e -> e <= bl -> bl <= lenN hs -> s + 1 < two64 ->
  verify_linear_advance_proof H (gen_lap H hs s e bl) s e (A_at hs e) (bl_root H hs bl) bl = Ok true.
Proof.
  intros W Hse Heb Hbl Hw. unfold verify_linear_advance_proof, gen_lap.
  destruct (N.ltb_spec e s); [lia|].
  rewrite (N.mod_small (s + 1) two64) by exact Hw.
  destruct (N.leb_spec e (s + 1)) as [Le|Gt]; [reflexivity|].
  cbn [lap_terms lap_incls].
  assert (L1 : lenN (A_at hs (s + 1) :: map (I_at hs) (range_from (s + 1 + 1) (N.to_nat (e - s - 1)))) = e - s).
  { unfold lenN. cbn [length]. rewrite map_length, range_from_length. lia. }
  assert (L2 : lenN (map (fun k => honest_inclusion_proof H (tree_payloads H hs bl) k)
                         (range_from (s + 1) (N.to_nat (e - s - 1)))) = e - s - 1).
  { unfold lenN. rewrite map_length, range_from_length. lia. }
  rewrite L1, L2, !N.eqb_refl. cbn [negb orb].
  rewrite (lap_loop_complete hs bl W Hbl) by lia. cbn [bind].
  replace (s + 1 + N.of_nat (N.to_nat (e - s - 1))) with e by lia.
  rewrite bytes_eqb_refl. reflexivity.
Qed.

(* ---------- dual proofs ---------- *)
Lemma hd_facts hs k : wf_hist H hs -> 1 <= k -> k <= lenN hs ->
  hdr_valid (hd_at hs k) = true /\ h_id (hd_at hs k) = k /\ h_bltxid (hd_at hs k) < k /\
  h_blroot (hd_at hs k) = bl_root H hs (h_bltxid (hd_at hs k)).
Proof.
  intros W H1 H2. assert (T : tx_at hs k = Some (hd_at hs k)) by (apply tx_at_hd_at; lia).
  pose proof (wf_valid H hs W _ _ T). pose proof (wf_id H hs W _ _ T).
  destruct (wf_bl H hs W _ _ T). auto.
Qed.

(* COMPLETENESS of VerifyDualProof: for every well-formed history (any lag) and every i <= j the proof
   ImmuStore.DualProof assembles is accepted — relative to the consistency proof `cons` being
   accepted by ahtree.VerifyConsistency (the store takes it from AHtree.ConsistencyProof). *)
Theorem dual_proof_gen_complete repaired hs cons i j :
  wf_hist H hs -> 1 <= i -> i <= j -> j <= lenN hs ->
  (0 < h_bltxid (hd_at hs i) ->
   verify_consistency_fixed H cons (h_bltxid (hd_at hs i)) (h_bltxid (hd_at hs j))
                      (h_blroot (hd_at hs i)) (h_blroot (hd_at hs j)) = Ok true) ->
  verify_dual_proof_gen H repaired (Some (gen_dual_proof H hs cons i j)) i j (A_at hs i) (A_at hs j) = Ok true.
Proof.
  intros W Hi Hij Hj Hc.
  destruct (hd_facts hs i W Hi ltac:(lia)) as (Vs & Is & Bs & Rs).
  destruct (hd_facts hs j W ltac:(lia) Hj) as (Vt & It & Bt & Rt).
  assert (Mono : h_bltxid (hd_at hs i) <= h_bltxid (hd_at hs j)).
  { apply (wf_mono H hs W i j); auto; apply tx_at_hd_at; lia. }
  pose proof (hdr_valid_spec _ Vs) as (_ & Vid & _).
  unfold verify_dual_proof_gen, gen_dual_proof. cbn [dp_src dp_tgt dp_incl dp_cons dp_tblalh dp_last dp_lin dp_lap].
  set (sh := hd_at hs i) in *. set (th := hd_at hs j) in *.
  set (b := h_bltxid th) in *. set (bs := h_bltxid sh) in *.
  rewrite Is, It, !N.eqb_refl. cbn [negb orb].
  destruct (N.eqb_spec i 0); [lia|]. destruct (N.ltb_spec j i); [lia|]. cbn [orb].
  rewrite (alh_of_valid H sh Vs). cbn [bind]. fold (A_at hs i).
  rewrite bytes_eqb_refl. cbn [negb].
  rewrite (alh_of_valid H th Vt). cbn [bind]. fold (A_at hs j).
  rewrite bytes_eqb_refl. cbn [negb].
  assert (Cons : (if 0 <? bs then verify_consistency_fixed H cons bs b (h_blroot sh) (h_blroot th) else Ok true) = Ok true).
  { destruct (N.ltb_spec 0 bs); auto. }
  destruct (N.ltb_spec i b) as [Lt|Ge].
  - (* the source is inside the target's tree *)
    destruct (N.ltb_spec 0 b); [|lia].
    rewrite Rt. rewrite tree_inclusion_complete by lia. cbn [negb andb].
    rewrite <- Rt. rewrite Cons. cbn [bind negb]. rewrite Rt.
    rewrite tree_last_inclusion_complete by lia. cbn [negb andb].
    rewrite N.max_r by lia. rewrite linear_proof_complete by (auto; lia). cbn [negb].
    rewrite N.min_l by lia. apply lap_complete; auto; lia.
  - cbn [andb]. rewrite Cons. cbn [bind negb].
    destruct (N.ltb_spec 0 b) as [Pb|Zb]; cbv iota.
    + cbn [andb]. rewrite Rt. rewrite tree_last_inclusion_complete by lia. cbn [negb].
      assert (Fx : (repaired && (i =? b) && negb (bytes_eqb (A_at hs b) (A_at hs i))) = false).
      { destruct (N.eqb_spec i b) as [E|NE].
        - rewrite <- E, bytes_eqb_refl. cbn [negb]. apply andb_false_r.
        - rewrite andb_false_r. reflexivity. }
      rewrite Fx.
      rewrite N.max_l by lia. rewrite linear_proof_complete by (auto; lia). cbn [negb].
      rewrite N.min_r by lia. apply lap_complete; auto; lia.
    + cbn [andb]. destruct (N.eqb_spec i b); [lia|]. rewrite andb_false_r. cbn [andb].
      rewrite N.max_l by lia. rewrite linear_proof_complete by (auto; lia). cbn [negb].
      assert (b = 0) by lia. unfold verify_linear_advance_proof.
      destruct (N.ltb_spec b bs); [lia|]. rewrite (N.mod_small (bs + 1) two64) by lia.
      destruct (N.leb_spec b (bs + 1)); [reflexivity | lia].
Qed.

Theorem dual_proof_complete hs cons i j :
  wf_hist H hs -> 1 <= i -> i <= j -> j <= lenN hs ->
  (0 < h_bltxid (hd_at hs i) ->
   verify_consistency_fixed H cons (h_bltxid (hd_at hs i)) (h_bltxid (hd_at hs j))
                      (h_blroot (hd_at hs i)) (h_blroot (hd_at hs j)) = Ok true) ->
  verify_dual_proof H (Some (gen_dual_proof H hs cons i j)) i j (A_at hs i) (A_at hs j) = Ok true.
Proof. unfold verify_dual_proof. apply dual_proof_gen_complete. Qed.

(* COMPLETENESS of VerifyDualProofV2 (headers with BlTxID = ID - 1, as the verifier demands),
   relative to the consistency proof being accepted *)
Theorem dual_proof_v2_complete hs cons i j :
  wf_hist H hs -> 1 <= i -> i <= j -> j <= lenN hs ->
  h_bltxid (hd_at hs i) = i - 1 -> h_bltxid (hd_at hs j) = j - 1 ->
  (i < j ->
   (if i =? 1
    then verify_consistency_fixed H cons i (j - 1) (leaf_for H (A_at hs i)) (h_blroot (hd_at hs j))
    else verify_consistency_fixed H cons (i - 1) (j - 1) (h_blroot (hd_at hs i)) (h_blroot (hd_at hs j))) = Ok true) ->
  verify_dual_proof_v2 H (Some (gen_dual_proof_v2 H hs cons i j)) i j (A_at hs i) (A_at hs j) = Ok true.
Proof.
  intros W Hi Hij Hj Bi Bj Hc.
  destruct (hd_facts hs i W Hi ltac:(lia)) as (Vs & Is & Bs & Rs).
  destruct (hd_facts hs j W ltac:(lia) Hj) as (Vt & It & Bt & Rt).
  unfold verify_dual_proof_v2, verify_dual_proof_v2_gen, gen_dual_proof_v2. cbn [d2_src d2_tgt d2_incl d2_cons].
  set (sh := hd_at hs i) in *. set (th := hd_at hs j) in *.
  rewrite Is, It, Bi, Bj, !N.eqb_refl. cbn [negb orb].
  destruct (N.eqb_spec i 0); [lia|]. destruct (N.ltb_spec j i); [lia|]. cbn [orb].
  rewrite (alh_of_valid H sh Vs). cbn [bind]. fold (A_at hs i).
  rewrite bytes_eqb_refl. cbn [negb].
  rewrite (alh_of_valid H th Vt). cbn [bind]. fold (A_at hs j).
  rewrite bytes_eqb_refl. cbn [negb].
  destruct (N.eqb_spec i j) as [E|Ne]; [rewrite E, bytes_eqb_refl; reflexivity|].
  destruct (N.ltb_spec i j); [|lia].
  specialize (Hc ltac:(lia)). rewrite Bj in Rt. rewrite Rt in Hc |- *.
  rewrite tree_inclusion_complete by lia. cbn [negb].
  destruct (N.eqb_spec i 1); exact Hc.
Qed.

(* ---------- entry inclusion (htree.VerifyInclusion) ---------- *)
(* COMPLETENESS of the entry inclusion proof: for every transaction (entries es, Eh = tree over their
   digests) and every entry index the honest proof (Tx.Proof) is accepted by store.VerifyInclusion
   (coq/Merkle/HExact.v htree_inclusion_complete) *)
Theorem entry_inclusion_complete (v : N) (es : list entry) (idx : N) (e : entry) :
  nth_error es (N.to_nat idx) = Some e ->
  verify_entry_inclusion H (gen_entry_proof H v es idx) (entry_digest H v e) (eh_of H v es) = true.
Proof.
  intros He. unfold gen_entry_proof, verify_entry_inclusion, eh_of.
  set (ds := map (entry_digest H v) es).
  assert (Hd : nth_error ds (N.to_nat idx) = Some (entry_digest H v e)) by (unfold ds; apply map_nth_error; exact He).
  pose proof (htree_inclusion_complete H H_len ds (N.to_nat idx) _ Hd) as V.
  replace (Z.of_nat (N.to_nat idx)) with (Z.of_N idx) in V by lia.
  replace (Z.of_nat (length ds)) with (Z.of_N (lenN es)) in V by (unfold ds, lenN; rewrite map_length; lia).
  replace (N.of_nat (N.to_nat idx) + 1) with (idx + 1) in V by lia.
  exact V.
Qed.

(* ---------- the client accepts every honest response ---------- *)
(* the client holds no state or a state of the history; the server answers a verified read of
   transaction v with the proof ImmuStore.DualProof assembles between the two (pkg/database
   VerifiableTxByID: source = the older one); the client accepts and ends in the state of the
   history at max(trusted id, v) *)
Theorem client_accepts_honest hs cons (st : option (N * bytes)) (v : N) :
  wf_hist H hs -> 1 <= v -> v <= lenN hs ->
  let s := match st with Some x => fst x | None => v end in
  (1 <= s /\ s <= lenN hs /\ (forall x, st = Some x -> snd x = A_at hs s)) ->
  let i := N.min s v in let j := N.max s v in
  (0 < h_bltxid (hd_at hs i) ->
   verify_consistency_fixed H cons (h_bltxid (hd_at hs i)) (h_bltxid (hd_at hs j))
                      (h_blroot (hd_at hs i)) (h_blroot (hd_at hs j)) = Ok true) ->
  client_step H st v (gen_dual_proof H hs cons i j) = Ok (Some (j, A_at hs j)).
Proof.
  intros W Hv1 Hv2 s (Hs1 & Hs2 & Hst) i j Hc.
  assert (Hij : 1 <= i /\ i <= j /\ j <= lenN hs) by (unfold i, j; lia).
  destruct (hd_facts hs i W ltac:(lia) ltac:(lia)) as (Vs & _).
  destruct (hd_facts hs j W ltac:(lia) ltac:(lia)) as (Vt & _).
  pose proof (dual_proof_complete hs cons i j W ltac:(lia) ltac:(lia) ltac:(lia) Hc) as D.
  unfold client_step. cbn [gen_dual_proof dp_src dp_tgt].
  rewrite (alh_of_valid H _ Vs), (alh_of_valid H _ Vt). fold (A_at hs i) (A_at hs j).
  destruct st as [[sid shash]|].
  - cbn [fst snd] in *. specialize (Hst _ eq_refl). cbn [snd] in Hst. subst shash.
    destruct (N.leb_spec sid v) as [Le|Gt]; cbn [bind].
    + destruct (N.ltb_spec 0 sid); [|lia].
      replace sid with i at 1 by (unfold i, s; lia). replace v with j at 1 by (unfold j, s; lia).
      replace (A_at hs s) with (A_at hs i) by (f_equal; unfold i, s; lia).
      rewrite D. cbn [bind]. do 3 f_equal; unfold j, s; lia.
    + destruct (N.ltb_spec 0 sid); [|lia].
      replace v with i at 1 by (unfold i, s; lia). replace sid with j at 1 by (unfold j, s; lia).
      replace (A_at hs s) with (A_at hs j) by (f_equal; unfold j, s; lia).
      rewrite D. cbn [bind]. do 3 f_equal; unfold j, s; lia.
  - cbn [fst] in *. destruct (N.leb_spec 0 v); [|lia]. cbn [bind].
    destruct (N.ltb_spec 0 0); [lia|]. cbn [bind].
    do 3 f_equal; unfold j, s; lia.
Qed.

End Complete.
