(* C01 — completeness without side condition: with the consistency proof AHtree.ConsistencyProof
   generates (coq/Merkle/AHTCons.v cons_ref, accepted by VerifyConsistency: ConsFixed.v
   consistency_fixed_complete) the honest dual proofs are accepted over every well-formed history. *)
From V Require Import Proofs.History Proofs.Gen Proofs.Binding Proofs.Linear Proofs.Sound
  Proofs.Session Proofs.Complete Merkle.Sound Merkle.RefEq Merkle.AHT Merkle.AHTCons Merkle.ConsComplete Merkle.ConsFixed.
From Coq Require Import ZifyN ZifyNat ZifyBool.
Open Scope N_scope.

Section Full.
Variable H : bytes -> bytes.
Hypothesis H_len : forall x, length (H x) = 32%nat.
Notation A_at := (A_at H).

(* AHtree.ConsistencyProof(a, b) over the tree holding the Alh values of hs *)
Definition gen_cons (hs : list txhdr) (a b : N) : list bytes :=
  cons_ref H (alhs H hs) (height_of b) a b [].

(* ImmuStore.DualProof(i, j) in full *)
Definition gen_dual_proof_full (hs : list txhdr) (i j : N) : dual_proof :=
  let bs := h_bltxid (hd_at hs i) in
  gen_dual_proof H hs (if 0 <? bs then gen_cons hs bs (h_bltxid (hd_at hs j)) else []) i j.

(* ImmuStore.DualProofV2(i, j) in full: ConsistencyProof(max(1, source.BlTxID), target.BlTxID) *)
Definition gen_dual_proof_v2_full (hs : list txhdr) (i j : N) : dual_proof_v2 :=
  gen_dual_proof_v2 H hs
    (if i <? j then gen_cons hs (N.max 1 (h_bltxid (hd_at hs i))) (h_bltxid (hd_at hs j)) else []) i j.

Lemma bl_root_firstn hs a : 1 <= a -> bl_root H hs a = mth H (firstn (N.to_nat a) (alhs H hs)).
Proof.
  intros Ha. unfold bl_root. destruct (N.eqb_spec a 0); [lia|].
  unfold alhs. rewrite takeN_firstn, firstn_map. reflexivity.
Qed.

Lemma cons_complete hs a b : 1 <= a -> a <= b -> b <= lenN hs ->
  verify_consistency_fixed H (gen_cons hs a b) a b (bl_root H hs a) (bl_root H hs b) = Ok true.
Proof.
  intros Ha Hab Hb. rewrite !bl_root_firstn by lia. unfold gen_cons.
  apply (consistency_fixed_complete H); auto.
  unfold lenN, alhs in *. rewrite map_length. exact Hb.
Qed.

Theorem dual_proof_complete_full hs i j :
  wf_hist H hs -> 1 <= i -> i <= j -> j <= lenN hs ->
  verify_dual_proof H (Some (gen_dual_proof_full hs i j)) i j (A_at hs i) (A_at hs j) = Ok true.
Proof.
  intros W Hi Hij Hj. unfold gen_dual_proof_full.
  apply (dual_proof_complete H H_len); auto.
  intros Pb. destruct (N.ltb_spec 0 (h_bltxid (hd_at hs i))); [|lia].
  destruct (hd_facts H hs i W Hi ltac:(lia)) as (_ & _ & Bs & Rs).
  destruct (hd_facts H hs j W ltac:(lia) Hj) as (_ & _ & Bt & Rt).
  rewrite Rs, Rt. apply cons_complete; try lia.
  apply (wf_mono H hs W i j); auto; apply tx_at_hd_at; lia.
Qed.

Lemma bl_root_one hs : 1 <= lenN hs -> bl_root H hs 1 = leaf_for H (A_at hs 1).
Proof.
  intros Hl. destruct hs as [|h r]; [unfold lenN in Hl; simpl in Hl; lia|].
  unfold bl_root, A_at, hd_at, alhs. cbn [N.eqb takeN]. change (1 =? 0) with false. cbv iota.
  replace (takeN (1 - 1) r) with (@nil txhdr) by (destruct r; reflexivity).
  reflexivity.
Qed.

Theorem dual_proof_v2_complete_full hs i j :
  wf_hist H hs -> 1 <= i -> i <= j -> j <= lenN hs ->
  h_bltxid (hd_at hs i) = i - 1 -> h_bltxid (hd_at hs j) = j - 1 ->
  verify_dual_proof_v2 H (Some (gen_dual_proof_v2_full hs i j)) i j (A_at hs i) (A_at hs j) = Ok true.
Proof.
  intros W Hi Hij Hj Bi Bj. unfold gen_dual_proof_v2_full.
  apply (dual_proof_v2_complete H H_len); auto.
  intros Lt. destruct (N.ltb_spec i j); [|lia].
  destruct (hd_facts H hs i W Hi ltac:(lia)) as (_ & _ & _ & Rs).
  destruct (hd_facts H hs j W ltac:(lia) Hj) as (_ & _ & _ & Rt).
  rewrite Bi in *. rewrite Bj in *. rewrite Rt.
  destruct (N.eqb_spec i 1) as [->|N1].
  - replace (N.max 1 (1 - 1)) with 1 by lia. rewrite <- bl_root_one by lia.
    apply cons_complete; lia.
  - rewrite Rs. replace (N.max 1 (i - 1)) with (i - 1) by lia. apply cons_complete; lia.
Qed.

(* the client (client_step) accepts every honest answer, no side condition *)
Theorem client_accepts_honest_full hs (st : option (N * bytes)) (v : N) :
  wf_hist H hs -> 1 <= v -> v <= lenN hs ->
  let s := match st with Some x => fst x | None => v end in
  (1 <= s /\ s <= lenN hs /\ (forall x, st = Some x -> snd x = A_at hs s)) ->
  let i := N.min s v in let j := N.max s v in
  client_step H st v (gen_dual_proof_full hs i j) = Ok (Some (j, A_at hs j)).
Proof.
  intros W Hv1 Hv2 s Hs i j. unfold gen_dual_proof_full.
  destruct Hs as (Hs1 & Hs2 & Hs3).
  assert (Ri : 1 <= i /\ i <= j /\ j <= lenN hs) by (unfold i, j; lia).
  apply (client_accepts_honest H H_len hs _ st v W Hv1 Hv2 (conj Hs1 (conj Hs2 Hs3))).
  fold s. fold i. fold j. intros Pb.
  destruct (N.ltb_spec 0 (h_bltxid (hd_at hs i))); [|lia].
  destruct (hd_facts H hs i W ltac:(lia) ltac:(lia)) as (_ & _ & Bs & Rs).
  destruct (hd_facts H hs j W ltac:(lia) ltac:(lia)) as (_ & _ & Bt & Rt).
  rewrite Rs, Rt. apply cons_complete; try lia.
  apply (wf_mono H hs W i j); [lia | |]; apply tx_at_hd_at; lia.
Qed.

End Full.
