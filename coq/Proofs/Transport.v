(* C01 — fact (T): transport of inclusion across a consistency proof, against an ARBITRARY server.
   No genuine-tree premise anywhere: R and R' are arbitrary 32-byte values.

     verify_consistency_fixed H cproof m n R R' = Ok true ->
     verify_inclusion H t i m leaf R = true ->
     exists t', verify_inclusion H t' i n leaf R' = true      \/ Collision H

   Route: with the lengths pinned (c59ab5b, 05f2785) both verifiers are level-synchronous folds; the
   consistency loop from c0 = cproof[0] IS an inclusion fold of c0 at index fn among sn+1 nodes of
   level t0 (cons_loop_as_incl), the old root being the same fold restricted to the left siblings
   (old_eval). The two folds to the old root are matched from the top with nodeh_inj only, and the
   new path is assembled from the terms of both proofs (transport_inner / transport_outer). *)
From V Require Import Proofs.History Proofs.Linear Proofs.Unique Proofs.ConsLen Merkle.Sound Merkle.VerifyFixed Merkle.AHTArith Merkle.ConsComplete.
From Coq Require Import ZifyN ZifyNat ZifyBool.
Open Scope N_scope.

Lemma lenN_cons1 {A} (x : A) l : lenN (x :: l) = 1 + lenN l.
Proof. unfold lenN. cbn [length]. lia. Qed.

(* ---------- inclusionProofLen without fuel ---------- *)
Lemma div2_lt_pow y f : y < 2 ^ N.of_nat (S f) -> N.div2 y < 2 ^ N.of_nat f.
Proof. rewrite Nnat.Nat2N.inj_succ, N.pow_succ_r', N.div2_div. lia. Qed.

Lemma incl_len_fuel : forall f1 f2 x y,
  x <= y -> y < 2 ^ N.of_nat f1 -> y < 2 ^ N.of_nat f2 -> incl_len_f f1 x y = incl_len_f f2 x y.
Proof.
  induction f1 as [|f1 IH]; intros f2 x y Hxy H1 H2.
  - simpl in H1. assert (y = 0) by lia. assert (x = 0) by lia. subst.
    destruct f2; reflexivity.
  - destruct f2 as [|f2].
    + simpl in H2. assert (y = 0) by lia. assert (x = 0) by lia. subst. reflexivity.
    + cbn [incl_len_f].
      assert (Hd : N.div2 x <= N.div2 y) by (rewrite !N.div2_div; lia).
      rewrite (IH f2 (N.div2 x) (N.div2 y) Hd (div2_lt_pow _ _ H1) (div2_lt_pow _ _ H2)).
      reflexivity.
Qed.

Definition ilenN (x y : N) : N := incl_len_f (N.to_nat (N.size y)) x y.

Lemma size_bound y : y < 2 ^ N.of_nat (N.to_nat (N.size y)).
Proof. rewrite N2Nat.id. apply N.size_gt. Qed.

Lemma ilenN_fuel f x y : x <= y -> y < 2 ^ N.of_nat f -> incl_len_f f x y = ilenN x y.
Proof. intros Hxy Hf. apply incl_len_fuel; auto. apply size_bound. Qed.

Lemma ilenN_step x y : x <= y -> y <> 0 ->
  ilenN x y = (if x =? y then (if N.odd y then 1 else 0) else 1) + ilenN (N.div2 x) (N.div2 y).
Proof.
  intros Hxy Hy.
  pose proof (size_bound y) as B.
  destruct (N.to_nat (N.size y)) as [|f] eqn:Ef.
  - simpl in B. lia.
  - unfold ilenN at 1. rewrite Ef. cbn [incl_len_f].
    assert (Hd : N.div2 x <= N.div2 y) by (rewrite !N.div2_div; lia).
    rewrite (ilenN_fuel f _ _ Hd (div2_lt_pow _ _ B)).
    destruct (N.eqb_spec x y); [|reflexivity].
    destruct (N.eqb_spec y 0); [contradiction | reflexivity].
Qed.

Lemma ilenN_00 : ilenN 0 0 = 0.
Proof. reflexivity. Qed.

Lemma ilenN_lt x y : x < y -> ilenN x y = 1 + ilenN (N.div2 x) (N.div2 y).
Proof. intros L. rewrite ilenN_step by lia. destruct (N.eqb_spec x y); [lia | reflexivity]. Qed.

Lemma ilenN_eq y : ilenN y y = (if N.odd y then 1 else 0) + ilenN (N.div2 y) (N.div2 y).
Proof.
  destruct (N.eq_dec y 0) as [->|Ny]; [reflexivity|].
  rewrite ilenN_step by lia. rewrite N.eqb_refl. reflexivity.
Qed.

Lemma inclusion_proof_len_ilenN i j : 1 <= i -> i <= j ->
  inclusion_proof_len i j = ilenN (i - 1) (j - 1).
Proof.
  intros Hi Hij. unfold inclusion_proof_len. apply ilenN_fuel; [lia|].
  unfold fuel_for. destruct (N.eq_dec (j - 1) 0) as [->|Nz]; [reflexivity|].
  pose proof (N.log2_spec (j - 1) ltac:(lia)) as [_ Hi2].
  replace (N.of_nat (S (S (N.to_nat (N.log2 (j - 1)))))) with (N.succ (N.succ (N.log2 (j - 1)))) by lia.
  rewrite N.pow_succ_r'. lia.
Qed.

Section Transport.
Variable H : bytes -> bytes.
Hypothesis H_len : forall x, length (H x) = 32%nat.
Notation Collision := (Collision H).
Notation nodeh := (nodeh H).

Lemma nodeh_len a b : length (nodeh a b) = 32%nat.
Proof. unfold Tree.nodeh. apply H_len. Qed.

(* the OLD root of a consistency proof: the inclusion fold restricted to the left siblings *)
Fixpoint old_eval (r : list bytes) (x y : N) (c : bytes) : bytes :=
  match r with
  | [] => c
  | h :: r' =>
      let c' := if N.even x && negb (x =? y) then c else nodeh h c in
      old_eval r' (N.div2 x) (N.div2 y) c'
  end.

Lemma old_eval_same r : forall z c, old_eval r z z c = eval_last_inclusion H r c.
Proof.
  induction r as [|h r IH]; intros z c; cbn [old_eval eval_last_inclusion]; [reflexivity|].
  rewrite N.eqb_refl. cbn [negb]. rewrite andb_false_r. apply IH.
Qed.

Lemma eval_incl_same r : forall z c, eval_inclusion H r z z c = eval_last_inclusion H r c.
Proof.
  induction r as [|h r IH]; intros z c; cbn [eval_inclusion eval_last_inclusion]; [reflexivity|].
  rewrite N.eqb_refl. cbn [negb]. rewrite andb_false_r. apply IH.
Qed.

Lemma strip_even_eq : forall fuel z, exists z', strip_even fuel z z = (z', z').
Proof.
  induction fuel as [|f IH]; intros z; cbn [strip_even]; [eauto|].
  destruct (N.even z && negb (z =? 0)); [apply IH | eauto].
Qed.

Lemma cons_loop_eq r : forall z ci cj,
  cons_loop H r z z ci cj = (eval_last_inclusion H r ci, eval_last_inclusion H r cj).
Proof.
  induction r as [|h r IH]; intros z ci cj; cbn [cons_loop eval_last_inclusion]; [reflexivity|].
  rewrite N.eqb_refl, orb_true_r.
  destruct (strip_even_eq (S (N.size_nat z)) z) as [z' ->]. apply IH.
Qed.

Lemma strip_even_odd' fuel fn sn : N.odd fn = true -> strip_even fuel fn sn = (fn, sn).
Proof.
  intros O. destruct fuel; [reflexivity|]. cbn [strip_even].
  rewrite <- N.negb_odd, O. reflexivity.
Qed.

(* the consistency loop IS the pair (old fold, inclusion fold) *)
Lemma cons_loop_as_incl r : forall fn sn ci cj,
  cons_loop H r fn sn ci cj = (old_eval r fn sn ci, eval_inclusion H r fn sn cj).
Proof.
  induction r as [|h r IH]; intros fn sn ci cj; [reflexivity|].
  destruct (N.eqb_spec fn sn) as [->|Ne].
  - rewrite cons_loop_eq, old_eval_same, eval_incl_same. reflexivity.
  - cbn [cons_loop old_eval eval_inclusion].
    destruct (N.eqb_spec fn sn); [contradiction|]. cbn [negb]. rewrite andb_true_r, orb_false_r.
    rewrite <- N.negb_odd. destruct (N.odd fn) eqn:O; cbn [negb].
    + rewrite (strip_even_odd' _ fn sn O). apply IH.
    + apply IH.
Qed.

(* an all-left fold of pinned length and the old fold to the same value start from the same value *)
Lemma old_vs_last : forall (f : nat) (z w : N) (r t : list bytes) (c1 c2 : bytes),
  w < 2 ^ N.of_nat f -> z <= w ->
  lenN r = ilenN z w -> lenN t = ilenN z z -> len32 r -> len32 t -> length c1 = length c2 ->
  eval_last_inclusion H t c1 = old_eval r z w c2 -> c1 = c2 \/ Collision.
Proof.
  induction f as [|f IH]; intros z w r t c1 c2 Hf Hzw Lr Lt Fr Ft Lc E.
  - simpl in Hf. assert (w = 0) by lia. assert (z = 0) by lia. subst.
    rewrite ilenN_00 in Lr, Lt. destruct r; [|unfold lenN in Lr; cbn [length] in Lr; lia].
    destruct t; [|unfold lenN in Lt; cbn [length] in Lt; lia]. left. exact E.
  - destruct (N.eqb_spec z w) as [->|Ne].
    + rewrite old_eval_same in E.
      apply (eval_last_inj H H_len t r c1 c2); auto. unfold lenN in *. lia.
    + assert (Lt' : z < w) by lia. rewrite (ilenN_lt _ _ Lt') in Lr.
      destruct r as [|h r]; [unfold lenN in Lr; cbn [length] in Lr; lia|].
      rewrite lenN_cons1 in Lr. inversion Fr as [|? ? Lh Fr']; subst.
      cbn [old_eval] in E. destruct (N.eqb_spec z w); [contradiction|]. cbn [negb] in E. rewrite andb_true_r in E.
      assert (Hd : N.div2 z <= N.div2 w) by (rewrite !N.div2_div; lia).
      rewrite ilenN_eq in Lt.
      destruct (N.even z) eqn:Ev.
      * rewrite <- N.negb_even, Ev in Lt. cbn [negb] in Lt.
        apply (IH (N.div2 z) (N.div2 w) r t c1 c2); auto; try lia. apply div2_lt_pow; auto.
      * rewrite <- N.negb_even, Ev in Lt. cbn [negb] in Lt.
        destruct t as [|g t]; [unfold lenN in Lt; cbn [length] in Lt; lia|].
        rewrite lenN_cons1 in Lt. inversion Ft as [|? ? Lg Ft']; subst.
        cbn [eval_last_inclusion] in E.
        destruct (IH (N.div2 z) (N.div2 w) r t (nodeh g c1) (nodeh h c2)) as [E1|C]; auto; try lia.
        { apply div2_lt_pow; auto. } { rewrite !nodeh_len. reflexivity. }
        destruct (nodeh_inj H g c1 h c2 ltac:(congruence) E1) as [[_ ->]|C]; auto.
Qed.

(* one level of the consistency fold (old value ci, new value cj at index y of y'+1 nodes) *)
Lemma b_step (y y' : N) (r : list bytes) (ci cj : bytes) :
  y <= y' -> y <> 0 -> lenN r = ilenN y y' -> len32 r -> length ci = 32%nat -> length cj = 32%nat ->
  exists r2 ci2 cj2,
    lenN r2 = ilenN (N.div2 y) (N.div2 y') /\ len32 r2 /\ length ci2 = 32%nat /\ length cj2 = 32%nat /\
    old_eval r y y' ci = old_eval r2 (N.div2 y) (N.div2 y') ci2 /\
    eval_inclusion H r y y' cj = eval_inclusion H r2 (N.div2 y) (N.div2 y') cj2.
Proof.
  intros Hy Hy0 Lr Fr Lci Lcj.
  destruct (N.eq_dec y y') as [<-|Ne].
  - rewrite ilenN_eq in Lr. destruct (N.odd y) eqn:O.
    + destruct r as [|h r]; [unfold lenN in Lr; cbn [length] in Lr; lia|].
      rewrite lenN_cons1 in Lr. inversion Fr as [|? ? Lh Fr']; subst.
      exists r, (nodeh h ci), (nodeh h cj). rewrite !nodeh_len.
      repeat split; auto; try lia.
      * cbn [old_eval]. rewrite N.eqb_refl. cbn [negb]. rewrite andb_false_r. reflexivity.
      * cbn [eval_inclusion]. rewrite N.eqb_refl. cbn [negb]. rewrite andb_false_r. reflexivity.
    + exists r, ci, cj. repeat split; auto; try lia.
      * rewrite !old_eval_same. reflexivity.
      * rewrite !eval_incl_same. reflexivity.
  - rewrite ilenN_lt in Lr by lia.
    destruct r as [|h r]; [unfold lenN in Lr; cbn [length] in Lr; lia|].
    rewrite lenN_cons1 in Lr. inversion Fr as [|? ? Lh Fr']; subst.
    exists r, (if N.even y then ci else nodeh h ci), (if N.even y then nodeh cj h else nodeh h cj).
    repeat split; auto; try lia.
    + destruct (N.even y); auto. apply nodeh_len.
    + destruct (N.even y); apply nodeh_len.
    + cbn [old_eval]. destruct (N.eqb_spec y y'); [contradiction|]. cbn [negb]. rewrite andb_true_r. reflexivity.
    + cbn [eval_inclusion]. destruct (N.eqb_spec y y'); [contradiction|]. cbn [negb]. rewrite andb_true_r. reflexivity.
Qed.

(* the inner phase: x < y <= y' at one level, old value ci and new value cj at index y *)
Lemma transport_inner : forall (f : nat) (x y y' : N) (leaf ci cj : bytes) (t r : list bytes),
  y' < 2 ^ N.of_nat f -> x < y -> y <= y' ->
  lenN t = ilenN x y -> lenN r = ilenN y y' ->
  len32 t -> len32 r -> length leaf = 32%nat -> length ci = 32%nat -> length cj = 32%nat ->
  eval_inclusion H t x y leaf = old_eval r y y' ci ->
  (exists t', len32 t' /\ lenN t' = ilenN x y' /\
              eval_inclusion H t' x y' leaf = eval_inclusion H r y y' cj) \/ Collision.
Proof.
  induction f as [|f IH]; intros x y y' leaf ci cj t r Hf Hxy Hyy Lt Lr Ft Fr Ll Lci Lcj E.
  - simpl in Hf. lia.
  - rewrite ilenN_lt in Lt by lia.
    destruct t as [|hA tA]; [unfold lenN in Lt; cbn [length] in Lt; lia|].
    rewrite lenN_cons1 in Lt. inversion Ft as [|? ? LhA FtA]; subst.
    cbn [eval_inclusion] in E. destruct (N.eqb_spec x y) as [|_]; [lia|]. cbn [negb] in E. rewrite andb_true_r in E.
    set (leafA := if N.even x then nodeh leaf hA else nodeh hA leaf) in *.
    assert (LlA : length leafA = 32%nat) by (unfold leafA; destruct (N.even x); apply nodeh_len).
    assert (Hf' : N.div2 y' < 2 ^ N.of_nat f) by (apply div2_lt_pow; auto).
    assert (Dxy : N.div2 x <= N.div2 y) by (rewrite !N.div2_div; lia).
    assert (Dyy : N.div2 y <= N.div2 y') by (rewrite !N.div2_div; lia).
    destruct (N.eq_dec (N.div2 x) (N.div2 y)) as [Ez|Nz].
    + (* merge: x even, y = x + 1: the sibling of the leaf side is the OLD node ci; replace it by cj *)
      assert (Ex : N.even x = true /\ y = x + 1).
      { rewrite !N.div2_div in Ez. destruct (N.even x) eqn:Ev.
        - apply N.even_spec in Ev as [k ->]. split; auto. lia.
        - assert (N.odd x = true) as Od by (rewrite <- N.negb_even, Ev; reflexivity).
          apply N.odd_spec in Od as [k ->]. lia. }
      destruct Ex as [Ev Ey].
      assert (Oy : N.odd y = true) by (rewrite Ey, N.add_1_r, N.odd_succ; exact Ev).
      assert (Lr' : lenN r = 1 + ilenN (N.div2 y) (N.div2 y')).
      { destruct (N.eq_dec y y') as [<-|]; [rewrite ilenN_eq, Oy in Lr; exact Lr | rewrite ilenN_lt in Lr by lia; exact Lr]. }
      destruct r as [|hB rB]; [unfold lenN in Lr'; cbn [length] in Lr'; lia|].
      rewrite lenN_cons1 in Lr'.
      pose proof (Forall_inv Fr) as LhB. pose proof (Forall_inv_tail Fr) as FrB. cbn beta in LhB.
      cbn [old_eval] in E. rewrite <- N.negb_odd, Oy in E. cbn [negb andb] in E.
      rewrite Ez, eval_incl_same in E.
      assert (LrB : lenN rB = ilenN (N.div2 y) (N.div2 y')) by lia.
      assert (LtA : lenN tA = ilenN (N.div2 y) (N.div2 y)) by (rewrite Ez in Lt; lia).
      destruct (old_vs_last f (N.div2 y) (N.div2 y') rB tA leafA (nodeh hB ci) Hf' Dyy LrB LtA FrB FtA
                  ltac:(rewrite LlA, nodeh_len; reflexivity) E) as [E1|C]; auto.
      unfold leafA in E1. rewrite Ev in E1.
      destruct (nodeh_inj H leaf hA hB ci ltac:(congruence) E1) as [[El Eh]|C]; auto.
      left. exists (cj :: rB).
      split; [constructor; auto|]. split.
      * rewrite lenN_cons1, ilenN_lt by lia. rewrite Ez. lia.
      * cbn [eval_inclusion]. rewrite Ev. destruct (N.eqb_spec x y'); [lia|]. cbn [negb andb].
        rewrite <- (N.negb_odd y), Oy. cbn [negb andb].
        rewrite Ez, El. reflexivity.
    + destruct (b_step y y' r ci cj Hyy ltac:(lia) Lr Fr Lci Lcj)
        as (r2 & ci2 & cj2 & Lr2 & Fr2 & Lci2 & Lcj2 & Eo & En).
      rewrite Eo in E.
      destruct (IH (N.div2 x) (N.div2 y) (N.div2 y') leafA ci2 cj2 tA r2) as [(t2 & Ft2 & Lt2 & Et2)|C]; auto; try lia.
      left. exists (hA :: t2). split; [constructor; auto|]. split.
      * rewrite lenN_cons1, ilenN_lt by lia. lia.
      * cbn [eval_inclusion]. destruct (N.eqb_spec x y'); [lia|]. cbn [negb]. rewrite andb_true_r.
        fold leafA. rewrite Et2, En. reflexivity.
Qed.

(* the outer phase: below the level of the first consistency term (trailing ones of y) both paths
   climb together; at that level either the leaf side IS c0 or the inner phase starts *)
Lemma transport_outer : forall (sf f : nat) (x y y' : N) (leaf c0 : bytes) (t r : list bytes) (fn sn : N),
  y < 2 ^ N.of_nat sf -> y' < 2 ^ N.of_nat f -> x <= y -> y < y' ->
  strip_odd sf y y' = (fn, sn) ->
  lenN t = ilenN x y -> lenN r = ilenN fn sn ->
  len32 t -> len32 r -> length leaf = 32%nat -> length c0 = 32%nat ->
  eval_inclusion H t x y leaf = old_eval r fn sn c0 ->
  (exists t', len32 t' /\ lenN t' = ilenN x y' /\
              eval_inclusion H t' x y' leaf = eval_inclusion H r fn sn c0) \/ Collision.
Proof.
  induction sf as [|sf IH]; intros f x y y' leaf c0 t r fn sn Hs Hf Hxy Hyy Es Lt Lr Ft Fr Ll Lc E.
  - simpl in Hs. assert (y = 0) by lia. assert (x = 0) by lia. subst x y.
    cbn [strip_odd] in Es. injection Es as <- <-.
    rewrite eval_incl_same in E.
    destruct (old_vs_last f 0 y' r t leaf c0 Hf ltac:(lia) Lr Lt Fr Ft ltac:(congruence) E) as [->|C]; auto.
    left. exists r. auto.
  - cbn [strip_odd] in Es. destruct (N.odd y) eqn:Oy.
    + (* y odd: one more level below the first consistency term *)
      assert (Lt' : lenN t = 1 + ilenN (N.div2 x) (N.div2 y)).
      { destruct (N.eq_dec x y) as [->|]; [rewrite ilenN_eq, Oy in Lt; exact Lt | rewrite ilenN_lt in Lt by lia; exact Lt]. }
      destruct t as [|hA tA]; [unfold lenN in Lt'; cbn [length] in Lt'; lia|].
      rewrite lenN_cons1 in Lt'.
      pose proof (Forall_inv Ft) as LhA. pose proof (Forall_inv_tail Ft) as FtA. cbn beta in LhA.
      cbn [eval_inclusion] in E.
      set (leafA := if N.even x && negb (x =? y) then nodeh leaf hA else nodeh hA leaf) in *.
      assert (LlA : length leafA = 32%nat) by (unfold leafA; destruct (N.even x && negb (x =? y)); apply nodeh_len).
      assert (Oy' : exists k, y = 2 * k + 1) by (apply N.odd_spec; exact Oy). destruct Oy' as [k Ek].
      destruct (IH f (N.div2 x) (N.div2 y) (N.div2 y') leafA c0 tA r fn sn) as [(t2 & Ft2 & Lt2 & Et2)|C]; auto.
      * apply div2_lt_pow; auto.
      * rewrite N.div2_div. lia.
      * rewrite !N.div2_div. lia.
      * rewrite !N.div2_div. lia.
      * lia.
      * left. exists (hA :: t2). split; [constructor; auto|]. split.
        -- rewrite lenN_cons1, ilenN_lt by lia. lia.
        -- cbn [eval_inclusion]. rewrite <- Et2. f_equal. unfold leafA.
           destruct (N.eqb_spec x y') as [|_]; [lia|]. cbn [negb]. rewrite andb_true_r.
           destruct (N.eqb_spec x y) as [Exy|_]; cbn [negb]; rewrite ?andb_true_r, ?andb_false_r; [|reflexivity].
           rewrite Exy, <- N.negb_odd, Oy. reflexivity.
    + (* y even: the consistency fold starts here with ci = cj = c0 *)
      injection Es as <- <-.
      destruct (N.eq_dec x y) as [->|Ne].
      * rewrite eval_incl_same in E.
        destruct (old_vs_last f y y' r t leaf c0 Hf ltac:(lia) Lr Lt Fr Ft ltac:(congruence) E) as [->|C]; auto.
        left. exists r. auto.
      * apply (transport_inner f x y y' leaf c0 c0 t r); auto; lia.
Qed.

(* FACT (T). *)
Theorem consistency_transport (cproof t : list bytes) (i m n : N) (leaf R R' : bytes) :
  len32 cproof -> len32 t -> length leaf = 32%nat ->
  verify_consistency_fixed H cproof m n R R' = Ok true ->
  verify_inclusion H t i m leaf R = true ->
  (exists t', len32 t' /\ verify_inclusion H t' i n leaf R' = true) \/ Collision.
Proof.
  intros Fc Ft Ll Vc Vi.
  unfold verify_inclusion in Vi.
  destruct ((m <? i) || (i =? 0) || (i <? m) && (lenN t =? 0)) eqn:G; [discriminate|].
  apply orb_false_elim in G as [G _]. apply orb_false_elim in G as [G1 G2].
  apply N.ltb_ge in G1. apply N.eqb_neq in G2.
  destruct (N.eqb_spec (lenN t) (inclusion_proof_len i m)) as [Lt|]; [|discriminate].
  cbn [negb] in Vi. apply list_eqb_eq in Vi.
  rewrite inclusion_proof_len_ilenN in Lt by lia.
  unfold verify_consistency_fixed in Vc.
  destruct ((n <? m) || (m =? 0) || (m <? n) && (lenN cproof =? 0)) eqn:G'; [discriminate|].
  apply orb_false_elim in G' as [G' G5]. apply orb_false_elim in G' as [G3 G4].
  apply N.ltb_ge in G3. apply N.eqb_neq in G4.
  assert (Same : R = R' -> (exists t', len32 t' /\ verify_inclusion H t' i n leaf R' = true) \/ Collision -> 
                 (exists t', len32 t' /\ verify_inclusion H t' i n leaf R' = true) \/ Collision) by auto.
  destruct ((m =? n) && (lenN cproof =? 0)) eqn:G6.
  - (* same size, empty proof: the roots are equal *)
    apply andb_prop in G6 as [G6 _]. apply N.eqb_eq in G6. subst n.
    injection Vc as Vc. apply list_eqb_eq in Vc. subst R'.
    left. exists t. split; auto. unfold verify_inclusion.
    destruct (N.ltb_spec m i); [lia|]. destruct (N.eqb_spec i 0); [lia|]. cbn [orb].
    destruct ((i <? m) && (lenN t =? 0)) eqn:G7.
    { apply andb_prop in G7 as [G7 G8]. apply N.ltb_lt in G7. apply N.eqb_eq in G8.
      rewrite ilenN_lt in Lt by lia. lia. }
    rewrite inclusion_proof_len_ilenN by lia. rewrite Lt, N.eqb_refl. cbn [negb].
    rewrite Vi. apply bytes_eqb_refl.
  - destruct (N.eqb_spec (lenN cproof) (consistency_proof_len m n)) as [Lc|]; [|discriminate].
    cbn [negb] in Vc.
    destruct cproof as [|c0 r]; [discriminate|]. cbn [eval_consistency] in Vc.
    destruct (strip_odd (S (N.size_nat (m - 1))) (m - 1) (n - 1)) as [fn sn] eqn:Es.
    cbn [bind] in Vc. rewrite cons_loop_as_incl in Vc. cbn [fst snd] in Vc.
    injection Vc as Vc. apply andb_prop in Vc as [V1 V2]. apply list_eqb_eq in V1. apply list_eqb_eq in V2.
    pose proof (Forall_inv Fc) as Lc0. pose proof (Forall_inv_tail Fc) as Fr. cbn beta in Lc0.
    rewrite lenN_cons1 in Lc.
    destruct (N.eq_dec m n) as [<-|Nmn].
    + (* same size, non-empty proof: both folds coincide *)
      destruct (strip_odd_same (S (N.size_nat (m - 1))) (m - 1)) as [z Ez]. rewrite Ez in Es. injection Es as <- <-.
      rewrite old_eval_same in V1. rewrite eval_incl_same in V2. assert (ER : R = R') by congruence. rewrite <- ER.
      left. exists t. split; auto. unfold verify_inclusion.
      destruct (N.ltb_spec m i); [lia|]. destruct (N.eqb_spec i 0); [lia|]. cbn [orb].
      destruct ((i <? m) && (lenN t =? 0)) eqn:G7.
      { apply andb_prop in G7 as [G7 G8]. apply N.ltb_lt in G7. apply N.eqb_eq in G8.
        rewrite ilenN_lt in Lt by lia. lia. }
      rewrite inclusion_proof_len_ilenN by lia. rewrite Lt, N.eqb_refl. cbn [negb].
      rewrite Vi. apply bytes_eqb_refl.
    + destruct (cons_len_incl_len H m n ltac:(lia) ltac:(lia)) as (fn' & sn' & f2 & Es' & Le & Bd & Len).
      rewrite Es in Es'. injection Es' as <- <-.
      rewrite (ilenN_fuel f2 fn sn Le Bd) in Len.
      destruct (transport_outer (S (N.size_nat (m - 1))) (N.size_nat (n - 1)) (i - 1) (m - 1) (n - 1)
                  leaf c0 t r fn sn) as [(t' & Ft' & Lt' & Et')|C]; auto; try lia.
      * pose proof (size_nat_gt (m - 1)) as Gm. rewrite Nnat.Nat2N.inj_succ, N.pow_succ_r'. lia.
      * apply size_nat_gt.
      * congruence.
      * left. exists t'. split; auto. unfold verify_inclusion.
        destruct (N.ltb_spec n i); [lia|]. destruct (N.eqb_spec i 0); [lia|]. cbn [orb].
        destruct ((i <? n) && (lenN t' =? 0)) eqn:G7.
        { apply andb_prop in G7 as [G7 G8]. apply N.ltb_lt in G7. apply N.eqb_eq in G8.
          rewrite ilenN_lt in Lt' by lia. lia. }
        rewrite inclusion_proof_len_ilenN by lia. rewrite Lt', N.eqb_refl. cbn [negb].
        rewrite Et', <- V2. apply bytes_eqb_refl.
Qed.

End Transport.
