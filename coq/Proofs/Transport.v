(* C01 — fact (T): transport of inclusion across a consistency proof, against an ARBITRARY server.
   No genuine-tree premise anywhere: R and R' are arbitrary 32-byte values.

     verify_consistency_fixed H cproof m n R R' = Ok true ->
     verify_inclusion H t i m leaf R = true ->
     exists t', verify_inclusion H t' i n leaf R' = true      \/ Collision H

   Route: with the lengths pinned (c59ab5b, 05f2785) both verifiers are level-synchronous folds; the
   consistency loop from c0 = cproof[0] IS an inclusion fold of c0 at index fn among sn+1 nodes of
   level t0 (cons_loop_as_incl), the old root being the same fold restricted to the left siblings
   (old_eval). The two folds to the old root are matched from the top with nodeh_inj only, and the
   new path is assembled from the terms of both proofs (transport_inner / transport_outer). *)
From V Require Import Proofs.History Proofs.Unique Merkle.Sound Merkle.VerifyFixed.
From Coq Require Import ZifyN ZifyNat ZifyBool.
Open Scope N_scope.

Lemma lenN_cons1 {A} (x : A) l : lenN (x :: l) = 1 + lenN l.
Proof. unfold lenN. cbn [length]. lia. Qed.

(* ---------- inclusionProofLen without fuel ---------- *)
Lemma div2_lt_pow y f : y < 2 ^ N.of_nat (S f) -> N.div2 y < 2 ^ N.of_nat f.
Proof. rewrite Nnat.Nat2N.inj_succ, N.pow_succ_r', N.div2_div. lia. Qed.

Lemma incl_len_fuel : forall f1 f2 x y,
  x <= y -> y < 2 ^ N.of_nat f1 -> y < 2 ^ N.of_nat f2 -> incl_len_f f1 x y = incl_len_f f2 x y.
Proof.
  induction f1 as [|f1 IH]; intros f2 x y Hxy H1 H2.
  - simpl in H1. assert (y = 0) by lia. assert (x = 0) by lia. subst.
    destruct f2; reflexivity.
  - destruct f2 as [|f2].
    + simpl in H2. assert (y = 0) by lia. assert (x = 0) by lia. subst. reflexivity.
    + cbn [incl_len_f].
      assert (Hd : N.div2 x <= N.div2 y) by (rewrite !N.div2_div; lia).
      rewrite (IH f2 (N.div2 x) (N.div2 y) Hd (div2_lt_pow _ _ H1) (div2_lt_pow _ _ H2)).
      reflexivity.
Qed.

Definition ilenN (x y : N) : N := incl_len_f (N.to_nat (N.size y)) x y.

Lemma size_bound y : y < 2 ^ N.of_nat (N.to_nat (N.size y)).
Proof. rewrite N2Nat.id. apply N.size_gt. Qed.

Lemma ilenN_fuel f x y : x <= y -> y < 2 ^ N.of_nat f -> incl_len_f f x y = ilenN x y.
Proof. intros Hxy Hf. apply incl_len_fuel; auto. apply size_bound. Qed.

Lemma ilenN_step x y : x <= y -> y <> 0 ->
  ilenN x y = (if x =? y then (if N.odd y then 1 else 0) else 1) + ilenN (N.div2 x) (N.div2 y).
Proof.
  intros Hxy Hy.
  pose proof (size_bound y) as B.
  destruct (N.to_nat (N.size y)) as [|f] eqn:Ef.
  - simpl in B. lia.
  - unfold ilenN at 1. rewrite Ef. cbn [incl_len_f].
    assert (Hd : N.div2 x <= N.div2 y) by (rewrite !N.div2_div; lia).
    rewrite (ilenN_fuel f _ _ Hd (div2_lt_pow _ _ B)).
    destruct (N.eqb_spec x y); [|reflexivity].
    destruct (N.eqb_spec y 0); [contradiction | reflexivity].
Qed.

Lemma ilenN_00 : ilenN 0 0 = 0.
Proof. reflexivity. Qed.

Lemma ilenN_lt x y : x < y -> ilenN x y = 1 + ilenN (N.div2 x) (N.div2 y).
Proof. intros L. rewrite ilenN_step by lia. destruct (N.eqb_spec x y); [lia | reflexivity]. Qed.

Lemma ilenN_eq y : ilenN y y = (if N.odd y then 1 else 0) + ilenN (N.div2 y) (N.div2 y).
Proof.
  destruct (N.eq_dec y 0) as [->|Ny]; [reflexivity|].
  rewrite ilenN_step by lia. rewrite N.eqb_refl. reflexivity.
Qed.

Lemma inclusion_proof_len_ilenN i j : 1 <= i -> i <= j ->
  inclusion_proof_len i j = ilenN (i - 1) (j - 1).
Proof.
  intros Hi Hij. unfold inclusion_proof_len. apply ilenN_fuel; [lia|].
  unfold fuel_for. destruct (N.eq_dec (j - 1) 0) as [->|Nz]; [reflexivity|].
  pose proof (N.log2_spec (j - 1) ltac:(lia)) as [_ Hi2].
  replace (N.of_nat (S (S (N.to_nat (N.log2 (j - 1)))))) with (N.succ (N.succ (N.log2 (j - 1)))) by lia.
  rewrite N.pow_succ_r'. lia.
Qed.

Section Transport.
Variable H : bytes -> bytes.
Hypothesis H_len : forall x, length (H x) = 32%nat.
Notation Collision := (Collision H).
Notation nodeh := (nodeh H).

Lemma nodeh_len a b : length (nodeh a b) = 32%nat.
Proof. unfold Tree.nodeh. apply H_len. Qed.

(* the OLD root of a consistency proof: the inclusion fold restricted to the left siblings *)
Fixpoint old_eval (r : list bytes) (x y : N) (c : bytes) : bytes :=
  match r with
  | [] => c
  | h :: r' =>
      let c' := if N.even x && negb (x =? y) then c else nodeh h c in
      old_eval r' (N.div2 x) (N.div2 y) c'
  end.

Lemma old_eval_same r : forall z c, old_eval r z z c = eval_last_inclusion H r c.
Proof.
  induction r as [|h r IH]; intros z c; cbn [old_eval eval_last_inclusion]; [reflexivity|].
  rewrite N.eqb_refl. cbn [negb]. rewrite andb_false_r. apply IH.
Qed.

Lemma eval_incl_same r : forall z c, eval_inclusion H r z z c = eval_last_inclusion H r c.
Proof.
  induction r as [|h r IH]; intros z c; cbn [eval_inclusion eval_last_inclusion]; [reflexivity|].
  rewrite N.eqb_refl. cbn [negb]. rewrite andb_false_r. apply IH.
Qed.

Lemma strip_even_eq : forall fuel z, exists z', strip_even fuel z z = (z', z').
Proof.
  induction fuel as [|f IH]; intros z; cbn [strip_even]; [eauto|].
  destruct (N.even z && negb (z =? 0)); [apply IH | eauto].
Qed.

Lemma cons_loop_eq r : forall z ci cj,
  cons_loop H r z z ci cj = (eval_last_inclusion H r ci, eval_last_inclusion H r cj).
Proof.
  induction r as [|h r IH]; intros z ci cj; cbn [cons_loop eval_last_inclusion]; [reflexivity|].
  rewrite N.eqb_refl, orb_true_r.
  destruct (strip_even_eq (S (N.size_nat z)) z) as [z' ->]. apply IH.
Qed.

Lemma strip_even_odd' fuel fn sn : N.odd fn = true -> strip_even fuel fn sn = (fn, sn).
Proof.
  intros O. destruct fuel; [reflexivity|]. cbn [strip_even].
  rewrite <- N.negb_odd, O. reflexivity.
Qed.

(* the consistency loop IS the pair (old fold, inclusion fold) *)
Lemma cons_loop_as_incl r : forall fn sn ci cj,
  cons_loop H r fn sn ci cj = (old_eval r fn sn ci, eval_inclusion H r fn sn cj).
Proof.
  induction r as [|h r IH]; intros fn sn ci cj; [reflexivity|].
  destruct (N.eqb_spec fn sn) as [->|Ne].
  - rewrite cons_loop_eq, old_eval_same, eval_incl_same. reflexivity.
  - cbn [cons_loop old_eval eval_inclusion].
    destruct (N.eqb_spec fn sn); [contradiction|]. cbn [negb]. rewrite andb_true_r, orb_false_r.
    rewrite <- N.negb_odd. destruct (N.odd fn) eqn:O; cbn [negb].
    + rewrite (strip_even_odd' _ fn sn O). apply IH.
    + apply IH.
Qed.

(* an all-left fold of pinned length and the old fold to the same value start from the same value *)
Lemma old_vs_last : forall (f : nat) (z w : N) (r t : list bytes) (c1 c2 : bytes),
  w < 2 ^ N.of_nat f -> z <= w ->
  lenN r = ilenN z w -> lenN t = ilenN z z -> len32 r -> len32 t -> length c1 = length c2 ->
  eval_last_inclusion H t c1 = old_eval r z w c2 -> c1 = c2 \/ Collision.
Proof.
  induction f as [|f IH]; intros z w r t c1 c2 Hf Hzw Lr Lt Fr Ft Lc E.
  - simpl in Hf. assert (w = 0) by lia. assert (z = 0) by lia. subst.
    rewrite ilenN_00 in Lr, Lt. destruct r; [|unfold lenN in Lr; cbn [length] in Lr; lia].
    destruct t; [|unfold lenN in Lt; cbn [length] in Lt; lia]. left. exact E.
  - destruct (N.eqb_spec z w) as [->|Ne].
    + rewrite old_eval_same in E.
      apply (eval_last_inj H H_len t r c1 c2); auto. unfold lenN in *. lia.
    + assert (Lt' : z < w) by lia. rewrite (ilenN_lt _ _ Lt') in Lr.
      destruct r as [|h r]; [unfold lenN in Lr; cbn [length] in Lr; lia|].
      rewrite lenN_cons1 in Lr. inversion Fr as [|? ? Lh Fr']; subst.
      cbn [old_eval] in E. destruct (N.eqb_spec z w); [contradiction|]. cbn [negb] in E. rewrite andb_true_r in E.
      assert (Hd : N.div2 z <= N.div2 w) by (rewrite !N.div2_div; lia).
      rewrite ilenN_eq in Lt.
      destruct (N.even z) eqn:Ev.
      * rewrite <- N.negb_even, Ev in Lt. cbn [negb] in Lt.
        apply (IH (N.div2 z) (N.div2 w) r t c1 c2); auto; try lia. apply div2_lt_pow; auto.
      * rewrite <- N.negb_even, Ev in Lt. cbn [negb] in Lt.
        destruct t as [|g t]; [unfold lenN in Lt; cbn [length] in Lt; lia|].
        rewrite lenN_cons1 in Lt. inversion Ft as [|? ? Lg Ft']; subst.
        cbn [eval_last_inclusion] in E.
        destruct (IH (N.div2 z) (N.div2 w) r t (nodeh g c1) (nodeh h c2)) as [E1|C]; auto; try lia.
        { apply div2_lt_pow; auto. } { rewrite !nodeh_len. reflexivity. }
        destruct (nodeh_inj H g c1 h c2 ltac:(congruence) E1) as [[_ ->]|C]; auto.
Qed.

End Transport.
