(* The two refutations of "a successful integrity-checked read returns the committed transaction",
   for EVERY hash function with 32-byte output (no hash is evaluated): built from the round-trip
   theorem. Concrete instances evaluated with SHA-256 are in Corrupt/Witness.v. *)
From V Require Import Corrupt.TxRecord Corrupt.HTreeBind Corrupt.Binding Corrupt.Roundtrip.
From Coq Require Import ZifyN ZifyNat ZifyBool.

Definition g_hdr : txhdr :=
  {| h_id := 2; h_prevalh := zero32; h_ts := 1700000002; h_version := 1; h_md := None;
     h_nentries := 1; h_eh := zero32; h_bltxid := 1; h_blroot := zero32 |}.
Definition g_entry (key : bytes) (vlen : N) : entry :=
  {| e_md := None; e_key := key; e_vlen := vlen; e_voff := 2 ^ 56 + 3; e_hval := zero32 |}.

Section Hash.
Variable H : bytes -> bytes.
Hypothesis H_len : forall x, length (H x) = 32%nat.

Definition g_digest (key : bytes) : bytes :=
  H (be_enc 2 0 ++ [] ++ be_enc 2 (len key) ++ key ++ zero32).
Definition g_tx (key : bytes) (vlen : N) : tx :=
  {| t_hdr := set_eh g_hdr (htree_root H [g_digest key]); t_entries := [g_entry key vlen] |}.

Lemma g_tx_wf key vlen : len key = 2 -> tx_wf H (g_tx key vlen).
Proof.
  intros Lk. unfold tx_wf, g_tx; cbn [t_hdr t_entries].
  split; [|split; [|split]].
  - unfold hdr_wf, set_eh, g_hdr, fits; cbn [h_id h_ts h_bltxid h_prevalh h_blroot h_version h_nentries h_md].
    repeat split; try reflexivity; try (right; split; reflexivity).
  - constructor; [|constructor]. unfold entry_wf, g_entry, fits; cbn [e_key e_hval].
    rewrite Lk. split; reflexivity.
  - reflexivity.
  - exists [g_digest key]. split; reflexivity.
Qed.

Lemma g_tx_nomd key vlen : fits 4 vlen -> tx_nomd (g_tx key vlen).
Proof.
  intros F. split; [reflexivity|]. constructor; [|constructor].
  unfold entry_nomd, g_entry; cbn [e_md e_vlen e_voff]. repeat split; auto; unfold fits; reflexivity.
Qed.

Definition g_alh (key : bytes) : bytes :=
  match tx_alh H (t_hdr (g_tx key 0)) with Ok a => a | _ => [] end.
Definition g_rec (key : bytes) (vlen : N) : bytes :=
  match write_tx H (g_tx key vlen) with Ok b => b | _ => [] end.

Lemma g_alh_ok key vlen : tx_alh H (t_hdr (g_tx key vlen)) = Ok (g_alh key).
Proof. reflexivity. Qed.
Lemma g_rec_ok key vlen : write_tx H (g_tx key vlen) = Ok (g_rec key vlen).
Proof. reflexivity. Qed.

Lemma g_alh_len key : length (g_alh key) = 32%nat.
Proof.
  pose proof (g_alh_ok key 0) as A. unfold tx_alh in A.
  destruct (inner_bytes (t_hdr (g_tx key 0))) as [ib| |]; cbn [bind] in A; try discriminate.
  assert (E : g_alh key = H (alh_bytes (t_hdr (g_tx key 0)) (H ib))) by congruence.
  rewrite E. apply H_len.
Qed.

Lemma g_hdr_bytes key vlen :
  write_hdr (t_hdr (g_tx key vlen)) =
  Ok (be_enc 8 2 ++ be_enc 8 1700000002 ++ be_enc 8 1 ++ zero32 ++ zero32 ++ be_enc 2 1 ++
      be_enc 2 0 ++ be_enc 4 1).
Proof. reflexivity. Qed.

Lemma g_rec_length key vlen : len key = 2 -> length (g_rec key vlen) = 178%nat.
Proof.
  intros Lk. unfold g_rec, write_tx. rewrite g_hdr_bytes, g_alh_ok. cbn [bind].
  cbn [g_tx t_entries map concat]. unfold write_entry, g_entry; cbn [e_md okvmd_bytes e_key e_vlen e_voff e_hval].
  rewrite !app_length, !be_enc_length, g_alh_len. unfold zero32. rewrite !repeat_length.
  unfold len in Lk. simpl length. lia.
Qed.

(* (1) a record rewritten consistently is accepted: committed  k1 -> ...,  stored bytes replaced by
   the record of the same transaction with key k2 (same length): read without error as k2 *)
Theorem corrupt_tx_detected_refuted_any_hash :
  exists t rec rec' t' a',
    tx_wf H t /\ write_tx H t = Ok rec /\ length rec' = length rec /\
    read_tx H true 6 12 rec' = Ok (t', a', []) /\
    map e_key (t_entries t') <> map e_key (t_entries t).
Proof.
  exists (g_tx [107; 49] 2), (g_rec [107; 49] 2), (g_rec [107; 50] 2), (g_tx [107; 50] 2), (g_alh [107; 50]).
  split; [apply g_tx_wf; reflexivity|]. split; [apply g_rec_ok|].
  split; [rewrite !g_rec_length by reflexivity; reflexivity|].
  split; [|cbn; discriminate].
  rewrite <- (app_nil_r (g_rec [107; 50] 2)).
  apply (read_write_roundtrip H H_len).
  - apply g_tx_wf; reflexivity.
  - apply g_tx_nomd. unfold fits. reflexivity.
  - cbn. discriminate.
  - apply g_rec_ok.
  - apply g_alh_ok.
  - cbn. discriminate.
  - constructor; [|constructor]. cbn. discriminate.
Qed.

(* (2) vLen is under no hash: same committed transaction, stored vLen 2 replaced by 0; the stored
   Alh is untouched (it is the committed Alh a) and the read succeeds with the altered vLen *)
Theorem corrupt_tx_vlen_refuted_any_hash :
  exists t rec rec' t' a,
    tx_wf H t /\ write_tx H t = Ok rec /\ tx_alh H (t_hdr t) = Ok a /\
    length rec' = length rec /\
    read_tx H true 6 12 rec' = Ok (t', a, []) /\
    map e_vlen (t_entries t') <> map e_vlen (t_entries t).
Proof.
  exists (g_tx [107; 49] 2), (g_rec [107; 49] 2), (g_rec [107; 49] 0), (g_tx [107; 49] 0), (g_alh [107; 49]).
  split; [apply g_tx_wf; reflexivity|]. split; [apply g_rec_ok|]. split; [apply g_alh_ok|].
  split; [rewrite !g_rec_length by reflexivity; reflexivity|].
  split; [|cbn; discriminate].
  rewrite <- (app_nil_r (g_rec [107; 49] 0)).
  apply (read_write_roundtrip H H_len).
  - apply g_tx_wf; reflexivity.
  - apply g_tx_nomd. unfold fits. reflexivity.
  - cbn. discriminate.
  - apply g_rec_ok.
  - apply g_alh_ok.
  - cbn. discriminate.
  - constructor; [|constructor]. cbn. discriminate.
Qed.

End Hash.
