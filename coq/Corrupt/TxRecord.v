(* On-disk transaction record of embedded/store and its readers, transliterated from
     immustore.go  performPrecommit (serialisation), appendableReaderForTx / readTx / ReadTx,
                   ReadValue / readValueAt / fetchVLog / decodeOffset
     tx.go         txDataReader.readHeader / readEntry / buildAndValidateHtree, Tx.readFrom,
                   TxEntryDigest_v1_1 / _v1_2, TxHeader.innerHash / Alh
     htree.go      HTree.BuildWith (levelled pairing, odd node promoted)
     appendable/reader.go  Reader.Read / ReadUintNN (a sequential stream over the log)
   The hash function is a section variable; nothing is assumed about it in this file.
   Layout of a record (performPrecommit):
     ID(8) Ts(8) BlTxID(8) BlRoot(32) PrevAlh(32) Version(2)
     version 0:  NEntries(2)          version 1:  MdLen(2) Md(MdLen) NEntries(4)
     per entry:  KvMdLen(2) KvMd KLen(2) Key VLen(4) VOff(8) HVal(32)
     Alh(32)
   Eh is NOT stored: the reader recomputes it from the entry digests and the only comparison made
   is "Alh recomputed from the parsed content == the 32 bytes that follow the entries".
   With embedded values the record is preceded in the tx log by  Len(2, truncated) Values...  and
   the commit-log entry points at the record itself. *)
From V Require Export Base.Bytes Store.Codec.

Definition EEOF : N := 7.
Definition ECorruptedTxData : N := 8.
Definition EUnknownHdrVersion : N := 9.
Definition EMaxTxEntries : N := 10.
Definition EMaxKeyLen : N := 11.
Definition EUnexpected : N := 12.
Definition EMaxWidth : N := 13.

Record entry := { e_md : option kvmd; e_key : bytes; e_vlen : N; e_voff : N; e_hval : bytes }.
Record tx := { t_hdr : txhdr; t_entries : list entry }.

Definition zero32 : bytes := repeat 0 32.
Definition okvmd_bytes (m : option kvmd) : bytes :=
  match m with Some m => kvmd_bytes m | None => [] end.

(* ---- appendable.Reader: sequential reads; a short read is io.EOF ---- *)
Definition rd (n : N) (s : bytes) : res (bytes * bytes) :=
  if n <=? len s then Ok (take n s, drop n s) else Err EEOF.
Definition rd_uint (k : nat) (s : bytes) : res (N * bytes) :=
  do (b, s') <- rd (N.of_nat k) s; Ok (be_dec b, s').
(* a[:n] on a fixed array / pre-sized buffer of capacity cap *)
Definition arr_prefix_ (cap n : N) : res unit := if n <=? cap then Ok tt else Panic.

Definition set_eh (h : txhdr) (eh : bytes) : txhdr :=
  {| h_id := h_id h; h_prevalh := h_prevalh h; h_ts := h_ts h; h_version := h_version h;
     h_md := h_md h; h_nentries := h_nentries h; h_eh := eh; h_bltxid := h_bltxid h;
     h_blroot := h_blroot h |}.

Section Hash.
Variable H : bytes -> bytes.

(* ---- htree.BuildWith ---- *)
Definition leafh (d : bytes) : bytes := H (0 :: d).
Definition nodeh (a b : bytes) : bytes := H (1 :: a ++ b).

Fixpoint pairup (l : list bytes) : list bytes :=
  match l with
  | a :: b :: r => nodeh a b :: pairup r
  | _ => l
  end.

Fixpoint reduce (fuel : nat) (l : list bytes) : bytes :=
  match fuel with
  | O => hd (H []) l
  | S f => match l with
           | [] => H []
           | [x] => x
           | _ => reduce f (pairup l)
           end
  end.

Definition htree_root (ds : list bytes) : bytes :=
  match ds with
  | [] => H []
  | _ => reduce (length ds) (map leafh ds)
  end.

(* ---- TxEntryDigest_v1_1 / _v1_2 (selected by TxHeader.TxEntryDigest) ---- *)
Definition entry_digest (version : N) (e : entry) : res bytes :=
  let mdbs := okvmd_bytes (e_md e) in
  if version =? 0 then
    if 0 <? len mdbs then Err EMetadataUnsupported
    else Ok (H (e_key e ++ e_hval e))
  else if version =? 1 then
    Ok (H (be_enc 2 (len mdbs) ++ mdbs ++ be_enc 2 (len (e_key e)) ++ e_key e ++ e_hval e))
  else Err EUnknownHdrVersion.

(* ---- TxHeader.innerHash: a fixed buffer with room for maxTxMetadataLen metadata bytes; a longer
   re-serialised metadata slices past it; an unknown version is an explicit panic ---- *)
Definition inner_bytes (h : txhdr) : res bytes :=
  let post := h_eh h ++ be_enc 8 (h_bltxid h) ++ h_blroot h in
  if h_version h =? 0 then
    Ok (be_enc 8 (h_ts h) ++ be_enc 2 (h_version h) ++ be_enc 2 (h_nentries h) ++ post)
  else if h_version h =? 1 then
    let mdbs := opt_md_bytes (h_md h) in
    if st_maxTxMetadataLen <? len mdbs then Panic else
    Ok (be_enc 8 (h_ts h) ++ be_enc 2 (h_version h) ++ be_enc 2 (len mdbs) ++ mdbs ++
        be_enc 4 (h_nentries h) ++ post)
  else Panic.

Definition alh_bytes (h : txhdr) (inner : bytes) : bytes :=
  be_enc 8 (h_id h) ++ h_prevalh h ++ inner.

Definition tx_alh (h : txhdr) : res bytes :=
  do ib <- inner_bytes h; Ok (H (alh_bytes h (H ib))).

(* ---- txDataReader.readHeader ---- *)
Definition read_header (maxEntries : N) (s : bytes) : res (txhdr * bytes) :=
  do (id, s) <- rd_uint 8 s;
  if id =? 0 then Err EEOF else
  do (ts, s) <- rd_uint 8 s;
  do (bltxid, s) <- rd_uint 8 s;
  do (blroot, s) <- rd 32 s;
  do (prevalh, s) <- rd 32 s;
  do (version, s) <- rd_uint 2 s;
  do (mdne, s) <-
    (if version =? 0 then
       do (ne, s) <- rd_uint 2 s; Ok (None, ne, s)
     else if version =? 1 then
       do (mdLen, s) <- rd_uint 2 s;
       if st_maxTxMetadataLen <? mdLen then Err ECorruptedData else
       do (md, s) <-
         (if 0 <? mdLen then
            do _ <- arr_prefix_ st_maxTxMetadataLen mdLen;          (* mdBs[:mdLen] *)
            do (b, s) <- rd mdLen s;
            do m <- txmd_read b;
            Ok (Some m, s)
          else Ok (None, s));
       do (ne, s) <- rd_uint 4 s; Ok (md, ne, s)
     else Err EUnknownHdrVersion);
  let '(md, ne) := mdne in
  if maxEntries <? ne then Err EMaxTxEntries else
  Ok ({| h_id := id; h_prevalh := prevalh; h_ts := ts; h_version := version; h_md := md;
         h_nentries := ne; h_eh := zero32; h_bltxid := bltxid; h_blroot := blroot |}, s).

(* ---- txDataReader.readEntry; the key is read into entry.k[:kLen], a buffer of maxKeyLen ---- *)
Definition read_entry (chk : bool) (version maxKeyLen : N) (s : bytes)
  : res (entry * option bytes * bytes) :=
  do (mdLen, s) <- rd_uint 2 s;
  do (md, s) <-
    (if 0 <? mdLen then
       do (b, s) <- rd mdLen s;
       do m <- kvmd_read b;
       Ok (Some m, s)
     else Ok (None, s));
  do (kLen, s) <- rd_uint 2 s;
  if maxKeyLen <? kLen then Err EMaxKeyLen else
  do _ <- arr_prefix_ maxKeyLen kLen;                               (* entry.k[:kLen] *)
  do (k, s) <- rd kLen s;
  do (vLen, s) <- rd_uint 4 s;
  do (vOff, s) <- rd_uint 8 s;
  do (hval, s) <- rd 32 s;
  let e := {| e_md := md; e_key := k; e_vlen := vLen; e_voff := vOff; e_hval := hval |} in
  if chk then do d <- entry_digest version e; Ok (e, Some d, s)
  else Ok (e, None, s).

(* the loop of Tx.readFrom: entry i is read into tx.entries[i] (nslots of them) *)
Fixpoint read_entries (chk : bool) (version maxKeyLen nslots : N) (n : nat) (i : N) (s : bytes)
  : res (list entry * list bytes * bytes) :=
  match n with
  | O => Ok ([], [], s)
  | S n' =>
      if nslots <=? i then Panic else                                (* tx.entries[i] *)
      do (ed, s) <- read_entry chk version maxKeyLen s;
      let '(e, d) := ed in
      do (esds, s) <- read_entries chk version maxKeyLen nslots n' (i + 1) s;
      let '(es, ds) := esds in
      Ok (e :: es, (match d with Some d => d :: ds | None => ds end), s)
  end.

(* ---- Tx.readFrom = readHeader; readEntry*; buildAndValidateHtree.
   chk = not skipIntegrityCheck; nslots = len(tx.entries) = width of tx.htree (the holder);
   returns the transaction, the 32 bytes the recomputed Alh was compared with, the rest ---- *)
Definition read_tx (chk : bool) (nslots maxKeyLen : N) (s : bytes) : res (tx * bytes * bytes) :=
  do (h, s) <- read_header nslots s;
  do (esds, s) <- read_entries chk (h_version h) maxKeyLen nslots (N.to_nat (h_nentries h)) 0 s;
  let '(es, ds) := esds in
  do (alh, s) <- rd 32 s;
  if negb chk then Ok ({| t_hdr := h; t_entries := es |}, alh, s) else
  if nslots <? N.of_nat (length ds) then Err EMaxWidth else                       (* htree.BuildWith *)
  let h := set_eh h (htree_root ds) in
  do a <- tx_alh h;
  if list_eq_dec N.eq_dec a alh then Ok ({| t_hdr := h; t_entries := es |}, alh, s)
  else Err ECorruptedTxData.

(* ImmuStore.ReadTx(id): appendable.NewReaderFrom(txLog, txOff, txSize) with (txOff, txSize) from
   the commit-log entry of id; txSize is only the size of the read buffer: the reader runs on into
   whatever follows the record. Since commit 93c30ce the id decoded from the record is compared
   with the id that was asked for (checkTxID, with or without integrity check; ReadTxHeader,
   ReadTxEntry and readTxOffsetAt make the same comparison). *)
Definition read_tx_at (chk : bool) (nslots maxKeyLen : N) (txlog : bytes) (off size id : N)
  : res tx :=
  do (r, _) <- read_tx chk nslots maxKeyLen (drop off txlog);
  let '(t, _) := r in
  if h_id (t_hdr t) =? id then Ok t else Err ECorruptedTxData.

(* ---- performPrecommit: serialisation ---- *)
Definition write_entry (e : entry) : bytes :=
  let mdbs := okvmd_bytes (e_md e) in
  be_enc 2 (len mdbs) ++ mdbs ++ be_enc 2 (len (e_key e)) ++ e_key e ++
  be_enc 4 (e_vlen e) ++ be_enc 8 (e_voff e) ++ e_hval e.

Definition write_hdr (h : txhdr) : res bytes :=
  let pre := be_enc 8 (h_id h) ++ be_enc 8 (h_ts h) ++ be_enc 8 (h_bltxid h) ++ h_blroot h ++
             h_prevalh h ++ be_enc 2 (h_version h) in
  if h_version h =? 0 then Ok (pre ++ be_enc 2 (h_nentries h))
  else if h_version h =? 1 then
    let mdbs := opt_md_bytes (h_md h) in
    Ok (pre ++ be_enc 2 (len mdbs) ++ mdbs ++ be_enc 4 (h_nentries h))
  else Panic.

Definition write_tx (t : tx) : res bytes :=
  do hb <- write_hdr (t_hdr t);
  do a <- tx_alh (t_hdr t);
  Ok (hb ++ concat (map write_entry (t_entries t)) ++ a).

(* embedded values: what precedes the record in the tx log *)
Definition write_embedded_prefix (vals : list bytes) : bytes :=
  be_enc 2 (len (concat vals)) ++ concat vals.

(* digests of the entries as BuildHashTree computes them before the precommit *)
Fixpoint digests (version : N) (es : list entry) : res (list bytes) :=
  match es with
  | [] => Ok []
  | e :: r => do d <- entry_digest version e; do ds <- digests version r; Ok (d :: ds)
  end.

(* ---- values ---- *)
Inductive vmode :=
| VEmbedded            (* values live in the tx log, vLogID must be 0 *)
| VSingle              (* one value log (MaxIOConcurrency = 1): vLogID must be 1 *)
| VMulti.              (* several value logs: s.vLogs[vLogID-1], a map lookup (checked since c6a3ff8) *)

(* decodeOffset: vLogID = byte(off >> 56); offset = off &^ (0xff << 55), i.e. bits 55..62 cleared
   and the sign bit kept *)
Definition vlog_id (off : N) : N := (off / 2 ^ 56) mod 256.
Definition vlog_off (off : N) : N := off mod 2 ^ 55.
Definition off_negative (off : N) : bool := 2 ^ 63 <=? off mod 2 ^ 64.

(* vLog.ReadAt(b, offset) with len(b) = n > 0 as readValueAt uses it since commit 6fe0104: a read that
   starts at or runs past the END of the value log is ErrCorruptedData, not io.EOF (io.EOF is kept
   for data inside the log whose chunk was discarded; the logs of this model are whole byte strings,
   no chunk is ever discarded, so every short read is a read past the end) *)
Definition read_at (log : bytes) (off n : N) : res bytes :=
  if off + n <=? len log then Ok (take n (drop off log)) else Err ECorruptedData.

(* fetchVLog; in the multi-vlog branch a missing map entry is reported as corrupted data (before
   commit c6a3ff8 it was dereferenced) *)
Definition fetch_vlog (mode : vmode) (txlog : bytes) (vlogs : list bytes) (id : N) : res bytes :=
  match mode with
  | VEmbedded => if 0 <? id then Err EUnexpected else Ok txlog
  | VSingle => if id =? 1 then
                 match vlogs with v :: _ => Ok v | [] => Panic end
               else Err EUnexpected
  | VMulti => match nth_error vlogs (N.to_nat ((id + 255) mod 256)) with
              | Some v => Ok v
              | None => Err ECorruptedData
              end
  end.

(* the value cache (Options.VLogCacheSize > 0): keyed by the encoded offset only; None = no cache.
   Eviction is not modelled (the theorems hold for EVERY cache content, so for every eviction
   policy; the correspondence runs use a cache larger than the number of reads) *)
Definition vcache := list (N * bytes).
Fixpoint cache_get (c : vcache) (off : N) : option bytes :=
  match c with
  | [] => None
  | (o, b) :: r => if o =? off then Some b else cache_get r off
  end.
Definition cache_lookup (c : option vcache) (off : N) : option bytes :=
  match c with Some cc => cache_get cc off | None => None end.
Definition cache_put (c : option vcache) (off : N) (b : bytes) : option vcache :=
  match c with Some cc => Some ((off, b) :: cc) | None => None end.

(* the final test of readValueAt: b is the caller's buffer (len vlen), n the number of bytes the
   cache entry / the log read supplied *)
Definition value_check (chk : bool) (vlen : N) (hval b : bytes) (n : N) : res bytes :=
  if chk && (negb (vlen =? n) || (if list_eq_dec N.eq_dec hval (H (take n b)) then false else true))
  then Err ECorruptedData else Ok b.

(* the read from the value log (cache miss) *)
Definition raw_read (mode : vmode) (txlog : bytes) (vlogs : list bytes) (vlen off : N) : res bytes :=
  do log <- fetch_vlog mode txlog vlogs (vlog_id off);
  if off_negative off then Err EEOF else
  read_at log (vlog_off off) vlen.

(* readValueAt(b, off, hvalue, skipIntegrityCheck) with len(b) = vlen; returns b on success and
   the cache as it is left. A cache hit copies the cached bytes into b (copy(b, bval), n = len(bval))
   and a miss stores the bytes read BEFORE they are validated; both then go through the same
   length-and-digest test, so what a hit returns has been validated in this very call. *)
Definition read_value_at (chk : bool) (mode : vmode) (txlog : bytes) (vlogs : list bytes)
           (c : option vcache) (vlen off : N) (hval : bytes) : res bytes * option vcache :=
  if (match mode with VEmbedded => false | _ => true end) && (vlog_id off =? 0) && (0 <? vlen)
  then (Err EEOF, c) else
  if 0 <? vlen then
    match cache_lookup c off with
    | Some bval =>
        (value_check chk vlen hval (take vlen (bval ++ repeat 0 (N.to_nat vlen))) (len bval), c)
    | None =>
        match raw_read mode txlog vlogs vlen off with
        | Ok b => (value_check chk vlen hval b (len b), cache_put c off b)
        | Err e => (Err e, c)
        | Panic => (Panic, c)
        end
    end
  else (value_check chk vlen hval [] 0, c).

(* ImmuStore.ReadValue(entry) for a read-only entry that is not expired: an entry whose vLen is 0
   is answered with the empty value before anything is checked; a vLen above MaxValueLen is
   rejected before the buffer is allocated (since commit 85f50b0) *)
Definition read_value (maxValueLen : N) (mode : vmode) (txlog : bytes) (vlogs : list bytes)
           (c : option vcache) (vlen off : N) (hval : bytes) : res bytes * option vcache :=
  if vlen =? 0 then (Ok [], c) else
  if maxValueLen <? vlen then (Err ECorruptedData, c) else
  read_value_at true mode txlog vlogs c vlen off hval.

(* bytes allocated by ReadValue for the value buffer: make([]byte, entry.vLen) after the two tests *)
Definition read_value_alloc (maxValueLen vlen : N) : N :=
  if vlen =? 0 then 0 else if maxValueLen <? vlen then 0 else vlen.

(* ---- the value loop of ExportTx (after readTx succeeded): a value whose read ends in io.EOF is
   taken for "truncated by retention" and its digest is exported instead; either all values are
   exported or none. Result: the truncated flag and, per entry, the value or the digest; and the
   cache as it is left (also when the export fails) ---- *)
Fixpoint export_values (chk : bool) (maxValueLen : N) (mode : vmode) (txlog : bytes) (vlogs : list bytes)
         (c : option vcache) (es : list entry) (i : N) (trunc : bool)
  : res (bool * list bytes) * option vcache :=
  match es with
  | [] => (Ok (trunc, []), c)
  | e :: r =>
      if maxValueLen <? e_vlen e then (Err ECorruptedData, c) else      (* since commit 85f50b0 *)
      let '(rv, c1) := read_value_at chk mode txlog vlogs c (e_vlen e) (e_voff e) (e_hval e) in
      match rv with
      | Panic => (Panic, c1)
      | Err code =>
          if code =? EEOF then
            if negb trunc && (0 <? i) then (Err ECorruptedData, c1) else
            let '(rr, c2) := export_values chk maxValueLen mode txlog vlogs c1 r (i + 1) true in
            (match rr with Ok (t, l) => Ok (t, e_hval e :: l) | Err x => Err x | Panic => Panic end, c2)
          else (Err code, c1)
      | Ok v =>
          if trunc then (Err ECorruptedData, c1) else
          let '(rr, c2) := export_values chk maxValueLen mode txlog vlogs c1 r (i + 1) trunc in
          (match rr with Ok (t, l) => Ok (t, v :: l) | Err x => Err x | Panic => Panic end, c2)
      end
  end.

End Hash.
