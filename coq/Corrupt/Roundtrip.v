(* Completeness of the reader on metadata-free transactions: the record the writer produces for a
   well-formed transaction is read back as that transaction, for EVERY hash function. Two uses:
   (a) uncorrupted data never raise a false alarm; (b) since nothing but the record itself enters the
   check, the record of ANY other well-formed transaction put in its place is accepted as well
   (the generic form of the "consistent rewrite" refutation). Metadata round trips belong to C15. *)
From V Require Import Corrupt.TxRecord Corrupt.HTreeBind Corrupt.Binding.
From Coq Require Import ZifyN ZifyNat ZifyBool.

Lemma rd_exact n (b s : bytes) : len b = n -> rd n (b ++ s) = Ok (b, s).
Proof.
  intros L. unfold rd. rewrite len_app.
  destruct (N.leb_spec n (len b + len s)); [|lia].
  subst n. rewrite take_app_exact, drop_app_exact. reflexivity.
Qed.

Lemma rd_uint_exact k v (s : bytes) : fits k v -> rd_uint k (be_enc k v ++ s) = Ok (v, s).
Proof.
  intros F. unfold rd_uint. rewrite rd_exact by apply len_be_enc. cbn [bind].
  rewrite be_dec_enc_small by exact F. reflexivity.
Qed.

Lemma len_of_length (b : bytes) n : length b = n -> len b = N.of_nat n.
Proof. unfold len; intros ->; reflexivity. Qed.

Definition entry_nomd (e : entry) : Prop :=
  e_md e = None /\ fits 4 (e_vlen e) /\ fits 8 (e_voff e).
Definition tx_nomd (t : tx) : Prop :=
  h_md (t_hdr t) = None /\ Forall entry_nomd (t_entries t).

Section Hash.
Variable H : bytes -> bytes.
Hypothesis H_len : forall x, length (H x) = 32%nat.

Lemma read_header_write ns h hb s :
  hdr_wf h -> h_md h = None -> h_id h <> 0 -> h_nentries h <= ns ->
  write_hdr h = Ok hb ->
  read_header ns (hb ++ s) = Ok (set_eh h zero32, s).
Proof.
  intros (I & T & B & P & R & V) M NZ Ne W.
  unfold write_hdr in W. unfold read_header.
  assert (Hm : opt_md_bytes (h_md h) = []) by (rewrite M; reflexivity).
  destruct V as [(V0 & N0 & _)|(V1 & N1)].
  - rewrite V0 in W. cbn [N.eqb] in W.
    assert (hb = be_enc 8 (h_id h) ++ be_enc 8 (h_ts h) ++ be_enc 8 (h_bltxid h) ++ h_blroot h ++
                 h_prevalh h ++ be_enc 2 0 ++ be_enc 2 (h_nentries h)).
    { rewrite <- !app_assoc in W. congruence. }
    subst hb. rewrite <- !app_assoc.
    rewrite rd_uint_exact by exact I. cbn [bind].
    destruct (N.eqb_spec (h_id h) 0); [contradiction|].
    rewrite rd_uint_exact by exact T. cbn [bind].
    rewrite rd_uint_exact by exact B. cbn [bind].
    rewrite rd_exact by (apply (len_of_length _ 32); exact R). cbn [bind].
    rewrite rd_exact by (apply (len_of_length _ 32); exact P). cbn [bind].
    rewrite rd_uint_exact by (unfold fits; reflexivity). cbn [bind N.eqb].
    rewrite rd_uint_exact by exact N0. cbn [bind].
    destruct (N.ltb_spec ns (h_nentries h)); [lia|].
    unfold set_eh. rewrite V0, M. reflexivity.
  - rewrite V1 in W. cbn [N.eqb Pos.eqb] in W. rewrite Hm in W.
    assert (hb = be_enc 8 (h_id h) ++ be_enc 8 (h_ts h) ++ be_enc 8 (h_bltxid h) ++ h_blroot h ++
                 h_prevalh h ++ be_enc 2 1 ++ be_enc 2 0 ++ be_enc 4 (h_nentries h)).
    { rewrite <- !app_assoc in W. cbn [app] in W. change (len []) with 0 in W. congruence. }
    subst hb. rewrite <- !app_assoc.
    rewrite rd_uint_exact by exact I. cbn [bind].
    destruct (N.eqb_spec (h_id h) 0); [contradiction|].
    rewrite rd_uint_exact by exact T. cbn [bind].
    rewrite rd_uint_exact by exact B. cbn [bind].
    rewrite rd_exact by (apply (len_of_length _ 32); exact R). cbn [bind].
    rewrite rd_exact by (apply (len_of_length _ 32); exact P). cbn [bind].
    rewrite rd_uint_exact by (unfold fits; reflexivity). cbn [bind N.eqb Pos.eqb].
    rewrite rd_uint_exact by (unfold fits; reflexivity). cbn [bind].
    change (st_maxTxMetadataLen <? 0) with false. cbn iota. change (0 <? 0) with false. cbn iota.
    cbn [bind].
    rewrite rd_uint_exact by exact N1. cbn [bind].
    destruct (N.ltb_spec ns (h_nentries h)); [lia|].
    unfold set_eh. rewrite V1, M. reflexivity.
Qed.

Lemma read_entry_write v mk e d s :
  entry_wf e -> entry_nomd e -> len (e_key e) <= mk -> entry_digest H v e = Ok d ->
  read_entry H true v mk (write_entry e ++ s) = Ok (e, Some d, s).
Proof.
  intros (K & Hv) (M & Fl & Fo) Km D.
  unfold write_entry, read_entry. rewrite M. cbn [okvmd_bytes]. change (len []) with 0.
  cbn [app]. rewrite <- !app_assoc.
  rewrite rd_uint_exact by (unfold fits; reflexivity). cbn [bind].
  change (0 <? 0) with false. cbn iota. cbn [bind].
  rewrite rd_uint_exact by exact K. cbn [bind].
  destruct (N.ltb_spec mk (len (e_key e))); [lia|].
  unfold arr_prefix_. destruct (N.leb_spec (len (e_key e)) mk); [|lia]. cbn [bind].
  rewrite rd_exact by reflexivity. cbn [bind].
  rewrite rd_uint_exact by exact Fl. cbn [bind].
  rewrite rd_uint_exact by exact Fo. cbn [bind].
  rewrite rd_exact by (apply (len_of_length _ 32); exact Hv). cbn [bind].
  assert (Ee : {| e_md := None; e_key := e_key e; e_vlen := e_vlen e; e_voff := e_voff e; e_hval := e_hval e |} = e).
  { destruct e; cbn in *; congruence. }
  rewrite Ee, D. reflexivity.
Qed.

Lemma read_entries_write v mk ns : forall es ds i s,
  Forall entry_wf es -> Forall entry_nomd es -> Forall (fun e => len (e_key e) <= mk) es ->
  digests H v es = Ok ds -> i + N.of_nat (length es) <= ns ->
  read_entries H true v mk ns (length es) i (concat (map write_entry es) ++ s) = Ok (es, ds, s).
Proof.
  induction es as [|e es IH]; intros ds i s W M K D B.
  - simpl in D. assert (ds = []) by congruence. subst. reflexivity.
  - simpl in D. destruct (entry_digest H v e) as [d| |] eqn:Ed; cbn [bind] in D; try discriminate.
    destruct (digests H v es) as [ds0| |] eqn:Eds; cbn [bind] in D; try discriminate.
    assert (ds = d :: ds0) by congruence. subst.
    inversion W; subst. inversion M; subst. inversion K; subst.
    cbn [length read_entries map concat]. simpl length in B.
    destruct (N.leb_spec ns i); [lia|].
    rewrite <- app_assoc.
    rewrite (read_entry_write v mk e d) by assumption. cbn [bind].
    rewrite (IH ds0 (i + 1) s) by (auto; lia). cbn [bind]. reflexivity.
Qed.

(* the writer's record, followed by anything, reads back as the transaction, compared with its Alh *)
Theorem read_write_roundtrip t rec a :
  tx_wf H t -> tx_nomd t -> h_id (t_hdr t) <> 0 ->
  write_tx H t = Ok rec -> tx_alh H (t_hdr t) = Ok a ->
  forall ns mk rest,
    h_nentries (t_hdr t) <= ns -> Forall (fun e => len (e_key e) <= mk) (t_entries t) ->
    read_tx H true ns mk (rec ++ rest) = Ok (t, a, rest).
Proof.
  intros (Wh & We & Ln & ds & D & Eh) (Mh & Me) NZ Wr A ns mk rest Ne Km.
  unfold write_tx in Wr. rewrite A in Wr.
  destruct (write_hdr (t_hdr t)) as [hb| |] eqn:Ewh; cbn [bind] in Wr; try discriminate.
  assert (rec = hb ++ concat (map write_entry (t_entries t)) ++ a) by congruence. subst rec.
  unfold read_tx. rewrite <- !app_assoc.
  rewrite (read_header_write ns (t_hdr t) hb) by assumption. cbn [bind].
  assert (Hv : h_version (set_eh (t_hdr t) zero32) = h_version (t_hdr t)) by reflexivity.
  assert (Hn : h_nentries (set_eh (t_hdr t) zero32) = h_nentries (t_hdr t)) by reflexivity.
  rewrite Hv, Hn, <- Ln, Nat2N.id.
  rewrite (read_entries_write _ mk ns (t_entries t) ds 0 (a ++ rest)) by (auto; lia). cbn [bind].
  assert (La : length a = 32%nat).
  { unfold tx_alh in A. destruct (inner_bytes (t_hdr t)) as [ib| |]; cbn [bind] in A; try discriminate.
    assert (a = H (alh_bytes (t_hdr t) (H ib))) by congruence. subst. apply H_len. }
  rewrite rd_exact by (apply (len_of_length _ 32); exact La). cbn [bind negb].
  rewrite (digests_length H _ _ _ D).
  destruct (N.ltb_spec ns (N.of_nat (length (t_entries t)))); [lia|].
  assert (Es : set_eh (set_eh (t_hdr t) zero32) (htree_root H ds) = t_hdr t).
  { rewrite <- Eh. destruct (t_hdr t); reflexivity. }
  rewrite Es, A. cbn [bind].
  destruct (list_eq_dec N.eq_dec a a); [|congruence].
  destruct t; reflexivity.
Qed.

(* the property-level consequence: whatever transaction t was committed, the record of ANY other
   well-formed transaction t' written over it is read without error as t' — the reader has no
   reference outside the record *)
Theorem any_consistent_record_accepted (t t' : tx) rec' a' :
  tx_wf H t' -> tx_nomd t' -> h_id (t_hdr t') <> 0 ->
  write_tx H t' = Ok rec' -> tx_alh H (t_hdr t') = Ok a' ->
  forall ns mk rest,
    h_nentries (t_hdr t') <= ns -> Forall (fun e => len (e_key e) <= mk) (t_entries t') ->
    read_tx H true ns mk (rec' ++ rest) = Ok (t', a', rest).
Proof. intros. apply read_write_roundtrip; assumption. Qed.

End Hash.
