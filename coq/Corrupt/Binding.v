(* What the Alh of a transaction binds, and what an integrity-checked read therefore guarantees.
   Everything is relative to an abstract hash function H with 32-byte output; conclusions have the
   form  "claim \/ Collision H"  and the proofs exhibit the colliding pair. *)
From V Require Import Corrupt.TxRecord Corrupt.HTreeBind.
From Coq Require Import ZifyN ZifyNat ZifyBool.

Definition fits (k : nat) (v : N) : Prop := v < 256 ^ N.of_nat k.

(* ---- generic facts about the stream reader ---- *)
Lemma rd_inv n s b s' : rd n s = Ok (b, s') -> s = b ++ s' /\ len b = n.
Proof.
  unfold rd. destruct (N.leb_spec n (len s)); [|discriminate].
  intros E. assert (b = take n s) by congruence. assert (s' = drop n s) by congruence. subst.
  split; [symmetry; apply firstn_skipn | rewrite len_take; lia].
Qed.

Lemma rd_ok_bytes n s b s' : rd n s = Ok (b, s') -> bytes_ok s = true ->
  bytes_ok b = true /\ bytes_ok s' = true.
Proof.
  intros E Hs. apply rd_inv in E as [-> _]. rewrite bytes_ok_app in Hs.
  apply andb_prop in Hs. exact Hs.
Qed.

Lemma rd_uint_inv k s v s' : rd_uint k s = Ok (v, s') -> bytes_ok s = true ->
  fits k v /\ bytes_ok s' = true /\ exists b, s = b ++ s' /\ length b = k /\ v = be_dec b.
Proof.
  unfold rd_uint. destruct (rd (N.of_nat k) s) as [[b s0]| |] eqn:E; cbn [bind]; try discriminate.
  intros E2 Hs. assert (v = be_dec b) by congruence. assert (s' = s0) by congruence. subst.
  destruct (rd_ok_bytes _ _ _ _ E Hs) as [Hb Hs0]. apply rd_inv in E as [-> L].
  split; [|split; [exact Hs0|]].
  - unfold fits. rewrite <- L. apply be_dec_bound. exact Hb.
  - exists b. repeat split; auto. unfold len in L. lia.
Qed.

Lemma len_nil (b : bytes) : len b = 0 -> b = [].
Proof. destruct b; [reflexivity | unfold len; simpl; lia]. Qed.

Lemma len_eq_length (a b : bytes) : len a = len b -> length a = length b.
Proof. unfold len; lia. Qed.

Lemma kvmd_bytes_len m : len (kvmd_bytes m) <= 11.
Proof.
  unfold kvmd_bytes. rewrite !len_app.
  destruct (kv_deleted m), (kv_expires m), (kv_nonindexable m);
    repeat rewrite len_app; repeat rewrite len_be_enc; unfold len; simpl; lia.
Qed.

Lemma okvmd_bytes_len m : len (okvmd_bytes m) <= 11.
Proof. destruct m; simpl; [apply kvmd_bytes_len | unfold len; simpl; lia]. Qed.

Section Hash.
Variable H : bytes -> bytes.
Hypothesis H_len : forall x, length (H x) = 32%nat.

Local Notation Collision := (Collision H).

(* ---- what is under the hash ---- *)
Definition same_hdr (h h' : txhdr) : Prop :=
  h_id h' = h_id h /\ h_prevalh h' = h_prevalh h /\ h_ts h' = h_ts h /\
  h_version h' = h_version h /\ opt_md_bytes (h_md h') = opt_md_bytes (h_md h) /\
  h_nentries h' = h_nentries h /\ h_eh h' = h_eh h /\ h_bltxid h' = h_bltxid h /\
  h_blroot h' = h_blroot h.

(* the value length and offset of an entry are NOT under any hash *)
Definition same_entry_hashed (e e' : entry) : Prop :=
  e_key e' = e_key e /\ okvmd_bytes (e_md e') = okvmd_bytes (e_md e) /\ e_hval e' = e_hval e.

Definition same_hashed (t t' : tx) : Prop :=
  same_hdr (t_hdr t) (t_hdr t') /\ Forall2 same_entry_hashed (t_entries t) (t_entries t').

(* ---- well-formedness: ranges of the fixed-width fields, as both the writer's validation and
   the reader's decoding establish them ---- *)
Definition entry_wf (e : entry) : Prop := fits 2 (len (e_key e)) /\ length (e_hval e) = 32%nat.

Definition hdr_wf (h : txhdr) : Prop :=
  fits 8 (h_id h) /\ fits 8 (h_ts h) /\ fits 8 (h_bltxid h) /\
  length (h_prevalh h) = 32%nat /\ length (h_blroot h) = 32%nat /\
  ((h_version h = 0 /\ fits 2 (h_nentries h) /\ opt_md_bytes (h_md h) = []) \/
   (h_version h = 1 /\ fits 4 (h_nentries h))).

Definition tx_wf (t : tx) : Prop :=
  hdr_wf (t_hdr t) /\ Forall entry_wf (t_entries t) /\
  N.of_nat (length (t_entries t)) = h_nentries (t_hdr t) /\
  exists ds, digests H (h_version (t_hdr t)) (t_entries t) = Ok ds /\
             h_eh (t_hdr t) = htree_root H ds.

(* ---- entry digests ---- *)
Lemma entry_digest_inj v e e' d :
  entry_wf e -> entry_wf e' ->
  entry_digest H v e = Ok d -> entry_digest H v e' = Ok d ->
  same_entry_hashed e e' \/ Collision.
Proof.
  intros [K1 V1] [K2 V2]. unfold entry_digest.
  destruct (N.eqb_spec v 0) as [_|_].
  - destruct (N.ltb_spec 0 (len (okvmd_bytes (e_md e)))); [discriminate|].
    destruct (N.ltb_spec 0 (len (okvmd_bytes (e_md e')))); [discriminate|].
    intros E1 E2. assert (E : H (e_key e ++ e_hval e) = H (e_key e' ++ e_hval e')) by congruence.
    apply H_inj in E as [E|C]; [|right; exact C]. left.
    apply app_inj_len_r in E as [Ek Ev]; [|congruence].
    unfold same_entry_hashed. repeat split; auto.
    rewrite (len_nil (okvmd_bytes (e_md e))) by lia.
    rewrite (len_nil (okvmd_bytes (e_md e'))) by lia. reflexivity.
  - destruct (N.eqb_spec v 1) as [_|_]; [|discriminate].
    intros E1 E2.
    pose proof (okvmd_bytes_len (e_md e)) as Bm. pose proof (okvmd_bytes_len (e_md e')) as Bm'.
    set (m := okvmd_bytes (e_md e)) in *. set (m' := okvmd_bytes (e_md e')) in *.
    assert (E : H (be_enc 2 (len m) ++ m ++ be_enc 2 (len (e_key e)) ++ e_key e ++ e_hval e) =
                H (be_enc 2 (len m') ++ m' ++ be_enc 2 (len (e_key e')) ++ e_key e' ++ e_hval e'))
      by congruence.
    apply H_inj in E as [E|C]; [|right; exact C]. left.
    apply app_inj_len in E as [Em E]; [|rewrite !be_enc_length; reflexivity].
    assert (Lm : len m = len m').
    { apply (be_enc_inj 2); auto; change (256 ^ N.of_nat 2) with 65536; lia. }
    apply app_inj_len in E as [Emm E]; [|apply len_eq_length; exact Lm].
    apply app_inj_len in E as [Ek E]; [|rewrite !be_enc_length; reflexivity].
    assert (Lk : len (e_key e) = len (e_key e')) by (apply (be_enc_inj 2); auto).
    apply app_inj_len in E as [Ekk Ev]; [|apply len_eq_length; exact Lk].
    unfold same_entry_hashed. repeat split; auto.
Qed.

Lemma digests_inj v : forall es es' ds,
  Forall entry_wf es -> Forall entry_wf es' ->
  digests H v es = Ok ds -> digests H v es' = Ok ds ->
  Forall2 same_entry_hashed es es' \/ Collision.
Proof.
  induction es as [|e es IH]; intros es' ds W W' D D'.
  - simpl in D. assert (ds = []) by congruence. subst.
    destruct es' as [|e' es']; [left; constructor|].
    simpl in D'. destruct (entry_digest H v e'); cbn [bind] in D'; try discriminate.
    destruct (digests H v es'); cbn [bind] in D'; discriminate.
  - simpl in D. destruct (entry_digest H v e) as [d| |] eqn:Ed; cbn [bind] in D; try discriminate.
    destruct (digests H v es) as [ds0| |] eqn:Eds; cbn [bind] in D; try discriminate.
    assert (ds = d :: ds0) by congruence. subst.
    destruct es' as [|e' es']; [simpl in D'; discriminate|].
    simpl in D'. destruct (entry_digest H v e') as [d'| |] eqn:Ed'; cbn [bind] in D'; try discriminate.
    destruct (digests H v es') as [ds0'| |] eqn:Eds'; cbn [bind] in D'; try discriminate.
    assert (d' = d) by congruence. assert (ds0' = ds0) by congruence. subst.
    inversion W; subst. inversion W'; subst.
    destruct (entry_digest_inj v e e' d) as [S|C]; auto.
    destruct (IH es' ds0) as [S'|C]; auto.
Qed.

Lemma digests_length v : forall es ds, digests H v es = Ok ds -> length ds = length es.
Proof.
  induction es as [|e es IH]; intros ds D; simpl in D.
  - assert (ds = []) by congruence. subst. reflexivity.
  - destruct (entry_digest H v e); cbn [bind] in D; try discriminate.
    destruct (digests H v es) as [ds0| |]; cbn [bind] in D; try discriminate.
    assert (ds = a :: ds0) by congruence. subst. simpl. f_equal. apply IH. reflexivity.
Qed.

(* ---- header: Alh ---- *)
Lemma alh_inj h h' a :
  hdr_wf h -> hdr_wf h' -> length (h_eh h) = 32%nat -> length (h_eh h') = 32%nat ->
  tx_alh H h = Ok a -> tx_alh H h' = Ok a -> same_hdr h h' \/ Collision.
Proof.
  intros (I1 & T1 & B1 & P1 & R1 & V1) (I2 & T2 & B2 & P2 & R2 & V2) Eh1 Eh2.
  unfold tx_alh.
  destruct (inner_bytes h) as [ib| |] eqn:Ei; cbn [bind]; try discriminate.
  destruct (inner_bytes h') as [ib'| |] eqn:Ei'; cbn [bind]; try discriminate.
  intros A1 A2.
  assert (E : H (alh_bytes h (H ib)) = H (alh_bytes h' (H ib'))) by congruence.
  apply H_inj in E as [E|C]; [|right; exact C].
  unfold alh_bytes in E.
  apply app_inj_len in E as [Eid E]; [|rewrite !be_enc_length; reflexivity].
  apply (be_enc_inj 8) in Eid; auto.
  apply app_inj_len in E as [Eprev E]; [|congruence].
  apply H_inj in E as [E|C]; [|right; exact C]. subst ib'.
  left. unfold inner_bytes in Ei, Ei'.
  destruct V1 as [(Ve1 & N1 & M1)|(Ve1 & N1)]; destruct V2 as [(Ve2 & N2 & M2)|(Ve2 & N2)];
    rewrite Ve1 in Ei; rewrite Ve2 in Ei'; cbn [N.eqb Pos.eqb] in Ei, Ei'.
  - assert (E : be_enc 8 (h_ts h) ++ be_enc 2 0 ++ be_enc 2 (h_nentries h) ++ h_eh h ++ be_enc 8 (h_bltxid h) ++ h_blroot h =
                be_enc 8 (h_ts h') ++ be_enc 2 0 ++ be_enc 2 (h_nentries h') ++ h_eh h' ++ be_enc 8 (h_bltxid h') ++ h_blroot h')
      by congruence.
    apply app_inj_len in E as [Ets E]; [|rewrite !be_enc_length; reflexivity].
    apply (be_enc_inj 8) in Ets; auto.
    apply app_inj_len in E as [_ E]; [|reflexivity].
    apply app_inj_len in E as [Ene E]; [|rewrite !be_enc_length; reflexivity].
    apply (be_enc_inj 2) in Ene; auto.
    apply app_inj_len in E as [Eeh E]; [|congruence].
    apply app_inj_len in E as [Ebl Ebr]; [|rewrite !be_enc_length; reflexivity].
    apply (be_enc_inj 8) in Ebl; auto.
    unfold same_hdr. repeat split; congruence.
  - exfalso.
    destruct (st_maxTxMetadataLen <? len (opt_md_bytes (h_md h'))); [discriminate|].
    match type of Ei' with Ok (?x ++ ?y ++ ?z) = _ =>
      assert (E : be_enc 8 (h_ts h) ++ be_enc 2 0 ++ be_enc 2 (h_nentries h) ++ h_eh h ++ be_enc 8 (h_bltxid h) ++ h_blroot h = x ++ y ++ z) by congruence end.
    apply app_inj_len in E as [_ E]; [|rewrite !be_enc_length; reflexivity].
    apply app_inj_len in E as [E _]; [|reflexivity]. discriminate E.
  - exfalso.
    destruct (st_maxTxMetadataLen <? len (opt_md_bytes (h_md h))); [discriminate|].
    match type of Ei with Ok (?x ++ ?y ++ ?z) = _ =>
      assert (E : x ++ y ++ z = be_enc 8 (h_ts h') ++ be_enc 2 0 ++ be_enc 2 (h_nentries h') ++ h_eh h' ++ be_enc 8 (h_bltxid h') ++ h_blroot h') by congruence end.
    apply app_inj_len in E as [_ E]; [|rewrite !be_enc_length; reflexivity].
    apply app_inj_len in E as [E _]; [|reflexivity]. discriminate E.
  - destruct (N.ltb_spec st_maxTxMetadataLen (len (opt_md_bytes (h_md h)))) as [|Lm]; [discriminate|].
    destruct (N.ltb_spec st_maxTxMetadataLen (len (opt_md_bytes (h_md h')))) as [|Lm']; [discriminate|].
    set (m := opt_md_bytes (h_md h)) in *. set (m' := opt_md_bytes (h_md h')) in *.
    assert (E : be_enc 8 (h_ts h) ++ be_enc 2 1 ++ be_enc 2 (len m) ++ m ++ be_enc 4 (h_nentries h) ++ h_eh h ++ be_enc 8 (h_bltxid h) ++ h_blroot h =
                be_enc 8 (h_ts h') ++ be_enc 2 1 ++ be_enc 2 (len m') ++ m' ++ be_enc 4 (h_nentries h') ++ h_eh h' ++ be_enc 8 (h_bltxid h') ++ h_blroot h')
      by congruence.
    apply app_inj_len in E as [Ets E]; [|rewrite !be_enc_length; reflexivity].
    apply (be_enc_inj 8) in Ets; auto.
    apply app_inj_len in E as [_ E]; [|reflexivity].
    apply app_inj_len in E as [Eml E]; [|rewrite !be_enc_length; reflexivity].
    assert (Lmm : len m = len m').
    { apply (be_enc_inj 2); auto; unfold st_maxTxMetadataLen in *; change (256 ^ N.of_nat 2) with 65536; lia. }
    apply app_inj_len in E as [Emm E]; [|apply len_eq_length; exact Lmm].
    apply app_inj_len in E as [Ene E]; [|rewrite !be_enc_length; reflexivity].
    apply (be_enc_inj 4) in Ene; auto.
    apply app_inj_len in E as [Eeh E]; [|congruence].
    apply app_inj_len in E as [Ebl Ebr]; [|rewrite !be_enc_length; reflexivity].
    apply (be_enc_inj 8) in Ebl; auto.
    unfold same_hdr. repeat split; try congruence. symmetry; exact Emm.
Qed.

(* ---- the Alh of a well-formed transaction binds everything that is hashed ---- *)
Theorem alh_binding t t' a :
  tx_wf t -> tx_wf t' -> tx_alh H (t_hdr t) = Ok a -> tx_alh H (t_hdr t') = Ok a ->
  same_hashed t t' \/ Collision.
Proof.
  intros (W1 & E1 & L1 & ds & D1 & R1) (W2 & E2 & L2 & ds' & D2 & R2) A1 A2.
  destruct (alh_inj _ _ a W1 W2) as [S|C]; auto;
    try (rewrite R1; apply htree_root_len; exact H_len);
    try (rewrite R2; apply htree_root_len; exact H_len).
  destruct S as (Sid & Sp & Sts & Sv & Smd & Sne & Seh & Sbl & Sbr).
  assert (Lds : length ds = length ds').
  { rewrite (digests_length _ _ _ D1), (digests_length _ _ _ D2). lia. }
  rewrite R1, R2 in Seh. symmetry in Seh.
  apply htree_root_inj in Seh as [Eds|C]; auto. subst ds'.
  rewrite Sv in D2.
  destruct (digests_inj _ _ _ _ E1 E2 D1 D2) as [F|C]; auto.
  left. split; [|exact F]. unfold same_hdr. rewrite R1, R2. repeat split; auto.
Qed.

End Hash.
