(* Concrete witnesses (executable SHA-256): what the readers of the current code accept although
   the stored bytes were altered, and examples showing that the premises of the detection theorems
   are satisfiable. All by evaluation of the model. *)
From V Require Import Corrupt.TxRecord Corrupt.HTreeBind Corrupt.Binding Corrupt.ReaderSound Merkle.Sha256.
From Coq Require Import ZifyN ZifyNat ZifyBool.

(* ---- the executable hash has 32-byte output ---- *)
Lemma round_length st kw : length (round st kw) = length st.
Proof.
  unfold round. destruct st as [|a [|b [|c [|d [|e [|f [|g [|h [|? ?]]]]]]]]]; reflexivity.
Qed.

Lemma fold_round_length l : forall st, length (fold_left round l st) = length st.
Proof. induction l as [|x l IH]; intros st; simpl; auto. rewrite IH. apply round_length. Qed.

Lemma compress_length hs block : length (compress hs block) = length hs.
Proof.
  unfold compress. rewrite map_length, combine_length, fold_round_length. apply Nat.min_id.
Qed.

Lemma blocks_length fuel : forall hs b, length (blocks fuel hs b) = length hs.
Proof.
  induction fuel as [|f IH]; intros hs b; simpl; auto.
  destruct b; auto. rewrite IH. apply compress_length.
Qed.

Lemma concat_i2bytes_length l : length (concat (map i2bytes l)) = (4 * length l)%nat.
Proof.
  induction l as [|x l IH]; [reflexivity|].
  cbn [map concat]. rewrite app_length, IH. unfold i2bytes. simpl length. lia.
Qed.

Theorem sha256_len x : length (sha256 x) = 32%nat.
Proof. unfold sha256. cbv zeta. rewrite concat_i2bytes_length, blocks_length. reflexivity. Qed.

(* ---- a committed transaction: one entry  k1 -> [7;9]  stored in value log 1 at offset 3 ---- *)
Definition seal (H : bytes -> bytes) (h : txhdr) (es : list entry) : tx :=
  match digests H (h_version h) es with
  | Ok ds => {| t_hdr := set_eh h (htree_root H ds); t_entries := es |}
  | _ => {| t_hdr := h; t_entries := es |}
  end.
Definition get {A} (d : A) (r : res A) : A := match r with Ok a => a | _ => d end.
Definition rtx (r : res (tx * bytes * bytes)) (d : tx) : tx := match r with Ok (t, _, _) => t | _ => d end.
Definition ralh (r : res (tx * bytes * bytes)) : bytes := match r with Ok (_, a, _) => a | _ => [] end.

Definition w_val : bytes := [7; 9].
Definition w_vlog : bytes := [1; 2; 3; 7; 9; 4].
Definition w_voff : N := 2 ^ 56 + 3.
Definition w_hval : bytes := Eval vm_compute in sha256 w_val.
Definition w_hdr : txhdr := Eval vm_compute in
  {| h_id := 2; h_prevalh := sha256 [1]; h_ts := 1700000002; h_version := 1; h_md := None;
     h_nentries := 1; h_eh := zero32; h_bltxid := 1; h_blroot := sha256 [2] |}.
Definition w_entry (key : bytes) (vlen voff : N) (hval : bytes) : entry :=
  {| e_md := None; e_key := key; e_vlen := vlen; e_voff := voff; e_hval := hval |}.
Definition w_tx : tx := Eval vm_compute in seal sha256 w_hdr [w_entry [107; 49] 2 w_voff w_hval].
Definition w_ds : list bytes := Eval vm_compute in get [] (digests sha256 1 (t_entries w_tx)).
Definition w_rec : bytes := Eval vm_compute in get [] (write_tx sha256 w_tx).
Definition w_alh : bytes := Eval vm_compute in get [] (tx_alh sha256 (t_hdr w_tx)).

Fixpoint set_nth (n : nat) (x : N) (l : bytes) : bytes :=
  match l, n with
  | [], _ => []
  | _ :: r, O => x :: r
  | y :: r, S k => y :: set_nth k x r
  end.

(* the record is 96 header bytes, then  mdLen(2) kLen(2) key(2) vLen(4) vOff(8) hVal(32), Alh(32) *)
Example w_rec_length : length w_rec = 178%nat. Proof. vm_compute. reflexivity. Qed.

Lemma w_tx_wf : tx_wf sha256 w_tx.
Proof.
  unfold tx_wf. split; [|split; [|split]].
  - unfold hdr_wf, fits. vm_compute. repeat split; auto.
  - constructor; [|constructor]. unfold entry_wf, fits. split; vm_compute; reflexivity.
  - vm_compute. reflexivity.
  - exists w_ds. split; vm_compute; reflexivity.
Qed.

(* the premises of corrupt_tx_detected_partial are satisfiable: the unaltered record reads back as
   the committed transaction, compared with the committed Alh; the committed value reads back *)
Example premises_satisfiable :
  tx_wf sha256 w_tx /\ tx_alh sha256 (t_hdr w_tx) = Ok w_alh /\ bytes_ok w_rec = true /\
  read_tx sha256 true 6 12 w_rec = Ok (w_tx, w_alh, []) /\
  fst (read_value sha256 64 VSingle [] [w_vlog] None (len w_val) w_voff (sha256 w_val)) = Ok w_val.
Proof. split; [exact w_tx_wf|]. repeat split; vm_compute; reflexivity. Qed.

(* ---- (1) vLen / vOff are under no hash: ONE flipped bit of the stored vLen (2 -> 0), trailing
   Alh untouched: the integrity-checked read succeeds and returns a different vLen ---- *)
Definition w_rec_vlen0 : bytes := Eval vm_compute in set_nth 105 0 w_rec.
Definition w_tx_vlen0 : tx := Eval vm_compute in rtx (read_tx sha256 true 6 12 w_rec_vlen0) w_tx.

Theorem corrupt_tx_vlen_refuted :
  exists t rec rec' t' a,
    tx_wf sha256 t /\ write_tx sha256 t = Ok rec /\ tx_alh sha256 (t_hdr t) = Ok a /\
    length rec' = length rec /\ bytes_ok rec' = true /\
    skipn 146 rec' = skipn 146 rec /\                       (* the stored Alh is the committed one *)
    read_tx sha256 true 6 12 rec' = Ok (t', a, []) /\
    map e_vlen (t_entries t') <> map e_vlen (t_entries t).
Proof.
  exists w_tx, w_rec, w_rec_vlen0, w_tx_vlen0, w_alh.
  split; [exact w_tx_wf|].
  split; [vm_compute; reflexivity|]. split; [vm_compute; reflexivity|].
  split; [vm_compute; reflexivity|]. split; [vm_compute; reflexivity|].
  split; [vm_compute; reflexivity|].
  split; [vm_compute; reflexivity|].
  vm_compute. discriminate.
Qed.

(* ... and ReadValue on the entry so read answers with the EMPTY value, no error, although the
   committed value is [7;9] and the value log is intact *)
Theorem corrupt_entry_value_refuted :
  exists rec' t' a e',
    length rec' = length w_rec /\
    read_tx sha256 true 6 12 rec' = Ok (t', a, []) /\ t_entries t' = [e'] /\
    e_hval e' = sha256 w_val /\
    fst (read_value sha256 64 VSingle [] [w_vlog] None (e_vlen e') (e_voff e') (e_hval e')) = Ok [] /\
    w_val <> [].
Proof.
  exists w_rec_vlen0, w_tx_vlen0, w_alh, (w_entry [107; 49] 0 w_voff w_hval).
  split; [vm_compute; reflexivity|]. split; [vm_compute; reflexivity|].
  split; [vm_compute; reflexivity|]. split; [vm_compute; reflexivity|].
  split; [vm_compute; reflexivity|]. discriminate.
Qed.

(* ---- (2) the only Alh a read is compared with is the one stored INSIDE the record: rewriting a
   record consistently (another key, Eh and Alh recomputed, same length) is served as valid.
   No collision is involved: the two transactions have different Alh values. ---- *)
Definition w_tx_forged : tx := Eval vm_compute in seal sha256 w_hdr [w_entry [107; 50] 2 w_voff w_hval].
Definition w_rec_forged : bytes := Eval vm_compute in get [] (write_tx sha256 w_tx_forged).
Definition w_alh_forged : bytes := Eval vm_compute in get [] (tx_alh sha256 (t_hdr w_tx_forged)).

Theorem corrupt_tx_detected_refuted :
  exists t rec rec' t' a',
    tx_wf sha256 t /\ write_tx sha256 t = Ok rec /\
    length rec' = length rec /\ bytes_ok rec' = true /\
    read_tx sha256 true 6 12 rec' = Ok (t', a', []) /\
    map e_key (t_entries t') <> map e_key (t_entries t) /\
    tx_alh sha256 (t_hdr t) <> Ok a'.
Proof.
  exists w_tx, w_rec, w_rec_forged, w_tx_forged, w_alh_forged.
  split; [exact w_tx_wf|].
  split; [vm_compute; reflexivity|]. split; [vm_compute; reflexivity|].
  split; [vm_compute; reflexivity|]. split; [vm_compute; reflexivity|].
  split; vm_compute; discriminate.
Qed.

(* ---- (3) [fixed by commit c6a3ff8] a value reference that names a value log the store does not
   have (vLogID 1 -> 5) used to panic in the multi-vlog configuration; it is an error now ---- *)
Example absent_vlog_is_error :
  forall H, fst (read_value H 64 VMulti [] [w_vlog; []] (Some []) 2 (5 * 2 ^ 56 + 3) (H w_val)) = Err ECorruptedData.
Proof. intros H. reflexivity. Qed.

(* ---- (4) [fixed by commit 6fe0104] ExportTx used to take a value whose read ran past the end of
   the log (vOff moved beyond it) for a truncated one and to export the digest instead; it is an
   error now. What remains: a vOff whose vLogID byte is 0 is still answered io.EOF ("replicated
   without its value") and exported as truncated ---- *)
Example export_beyond_end_is_error :
  fst (export_values sha256 true 64 VSingle [] [w_vlog] None [w_entry [107; 49] 2 (w_voff + 100) w_hval] 0 false)
    = Err ECorruptedData /\
  fst (export_values sha256 true 64 VSingle [] [w_vlog] None [w_entry [107; 49] 2 w_voff w_hval] 0 false)
    = Ok (false, [w_val]).
Proof. split; vm_compute; reflexivity. Qed.

(* ---- (5) [fixed by commit 85f50b0] one altered byte of vLen (0x00000002 -> 0x40000002) used to
   make ReadValue allocate 1 GiB; the read is refused now and nothing is allocated ---- *)
Definition w_rec_huge : bytes := Eval vm_compute in set_nth 102 64 w_rec.
Definition w_tx_huge : tx := Eval vm_compute in rtx (read_tx sha256 true 6 12 w_rec_huge) w_tx.

Example huge_vlen_refused :
  read_tx sha256 true 6 12 w_rec_huge = Ok (w_tx_huge, w_alh, []) /\
  map e_vlen (t_entries w_tx_huge) = [2 ^ 30 + 2] /\
  fst (read_value sha256 64 VSingle [] [w_vlog] None (2 ^ 30 + 2) w_voff w_hval) = Err ECorruptedData /\
  read_value_alloc 64 (2 ^ 30 + 2) = 0.
Proof. repeat split; vm_compute; reflexivity. Qed.

(* ---- the same three mechanisms for EVERY hash function (no evaluation of a hash involved) ---- *)
(* ReadValue answers an entry whose vLen is 0 with the empty value before anything is checked *)
Theorem vlen0_serves_empty :
  forall (H : bytes -> bytes) mvl mode txlog vlogs c off hval,
    fst (read_value H mvl mode txlog vlogs c 0 off hval) = Ok [].
Proof. reflexivity. Qed.

Theorem corrupt_entry_value_refuted_any_hash :
  forall (H : bytes -> bytes) (v : bytes) mvl mode txlog vlogs c off,
    v <> [] -> exists v', fst (read_value H mvl mode txlog vlogs c 0 off (H v)) = Ok v' /\ v' <> v.
Proof. intros H v mvl mode txlog vlogs c off NE. exists []. split; [reflexivity | congruence]. Qed.

(* ExportTx still takes a value reference without a value log (vLogID byte altered to 0, the value
   itself intact in the log) for a value "replicated without its content": the export succeeds,
   flagged truncated, with the digest in place of the value; whatever the digest is *)
Theorem export_no_vlog_as_truncated :
  forall (H : bytes -> bytes) (hval : bytes),
    fst (export_values H true 64 VSingle [] [w_vlog] None [w_entry [107; 49] 2 3 hval] 0 false)
      = Ok (true, [hval]).
Proof. intros H hval. reflexivity. Qed.

(* ---- the value cache: an altered value log (7 -> 8) with the cache enabled. The first read misses,
   stores the altered bytes in the cache and fails the digest test; the second read hits the cache
   and fails the same test again: a cached value is never served unvalidated ---- *)
Definition w_vlog_bad : bytes := [1; 2; 3; 8; 9; 4].
Example cached_value_revalidated :
  let r1 := read_value sha256 64 VSingle [] [w_vlog_bad] (Some []) 2 w_voff w_hval in
  let r2 := read_value sha256 64 VSingle [] [w_vlog_bad] (snd r1) 2 w_voff w_hval in
  fst r1 = Err ECorruptedData /\ snd r1 = Some [(w_voff, [8; 9])] /\ fst r2 = Err ECorruptedData.
Proof. vm_compute. repeat split; reflexivity. Qed.
