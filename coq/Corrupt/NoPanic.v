(* The readers never hit a Go runtime panic, for every byte string (transactions) / for every value
   reference that names an existing value log (values). *)
From V Require Import Corrupt.TxRecord Store.CodecTotal.
From Coq Require Import ZifyN ZifyNat ZifyBool.

Tactic Notation "inv_bind" hyp(H) "as" simple_intropattern(pat) "name" ident(E) :=
  match type of H with
  | bind ?r _ = Ok _ =>
      destruct r as [pat| |] eqn:E; cbn [bind] in H; [|discriminate H|discriminate H]
  end.

Definition np {A} (r : res A) : Prop := r <> Panic.

Lemma np_ok {A} (a : A) : np (Ok a). Proof. discriminate. Qed.
Lemma np_err {A} e : np (@Err A e). Proof. discriminate. Qed.
Lemma np_bind {A B} (r : res A) (f : A -> res B) :
  np r -> (forall a, r = Ok a -> np (f a)) -> np (bind r f).
Proof. apply bind_not_panic. Qed.

Lemma rd_np n s : np (rd n s).
Proof. unfold rd. destruct (_ <=? _); [apply np_ok | apply np_err]. Qed.
Lemma rd_uint_np k s : np (rd_uint k s).
Proof. unfold rd_uint. apply np_bind; [apply rd_np|]. intros [b s'] _. apply np_ok. Qed.

#[local] Hint Resolve np_ok np_err rd_np rd_uint_np : core.

(* ---- re-serialised tx metadata fits the buffer of innerHash ---- *)
Definition extra_ok (m : txmd) : Prop :=
  match md_extra m with Some e => len e <= st_maxExtraLen | None => True end.

Lemma extra_deser_len b e n : extra_deser b = Ok (e, n) -> len e <= st_maxExtraLen.
Proof.
  unfold extra_deser. destruct (len b <? st_sszSize); [discriminate|].
  destruct (uint_ w_ssz b) as [k| |]; cbn [bind]; try discriminate.
  destruct ((st_maxExtraLen <? k) || (len b <? st_sszSize + k)) eqn:G; [discriminate|].
  apply orb_false_elim in G as [G _]. apply N.ltb_ge in G.
  destruct (from_ b st_sszSize) as [src| |]; cbn [bind]; try discriminate.
  intros E. assert (e = take k (src ++ repeat 0 (N.to_nat k))) by congruence. subst.
  rewrite len_take. lia.
Qed.

Lemma txmd_loop_extra fuel : forall b i m r,
  extra_ok m -> txmd_loop fuel b i m = Ok r -> extra_ok r.
Proof.
  induction fuel as [|f IH]; intros b i m r Hm R; cbn [txmd_loop] in R; [discriminate|].
  destruct (len b =? i); [congruence|].
  inv_bind R as s name E0.
  destruct (len s <? st_attrCodeSize); [discriminate|].
  inv_bind R as code name E1.
  destruct (code =? st_truncatedUptoTxAttrCode).
  - inv_bind R as s2 name E2. inv_bind R as [v n] name E3.
    apply IH in R; auto.
  - destruct (code =? st_extraAttrCode); [|discriminate].
    inv_bind R as s2 name E2. inv_bind R as [e n] name E3.
    apply IH in R; auto. unfold extra_ok; cbn [md_extra].
    apply extra_deser_len in E3. exact E3.
Qed.

Lemma len_single (c : N) : len [c] = 1. Proof. reflexivity. Qed.
Lemma len_nil0 : len (@nil N) = 0. Proof. reflexivity. Qed.

Lemma txmd_read_bytes_len b m : txmd_read b = Ok m -> len (txmd_bytes m) <= st_maxTxMetadataLen.
Proof.
  unfold txmd_read. destruct (_ <? _); [discriminate|]. intros R.
  apply txmd_loop_extra in R; [|exact I].
  unfold txmd_bytes, extra_ok in *. rewrite len_app.
  match goal with |- ?a + _ <= _ => assert (A : a <= 9); [|set (x := a) in *; clearbody x] end.
  { destruct (md_trunc m); [|rewrite len_nil0; lia].
    rewrite len_app, len_be_enc, len_single. unfold w_txid. rewrite N2Nat.id.
    unfold st_txIDSize. lia. }
  destruct (md_extra m) as [e|].
  - rewrite !len_app, len_be_enc, len_single. unfold w_ssz. rewrite N2Nat.id.
    unfold st_sszSize, st_maxExtraLen, st_maxTxMetadataLen in *.
    set (y := len e) in *. clearbody y. lia.
  - rewrite len_nil0. unfold st_maxTxMetadataLen. lia.
Qed.

(* ---- header ---- *)
Lemma read_header_np ns s : np (read_header ns s).
Proof.
  unfold read_header.
  apply np_bind; auto. intros [id s1] _.
  destruct (id =? 0); auto.
  apply np_bind; auto. intros [ts s2] _.
  apply np_bind; auto. intros [bl s3] _.
  apply np_bind; auto. intros [blroot s4] _.
  apply np_bind; auto. intros [prevalh s5] _.
  apply np_bind; auto. intros [ver s6] _.
  apply np_bind.
  - destruct (ver =? 0).
    + apply np_bind; auto. intros [ne s7] _. auto.
    + destruct (ver =? 1); auto.
      apply np_bind; auto. intros [mdLen s7] _.
      destruct (N.ltb_spec st_maxTxMetadataLen mdLen); auto.
      apply np_bind.
      * destruct (0 <? mdLen); auto.
        apply np_bind.
        { unfold arr_prefix_. destruct (N.leb_spec mdLen st_maxTxMetadataLen); auto. lia. }
        intros _ _. apply np_bind; auto. intros [b s8] _.
        apply np_bind; [apply txmd_read_safe|]. intros m _. auto.
      * intros [md s8] _. apply np_bind; auto. intros [ne s9] _. auto.
  - intros [[md ne] s7] _. destruct (ns <? ne); auto.
Qed.

Lemma read_header_shape ns s h s' :
  read_header ns s = Ok (h, s') ->
  (h_version h = 0 \/ h_version h = 1) /\
  len (opt_md_bytes (h_md h)) <= st_maxTxMetadataLen /\ h_nentries h <= ns.
Proof.
  unfold read_header. intros R.
  inv_bind R as [id s1] name E. destruct (id =? 0); [discriminate|].
  inv_bind R as [ts s2] name E0. inv_bind R as [bl s3] name E1.
  inv_bind R as [blroot s4] name E2. inv_bind R as [prevalh s5] name E3.
  inv_bind R as [ver s6] name E4. inv_bind R as [[md ne] s7] name E5.
  assert (G : (ver = 0 \/ ver = 1) /\ len (opt_md_bytes md) <= st_maxTxMetadataLen).
  { destruct (N.eqb_spec ver 0) as [V0|_].
    - inv_bind E5 as [ne0 s8] name E6. assert (md = None) by congruence. subst.
      split; auto. unfold len, st_maxTxMetadataLen; simpl; lia.
    - destruct (N.eqb_spec ver 1) as [V1|_]; [|discriminate].
      inv_bind E5 as [mdLen s8] name E6.
      destruct (st_maxTxMetadataLen <? mdLen); [discriminate|].
      inv_bind E5 as [md0 s9] name E7. inv_bind E5 as [ne0 s10] name E8.
      assert (md = md0) by congruence. subst md0. split; auto.
      destruct (0 <? mdLen).
      + inv_bind E7 as u name E9. inv_bind E7 as [b s11] name E10. inv_bind E7 as m name E11.
        assert (md = Some m) by congruence. subst. cbn [opt_md_bytes].
        apply txmd_read_bytes_len in E11. exact E11.
      + assert (md = None) by congruence. subst. unfold len, st_maxTxMetadataLen; simpl; lia. }
  destruct G as [G1 G2].
  destruct (N.ltb_spec ns ne); [discriminate|].
  assert (Eh : h = {| h_id := id; h_prevalh := prevalh; h_ts := ts; h_version := ver; h_md := md;
                     h_nentries := ne; h_eh := zero32; h_bltxid := bl; h_blroot := blroot |}) by congruence.
  subst. cbn [h_version h_md h_nentries]. auto.
Qed.

Section Hash.
Variable H : bytes -> bytes.

Lemma entry_digest_np v e : np (entry_digest H v e).
Proof.
  unfold entry_digest. destruct (v =? 0).
  - destruct (0 <? _); auto.
  - destruct (v =? 1); auto.
Qed.

Lemma read_entry_np chk v mk s : np (read_entry H chk v mk s).
Proof.
  unfold read_entry.
  apply np_bind; auto. intros [mdLen s1] _.
  apply np_bind.
  - destruct (0 <? mdLen); auto.
    apply np_bind; auto. intros [b s2] _.
    apply np_bind; [apply kvmd_read_safe|]. intros m _. auto.
  - intros [md s2] _.
    apply np_bind; auto. intros [kLen s3] _.
    destruct (N.ltb_spec mk kLen); auto.
    apply np_bind.
    { unfold arr_prefix_. destruct (N.leb_spec kLen mk); auto. lia. }
    intros _ _.
    apply np_bind; auto. intros [k s4] _.
    apply np_bind; auto. intros [vLen s5] _.
    apply np_bind; auto. intros [vOff s6] _.
    apply np_bind; auto. intros [hval s7] _.
    destruct chk; auto.
    apply np_bind; [apply entry_digest_np|]. intros d _. auto.
Qed.

Lemma read_entries_np chk v mk ns : forall n i s,
  i + N.of_nat n <= ns -> np (read_entries H chk v mk ns n i s).
Proof.
  induction n as [|n IH]; intros i s B; cbn [read_entries]; auto.
  destruct (N.leb_spec ns i); [lia|].
  apply np_bind; [apply read_entry_np|]. intros [[e d] s1] _.
  apply np_bind; [apply IH; lia|]. intros [[es ds] s2] _. auto.
Qed.

Lemma tx_alh_np h :
  (h_version h = 0 \/ h_version h = 1) -> len (opt_md_bytes (h_md h)) <= st_maxTxMetadataLen ->
  np (tx_alh H h).
Proof.
  intros V L. unfold tx_alh. apply np_bind; [|intros ib _; auto].
  unfold inner_bytes. destruct V as [V|V]; rewrite V; cbn [N.eqb Pos.eqb]; auto.
  destruct (N.ltb_spec st_maxTxMetadataLen (len (opt_md_bytes (h_md h)))); auto. lia.
Qed.

(* C09 "never crashes while reading": for EVERY byte string, with or without integrity check, for
   every holder size, reading a transaction returns a value or an error *)
Theorem read_tx_no_panic chk ns mk s : read_tx H chk ns mk s <> Panic.
Proof.
  change (np (read_tx H chk ns mk s)). unfold read_tx.
  apply np_bind; [apply read_header_np|]. intros [h s1] Eh.
  apply read_header_shape in Eh as (V & L & B).
  apply np_bind; [apply read_entries_np; lia|]. intros [[es ds] s2] _.
  apply np_bind; auto. intros [alh s3] _.
  destruct (negb chk); auto.
  destruct (ns <? _); auto.
  apply np_bind.
  - apply tx_alh_np; unfold set_eh; cbn [h_version h_md]; auto.
  - intros a _. destruct (list_eq_dec N.eq_dec a alh); auto.
Qed.

Theorem read_tx_at_no_panic chk ns mk txlog off size id : read_tx_at H chk ns mk txlog off size id <> Panic.
Proof.
  change (np (read_tx_at H chk ns mk txlog off size id)). unfold read_tx_at.
  apply np_bind; [apply read_tx_no_panic|]. intros [[t a] r] _. destruct (_ =? _); auto.
Qed.

(* values: a store without embedded values and with MaxIOConcurrency = 1 has its one value log
   (Open refuses to build such a store without it); nothing else is assumed *)
Definition vlogs_present (mode : vmode) (vlogs : list bytes) : Prop :=
  match mode with VSingle => vlogs <> [] | _ => True end.

Lemma read_at_np log off n : np (read_at log off n).
Proof. unfold read_at. destruct (_ <=? _); auto. Qed.

Lemma fetch_vlog_np mode txlog vlogs id : vlogs_present mode vlogs -> np (fetch_vlog mode txlog vlogs id).
Proof.
  intros K. unfold fetch_vlog. destruct mode.
  - destruct (0 <? id); auto.
  - destruct (id =? 1); auto. destruct vlogs; auto. simpl in K. congruence.
  - destruct (nth_error vlogs _); auto.
Qed.

Lemma value_check_np chk vlen hval b n : np (value_check H chk vlen hval b n).
Proof. unfold value_check. match goal with |- np (if ?c then _ else _) => destruct c end; auto. Qed.

Lemma raw_read_np mode txlog vlogs vlen off :
  vlogs_present mode vlogs -> np (raw_read mode txlog vlogs vlen off).
Proof.
  intros K. unfold raw_read. apply np_bind; [apply fetch_vlog_np; exact K|].
  intros log _. destruct (off_negative off); auto. apply read_at_np.
Qed.

Lemma read_value_at_np chk mode txlog vlogs c vlen off hval :
  vlogs_present mode vlogs -> np (fst (read_value_at H chk mode txlog vlogs c vlen off hval)).
Proof.
  intros K. unfold read_value_at.
  match goal with |- np (fst (if ?c then _ else _)) => destruct c end; [cbn; auto|].
  destruct (0 <? vlen); [|cbn [fst]; apply value_check_np].
  destruct (cache_lookup c off); [cbn [fst]; apply value_check_np|].
  pose proof (raw_read_np mode txlog vlogs vlen off K) as R.
  destruct (raw_read mode txlog vlogs vlen off); cbn [fst]; auto. apply value_check_np.
Qed.

(* C09 "never crashes while reading", values: for EVERY value reference (any vLen, any vOff incl.
   value-log ids the store does not have), any log contents, any cache content and any
   MaxValueLen, ReadValue returns a value or an error *)
Theorem read_value_no_panic mvl mode txlog vlogs c vlen off hval :
  vlogs_present mode vlogs -> fst (read_value H mvl mode txlog vlogs c vlen off hval) <> Panic.
Proof.
  intros K. change (np (fst (read_value H mvl mode txlog vlogs c vlen off hval))).
  unfold read_value. destruct (vlen =? 0); [cbn; auto|]. destruct (mvl <? vlen); [cbn; auto|].
  apply read_value_at_np. exact K.
Qed.

Theorem export_values_no_panic chk mvl mode txlog vlogs :
  vlogs_present mode vlogs -> forall es c i trunc,
  fst (export_values H chk mvl mode txlog vlogs c es i trunc) <> Panic.
Proof.
  intros K. induction es as [|e es IH]; intros c i trunc; cbn [export_values]; [cbn; discriminate|].
  destruct (mvl <? e_vlen e); [cbn; discriminate|].
  pose proof (read_value_at_np chk mode txlog vlogs c (e_vlen e) (e_voff e) (e_hval e) K) as R.
  destruct (read_value_at H chk mode txlog vlogs c (e_vlen e) (e_voff e) (e_hval e)) as [rv c1].
  cbn [fst] in R. destruct rv as [v|code|]; [| |exfalso; apply R; reflexivity].
  - destruct trunc; [cbn; discriminate|].
    specialize (IH c1 (i + 1) false).
    destruct (export_values H chk mvl mode txlog vlogs c1 es (i + 1) false) as [rr c2].
    cbn [fst] in *. destruct rr as [[t l]| |]; try discriminate. congruence.
  - destruct (code =? EEOF); [|cbn; discriminate].
    destruct (negb trunc && (0 <? i)); [cbn; discriminate|].
    specialize (IH c1 (i + 1) true).
    destruct (export_values H chk mvl mode txlog vlogs c1 es (i + 1) true) as [rr c2].
    cbn [fst] in *. destruct rr as [[t l]| |]; try discriminate. congruence.
Qed.

End Hash.

(* the buffer ReadValue allocates never exceeds MaxValueLen, whatever vLen the record carries *)
Theorem read_value_alloc_bounded mvl vlen : read_value_alloc mvl vlen <= mvl.
Proof.
  unfold read_value_alloc. destruct (N.eqb_spec vlen 0); [lia|].
  destruct (N.ltb_spec mvl vlen); lia.
Qed.
