(* What a successful integrity-checked read establishes about its result, and the detection
   theorems that follow from the binding of the Alh. *)
From V Require Import Corrupt.TxRecord Corrupt.HTreeBind Corrupt.Binding.
From Coq Require Import ZifyN ZifyNat ZifyBool.

Tactic Notation "inv_bind" hyp(H) "as" simple_intropattern(pat) "name" ident(E) :=
  match type of H with
  | bind ?r _ = Ok _ =>
      destruct r as [pat| |] eqn:E; cbn [bind] in H; [|discriminate H|discriminate H]
  end.

Lemma fits_be_dec (b : bytes) k : bytes_ok b = true -> length b = k -> fits k (be_dec b).
Proof. intros Hb L. unfold fits. rewrite <- L. apply be_dec_bound. exact Hb. Qed.

Section Hash.
Variable H : bytes -> bytes.
Hypothesis H_len : forall x, length (H x) = 32%nat.

Local Notation Collision := (Collision H).

Lemma read_header_inv ns s h s' :
  read_header ns s = Ok (h, s') -> bytes_ok s = true ->
  hdr_wf h /\ bytes_ok s' = true /\ h_nentries h <= ns /\ h_eh h = zero32.
Proof.
  unfold read_header. intros R Hs.
  inv_bind R as [id s1] name E.
  destruct (rd_uint_inv _ _ _ _ E Hs) as (Fid & Hs1 & _).
  destruct (id =? 0); [discriminate|].
  inv_bind R as [ts s2] name E0. destruct (rd_uint_inv _ _ _ _ E0 Hs1) as (Fts & Hs2 & _).
  inv_bind R as [bl s3] name E1. destruct (rd_uint_inv _ _ _ _ E1 Hs2) as (Fbl & Hs3 & _).
  inv_bind R as [blroot s4] name E2. destruct (rd_ok_bytes _ _ _ _ E2 Hs3) as (_ & Hs4).
  apply rd_inv in E2 as [_ Lbr].
  inv_bind R as [prevalh s5] name E3. destruct (rd_ok_bytes _ _ _ _ E3 Hs4) as (_ & Hs5).
  apply rd_inv in E3 as [_ Lpa].
  inv_bind R as [ver s6] name E4. destruct (rd_uint_inv _ _ _ _ E4 Hs5) as (_ & Hs6 & _).
  inv_bind R as [[md ne] s7] name E5.
  assert (G : ((ver = 0 /\ fits 2 ne /\ opt_md_bytes md = []) \/ (ver = 1 /\ fits 4 ne)) /\ bytes_ok s7 = true).
  { destruct (N.eqb_spec ver 0) as [V0|_].
    - inv_bind E5 as [ne0 s8] name E6. destruct (rd_uint_inv _ _ _ _ E6 Hs6) as (Fne & Hs8 & _).
      assert (md = None) by congruence. assert (ne = ne0) by congruence. assert (s7 = s8) by congruence.
      subst. split; auto.
    - destruct (N.eqb_spec ver 1) as [V1|_]; [|discriminate].
      inv_bind E5 as [mdLen s8] name E6. destruct (rd_uint_inv _ _ _ _ E6 Hs6) as (_ & Hs8 & _).
      destruct (st_maxTxMetadataLen <? mdLen); [discriminate|].
      inv_bind E5 as [md0 s9] name E7.
      assert (Hs9 : bytes_ok s9 = true).
      { destruct (0 <? mdLen).
        - inv_bind E7 as u name E8. inv_bind E7 as [b s10] name E9.
          destruct (rd_ok_bytes _ _ _ _ E9 Hs8) as (_ & Hs10).
          inv_bind E7 as m name E10. congruence.
        - congruence. }
      inv_bind E5 as [ne0 s10] name E8. destruct (rd_uint_inv _ _ _ _ E8 Hs9) as (Fne & Hs10 & _).
      assert (ne = ne0) by congruence. assert (s7 = s10) by congruence. subst. split; auto. }
  destruct G as [G Hs7].
  destruct (N.ltb_spec ns ne); [discriminate|].
  assert (Eh : h = {| h_id := id; h_prevalh := prevalh; h_ts := ts; h_version := ver; h_md := md;
                     h_nentries := ne; h_eh := zero32; h_bltxid := bl; h_blroot := blroot |}) by congruence.
  assert (s' = s7) by congruence. subst.
  unfold hdr_wf; cbn [h_id h_ts h_bltxid h_prevalh h_blroot h_version h_nentries h_md h_eh].
  repeat split; auto; unfold len in *; lia.
Qed.

Lemma read_entry_inv v mk s e d s' :
  read_entry H true v mk s = Ok (e, d, s') -> bytes_ok s = true ->
  entry_wf e /\ bytes_ok s' = true /\ exists dd, d = Some dd /\ entry_digest H v e = Ok dd.
Proof.
  unfold read_entry. intros R Hs.
  inv_bind R as [mdLen s1] name E. destruct (rd_uint_inv _ _ _ _ E Hs) as (_ & Hs1 & _).
  inv_bind R as [md s2] name E0.
  assert (Hs2 : bytes_ok s2 = true).
  { destruct (0 <? mdLen).
    - inv_bind E0 as [b s3] name E1. destruct (rd_ok_bytes _ _ _ _ E1 Hs1) as (_ & Hs3).
      inv_bind E0 as m name E2. congruence.
    - congruence. }
  inv_bind R as [kLen s3] name E1. destruct (rd_uint_inv _ _ _ _ E1 Hs2) as (Fk & Hs3 & _).
  destruct (mk <? kLen); [discriminate|].
  inv_bind R as u name E2. inv_bind R as [k s4] name E3. destruct (rd_ok_bytes _ _ _ _ E3 Hs3) as (_ & Hs4).
  apply rd_inv in E3 as [_ Lk].
  inv_bind R as [vLen s5] name E4. destruct (rd_uint_inv _ _ _ _ E4 Hs4) as (_ & Hs5 & _).
  inv_bind R as [vOff s6] name E5. destruct (rd_uint_inv _ _ _ _ E5 Hs5) as (_ & Hs6 & _).
  inv_bind R as [hval s7] name E6. destruct (rd_ok_bytes _ _ _ _ E6 Hs6) as (_ & Hs7).
  apply rd_inv in E6 as [_ Lh].
  inv_bind R as a0 name E7.
  assert (Ee : e = {| e_md := md; e_key := k; e_vlen := vLen; e_voff := vOff; e_hval := hval |}) by congruence.
  assert (d = Some a0) by congruence. assert (s' = s7) by congruence. subst.
  split; [|split; [exact Hs7|exists a0; split; [reflexivity | exact E7]]].
  unfold entry_wf; cbn [e_key e_hval]. split; [congruence | unfold len in Lh; lia].
Qed.

Lemma read_entries_inv v mk ns : forall n i s es ds s',
  read_entries H true v mk ns n i s = Ok (es, ds, s') -> bytes_ok s = true ->
  Forall entry_wf es /\ digests H v es = Ok ds /\ length es = n /\ bytes_ok s' = true.
Proof.
  induction n as [|n IH]; intros i s es ds s' R Hs; cbn [read_entries] in R.
  - assert (es = []) by congruence. assert (ds = []) by congruence. assert (s' = s) by congruence.
    subst. repeat split; auto.
  - destruct (ns <=? i); [discriminate|].
    inv_bind R as [[e d] s1] name E.
    destruct (read_entry_inv _ _ _ _ _ _ E Hs) as (We & Hs1 & dd & -> & De).
    inv_bind R as [[es0 ds0] s2] name E0.
    destruct (IH _ _ _ _ _ E0 Hs1) as (Wes & Des & Les & Hs2).
    assert (es = e :: es0) by congruence. assert (ds = dd :: ds0) by congruence.
    assert (s' = s2) by congruence. subst.
    split; [constructor; assumption|]. split; [|split; [simpl; congruence | exact Hs2]].
    cbn [digests]. rewrite De, Des. reflexivity.
Qed.

Lemma hdr_wf_set_eh h eh : hdr_wf h -> hdr_wf (set_eh h eh).
Proof. unfold hdr_wf, set_eh; simpl. auto. Qed.

(* a successful integrity-checked read returns a well-formed transaction whose recomputed Alh is
   exactly the 32 bytes that followed the entries in the stream *)
Lemma read_tx_inv ns mk s t a rest :
  read_tx H true ns mk s = Ok (t, a, rest) -> bytes_ok s = true ->
  tx_wf H t /\ tx_alh H (t_hdr t) = Ok a.
Proof.
  unfold read_tx. intros R Hs.
  inv_bind R as [h s1] name E.
  destruct (read_header_inv _ _ _ _ E Hs) as (Wh & Hs1 & Hne & _).
  inv_bind R as [[es ds] s2] name E0.
  destruct (read_entries_inv _ _ _ _ _ _ _ _ _ E0 Hs1) as (Wes & Des & Les & Hs2).
  inv_bind R as [alh s3] name E1.
  cbn [negb] in R.
  destruct (ns <? N.of_nat (length ds)); [discriminate|].
  inv_bind R as a0 name E2.
  destruct (list_eq_dec N.eq_dec a0 alh) as [->|]; [|discriminate].
  assert (Et : t = {| t_hdr := set_eh h (htree_root H ds); t_entries := es |}) by congruence.
  assert (a = alh) by congruence. subst.
  split; [|exact E2].
  unfold tx_wf; simpl. split; [apply hdr_wf_set_eh; exact Wh|].
  split; [exact Wes|]. split; [rewrite Les; apply N2Nat.id|].
  exists ds. split; auto.
Qed.

(* ---- C09, transactions: whatever bytes the reader is given, if the integrity-checked read
   succeeds and the Alh it compared with is the committed one, everything that is hashed is the
   committed content (or a collision has been found) ---- *)
Theorem corrupt_tx_detected_partial t a :
  tx_wf H t -> tx_alh H (t_hdr t) = Ok a ->
  forall ns mk s t' rest,
    bytes_ok s = true ->
    read_tx H true ns mk s = Ok (t', a, rest) ->
    same_hashed t t' \/ Collision.
Proof.
  intros W A ns mk s t' rest Hs R.
  destruct (read_tx_inv _ _ _ _ _ _ R Hs) as (W' & A').
  exact (alh_binding H H_len t t' a W W' A A').
Qed.

(* the PrevAlh chain check of a sequential reader: if the NEXT transaction is read unaltered
   (its PrevAlh is the committed Alh of this one) and the check "PrevAlh(next) = Alh(this as read)"
   passes, this one is the committed content *)
Theorem chain_check_detects t a :
  tx_wf H t -> tx_alh H (t_hdr t) = Ok a ->
  forall ns mk s t' a' rest next,
    bytes_ok s = true ->
    read_tx H true ns mk s = Ok (t', a', rest) ->
    h_prevalh next = a ->                              (* next is genuine *)
    tx_alh H (t_hdr t') = Ok (h_prevalh next) ->       (* the check TxReader.Read makes *)
    same_hashed t t' \/ Collision.
Proof.
  intros W A ns mk s t' a' rest next Hs R Hn Hc.
  destruct (read_tx_inv _ _ _ _ _ _ R Hs) as (W' & A').
  rewrite Hn in Hc.
  exact (alh_binding H H_len t t' a W W' A Hc).
Qed.

(* ---- C09, values ---- *)
Lemma len_repeat (x : N) n : len (repeat x n) = N.of_nat n.
Proof. unfold len. rewrite repeat_length. reflexivity. Qed.

Lemma value_check_ok vlen hval b n v :
  value_check H true vlen hval b n = Ok v -> len b = vlen -> v = b /\ n = vlen /\ hval = H v.
Proof.
  unfold value_check. cbn [andb]. intros E Lb.
  destruct (N.eqb_spec vlen n) as [->|]; cbn [negb orb] in E; [|discriminate].
  rewrite <- Lb, take_all in E.
  destruct (list_eq_dec N.eq_dec hval (H b)) as [Eh|]; [|discriminate].
  assert (v = b) by congruence. subst. auto.
Qed.

Lemma raw_read_len mode txlog vlogs vlen off b : raw_read mode txlog vlogs vlen off = Ok b -> len b = vlen.
Proof.
  unfold raw_read. destruct (fetch_vlog mode txlog vlogs (vlog_id off)) as [log| |]; cbn [bind]; try discriminate.
  destruct (off_negative off); [discriminate|]. unfold read_at.
  destruct (N.leb_spec (vlog_off off + vlen) (len log)); [|discriminate].
  intros E. assert (b = take vlen (drop (vlog_off off) log)) by congruence. subst.
  rewrite len_take, len_drop. lia.
Qed.

(* whatever the cache holds (any content at all: entries put before validation, by earlier failed
   reads, for other lengths), a value that readValueAt returns has the requested length and digest *)
Lemma read_value_at_ok mode txlog vlogs c vlen off hval v :
  fst (read_value_at H true mode txlog vlogs c vlen off hval) = Ok v -> len v = vlen /\ hval = H v.
Proof.
  unfold read_value_at. destruct (_ && _ && _); [discriminate|].
  destruct (N.ltb_spec 0 vlen) as [Pos|Z].
  - destruct (cache_lookup c off) as [bval|].
    + cbn [fst]. intros E. apply value_check_ok in E.
      * destruct E as (-> & _ & E). split; auto. rewrite len_take, len_app, len_repeat. lia.
      * rewrite len_take, len_app, len_repeat. lia.
    + destruct (raw_read mode txlog vlogs vlen off) as [b| |] eqn:R; cbn [fst]; try discriminate.
      intros E. pose proof (raw_read_len _ _ _ _ _ _ R) as Lb.
      apply value_check_ok in E; auto. destruct E as (-> & _ & E). auto.
  - cbn [fst]. intros E. assert (vlen = 0) by lia. subst.
    apply value_check_ok in E; [|reflexivity]. destruct E as (-> & _ & E). auto.
Qed.

(* a value read with the committed (length, digest) pair, from whatever bytes at whatever offset
   and with whatever the value cache holds: an error, or the committed value, or a collision *)
Theorem corrupt_value_detected v :
  forall mvl mode txlog vlogs c off v',
    fst (read_value H mvl mode txlog vlogs c (len v) off (H v)) = Ok v' -> v' = v \/ Collision.
Proof.
  intros mvl mode txlog vlogs c off v'. unfold read_value.
  destruct (N.eqb_spec (len v) 0) as [Z|NZ].
  - cbn [fst]. intros E. left. rewrite (len_nil v Z). congruence.
  - destruct (mvl <? len v); [discriminate|].
    intros E. apply read_value_at_ok in E as [_ E]. apply H_inj in E as [E|C]; auto.
Qed.

(* the value length and offset of an entry are not hashed, so an altered record may carry any
   (vlen', off') next to the committed digest: the read then fails, or returns the committed value,
   or returns the EMPTY value because vlen' = 0, or a collision has been found *)
Theorem corrupt_entry_value_partial v :
  forall mvl mode txlog vlogs c vlen' off' v',
    fst (read_value H mvl mode txlog vlogs c vlen' off' (H v)) = Ok v' ->
    v' = v \/ (vlen' = 0 /\ v' = []) \/ Collision.
Proof.
  intros mvl mode txlog vlogs c vlen' off' v'. unfold read_value.
  destruct (N.eqb_spec vlen' 0) as [Z|NZ].
  - cbn [fst]. intros E. right; left. split; congruence.
  - destruct (mvl <? vlen'); [discriminate|].
    intros E. apply read_value_at_ok in E as [_ E]. apply H_inj in E as [E|C]; auto.
Qed.

(* ExportTx never turns a "truncated" run back into a full one *)
Lemma export_trunc_stays mvl mode txlog vlogs : forall es c i l,
  fst (export_values H true mvl mode txlog vlogs c es i true) <> Ok (false, l).
Proof.
  induction es as [|e es IH]; intros c i l; cbn [export_values]; [cbn; congruence|].
  destruct (mvl <? e_vlen e); [discriminate|].
  destruct (read_value_at H true mode txlog vlogs c (e_vlen e) (e_voff e) (e_hval e)) as [rv c1].
  destruct rv as [w|code|]; [discriminate| |discriminate].
  destruct (code =? EEOF); [|discriminate]. cbn [negb andb].
  destruct (export_values H true mvl mode txlog vlogs c1 es (i + 1) true) as [rr c2] eqn:X.
  cbn [fst]. destruct rr as [[t l0]| |]; try discriminate.
  intros Y. apply (IH c1 (i + 1) l0). rewrite X. cbn [fst]. congruence.
Qed.

(* ExportTx: when it does export values (flag "truncated" off), they are the committed ones even
   if the (vlen, off) pairs were altered and whatever the cache holds: readValueAt checks the digest
   also for vlen = 0 *)
Theorem export_values_sound mvl mode txlog vlogs : forall es vs c i l,
  map (e_hval) es = map H vs ->
  fst (export_values H true mvl mode txlog vlogs c es i false) = Ok (false, l) ->
  l = vs \/ Collision.
Proof.
  induction es as [|e es IH]; intros vs c i l Hh E.
  - destruct vs; [|discriminate]. cbn in E. left; congruence.
  - destruct vs as [|v vs]; [discriminate|]. simpl in Hh. injection Hh as Hv Hh.
    cbn [export_values] in E. destruct (mvl <? e_vlen e); [discriminate|].
    destruct (read_value_at H true mode txlog vlogs c (e_vlen e) (e_voff e) (e_hval e)) as [rv c1] eqn:R.
    destruct rv as [w|code|]; [| |discriminate].
    + destruct (export_values H true mvl mode txlog vlogs c1 es (i + 1) false) as [rr c2] eqn:X.
      cbn [fst] in E. destruct rr as [[t l0]| |]; try discriminate.
      assert (t = false) by congruence. assert (l = w :: l0) by congruence. subst.
      assert (R' : fst (read_value_at H true mode txlog vlogs c (e_vlen e) (e_voff e) (e_hval e)) = Ok w)
        by (rewrite R; reflexivity).
      apply read_value_at_ok in R' as [_ R']. rewrite Hv in R'.
      apply H_inj in R' as [R'|C]; [|right; exact C].
      destruct (IH vs c1 (i + 1) l0 Hh) as [->|C]; [rewrite X; reflexivity | left; congruence | right; exact C].
    + destruct (code =? EEOF); [|discriminate].
      destruct (negb false && (0 <? i)); [discriminate|].
      destruct (export_values H true mvl mode txlog vlogs c1 es (i + 1) true) as [rr c2] eqn:X.
      cbn [fst] in E. destruct rr as [[t l0]| |]; try discriminate.
      exfalso. apply (export_trunc_stays mvl mode txlog vlogs es c1 (i + 1) l0). rewrite X. cbn [fst]. congruence.
Qed.

End Hash.

(* ---- the same statement in terms of the stored record: the reader consumes a prefix of the
   stream that ends with the 32 bytes it compares the recomputed Alh with ---- *)
Lemma rd_app n s b s' : rd n s = Ok (b, s') -> s = b ++ s'.
Proof. intros E. apply rd_inv in E as [E _]. exact E. Qed.

Lemma rd_uint_app k s v s' : rd_uint k s = Ok (v, s') -> exists b, s = b ++ s'.
Proof.
  unfold rd_uint. destruct (rd (N.of_nat k) s) as [[b s0]| |] eqn:E; cbn [bind]; try discriminate.
  intros E2. assert (s' = s0) by congruence. subst. exists b. apply rd_app in E. exact E.
Qed.

Ltac chain_app :=
  repeat match goal with
  | H : rd_uint _ ?s = Ok (_, ?s') |- _ => apply rd_uint_app in H; destruct H as [? H]
  | H : rd _ ?s = Ok (_, ?s') |- _ => apply rd_app in H
  end.

Lemma read_header_app ns s h s' : read_header ns s = Ok (h, s') -> exists p, s = p ++ s'.
Proof.
  unfold read_header. intros R.
  inv_bind R as [id s1] name E. destruct (id =? 0); [discriminate|].
  inv_bind R as [ts s2] name E0. inv_bind R as [bl s3] name E1.
  inv_bind R as [blroot s4] name E2. inv_bind R as [prevalh s5] name E3.
  inv_bind R as [ver s6] name E4. inv_bind R as [[md ne] s7] name E5.
  destruct (ns <? ne); [discriminate|]. assert (s' = s7) by congruence. subst s7.
  assert (G : exists p, s6 = p ++ s').
  { destruct (ver =? 0).
    - inv_bind E5 as [ne0 s8] name E6. assert (s' = s8) by congruence. subst. chain_app. eauto.
    - destruct (ver =? 1); [|discriminate].
      inv_bind E5 as [mdLen s8] name E6.
      destruct (st_maxTxMetadataLen <? mdLen); [discriminate|].
      inv_bind E5 as [md0 s9] name E7. inv_bind E5 as [ne0 s10] name E8.
      assert (s' = s10) by congruence. subst.
      assert (G : exists p, s8 = p ++ s9).
      { destruct (0 <? mdLen).
        - inv_bind E7 as u name E9. inv_bind E7 as [b s11] name E10. inv_bind E7 as m name E11.
          assert (s9 = s11) by congruence. subst. chain_app. eauto.
        - assert (s9 = s8) by congruence. subst. exists []. reflexivity. }
      destruct G as [p1 ->]. chain_app. subst. eexists. rewrite !app_assoc. reflexivity. }
  destruct G as [p6 ->]. chain_app. subst. eexists. rewrite !app_assoc. reflexivity.
Qed.

Section HashApp.
Variable H : bytes -> bytes.

Lemma read_entry_app chk v mk s r s' : read_entry H chk v mk s = Ok (r, s') -> exists p, s = p ++ s'.
Proof.
  unfold read_entry. intros R.
  inv_bind R as [mdLen s1] name E. inv_bind R as [md s2] name E0.
  assert (G : exists p, s1 = p ++ s2).
  { destruct (0 <? mdLen).
    - inv_bind E0 as [b s3] name E1. inv_bind E0 as m name E2.
      assert (s2 = s3) by congruence. subst. chain_app. eauto.
    - assert (s2 = s1) by congruence. subst. exists []. reflexivity. }
  destruct G as [p1 ->].
  inv_bind R as [kLen s3] name E1. destruct (mk <? kLen); [discriminate|].
  inv_bind R as u name E2. inv_bind R as [k s4] name E3.
  inv_bind R as [vLen s5] name E4. inv_bind R as [vOff s6] name E5.
  inv_bind R as [hval s7] name E6.
  assert (s' = s7).
  { destruct chk; [inv_bind R as d name E7|]; congruence. }
  subst. chain_app. subst. eexists. rewrite !app_assoc. reflexivity.
Qed.

Lemma read_entries_app chk v mk ns : forall n i s r s',
  read_entries H chk v mk ns n i s = Ok (r, s') -> exists p, s = p ++ s'.
Proof.
  induction n as [|n IH]; intros i s r s' R; cbn [read_entries] in R.
  - assert (s' = s) by congruence. subst. exists []. reflexivity.
  - destruct (ns <=? i); [discriminate|].
    inv_bind R as [[e d] s1] name E. inv_bind R as [[es0 ds0] s2] name E0.
    assert (s' = s2) by congruence. subst.
    apply read_entry_app in E as [p1 ->]. apply IH in E0 as [p2 ->].
    eexists. rewrite app_assoc. reflexivity.
Qed.

Lemma read_tx_app chk ns mk s t a rest :
  read_tx H chk ns mk s = Ok (t, a, rest) -> exists p, s = p ++ a ++ rest.
Proof.
  unfold read_tx. intros R.
  inv_bind R as [h s1] name E. inv_bind R as [[es ds] s2] name E0.
  inv_bind R as [alh s3] name E1.
  assert (G : a = alh /\ rest = s3).
  { destruct (negb chk); [split; congruence|].
    destruct (ns <? _); [discriminate|]. inv_bind R as a0 name E2.
    destruct (list_eq_dec N.eq_dec a0 alh); [split; congruence | discriminate]. }
  destruct G as [-> ->].
  apply read_header_app in E as [p1 ->]. apply read_entries_app in E0 as [p2 ->].
  apply rd_app in E1. subst. eexists. rewrite !app_assoc. reflexivity.
Qed.

End HashApp.

Section HashRec.
Variable H : bytes -> bytes.
Hypothesis H_len : forall x, length (H x) = 32%nat.

Lemma skipn_app_exact {A} (p a : list A) : skipn (length (p ++ a) - length a) (p ++ a) = a.
Proof.
  rewrite app_length. replace (length p + length a - length a)%nat with (length p) by lia.
  rewrite skipn_app, Nat.sub_diag, skipn_all. reflexivity.
Qed.

(* the record of a committed transaction t, any bytes rec' of the same length whose LAST 32 BYTES
   (the stored Alh) are those of the record, followed by anything: if the integrity-checked read
   consumes exactly rec' and succeeds, everything that is hashed is the committed content *)
Theorem corrupt_tx_detected_partial_record t rec :
  tx_wf H t -> write_tx H t = Ok rec ->
  forall rec' rest ns mk t' a,
    length rec' = length rec ->
    skipn (length rec - 32) rec' = skipn (length rec - 32) rec ->
    bytes_ok (rec' ++ rest) = true ->
    read_tx H true ns mk (rec' ++ rest) = Ok (t', a, rest) ->
    same_hashed t t' \/ Collision H.
Proof.
  intros W Wr rec' rest ns mk t' a L Tr Hs R.
  unfold write_tx in Wr.
  destruct (write_hdr (t_hdr t)) as [hb| |]; cbn [bind] in Wr; try discriminate.
  destruct (tx_alh H (t_hdr t)) as [at_| |] eqn:A; cbn [bind] in Wr; try discriminate.
  assert (La : length at_ = 32%nat).
  { unfold tx_alh in A. destruct (inner_bytes (t_hdr t)) as [ib| |]; cbn [bind] in A; try discriminate.
    assert (at_ = H (alh_bytes (t_hdr t) (H ib))) by congruence. subst. apply H_len. }
  assert (Er : rec = (hb ++ concat (map write_entry (t_entries t))) ++ at_).
  { rewrite <- app_assoc. congruence. }
  destruct (read_tx_app _ _ _ _ _ _ _ _ R) as [p Ep].
  rewrite app_assoc in Ep. apply app_inv_tail in Ep.
  destruct (read_tx_inv H H_len ns mk _ _ _ _ R Hs) as (W' & A').
  assert (La' : length a = 32%nat).
  { unfold tx_alh in A'. destruct (inner_bytes (t_hdr t')) as [ib| |]; cbn [bind] in A'; try discriminate.
    assert (a = H (alh_bytes (t_hdr t') (H ib))) by congruence. subst. apply H_len. }
  assert (a = at_).
  { rewrite Ep, Er in Tr.
    assert (X1 := skipn_app_exact p a). assert (X2 := skipn_app_exact (hb ++ concat (map write_entry (t_entries t))) at_).
    rewrite La' in X1. rewrite La in X2.
    rewrite <- Er in X2. rewrite <- Ep in X1. rewrite L in X1.
    rewrite <- Er, <- Ep in Tr. congruence. }
  subst at_.
  exact (alh_binding H H_len t t' a W W' A A').
Qed.

End HashRec.
