(* What the two repairs give (commits 93c30ce and 6fe0104):
   (1) a transaction read returns a transaction that carries the id that was asked for;
   (2) ExportTx flags "values truncated" only for a value reference without a value log. *)
From V Require Import Corrupt.TxRecord.
From Coq Require Import ZifyN ZifyNat ZifyBool.

Section Hash.
Variable H : bytes -> bytes.

(* whatever bytes are stored where the commit log places transaction id, a successful read (with or
   without integrity check) returns a transaction that carries that id: the record of another
   transaction copied there is refused *)
Theorem read_tx_at_id chk ns mk txlog off size id t :
  read_tx_at H chk ns mk txlog off size id = Ok t -> h_id (t_hdr t) = id.
Proof.
  unfold read_tx_at.
  destruct (read_tx H chk ns mk (drop off txlog)) as [[[t0 a] r]| |]; cbn [bind]; try discriminate.
  destruct (N.eqb_spec (h_id (t_hdr t0)) id); [|discriminate]. intros E. congruence.
Qed.

Lemma read_at_not_eof log off n : read_at log off n <> Err EEOF.
Proof. unfold read_at. destruct (_ <=? _); discriminate. Qed.

Lemma value_check_not_eof chk vlen hval b n : value_check H chk vlen hval b n <> Err EEOF.
Proof. unfold value_check. destruct (_ && _); discriminate. Qed.

(* a value reference without a value log: vLogID 0 outside embedded mode, the form in which a
   transaction replicated without its values was stored *)
Definition no_vlog (mode : vmode) (off : N) : Prop :=
  (match mode with VEmbedded => False | _ => True end) /\ vlog_id off = 0.

Lemma read_value_at_eof chk mode txlog vlogs c vlen off hval :
  (length vlogs <= 127)%nat ->
  fst (read_value_at H chk mode txlog vlogs c vlen off hval) = Err EEOF -> no_vlog mode off.
Proof.
  intros Lv. unfold read_value_at.
  destruct ((match mode with VEmbedded => false | _ => true end) && (vlog_id off =? 0) && (0 <? vlen)) eqn:G.
  - intros _. apply andb_prop in G as [G _]. apply andb_prop in G as [G1 G2].
    apply N.eqb_eq in G2. split; [destruct mode; auto; discriminate | exact G2].
  - destruct (0 <? vlen); [|cbn [fst]; intros E; exfalso; exact (value_check_not_eof _ _ _ _ _ E)].
    destruct (cache_lookup c off); [cbn [fst]; intros E; exfalso; exact (value_check_not_eof _ _ _ _ _ E)|].
    destruct (raw_read mode txlog vlogs vlen off) as [b|e|] eqn:R; cbn [fst];
      [intros E; exfalso; exact (value_check_not_eof _ _ _ _ _ E) | | discriminate].
    intros E. exfalso. assert (e = EEOF) by congruence. subst e.
    unfold raw_read in R.
    destruct (fetch_vlog mode txlog vlogs (vlog_id off)) as [log|e|] eqn:F; cbn [bind] in R; [| |discriminate R].
    + destruct (off_negative off) eqn:Ng; [|exact (read_at_not_eof _ _ _ R)].
      (* a negative offset has vLogID >= 128: no store has such a value log (MaxParallelIO = 127) *)
      unfold off_negative in Ng. apply N.leb_le in Ng.
      assert (Hid : 128 <= vlog_id off).
      { unfold vlog_id.
        let a := eval vm_compute in (2 ^ 63) in change (2 ^ 63) with a in Ng.
        let a := eval vm_compute in (2 ^ 64) in change (2 ^ 64) with a in Ng.
        let a := eval vm_compute in (2 ^ 56) in change (2 ^ 56) with a.
        lia. }
      assert (Hb : vlog_id off < 256) by (unfold vlog_id; apply N.mod_lt; lia).
      unfold fetch_vlog in F. destruct mode.
      * destruct (N.ltb_spec 0 (vlog_id off)); [discriminate | lia].
      * destruct (N.eqb_spec (vlog_id off) 1); [lia | discriminate].
      * destruct (nth_error vlogs (N.to_nat ((vlog_id off + 255) mod 256))) eqn:Nt; [|discriminate].
        assert (Hn : nth_error vlogs (N.to_nat ((vlog_id off + 255) mod 256)) <> None) by congruence.
        apply nth_error_Some in Hn.
        assert ((vlog_id off + 255) mod 256 = vlog_id off - 1).
        { replace (vlog_id off + 255) with ((vlog_id off - 1) + 1 * 256) by lia.
          rewrite N.mod_add by lia. apply N.mod_small. lia. }
        lia.
    + inversion R; subst. unfold fetch_vlog in F. destruct mode.
      * destruct (0 <? vlog_id off); discriminate.
      * destruct (vlog_id off =? 1); [destruct vlogs|]; discriminate.
      * destruct (nth_error vlogs _); discriminate.
Qed.

(* ExportTx: an export flagged "values truncated" contains an entry whose value reference names no
   value log; every other unreadable value (altered vOff / vLen, altered value bytes) is an error *)
Theorem export_truncated_only_without_vlog chk mvl mode txlog vlogs :
  (length vlogs <= 127)%nat ->
  forall es c i trunc t l,
    fst (export_values H chk mvl mode txlog vlogs c es i trunc) = Ok (t, l) ->
    t = true -> trunc = true \/ exists e, In e es /\ no_vlog mode (e_voff e).
Proof.
  intros Lv. induction es as [|e es IH]; intros c i trunc t l E T.
  - cbn in E. left. congruence.
  - cbn [export_values] in E. destruct (mvl <? e_vlen e); [discriminate|].
    destruct (read_value_at H chk mode txlog vlogs c (e_vlen e) (e_voff e) (e_hval e)) as [rv c1] eqn:R.
    destruct rv as [v|code|]; [| |discriminate].
    + destruct trunc; [discriminate|].
      destruct (export_values H chk mvl mode txlog vlogs c1 es (i + 1) false) as [rr c2] eqn:X.
      cbn [fst] in E. destruct rr as [[t0 l0]| |]; [|discriminate E|discriminate E].
      assert (t0 = t) by congruence. subst t0.
      destruct (IH c1 (i + 1) false t l0) as [F|[e' [I N0]]]; [rewrite X; reflexivity | exact T | discriminate |].
      right. exists e'. split; [right; exact I | exact N0].
    + destruct (N.eqb_spec code EEOF) as [->|]; [|discriminate].
      right. exists e. split; [left; reflexivity|].
      apply (read_value_at_eof chk mode txlog vlogs c (e_vlen e) (e_voff e) (e_hval e) Lv).
      rewrite R. reflexivity.
Qed.

End Hash.
