(* The entry hash tree of a transaction binds its leaves: two digest lists of the same length with
   the same root are equal, or the proof exhibits a collision of the hash function. *)
From V Require Import Corrupt.TxRecord.
From Coq Require Import ZifyN ZifyNat ZifyBool.

Section Hash.
Variable H : bytes -> bytes.
Hypothesis H_len : forall x, length (H x) = 32%nat.

Definition Collision : Prop := exists x y : bytes, x <> y /\ H x = H y.

Lemma bytes_eq_dec (a b : bytes) : {a = b} + {a <> b}.
Proof. apply list_eq_dec, N.eq_dec. Qed.

Lemma H_inj x y : H x = H y -> x = y \/ Collision.
Proof.
  intros E. destruct (bytes_eq_dec x y) as [->|NE]; [left; reflexivity|].
  right. exists x, y. split; assumption.
Qed.

Lemma app_inj_len {A} (a a' b b' : list A) :
  length a = length a' -> a ++ b = a' ++ b' -> a = a' /\ b = b'.
Proof.
  revert a'; induction a as [|x a IH]; intros [|x' a'] L E; simpl in *; try discriminate.
  - split; auto.
  - injection E as -> E. destruct (IH a') as [-> ->]; auto.
Qed.

Lemma app_inj_len_r {A} (a a' b b' : list A) :
  length b = length b' -> a ++ b = a' ++ b' -> a = a' /\ b = b'.
Proof.
  intros L E. assert (La : length a = length a').
  { apply (f_equal (@length A)) in E. rewrite !app_length in E. lia. }
  apply app_inj_len; assumption.
Qed.

Definition all32 (l : list bytes) : Prop := Forall (fun x => length x = 32%nat) l.

Lemma leafh_len d : length (leafh H d) = 32%nat. Proof. apply H_len. Qed.
Lemma nodeh_len a b : length (nodeh H a b) = 32%nat. Proof. apply H_len. Qed.

Lemma nodeh_inj a b a' b' :
  length a = 32%nat -> length a' = 32%nat ->
  nodeh H a b = nodeh H a' b' -> (a = a' /\ b = b') \/ Collision.
Proof.
  intros La La' E. unfold nodeh in E. apply H_inj in E as [E|C]; [|right; exact C].
  left. injection E as E. apply app_inj_len in E; [exact E | congruence].
Qed.

Lemma leafh_inj d d' : leafh H d = leafh H d' -> d = d' \/ Collision.
Proof.
  unfold leafh. intros E. apply H_inj in E as [E|C]; [left; congruence | right; exact C].
Qed.

Lemma pair_ind {A} (P : list A -> Prop) :
  P [] -> (forall x, P [x]) -> (forall a b r, P r -> P (a :: b :: r)) -> forall l, P l.
Proof.
  intros P0 P1 P2.
  assert (G : forall l, P l /\ forall x, P (x :: l)).
  { induction l as [|y l [IH1 IH2]]; split; auto. }
  intros l; apply G.
Qed.

Lemma pairup_length l : (length (pairup H l) <= length l)%nat /\
  ((2 <= length l)%nat -> (length (pairup H l) < length l)%nat) /\
  (l <> [] -> pairup H l <> []).
Proof.
  induction l as [| x | a b r IH] using pair_ind; simpl.
  - repeat split; auto; lia.
  - repeat split; auto; try lia; try discriminate.
  - destruct IH as (I1 & I2 & I3). repeat split; try lia; try discriminate.
Qed.

Lemma pairup_all32 l : all32 l -> all32 (pairup H l).
Proof.
  induction l as [| x | a b r IH] using pair_ind; simpl; intros A; auto.
  inversion A as [|? ? Ha A1]; subst. inversion A1 as [|? ? Hb A2]; subst.
  constructor; [apply nodeh_len | apply IH; exact A2].
Qed.

Lemma pairup_same_length l : forall l', length l = length l' ->
  length (pairup H l) = length (pairup H l').
Proof.
  induction l as [| x | a b r IH] using pair_ind; intros l' L.
  - destruct l'; [reflexivity | discriminate].
  - destruct l' as [|x' [|? ?]]; try discriminate. reflexivity.
  - destruct l' as [|a' [|b' r']]; try discriminate. simpl in *. f_equal. apply IH. lia.
Qed.

Lemma pairup_inj l : forall l', length l = length l' -> all32 l -> all32 l' ->
  pairup H l = pairup H l' -> l = l' \/ Collision.
Proof.
  induction l as [| x | a b r IH] using pair_ind; intros l' L A A' E.
  - destruct l'; [left; reflexivity | discriminate].
  - destruct l' as [|x' [|? ?]]; try discriminate. simpl in E. left; exact E.
  - destruct l' as [|a' [|b' r']]; try discriminate. simpl in E, L.
    injection E as E1 E2.
    inversion A as [|? ? Ha A1]; subst. inversion A1 as [|? ? Hb A2]; subst.
    inversion A' as [|? ? Ha' A1']; subst. inversion A1' as [|? ? Hb' A2']; subst.
    apply nodeh_inj in E1 as [[-> ->]|C]; auto.
    destruct (IH r') as [->|C]; auto. lia.
Qed.

Lemma reduce_inj fuel : forall l l',
  length l = length l' -> (length l <= S fuel)%nat -> l <> [] -> all32 l -> all32 l' ->
  reduce H fuel l = reduce H fuel l' -> l = l' \/ Collision.
Proof.
  induction fuel as [|f IH]; intros l l' L B NE A A' E.
  - destruct l as [|x [|? ?]]; simpl in B; try lia; [congruence|].
    destruct l' as [|x' [|? ?]]; try discriminate. simpl in E. left; congruence.
  - destruct l as [|x [|y r]]; [congruence| |].
    + destruct l' as [|x' [|? ?]]; try discriminate. simpl in E. left; congruence.
    + destruct l' as [|x' [|y' r']]; try discriminate.
      change (reduce H (S f) (x :: y :: r)) with (reduce H f (pairup H (x :: y :: r))) in E.
      change (reduce H (S f) (x' :: y' :: r')) with (reduce H f (pairup H (x' :: y' :: r'))) in E.
      assert (P := pairup_length (x :: y :: r)). destruct P as (P1 & P2 & P3).
      apply IH in E.
      * destruct E as [E|C]; [|right; exact C]. apply pairup_inj in E; auto.
      * apply pairup_same_length; exact L.
      * specialize (P2 ltac:(simpl; lia)). lia.
      * apply P3. discriminate.
      * apply pairup_all32; exact A.
      * apply pairup_all32; exact A'.
Qed.

Lemma map_leafh_inj ds : forall ds', map (leafh H) ds = map (leafh H) ds' -> ds = ds' \/ Collision.
Proof.
  induction ds as [|d ds IH]; intros [|d' ds'] E; simpl in E; try discriminate.
  - left; reflexivity.
  - injection E as E1 E2. apply leafh_inj in E1 as [->|C]; [|right; exact C].
    destruct (IH ds' E2) as [->|C]; [left; reflexivity | right; exact C].
Qed.

Lemma all32_map_leafh ds : all32 (map (leafh H) ds).
Proof. induction ds; simpl; constructor; auto. apply leafh_len. Qed.

Lemma htree_root_len ds : length (htree_root H ds) = 32%nat.
Proof.
  unfold htree_root. destruct ds as [|d ds]; [apply H_len|].
  assert (G : forall fuel l, l <> [] -> all32 l -> length (reduce H fuel l) = 32%nat).
  { induction fuel as [|f IH]; intros l NE A.
    - destruct l; [congruence|]. simpl. inversion A; auto.
    - destruct l as [|x [|y r]]; [congruence| |].
      + simpl. inversion A; auto.
      + change (reduce H (S f) (x :: y :: r)) with (reduce H f (pairup H (x :: y :: r))).
        apply IH; [apply pairup_length; discriminate | apply pairup_all32; exact A]. }
  apply G; [discriminate | apply all32_map_leafh].
Qed.

(* same number of leaves and same root: same leaves, or a collision *)
Theorem htree_root_inj ds ds' :
  length ds = length ds' -> htree_root H ds = htree_root H ds' -> ds = ds' \/ Collision.
Proof.
  intros L E. destruct ds as [|d ds]; destruct ds' as [|d' ds']; try discriminate.
  - left; reflexivity.
  - unfold htree_root in E. rewrite <- L in E.
    apply reduce_inj in E.
    + destruct E as [E|C]; [|right; exact C]. apply map_leafh_inj in E. exact E.
    + rewrite !map_length. exact L.
    + rewrite map_length. lia.
    + discriminate.
    + apply all32_map_leafh.
    + apply all32_map_leafh.
Qed.

End Hash.
