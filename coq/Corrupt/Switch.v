(* Prepared model switches for the two repairs proposed in fixes/ and NOT yet committed in /repo.
   This file is not imported by Properties/C09.v or Tie/C09.v (the checked model follows the code
   that exists); it is compiled on its own:  coqc -Q . V Corrupt/Switch.v

   (1) fixes/C09-read-tx-id-check.diff: ReadTx / ReadTxHeader / ReadTxEntry / readTxOffsetAt (and,
       through readTx, ExportTx, TxReader and the indexer) compare the id decoded from the record
       with the id that was asked for. Model: read_tx_for below replaces read_tx_at (the case type
       CTx of Tie/C09.v gets the requested id as an extra argument, the harness passes t.id).
   (2) fixes/C09-export-eof-beyond-end.diff: flip  fix_export_eof  in TxRecord.v. *)
From V Require Import Corrupt.TxRecord.
From Coq Require Import ZifyN ZifyNat ZifyBool.

Section Hash.
Variable H : bytes -> bytes.

(* ---- (1) the id check ---- *)
Definition read_tx_for (chk : bool) (nslots maxKeyLen : N) (txlog : bytes) (off size id : N) : res tx :=
  do t <- read_tx_at H chk nslots maxKeyLen txlog off size;
  if h_id (t_hdr t) =? id then Ok t else Err ECorruptedTxData.

(* what the repair gives: whatever bytes are stored where the commit log places transaction id,
   a successful read (with or without integrity check) returns a transaction that carries that id;
   in particular the record of another transaction copied there is refused *)
Theorem read_tx_for_id chk ns mk txlog off size id t :
  read_tx_for chk ns mk txlog off size id = Ok t -> h_id (t_hdr t) = id.
Proof.
  unfold read_tx_for. destruct (read_tx_at H chk ns mk txlog off size) as [t0| |]; cbn [bind]; try discriminate.
  destruct (N.eqb_spec (h_id (t_hdr t0)) id); [|discriminate]. intros E. congruence.
Qed.

Theorem read_tx_for_no_panic chk ns mk txlog off size id :
  read_tx_at H chk ns mk txlog off size <> Panic -> read_tx_for chk ns mk txlog off size id <> Panic.
Proof.
  unfold read_tx_for. destruct (read_tx_at H chk ns mk txlog off size) as [t0| |]; cbn [bind]; try congruence.
  intros _. destruct (h_id (t_hdr t0) =? id); discriminate.
Qed.

(* ---- (2) after the switch, ExportTx flags "truncated" only for a value reference without a
   value log (vLogID 0 outside embedded mode: the form in which a transaction replicated without
   its values is stored); every other unreadable value is an error ---- *)
Hypothesis switched : fix_export_eof = true.

Lemma read_at_not_eof log off n : read_at log off n <> Err EEOF.
Proof.
  unfold read_at. rewrite switched. destruct (_ <=? _); discriminate.
Qed.

Lemma value_check_not_eof chk vlen hval b n : value_check H chk vlen hval b n <> Err EEOF.
Proof. unfold value_check. destruct (_ && _); discriminate. Qed.

Definition no_vlog (mode : vmode) (off : N) : Prop :=
  (match mode with VEmbedded => False | _ => True end) /\ vlog_id off = 0.

Lemma read_value_at_eof chk mode txlog vlogs c vlen off hval :
  (length vlogs <= 127)%nat ->
  fst (read_value_at H chk mode txlog vlogs c vlen off hval) = Err EEOF -> no_vlog mode off.
Proof.
  intros Lv. unfold read_value_at.
  destruct ((match mode with VEmbedded => false | _ => true end) && (vlog_id off =? 0) && (0 <? vlen)) eqn:G.
  - intros _. apply andb_prop in G as [G _]. apply andb_prop in G as [G1 G2].
    apply N.eqb_eq in G2. split; [destruct mode; auto; discriminate | exact G2].
  - destruct (0 <? vlen); [|cbn [fst]; intros E; exfalso; exact (value_check_not_eof _ _ _ _ _ E)].
    destruct (cache_lookup c off); [cbn [fst]; intros E; exfalso; exact (value_check_not_eof _ _ _ _ _ E)|].
    destruct (raw_read mode txlog vlogs vlen off) as [b|e|] eqn:R; cbn [fst];
      [intros E; exfalso; exact (value_check_not_eof _ _ _ _ _ E) | | discriminate].
    intros E. exfalso. assert (e = EEOF) by congruence. subst e.
    unfold raw_read in R.
    destruct (fetch_vlog mode txlog vlogs (vlog_id off)) as [log|e|] eqn:F; cbn [bind] in R; [| |discriminate R].
    + destruct (off_negative off) eqn:Ng; [|exact (read_at_not_eof _ _ _ R)].
      (* a negative offset has vLogID >= 128: no store has such a value log *)
      unfold off_negative in Ng. apply N.leb_le in Ng.
      assert (Hid : 128 <= vlog_id off).
      { unfold vlog_id.
        assert (X : (off / 2 ^ 56) mod 256 = (off mod 2 ^ 64) / 2 ^ 56).
        { change (2 ^ 64) with (2 ^ 56 * 256). rewrite N.mod_mul_r by lia.
          rewrite N.mul_comm, N.div_add by lia. rewrite N.div_small by (apply N.mod_lt; lia). lia. }
        rewrite X. apply N.div_le_lower_bound; [lia|]. change (2 ^ 56 * 128) with (2 ^ 63). exact Ng. }
      assert (Hb : vlog_id off < 256) by (unfold vlog_id; apply N.mod_lt; lia).
      unfold fetch_vlog in F. destruct mode.
      * destruct (N.ltb_spec 0 (vlog_id off)); [discriminate | lia].
      * destruct (N.eqb_spec (vlog_id off) 1); [lia | discriminate].
      * destruct (nth_error vlogs (N.to_nat ((vlog_id off + 255) mod 256))) eqn:Nt; [|discriminate].
        assert (Hn : nth_error vlogs (N.to_nat ((vlog_id off + 255) mod 256)) <> None) by congruence.
        apply nth_error_Some in Hn.
        assert ((vlog_id off + 255) mod 256 = vlog_id off - 1).
        { replace (vlog_id off + 255) with ((vlog_id off - 1) + 1 * 256) by lia.
          rewrite N.mod_add by lia. apply N.mod_small. lia. }
        lia.
    + inversion R; subst. unfold fetch_vlog in F. destruct mode.
      * destruct (0 <? vlog_id off); discriminate.
      * destruct (vlog_id off =? 1); [destruct vlogs|]; discriminate.
      * destruct (nth_error vlogs _); discriminate.
Qed.

Theorem export_truncated_only_without_vlog chk mvl mode txlog vlogs :
  (length vlogs <= 127)%nat ->
  forall es c i trunc t l,
    fst (export_values H chk mvl mode txlog vlogs c es i trunc) = Ok (t, l) ->
    t = true -> trunc = true \/ exists e, In e es /\ no_vlog mode (e_voff e).
Proof.
  intros Lv. induction es as [|e es IH]; intros c i trunc t l E T.
  - cbn in E. left. congruence.
  - cbn [export_values] in E. destruct (mvl <? e_vlen e); [discriminate|].
    destruct (read_value_at H chk mode txlog vlogs c (e_vlen e) (e_voff e) (e_hval e)) as [rv c1] eqn:R.
    destruct rv as [v|code|]; [| |discriminate].
    + destruct trunc; [discriminate|].
      destruct (export_values H chk mvl mode txlog vlogs c1 es (i + 1) false) as [rr c2] eqn:X.
      cbn [fst] in E. destruct rr as [[t0 l0]| |]; try discriminate.
      assert (t0 = t) by congruence. subst t0.
      destruct (IH c1 (i + 1) false t l0) as [F|[e' [I N0]]]; [rewrite X; reflexivity | exact T | discriminate |].
      right. exists e'. split; [right; exact I | exact N0].
    + destruct (N.eqb_spec code EEOF) as [->|]; [|discriminate].
      right. exists e. split; [left; reflexivity|].
      apply (read_value_at_eof chk mode txlog vlogs c (e_vlen e) (e_voff e) (e_hval e) Lv).
      rewrite R. reflexivity.
Qed.

End Hash.
