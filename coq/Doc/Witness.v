(* C19 — concrete histories on which the faithful model violates the property (each replayed on the
   real engine by the harness: witness-* histories), and examples showing that the premises of the
   partial theorems are satisfiable. *)
From V Require Import Doc.Model Doc.Facts Doc.RangeProofs Doc.SearchProofs Doc.HistProofs Doc.UniqueProofs.
Open Scope N_scope.

Definition fN : bytes := [110].   (* "n" *)
Definition fD : bytes := [100].   (* "d" *)
Definition fM : bytes := [109].   (* "m" *)
Definition idn : bytes := [95; 105; 100].   (* "_id" *)
Definition num_of_Z (z : Z) : num := mkn (z <? 0)%Z (Z.abs_N z) 0%Z.
Definition half : num := mkn false 1 (-1)%Z.          (* 0.5 *)
Definition pzero : num := mkn false 0 0%Z.
Definition nzero : num := mkn true 0 0%Z.             (* -0.0 *)
Definition jint (z : Z) : jv := JNum (num_of_Z z).
Definition obj1 (k : bytes) (v : jv) : jv := JObj [(k, v)].
Definition qeq (f : bytes) (v : jv) : query := mkq [[mkc f OpEQ v]] [] 0.
Definition by_id (id : bytes) : query := qeq idn (JStr (hex_encode id)).

(* ---- INTEGER fields: the column holds int64(number), the payload the number ---- *)
Definition fl_now : flags := mkfl true false true.   (* the code as it is *)
Definition sch_int : schema := new_schema fl_now idn [(fN, TInt)] [].
Definition ops_int : list op := [OInsert [([1], obj1 fN (JNum half))]].

Lemma search_refuted :
  exists sch ops q, let st := fst (run (init sch) ops) in
    engine_search st q 0 <> spec_search st q 0.
Proof.
  exists sch_int, ops_int, (qeq fN (jint 0)). intros st H. vm_compute in H. discriminate.
Qed.

(* the engine returns the document {n: 0.5} for n = 0; on the payload nothing satisfies n = 0 *)
Lemma search_refuted_detail :
  let st := fst (run (init sch_int) ops_int) in
  option_map (map l_id) (match engine_search st (qeq fN (jint 0)) 0 with Ok l => Some l | _ => None end) = Some [[1]] /\
  option_map (map l_id) (match spec_search st (qeq fN (jint 0)) 0 with Ok l => Some l | _ => None end) = Some [].
Proof. vm_compute. split; reflexivity. Qed.

(* ---- a field added after a document was stored: its column is NULL for that document ---- *)
Definition ops_late : list op :=
  [OInsert [([1], JObj [(fM, jint 5); (fN, jint 1)])]; OAddField fM TInt].

Lemma search_refuted_late_field :
  let st := fst (run (init sch_int) ops_late) in
  engine_search st (qeq fM (jint 5)) 0 <> spec_search st (qeq fM (jint 5)) 0.
Proof. intros st H. vm_compute in H. discriminate. Qed.

(* ---- DOUBLE keys: -0.0 and +0.0 are one value with two keys ---- *)
Definition sch_dbl : schema := new_schema fl_now idn [(fD, TDbl)] [].
Definition ops_dbl : list op :=
  [OInsert [([1], obj1 fD (JNum nzero))]; OInsert [([2], obj1 fD (JNum pzero))]].

Lemma index_independent_refuted :
  exists st ixs1 ixs2 q,
    engine_search (with_indexes st ixs1) q 0 <> engine_search (with_indexes st ixs2) q 0.
Proof.
  exists (fst (run (init sch_dbl) ops_dbl)), [], [mkix [fD] false], (qeq fD (JNum pzero)).
  intros H. vm_compute in H. discriminate.
Qed.

(* ---- unique index: the first key under the value is a tombstone ---- *)
Definition sch_uniq : schema := new_schema fl_now idn [(fN, TInt)] [mkix [fN] true].
Definition ops_uniq : list op :=
  [OInsert [([1], obj1 fN (jint 20))]; ODelete (by_id [1]);
   OInsert [([2], obj1 fN (jint 20))]; OInsert [([3], obj1 fN (jint 20))]].

Lemma unique_refuted : exists sch ops, uniq_okb (fst (run (init sch) ops)) = false.
Proof. exists sch_uniq, ops_uniq. vm_compute. reflexivity. Qed.

(* the same through a replace: A 10 -> 11, B 50 -> 10, C 60 -> 10 *)
Definition ops_uniq_replace : list op :=
  [OInsert [([1], obj1 fN (jint 10))]; OInsert [([2], obj1 fN (jint 50))]; OInsert [([3], obj1 fN (jint 60))];
   OReplace (by_id [1]) (obj1 fN (jint 11));
   OReplace (by_id [2]) (obj1 fN (jint 10));
   OReplace (by_id [3]) (obj1 fN (jint 10))].
Lemma unique_refuted_by_replace : uniq_okb (fst (run (init sch_uniq) ops_uniq_replace)) = false.
Proof. vm_compute. reflexivity. Qed.

(* ---------- the premises of the partial theorems are satisfiable ---------- *)
Definition ops_ok : list op :=
  [OInsert [([1], obj1 fN (jint 3))]; OInsert [([2], obj1 fN (jint 7))]].
Definition st_ok : state := fst (run (init sch_int) ops_ok).
Definition q_ok : query := mkq [[mkc fN OpGE (jint 3); mkc fN OpLT (jint 7)]] [(fN, true)] 1.

Example search_partial_premises_hold :
  rows_agree st_ok /\ ints_exact_rows st_ok /\ ints_exact_query (st_sch st_ok) q_ok /\ nz_safe st_ok q_ok /\
  option_map (map l_id) (match engine_search st_ok q_ok 0 with Ok l => Some l | _ => None end) = Some [[1]].
Proof.
  split; [|split; [|split; [|split; [split|]]]].
  - intros r f Hr Hf. vm_compute in Hr, Hf.
    destruct Hf as [<-|[]]. destruct Hr as [<-|[<-|[]]]; reflexivity.
  - intros r f n Hr Hf T D. vm_compute in Hr, Hf.
    destruct Hf as [<-|[]]. destruct Hr as [<-|[<-|[]]]; vm_compute in D; inversion D; subst; vm_compute; auto.
  - intros g c f n Hg Hc E F T V. vm_compute in Hg. destruct Hg as [<-|[]].
    destruct Hc as [<-|[<-|[]]]; simpl in V; inversion V; subst; vm_compute; auto.
  - intros r name Hr. vm_compute in Hr. right.
    destruct Hr as [<-|[<-|[]]]; unfold col_val0, col_val; simpl;
      (destruct (bytes_eqb name idn); simpl; [exact I|]);
      (destruct (find_field sch_int name); simpl; [|exact I]);
      match goal with |- nnz (if ?c then _ else _) => destruct c end; exact I.
  - intros gs Hgs g Hg c Hc. vm_compute in Hgs. inversion Hgs; subst; clear Hgs.
    destruct Hg as [<-|[]]. destruct Hc as [<-|[<-|[]]]; split; try (right; exact I); reflexivity.
  - vm_compute. reflexivity.
Qed.

Example unique_partial_premise_holds :
  forallb insert_or_read ops_ok = true /\ length (lives (st_docs st_ok)) = 2%nat.
Proof. vm_compute. auto. Qed.
