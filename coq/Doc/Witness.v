(* C19 — concrete histories on which the faithful model violates the property (each replayed on the
   real engine by the harness: witness-* histories), and examples showing that the premises of the
   partial theorems are satisfiable. *)
From V Require Import Doc.Model Doc.Facts Doc.RangeProofs Doc.SearchProofs Doc.HistProofs Doc.UniqueProofs.
Open Scope N_scope.

Definition fN : bytes := [110].   (* "n" *)
Definition fD : bytes := [100].   (* "d" *)
Definition fM : bytes := [109].   (* "m" *)
Definition idn : bytes := [95; 105; 100].   (* "_id" *)
Definition num_of_Z (z : Z) : num := mkn (z <? 0)%Z (Z.abs_N z) 0%Z.
Definition half : num := mkn false 1 (-1)%Z.          (* 0.5 *)
Definition pzero : num := mkn false 0 0%Z.
Definition nzero : num := mkn true 0 0%Z.             (* -0.0 *)
Definition jint (z : Z) : jv := JNum (num_of_Z z).
Definition obj1 (k : bytes) (v : jv) : jv := JObj [(k, v)].
Definition qeq (f : bytes) (v : jv) : query := mkq [[mkc f OpEQ v]] [] 0.
Definition by_id (id : bytes) : query := qeq idn (JStr (hex_encode id)).

(* ---- INTEGER fields: a number without an exact int64 representation is rejected (the former
   witness {n: 0.5} of the int64 cast is no longer storable) ---- *)
Definition sch_int : schema := new_schema true idn [(fN, TInt)] [].
Definition ops_int : list op := [OInsert [([1], obj1 fN (JNum half))]].
Lemma non_integral_integer_rejected :
  snd (run (init sch_int) ops_int) = [XErr] /\ st_docs (fst (run (init sch_int) ops_int)) = [].
Proof. vm_compute. auto. Qed.

(* ---- a field added after a document was stored: its column is NULL for that document ---- *)
Definition ops_late : list op :=
  [OInsert [([1], JObj [(fM, jint 5); (fN, jint 1)])]; OAddField fM TInt].

Lemma search_refuted_late_field :
  let st := fst (run (init sch_int) ops_late) in
  engine_search st (qeq fM (jint 5)) 0 <> spec_search st (qeq fM (jint 5)) 0.
Proof. intros st H. vm_compute in H. discriminate. Qed.

(* ---- DOUBLE keys: -0.0 and +0.0 are one value with two keys ---- *)
Definition sch_dbl : schema := new_schema true idn [(fD, TDbl)] [].
Definition ops_dbl : list op :=
  [OInsert [([1], obj1 fD (JNum nzero))]; OInsert [([2], obj1 fD (JNum pzero))]].

Lemma index_independent_refuted :
  exists st ixs1 ixs2 q,
    engine_search (with_indexes st ixs1) q 0 <> engine_search (with_indexes st ixs2) q 0.
Proof.
  exists (fst (run (init sch_dbl) ops_dbl)), [], [mkix [fD] false], (qeq fD (JNum pzero)).
  intros H. vm_compute in H. discriminate.
Qed.

(* ---- unique index: the former witnesses of the first-key/tombstone defect are rejected now ---- *)
Definition sch_uniq : schema := new_schema true idn [(fN, TInt)] [mkix [fN] true].
Definition ops_uniq : list op :=
  [OInsert [([1], obj1 fN (jint 20))]; ODelete (by_id [1]);
   OInsert [([2], obj1 fN (jint 20))]; OInsert [([3], obj1 fN (jint 20))]].
Lemma tombstone_history_keeps_unique :
  snd (run (init sch_uniq) ops_uniq) = [XWritten [([1], 1)]; XWritten [([1], 2)]; XWritten [([2], 1)]; XErr].
Proof. vm_compute. reflexivity. Qed.

(* ---------- the premises of the partial theorems are satisfiable ---------- *)
Definition ops_ok : list op :=
  [OInsert [([1], obj1 fN (jint 3))]; OInsert [([2], obj1 fN (jint 7))]].
Definition st_ok : state := fst (run (init sch_int) ops_ok).
Definition q_ok : query := mkq [[mkc fN OpGE (jint 3); mkc fN OpLT (jint 7)]] [(fN, true)] 1.

Example search_partial_premises_hold :
  rows_agree st_ok /\ nz_safe st_ok q_ok /\
  option_map (map l_id) (match engine_search st_ok q_ok 0 with Ok l => Some l | _ => None end) = Some [[1]].
Proof.
  split; [|split; [split|]].
  - intros r f Hr Hf. vm_compute in Hr, Hf.
    destruct Hf as [<-|[]]. destruct Hr as [<-|[<-|[]]]; vm_compute; reflexivity.
  - intros r name Hr. vm_compute in Hr. right.
    destruct Hr as [<-|[<-|[]]]; unfold col_val0, col_val; simpl;
      (destruct (bytes_eqb name idn); simpl; [exact I|]);
      (destruct (find_field sch_int name); simpl; [|exact I]);
      match goal with |- nnz (if ?c then _ else _) => destruct c end; exact I.
  - intros gs Hgs g Hg c Hc. vm_compute in Hgs. inversion Hgs; subst; clear Hgs.
    destruct Hg as [<-|[]]. destruct Hc as [<-|[<-|[]]]; right; exact I.
  - vm_compute. reflexivity.
Qed.

Example unique_premise_holds :
  forallb keeps_fields (ops_ok ++ [OReplace (by_id [1]) (obj1 fN (jint 9)); ODelete (by_id [2])]) = true /\
  length (lives (st_docs st_ok)) = 2%nat.
Proof. vm_compute. auto. Qed.
