(* C19 — histories: the stored versions of every document are exactly the log of the writes the
   operations performed (insert / replace / delete), so that lookup returns the last payload written,
   revisions count the writes, and the audit trail is the whole list of revisions in order.
   The spec is the write log; which documents a replace / delete selects is the business of the
   search theorems (SearchProofs.v), so the log takes the selected ids from the operation's output. *)
From V Require Import Doc.Model Doc.Facts.
From Coq Require Import Lia.
Open Scope N_scope.

Definition payload_of (v : version) : option jv := match v with VPut p _ => Some p | VDel => None end.
Definition vers (ds : list drec) (id : bytes) : list version :=
  match find_doc ds id with Some d => d_vers d | None => [] end.

(* ---------- the write log (spec) ---------- *)
Definition wlog := list (bytes * option jv).

(* what an operation wrote, given its output (success, and for replace/delete the selected ids) *)
Definition writes (sch : schema) (o : op) (x : out) : wlog :=
  match o, x with
  | OInsert l, XWritten _ => map (fun p => (fst p, Some (with_id sch (snd p) (fst p)))) l
  | OReplace _ doc, XWritten w => map (fun p => (fst p, Some (with_id sch doc (fst p)))) w
  | ODelete _, XWritten w => map (fun p => (fst p, None)) w
  | _, _ => []
  end.

Definition log_vers (l : wlog) (id : bytes) : list (option jv) :=
  map snd (filter (fun w => bytes_eqb (fst w) id) l).

Definition nlen {A} (l : list A) : N := N.of_nat (length l).

Fixpoint number_opt (n : N) (vs : list (option jv)) : list (N * option jv) :=
  match vs with [] => [] | v :: r => (n, v) :: number_opt (n + 1) r end.

(* the outputs the write log prescribes *)
Definition spec_out (log : wlog) (o : op) (x : out) : out :=
  match o with
  | OGet id =>
      match last (log_vers log id) None with
      | Some p => XGet (nlen (log_vers log id)) p
      | None => XErr
      end
  | OAudit id desc off lim =>
      let all := number_opt 1 (log_vers log id) in
      if (nlen all <=? off) || (lim =? 0) then XErr
      else XAudit (firstn (N.to_nat lim) (skipn (N.to_nat off) (if desc then rev all else all)))
  | OInsert _ | OReplace _ _ | ODelete _ =>
      match x with
      | XWritten w => XWritten (map (fun p => (fst p, nlen (log_vers log (fst p)))) w)
      | _ => x
      end
  | _ => x
  end.

Fixpoint spec_outs (sch : schema) (log : wlog) (ops : list op) (outs : list out) : list out :=
  match ops, outs with
  | o :: ops', x :: outs' =>
      let log' := log ++ writes sch o x in
      spec_out log' o x :: spec_outs sch log' ops' outs'
  | _, _ => []
  end.

Fixpoint log_of (sch : schema) (ops : list op) (outs : list out) : wlog :=
  match ops, outs with
  | o :: ops', x :: outs' => writes sch o x ++ log_of sch ops' outs'
  | _, _ => []
  end.

(* ---------- lemmas on the stored versions ---------- *)
Lemma vers_put ds id v id' :
  vers (put_version ds id v) id' = if bytes_eqb id id' then vers ds id ++ [v] else vers ds id'.
Proof.
  unfold vers. induction ds as [|d ds IH]; simpl.
  - destruct (bytes_eqb id id'); reflexivity.
  - destruct (bytes_eqb (d_id d) id) eqn:E1; simpl.
    + apply bytes_eqb_eq in E1. rewrite E1. destruct (bytes_eqb id id') eqn:E2; reflexivity.
    + destruct (bytes_eqb (d_id d) id') eqn:E2.
      * destruct (bytes_eqb id id') eqn:E3; auto.
        apply bytes_eqb_eq in E3. subst. congruence.
      * exact IH.
Qed.

Lemma log_vers_app a b id : log_vers (a ++ b) id = log_vers a id ++ log_vers b id.
Proof. unfold log_vers. rewrite filter_app, map_app. reflexivity. Qed.

Lemma log_vers_cons i p b id :
  log_vers ((i, p) :: b) id = (if bytes_eqb i id then [p] else []) ++ log_vers b id.
Proof. unfold log_vers; simpl. destruct (bytes_eqb i id); reflexivity. Qed.

Lemma last_map {A B} (f : A -> B) l d : last (map f l) (f d) = f (last l d).
Proof. induction l as [|x l IH]; simpl; auto. destruct l; simpl in *; auto. Qed.

Lemma number_from_opt n vs : map (fun p => (fst p, snd p)) (number_from n vs) = number_opt n (map payload_of vs).
Proof. revert n; induction vs as [|v vs IH]; intros n; simpl; auto. rewrite IH. destruct v; reflexivity. Qed.
Lemma number_from_opt' n vs : number_from n vs = number_opt n (map payload_of vs).
Proof. revert n; induction vs as [|v vs IH]; intros n; simpl; auto. rewrite IH. destruct v; reflexivity. Qed.

(* ---------- invariant: versions = log ---------- *)
Definition inv (sch : schema) (st : state) (log : wlog) : Prop :=
  s_id (st_sch st) = s_id sch /\
  forall id, map payload_of (vers (st_docs st) id) = log_vers log id.

Lemma with_id_sid sch sch' doc id : s_id sch = s_id sch' -> with_id sch doc id = with_id sch' doc id.
Proof. unfold with_id. intros ->. reflexivity. Qed.

Lemma upsert1_effect st ins id p pd st' pd' :
  upsert1 st ins id p pd = Ok (st', pd') ->
  st_sch st' = st_sch st /\ exists r, st_docs st' = put_version (st_docs st) id (VPut p r).
Proof.
  unfold upsert1. destruct (gen_row (s_fields (st_sch st)) p) as [r| |]; simpl; try discriminate.
  destruct (ins && _); try discriminate.
  destruct (uniq_checks st ins id r pd); try discriminate.
  intros H; inversion H; subst; simpl. split; auto. eauto.
Qed.

Lemma insert_all_effect l : forall st pd st',
  insert_all st l pd = Ok st' ->
  st_sch st' = st_sch st /\
  forall id, map payload_of (vers (st_docs st') id) =
             map payload_of (vers (st_docs st) id) ++
             log_vers (map (fun p => (fst p, Some (with_id (st_sch st) (snd p) (fst p)))) l) id.
Proof.
  induction l as [|[i d] l IH]; simpl; intros st pd st' H.
  - inversion H; subst. split; auto. intros id. unfold log_vers; simpl. rewrite app_nil_r. reflexivity.
  - destruct (has_key d doc_blob); try discriminate.
    destruct (has_key d (s_id (st_sch st))); try discriminate.
    destruct (upsert1 st true i (with_id (st_sch st) d i) pd) as [[st1 pd1]| |] eqn:U; simpl in H; try discriminate.
    apply upsert1_effect in U as [S1 [r D1]].
    apply IH in H as [S2 V2]. split; [congruence|].
    intros id. rewrite V2, D1, vers_put, S1, log_vers_cons.
    destruct (bytes_eqb i id) eqn:E; simpl.
    + apply bytes_eqb_eq in E. subst. rewrite map_app. simpl. rewrite <- app_assoc. reflexivity.
    + reflexivity.
Qed.

Lemma replace_all_effect ids : forall st doc pd st',
  replace_all st ids doc pd = Ok st' ->
  st_sch st' = st_sch st /\
  forall id, map payload_of (vers (st_docs st') id) =
             map payload_of (vers (st_docs st) id) ++
             log_vers (map (fun i => (i, Some (with_id (st_sch st) doc i))) ids) id.
Proof.
  induction ids as [|i ids IH]; simpl; intros st doc pd st' H.
  - inversion H; subst. split; auto. intros id. unfold log_vers; simpl. rewrite app_nil_r. reflexivity.
  - destruct (upsert1 st false i (with_id (st_sch st) doc i) pd) as [[st1 pd1]| |] eqn:U; simpl in H; try discriminate.
    apply upsert1_effect in U as [S1 [r D1]].
    apply IH in H as [S2 V2]. split; [congruence|].
    intros id. rewrite V2, D1, vers_put, S1, log_vers_cons.
    destruct (bytes_eqb i id) eqn:E; simpl.
    + apply bytes_eqb_eq in E. subst. rewrite map_app. simpl. rewrite <- app_assoc. reflexivity.
    + reflexivity.
Qed.

Lemma delete_all_effect ids : forall ds id,
  map payload_of (vers (fold_left (fun ds i => put_version ds i VDel) ids ds) id) =
  map payload_of (vers ds id) ++ log_vers (map (fun i => (i, None)) ids) id.
Proof.
  induction ids as [|i ids IH]; simpl; intros ds id.
  - unfold log_vers; simpl. rewrite app_nil_r. reflexivity.
  - rewrite IH, vers_put, log_vers_cons.
    destruct (bytes_eqb i id) eqn:E; simpl.
    + apply bytes_eqb_eq in E. subst. rewrite map_app. simpl. rewrite <- app_assoc. reflexivity.
    + reflexivity.
Qed.

Lemma rev_of_vers st id : rev_of st id = nlen (vers (st_docs st) id).
Proof. unfold rev_of, vers, nlen. destruct (find_doc (st_docs st) id); reflexivity. Qed.

Lemma inv_rev sch st log id : inv sch st log -> rev_of st id = nlen (log_vers log id).
Proof.
  intros [_ H]. rewrite rev_of_vers. unfold nlen. rewrite <- (H id), map_length. reflexivity.
Qed.

Lemma map_fst_pairs {A} (f : bytes -> A) (ids : list bytes) : map fst (map (fun i => (i, f i)) ids) = ids.
Proof. induction ids; simpl; congruence. Qed.

Lemma writes_replace sch q doc (f : bytes -> N) ids :
  writes sch (OReplace q doc) (XWritten (map (fun id => (id, f id)) ids)) =
  map (fun i => (i, Some (with_id sch doc i))) ids.
Proof. simpl. rewrite map_map. reflexivity. Qed.
Lemma writes_delete sch q (f : bytes -> N) ids :
  writes sch (ODelete q) (XWritten (map (fun id => (id, f id)) ids)) = map (fun i => (i, None)) ids.
Proof. simpl. rewrite map_map. reflexivity. Qed.

(* one step keeps the invariant and produces the output the log prescribes *)
Lemma step_refines sch st log o st' x :
  inv sch st log -> step st o = (st', x) ->
  inv sch st' (log ++ writes sch o x) /\ x = spec_out (log ++ writes sch o x) o x.
Proof.
  intros [Hs Hv] Hstep.
  assert (I0 : inv sch st log) by (split; auto).
  destruct o as [l|q doc|q|name t|name|cols uniq|cols|q off|q off|id|id desc off lim]; simpl in Hstep.
  - (* insert *)
    destruct l as [|p l'].
    { inversion Hstep; subst; simpl. rewrite app_nil_r. split; auto. }
    cbv iota in Hstep. remember (p :: l') as l eqn:El. clear El.
    destruct (insert_all st l []) as [st1| |] eqn:IA;
      inversion Hstep; subst; simpl; try (rewrite app_nil_r; split; auto).
    apply insert_all_effect in IA as [S1 V1].
    assert (I1 : inv sch st' (log ++ map (fun p0 => (fst p0, Some (with_id sch (snd p0) (fst p0)))) l)).
    { split; [congruence|]. intros id. rewrite V1, Hv, log_vers_app. f_equal.
      f_equal. apply map_ext. intros a. f_equal. f_equal. apply with_id_sid; auto. }
    split; auto. f_equal. rewrite map_map. simpl. apply map_ext_in. intros a _. f_equal.
    eapply inv_rev; eauto.
  - (* replace *)
    destruct (engine_search st (inject_id (st_sch st) doc q) 0) as [rows| |];
      try (inversion Hstep; subst; simpl; rewrite app_nil_r; split; auto).
    destruct (replace_all st (map l_id rows) doc []) as [st1| |] eqn:RA;
      inversion Hstep; subst; try (simpl; rewrite app_nil_r; split; auto).
    apply replace_all_effect in RA as [S1 V1].
    rewrite writes_replace.
    assert (I1 : inv sch st' (log ++ map (fun i => (i, Some (with_id sch doc i))) (map l_id rows))).
    { split; [congruence|]. intros id. rewrite V1, Hv, log_vers_app. f_equal.
      f_equal. apply map_ext. intros a. f_equal. f_equal. apply with_id_sid; auto. }
    split; auto. unfold spec_out.
    set (L := map l_id rows) in *.
    f_equal. rewrite map_map. simpl. apply map_ext_in. intros a _. f_equal.
    eapply inv_rev; eauto.
  - (* delete *)
    destruct (engine_search st q 0) as [rows| |];
      inversion Hstep; subst; try (simpl; rewrite app_nil_r; split; auto).
    rewrite writes_delete.
    assert (I1 : inv sch (mkst (st_sch st) (fold_left (fun ds i => put_version ds i VDel) (map l_id rows) (st_docs st)))
                     (log ++ map (fun i => (i, None)) (map l_id rows))).
    { split; auto. intros id. simpl. rewrite delete_all_effect, Hv, log_vers_app. reflexivity. }
    split; auto. unfold spec_out.
    set (L := map l_id rows) in *.
    f_equal. rewrite map_map. simpl. apply map_ext_in. intros a _. f_equal.
    eapply inv_rev; eauto.
  - (* add field *)
    destruct (col_exists (st_sch st) name || bytes_eqb name doc_blob);
      inversion Hstep; subst; simpl; rewrite app_nil_r; split; auto; split; auto.
  - (* remove field *)
    destruct (find_field (st_sch st) name);
      [destruct (existsb _ (s_indexes (st_sch st)))|];
      inversion Hstep; subst; simpl; rewrite app_nil_r; split; auto; split; auto.
  - (* create index *)
    destruct cols; [inversion Hstep; subst; simpl; rewrite app_nil_r; split; auto|].
    destruct (negb _ || _ || _ || _ || _);
      inversion Hstep; subst; simpl; rewrite app_nil_r; split; auto; split; auto.
  - (* delete index *)
    destruct (existsb (index_eqb cols) (s_indexes (st_sch st)));
      inversion Hstep; subst; simpl; rewrite app_nil_r; split; auto; split; auto.
  - (* search *)
    destruct (engine_matched st q); inversion Hstep; subst; simpl; rewrite app_nil_r; split; auto.
  - (* count *)
    destruct (engine_matched st q); inversion Hstep; subst; simpl; rewrite app_nil_r; split; auto.
  - (* get *)
    simpl. rewrite app_nil_r.
    assert (X : x = spec_out log (OGet id) x /\ st' = st).
    { simpl. rewrite <- (Hv id). unfold vers, nlen.
      destruct (find_doc (st_docs st) id) as [d|] eqn:F.
      - rewrite map_length. change (@None jv) with (payload_of VDel). rewrite last_map.
        unfold cur in Hstep. destruct (last (d_vers d) VDel) eqn:L; inversion Hstep; subst; simpl; auto.
      - inversion Hstep; subst; simpl; auto. }
    destruct X as [X1 X2]. subst st'. split; auto.
  - (* audit *)
    simpl. rewrite app_nil_r.
    assert (X : x = spec_out log (OAudit id desc off lim) x /\ st' = st).
    { simpl. rewrite <- (Hv id). unfold vers, nlen.
      destruct (find_doc (st_docs st) id) as [d|] eqn:F.
      - rewrite <- number_from_opt'.
        destruct ((N.of_nat (length (number_from 1 (d_vers d))) <=? off) || (lim =? 0));
          inversion Hstep; subst; auto.
      - simpl. inversion Hstep; subst. split; auto. destruct off; reflexivity. }
    destruct X as [X1 X2]. subst st'. split; auto.
Qed.

Lemma run_refines sch ops : forall st log st' outs,
  inv sch st log -> run st ops = (st', outs) ->
  inv sch st' (log ++ log_of sch ops outs) /\ spec_outs sch log ops outs = outs.
Proof.
  induction ops as [|o ops IH]; simpl; intros st log st' outs I R.
  - inversion R; subst. simpl. rewrite app_nil_r. auto.
  - destruct (step st o) as [st1 x] eqn:S. destruct (run st1 ops) as [st2 xs] eqn:R2.
    inversion R; subst. destruct (step_refines sch st log o st1 x I S) as [I1 X].
    destruct (IH st1 (log ++ writes sch o x) st' xs I1 R2) as [I2 X2].
    simpl. rewrite <- app_assoc in I2. split; auto. rewrite X2. f_equal. symmetry. exact X.
Qed.

Lemma inv_init sch : inv sch (init sch) [].
Proof. split; auto. Qed.

(* every output of every history is the one the write log prescribes (lookups, revision numbers,
   audit trails) *)
Theorem history_refines_write_log sch ops :
  let '(st, outs) := run (init sch) ops in spec_outs sch [] ops outs = outs.
Proof.
  destruct (run (init sch) ops) as [st outs] eqn:R.
  apply (run_refines sch ops (init sch) [] st outs (inv_init sch) R).
Qed.

(* lookup by id after any history returns the last payload written for that id, with the number of
   writes as its revision; nothing if the id was never written or its last write is a deletion *)
Theorem lookup_returns_last_write sch ops id :
  let '(st, outs) := run (init sch) ops in
  snd (step st (OGet id)) = spec_out (log_of sch ops outs) (OGet id) XErr.
Proof.
  destruct (run (init sch) ops) as [st outs] eqn:R.
  destruct (run_refines sch ops (init sch) [] st outs (inv_init sch) R) as [I _]. simpl in I.
  destruct (step st (OGet id)) as [st' x] eqn:S.
  destruct (step_refines sch st _ (OGet id) st' x I S) as [_ X]. simpl in X. rewrite app_nil_r in X.
  simpl. exact X.
Qed.

(* the audit trail after any history is the list of all writes to the id, numbered 1.. in order
   (reversed if asked), cut to the page asked for *)
Theorem audit_is_the_write_log sch ops id desc off lim :
  let '(st, outs) := run (init sch) ops in
  snd (step st (OAudit id desc off lim)) = spec_out (log_of sch ops outs) (OAudit id desc off lim) XErr.
Proof.
  destruct (run (init sch) ops) as [st outs] eqn:R.
  destruct (run_refines sch ops (init sch) [] st outs (inv_init sch) R) as [I _]. simpl in I.
  destruct (step st (OAudit id desc off lim)) as [st' x] eqn:S.
  destruct (step_refines sch st _ (OAudit id desc off lim) st' x I S) as [_ X]. simpl in X.
  rewrite app_nil_r in X. simpl. exact X.
Qed.

(* a failed operation changes nothing *)
Theorem failed_op_changes_nothing st o : snd (step st o) = XErr -> fst (step st o) = st.
Proof.
  destruct o as [l|q doc|q|name t|name|cols uniq|cols|q off|q off|id|id desc off lim];
    [unfold step|simpl..].
  - destruct l as [|p l']; [simpl; auto|]. cbv iota. generalize (p :: l'). intros L.
    destruct (insert_all st L []); simpl; auto. discriminate.
  - destruct (engine_search st (inject_id (st_sch st) doc q) 0); simpl; auto.
    destruct (replace_all st (map l_id a) doc []); simpl; auto. discriminate.
  - destruct (engine_search st q 0); simpl; auto. discriminate.
  - destruct (col_exists (st_sch st) name || bytes_eqb name doc_blob); simpl; auto. discriminate.
  - destruct (find_field (st_sch st) name); simpl; auto.
    destruct (existsb _ (s_indexes (st_sch st))); simpl; auto. discriminate.
  - destruct cols; simpl; auto. destruct (negb _ || _ || _ || _ || _); simpl; auto. discriminate.
  - destruct (existsb (index_eqb cols) (s_indexes (st_sch st))); simpl; auto. discriminate.
  - destruct (engine_matched st q); simpl; auto.
  - destruct (engine_matched st q); simpl; auto.
  - destruct (find_doc (st_docs st) id); simpl; auto. destruct (cur d); simpl; auto.
  - destruct (find_doc (st_docs st) id); simpl; auto. destruct (_ || _); simpl; auto.
Qed.
