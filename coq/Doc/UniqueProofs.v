(* C19 — unique indexes.  The check of doUpsert reads only the first key under the value prefix, so
   a tombstoned first entry lets duplicates in (refuted in Witness.v).  What does hold: as long as
   nothing was ever deleted or replaced (insert-only histories on a fixed schema) no two live
   documents share the tuple of a unique index. *)
From V Require Import Doc.Model Doc.Facts.
From Coq Require Import Lia.
Open Scope N_scope.

Definition single (ds : list drec) : Prop :=
  forall d, In d ds -> exists p r, d_vers d = [VPut p r].

Lemma single_cur d p r : d_vers d = [VPut p r] -> cur d = Some (mkl (d_id d) p r).
Proof. unfold cur. intros ->. reflexivity. Qed.

Lemma single_ever_holds sch cols t d :
  (exists p r, d_vers d = [VPut p r]) -> ever_had sch cols t d = holds_now sch cols t d.
Proof.
  intros (p & r & V). unfold ever_had, holds_now. rewrite (single_cur d p r V), V. simpl.
  rewrite orb_false_r. reflexivity.
Qed.

Lemma first_entry_spec sch cols t ds : forall best res,
  first_entry sch cols t ds best = res ->
  match res with
  | None => best = None /\ forall d, In d ds -> ever_had sch cols t d = false
  | Some d => best = Some d \/ (In d ds /\ ever_had sch cols t d = true)
  end.
Proof.
  induction ds as [|d ds IH]; simpl; intros best res H.
  - subst res. destruct best; auto. split; auto. intros ? [].
  - destruct (ever_had sch cols t d) eqn:E.
    + destruct best as [b|].
      * destruct (bcmp (d_id d) (d_id b)); apply IH in H; destruct res as [x|];
          try (destruct H as [H|[H1 H2]]; [inversion H; subst; auto|auto]);
          try (destruct H as [H _]; discriminate).
      * apply IH in H. destruct res as [x|].
        -- destruct H as [H|[H1 H2]]; [inversion H; subst; auto|auto].
        -- destruct H as [H _]; discriminate.
    + apply IH in H. destruct res as [x|].
      * destruct H as [H|[H1 H2]]; auto.
      * destruct H as [H1 H2]. split; auto. intros d' [<-|Hin]; auto.
Qed.

Lemma find_doc_none_all ds id : find_doc ds id = None -> forall d, In d ds -> bytes_eqb (d_id d) id = false.
Proof.
  unfold find_doc. intros H d Hin. eapply find_none in H; eauto.
Qed.

Lemma put_version_new ds id v : find_doc ds id = None -> put_version ds id v = ds ++ [mkd id [v]].
Proof.
  induction ds as [|d ds IH]; simpl; intros H; auto.
  destruct (bytes_eqb (d_id d) id) eqn:E; [discriminate|]. rewrite IH; auto.
Qed.

Lemma lives_app a b : lives (a ++ b) = lives a ++ lives b.
Proof. induction a as [|d a IH]; simpl; auto. destruct (cur d); simpl; rewrite IH; auto. Qed.

Lemma pairwise_snoc {A} (p : A -> A -> bool) l x :
  pairwise p (l ++ [x]) = pairwise p l && forallb (fun a => p a x) l.
Proof.
  induction l as [|y l IH]; simpl; auto.
  rewrite forallb_app, IH. simpl.
  destruct (forallb (p y) l), (p y x), (pairwise p l), (forallb (fun a => p a x) l); reflexivity.
Qed.

Lemma in_lives ds l : In l (lives ds) -> exists d, In d ds /\ cur d = Some l.
Proof.
  induction ds as [|d ds IH]; simpl; [intros []|].
  destruct (cur d) as [l0|] eqn:C.
  - intros [<-|H]; eauto. destruct (IH H) as (d' & ? & ?); eauto.
  - intros H. destruct (IH H) as (d' & ? & ?); eauto.
Qed.

(* an admitted insert passed the first-entry check of every unique index *)
Lemma uniq_checks_ix_insert st id r ixs : forall pd pd',
  find_doc (st_docs st) id = None ->
  uniq_checks_ix st true id r ixs pd = Some pd' ->
  forall ix, In ix ixs -> ix_unique ix = true ->
    uniq_check1 (st_sch st) (ix_cols ix) (tuple_of (st_sch st) (ix_cols ix) id r) (st_docs st) = true.
Proof.
  induction ixs as [|ix0 ixs IH]; simpl; intros pd pd' F H ix Hin U; [destruct Hin|].
  rewrite F in H. simpl in H.
  destruct (ix_unique ix0) eqn:U0.
  - destruct (pend_has _ pd (ix_cols ix0) _); try discriminate.
    destruct (uniq_check1 (st_sch st) (ix_cols ix0) _ (st_docs st)) eqn:C; try discriminate.
    destruct Hin as [<-|Hin]; auto. eapply IH; eauto.
  - destruct Hin as [<-|Hin]; [congruence|]. eapply IH; eauto.
Qed.

(* one insert keeps the invariant *)
Lemma upsert1_insert_keeps st id p pd st' pd' :
  single (st_docs st) -> uniq_okb st = true ->
  upsert1 st true id p pd = Ok (st', pd') ->
  st_sch st' = st_sch st /\ single (st_docs st') /\ uniq_okb st' = true.
Proof.
  intros S U H. unfold upsert1 in H.
  destruct (gen_row _ (s_fields (st_sch st)) p) as [r| |]; simpl in H; try discriminate.
  destruct (find_doc (st_docs st) id) as [d0|] eqn:F; simpl in H; try discriminate.
  destruct (uniq_checks st true id r pd) as [pd1|] eqn:UC; try discriminate.
  inversion H; subst; clear H. simpl.
  rewrite (put_version_new _ _ _ F).
  split; auto. split.
  - intros d Hin. apply in_app_or in Hin as [Hin|[<-|[]]]; auto. simpl; eauto.
  - unfold uniq_okb in *. simpl. rewrite forallb_forall in *. intros ix Hix.
    specialize (U ix Hix). destruct (ix_unique ix) eqn:IU; simpl in *; auto.
    rewrite lives_app. simpl. rewrite pairwise_snoc, U. simpl.
    (* the unique check of this index *)
    pose proof (uniq_checks_ix_insert st id r _ pd pd' F UC ix Hix IU) as C1.
    unfold uniq_check1 in C1.
    set (t := tuple_of (st_sch st) (ix_cols ix) id r) in *.
    apply forallb_forall. intros a Ha.
    apply in_lives in Ha as (d & Hd & Cd).
    unfold row_tuple. simpl. fold t.
    assert (HN : holds_now (st_sch st) (ix_cols ix) t d = false).
    { destruct (s_uf (st_sch st)).
      - destruct (first_entry (st_sch st) (ix_cols ix) t (st_docs st) None) as [d1|] eqn:FE.
        + apply first_entry_spec in FE as [FE|[FE1 FE2]]; [discriminate|].
          rewrite (single_ever_holds _ _ _ d1 (S d1 FE1)) in FE2. rewrite FE2 in C1. discriminate.
        + apply first_entry_spec in FE as [_ FE].
          rewrite <- (single_ever_holds _ _ _ d (S d Hd)). auto.
      - apply negb_true_iff in C1.
        destruct (holds_now (st_sch st) (ix_cols ix) t d) eqn:HH; auto.
        assert (existsb (holds_now (st_sch st) (ix_cols ix) t) (st_docs st) = true)
          by (apply existsb_exists; eauto). congruence. }
    unfold holds_now in HN. rewrite Cd in HN. rewrite HN. reflexivity.
Qed.

Lemma insert_all_keeps l : forall st pd st',
  single (st_docs st) -> uniq_okb st = true -> insert_all st l pd = Ok st' ->
  st_sch st' = st_sch st /\ single (st_docs st') /\ uniq_okb st' = true.
Proof.
  induction l as [|[i d] l IH]; simpl; intros st pd st' S U H.
  - inversion H; subst; auto.
  - destruct (has_key d doc_blob); try discriminate.
    destruct (has_key d (s_id (st_sch st))); try discriminate.
    destruct (upsert1 st true i (with_id (st_sch st) d i) pd) as [[st1 pd1]| |] eqn:E; simpl in H; try discriminate.
    destruct (upsert1_insert_keeps st i _ pd st1 pd1 S U E) as (S1 & S2 & S3).
    destruct (IH st1 pd1 st' S2 S3 H) as (T1 & T2 & T3). split; [congruence|auto].
Qed.

Lemma step_insert_or_read_keeps st o :
  insert_or_read o = true -> single (st_docs st) -> uniq_okb st = true ->
  single (st_docs (fst (step st o))) /\ uniq_okb (fst (step st o)) = true.
Proof.
  intros Ho S U.
  destruct o as [l|q doc|q|name t|name|cols uniq|cols|q off|q off|id|id desc off lim];
    try discriminate; [unfold step|simpl..].
  - destruct l as [|p l']; [simpl; auto|]. cbv iota. generalize (p :: l'). intros L.
    destruct (insert_all st L []) as [st1| |] eqn:E; simpl; auto.
    destruct (insert_all_keeps L st [] st1 S U E) as (_ & ? & ?). auto.
  - destruct (engine_matched st q); simpl; auto.
  - destruct (engine_matched st q); simpl; auto.
  - destruct (find_doc (st_docs st) id); simpl; auto. destruct (cur d); simpl; auto.
  - destruct (find_doc (st_docs st) id); simpl; auto. destruct (_ || _); simpl; auto.
Qed.

Lemma run_fst_snoc ops : forall st o,
  fst (run st (ops ++ [o])) = fst (step (fst (run st ops)) o).
Proof.
  induction ops as [|a ops IH]; simpl; intros st o.
  - destruct (step st o); reflexivity.
  - destruct (step st a) as [st1 x]. specialize (IH st1 o).
    destruct (run st1 (ops ++ [o])) as [s2 xs2]. destruct (run st1 ops) as [s3 xs3]. simpl in *. exact IH.
Qed.

Lemma run_keeps ops : forall st,
  forallb insert_or_read ops = true -> single (st_docs st) -> uniq_okb st = true ->
  single (st_docs (fst (run st ops))) /\ uniq_okb (fst (run st ops)) = true.
Proof.
  induction ops as [|o ops IH]; simpl; intros st H S U; auto.
  apply andb_prop in H as [Ho Hr].
  destruct (step_insert_or_read_keeps st o Ho S U) as [S1 U1].
  destruct (step st o) as [st1 x]. simpl in *.
  specialize (IH st1 Hr S1 U1). destruct (run st1 ops) as [st2 xs]. simpl in *. exact IH.
Qed.

Lemma uniq_ok_init sch : uniq_okb (init sch) = true.
Proof.
  unfold uniq_okb. simpl. apply forallb_forall. intros ix _. destruct (ix_unique ix); reflexivity.
Qed.

(* unique_index_no_duplicates, for insert-only histories *)
Theorem unique_partial sch ops :
  forallb insert_or_read ops = true -> uniq_okb (fst (run (init sch) ops)) = true.
Proof.
  intros H. apply run_keeps; auto.
  - intros d [].
  - apply uniq_ok_init.
Qed.
