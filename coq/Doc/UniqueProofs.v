(* C19 — unique indexes.  doUpsert allows a write only when no live entry exists under the value
   (or the document keeps its own tuple, or -- inside one operation -- no earlier document of the
   operation took the tuple).  Consequence, for every history that leaves the typed fields alone:
   no two live documents share the tuple of a unique index. *)
From V Require Import Doc.Model Doc.Facts.
From Coq Require Import Lia.
Open Scope N_scope.

(* ---------- key equality is an equivalence ---------- *)
Lemma cv_cmp_eq_sym a b : cv_cmp a b = Eq -> cv_cmp b a = Eq.
Proof. intros H. rewrite (cv_cmp_anti a b), H. reflexivity. Qed.
Lemma cv_cmp_eq_trans a b c : cv_cmp a b = Eq -> cv_cmp b c = Eq -> cv_cmp a c = Eq.
Proof.
  intros H1 H2.
  assert (A : cle (cv_cmp a c)) by (apply (cv_le_trans a b c); unfold cle; congruence).
  assert (B : cle (cv_cmp c a)).
  { apply (cv_le_trans c b a); unfold cle.
    - rewrite (cv_cmp_eq_sym _ _ H2). congruence.
    - rewrite (cv_cmp_eq_sym _ _ H1). congruence. }
  unfold cle in *. rewrite (cv_cmp_anti a c) in B.
  destruct (cv_cmp a c); simpl in *; congruence.
Qed.

Definition dsign (v : cv) : option bool := match v with CDbl n => Some (nneg n) | _ => None end.

Lemma kcmp_eq_iff nz a b :
  cv_kcmp nz a b = Eq <-> (cv_cmp a b = Eq /\ (nz = true -> dsign a = dsign b)).
Proof.
  destruct a, b;
    try (simpl; split; [intros H; split; auto|intros [H _]; exact H]; fail);
    try (split; [intros H|intros [H _]]; exfalso; vm_compute in H; discriminate).
  (* both DOUBLE *)
  simpl. destruct (num_cmp n n0) eqn:E.
  - destruct nz.
    + destruct (nneg n), (nneg n0); simpl; split; intros H; try discriminate; auto;
        try (destruct H as [_ H]; specialize (H eq_refl); discriminate).
    + split; auto. intros _. split; auto. discriminate.
  - split; [discriminate|intros [H _]; discriminate].
  - split; [discriminate|intros [H _]; discriminate].
Qed.

Lemma kcmp_eq_sym nz a b : cv_kcmp nz a b = Eq -> cv_kcmp nz b a = Eq.
Proof.
  rewrite !kcmp_eq_iff. intros [H1 H2]. split; [apply cv_cmp_eq_sym; auto|].
  intros Z. symmetry; auto.
Qed.
Lemma kcmp_eq_trans nz a b c : cv_kcmp nz a b = Eq -> cv_kcmp nz b c = Eq -> cv_kcmp nz a c = Eq.
Proof.
  rewrite !kcmp_eq_iff. intros [H1 H2] [H3 H4]. split; [eapply cv_cmp_eq_trans; eauto|].
  intros Z. rewrite H2, H4; auto.
Qed.

Lemma tuple_eqb_sym nz a b : tuple_eqb nz a b = true -> tuple_eqb nz b a = true.
Proof.
  unfold tuple_eqb. revert b; induction a as [|x a IH]; intros [|y b]; simpl; auto.
  intros H. apply andb_prop in H as [H1 H2].
  destruct (cv_kcmp nz x y) eqn:E; try discriminate.
  rewrite (kcmp_eq_sym nz x y E). simpl. auto.
Qed.
Lemma tuple_eqb_trans nz a b c :
  tuple_eqb nz a b = true -> tuple_eqb nz b c = true -> tuple_eqb nz a c = true.
Proof.
  unfold tuple_eqb. revert b c; induction a as [|x a IH]; intros [|y b] [|z c]; simpl; auto; try discriminate.
  intros H G. apply andb_prop in H as [H1 H2]. apply andb_prop in G as [G1 G2].
  destruct (cv_kcmp nz x y) eqn:E1; try discriminate.
  destruct (cv_kcmp nz y z) eqn:E2; try discriminate.
  rewrite (kcmp_eq_trans nz x y z E1 E2). simpl. eauto.
Qed.
Lemma tuple_neq_sym nz a b : tuple_eqb nz a b = false -> tuple_eqb nz b a = false.
Proof.
  intros H. destruct (tuple_eqb nz b a) eqn:E; auto.
  apply tuple_eqb_sym in E. congruence.
Qed.

(* ---------- live rows of a version list after a write ---------- *)
Lemma last_snoc {A} (l : list A) x d : last (l ++ [x]) d = x.
Proof. induction l as [|y l IH]; simpl; auto. destruct (l ++ [x]) eqn:E; auto. destruct l; discriminate. Qed.

Lemma cur_in_lives ds d a : In d ds -> cur d = Some a -> In a (lives ds).
Proof.
  induction ds as [|d0 ds IH]; simpl; [intros []|].
  intros [->|Hin] C.
  - rewrite C. simpl; auto.
  - destruct (cur d0); simpl; auto.
Qed.
Lemma in_lives ds l : In l (lives ds) -> exists d, In d ds /\ cur d = Some l.
Proof.
  induction ds as [|d ds IH]; simpl; [intros []|].
  destruct (cur d) as [l0|] eqn:C.
  - intros [<-|H]; eauto. destruct (IH H) as (d' & ? & ?); eauto.
  - intros H. destruct (IH H) as (d' & ? & ?); eauto.
Qed.

Lemma cur_id d a : cur d = Some a -> l_id a = d_id d.
Proof. unfold cur. destruct (last (d_vers d) VDel); intros H; inversion H; reflexivity. Qed.

Lemma lives_put_in ds id v a :
  In a (lives (put_version ds id v)) ->
  In a (lives ds) \/ (exists p r, v = VPut p r /\ a = mkl id p r).
Proof.
  induction ds as [|d ds IH]; simpl.
  - unfold cur; simpl. destruct v; simpl; [|intros []].
    intros [<-|[]]. right; eauto.
  - destruct (bytes_eqb (d_id d) id) eqn:E; simpl.
    + unfold cur at 1. simpl. rewrite last_snoc. destruct v.
      * simpl. intros [<-|H]; [right; eauto|].
        left. destruct (cur d); simpl; auto.
      * intros H. left. destruct (cur d); simpl; auto.
    + destruct (cur d) as [l0|]; simpl.
      * intros [<-|H]; auto. destruct (IH H); auto.
      * intros H. destruct (IH H); auto.
Qed.

(* ---------- document ids stay distinct ---------- *)
Definition ND (st : state) : Prop := NoDup (map d_id (st_docs st)).

Lemma find_doc_none_ids ds id : find_doc ds id = None -> ~ In id (map d_id ds).
Proof.
  unfold find_doc. intros H Hin. apply in_map_iff in Hin as (d & <- & Hd).
  eapply find_none in H; eauto. simpl in H. rewrite bytes_eqb_refl in H. discriminate.
Qed.
Lemma put_version_ids ds id v :
  map d_id (put_version ds id v) =
  match find_doc ds id with Some _ => map d_id ds | None => map d_id ds ++ [id] end.
Proof.
  unfold find_doc. induction ds as [|d ds IH]; simpl; auto.
  destruct (bytes_eqb (d_id d) id) eqn:E; simpl.
  - apply bytes_eqb_eq in E. rewrite E. reflexivity.
  - rewrite IH. destruct (find _ ds); reflexivity.
Qed.
Lemma nodup_snoc {A} (l : list A) x : NoDup l -> ~ In x l -> NoDup (l ++ [x]).
Proof.
  induction l as [|y l IH]; simpl; intros N H.
  - constructor; auto.
  - inversion N; subst. constructor.
    + intros Hin. apply in_app_or in Hin as [Hin|[<-|[]]]; auto.
    + apply IH; auto.
Qed.
Lemma put_version_nodup ds id v : NoDup (map d_id ds) -> NoDup (map d_id (put_version ds id v)).
Proof.
  intros H. rewrite put_version_ids. destruct (find_doc ds id) eqn:F; auto.
  apply find_doc_none_ids in F.
  apply nodup_snoc; auto.
Qed.

(* ---------- the invariant ---------- *)
Definition tup (st : state) (ix : index) (a : lrow) : list cv := row_tuple (st_sch st) (ix_cols ix) a.

Definition U (st : state) : Prop :=
  forall ix, In ix (s_indexes (st_sch st)) -> ix_unique ix = true ->
  forall a b, In a (lives (st_docs st)) -> In b (lives (st_docs st)) -> l_id a <> l_id b ->
    tuple_eqb (s_nz (st_sch st)) (tup st ix a) (tup st ix b) = false.

(* an allowed upsert either keeps the document's tuple or found no live entry under the tuple *)
Lemma uniq_checks_ix_allowed st ins id r ixs : forall pd pd',
  uniq_checks_ix st ins id r ixs pd = Some pd' ->
  forall ix, In ix ixs -> ix_unique ix = true ->
    let t := tuple_of (st_sch st) (ix_cols ix) id r in
    (exists d, find_doc (st_docs st) id = Some d /\ holds_now (st_sch st) (ix_cols ix) t d = true) \/
    uniq_check1 (st_sch st) (ix_cols ix) t (st_docs st) = true.
Proof.
  induction ixs as [|ix0 ixs IH]; simpl; intros pd pd' H ix Hin Un; [destruct Hin|].
  destruct (ix_unique ix0) eqn:U0.
  - destruct (find_doc (st_docs st) id) as [d|] eqn:F.
    + destruct (negb ins && holds_now (st_sch st) (ix_cols ix0) (tuple_of (st_sch st) (ix_cols ix0) id r) d) eqn:S.
      * destruct Hin as [<-|Hin]; [|eapply IH; eauto].
        left. exists d. apply andb_prop in S as [_ S]. auto.
      * destruct (pend_has _ pd (ix_cols ix0) _); try discriminate.
        destruct (uniq_check1 (st_sch st) (ix_cols ix0) _ (st_docs st)) eqn:C; try discriminate.
        destruct Hin as [<-|Hin]; [right; exact C|eapply IH; eauto].
    + simpl in H. destruct (pend_has _ pd (ix_cols ix0) _); try discriminate.
      destruct (uniq_check1 (st_sch st) (ix_cols ix0) _ (st_docs st)) eqn:C; try discriminate.
      destruct Hin as [<-|Hin]; [right; exact C|eapply IH; eauto].
  - destruct Hin as [<-|Hin]; [congruence|]. eapply IH; eauto.
Qed.

Lemma find_doc_some ds id d : find_doc ds id = Some d -> In d ds /\ d_id d = id.
Proof.
  unfold find_doc. intros H. apply find_some in H as [H1 H2]. split; auto. apply bytes_eqb_eq; auto.
Qed.

(* a live row of another document has a different tuple than the allowed one *)
Lemma allowed_distinct st ix id r b :
  U st -> In ix (s_indexes (st_sch st)) -> ix_unique ix = true ->
  let t := tuple_of (st_sch st) (ix_cols ix) id r in
  ((exists d, find_doc (st_docs st) id = Some d /\ holds_now (st_sch st) (ix_cols ix) t d = true) \/
   uniq_check1 (st_sch st) (ix_cols ix) t (st_docs st) = true) ->
  In b (lives (st_docs st)) -> l_id b <> id ->
  tuple_eqb (s_nz (st_sch st)) (tup st ix b) t = false.
Proof.
  intros HU Hix Un t [[d [F HN]]|C] Hb Hne.
  - apply find_doc_some in F as [Fin Fid].
    unfold holds_now in HN. destruct (cur d) as [o|] eqn:Co; [|discriminate].
    pose proof (cur_in_lives _ _ _ Fin Co) as Ho.
    pose proof (cur_id _ _ Co) as Io.
    assert (Hbo : l_id b <> l_id o) by congruence.
    pose proof (HU ix Hix Un b o Hb Ho Hbo) as D. unfold tup, row_tuple in *.
    destruct (tuple_eqb (s_nz (st_sch st)) (tuple_of (st_sch st) (ix_cols ix) (l_id b) (l_row b)) t) eqn:E; auto.
    apply tuple_eqb_sym in HN.
    rewrite (tuple_eqb_trans _ _ _ _ E HN) in D. discriminate.
  - unfold uniq_check1 in C. apply negb_true_iff in C.
    apply in_lives in Hb as (d & Hd & Cd).
    destruct (holds_now (st_sch st) (ix_cols ix) t d) eqn:HH.
    + assert (existsb (holds_now (st_sch st) (ix_cols ix) t) (st_docs st) = true)
        by (apply existsb_exists; eauto). congruence.
    + unfold holds_now in HH. rewrite Cd in HH. exact HH.
Qed.

Lemma upsert1_keeps st ins id p pd st' pd' :
  U st -> ND st -> upsert1 st ins id p pd = Ok (st', pd') ->
  st_sch st' = st_sch st /\ U st' /\ ND st'.
Proof.
  intros HU HN H. unfold upsert1 in H.
  destruct (gen_row (s_fields (st_sch st)) p) as [r| |]; simpl in H; try discriminate.
  destruct (ins && _); try discriminate.
  destruct (uniq_checks st ins id r pd) as [pd1|] eqn:UC; try discriminate.
  inversion H; subst; clear H. simpl. split; auto. split.
  2:{ unfold ND. simpl. apply put_version_nodup. exact HN. }
  intros ix Hix Un a b Ha Hb Hab. simpl in *.
  pose proof (uniq_checks_ix_allowed st ins id r _ pd pd' UC ix Hix Un) as AD.
  apply lives_put_in in Ha. apply lives_put_in in Hb.
  destruct Ha as [Ha|(pa & ra & Ea & ->)]; destruct Hb as [Hb|(pb & rb & Eb & ->)].
  - apply (HU ix Hix Un a b Ha Hb Hab).
  - inversion Eb; subst. simpl in Hab.
    apply (allowed_distinct st ix id rb a HU Hix Un AD Ha Hab).
  - inversion Ea; subst. simpl in Hab.
    apply tuple_neq_sym.
    apply (allowed_distinct st ix id ra b HU Hix Un AD Hb). congruence.
  - simpl in Hab. congruence.
Qed.

Lemma insert_all_keeps l : forall st pd st',
  U st -> ND st -> insert_all st l pd = Ok st' -> st_sch st' = st_sch st /\ U st' /\ ND st'.
Proof.
  induction l as [|[i d] l IH]; simpl; intros st pd st' HU HN H.
  - inversion H; subst; auto.
  - destruct (has_key d doc_blob); try discriminate.
    destruct (has_key d (s_id (st_sch st))); try discriminate.
    destruct (upsert1 st true i (with_id (st_sch st) d i) pd) as [[st1 pd1]| |] eqn:E; simpl in H; try discriminate.
    destruct (upsert1_keeps st true i _ pd st1 pd1 HU HN E) as (S1 & S2 & S3).
    destruct (IH st1 pd1 st' S2 S3 H) as (T1 & T2 & T3). split; [congruence|auto].
Qed.
Lemma replace_all_keeps ids : forall st doc pd st',
  U st -> ND st -> replace_all st ids doc pd = Ok st' -> st_sch st' = st_sch st /\ U st' /\ ND st'.
Proof.
  induction ids as [|i ids IH]; simpl; intros st doc pd st' HU HN H.
  - inversion H; subst; auto.
  - destruct (upsert1 st false i (with_id (st_sch st) doc i) pd) as [[st1 pd1]| |] eqn:E; simpl in H; try discriminate.
    destruct (upsert1_keeps st false i _ pd st1 pd1 HU HN E) as (S1 & S2 & S3).
    destruct (IH st1 doc pd1 st' S2 S3 H) as (T1 & T2 & T3). split; [congruence|auto].
Qed.

Lemma delete_all_keeps ids : forall sch ds,
  U (mkst sch ds) -> ND (mkst sch ds) ->
  U (mkst sch (fold_left (fun ds i => put_version ds i VDel) ids ds)) /\
  ND (mkst sch (fold_left (fun ds i => put_version ds i VDel) ids ds)).
Proof.
  induction ids as [|i ids IH]; simpl; intros sch ds HU HN; auto.
  apply IH.
  - intros ix Hix Un a b Ha Hb Hab. simpl in *.
    apply lives_put_in in Ha as [Ha|(p & r & E & _)]; [|discriminate].
    apply lives_put_in in Hb as [Hb|(p & r & E & _)]; [|discriminate].
    apply (HU ix Hix Un a b Ha Hb Hab).
  - unfold ND in *. simpl in *. apply put_version_nodup; auto.
Qed.

Lemma step_keeps st o :
  keeps_fields o = true -> U st -> ND st -> U (fst (step st o)) /\ ND (fst (step st o)).
Proof.
  intros Ho HU HN.
  destruct o as [l|q doc|q|name t|name|cols uniq|cols|q off|q off|id|id desc off lim];
    try discriminate; [unfold step|simpl..].
  - destruct l as [|p l']; [simpl; auto|]. cbv iota. generalize (p :: l'). intros L.
    destruct (insert_all st L []) as [st1| |] eqn:E; simpl; auto.
    destruct (insert_all_keeps L st [] st1 HU HN E) as (_ & ? & ?). auto.
  - destruct (engine_search st (inject_id (st_sch st) doc q) 0) as [rows| |]; simpl; auto.
    destruct (replace_all st (map l_id rows) doc []) as [st1| |] eqn:E; simpl; auto.
    destruct (replace_all_keeps _ st doc [] st1 HU HN E) as (_ & ? & ?). auto.
  - destruct (engine_search st q 0) as [rows| |]; simpl; auto.
    destruct st as [sch ds]. apply delete_all_keeps; auto.
  - (* create index *)
    destruct cols as [|c cols']; [simpl; auto|].
    destruct (negb (forallb (col_exists (st_sch st)) (c :: cols')) ||
              existsb (index_eqb (c :: cols')) (s_indexes (st_sch st)) ||
              list_eqb bytes_eqb (c :: cols') (primary_cols (st_sch st)) ||
              uniq && match lives (st_docs st) with [] => false | _ :: _ => true end ||
              (max_key_len <? entry_key_len (st_sch st) (c :: cols'))) eqn:C; simpl; auto.
    split; [|exact HN].
    apply orb_false_iff in C as [C _]. apply orb_false_iff in C as [_ C].
    intros ix Hix Un a b Ha Hb Hab. simpl in *.
    apply in_app_or in Hix as [Hix|[<-|[]]].
    + apply (HU ix Hix Un a b Ha Hb Hab).
    + simpl in Un. subst uniq. simpl in C. destruct (lives (st_docs st)); [destruct Ha|discriminate].
  - (* delete index *)
    destruct (existsb (index_eqb cols) (s_indexes (st_sch st))); simpl; auto.
    split; [|exact HN].
    intros ix Hix Un a b Ha Hb Hab. simpl in *.
    apply filter_In in Hix as [Hix _].
    apply (HU ix Hix Un a b Ha Hb Hab).
  - destruct (engine_matched st q); simpl; auto.
  - destruct (engine_matched st q); simpl; auto.
  - destruct (find_doc (st_docs st) id); simpl; auto. destruct (cur d); simpl; auto.
  - destruct (find_doc (st_docs st) id); simpl; auto. destruct (_ || _); simpl; auto.
Qed.

Lemma run_keeps ops : forall st,
  forallb keeps_fields ops = true -> U st -> ND st ->
  U (fst (run st ops)) /\ ND (fst (run st ops)).
Proof.
  induction ops as [|o ops IH]; simpl; intros st H HU HN; auto.
  apply andb_prop in H as [Ho Hr].
  destruct (step_keeps st o Ho HU HN) as [U1 N1].
  destruct (step st o) as [st1 x]. simpl in *.
  specialize (IH st1 Hr U1 N1). destruct (run st1 ops) as [st2 xs]. simpl in *. exact IH.
Qed.

(* ---------- from the invariant to the boolean predicate ---------- *)
Lemma lives_ids_nodup ds : NoDup (map d_id ds) -> NoDup (map l_id (lives ds)).
Proof.
  induction ds as [|d ds IH]; simpl; intros H; [constructor|].
  inversion H; subst. destruct (cur d) as [a|] eqn:C; simpl; auto.
  constructor; auto. rewrite (cur_id _ _ C). intros Hin. apply H2.
  apply in_map_iff in Hin as (b & Eb & Hb). apply in_lives in Hb as (d' & Hd' & Cd').
  rewrite <- Eb, (cur_id _ _ Cd'). apply in_map; auto.
Qed.

Lemma pairwise_of_distinct (p : lrow -> lrow -> bool) l :
  NoDup (map l_id l) -> (forall a b, In a l -> In b l -> l_id a <> l_id b -> p a b = true) ->
  pairwise p l = true.
Proof.
  induction l as [|x l IH]; simpl; intros N H; auto.
  inversion N; subst. apply andb_true_intro. split.
  - apply forallb_forall. intros y Hy. apply H; auto. intros E. apply H2. rewrite E. apply in_map; auto.
  - apply IH; auto.
Qed.

Lemma U_uniq_okb st : U st -> ND st -> uniq_okb st = true.
Proof.
  intros HU HN. unfold uniq_okb. apply forallb_forall. intros ix Hix.
  destruct (ix_unique ix) eqn:Un; simpl; auto.
  apply pairwise_of_distinct.
  - apply lives_ids_nodup. exact HN.
  - intros a b Ha Hb Hab. pose proof (HU ix Hix Un a b Ha Hb Hab) as X. unfold tup in X.
    rewrite X. reflexivity.
Qed.

(* unique_index_no_duplicates, for every history that does not add or remove fields *)
Theorem unique_no_duplicates sch ops :
  forallb keeps_fields ops = true -> uniq_okb (fst (run (init sch) ops)) = true.
Proof.
  intros H.
  destruct (run_keeps ops (init sch) H) as [HU HN].
  - intros ix _ _ a b [].
  - constructor.
  - apply U_uniq_okb; auto.
Qed.
