(* C19 — basic facts about the model's comparisons: bytes_eqb decides equality, cv_cmp is a total
   preorder (reflexive, antisymmetric up to CompOpp, transitive), numbers compare as rationals. *)
From V Require Import Doc.Model.
From Coq Require Import QArith Lia.
Close Scope Q_scope.
Open Scope N_scope.

(* ---------- bytes ---------- *)
Lemma list_eqb_refl {A} (e : A -> A -> bool) (l : list A) :
  (forall x, e x x = true) -> list_eqb e l l = true.
Proof. intros H; induction l; simpl; auto. rewrite H; auto. Qed.

Lemma bytes_eqb_eq a b : bytes_eqb a b = true <-> a = b.
Proof.
  unfold bytes_eqb. split.
  - revert b; induction a as [|x a IH]; intros [|y b]; simpl; try discriminate; auto.
    intros H; apply andb_prop in H as [H1 H2]. apply N.eqb_eq in H1. subst. f_equal; auto.
  - intros ->. apply list_eqb_refl. apply N.eqb_refl.
Qed.
Lemma bytes_eqb_refl a : bytes_eqb a a = true.
Proof. apply bytes_eqb_eq; reflexivity. Qed.
Lemma bytes_eqb_neq a b : bytes_eqb a b = false <-> a <> b.
Proof.
  split.
  - intros H E. apply bytes_eqb_eq in E. congruence.
  - intros H. destruct (bytes_eqb a b) eqn:E; auto. apply bytes_eqb_eq in E. contradiction.
Qed.
Lemma bytes_eqb_sym a b : bytes_eqb a b = bytes_eqb b a.
Proof.
  destruct (bytes_eqb a b) eqn:E.
  - apply bytes_eqb_eq in E. subst. symmetry. apply bytes_eqb_refl.
  - apply bytes_eqb_neq in E. symmetry. apply bytes_eqb_neq. congruence.
Qed.

(* ---------- comparisons as orders ---------- *)
Definition cle (c : comparison) : Prop := c <> Gt.
Definition cge (c : comparison) : Prop := c <> Lt.

Lemma cmp_le_true c : cmp_le c = true <-> cle c.
Proof. unfold cle; destruct c; simpl; split; intros; congruence. Qed.
Lemma cmp_ge_true c : cmp_ge c = true <-> cge c.
Proof. unfold cge; destruct c; simpl; split; intros; congruence. Qed.

(* a comparison function that is a total preorder *)
Record torder {A} (cmp : A -> A -> comparison) : Prop := {
  to_refl : forall a, cmp a a = Eq;
  to_anti : forall a b, cmp b a = CompOpp (cmp a b);
  to_trans : forall a b c, cmp a b <> Gt -> cmp b c <> Gt -> cmp a c <> Gt;
  (* strictness is kept by composition *)
  to_trans_lt : forall a b c, cmp a b <> Gt -> cmp b c = Lt -> cmp a c = Lt;
  to_trans_lt' : forall a b c, cmp a b = Lt -> cmp b c <> Gt -> cmp a c = Lt
}.

(* Z *)
Lemma Z_torder : torder Z.compare.
Proof.
  constructor; intros.
  - apply Z.compare_refl.
  - apply Z.compare_antisym.
  - rewrite Z.compare_gt_iff in *. lia.
  - rewrite Z.compare_gt_iff in *. rewrite Z.compare_lt_iff in *. lia.
  - rewrite Z.compare_gt_iff in *. rewrite Z.compare_lt_iff in *. lia.
Qed.
Lemma N_torder : torder N.compare.
Proof.
  constructor; intros.
  - apply N.compare_refl.
  - apply N.compare_antisym.
  - rewrite N.compare_gt_iff in *. lia.
  - rewrite N.compare_gt_iff in *. rewrite N.compare_lt_iff in *. lia.
  - rewrite N.compare_gt_iff in *. rewrite N.compare_lt_iff in *. lia.
Qed.

(* Q, through Qcompare *)
Lemma Qcompare_torder : torder Qcompare.
Proof.
  constructor; intros.
  - apply Qeq_alt. reflexivity.
  - symmetry. apply Qcompare_antisym.
  - assert (Hab : (a <= b)%Q) by (apply Qle_alt; exact H).
    assert (Hbc : (b <= c)%Q) by (apply Qle_alt; exact H0).
    apply Qle_alt. eapply Qle_trans; eauto.
  - assert (Hab : (a <= b)%Q) by (apply Qle_alt; exact H).
    assert (Hbc : (b < c)%Q) by (apply Qlt_alt; exact H0).
    apply Qlt_alt. eapply Qle_lt_trans; eauto.
  - assert (Hab : (a < b)%Q) by (apply Qlt_alt; exact H).
    assert (Hbc : (b <= c)%Q) by (apply Qle_alt; exact H0).
    apply Qlt_alt. eapply Qlt_le_trans; eauto.
Qed.

(* pull-back of a total preorder along a function *)
Lemma torder_map {A B} (f : A -> B) (cmp : B -> B -> comparison) :
  torder cmp -> torder (fun a b => cmp (f a) (f b)).
Proof.
  intros [r a t t1 t2]. constructor; intros; eauto.
Qed.

Lemma num_cmp_torder : torder num_cmp.
Proof. unfold num_cmp. apply (torder_map num_q Qcompare Qcompare_torder). Qed.

(* bytes: bcmp *)
Lemma bcmp_lt_gt a b : bcmp a b = Lt <-> bcmp b a = Gt.
Proof. rewrite (bcmp_antisym a b). destruct (bcmp a b); simpl; split; congruence. Qed.

Lemma bcmp_trans_le a b c : bcmp a b <> Gt -> bcmp b c <> Gt -> bcmp a c <> Gt.
Proof.
  intros H1 H2.
  destruct (bcmp a b) eqn:E1; try congruence; destruct (bcmp b c) eqn:E2; try congruence.
  - apply bcmp_eq in E1. apply bcmp_eq in E2. subst. rewrite bcmp_refl. congruence.
  - apply bcmp_eq in E1. subst. rewrite E2. congruence.
  - apply bcmp_eq in E2. subst. rewrite E1. congruence.
  - rewrite (bcmp_trans_lt _ _ _ E1 E2). congruence.
Qed.
Lemma bcmp_torder : torder bcmp.
Proof.
  constructor; intros.
  - apply bcmp_refl.
  - apply bcmp_antisym.
  - eapply bcmp_trans_le; eauto.
  - destruct (bcmp a b) eqn:E1; try congruence.
    + apply bcmp_eq in E1. subst. auto.
    + eapply bcmp_trans_lt; eauto.
  - destruct (bcmp b c) eqn:E2; try congruence.
    + apply bcmp_eq in E2. subst. auto.
    + eapply bcmp_trans_lt; eauto.
Qed.

Lemma bool_cmp_torder : torder bool_cmp.
Proof.
  constructor; intros;
    repeat match goal with x : bool |- _ => destruct x end; simpl in *; congruence.
Qed.

(* ---------- cv_cmp ---------- *)
Ltac cvt H1 H2 :=
  first [ solve [eauto]
        | solve [vm_compute in H1; congruence]
        | solve [vm_compute in H2; congruence]
        | solve [vm_compute; congruence] ].
Lemma cv_cmp_torder : torder cv_cmp.
Proof.
  pose proof Z_torder as [zr za zt zt1 zt2].
  pose proof num_cmp_torder as [qr qa qt qt1 qt2].
  pose proof bcmp_torder as [br ba bt bt1 bt2].
  pose proof bool_cmp_torder as [lr la lt lt1 lt2].
  constructor.
  - intros [| | | | |]; simpl; auto.
  - intros [| | | | |] [| | | | |]; simpl; auto.
  - intros [| | | | |] [| | | | |] [| | | | |]; simpl; intros H1 H2; cvt H1 H2.
  - intros [| | | | |] [| | | | |] [| | | | |]; simpl; intros H1 H2; cvt H1 H2.
  - intros [| | | | |] [| | | | |] [| | | | |]; simpl; intros H1 H2; cvt H1 H2.
Qed.

Lemma cv_cmp_refl a : cv_cmp a a = Eq.
Proof. apply cv_cmp_torder. Qed.
Lemma cv_cmp_anti a b : cv_cmp b a = CompOpp (cv_cmp a b).
Proof. apply cv_cmp_torder. Qed.
Lemma cv_le_trans a b c : cle (cv_cmp a b) -> cle (cv_cmp b c) -> cle (cv_cmp a c).
Proof. apply cv_cmp_torder. Qed.
Lemma cv_ge_trans a b c : cge (cv_cmp a b) -> cge (cv_cmp b c) -> cge (cv_cmp a c).
Proof.
  unfold cge. intros H1 H2.
  rewrite (cv_cmp_anti c a). rewrite (cv_cmp_anti b a) in H1. rewrite (cv_cmp_anti c b) in H2.
  assert (K : cv_cmp c a <> Gt).
  { apply (cv_le_trans c b a); unfold cle.
    - destruct (cv_cmp c b); simpl in *; congruence.
    - destruct (cv_cmp b a); simpl in *; congruence. }
  destruct (cv_cmp c a); simpl; congruence.
Qed.

(* ---------- numbers: integral values compare like their truncations ---------- *)
Definition int_exact (n : Model.num) : Prop := num_integral n = true /\ fits_i64 (num_trunc n) = true.

Lemma num_q_integral n : num_integral n = true -> (num_q n == inject_Z (num_trunc n))%Q.
Proof.
  unfold num_integral, num_q, num_trunc, num_sz. intros H.
  destruct (0 <=? nexp n)%Z eqn:E.
  - destruct (nneg n); unfold Qeq; simpl; lia.
  - simpl in H. apply Z.eqb_eq in H.
    apply Z.leb_gt in E.
    assert (Hp : (0 < 2 ^ (- nexp n))%Z) by (apply Z.pow_pos_nonneg; lia).
    set (d := (2 ^ (- nexp n))%Z) in *.
    assert (Hd : (Z.of_N (nman n) = d * (Z.of_N (nman n) / d))%Z).
    { apply Z.div_exact; lia. }
    unfold Qeq. simpl. rewrite Z2Pos.id by lia.
    destruct (nneg n); nia.
Qed.

Lemma Qcompare_inject_Z a b : Qcompare (inject_Z a) (inject_Z b) = Z.compare a b.
Proof. unfold Qcompare, inject_Z. simpl. rewrite !Z.mul_1_r. reflexivity. Qed.

Lemma num_cmp_exact a b :
  num_integral a = true -> num_integral b = true ->
  num_cmp a b = Z.compare (num_trunc a) (num_trunc b).
Proof.
  intros Ha Hb. unfold num_cmp.
  rewrite (Qcompare_comp _ _ (num_q_integral a Ha) _ _ (num_q_integral b Hb)).
  apply Qcompare_inject_Z.
Qed.

Lemma int_exact_b n : int_exact n -> int_exactb n = true.
Proof. intros [A B]. unfold int_exactb. rewrite A, B. reflexivity. Qed.

Lemma conv_i64_exact n : int_exact n -> conv_i64 n = num_trunc n.
Proof. intros [_ H]. unfold conv_i64. rewrite H. reflexivity. Qed.

Lemma int_exactb_exact n : int_exactb n = true -> int_exact n.
Proof. unfold int_exactb, int_exact. intros H. apply andb_prop in H. exact H. Qed.

(* ---------- sat ---------- *)
Lemma sat_ext c c' o : c = c' -> sat c o = sat c' o.
Proof. intros ->; reflexivity. Qed.
