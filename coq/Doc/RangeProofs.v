(* C19 — the key-range pruning of an index scan never removes a row that satisfies the filter,
   provided key order and value order agree on the values involved (no negative zero among DOUBLE
   values when the encoder keeps the sign of zero).  Consequence: the engine's evaluation equals the
   evaluation without any index (engine_matched = plain_matched). *)
From V Require Import Doc.Model Doc.Facts.
From Coq Require Import QArith Lia.
Close Scope Q_scope.
Open Scope N_scope.

(* ---------- sign of a number ---------- *)
Lemma num_q_zero x : nman x = 0 -> (num_q x == 0)%Q.
Proof.
  intros H. unfold num_q, num_sz. rewrite H. simpl.
  destruct (0 <=? nexp x)%Z; destruct (nneg x); unfold Qeq; simpl; lia.
Qed.
Lemma pow2_pos e : (0 < 2 ^ e)%Z \/ (2 ^ e = 0)%Z.
Proof. destruct (Z.le_gt_cases 0 e). left; apply Z.pow_pos_nonneg; lia. right; apply Z.pow_neg_r; lia. Qed.
Lemma num_q_neg x : nneg x = true -> nman x <> 0 -> (num_q x < 0)%Q.
Proof.
  intros Hn Hm. unfold num_q, num_sz. rewrite Hn.
  destruct (0 <=? nexp x)%Z eqn:E.
  - apply Z.leb_le in E. assert (0 < 2 ^ nexp x)%Z by (apply Z.pow_pos_nonneg; lia).
    unfold Qlt; simpl. nia.
  - unfold Qlt; simpl. lia.
Qed.
Lemma num_q_pos x : nneg x = false -> nman x <> 0 -> (0 < num_q x)%Q.
Proof.
  intros Hn Hm. unfold num_q, num_sz. rewrite Hn.
  destruct (0 <=? nexp x)%Z eqn:E.
  - apply Z.leb_le in E. assert (0 < 2 ^ nexp x)%Z by (apply Z.pow_pos_nonneg; lia).
    unfold Qlt; simpl. nia.
  - unfold Qlt; simpl. lia.
Qed.

Lemma num_cmp_eq_sign x y :
  num_cmp x y = Eq -> num_negzero x = false -> num_negzero y = false -> nneg x = nneg y.
Proof.
  unfold num_cmp, num_negzero. intros HE Hx Hy.
  apply Qeq_alt in HE.
  destruct (N.eq_dec (nman x) 0) as [Zx|Nx]; destruct (N.eq_dec (nman y) 0) as [Zy|Ny].
  - rewrite Zx in Hx. rewrite Zy in Hy. simpl in *.
    rewrite andb_true_r in Hx, Hy. congruence.
  - exfalso. pose proof (num_q_zero x Zx) as H0. rewrite H0 in HE.
    destruct (nneg y) eqn:S.
    + pose proof (num_q_neg y S Ny) as H. rewrite <- HE in H. apply Qlt_irrefl in H. exact H.
    + pose proof (num_q_pos y S Ny) as H. rewrite <- HE in H. apply Qlt_irrefl in H. exact H.
  - exfalso. pose proof (num_q_zero y Zy) as H0. rewrite H0 in HE.
    destruct (nneg x) eqn:S.
    + pose proof (num_q_neg x S Nx) as H. rewrite HE in H. apply Qlt_irrefl in H. exact H.
    + pose proof (num_q_pos x S Nx) as H. rewrite HE in H. apply Qlt_irrefl in H. exact H.
  - destruct (nneg x) eqn:Sx; destruct (nneg y) eqn:Sy; auto; exfalso.
    + pose proof (num_q_neg x Sx Nx) as H1. pose proof (num_q_pos y Sy Ny) as H2.
      rewrite HE in H1. apply (Qlt_irrefl 0). eapply Qlt_trans; eauto.
    + pose proof (num_q_pos x Sx Nx) as H1. pose proof (num_q_neg y Sy Ny) as H2.
      rewrite HE in H1. apply (Qlt_irrefl 0). eapply Qlt_trans; eauto.
Qed.

(* ---------- key order = value order on the values involved ---------- *)
Definition nnz (v : cv) : Prop :=
  match v with CDbl n => num_negzero n = false | _ => True end.
Definition kc_ok (nz : bool) (v : cv) : Prop := nz = false \/ nnz v.

Lemma kcmp_cmp nz a b : kc_ok nz a -> kc_ok nz b -> cv_kcmp nz a b = cv_cmp a b.
Proof.
  intros Ha Hb. destruct a, b; simpl; auto.
  destruct (num_cmp n n0) eqn:E; auto.
  destruct nz; auto.
  destruct Ha as [Ha|Ha]; [discriminate|]. destruct Hb as [Hb|Hb]; [discriminate|].
  simpl in Ha, Hb. rewrite (num_cmp_eq_sign n n0 E Ha Hb).
  destruct (nneg n0); reflexivity.
Qed.

(* ---------- ranges ---------- *)
Section OneRow.
Variable nz : bool.
Variable val : bytes -> cv.          (* the column values of one row *)

Definition semi_ok (P : cv -> Prop) (s : option semi) : Prop :=
  match s with None => True | Some (b, _) => P b /\ kc_ok nz b end.
Arguments semi_ok : simpl never.
Definition in_rng (v : cv) (r : range) : Prop :=
  semi_ok (fun lo => cge (cv_cmp v lo)) (r_lo r) /\ semi_ok (fun hi => cle (cv_cmp v hi)) (r_hi r).

Lemma cmp_range_sound v c o r :
  sat (cv_cmp v c) o = true -> kc_ok nz c -> cmp_range o c = Some r -> in_rng v r.
Proof.
  intros Hs Hk Hr. unfold cge, cle.
  destruct o; simpl in Hr; inversion Hr; subst; clear Hr; unfold in_rng, semi_ok; simpl;
    destruct (cv_cmp v c) eqn:E; simpl in Hs; try discriminate; repeat split; auto; try congruence;
    unfold cge, cle; congruence.
Qed.

Lemma max_semi_cases a b : fst (max_semi a b) = fst a \/ fst (max_semi a b) = fst b.
Proof. unfold max_semi; simpl. destruct (cv_cmp (fst a) (fst b)); auto. Qed.
Lemma min_semi_cases a b : fst (min_semi a b) = fst a \/ fst (min_semi a b) = fst b.
Proof. unfold min_semi; simpl. destruct (cv_cmp (fst a) (fst b)); auto. Qed.

Lemma semi_ok_some P a : semi_ok P (Some a) <-> (P (fst a) /\ kc_ok nz (fst a)).
Proof. destruct a; unfold semi_ok; simpl; tauto. Qed.

Lemma refine_sound v r n : in_rng v r -> in_rng v n -> in_rng v (refine r n).
Proof.
  intros [L1 H1] [L2 H2]. unfold refine, in_rng; simpl. split.
  - destruct (r_lo r) as [a|]; destruct (r_lo n) as [b|]; auto.
    apply semi_ok_some. apply semi_ok_some in L1. apply semi_ok_some in L2.
    destruct (max_semi_cases a b) as [E|E]; rewrite E; auto.
  - destruct (r_hi r) as [a|]; destruct (r_hi n) as [b|]; auto.
    apply semi_ok_some. apply semi_ok_some in H1. apply semi_ok_some in H2.
    destruct (min_semi_cases a b) as [E|E]; rewrite E; auto.
Qed.

(* a range that is known to contain only kc_ok bounds *)
Definition rng_kc (r : range) : Prop :=
  semi_ok (fun _ => True) (r_lo r) /\ semi_ok (fun _ => True) (r_hi r).
Lemma in_rng_kc v r : in_rng v r -> rng_kc r.
Proof.
  intros [A B]. split.
  - destruct (r_lo r) as [[? ?]|]; unfold semi_ok in *; simpl in *; tauto.
  - destruct (r_hi r) as [[? ?]|]; unfold semi_ok in *; simpl in *; tauto.
Qed.

Lemma extend_sound_l v r n : in_rng v r -> rng_kc n -> in_rng v (extend r n).
Proof.
  intros [L1 H1] [L2 H2]. unfold extend, in_rng; simpl. split.
  - destruct (r_lo r) as [a|]; destruct (r_lo n) as [b|]; simpl; auto.
    apply semi_ok_some. apply semi_ok_some in L1. apply semi_ok_some in L2.
    destruct L1 as [L1 K1]. destruct L2 as [_ K2].
    unfold min_semi; simpl. destruct (cv_cmp (fst a) (fst b)) eqn:E; auto.
    split; auto. (* a > b, v >= a  ==> v >= b *)
    apply (cv_ge_trans v (fst a) (fst b)); auto. unfold cge; congruence.
  - destruct (r_hi r) as [a|]; destruct (r_hi n) as [b|]; simpl; auto.
    apply semi_ok_some. apply semi_ok_some in H1. apply semi_ok_some in H2.
    destruct H1 as [H1 K1]. destruct H2 as [_ K2].
    unfold max_semi; simpl. destruct (cv_cmp (fst a) (fst b)) eqn:E; auto.
    split; auto. (* a < b, v <= a ==> v <= b *)
    apply (cv_le_trans v (fst a) (fst b)); auto. unfold cle; congruence.
Qed.
Lemma extend_sound_r v r n : rng_kc r -> in_rng v n -> in_rng v (extend r n).
Proof.
  intros [L1 H1] [L2 H2]. unfold extend, in_rng; simpl. split.
  - destruct (r_lo r) as [a|]; destruct (r_lo n) as [b|]; simpl; auto.
    apply semi_ok_some. apply semi_ok_some in L1. apply semi_ok_some in L2.
    destruct L1 as [_ K1]. destruct L2 as [L2 K2].
    unfold min_semi; simpl. destruct (cv_cmp (fst a) (fst b)) eqn:E; auto; split; auto.
    + (* a = b *) apply (cv_ge_trans v (fst b) (fst a)); auto.
      unfold cge. rewrite (cv_cmp_anti (fst a) (fst b)), E. simpl. congruence.
    + (* a < b, v >= b ==> v >= a *)
      apply (cv_ge_trans v (fst b) (fst a)); auto.
      unfold cge. rewrite (cv_cmp_anti (fst a) (fst b)), E. simpl. congruence.
  - destruct (r_hi r) as [a|]; destruct (r_hi n) as [b|]; simpl; auto.
    apply semi_ok_some. apply semi_ok_some in H1. apply semi_ok_some in H2.
    destruct H1 as [_ K1]. destruct H2 as [H2 K2].
    unfold max_semi; simpl. destruct (cv_cmp (fst a) (fst b)) eqn:E; auto; split; auto.
    + apply (cv_le_trans v (fst b) (fst a)); auto.
      unfold cle. rewrite (cv_cmp_anti (fst a) (fst b)), E. simpl. congruence.
    + (* a > b, v <= b ==> v <= a *)
      apply (cv_le_trans v (fst b) (fst a)); auto.
      unfold cle. rewrite (cv_cmp_anti (fst a) (fst b)), E. simpl. congruence.
Qed.

(* ---------- range maps ---------- *)
Definition rmap_sound (m : rmap) : Prop := forall k rg, In (k, rg) m -> in_rng (val k) rg.
Definition rmap_kc (m : rmap) : Prop := forall k rg, In (k, rg) m -> rng_kc rg.

Lemma rmap_sound_kc m : rmap_sound m -> rmap_kc m.
Proof. intros H k rg Hin. eapply in_rng_kc; eauto. Qed.

Lemma rmap_get_in m k rg : rmap_get m k = Some rg -> In (k, rg) m.
Proof.
  induction m as [|[k' r'] m IH]; simpl; try discriminate.
  destruct (bytes_eqb k k') eqn:E.
  - intros H; inversion H; subst. apply bytes_eqb_eq in E. subst. auto.
  - auto.
Qed.
Lemma rmap_set_in m k rg k' rg' :
  In (k', rg') (rmap_set m k rg) -> (k' = k /\ rg' = rg) \/ In (k', rg') m.
Proof.
  induction m as [|[k0 r0] m IH]; simpl.
  - intros [H|[]]; inversion H; auto.
  - destruct (bytes_eqb k k0) eqn:E; simpl.
    + intros [H|H]; [inversion H; auto|auto].
    + intros [H|H]; auto. destruct (IH H); auto.
Qed.

Definition cmp_holds (c : ccmp) : Prop :=
  sat (cv_cmp (val (cc_field c)) (cc_val c)) (cc_op c) = true.

Definition group_step (m : rmap) (c : ccmp) : rmap :=
  match cmp_range (cc_op c) (cc_val c) with
  | None => m
  | Some nr =>
      match rmap_get m (cc_field c) with
      | None => rmap_set m (cc_field c) nr
      | Some curr => rmap_set m (cc_field c) (refine curr nr)
      end
  end.
Lemma group_ranges_fold g : group_ranges g = fold_left group_step g [].
Proof. reflexivity. Qed.

Lemma group_step_sound m c :
  rmap_sound m -> cmp_holds c -> kc_ok nz (cc_val c) -> rmap_sound (group_step m c).
Proof.
  intros Hm Hc Hk. unfold group_step.
  destruct (cmp_range (cc_op c) (cc_val c)) as [nr|] eqn:E; auto.
  pose proof (cmp_range_sound _ _ _ _ Hc Hk E) as Hnr.
  destruct (rmap_get m (cc_field c)) as [curr|] eqn:G; intros k rg Hin;
    apply rmap_set_in in Hin as [[-> ->]|Hin]; auto.
  apply refine_sound; auto. apply Hm. apply rmap_get_in; auto.
Qed.

Lemma group_fold_sound g m :
  rmap_sound m -> (forall c, In c g -> cmp_holds c /\ kc_ok nz (cc_val c)) ->
  rmap_sound (fold_left group_step g m).
Proof.
  revert m; induction g as [|c g IH]; simpl; intros m Hm Hg; auto.
  apply IH.
  - destruct (Hg c (or_introl eq_refl)). apply group_step_sound; auto.
  - intros c' Hc'. apply Hg; auto.
Qed.

(* kc-ness alone (no row needed): every bound of a group's ranges is a constant of the group *)
Lemma group_step_kc m c : rmap_kc m -> kc_ok nz (cc_val c) -> rmap_kc (group_step m c).
Proof.
  intros Hm Hk. unfold group_step.
  destruct (cmp_range (cc_op c) (cc_val c)) as [nr|] eqn:E; auto.
  assert (Hnr : rng_kc nr).
  { destruct (cc_op c); simpl in E; inversion E; subst; unfold rng_kc, semi_ok; simpl; auto. }
  destruct (rmap_get m (cc_field c)) as [curr|] eqn:G; intros k rg Hin;
    apply rmap_set_in in Hin as [[-> ->]|Hin]; eauto.
  pose proof (Hm _ _ (rmap_get_in _ _ _ G)) as [C1 C2]. destruct Hnr as [N1 N2].
  unfold refine, rng_kc; simpl. split.
  - destruct (r_lo curr) as [a|]; destruct (r_lo nr) as [b|]; auto.
    apply semi_ok_some. apply semi_ok_some in C1. apply semi_ok_some in N1.
    destruct (max_semi_cases a b) as [E'|E']; rewrite E'; tauto.
  - destruct (r_hi curr) as [a|]; destruct (r_hi nr) as [b|]; auto.
    apply semi_ok_some. apply semi_ok_some in C2. apply semi_ok_some in N2.
    destruct (min_semi_cases a b) as [E'|E']; rewrite E'; tauto.
Qed.
Lemma group_fold_kc g m :
  rmap_kc m -> (forall c, In c g -> kc_ok nz (cc_val c)) -> rmap_kc (fold_left group_step g m).
Proof.
  revert m; induction g as [|c g IH]; simpl; intros m Hm Hg; auto.
  apply IH; auto. apply group_step_kc; auto.
Qed.

Lemma or_ranges_in l r k x :
  In (k, x) (or_ranges l r) ->
  exists lr rr, In (k, lr) l /\ rmap_get r k = Some rr /\ x = extend lr rr.
Proof.
  unfold or_ranges. intros H. apply in_flat_map in H as [[k0 lr] [Hin H]]. simpl in H.
  destruct (rmap_get r k0) as [rr|] eqn:G; simpl in H; [|contradiction].
  destruct H as [H|[]]. inversion H; subst. eauto.
Qed.

Lemma or_ranges_sound_l l r : rmap_sound l -> rmap_kc r -> rmap_sound (or_ranges l r).
Proof.
  intros Hl Hr k x Hin. apply or_ranges_in in Hin as (lr & rr & H1 & H2 & ->).
  apply extend_sound_l; auto. eapply Hr. apply rmap_get_in; eauto.
Qed.
Lemma or_ranges_sound_r l r : rmap_kc l -> rmap_sound r -> rmap_sound (or_ranges l r).
Proof.
  intros Hl Hr k x Hin. apply or_ranges_in in Hin as (lr & rr & H1 & H2 & ->).
  apply extend_sound_r; eauto. apply Hr. apply rmap_get_in; eauto.
Qed.
Lemma or_ranges_kc l r : rmap_kc l -> rmap_kc r -> rmap_kc (or_ranges l r).
Proof.
  intros Hl Hr k x Hin. apply or_ranges_in in Hin as (lr & rr & H1 & H2 & ->).
  pose proof (Hl _ _ H1) as [A1 A2]. pose proof (Hr _ _ (rmap_get_in _ _ _ H2)) as [B1 B2].
  unfold extend, rng_kc; simpl. split.
  - destruct (r_lo lr) as [a|]; destruct (r_lo rr) as [b|]; simpl; auto.
    apply semi_ok_some. apply semi_ok_some in A1. apply semi_ok_some in B1.
    destruct (min_semi_cases a b) as [E'|E']; rewrite E'; tauto.
  - destruct (r_hi lr) as [a|]; destruct (r_hi rr) as [b|]; simpl; auto.
    apply semi_ok_some. apply semi_ok_some in A2. apply semi_ok_some in B2.
    destruct (max_semi_cases a b) as [E'|E']; rewrite E'; tauto.
Qed.

Definition group_holds (g : list ccmp) : Prop := forall c, In c g -> cmp_holds c.
Definition consts_kc (gs : list (list ccmp)) : Prop :=
  forall g, In g gs -> forall c, In c g -> kc_ok nz (cc_val c).

Lemma group_ranges_sound g :
  group_holds g -> (forall c, In c g -> kc_ok nz (cc_val c)) -> rmap_sound (group_ranges g).
Proof.
  intros H K. rewrite group_ranges_fold. apply group_fold_sound.
  - intros k rg [].
  - intros c Hc; split; auto.
Qed.
Lemma group_ranges_kc g : (forall c, In c g -> kc_ok nz (cc_val c)) -> rmap_kc (group_ranges g).
Proof.
  intros K. rewrite group_ranges_fold. apply group_fold_kc; auto. intros k rg [].
Qed.

Lemma where_fold_sound gs acc :
  consts_kc gs -> rmap_kc acc ->
  (rmap_sound acc \/ exists g, In g gs /\ group_holds g) ->
  rmap_sound (fold_left (fun a g' => or_ranges a (group_ranges g')) gs acc).
Proof.
  revert acc; induction gs as [|g gs IH]; simpl; intros acc K Kacc H.
  - destruct H as [H|[g [[] _]]]; auto.
  - assert (Kg : forall c, In c g -> kc_ok nz (cc_val c)) by (intros c Hc; apply (K g); simpl; auto).
    assert (Kgs : consts_kc gs) by (intros g' Hg'; apply K; simpl; auto).
    apply IH; auto.
    + apply or_ranges_kc; auto. apply group_ranges_kc; auto.
    + destruct H as [H|[g' [[->|Hin] Hg']]].
      * left. apply or_ranges_sound_l; auto. apply group_ranges_kc; auto.
      * left. apply or_ranges_sound_r; auto. apply group_ranges_sound; auto.
      * right. eauto.
Qed.

Lemma where_ranges_sound gs :
  consts_kc gs -> (exists g, In g gs /\ group_holds g) -> rmap_sound (where_ranges gs).
Proof.
  intros K [g0 [Hin Hg]]. unfold where_ranges. destruct gs as [|g gs]; [destruct Hin|].
  assert (Kg : forall c, In c g -> kc_ok nz (cc_val c)) by (intros c Hc; apply (K g); simpl; auto).
  apply where_fold_sound.
  - intros g' Hg'; apply K; simpl; auto.
  - apply group_ranges_kc; auto.
  - destruct Hin as [->|Hin].
    + left. apply group_ranges_sound; auto.
    + right. eauto.
Qed.

Lemma where_fold_kc gs acc :
  consts_kc gs -> rmap_kc acc ->
  rmap_kc (fold_left (fun a g' => or_ranges a (group_ranges g')) gs acc).
Proof.
  revert acc; induction gs as [|g gs IH]; simpl; intros acc K Kacc; auto.
  apply IH.
  - intros g' Hg'; apply K; simpl; auto.
  - apply or_ranges_kc; auto. apply group_ranges_kc. intros c Hc; apply (K g); simpl; auto.
Qed.
Lemma where_ranges_kc gs : consts_kc gs -> rmap_kc (where_ranges gs).
Proof.
  intros K. unfold where_ranges. destruct gs as [|g gs].
  - intros k rg [].
  - apply where_fold_kc.
    + intros g' Hg'; apply K; simpl; auto.
    + apply group_ranges_kc. intros c Hc; apply (K g); simpl; auto.
Qed.

(* ---------- the key bounds contain the row key ---------- *)
Lemma key_bounds_lo_ready cols rm hr : fst (key_bounds cols rm true hr) = [].
Proof.
  revert hr; induction cols as [|c cols IH]; intros hr; simpl; auto.
  destruct (rmap_get rm c) as [r|]; simpl; auto.
  specialize (IH (hr || match r_hi r with None => true | Some _ => false end)).
  destruct (key_bounds cols rm true _) as [los his]. simpl in *. exact IH.
Qed.
Lemma key_bounds_hi_ready cols rm lr : snd (key_bounds cols rm lr true) = [].
Proof.
  revert lr; induction cols as [|c cols IH]; intros lr; simpl; auto.
  destruct (rmap_get rm c) as [r|]; simpl; auto.
  specialize (IH (lr || match r_lo r with None => true | Some _ => false end)).
  destruct (key_bounds cols rm _ true) as [los his]. simpl in *. exact IH.
Qed.

Lemma lex_cmp_nil k : lex_cmp nz k [] = Eq.
Proof. destruct k; reflexivity. Qed.

Lemma key_bounds_sound rm cols lr hr :
  rmap_sound rm -> (forall c, In c cols -> kc_ok nz (val c)) ->
  cge (lex_cmp nz (map val cols) (fst (key_bounds cols rm lr hr))) /\
  cle (lex_cmp nz (map val cols) (snd (key_bounds cols rm lr hr))).
Proof.
  intros Hs. revert lr hr. induction cols as [|c cols IH]; intros lr hr Hk.
  - simpl. unfold cge, cle. split; congruence.
  - simpl. destruct (rmap_get rm c) as [r|] eqn:G.
    2:{ simpl. unfold cge, cle. split; congruence. }
    pose proof (Hs _ _ (rmap_get_in _ _ _ G)) as [Lo Hi].
    assert (Hk' : forall c', In c' cols -> kc_ok nz (val c')) by (intros; apply Hk; simpl; auto).
    assert (Hkc : kc_ok nz (val c)) by (apply Hk; simpl; auto).
    set (hr' := hr || match r_hi r with None => true | Some _ => false end).
    set (lr' := lr || match r_lo r with None => true | Some _ => false end).
    specialize (IH lr' hr' Hk').
    pose proof (key_bounds_lo_ready cols rm hr') as Lr.
    pose proof (key_bounds_hi_ready cols rm lr') as Hr.
    destruct (key_bounds cols rm lr' hr') as [los his] eqn:KB. simpl in IH.
    destruct IH as [IHlo IHhi]. simpl. split.
    + destruct lr; simpl.
      * (* already ready: nothing was added before, nothing is added now *)
        subst lr'. simpl in KB. rewrite KB in Lr. simpl in Lr. subst los. unfold cge; congruence.
      * destruct (r_lo r) as [[lo i]|] eqn:RL; simpl.
        -- unfold semi_ok in Lo. destruct Lo as [Lo Klo].
           rewrite (kcmp_cmp nz (val c) lo Hkc Klo).
           unfold cge in *. destruct (cv_cmp (val c) lo); congruence.
        -- subst lr'. simpl in KB. rewrite KB in Lr. simpl in Lr. subst los. unfold cge; congruence.
    + destruct hr; simpl.
      * subst hr'. simpl in KB.
        assert (his = []).
        { pose proof (key_bounds_hi_ready cols rm lr') as X. rewrite KB in X. exact X. }
        subst his. unfold cle; congruence.
      * destruct (r_hi r) as [[hi i]|] eqn:RH; simpl.
        -- unfold semi_ok in Hi. destruct Hi as [Hi Khi].
           rewrite (kcmp_cmp nz (val c) hi Hkc Khi).
           unfold cle in *. destruct (cv_cmp (val c) hi); congruence.
        -- subst hr'. simpl in KB.
           assert (his = []).
           { pose proof (key_bounds_hi_ready cols rm lr') as X. rewrite KB in X. exact X. }
           subst his. unfold cle; congruence.
Qed.

(* every value placed in the key bounds is a bound of some range of the map *)
Lemma key_bounds_vals rm cols lr hr v :
  rmap_kc rm ->
  In v (fst (key_bounds cols rm lr hr) ++ snd (key_bounds cols rm lr hr)) -> kc_ok nz v.
Proof.
  intros Hk. revert lr hr. induction cols as [|c cols IH]; intros lr hr; simpl.
  - intros [].
  - destruct (rmap_get rm c) as [r|] eqn:G; simpl; [|intros []].
    pose proof (Hk _ _ (rmap_get_in _ _ _ G)) as [Lo Hi].
    set (hr' := hr || match r_hi r with None => true | Some _ => false end).
    set (lr' := lr || match r_lo r with None => true | Some _ => false end).
    specialize (IH lr' hr').
    destruct (key_bounds cols rm lr' hr') as [los his]. simpl in *.
    intros Hin. apply in_app_or in Hin as [Hin|Hin].
    + destruct lr; simpl in Hin.
      * apply IH. apply in_or_app; auto.
      * destruct (r_lo r) as [[lo i]|]; simpl in Hin.
        -- destruct Hin as [<-|Hin]. unfold semi_ok in Lo; tauto. apply IH. apply in_or_app; auto.
        -- apply IH. apply in_or_app; auto.
    + destruct hr; simpl in Hin.
      * apply IH. apply in_or_app; auto.
      * destruct (r_hi r) as [[hi i]|]; simpl in Hin.
        -- destruct Hin as [<-|Hin]. unfold semi_ok in Hi; tauto. apply IH. apply in_or_app; auto.
        -- apply IH. apply in_or_app; auto.
Qed.

End OneRow.
