(* C19 — search: (1) the engine's evaluation does not depend on which indexes exist, as long as
   key order and value order agree (engine_matched = plain_matched); (2) it equals the evaluation on
   the stored payloads when the rows agree with the payloads and INTEGER fields hold integral
   values in the int64 range; (3) both statements are false without these provisos (witnesses). *)
From V Require Import Doc.Model Doc.Facts Doc.RangeProofs.
From Coq Require Import Lia.
Open Scope N_scope.

(* ---------- evaluation without any index ---------- *)
Definition plain_matched (st : state) (q : query) : res (list lrow) :=
  let sch := st_sch st in
  do gs <- conv_groups sch (q_groups q);
  do _ <- check_order sch (q_order q);
  let val := col_val0 sch in
  Ok (isort (fun a b => cmp_le (ord_cmp val (q_order q) a b)) (filter (eval_where val gs) (live_rows st))).

(* the same collection with another set of secondary indexes *)
Definition with_indexes (st : state) (ixs : list index) : state :=
  let sch := st_sch st in
  mkst (mksch (s_id sch) (s_fields sch) ixs (s_next sch) (s_nz sch)) (st_docs st).

(* while the key encoder keeps the sign of zero: no converted constant and no column value of a live
   row is a negative zero (an over-long string constant is no obstacle: its range bound is cut to the
   column length) *)
Definition consts_ok (st : state) (q : query) : Prop :=
  forall gs, conv_groups (st_sch st) (q_groups q) = Ok gs -> consts_kc (s_nz (st_sch st)) gs.
Definition rows_kc (st : state) : Prop :=
  forall r name, In r (live_rows st) -> kc_ok (s_nz (st_sch st)) (col_val0 (st_sch st) r name).
Definition nz_safe (st : state) (q : query) : Prop := rows_kc st /\ consts_ok st q.

Lemma filter_filter_absorb {A} (f g : A -> bool) (l : list A) :
  (forall x, In x l -> f x = true -> g x = true) -> filter f (filter g l) = filter f l.
Proof.
  induction l as [|x l IH]; simpl; intros H; auto.
  destruct (g x) eqn:G; simpl.
  - destruct (f x); rewrite IH; auto.
  - destruct (f x) eqn:F.
    + rewrite (H x (or_introl eq_refl) F) in G. discriminate.
    + apply IH; auto.
Qed.

Lemma eval_where_holds val gs r :
  gs <> [] -> eval_where val gs r = true ->
  exists g, In g gs /\ group_holds (val r) g.
Proof.
  intros Hne H. unfold eval_where in H. destruct gs as [|g0 gs]; [congruence|].
  apply existsb_exists in H as [g [Hin Hg]]. exists g; split; auto.
  intros c Hc. rewrite forallb_forall in Hg. apply (Hg c Hc).
Qed.

Lemma pruning_keeps_matches nz val gs cols r :
  (forall name, kc_ok nz (val r name)) -> consts_kc nz gs ->
  eval_where val gs r = true ->
  in_range nz (map (val r) cols)
           (fst (key_bounds cols (where_ranges gs) false false))
           (snd (key_bounds cols (where_ranges gs) false false)) = true.
Proof.
  intros Hv Hc Hw.
  assert (Hs : rmap_sound nz (val r) (where_ranges gs)).
  { destruct gs as [|g gs].
    - intros k rg [].
    - apply where_ranges_sound; auto. apply eval_where_holds; auto. discriminate. }
  destruct (key_bounds_sound nz (val r) (where_ranges gs) cols false false Hs) as [A B].
  - intros; apply Hv.
  - unfold in_range. apply andb_true_intro. split.
    + apply cmp_ge_true; exact A.
    + apply cmp_le_true; exact B.
Qed.

Theorem engine_is_plain st q : nz_safe st q -> engine_matched st q = plain_matched st q.
Proof.
  intros [Hr Hc]. unfold engine_matched, plain_matched.
  destruct (conv_groups (st_sch st) (q_groups q)) as [gs| |] eqn:CG; simpl; auto.
  destruct (check_order (st_sch st) (q_order q)) as [u| |]; simpl; auto.
  specialize (Hc gs CG).
  set (rm := where_ranges gs).
  set (cols := choose_index (st_sch st) (q_order q) rm).
  destruct (key_bounds cols rm false false) as [lo hi] eqn:KB.
  f_equal. f_equal.
  apply filter_filter_absorb. intros r Hin Hw.
  assert (E : lo = fst (key_bounds cols rm false false)) by (rewrite KB; reflexivity).
  assert (E' : hi = snd (key_bounds cols rm false false)) by (rewrite KB; reflexivity).
  rewrite E, E'. apply pruning_keeps_matches; auto.
Qed.

Lemma plain_indexes st ixs q : plain_matched (with_indexes st ixs) q = plain_matched st q.
Proof. reflexivity. Qed.

Lemma nz_safe_indexes st ixs q : nz_safe st q -> nz_safe (with_indexes st ixs) q.
Proof. intros H; exact H. Qed.

(* search_index_independent, for the values on which key order = value order *)
Theorem index_independent_partial st ixs1 ixs2 q off :
  nz_safe st q ->
  engine_search (with_indexes st ixs1) q off = engine_search (with_indexes st ixs2) q off.
Proof.
  intros H. unfold engine_search.
  rewrite (engine_is_plain (with_indexes st ixs1) q (nz_safe_indexes st ixs1 q H)).
  rewrite (engine_is_plain (with_indexes st ixs2) q (nz_safe_indexes st ixs2 q H)).
  rewrite !plain_indexes. reflexivity.
Qed.

(* ... and unconditionally once the key encoder normalises the sign of zero *)
Theorem index_independent_when_keys_normalised st ixs1 ixs2 q off :
  s_nz (st_sch st) = false ->
  engine_search (with_indexes st ixs1) q off = engine_search (with_indexes st ixs2) q off.
Proof.
  intros H. apply index_independent_partial. split.
  - intros r name _. left; exact H.
  - intros gs Hgs g Hg c Hc. left; exact H.
Qed.

(* ---------- relation to the payloads ---------- *)
Definition is_int (sch : schema) (name : bytes) : bool :=
  if bytes_eqb name (s_id sch) then false
  else match find_field sch name with
       | Some f => match f_type f with TInt => true | _ => false end
       | None => false
       end.

(* engine value v / payload value v' of an INTEGER column (b = true) or of any other column *)
Definition vrel (b : bool) (v v' : cv) : Prop :=
  if b then (v = CNull /\ v' = CNull) \/ (exists n, int_exact n /\ v = CInt (num_trunc n) /\ v' = CDbl n)
  else v = v'.

Lemma vrel_cmp b v v' c c' : vrel b v v' -> vrel b c c' -> cv_cmp v c = cv_cmp v' c'.
Proof.
  destruct b; simpl.
  - intros [[-> ->]|[n [[In1 _] [-> ->]]]] [[-> ->]|[m [[Im1 _] [-> ->]]]]; simpl; auto.
    symmetry. apply num_cmp_exact; auto.
  - intros -> ->. reflexivity.
Qed.

(* the stored row of every live document is the conversion of its payload under the CURRENT
   schema: every typed field that the payload holds converted successfully and its column holds the
   result; a field the payload lacks has a NULL column.  (False for a document written before a
   field was added: AddField does not back-fill.) *)
Definition rows_agree (st : state) : Prop :=
  forall r f, In r (live_rows st) -> In f (s_fields (st_sch st)) ->
    match doc_field (l_doc r) (f_name f) with
    | Some v => conv_field (f_type f) v = Ok (row_get (l_row r) (f_col f))
    | None => row_get (l_row r) (f_col f) = CNull
    end.

Lemma find_field_in sch name f : find_field sch name = Some f -> In f (s_fields sch) /\ f_name f = name.
Proof.
  unfold find_field. intros H. apply find_some in H as [H1 H2]. split; auto.
  apply bytes_eqb_eq; auto.
Qed.

Lemma spec_conv_not_int t v : t <> TInt -> spec_conv t v = conv_field t v.
Proof. destruct t; try congruence; destruct v; reflexivity. Qed.

(* engine conversion c / payload conversion c' of one JSON value for a column of type t *)
Lemma conv_rel t v :
  match conv_field t v, spec_conv t v with
  | Ok c, Ok c' => vrel (match t with TInt => true | _ => false end) c c'
  | Err e, Err e' => e = e'
  | Panic, Panic => True
  | _, _ => False
  end.
Proof.
  destruct t.
  - destruct v as [| |n| | |]; simpl; auto.
    destruct (int_exactb n) eqn:E; simpl; auto.
    right. exists n. pose proof (int_exactb_exact n E) as X.
    rewrite (conv_i64_exact n X). auto.
  - rewrite spec_conv_not_int by congruence. destruct (conv_field TDbl v); simpl; auto.
  - rewrite spec_conv_not_int by congruence. destruct (conv_field TStr v); simpl; auto.
  - rewrite spec_conv_not_int by congruence. destruct (conv_field TBool v); simpl; auto.
  - rewrite spec_conv_not_int by congruence. destruct (conv_field TUuid v); simpl; auto.
Qed.

Lemma is_int_field sch name f :
  bytes_eqb name (s_id sch) = false -> find_field sch name = Some f ->
  is_int sch name = match f_type f with TInt => true | _ => false end.
Proof. intros E F. unfold is_int. rewrite E, F. reflexivity. Qed.

Lemma val_rel st r name :
  rows_agree st -> In r (live_rows st) ->
  vrel (is_int (st_sch st) name) (col_val0 (st_sch st) r name) (spec_val (st_sch st) r name).
Proof.
  intros RA Hin. unfold col_val0, col_val, spec_val.
  destruct (bytes_eqb name (s_id (st_sch st))) eqn:EI.
  { unfold is_int. rewrite EI. reflexivity. }
  destruct (find_field (st_sch st) name) as [f|] eqn:FF.
  2:{ unfold is_int. rewrite EI, FF. reflexivity. }
  rewrite (is_int_field _ _ _ EI FF).
  apply find_field_in in FF as [Fin Fname].
  pose proof (RA r f Hin Fin) as A. rewrite Fname in A.
  destruct (doc_field (l_doc r) name) as [v|] eqn:DF.
  - pose proof (conv_rel (f_type f) v) as C. rewrite A in C.
    destruct (spec_conv (f_type f) v); try contradiction. exact C.
  - rewrite A. destruct (f_type f); simpl; auto.
Qed.

(* relation of the converted comparisons *)
Definition cc_rel (sch : schema) (a b : ccmp) : Prop :=
  cc_field a = cc_field b /\ cc_op a = cc_op b /\ vrel (is_int sch (cc_field a)) (cc_val a) (cc_val b).

Definition res_rel {A B} (R : A -> B -> Prop) (a : res A) (b : res B) : Prop :=
  match a, b with
  | Ok x, Ok y => R x y
  | Err e, Err e' => e = e'
  | Panic, Panic => True
  | _, _ => False
  end.

Lemma conv_cmp_rel sch c :
  res_rel (cc_rel sch) (conv_cmp_with conv_field sch c) (conv_cmp_with spec_conv sch c).
Proof.
  unfold conv_cmp_with, cc_rel.
  destruct (bytes_eqb (c_field c) (s_id sch)) eqn:EI.
  - destruct (conv_id (c_val c)); simpl; auto. unfold is_int. rewrite EI. simpl. auto.
  - destruct (find_field sch (c_field c)) as [f|] eqn:FF; simpl; auto.
    pose proof (conv_rel (f_type f) (c_val c)) as C.
    destruct (conv_field (f_type f) (c_val c)), (spec_conv (f_type f) (c_val c));
      simpl in *; try contradiction; auto.
    rewrite (is_int_field _ _ _ EI FF). auto.
Qed.

Lemma mapres_rel {A B C} (R : B -> C -> Prop) (f : A -> res B) (g : A -> res C) (l : list A) :
  (forall x, In x l -> res_rel R (f x) (g x)) ->
  res_rel (Forall2 R) (mapres f l) (mapres g l).
Proof.
  induction l as [|x l IH]; simpl; intros H.
  - constructor.
  - pose proof (H x (or_introl eq_refl)) as Hx.
    destruct (f x) as [y| |], (g x) as [z| |]; simpl in *; try contradiction; auto.
    assert (IH' := IH (fun x0 Hx0 => H x0 (or_intror Hx0))).
    destruct (mapres f l), (mapres g l); simpl in *; try contradiction; auto.
Qed.

Lemma conv_groups_rel sch q :
  res_rel (Forall2 (Forall2 (cc_rel sch)))
          (conv_groups_with conv_field sch (q_groups q)) (conv_groups_with spec_conv sch (q_groups q)).
Proof.
  unfold conv_groups_with. apply mapres_rel. intros g Hg.
  unfold conv_group_with. destruct g as [|c g']; simpl; auto.
  apply (mapres_rel (cc_rel sch) (conv_cmp_with conv_field sch) (conv_cmp_with spec_conv sch) (c :: g')).
  intros c0 Hc0. apply conv_cmp_rel.
Qed.

Lemma forallb_rel {A B} (R : A -> B -> Prop) (p : A -> bool) (p' : B -> bool) l l' :
  Forall2 R l l' -> (forall a b, R a b -> p a = p' b) -> forallb p l = forallb p' l'.
Proof. induction 1; simpl; intros H'; auto. rewrite (H' _ _ H), IHForall2; auto. Qed.
Lemma existsb_rel {A B} (R : A -> B -> Prop) (p : A -> bool) (p' : B -> bool) l l' :
  Forall2 R l l' -> (forall a b, R a b -> p a = p' b) -> existsb p l = existsb p' l'.
Proof. induction 1; simpl; intros H'; auto. rewrite (H' _ _ H), IHForall2; auto. Qed.

Lemma eval_where_rel st gs gs' r :
  rows_agree st -> In r (live_rows st) ->
  Forall2 (Forall2 (cc_rel (st_sch st))) gs gs' ->
  eval_where (col_val0 (st_sch st)) gs r = eval_where (spec_val (st_sch st)) gs' r.
Proof.
  intros RA Hin F. unfold eval_where.
  destruct F as [|g g' gs gs' Hg F]; auto.
  apply (existsb_rel (Forall2 (cc_rel (st_sch st)))); [constructor; auto|].
  intros a b Hab. apply (forallb_rel (cc_rel (st_sch st))); auto.
  intros c c' (Ef & Eo & Ev). unfold eval_cmp. rewrite <- Eo. f_equal.
  apply (vrel_cmp (is_int (st_sch st) (cc_field c))); auto.
  rewrite <- Ef. apply val_rel; auto.
Qed.

Lemma ord_cmp_rel st ord a b :
  rows_agree st -> In a (live_rows st) -> In b (live_rows st) ->
  ord_cmp (col_val0 (st_sch st)) ord a b = ord_cmp (spec_val (st_sch st)) ord a b.
Proof.
  intros RA Ha Hb. induction ord as [|[f d] ord IH]; simpl; auto.
  rewrite (vrel_cmp (is_int (st_sch st) f) _ _ _ _ (val_rel st a f RA Ha) (val_rel st b f RA Hb)).
  rewrite IH. reflexivity.
Qed.

Lemma ins_in {A} (le : A -> A -> bool) x l y : In y (ins le x l) <-> y = x \/ In y l.
Proof.
  induction l as [|z l IH]; simpl.
  - intuition.
  - destruct (le x z); simpl; rewrite ?IH; intuition.
Qed.
Lemma isort_in {A} (le : A -> A -> bool) l y : In y (isort le l) <-> In y l.
Proof.
  induction l as [|x l IH]; simpl; [tauto|]. rewrite ins_in, IH. intuition.
Qed.
Lemma ins_ext {A} (le le' : A -> A -> bool) x l :
  (forall y, In y l -> le x y = le' x y) -> ins le x l = ins le' x l.
Proof.
  induction l as [|z l IH]; simpl; intros H; auto.
  rewrite (H z (or_introl eq_refl)). destruct (le' x z); auto. f_equal. apply IH; auto.
Qed.
Lemma isort_ext {A} (le le' : A -> A -> bool) l :
  (forall x y, In x l -> In y l -> le x y = le' x y) -> isort le l = isort le' l.
Proof.
  induction l as [|x l IH]; simpl; intros H; auto.
  rewrite IH by (intros; apply H; auto).
  apply ins_ext. intros y Hy. apply isort_in in Hy. apply H; auto.
Qed.

Theorem plain_is_spec st q :
  rows_agree st -> plain_matched st q = spec_matched st q.
Proof.
  intros RA. unfold plain_matched, spec_matched, conv_groups.
  pose proof (conv_groups_rel (st_sch st) q) as CR.
  destruct (conv_groups_with conv_field (st_sch st) (q_groups q)) as [gs|e|],
           (conv_groups_with spec_conv (st_sch st) (q_groups q)) as [gs'|e'|];
    simpl in CR; try contradiction; simpl; auto; try congruence.
  destruct (check_order (st_sch st) (q_order q)); simpl; auto.
  f_equal.
  assert (EF : filter (eval_where (col_val0 (st_sch st)) gs) (live_rows st) =
               filter (eval_where (spec_val (st_sch st)) gs') (live_rows st)).
  { apply filter_ext_in. intros r Hr. apply eval_where_rel; auto. }
  rewrite EF. apply isort_ext. intros x y Hx Hy.
  apply filter_In in Hx as [Hx _]. apply filter_In in Hy as [Hy _].
  rewrite (ord_cmp_rel st (q_order q) x y RA Hx Hy). reflexivity.
Qed.

(* search_sound_and_complete, for rows that agree with their payloads *)
Theorem search_partial st q off :
  rows_agree st -> nz_safe st q -> engine_search st q off = spec_search st q off.
Proof.
  intros RA NZ. unfold engine_search, spec_search.
  rewrite (engine_is_plain st q NZ), (plain_is_spec st q RA). reflexivity.
Qed.
