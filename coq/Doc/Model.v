(* C19 — model of the document layer (embedded/document): collections, the JSON -> row mapping
   (structValueToSqlValue incl. the int64(float64) cast), query translation and evaluation on the
   COLUMN values as the SQL layer does it (comparison semantics with NULL lowest, index choice,
   key-range pruning, ordering, paging), insert / replace / delete / audit over per-key version
   histories, unique-index check as doUpsert performs it ("first key with the value prefix").
   Definitions only; proofs are in Doc/*Proofs.v. *)
From V Require Export Base.Hex.
From Coq Require Import QArith.
Close Scope Q_scope.
Open Scope N_scope.

(* ------------------------------------------------------------------------------------------ *)
(* numbers: finite IEEE doubles written (-1)^neg * man * 2^exp (so -0 exists)                  *)
Record num := mkn { nneg : bool; nman : N; nexp : Z }.

Definition num_sz (n : num) : Z := if nneg n then (- Z.of_N (nman n))%Z else Z.of_N (nman n).

Definition num_q (n : num) : Q :=
  if (0 <=? nexp n)%Z then inject_Z (num_sz n * 2 ^ nexp n)
  else Qmake (num_sz n) (Z.to_pos (2 ^ (- nexp n))).

(* Go's == / < / > on float64 (no NaN in JSON documents); -0 == +0 *)
Definition num_cmp (a b : num) : comparison := Qcompare (num_q a) (num_q b).

(* Go: int64(f) as compiled on amd64 (CVTTSD2SQ): truncation toward zero, and the "integer
   indefinite" value 0x8000000000000000 when the truncated value does not fit *)
Definition num_trunc (n : num) : Z :=
  let mag := if (0 <=? nexp n)%Z then (Z.of_N (nman n) * 2 ^ nexp n)%Z
             else (Z.of_N (nman n) / 2 ^ (- nexp n))%Z in
  if nneg n then (- mag)%Z else mag.
Definition min_i64 : Z := (- 2 ^ 63)%Z.
Definition fits_i64 (z : Z) : bool := ((min_i64 <=? z) && (z <? 2 ^ 63))%Z.
Definition conv_i64 (n : num) : Z := let t := num_trunc n in if fits_i64 t then t else min_i64.

Definition num_integral (n : num) : bool :=
  (0 <=? nexp n)%Z || (Z.of_N (nman n) mod 2 ^ (- nexp n) =? 0)%Z.
Definition num_negzero (n : num) : bool := nneg n && (nman n =? 0).

(* ------------------------------------------------------------------------------------------ *)
(* JSON-like values (structpb.Value); objects are association lists (harness: keys sorted)     *)
Inductive jv :=
| JNull
| JBool (b : bool)
| JNum (n : num)
| JStr (s : bytes)
| JList (l : list jv)
| JObj (fs : list (bytes * jv)).

Fixpoint assoc (k : bytes) (fs : list (bytes * jv)) : option jv :=
  match fs with
  | [] => None
  | (k', v) :: r => if bytes_eqb k k' then Some v else assoc k r
  end.

(* strings.SplitN(path, ".", maxNestedFields) with the default maxNestedFields = 3:
   k = number of splits still allowed *)
Fixpoint splitn (k : nat) (acc s : bytes) : list bytes :=
  match s with
  | [] => [rev acc]
  | c :: r =>
      match k with
      | S k' => if c =? 46 then rev acc :: splitn k' [] r else splitn k (c :: acc) r
      | O => [rev acc ++ s]
      end
  end.
Definition split_path (name : bytes) : list bytes := splitn 2 [] name.

(* Engine.structValueFromFieldPath: None = ErrFieldDoesNotExist *)
Fixpoint path_get (fs : list (bytes * jv)) (segs : list bytes) : option jv :=
  match segs with
  | [] => None
  | [s] => assoc s fs
  | s :: rest => match assoc s fs with Some (JObj fs') => path_get fs' rest | _ => None end
  end.
Definition doc_fields (doc : jv) : list (bytes * jv) := match doc with JObj fs => fs | _ => [] end.
Definition doc_field (doc : jv) (name : bytes) : option jv := path_get (doc_fields doc) (split_path name).

(* set a top-level key, keeping the keys sorted (canonical form of a protobuf map) *)
Fixpoint obj_set (k : bytes) (v : jv) (fs : list (bytes * jv)) : list (bytes * jv) :=
  match fs with
  | [] => [(k, v)]
  | (k', v') :: r =>
      match bcmp k k' with
      | Lt => (k, v) :: fs
      | Eq => (k, v) :: r
      | Gt => (k', v') :: obj_set k v r
      end
  end.

(* ------------------------------------------------------------------------------------------ *)
(* hex (encoding/hex) and UUID text (github.com/google/uuid Parse)                             *)
Definition hexdig (c : N) : option N :=
  if (48 <=? c) && (c <=? 57) then Some (c - 48)
  else if (97 <=? c) && (c <=? 102) then Some (c - 87)
  else if (65 <=? c) && (c <=? 70) then Some (c - 55)
  else None.
Fixpoint hex_decode (s : bytes) : option bytes :=
  match s with
  | [] => Some []
  | a :: b :: r =>
      match hexdig a, hexdig b, hex_decode r with
      | Some x, Some y, Some t => Some ((x * 16 + y) :: t)
      | _, _, _ => None
      end
  | _ => None
  end.
Definition hexchr (d : N) : N := if d <? 10 then 48 + d else 87 + d.
Definition hex_encode (b : bytes) : bytes := flat_map (fun x => [hexchr (x / 16); hexchr (x mod 16)]) b.

Definition lower (c : N) : N := if (65 <=? c) && (c <=? 90) then c + 32 else c.
Definition urn_prefix : bytes := [117; 114; 110; 58; 117; 117; 105; 100; 58].  (* "urn:uuid:" *)
(* the 36-byte form: dashes at 8, 13, 18, 23, hex pairs elsewhere; trailing bytes are ignored
   (uuid.Parse reads only s[0..35] after stripping the first byte of the {..} form) *)
Definition uuid36 (s : bytes) : option bytes :=
  let d := nth_default 0 s in
  if negb ((d 8%nat =? 45) && (d 13%nat =? 45) && (d 18%nat =? 45) && (d 23%nat =? 45)) then None
  else
    hex_decode (firstn 8 s ++ firstn 4 (skipn 9 s) ++ firstn 4 (skipn 14 s) ++
                firstn 4 (skipn 19 s) ++ firstn 12 (skipn 24 s)).
Definition uuid_parse (s : bytes) : option bytes :=
  match length s with
  | 36%nat => uuid36 s
  | 45%nat => if bytes_eqb (map lower (firstn 9 s)) urn_prefix then uuid36 (skipn 9 s) else None
  | 38%nat => uuid36 (skipn 1 s)
  | 32%nat => hex_decode s
  | _ => None
  end.

(* ------------------------------------------------------------------------------------------ *)
(* SQL column values and their comparison (TypedValue.Compare): NULL is the lowest value        *)
Inductive cv :=
| CNull
| CInt (z : Z)
| CDbl (n : num)
| CStr (s : bytes)
| CBool (b : bool)
| CBlob (b : bytes).   (* document id; UUID columns (16 bytes, bytes.Compare) *)

Definition cv_rank (v : cv) : N :=
  match v with CNull => 0 | CInt _ => 1 | CDbl _ => 2 | CStr _ => 3 | CBool _ => 4 | CBlob _ => 5 end.
Definition bool_cmp (a b : bool) : comparison :=
  match a, b with false, true => Lt | true, false => Gt | _, _ => Eq end.
Definition cv_cmp (a b : cv) : comparison :=
  match a, b with
  | CNull, CNull => Eq
  | CInt x, CInt y => Z.compare x y
  | CDbl x, CDbl y => num_cmp x y
  | CStr x, CStr y => bcmp x y
  | CBool x, CBool y => bool_cmp x y
  | CBlob x, CBlob y => bcmp x y
  | _, _ => N.compare (cv_rank a) (cv_rank b)
  end.

(* order of the index-key encodings (EncodeValueAsKey): the value order, except that -- when the
   encoder does not normalise the sign of zero (nz = true; probed on the real encoder on every
   run) -- the key of -0.0 sorts below the key of +0.0 although the two values compare equal *)
Definition cv_kcmp (nz : bool) (a b : cv) : comparison :=
  match a, b with
  | CDbl x, CDbl y =>
      match num_cmp x y with
      | Eq => if nz then bool_cmp (negb (nneg x)) (negb (nneg y)) else Eq
      | c => c
      end
  | _, _ => cv_cmp a b
  end.

Inductive cop := OpEQ | OpNE | OpLT | OpLE | OpGT | OpGE.
(* cmpSatisfiesOp *)
Definition sat (c : comparison) (o : cop) : bool :=
  match c, o with
  | Eq, (OpEQ | OpLE | OpGE) => true
  | Lt, (OpNE | OpLT | OpLE) => true
  | Gt, (OpNE | OpGT | OpGE) => true
  | _, _ => false
  end.

(* ------------------------------------------------------------------------------------------ *)
(* schema                                                                                      *)
Inductive ftype := TInt | TDbl | TStr | TBool | TUuid.
Record field := mkf { f_name : bytes; f_type : ftype; f_col : N }.
Record index := mkix { ix_cols : list bytes; ix_unique : bool }.
(* s_nz: the float key encoding distinguishes -0.0 from +0.0 (a fact about the key encoder of
   property C15, probed on the real encoder on every run) *)
Record schema := mksch { s_id : bytes; s_fields : list field; s_indexes : list index; s_next : N;
                         s_nz : bool }.

Definition find_field (sch : schema) (name : bytes) : option field :=
  find (fun f => bytes_eqb (f_name f) name) (s_fields sch).

Definition EUnexpected : N := 20.
Definition ENoField : N := 21.
Definition EArgs : N := 22.
Definition EMaxLen : N := 23.
Definition EConflict : N := 24.
Definition ENotFound : N := 25.
Definition EExists : N := 26.

Definition max_varchar : N := 512.

Definition int_exactb (n : num) : bool := num_integral n && fits_i64 (num_trunc n).

(* structValueToSqlValue; an INTEGER field accepts only numbers with an exact int64 representation
   (f == Trunc(f) and -2^63 <= f < 2^63) *)
Definition conv_field (t : ftype) (v : jv) : res cv :=
  match v with
  | JNull => Ok CNull
  | _ =>
      match t, v with
      | TStr, JStr s => Ok (CStr s)
      | TUuid, JStr s => match uuid_parse s with Some b => Ok (CBlob b) | None => Err EUnexpected end
      | TInt, JNum n => if int_exactb n then Ok (CInt (conv_i64 n)) else Err EUnexpected
      | TDbl, JNum n => Ok (CDbl n)
      | TBool, JBool b => Ok (CBool b)
      | _, _ => Err EUnexpected
      end
  end.
(* BLOBType: the document id, from its hex text (NewDocumentIDFromHexEncodedString) *)
Definition conv_id (v : jv) : res cv :=
  match v with
  | JNull => Ok CNull
  | JStr s =>
      match hex_decode s with
      | Some b => if (len b =? 0) || (32 <? len b) then Err EArgs else Ok (CBlob b)
      | None => Err EArgs
      end
  | _ => Err EUnexpected
  end.

Definition row := list (N * cv).     (* (column id, non-null value) as written by encodeRowValue *)
Fixpoint row_get (r : row) (c : N) : cv :=
  match r with [] => CNull | (c', v) :: t => if c' =? c then v else row_get t c end.

(* generateRowSpecForDocument for the typed fields (+ the VARCHAR(512) limit of encodeRowValue) *)
Fixpoint gen_row (fs : list field) (doc : jv) : res row :=
  match fs with
  | [] => Ok []
  | f :: r =>
      do rest <- gen_row r doc;
      match doc_field doc (f_name f) with
      | None => Ok rest
      | Some v =>
          do c <- conv_field (f_type f) v;
          match c with
          | CNull => Ok rest
          | CStr s => if max_varchar <? len s then Err EMaxLen else Ok ((f_col f, c) :: rest)
          | _ => Ok ((f_col f, c) :: rest)
          end
      end
  end.

(* ------------------------------------------------------------------------------------------ *)
(* stored state: per document id the list of versions of its key, oldest first                  *)
Inductive version := VPut (payload : jv) (r : row) | VDel.
Record drec := mkd { d_id : bytes; d_vers : list version }.
Record state := mkst { st_sch : schema; st_docs : list drec }.

Record lrow := mkl { l_id : bytes; l_doc : jv; l_row : row }.

Definition cur (d : drec) : option lrow :=
  match last (d_vers d) VDel with
  | VPut p r => Some (mkl (d_id d) p r)
  | VDel => None
  end.
Fixpoint lives (ds : list drec) : list lrow :=
  match ds with
  | [] => []
  | d :: r => match cur d with Some l => l :: lives r | None => lives r end
  end.

(* insertion sort (stable) by a boolean "less or equal" *)
Fixpoint ins {A} (le : A -> A -> bool) (x : A) (l : list A) : list A :=
  match l with
  | [] => [x]
  | y :: r => if le x y then x :: l else y :: ins le x r
  end.
Fixpoint isort {A} (le : A -> A -> bool) (l : list A) : list A :=
  match l with [] => [] | x :: r => ins le x (isort le r) end.

Definition cmp_le (c : comparison) : bool := match c with Gt => false | _ => true end.
Definition cmp_ge (c : comparison) : bool := match c with Lt => false | _ => true end.

(* rows of the collection in primary-key order *)
Definition live_rows (st : state) : list lrow :=
  isort (fun a b => cmp_le (bcmp (l_id a) (l_id b))) (lives (st_docs st)).

(* value of a column in a row; None: no such column (ErrFieldDoesNotExist / column does not exist) *)
Definition col_val (sch : schema) (r : lrow) (name : bytes) : option cv :=
  if bytes_eqb name (s_id sch) then Some (CBlob (l_id r))
  else match find_field sch name with
       | Some f => Some (row_get (l_row r) (f_col f))
       | None => None
       end.
Definition col_val0 (sch : schema) (r : lrow) (name : bytes) : cv :=
  match col_val sch r name with Some v => v | None => CNull end.
Definition col_exists (sch : schema) (name : bytes) : bool :=
  bytes_eqb name (s_id sch) || match find_field sch name with Some _ => true | None => false end.

(* ------------------------------------------------------------------------------------------ *)
(* queries                                                                                     *)
Record cmpx := mkc { c_field : bytes; c_op : cop; c_val : jv }.
Record query := mkq { q_groups : list (list cmpx); q_order : list (bytes * bool); q_limit : N }.
Record ccmp := mkcc { cc_field : bytes; cc_op : cop; cc_val : cv }.

(* generateSQLFilteringExpression: constants converted by the type of the column; `kf` converts
   a constant for a typed field (conv_field for the engine) *)
Definition conv_cmp_with (kf : ftype -> jv -> res cv) (sch : schema) (c : cmpx) : res ccmp :=
  if bytes_eqb (c_field c) (s_id sch) then
    do v <- conv_id (c_val c); Ok (mkcc (c_field c) (c_op c) v)
  else match find_field sch (c_field c) with
       | Some f => do v <- kf (f_type f) (c_val c); Ok (mkcc (c_field c) (c_op c) v)
       | None => Err ENoField
       end.
Fixpoint mapres {A B} (f : A -> res B) (l : list A) : res (list B) :=
  match l with
  | [] => Ok []
  | x :: r => do y <- f x; do t <- mapres f r; Ok (y :: t)
  end.
Definition conv_group_with kf (sch : schema) (g : list cmpx) : res (list ccmp) :=
  match g with [] => Err EArgs | _ => mapres (conv_cmp_with kf sch) g end.
Definition conv_groups_with kf (sch : schema) (gs : list (list cmpx)) : res (list (list ccmp)) :=
  mapres (conv_group_with kf sch) gs.
Definition conv_groups := conv_groups_with conv_field.

Definition check_order (sch : schema) (ord : list (bytes * bool)) : res unit :=
  if forallb (fun o => col_exists sch (fst o)) ord then Ok tt else Err ENoField.

Definition eval_cmp (val : lrow -> bytes -> cv) (r : lrow) (c : ccmp) : bool :=
  sat (cv_cmp (val r (cc_field c)) (cc_val c)) (cc_op c).
Definition eval_where (val : lrow -> bytes -> cv) (gs : list (list ccmp)) (r : lrow) : bool :=
  match gs with [] => true | _ => existsb (forallb (eval_cmp val r)) gs end.

(* ---- value ranges per column (selectorRanges / updateRangeFor / refineWith / extendWith) ---- *)
Definition semi := (cv * bool)%type.
Record range := mkr { r_lo : option semi; r_hi : option semi }.
Definition rmap := list (bytes * range).

Definition cmp_range (o : cop) (v : cv) : option range :=
  match o with
  | OpEQ => Some (mkr (Some (v, true)) (Some (v, true)))
  | OpLT => Some (mkr None (Some (v, false)))
  | OpLE => Some (mkr None (Some (v, true)))
  | OpGT => Some (mkr (Some (v, false)) None)
  | OpGE => Some (mkr (Some (v, true)) None)
  | OpNE => None
  end.
Definition max_semi (a b : semi) : semi :=
  ((match cv_cmp (fst a) (fst b) with Lt => fst b | _ => fst a end), snd a && snd b).
Definition min_semi (a b : semi) : semi :=
  ((match cv_cmp (fst a) (fst b) with Gt => fst b | _ => fst a end), snd a || snd b).
Definition refine (r n : range) : range :=
  mkr (match r_lo r, r_lo n with
       | None, x => x
       | Some a, Some b => Some (max_semi a b)
       | Some a, None => Some a
       end)
      (match r_hi r, r_hi n with
       | None, x => x
       | Some a, Some b => Some (min_semi a b)
       | Some a, None => Some a
       end).
Definition extend (r n : range) : range :=
  mkr (match r_lo r, r_lo n with Some a, Some b => Some (min_semi a b) | _, _ => None end)
      (match r_hi r, r_hi n with Some a, Some b => Some (max_semi a b) | _, _ => None end).
Definition unitary (r : range) : bool :=
  match r_lo r, r_hi r with
  | Some (a, ia), Some (b, ib) => match cv_cmp a b with Eq => ia && ib | _ => false end
  | _, _ => false
  end.

Fixpoint rmap_get (m : rmap) (k : bytes) : option range :=
  match m with [] => None | (k', r) :: t => if bytes_eqb k k' then Some r else rmap_get t k end.
Fixpoint rmap_set (m : rmap) (k : bytes) (r : range) : rmap :=
  match m with
  | [] => [(k, r)]
  | (k', r') :: t => if bytes_eqb k k' then (k, r) :: t else (k', r') :: rmap_set t k r
  end.

Definition group_ranges (g : list ccmp) : rmap :=
  fold_left (fun m c =>
    match cmp_range (cc_op c) (cc_val c) with
    | None => m
    | Some nr =>
        match rmap_get m (cc_field c) with
        | None => rmap_set m (cc_field c) nr
        | Some curr => rmap_set m (cc_field c) (refine curr nr)
        end
    end) g [].
Definition or_ranges (l r : rmap) : rmap :=
  flat_map (fun kr => match rmap_get r (fst kr) with
                      | Some rr => [(fst kr, extend (snd kr) rr)]
                      | None => []
                      end) l.
Definition where_ranges (gs : list (list ccmp)) : rmap :=
  match gs with
  | [] => []
  | g :: gs' => fold_left (fun acc g' => or_ranges acc (group_ranges g')) gs' (group_ranges g)
  end.

(* ---- index choice (genScanSpecs: selectSortingIndex, selectINLJIndex) ---- *)
Definition same_dir (ord : list (bytes * bool)) : bool :=
  match ord with [] => true | (_, d) :: r => forallb (fun o => Bool.eqb (snd o) d) r end.
Fixpoint has_prefix (cols : list bytes) (ord : list (bytes * bool)) : bool :=
  match ord, cols with
  | [], _ => true
  | _ :: _, [] => false
  | (f, _) :: o', c :: cs => bytes_eqb f c && has_prefix cs o'
  end.
Fixpoint sortable_using (cols : list bytes) (ord : list (bytes * bool)) (rm : rmap) : bool :=
  match ord with
  | [] => false
  | (f0, _) :: _ =>
      match cols with
      | [] => false
      | c :: cs =>
          if bytes_eqb c f0 then has_prefix cols ord
          else match rmap_get rm c with
               | Some r => if unitary r then sortable_using cs ord rm else false
               | None => false
               end
      end
  end.
Definition covers (cols : list bytes) (ord : list (bytes * bool)) (rm : rmap) : bool :=
  same_dir ord && (has_prefix cols ord || sortable_using cols ord rm).
Fixpoint count_eq (cols : list bytes) (rm : rmap) : nat :=
  match cols with
  | [] => O
  | c :: cs => match rmap_get rm c with
               | Some r => if unitary r then S (count_eq cs rm) else O
               | None => O
               end
  end.
Definition primary_cols (sch : schema) : list bytes := [s_id sch].
Fixpoint best_inlj (ixs : list index) (rm : rmap) (best : option (list bytes)) (bestn : nat) : option (list bytes) :=
  match ixs with
  | [] => best
  | ix :: r => let n := count_eq (ix_cols ix) rm in
               if (bestn <? n)%nat then best_inlj r rm (Some (ix_cols ix)) n else best_inlj r rm best bestn
  end.
(* columns of the index the scan runs on *)
Definition choose_index (sch : schema) (ord : list (bytes * bool)) (rm : rmap) : list bytes :=
  let all := primary_cols sch :: map ix_cols (s_indexes sch) in
  let sorting := match ord with
                 | [] => None
                 | _ => find (fun cols => covers cols ord rm) all
                 end in
  match sorting with
  | Some cols => if list_eqb bytes_eqb cols (primary_cols sch)
                 then match best_inlj (s_indexes sch) rm None O with Some c => c | None => cols end
                 else cols
  | None => match best_inlj (s_indexes sch) rm None O with Some c => c | None => primary_cols sch end
  end.

(* ---- key range of the scan (keyReaderSpecFrom): both ends inclusive, prefix-wise ---- *)
Fixpoint key_bounds (cols : list bytes) (rm : rmap) (lo_ready hi_ready : bool) : list cv * list cv :=
  match cols with
  | [] => ([], [])
  | c :: cs =>
      match rmap_get rm c with
      | None => ([], [])
      | Some r =>
          let hi_here := if hi_ready then None else option_map fst (r_hi r) in
          let hi_ready' := hi_ready || match r_hi r with None => true | Some _ => false end in
          let lo_here := if lo_ready then None else option_map fst (r_lo r) in
          let lo_ready' := lo_ready || match r_lo r with None => true | Some _ => false end in
          let '(los, his) := key_bounds cs rm lo_ready' hi_ready' in
          ((match lo_here with Some v => v :: los | None => los end),
           (match hi_here with Some v => v :: his | None => his end))
      end
  end.
(* compares the leading |b| components of the row key with the bound b, in key order *)
Fixpoint lex_cmp (nz : bool) (k b : list cv) : comparison :=
  match b, k with
  | [], _ => Eq
  | _ :: _, [] => Eq
  | y :: b', x :: k' => match cv_kcmp nz x y with Eq => lex_cmp nz k' b' | c => c end
  end.
Definition in_range (nz : bool) (k lo hi : list cv) : bool :=
  cmp_ge (lex_cmp nz k lo) && cmp_le (lex_cmp nz k hi).

(* ---- ordering and paging ---- *)
Fixpoint ord_cmp (val : lrow -> bytes -> cv) (ord : list (bytes * bool)) (a b : lrow) : comparison :=
  match ord with
  | [] => Eq
  | (f, desc) :: o' =>
      let c := cv_cmp (val a f) (val b f) in
      match (if desc then CompOpp c else c) with
      | Eq => ord_cmp val o' a b
      | c' => c'
      end
  end.
Definition page {A} (off lim : N) (l : list A) : list A :=
  let l' := skipn (N.to_nat off) l in
  if lim =? 0 then l' else firstn (N.to_nat lim) l'.

(* ---- the engine's evaluation of a query: rows before paging (sorted) ---- *)
Definition engine_matched (st : state) (q : query) : res (list lrow) :=
  let sch := st_sch st in
  do gs <- conv_groups sch (q_groups q);
  do _ <- check_order sch (q_order q);
  let rm := where_ranges gs in
  let cols := choose_index sch (q_order q) rm in
  let '(lo, hi) := key_bounds cols rm false false in
  let val := col_val0 sch in
  let scanned := filter (fun r => in_range (s_nz sch) (map (val r) cols) lo hi) (live_rows st) in
  let matched := filter (eval_where val gs) scanned in
  Ok (isort (fun a b => cmp_le (ord_cmp val (q_order q) a b)) matched).
Definition engine_search (st : state) (q : query) (off : N) : res (list lrow) :=
  do m <- engine_matched st q; Ok (page off (q_limit q) m).

(* ------------------------------------------------------------------------------------------ *)
(* SPEC: the same query evaluated on the stored JSON payloads                                   *)
Definition spec_conv (t : ftype) (v : jv) : res cv :=
  match t, v with
  | TInt, JNum n => if int_exactb n then Ok (CDbl n) else Err EUnexpected   (* the number itself *)
  | _, _ => conv_field t v
  end.
Definition spec_val (sch : schema) (r : lrow) (name : bytes) : cv :=
  if bytes_eqb name (s_id sch) then CBlob (l_id r)
  else match find_field sch name with
       | Some f => match doc_field (l_doc r) name with
                   | Some v => match spec_conv (f_type f) v with Ok c => c | _ => CNull end
                   | None => CNull
                   end
       | None => CNull
       end.
Definition spec_matched (st : state) (q : query) : res (list lrow) :=
  let sch := st_sch st in
  do gs <- conv_groups_with spec_conv sch (q_groups q);
  do _ <- check_order sch (q_order q);
  let val := spec_val sch in
  Ok (isort (fun a b => cmp_le (ord_cmp val (q_order q) a b)) (filter (eval_where val gs) (live_rows st))).
Definition spec_search (st : state) (q : query) (off : N) : res (list lrow) :=
  do m <- spec_matched st q; Ok (page off (q_limit q) m).

(* ------------------------------------------------------------------------------------------ *)
(* unique indexes: the check of doUpsert reads the FIRST key having the value prefix            *)
Definition tuple_of (sch : schema) (cols : list bytes) (id : bytes) (r : row) : list cv :=
  map (col_val0 sch (mkl id JNull r)) cols.
Definition tuple_eqb (nz : bool) (a b : list cv) : bool :=
  list_eqb (fun x y => match cv_kcmp nz x y with Eq => true | _ => false end) a b.

Definition holds_now (sch : schema) (cols : list bytes) (t : list cv) (d : drec) : bool :=
  match cur d with Some l => tuple_eqb (s_nz sch) (tuple_of sch cols (l_id l) (l_row l)) t | None => false end.
(* doUpsert (existsLiveKeyWithPrefix): every live entry under the value prefix counts;
   true = the write is allowed *)
Definition uniq_check1 (sch : schema) (cols : list bytes) (t : list cv) (all : list drec) : bool :=
  negb (existsb (holds_now sch cols t) all).

Definition find_doc (ds : list drec) (id : bytes) : option drec :=
  find (fun d => bytes_eqb (d_id d) id) ds.

(* tuples for which this transaction already placed its (transient) entry under the bare value
   prefix: a second document with the same tuple in the same operation finds that entry *)
Definition pending := list (list bytes * list cv).
Definition pend_has (nz : bool) (pd : pending) (cols : list bytes) (t : list cv) : bool :=
  existsb (fun e => list_eqb bytes_eqb (fst e) cols && tuple_eqb nz (snd e) t) pd.

(* the unique checks of one upsert of (id, r): Some pd' = allowed, with the pending entries *)
Fixpoint uniq_checks_ix (st : state) (is_insert : bool) (id : bytes) (r : row) (ixs : list index)
         (pd : pending) : option pending :=
  match ixs with
  | [] => Some pd
  | ix :: rest =>
      if ix_unique ix then
        let sch := st_sch st in
        let t := tuple_of sch (ix_cols ix) id r in
        let same := match find_doc (st_docs st) id with
                    | Some d => (negb is_insert) && holds_now sch (ix_cols ix) t d   (* reusable entry *)
                    | None => false
                    end in
        if same then uniq_checks_ix st is_insert id r rest pd
        else if pend_has (s_nz sch) pd (ix_cols ix) t then None
        else if uniq_check1 sch (ix_cols ix) t (st_docs st)
             then uniq_checks_ix st is_insert id r rest ((ix_cols ix, t) :: pd)
             else None
      else uniq_checks_ix st is_insert id r rest pd
  end.
Definition uniq_checks (st : state) (is_insert : bool) (id : bytes) (r : row) (pd : pending) : option pending :=
  uniq_checks_ix st is_insert id r (s_indexes (st_sch st)) pd.

Fixpoint put_version (ds : list drec) (id : bytes) (v : version) : list drec :=
  match ds with
  | [] => [mkd id [v]]
  | d :: r => if bytes_eqb (d_id d) id then mkd id (d_vers d ++ [v]) :: r else d :: put_version r id v
  end.

(* ------------------------------------------------------------------------------------------ *)
(* operations                                                                                  *)
Definition doc_blob : bytes := [95; 100; 111; 99].   (* "_doc" *)

Definition has_key (doc : jv) (k : bytes) : bool :=
  match assoc k (doc_fields doc) with Some _ => true | None => false end.
Definition with_id (sch : schema) (doc : jv) (id : bytes) : jv :=
  JObj (obj_set (s_id sch) (JStr (hex_encode id)) (doc_fields doc)).

(* one upsert inside a transaction (upsertDocuments + doUpsert) *)
Definition upsert1 (st : state) (is_insert : bool) (id : bytes) (payload : jv) (pd : pending)
  : res (state * pending) :=
  do r <- gen_row (s_fields (st_sch st)) payload;
  if is_insert && match find_doc (st_docs st) id with Some _ => true | None => false end then Err EExists
  else match uniq_checks st is_insert id r pd with
       | Some pd' => Ok (mkst (st_sch st) (put_version (st_docs st) id (VPut payload r)), pd')
       | None => Err EConflict
       end.

Fixpoint insert_all (st : state) (l : list (bytes * jv)) (pd : pending) : res state :=
  match l with
  | [] => Ok st
  | (id, doc) :: r =>
      if has_key doc doc_blob then Err EArgs
      else if has_key doc (s_id (st_sch st)) then Err EArgs
      else do sp <- upsert1 st true id (with_id (st_sch st) doc id) pd; insert_all (fst sp) r (snd sp)
  end.

Fixpoint replace_all (st : state) (ids : list bytes) (doc : jv) (pd : pending) : res state :=
  match ids with
  | [] => Ok st
  | id :: r => do sp <- upsert1 st false id (with_id (st_sch st) doc id) pd; replace_all (fst sp) r doc (snd sp)
  end.

(* ReplaceDocuments: the id comparison injected when the document carries its id *)
Definition inject_id (sch : schema) (doc : jv) (q : query) : query :=
  match assoc (s_id sch) (doc_fields doc) with
  | Some v =>
      let c := mkc (s_id sch) OpEQ v in
      mkq (match q_groups q with [] => [[c]] | gs => map (fun g => c :: g) gs end) (q_order q) (q_limit q)
  | None => q
  end.

Definition rev_of (st : state) (id : bytes) : N :=
  match find_doc (st_docs st) id with Some d => N.of_nat (length (d_vers d)) | None => 0 end.

Inductive op :=
| OInsert (l : list (bytes * jv))                      (* ids as generated by the engine *)
| OReplace (q : query) (doc : jv)
| ODelete (q : query)
| OAddField (name : bytes) (t : ftype)
| ORemoveField (name : bytes)
| OCreateIndex (cols : list bytes) (uniq : bool)
| ODeleteIndex (cols : list bytes)
| OSearch (q : query) (off : N)
| OCount (q : query) (off : N)
| OGet (id : bytes)
| OAudit (id : bytes) (desc : bool) (off lim : N).

Inductive out :=
| XErr
| XOk
| XWritten (l : list (bytes * N))                      (* (id, revision) of every document written *)
| XRows (pre : list lrow) (key : lrow -> lrow -> comparison) (off lim : N)
                                                       (* sorted matches before paging, their sort key, the page asked *)
| XGet (rev : N) (payload : jv)
| XAudit (l : list (N * option jv)).

(* CreateIndexStmt: every entry of the index has the key
     prefix | M. | table id | index id | encoded column values | encoded primary key
   (VARCHAR/BLOB values padded to the column length), which must fit the store's key length *)
Definition max_key_len : N := 1024.
Definition enc_key_len (t : ftype) : N :=
  match t with
  | TStr => 1 + max_varchar + 4
  | TInt | TDbl => 9
  | TBool => 2
  | TUuid => 17
  end.
Definition id_key_len : N := 1 + 32 + 4.        (* the document id column: BLOB[32] *)
Definition entry_key_len (sch : schema) (cols : list bytes) : N :=
  fold_left (fun acc c =>
               acc + (if bytes_eqb c (s_id sch) then id_key_len
                      else match find_field sch c with Some f => enc_key_len (f_type f) | None => 0 end))
            cols (1 + 2 + 4 + 4) + id_key_len.

Definition index_eqb (cols : list bytes) (ix : index) : bool := list_eqb bytes_eqb cols (ix_cols ix).

Fixpoint number_from (n : N) (vs : list version) : list (N * option jv) :=
  match vs with
  | [] => []
  | v :: r => (n, match v with VPut p _ => Some p | VDel => None end) :: number_from (n + 1) r
  end.

Definition step (st : state) (o : op) : state * out :=
  let sch := st_sch st in
  match o with
  | OInsert l =>
      match l with
      | [] => (st, XErr)
      | _ => match insert_all st l [] with
             | Ok st' => (st', XWritten (map (fun p => (fst p, rev_of st' (fst p))) l))
             | _ => (st, XErr)
             end
      end
  | OReplace q doc =>
      match engine_search st (inject_id sch doc q) 0 with
      | Ok rows =>
          let ids := map l_id rows in
          match replace_all st ids doc [] with
          | Ok st' => (st', XWritten (map (fun id => (id, rev_of st' id)) ids))
          | _ => (st, XErr)
          end
      | _ => (st, XErr)
      end
  | ODelete q =>
      match engine_search st q 0 with
      | Ok rows =>
          let ids := map l_id rows in
          let st' := mkst sch (fold_left (fun ds id => put_version ds id VDel) ids (st_docs st)) in
          (st', XWritten (map (fun id => (id, rev_of st' id)) ids))
      | _ => (st, XErr)
      end
  | OAddField name t =>
      if col_exists sch name || bytes_eqb name doc_blob then (st, XErr)
      else (mkst (mksch (s_id sch) (s_fields sch ++ [mkf name t (s_next sch)]) (s_indexes sch) (s_next sch + 1) (s_nz sch))
                 (st_docs st), XOk)
  | ORemoveField name =>
      match find_field sch name with
      | Some _ =>
          if existsb (fun ix => existsb (bytes_eqb name) (ix_cols ix)) (s_indexes sch) then (st, XErr)
          else (mkst (mksch (s_id sch) (filter (fun f => negb (bytes_eqb (f_name f) name)) (s_fields sch))
                            (s_indexes sch) (s_next sch) (s_nz sch)) (st_docs st), XOk)
      | None => (st, XErr)
      end
  | OCreateIndex cols uniq =>
      match cols with
      | [] => (st, XErr)
      | _ =>
          if negb (forallb (col_exists sch) cols) || existsb (index_eqb cols) (s_indexes sch)
             || list_eqb bytes_eqb cols (primary_cols sch)
             || (uniq && match lives (st_docs st) with [] => false | _ => true end)
             || (max_key_len <? entry_key_len sch cols)
          then (st, XErr)
          else (mkst (mksch (s_id sch) (s_fields sch) (s_indexes sch ++ [mkix cols uniq]) (s_next sch) (s_nz sch))
                     (st_docs st), XOk)
      end
  | ODeleteIndex cols =>
      if existsb (index_eqb cols) (s_indexes sch)
      then (mkst (mksch (s_id sch) (s_fields sch) (filter (fun ix => negb (index_eqb cols ix)) (s_indexes sch))
                        (s_next sch) (s_nz sch)) (st_docs st), XOk)
      else (st, XErr)
  | OSearch q off | OCount q off =>
      match engine_matched st q with
      | Ok m => (st, XRows m (ord_cmp (col_val0 sch) (q_order q)) off (q_limit q))
      | _ => (st, XErr)
      end
  | OGet id =>
      match find_doc (st_docs st) id with
      | Some d => match cur d with
                  | Some l => (st, XGet (N.of_nat (length (d_vers d))) (l_doc l))
                  | None => (st, XErr)
                  end
      | None => (st, XErr)
      end
  | OAudit id desc off lim =>
      match find_doc (st_docs st) id with
      | Some d =>
          let all := number_from 1 (d_vers d) in
          if (N.of_nat (length all) <=? off) || (lim =? 0) then (st, XErr)
          else (st, XAudit (firstn (N.to_nat lim) (skipn (N.to_nat off) (if desc then rev all else all))))
      | None => (st, XErr)
      end
  end.

Fixpoint run (st : state) (ops : list op) : state * list out :=
  match ops with
  | [] => (st, [])
  | o :: r => let '(st1, x) := step st o in let '(st2, xs) := run st1 r in (st2, x :: xs)
  end.

(* CreateCollection *)
Definition new_schema (nz : bool) (idname : bytes) (fs : list (bytes * ftype)) (ixs : list index) : schema :=
  mksch idname
        ((fix go (n : N) (l : list (bytes * ftype)) : list field :=
            match l with [] => [] | (nm, t) :: r => mkf nm t n :: go (n + 1) r end) 3 fs)
        ixs (3 + N.of_nat (length fs)) nz.
Definition init (sch : schema) : state := mkst sch [].

(* ------------------------------------------------------------------------------------------ *)
(* predicates used by the theorems                                                             *)
Fixpoint pairwise {A} (p : A -> A -> bool) (l : list A) : bool :=
  match l with [] => true | x :: r => forallb (p x) r && pairwise p r end.

Definition row_tuple (sch : schema) (cols : list bytes) (r : lrow) : list cv :=
  tuple_of sch cols (l_id r) (l_row r).

(* no two live documents share the tuple of a unique index *)
Definition uniq_okb (st : state) : bool :=
  let sch := st_sch st in
  forallb (fun ix =>
    negb (ix_unique ix) ||
    pairwise (fun a b => negb (tuple_eqb (s_nz sch) (row_tuple sch (ix_cols ix) a) (row_tuple sch (ix_cols ix) b)))
             (lives (st_docs st)))
    (s_indexes sch).

(* operations that leave the set of typed fields as it is *)
Definition keeps_fields (o : op) : bool :=
  match o with
  | OAddField _ _ | ORemoveField _ => false
  | _ => true
  end.
