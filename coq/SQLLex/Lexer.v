(* embedded/sql/parser.go, lexer.Lex: how far each call advances in the statement text.
   Only the scanning is modelled (which bytes a token takes), not the token values: the comment
   loops, line comments, string / blob literals with doubled quotes, quoted identifiers, words,
   numbers, comparison operators, casts, arrows and the three parameter styles with the lexer's
   named / positional / unnamed state (which decides whether '@' and '$' read on).
   The aheadByteReader holds one byte ahead: nextChar is the head of the remaining input, 0 at the
   end.  Loops that in Go end by "err == io.EOF -> break/return" are the [] cases here. *)
From V Require Export Base.Bytes.

Definition is_letter (c : N) : bool :=
  ((97 <=? c) && (c <=? 122)) || ((65 <=? c) && (c <=? 90)) || (c =? 95).
Definition is_number (c : N) : bool := (48 <=? c) && (c <=? 57).
Definition is_cmp (c : N) : bool := (c =? 33) || (c =? 60) || (c =? 61) || (c =? 62) || (c =? 126).
Definition is_linebreak (c : N) : bool := (c =? 13) || (c =? 10).
Definition is_space (c : N) : bool := (c =? 32) || (c =? 9).
Definition next_is (s : bytes) (c : N) : bool := match s with x :: _ => x =? c | [] => false end.

(* block comment body: up to and including the closing star-slash, or to the end of the input *)
Fixpoint skip_block (s : bytes) : bytes :=
  match s with
  | [] => []                                               (* err == io.EOF: break *)
  | c :: r => if (c =? 42) && next_is r 47 then tl r else skip_block r
  end.

(* line comment body: up to and including the first line-break byte *)
Fixpoint skip_line (s : bytes) : bytes :=
  match s with
  | [] => []
  | c :: r => if is_linebreak c then r else skip_line r
  end.

(* readWhile(cond): the accepted bytes, the rest *)
Fixpoint read_while (cond : N -> bool) (s : bytes) : bytes * bytes :=
  match s with
  | [] => ([], [])
  | c :: r => if cond c then let '(w, r') := read_while cond r in (c :: w, r') else ([], s)
  end.

(* readString: behind the opening quote; a doubled quote is one character; the end of the input
   is an error that has consumed everything *)
Fixpoint read_string (s : bytes) : bytes :=
  match s with
  | [] => []
  | c :: r =>
      if c =? 39 then
        match r with
        | q :: r' => if q =? 39 then read_string r' else r
        | [] => r
        end
      else read_string r
  end.

Inductive skipped := SkEOF | SkTok (c : N) (rest : bytes) | SkFuel.

(* the leading loop of Lex: tabs, spaces, line breaks, comments *)
Fixpoint lex_skip (fuel : nat) (s : bytes) : skipped :=
  match fuel with
  | O => SkFuel
  | S f =>
    match s with
    | [] => SkEOF
    | c :: r =>
      if c =? 9 then lex_skip f r
      else if (c =? 47) && next_is r 42 then lex_skip f (skip_block (tl r))
      else if (c =? 45) && next_is r 45 then lex_skip f (skip_line (tl r))
      else if is_linebreak c then
        lex_skip f (if (c =? 13) && next_is r 10 then tl r else r)
      else if is_space c then lex_skip f r
      else SkTok c r
    end
  end.

(* decimal value of a digit string (strconv.Atoi succeeds up to 2^63-1) *)
Definition dec_value (w : bytes) : N := fold_left (fun a d => a * 10 + (d - 48)) w 0.

(* parameter style seen so far: 0 none, 1 named (@x), 2 positional ($1), 3 unnamed (?) *)
(* one call of Lex: None at the end of the input, else (style, remaining input) *)
(* the token behind the skipped prefix: c is its first byte, r what follows *)
Definition lex_tok (pt : N) (c : N) (r : bytes) : N * bytes :=
    if (c =? 45) && next_is r 62 then (pt, tl r)                          (* -> *)
    else if (c =? 120) && next_is r 39 then (pt, read_string (tl r))      (* x'..' *)
    else if is_letter c then (pt, snd (read_while (fun x => is_letter x || is_number x) r))
    else if c =? 34 then                                                   (* "ident" *)
      let r1 := snd (read_while (fun x => is_letter x || is_number x) r) in
      (pt, if next_is r1 34 then tl r1 else r1)
    else if is_number c then
      let r1 := snd (read_while is_number r) in
      (pt, if next_is r1 46 then snd (read_while is_number (tl r1)) else r1)
    else if is_cmp c then (pt, snd (read_while is_cmp r))
    else if c =? 39 then (pt, read_string r)
    else if c =? 58 then (pt, tl r)                                        (* ':' reads one more byte *)
    else if c =? 64 then                                                   (* @name *)
      if (pt =? 3) || (pt =? 2) then (pt, r)
      else (1, match r with
               | x :: _ => if is_letter x then snd (read_while (fun y => is_letter y || is_number y) r) else r
               | [] => r end)
    else if c =? 36 then                                                   (* $n *)
      if (pt =? 3) || (pt =? 1) then (pt, r)
      else let '(w, r1) := read_while is_number r in
           let ok := negb (len w =? 0) && (1 <=? dec_value w) && (dec_value w <=? 9223372036854775807) in
           (if ok then 2 else pt, r1)
    else if c =? 63 then (if (pt =? 1) || (pt =? 2) then pt else 3, r)    (* ? *)
    else if c =? 46 then (pt, if match r with x :: _ => is_number x | [] => false end
                              then snd (read_while is_number r) else r)
    else (pt, r).

Definition lex_one (pt : N) (s : bytes) : option (N * bytes) :=
  match lex_skip (S (length s)) s with
  | SkEOF | SkFuel => None
  | SkTok c r => Some (lex_tok pt c r)
  end.

(* Lex called until it reports the end of the input: bytes consumed after each call *)
Fixpoint lex_all (fuel : nat) (total : N) (pt : N) (s : bytes) (acc : list N) : option (list N) :=
  match fuel with
  | O => None
  | S f =>
    match lex_one pt s with
    | None => Some (rev acc)
    | Some (pt', s') => lex_all f total pt' s' ((total - len s') :: acc)
    end
  end.

Definition lex_positions (s : bytes) : option (list N) := lex_all (S (length s)) (len s) 0 s [].
