(* The scanning loops of the SQL lexer end: every call of Lex takes at least one byte or reports
   the end of the input, within the fuel |input|+1; hence lexing a whole text ends. *)
From V Require Import SQLLex.Lexer.
From Coq Require Import ZifyN ZifyNat ZifyBool.

Lemma len_cons (c : N) r : len (c :: r) = len r + 1.
Proof. unfold len. simpl length. lia. Qed.
Lemma len_tl (s : bytes) : len (tl s) <= len s.
Proof. destruct s; simpl; [lia|rewrite len_cons; lia]. Qed.

Lemma skip_block_le s : len (skip_block s) <= len s.
Proof.
  induction s as [|c r IH]; simpl; [lia|]. rewrite len_cons.
  destruct ((c =? 42) && next_is r 47); [pose proof (len_tl r); lia|lia].
Qed.
Lemma skip_line_le s : len (skip_line s) <= len s.
Proof. induction s as [|c r IH]; simpl; [lia|]. rewrite len_cons. destruct (is_linebreak c); lia. Qed.
Lemma read_while_le cond s : len (snd (read_while cond s)) <= len s.
Proof.
  induction s as [|c r IH]; simpl; [lia|]. destruct (cond c); [|simpl; lia].
  destruct (read_while cond r) as [w r'] eqn:E. simpl in *. rewrite len_cons. lia.
Qed.
Lemma read_string_le s : forall n, (length s <= n)%nat -> len (read_string s) <= len s.
Proof.
  intros n; revert s; induction n as [|n IH]; intros s Hn.
  - destruct s; [simpl; lia|simpl in Hn; lia].
  - destruct s as [|c r]; [simpl; lia|]. simpl in Hn. cbn [read_string]. rewrite len_cons.
    destruct (c =? 39).
    + destruct r as [|q r']; [lia|]. rewrite len_cons. simpl in Hn.
      destruct (q =? 39); [specialize (IH r' ltac:(lia)); lia|rewrite len_cons; lia].
    + specialize (IH r ltac:(lia)). lia.
Qed.
Lemma read_string_le' s : len (read_string s) <= len s.
Proof. apply (read_string_le s (length s)). lia. Qed.

Lemma lex_skip_spec fuel : forall s, (length s < fuel)%nat ->
  lex_skip fuel s <> SkFuel /\ (forall c r, lex_skip fuel s = SkTok c r -> len r + 1 <= len s).
Proof.
  induction fuel as [|f IH]; intros s Hf; [lia|].
  destruct s as [|c r]; cbn [lex_skip]; [split; [discriminate|intros; discriminate]|].
  simpl in Hf. rewrite len_cons.
  assert (G : forall s', len s' <= len r ->
            lex_skip f s' <> SkFuel /\ (forall c0 r0, lex_skip f s' = SkTok c0 r0 -> len r0 + 1 <= len r + 1)).
  { intros s' Hs'. destruct (IH s') as [A B]; [unfold len in *; lia|]. split; [exact A|].
    intros c0 r0 E. specialize (B c0 r0 E). lia. }
  destruct (c =? 9); [apply G; lia|].
  destruct ((c =? 47) && next_is r 42).
  { apply G. pose proof (skip_block_le (tl r)). pose proof (len_tl r). lia. }
  destruct ((c =? 45) && next_is r 45).
  { apply G. pose proof (skip_line_le (tl r)). pose proof (len_tl r). lia. }
  destruct (is_linebreak c).
  { apply G. destruct ((c =? 13) && next_is r 10); [apply len_tl|lia]. }
  destruct (is_space c); [apply G; lia|].
  split; [discriminate|]. intros c0 r0 E. assert (r0 = r) by congruence. subst. lia.
Qed.

Lemma read_while_pair cond s w r : read_while cond s = (w, r) -> len r <= len s.
Proof. intros E. pose proof (read_while_le cond s). rewrite E in H. exact H. Qed.

Lemma lex_tok_le pt c r : len (snd (lex_tok pt c r)) <= len r.
Proof.
  unfold lex_tok.
  pose proof (len_tl r) as T.
  pose proof (read_string_le' r) as RS. pose proof (read_string_le' (tl r)) as RS2.
  pose proof (read_while_le (fun x => is_letter x || is_number x) r) as RW.
  pose proof (read_while_le is_number r) as RN. pose proof (read_while_le is_cmp r) as RC.
  pose proof (len_tl (snd (read_while (fun x => is_letter x || is_number x) r))) as T1.
  pose proof (len_tl (snd (read_while is_number r))) as T2.
  pose proof (read_while_le is_number (tl (snd (read_while is_number r)))) as RN2.
  repeat match goal with
  | |- context [if ?b then _ else _] => destruct b
  end; cbn [snd]; try lia.
  all: try (destruct r as [|x r']; cbn [snd]; try lia; destruct (is_letter x); cbn [snd]; lia).
  all: try (destruct (read_while is_number r) as [w r1] eqn:E; apply read_while_pair in E;
            repeat match goal with |- context [if ?b then _ else _] => destruct b end; cbn [snd]; lia).
  all: try (destruct r as [|x r']; cbn [snd]; try lia; destruct (is_number x); cbn [snd]; lia).
Qed.

(* every call of Lex takes at least one byte *)
Theorem lex_one_progress pt s pt' s' : lex_one pt s = Some (pt', s') -> len s' + 1 <= len s.
Proof.
  unfold lex_one. destruct (lex_skip_spec (S (length s)) s) as [A B]; [lia|].
  destruct (lex_skip (S (length s)) s) as [|c r|]; try discriminate.
  specialize (B c r eq_refl). intros E.
  pose proof (lex_tok_le pt c r) as H. assert (lex_tok pt c r = (pt', s')) by congruence.
  rewrite H0 in H. cbn [snd] in H. lia.
Qed.

(* the skipping loop never exhausts the fuel |input|+1 *)
Theorem lex_skip_terminates s : lex_skip (S (length s)) s <> SkFuel.
Proof. apply lex_skip_spec. lia. Qed.

(* lexing a whole text ends within |text|+1 calls *)
Lemma lex_all_total fuel : forall total pt s acc, (length s < fuel)%nat -> lex_all fuel total pt s acc <> None.
Proof.
  induction fuel as [|f IH]; intros total pt s acc Hf; [lia|]. cbn [lex_all].
  destruct (lex_one pt s) as [[pt' s']|] eqn:E; [|discriminate].
  apply lex_one_progress in E. apply IH. unfold len in E. lia.
Qed.
Theorem lex_positions_total s : lex_positions s <> None.
Proof. unfold lex_positions. apply lex_all_total. lia. Qed.
