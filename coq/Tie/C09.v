(* correspondence glue for C09: the model readers run with the executable SHA-256 on the bytes the
   Go harness found in (corrupted copies of) real store directories *)
From V Require Export Base.Hex Store.Codec Corrupt.TxRecord Merkle.Sha256.

Definition txmd_eqb (a b : txmd) : bool :=
  opt_eqb N.eqb (md_trunc a) (md_trunc b) && opt_eqb bytes_eqb (md_extra a) (md_extra b).
Definition kvmd_eqb (a b : kvmd) : bool :=
  Bool.eqb (kv_deleted a) (kv_deleted b) && opt_eqb N.eqb (kv_expires a) (kv_expires b) &&
  Bool.eqb (kv_nonindexable a) (kv_nonindexable b).
(* a nil metadata pointer and an empty metadata object are the same observable *)
Definition omd_norm (m : option txmd) : txmd := match m with Some m => m | None => txmd_empty end.
Definition okvmd_norm (m : option kvmd) : kvmd := match m with Some m => m | None => kvmd_empty end.
Definition txhdr_eqb (a b : txhdr) : bool :=
  (h_id a =? h_id b) && bytes_eqb (h_prevalh a) (h_prevalh b) && (h_ts a =? h_ts b) &&
  (h_version a =? h_version b) && txmd_eqb (omd_norm (h_md a)) (omd_norm (h_md b)) &&
  (h_nentries a =? h_nentries b) && bytes_eqb (h_eh a) (h_eh b) && (h_bltxid a =? h_bltxid b) &&
  bytes_eqb (h_blroot a) (h_blroot b).
Definition entry_eqb (a b : entry) : bool :=
  kvmd_eqb (okvmd_norm (e_md a)) (okvmd_norm (e_md b)) && bytes_eqb (e_key a) (e_key b) &&
  (e_vlen a =? e_vlen b) && (e_voff a =? e_voff b) && bytes_eqb (e_hval a) (e_hval b).
Definition tx_eqb (a b : tx) : bool :=
  txhdr_eqb (t_hdr a) (t_hdr b) && list_eqb entry_eqb (t_entries a) (t_entries b).

Definition vmode_of (m : N) : vmode :=
  if m =? 0 then VEmbedded else if m =? 1 then VSingle else VMulti.

Definition hdr_of (r : res tx) : res txhdr :=
  match r with Ok t => Ok (t_hdr t) | Err e => Err e | Panic => Panic end.

Inductive case :=
(* crypto/sha256.Sum256 on inp *)
| CSha (inp out : bytes)
(* one (possibly corrupted) transaction, asked for by its id, read three ways on the same opened store; stream = tx-log
   bytes from the offset the commit log gives for the id up to the end of the log;
   out = ImmuStore.ReadTx(id, false, holder) with holder = NewTx(nslots, maxKeyLen);
   skip = ImmuStore.ReadTx(id, true, holder) (skipIntegrityCheck), when it was made;
   hdr = ImmuStore.ReadTxHeader(id, false, false), when it was made *)
| CTx (nslots maxKeyLen id : N) (stream : bytes) (out : res tx) (skip : option (res tx))
      (hdr : option (res txhdr))
(* pristine store: the record found in the tx log for the transaction Go read back as t *)
| CWrite (t : tx) (rec : bytes)
(* pristine store with embedded values: the bytes that precede the record *)
| CEmb (vals : list bytes) (pre : bytes)
(* a session of value reads on ONE opened store, in the order they were made (the value cache, when
   the store has one, carries over from one read to the next): mvl = MaxValueLen; mode 0 embedded /
   1 single vlog / 2 several vlogs; usecache = VLogCacheSize > 0; txlog given in embedded mode only *)
| CSess (mvl mode : N) (usecache : bool) (txlog : bytes) (vlogs : list bytes) (ops : list vop)
with vop :=
(* ImmuStore.ReadValue on an entry with (vlen, off, hval) *)
| VRead (vlen off : N) (hval : bytes) (out : res bytes)
(* the value part of ImmuStore.ExportTx(id, false, false, holder): es = (vLen, vOff, hVal) of the
   entries ReadTx returned; out = the "values truncated" flag and the per-entry payloads *)
| VExp (es : list (N * N * bytes)) (out : res (bool * list bytes)).

Definition exp_eqb (a b : bool * list bytes) : bool :=
  Bool.eqb (fst a) (fst b) && list_eqb bytes_eqb (snd a) (snd b).

Fixpoint sess_ok (mvl : N) (m : vmode) (txlog : bytes) (vlogs : list bytes) (c : option vcache)
         (ops : list vop) : bool :=
  match ops with
  | [] => true
  | VRead vlen off hval o :: r =>
      let '(x, c') := read_value sha256 mvl m txlog vlogs c vlen off hval in
      res_eqb bytes_eqb x o && sess_ok mvl m txlog vlogs c' r
  | VExp es o :: r =>
      let '(x, c') := export_values sha256 true mvl m txlog vlogs c
           (map (fun x => {| e_md := None; e_key := []; e_vlen := fst (fst x); e_voff := snd (fst x);
                             e_hval := snd x |}) es) 0 false in
      res_eqb exp_eqb x o && sess_ok mvl m txlog vlogs c' r
  end.

Definition case_ok (c : case) : bool :=
  match c with
  | CSha i o => bytes_eqb (sha256 i) o
  | CTx ns mk id s o sk hd =>
      let r := read_tx_at sha256 true ns mk s 0 (len s) id in
      res_eqb tx_eqb r o &&
      (match sk with
       | Some o' => res_eqb tx_eqb (read_tx_at sha256 false ns mk s 0 (len s) id) o'
       | None => true end) &&
      (match hd with Some o' => res_eqb txhdr_eqb (hdr_of r) o' | None => true end)
  | CWrite t rec => res_eqb bytes_eqb (write_tx sha256 t) (Ok rec)
  | CEmb vals pre => bytes_eqb (write_embedded_prefix vals) pre
  | CSess mvl m uc txlog vlogs ops =>
      sess_ok mvl (vmode_of m) txlog vlogs (if uc then Some [] else None) ops
  end.
