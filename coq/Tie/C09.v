(* correspondence glue for C09: the model readers run with the executable SHA-256 on the bytes the
   Go harness found in (corrupted copies of) real store directories *)
From V Require Export Base.Hex Store.Codec Corrupt.TxRecord Merkle.Sha256.

Definition txmd_eqb (a b : txmd) : bool :=
  opt_eqb N.eqb (md_trunc a) (md_trunc b) && opt_eqb bytes_eqb (md_extra a) (md_extra b).
Definition kvmd_eqb (a b : kvmd) : bool :=
  Bool.eqb (kv_deleted a) (kv_deleted b) && opt_eqb N.eqb (kv_expires a) (kv_expires b) &&
  Bool.eqb (kv_nonindexable a) (kv_nonindexable b).
(* a nil metadata pointer and an empty metadata object are the same observable *)
Definition omd_norm (m : option txmd) : txmd := match m with Some m => m | None => txmd_empty end.
Definition okvmd_norm (m : option kvmd) : kvmd := match m with Some m => m | None => kvmd_empty end.
Definition txhdr_eqb (a b : txhdr) : bool :=
  (h_id a =? h_id b) && bytes_eqb (h_prevalh a) (h_prevalh b) && (h_ts a =? h_ts b) &&
  (h_version a =? h_version b) && txmd_eqb (omd_norm (h_md a)) (omd_norm (h_md b)) &&
  (h_nentries a =? h_nentries b) && bytes_eqb (h_eh a) (h_eh b) && (h_bltxid a =? h_bltxid b) &&
  bytes_eqb (h_blroot a) (h_blroot b).
Definition entry_eqb (a b : entry) : bool :=
  kvmd_eqb (okvmd_norm (e_md a)) (okvmd_norm (e_md b)) && bytes_eqb (e_key a) (e_key b) &&
  (e_vlen a =? e_vlen b) && (e_voff a =? e_voff b) && bytes_eqb (e_hval a) (e_hval b).
Definition tx_eqb (a b : tx) : bool :=
  txhdr_eqb (t_hdr a) (t_hdr b) && list_eqb entry_eqb (t_entries a) (t_entries b).

Definition vmode_of (m : N) : vmode :=
  if m =? 0 then VEmbedded else if m =? 1 then VSingle else VMulti.

Definition hdr_of (r : res tx) : res txhdr :=
  match r with Ok t => Ok (t_hdr t) | Err e => Err e | Panic => Panic end.

Inductive case :=
(* crypto/sha256.Sum256 on inp *)
| CSha (inp out : bytes)
(* ImmuStore.ReadTx(id, skip = negb chk, holder) where stream = tx-log bytes from the offset the
   commit log gives for id up to the end of the log; holder = NewTx(nslots, maxKeyLen) *)
| CTx (chk : bool) (nslots maxKeyLen : N) (stream : bytes) (out : res tx)
(* ImmuStore.ReadTxHeader(id, false, false) on the same stream *)
| CHdr (nslots maxKeyLen : N) (stream : bytes) (out : res txhdr)
(* pristine store: the record found in the tx log for the transaction Go read back as t *)
| CWrite (t : tx) (rec : bytes)
(* pristine store with embedded values: the bytes that precede the record *)
| CEmb (vals : list bytes) (pre : bytes)
(* ImmuStore.ReadValue on an entry with (vlen, off, hval); mvl = the store's MaxValueLen; mode 0 embedded / 1 single vlog /
   2 several vlogs; txlog is given in embedded mode only *)
| CVal (mvl mode : N) (txlog : bytes) (vlogs : list bytes) (vlen off : N) (hval : bytes) (out : res bytes)
(* the value part of ImmuStore.ExportTx(id, false, false, holder): es = (vLen, vOff, hVal) of the
   entries ReadTx returned; out = the "values truncated" flag and the per-entry payloads *)
| CExp (mvl mode : N) (txlog : bytes) (vlogs : list bytes) (es : list (N * N * bytes))
       (out : res (bool * list bytes)).

Definition case_ok (c : case) : bool :=
  match c with
  | CSha i o => bytes_eqb (sha256 i) o
  | CTx chk ns mk s o =>
      res_eqb tx_eqb (read_tx_at sha256 chk ns mk s 0 (len s)) o
  | CHdr ns mk s o =>
      res_eqb txhdr_eqb (hdr_of (read_tx_at sha256 true ns mk s 0 (len s))) o
  | CWrite t rec => res_eqb bytes_eqb (write_tx sha256 t) (Ok rec)
  | CEmb vals pre => bytes_eqb (write_embedded_prefix vals) pre
  | CVal mvl m txlog vlogs vlen off hval o =>
      res_eqb bytes_eqb (read_value sha256 mvl (vmode_of m) txlog vlogs vlen off hval) o
  | CExp mvl m txlog vlogs es o =>
      res_eqb (fun a b => Bool.eqb (fst a) (fst b) && list_eqb bytes_eqb (snd a) (snd b))
        (export_values sha256 true mvl (vmode_of m) txlog vlogs
           (map (fun x => {| e_md := None; e_key := []; e_vlen := fst (fst x); e_voff := snd (fst x);
                             e_hval := snd x |}) es) 0 false) o
  end.
