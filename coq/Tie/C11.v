(* correspondence glue for C11: one case = one table state (rows, catalog indexes) and a list of
   SELECTs run on the real engine, each with the physical scan the engine chose
   (index id, SeekKey, EndKey, DescOrder, explicit sort: read through the add-only hook
   VerifPlanOf) and the rows it returned.  case_ok re-plans and re-executes every SELECT on the
   Coq model (Plan.Model) and compares plan and rows. *)
From V Require Export Base.Hex Plan.Model.

(* short constructors with Z-scoped arguments, for the generated case files *)
Definition I (z : Z) : sval := Some z.
Arguments I z%Z.
Definition NUL : sval := None.
Definition R (id : Z) (a b : sval) (s : option bytes) : row := mkRow id a b s.
Arguments R id%Z a b s.

(* the VARCHAR payloads the generator uses, by number (keeps the case files small) *)
Definition str_dict : list bytes :=
  [[]; [120]; [121; 121]; [122; 122; 57]; [81]; [97; 98; 99; 100; 101; 102; 103; 104]].
Definition St (n : N) : option bytes := Some (nth (N.to_nat n) str_dict []).

Definition row_eqb (x y : row) : bool :=
  Z.eqb (r_id x) (r_id y) && sval_eqb (r_a x) (r_a y) && sval_eqb (r_b x) (r_b y) &&
  opt_eqb bytes_eqb (r_s x) (r_s y).

(* a scan bound as the harness read it off the engine's KeyReaderSpec: the bytes after the
   index prefix M.{table}{index} split into encoded values (0x20 = NULL, 0x80 + 8 bytes = integer)
   and the optional 0xFF terminator; anything that does not split this way is given raw *)
Inductive kspec :=
| K (vals : list sval) (upper : bool)
| KRaw (b : bytes).

Definition kspec_bytes (pfx : bytes) (k : kspec) : bytes :=
  match k with
  | K vals upper => pfx ++ concat (map enc_sval vals) ++ (if upper then [KeyValPrefixUpperBound] else [])
  | KRaw b => b
  end.

(* what the engine was observed to do for one SELECT *)
Inductive run :=
| Run (q : query) (ixid : N) (seek end_ : kspec) (desc sorted : bool) (rows : list N)
  (* rows: positions in the case's dictionary of observed rows *)
(* the SELECT failed at planning time (USE INDEX ON names no index) *)
| RunNoPlan (q : query).

Inductive case :=
(* SELECTs over committed data (autocommit read, before or after a restart) *)
| CScan (base : bytes) (table_id : N) (idxs : list index) (t : list row)
        (dict : list row) (runs : list run)
(* SELECTs issued inside an open transaction: table content at BEGIN and the transaction's row
   writes / deletes in execution order *)
| CTx (base : bytes) (table_id : N) (idxs : list index) (committed : list row) (ops : list txop)
      (dict : list row) (runs : list run).

Definition Put := TxPut.
Definition Del (id : Z) := TxDel id.
Arguments Del id%Z.

Fixpoint adj_sorted (os : list ordexp) (l : list row) : bool :=
  match l with
  | x :: ((y :: _) as r) => ord_le os x y && adj_sorted os r
  | _ => true
  end.


Fixpoint remove_one (x : row) (l : list row) : option (list row) :=
  match l with
  | [] => None
  | y :: r => if row_eqb x y then Some r
              else match remove_one x r with Some r' => Some (y :: r') | None => None end
  end.
(* multiset inclusion *)
Fixpoint sub_mset (a b : list row) : bool :=
  match a with
  | [] => true
  | x :: a' => match remove_one x b with Some b' => sub_mset a' b' | None => false end
  end.

Definition bad_row : row := mkRow 0 None None None.

(* index content, computed once per index of the case *)
Definition ents_of (tbl : list (N * list entry)) (i : index) : list entry :=
  match find (fun p => fst p =? ix_id i) tbl with Some p => snd p | None => [] end.

Definition run_ok (pfx_of : index -> bytes) (idxs : list index) (ents : index -> list entry)
           (dict : list row) (r : run) : bool :=
  match r with
  | RunNoPlan q => match gen_plan pfx_of idxs q with None => true | Some _ => false end
  | Run q ixid seek end_ desc sorted rowrefs =>
      let rows := map (fun n => nth (N.to_nat n) dict bad_row) rowrefs in
      match gen_plan pfx_of idxs q with
      | None => false
      | Some pl =>
          let ix := p_index pl in
          let model := apply_limit (q_limit q) (apply_offset (q_offset q)
                                     (exec_entries (pfx_of ix) (ents ix) q pl)) in
          (ix_id (p_index pl) =? ixid) &&
          bytes_eqb (if p_desc pl then p_hi pl else p_lo pl) (kspec_bytes (pfx_of ix) seek) &&
          bytes_eqb (if p_desc pl then p_lo pl else p_hi pl) (kspec_bytes (pfx_of ix) end_) &&
          Bool.eqb (p_desc pl) desc && Bool.eqb (p_sort pl) sorted &&
          (if p_sort pl
           then (* Go's sort (sort.Slice / top-N heap) is not stable and, inside a transaction, the
                   secondary-index view can hold two versions of one pk, so even an ORDER BY that
                   names the pk can tie. Exactly the outputs some sorted arrangement of the model's
                   rows allows are accepted: sorted; same length as the model's window; the same
                   sort key as the model at every position; a sub-multiset of the model's rows
                   before OFFSET/LIMIT (without a window this is multiset equality). *)
             let full := exec_entries (pfx_of ix) (ents ix) q pl in
             adj_sorted (q_order q) rows &&
             (N.of_nat (length rows) =? N.of_nat (length model)) &&
             forallb (fun p => match ord_cmp (q_order q) (fst p) (snd p) with Eq => true | _ => false end)
                     (combine rows model) &&
             sub_mset rows full
           else list_eqb row_eqb rows model)
      end
  end.

Definition case_ok (c : case) : bool :=
  match c with
  | CScan base tid idxs t dict runs =>
      let pf := mk_pfx base tid in
      let tbl := map (fun i => (ix_id i, index_entries (pf i) (ix_cols i) t)) idxs in
      forallb (run_ok pf idxs (ents_of tbl) dict) runs
  | CTx base tid idxs committed ops dict runs =>
      let pf := mk_pfx base tid in
      let tbl := map (fun i => (ix_id i, tx_entries pf i committed ops)) idxs in
      forallb (run_ok pf idxs (ents_of tbl) dict) runs
  end.
