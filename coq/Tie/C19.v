(* correspondence glue for C19: a case is a collection (schema) plus a history of operations, each
   with what the real document.Engine was observed to do; case_ok runs the model (Doc/Model.v) over
   the same operations and compares the observables the property speaks about *)
From V Require Export Base.Hex Doc.Model.

(* literal helper for the case files: (-1)^neg * man * 2^(+-e) *)
Definition nm (neg : bool) (man : N) (eneg : bool) (e : N) : num :=
  mkn neg man (if eneg then (- Z.of_N e)%Z else Z.of_N e).

(* bytes from a numeral: B len 0x... (big-endian, len bytes); hx = the hex text of a byte string *)
Definition B (k v : N) : bytes := be_enc (N.to_nat k) v.
Definition R (k c : N) : bytes := repeat c (N.to_nat k).   (* k copies of byte c *)
Definition hx (b : bytes) : jv := JStr (hex_encode b).
Definition js (b : bytes) : jv := JStr b.
Definition jn (neg : bool) (man : N) (eneg : bool) (e : N) : jv := JNum (nm neg man eneg e).

Definition num_eqb (a b : num) : bool :=
  Bool.eqb (nneg a) (nneg b) && (nman a =? nman b) && (nexp a =? nexp b)%Z.

Fixpoint jv_eqb (a b : jv) : bool :=
  match a, b with
  | JNull, JNull => true
  | JBool x, JBool y => Bool.eqb x y
  | JNum x, JNum y => num_eqb x y
  | JStr x, JStr y => bytes_eqb x y
  | JList x, JList y =>
      (fix go (x y : list jv) : bool :=
         match x, y with
         | [], [] => true
         | u :: x', v :: y' => jv_eqb u v && go x' y'
         | _, _ => false
         end) x y
  | JObj x, JObj y =>
      (fix go (x y : list (bytes * jv)) : bool :=
         match x, y with
         | [], [] => true
         | (k, u) :: x', (k', v) :: y' => bytes_eqb k k' && jv_eqb u v && go x' y'
         | _, _ => false
         end) x y
  | _, _ => false
  end.

Inductive obs :=
| BErr
| BOk
| BWritten (l : list (bytes * N))      (* (id, revision) of the documents written, any order *)
| BIds (ids : list bytes)              (* ids returned by a search, in the order returned *)
| BCount (n : N)
| BGet (rev : N)                        (* revision; the payload is compared by the harness itself *)
| BAudit (l : list (N * bool)).         (* (revision, is a deletion) *)

Inductive case :=
| CHist (nz : bool)                      (* the key encoder keeps the sign of zero (probed; see s_nz) *)
        (idname : bytes) (fields : list (bytes * ftype)) (indexes : list index)
        (steps : list (op * obs)).

Definition mem (id : bytes) (l : list bytes) : bool := existsb (bytes_eqb id) l.
Fixpoint nodupb (l : list bytes) : bool :=
  match l with [] => true | x :: r => negb (mem x r) && nodupb r end.
Definition find_row (pre : list lrow) (id : bytes) : option lrow :=
  find (fun r => bytes_eqb (l_id r) id) pre.
Fixpoint sortedb (key : lrow -> lrow -> comparison) (l : list lrow) : bool :=
  match l with
  | a :: ((b :: _) as r) => cmp_le (key a b) && sortedb key r
  | _ => true
  end.
Definition countb {A} (f : A -> bool) (l : list A) : N := N.of_nat (length (filter f l)).
Definition is_eq (c : comparison) : bool := match c with Eq => true | _ => false end.
Definition is_lt (c : comparison) : bool := match c with Lt => true | _ => false end.
Definition is_gt (c : comparison) : bool := match c with Gt => true | _ => false end.

(* `ids` is a page (offset, limit) of SOME ordering of `pre` that is sorted by `key`: the order
   among rows with equal sort keys is not determined (Go's sort.Slice / top-N heap / which index
   the scan runs on), everything else is *)
Definition valid_pageb (pre : list lrow) (key : lrow -> lrow -> comparison) (off lim : N) (ids : list bytes) : bool :=
  match mapres (fun id => match find_row pre id with Some r => Ok r | None => Err 0 end) ids with
  | Ok rows =>
      nodupb ids && sortedb key rows &&
      (N.of_nat (length ids) =? N.of_nat (length (page off lim pre))) &&
      match rows with
      | [] => true
      | first :: _ =>
          let lst := last rows first in
          let outside := filter (fun r => negb (mem (l_id r) ids)) pre in
          let nL := countb (fun r => is_lt (key r first)) outside in
          let nE := countb (fun r => is_eq (key r first)) outside in
          let between := countb (fun r => is_gt (key r first) && is_lt (key r lst)) outside in
          (between =? 0) && (nL <=? off) && (off <=? nL + nE) &&
          (if is_lt (key first lst) then off =? nL + nE else true)
      end
  | _ => false
  end.

Fixpoint remove1 (x : bytes * N) (l : list (bytes * N)) : option (list (bytes * N)) :=
  match l with
  | [] => None
  | y :: r => if bytes_eqb (fst x) (fst y) && (snd x =? snd y) then Some r
              else match remove1 x r with Some r' => Some (y :: r') | None => None end
  end.
Fixpoint perm_eqb (a b : list (bytes * N)) : bool :=
  match a with
  | [] => match b with [] => true | _ => false end
  | x :: a' => match remove1 x b with Some b' => perm_eqb a' b' | None => false end
  end.

Definition audit_eqb (a : list (N * option jv)) (b : list (N * bool)) : bool :=
  list_eqb N.eqb (map fst a) (map fst b) &&
  list_eqb Bool.eqb (map (fun x => match snd x with None => true | Some _ => false end) a) (map snd b).

Definition out_ok (o : op) (x : out) (b : obs) : bool :=
  match x, b with
  | XErr, BErr => true
  | XOk, BOk => true
  | XWritten l, BWritten l' => perm_eqb l l'
  | XWritten _, BOk => match o with ODelete _ => true | _ => false end
  | XRows pre key off lim, BIds ids => valid_pageb pre key off lim ids
  | XRows pre _ off lim, BCount n => n =? N.of_nat (length (page off lim pre))
  | XGet r _, BGet r' => (r =? r')
  | XAudit l, BAudit l' => audit_eqb l l'
  | _, _ => false
  end.

Fixpoint steps_ok (st : state) (l : list (op * obs)) : bool :=
  match l with
  | [] => true
  | (o, b) :: r => let '(st', x) := step st o in out_ok o x b && steps_ok st' r
  end.

Definition case_ok (c : case) : bool :=
  match c with
  | CHist nz idname fields indexes steps =>
      steps_ok (init (new_schema nz idname fields indexes)) steps
  end.
