(* correspondence glue for C06: recorded concurrent histories are decided by the verified checker;
   sequential runs are compared call by call with the specification *)
From V Require Export Base.Hex Lin.Checker.

Inductive case :=
(* one concurrent history of a real pkg/database DB (calls in invocation order); strict_go is the
   verdict of the harness's own Go implementation of the strict check *)
| CHist (ops : list oprec) (strict_go : bool)
(* a concurrent history recorded while CompactIndex was running in the background: the machine
   with its compaction step (index re-opened from an older copy, wait hub unchanged) allows
   non-linearizable histories there (third known finding), so only the verdict of the verified
   checker is tied to the harness's own *)
| CHistCompact (ops : list oprec) (strict_go : bool)
(* one sequential run: every call with the response the implementation gave *)
| CSeq (ops : list (call * result)).

(* a snapshot read with SinceTx > 0 may be served from a reused snapshot: any prefix of the run that
   includes SinceTx (known finding; the strict comparison is tried first) *)
Definition seq_stale_ok (s : state) (c : call) (r : result) : bool :=
  match c with
  | CR q => let since := snap_since q in
            let ps := filter (fun p => p <=? slen s) (range (S (length s)) since) in
            (0 <? since) &&
            existsb (fun p1 => existsb (fun p2 =>
               match step_b2 (firstn (N.to_nat p1) s) (firstn (N.to_nat p2) s) c r with
               | Some _ => true | None => false end) ps) ps
  | _ => false
  end.
Fixpoint seq_ok (s : state) (l : list (call * result)) : bool :=
  match l with
  | [] => true
  | (c, r) :: rest => match step_b s c r with
                      | Some s1 => seq_ok s1 rest
                      | None => seq_stale_ok s c r && seq_ok s rest
                      end
  end.

Definition case_ok (c : case) : bool :=
  match c with
  | CHist ops strict_go => check_relaxed ops && Bool.eqb (check ops) strict_go
  | CHistCompact ops strict_go => Bool.eqb (check ops) strict_go
  | CSeq ops => seq_ok [] ops
  end.
