(* correspondence glue for C04: histories committed to a real store, index configurations, reads
   and what they returned; evaluated against the specification (CSpec) and against the indexer
   model run with the recorded bulk schedule (CModel); valueRefFrom on arbitrary bytes (CVRef) *)
From V Require Export Base.Hex Idx.Spec Idx.Indexer.

(* the key mappers the harness installs, by name *)
Inductive mapsel :=
| MNone
| MRepl (p : bytes) (n : N)        (* key-only:        p ++ key[n:] *)
| MVal (p : bytes) (n : N)         (* value-dependent: p ++ [value[0] or 0] ++ key[n:] *)
| MTrunc (p : bytes) (n m : N).    (* many-to-one:     p ++ key[n:n+m] (clamped) *)
Definition mapper_of (m : mapsel) : mapper :=
  match m with
  | MNone => None
  | MRepl p n => Some (fun k _ => p ++ drop n k)
  | MVal p n => Some (fun k v => p ++ [match v with x :: _ => x | [] => 0 end] ++ drop n k)
  | MTrunc p n m => Some (fun k _ => p ++ take m (drop n k))
  end.

Record cfg := mkcfg { c_sp : bytes; c_sm : mapsel; c_tm : mapsel; c_tp : bytes; c_inj : bool; c_src : N }.
Definition spec_of (c : cfg) : ispec :=
  {| sp := c_sp c; smap := mapper_of (c_sm c); tmap := mapper_of (c_tm c); tp := c_tp c; inj := c_inj c;
     src := if c_src c =? 0 then SrcNone else if c_src c =? 1 then SrcSelf else SrcOther |}.

(* history literals *)
Definition mkmd (deleted : bool) (expires : option N) (nonidx : bool) : kvmd :=
  {| kv_deleted := deleted; kv_expires := expires; kv_nonindexable := nonidx |}.
(* the history literals carry the first 4 bytes of each value digest only (that is what is observed
   of HVal); the remaining 28 bytes are irrelevant to every comparison and set to 0 *)
Definition mke (k : bytes) (md : kvmd) (v : bytes) (voff : N) (h4 : bytes) : entry :=
  {| e_key := k; e_md := md; e_val := v; e_voff := voff; e_hval := h4 ++ repeat 0 28 |}.
Definition mktx (id ts : N) (extra : option bytes) (es : list entry) : tx :=
  {| t_id := id; t_ts := ts; t_md := {| md_trunc := None; md_extra := extra |}; t_entries := es |}.
Definition mkr (seek end_ prefix : bytes) (iseek iend desc igndel ignexp : bool) (off : N) : rspec :=
  {| r_seek := seek; r_end := end_; r_prefix := prefix; r_incl_seek := iseek; r_incl_end := iend;
     r_desc := desc; r_ign_deleted := igndel; r_ign_expired := ignexp; r_offset := off |}.
Definition mklim (k t : N) : limits := {| maxk := k; maxtx := t |}.

(* what is observed of a ValueRef *)
Record oref := mko {
  o_tx : N; o_hc : N; o_vlen : N; o_voff : N; o_h4 : bytes (* first 4 bytes of HVal *);
  o_del : bool; o_exp : option N; o_nidx : bool; o_txmd : bytes (* TxMetadata().Bytes() *)
}.
Definition oref_eqb (a b : oref) : bool :=
  (o_tx a =? o_tx b) && (o_hc a =? o_hc b) && (o_vlen a =? o_vlen b) && (o_voff a =? o_voff b) &&
  bytes_eqb (o_h4 a) (o_h4 b) && Bool.eqb (o_del a) (o_del b) && opt_eqb N.eqb (o_exp a) (o_exp b) &&
  Bool.eqb (o_nidx a) (o_nidx b) && bytes_eqb (o_txmd a) (o_txmd b).
Definition oref_of_vref (r : vref) : oref :=
  {| o_tx := r_tx r; o_hc := r_hc r; o_vlen := r_vlen r; o_voff := r_voff r; o_h4 := take 4 (r_hval r);
     o_del := kv_deleted (r_kvmd r); o_exp := kv_expires (r_kvmd r); o_nidx := kv_nonindexable (r_kvmd r);
     o_txmd := txmd_bytes (r_txmd r) |}.
Definition oref_of_hit (x : hit) : oref := oref_of_vref (vref_of x).

Definition pair_eqb {A B} (ea : A -> A -> bool) (eb : B -> B -> bool) (x y : A * B) : bool :=
  ea (fst x) (fst y) && eb (snd x) (snd y).

Inductive query :=
| QGet (k : bytes)
| QGetBetween (k : bytes) (lo hi : N)
| QHistory (k : bytes) (off : N) (desc : bool) (lim : N)
| QSnapHistory (k : bytes) (off : N) (desc : bool) (lim : N)
| QPrefix (p neq : bytes)
| QScan (r : rspec)
| QScanBetween (r : rspec) (lo hi : N).

Inductive obs :=
| ORef (r : res oref)
| OHist (r : res (list oref * N))
| OKeyRef (r : res (bytes * oref))
| OList (l : list (bytes * oref)).

Definition obs_eqb (a b : obs) : bool :=
  match a, b with
  | ORef x, ORef y => res_eqb oref_eqb x y
  | OHist x, OHist y => res_eqb (pair_eqb (list_eqb oref_eqb) N.eqb) x y
  | OKeyRef x, OKeyRef y => res_eqb (pair_eqb bytes_eqb oref_eqb) x y
  | OList x, OList y => list_eqb (pair_eqb bytes_eqb oref_eqb) x y
  | _, _ => false
  end.

(* the specification's answer *)
Definition spec_answer (now : N) (ix : index) (q : query) : obs :=
  match q with
  | QGet k => ORef (rmap oref_of_hit (get now ix k))
  | QGetBetween k lo hi => ORef (rmap oref_of_hit (get_between ix k lo hi))
  | QHistory k off desc lim | QSnapHistory k off desc lim =>
      OHist (rmap (fun x => (map oref_of_hit (fst x), snd x)) (history_of ix k off desc lim))
  | QPrefix p neq => OKeyRef (rmap (fun x => (fst x, oref_of_hit (snd x))) (get_with_prefix now ix p neq))
  | QScan r => OList (map (fun x => (fst x, oref_of_hit (snd x))) (scan now ix r))
  | QScanBetween r lo hi => OList (map (fun x => (fst x, oref_of_hit (snd x))) (scan_between now ix r lo hi))
  end.

(* the model's answer; a failing valueRefFrom inside a reader ends the listing with an error, which
   the harness records as a listing it could not complete: never equal to an OList *)
Definition model_answer (snapfix : bool) (now : N) (tb : tbt) (q : query) : obs :=
  match q with
  | QGet k => ORef (rmap oref_of_vref (store_get now tb k))
  | QGetBetween k lo hi => ORef (rmap oref_of_vref (store_get_between tb k lo hi))
  | QHistory k off desc lim =>
      OHist (rmap (fun x => (map oref_of_vref (fst x), snd x)) (store_history tb k off desc lim))
  | QSnapHistory k off desc lim =>
      OHist (rmap (fun x => (map oref_of_vref (fst x), snd x)) (snapshot_history snapfix tb k off desc lim))
  | QPrefix p neq => OKeyRef (rmap (fun x => (fst x, oref_of_vref (snd x))) (store_get_with_prefix now tb p neq))
  | QScan r => match store_scan now tb r with
               | Ok l => OList (map (fun x => (fst x, oref_of_vref (snd x))) l)
               | _ => ORef Panic end
  | QScanBetween r lo hi => match store_scan_between now tb r lo hi with
                            | Ok l => OList (map (fun x => (fst x, oref_of_vref (snd x))) l)
                            | _ => ORef Panic end
  end.

(* the indexer is resumed with everything up to b committed, for each b of `batches` in turn, and
   accumulates up to maxbulk transactions per indexSince *)
Fixpoint run_batches (fx : fixes) (s : ispec) (lim : limits) (h : history) (maxbulk : nat)
         (batches : list nat) (st : istate) : res istate :=
  match batches with
  | [] => Ok st
  | b :: r => do st' <- run fx s lim (firstn b h) (repeat maxbulk b) st;
              run_batches fx s lim h maxbulk r st'
  end.

Inductive case :=
(* indexing had caught up with transaction n (WaitForIndexingUpto n returned) *)
| CSpec (c : cfg) (now : N) (h : history) (n : N) (qs : list (query * obs))
(* same, the indexer (model all_fixed = the code of /repo) having been driven through a known bulk schedule; `stalled`: indexing never
   reached the last transaction of the last batch *)
| CModel (c : cfg) (lim : limits) (now : N) (h : history)
         (maxbulk : nat) (batches : list nat) (stalled : bool) (qs : list (query * obs))
(* valueRefFrom(tx, hc, bytes) *)
| CVRef (tx hc : N) (b : bytes) (out : res oref)
(* serializeIndexableEntry: entry reference + metadata -> bytes *)
| CSer (vlen voff : N) (hval : bytes) (extra : option bytes) (md : kvmd) (out : bytes).

Definition case_ok (c : case) : bool :=
  match c with
  | CSpec c now h n qs =>
      wf_history h &&
      (let ix := index_of_history (spec_of c) (firstn (N.to_nat n) h) in
       forallb (fun qo => obs_eqb (spec_answer now ix (fst qo)) (snd qo)) qs)
  | CModel c lim now h maxbulk batches stalled qs =>
      wf_history h &&
      match run_batches all_fixed (spec_of c) lim h maxbulk batches istate_init with
      | Ok st =>
          if tb_ts (is_tb st) =? N.of_nat (last batches 0%nat)
          then negb stalled &&
               forallb (fun qo => obs_eqb (model_answer true now (is_tb st) (fst qo)) (snd qo)) qs
          else stalled
      | _ => stalled
      end
  | CVRef tx hc b out => res_eqb oref_eqb (rmap oref_of_vref (value_ref_from tx hc b)) out
  | CSer vlen voff hval extra md out =>
      bytes_eqb (ser_ival vlen voff hval (txmd_bytes {| md_trunc := None; md_extra := extra |}) (kvmd_bytes md)) out
  end.
