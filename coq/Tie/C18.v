(* correspondence glue for C18: one matrix cell = one real gRPC call against the in-process server *)
From Coq Require Export NArith String List Bool.
From V Require Export Auth.Policy.
Export ListNotations.
Open Scope string_scope.

(* indices of the cases on which model and implementation disagree (same function as Base.Hex's;
   repeated here so that the case files do not load the byte-string library they have no use for) *)
Fixpoint mismatches {C} (ok : C -> bool) (idx : N) (cs : list C) : list N :=
  match cs with
  | [] => []
  | c :: r => if ok c then mismatches ok (idx + 1) r else idx :: mismatches ok (idx + 1) r
  end.

Inductive case :=
(* RPC, request context, and what the server did: through = the call was NOT refused for
   authentication / permission / configuration-guard reasons (it reached the operation body:
   success or an argument/state error) *)
| CCell (svc rpc : string) (cf : cfg) (k : kind) (h : hdr) (sel tgt : dbsel) (st : sstate) (through : bool)
(* the same for a group of RPCs called in ONE credential context (same configuration, user,
   credential, databases and state): the matrix is recorded as about three such groups per context,
   which keeps the number of terms coqc has to load small *)
| CCtx (cf : cfg) (k : kind) (h : hdr) (sel tgt : dbsel) (st : sstate) (cells : list (string * string * bool))
(* two requests on ONE open stream of a multi-request RPC: the first with a valid credential, the
   second after the event st2 (SValid = nothing happened; SExpired = the session was closed / the
   user logged out) *)
| CStream (svc rpc : string) (cf : cfg) (k : kind) (h : hdr) (sel tgt : dbsel) (st2 : sstate) (through1 through2 : bool)
(* the harness' own copy of the specification row (used by its direct property oracle) *)
| CSpec (svc rpc : string) (class_code_ : N) (mutates_ dbmgmt_ : bool).

Definition cell_ok (c : cx) (svc rpc : string) (through : bool) : bool :=
  match find_gate svc rpc with
  | Some g => Bool.eqb (verdict_eqb (decide g c) Through) through
  | None => false
  end.

Definition case_ok (c : case) : bool :=
  match c with
  | CCell svc rpc cf k h sel tgt st through => cell_ok (mk_cx cf k h sel tgt st) svc rpc through
  | CCtx cf k h sel tgt st cells =>
      let c := mk_cx cf k h sel tgt st in
      forallb (fun x => match x with (svc, rpc, through) => cell_ok c svc rpc through end) cells
  | CStream svc rpc cf k h sel tgt st2 t1 t2 =>
      match find_gate svc rpc with
      | Some g =>
          let c1 := mk_cx cf k h sel tgt SValid in
          multi_request g &&
          Bool.eqb (verdict_eqb (decide g c1) Through) t1 &&
          Bool.eqb (verdict_eqb (decide_next g c1 (mk_cx cf k h sel tgt st2)) Through) t2
      | None => false
      end
  | CSpec svc rpc cc m d =>
      match find_spec svc rpc with
      | Some s => (class_code (sp_class s) =? cc)%N && Bool.eqb (sp_mutates s) m && Bool.eqb (sp_dbmgmt s) d
      | None => false
      end
  end.
