(* correspondence glue for C02: a step script executed on a real store, with what was observed
   after every step (result class, CommittedAlh, LastPrecommittedTxID, the records and values of the
   newly committed ids as re-read through ReadTx/ReadValue, and whether the re-read of all earlier
   ids was identical to their first report). case_ok runs Hist/Machine.v (with SHA-256) on the
   script and compares, after every step, the model's WHOLE committed history with the observed one. *)
From V Require Export Base.Hex Merkle.Sha256 Hist.Machine.

Definition Hs := sha256.

Definition omd_bytes (m : option txmd) : bytes := opt_md_bytes m.
Definition hdr_eqb (a b : txhdr) : bool :=
  (h_id a =? h_id b) && bytes_eqb (h_prevalh a) (h_prevalh b) && (h_ts a =? h_ts b) &&
  (h_version a =? h_version b) && bytes_eqb (omd_bytes (h_md a)) (omd_bytes (h_md b)) &&
  (h_nentries a =? h_nentries b) && bytes_eqb (h_eh a) (h_eh b) && (h_bltxid a =? h_bltxid b) &&
  bytes_eqb (h_blroot a) (h_blroot b).
Definition entry_eqb (cmpvoff : bool) (a b : entry) : bool :=
  bytes_eqb (e_md a) (e_md b) && bytes_eqb (e_key a) (e_key b) && (e_vlen a =? e_vlen b) &&
  (if cmpvoff then e_voff a =? e_voff b else true) && bytes_eqb (e_hval a) (e_hval b).
Definition rec_eqb (cmpvoff : bool) (a b : rec) : bool :=
  hdr_eqb (r_hdr a) (r_hdr b) && list_eqb (entry_eqb cmpvoff) (r_entries a) (r_entries b) &&
  bytes_eqb (r_alh a) (r_alh b).

(* what the harness re-read for one committed transaction. PrevAlh, Eh, BlRoot and the value
   digests are not listed: the Alh (compared byte for byte) commits to them. *)
Record eobs := { y_md : bytes; y_key : bytes; y_vlen : N; y_voff : N; y_val : bytes }.
Record txobs := { t_id : N; t_ts : N; t_ver : N; t_md : bytes; t_ne : N; t_bl : N; t_alh : bytes;
                  t_entries : list eobs }.
Record obs := {
  o_ok : bool;            (* the call returned no error (for a commit: the precommit happened) *)
  o_id : N; o_alh : bytes; (* id and Alh of the header returned by a successful precommit (0, [] otherwise) *)
  o_committed : N;                   (* CommittedAlh() after the step: its Alh is checked against the last record *)
  o_inmem : N;                       (* LastPrecommittedTxID() after the step *)
  o_new : list txobs;                (* ids (previous committed + 1) .. committed as re-read after the step *)
  o_stable : bool                    (* every earlier id re-read identical to its first report, and
                                        CommittedAlh() = Alh of the last committed record *)
}.

Inductive tstep :=
| TOp (o : op) (ob : option obs)
(* one Commit/AsyncCommit/ReplicateTx call of a sequential client: OBegin then, if it passed, OLocked *)
| TPre (c : N) (p : txspec) (exp : option txhdr) (skipic : bool) (ob : obs).

Inductive case := CScript (cf : cfg) (cmpvoff : bool) (steps : list tstep).

Definition model_step (s : state) (t : tstep) : state * out :=
  match t with
  | TOp o _ => step Hs s o
  | TPre c p exp sk _ =>
      let '(s1, r) := begin Hs s c p exp sk in
      match r with Ok _ => locked Hs s1 c | _ => (s1, r) end
  end.

Definition tstep_obs (t : tstep) : option obs :=
  match t with TOp _ ob => ob | TPre _ _ _ _ ob => Some ob end.
Definition is_pre (t : tstep) : bool :=
  match t with TPre _ _ _ _ _ => true | TOp (OLocked _) _ => true | _ => false end.

Fixpoint list_eqb2 {A B} (eqb : A -> B -> bool) (a : list A) (b : list B) : bool :=
  match a, b with
  | [], [] => true
  | x :: a', y :: b' => eqb x y && list_eqb2 eqb a' b'
  | _, _ => false
  end.

Definition eobs_eqb (cmpvoff : bool) (e : entry) (v : bytes) (x : eobs) : bool :=
  bytes_eqb (e_md e) (y_md x) && bytes_eqb (e_key e) (y_key x) && (e_vlen e =? y_vlen x) &&
  (if cmpvoff then e_voff e =? y_voff x else true) && bytes_eqb v (y_val x).
Definition txobs_eqb (cmpvoff : bool) (r : rec) (vs : list bytes) (t : txobs) : bool :=
  let h := r_hdr r in
  (h_id h =? t_id t) && (h_ts h =? t_ts t) && (h_version h =? t_ver t) &&
  bytes_eqb (omd_bytes (h_md h)) (t_md t) && (h_nentries h =? t_ne t) && (h_bltxid h =? t_bl t) &&
  bytes_eqb (r_alh r) (t_alh t) &&
  list_eqb2 (fun ev x => eobs_eqb cmpvoff (fst ev) (snd ev) x) (combine (r_entries r) vs) (t_entries t) &&
  (lenN (r_entries r) =? lenN vs).
Definition hist_eqb (cmpvoff : bool) (m : list (res (rec * list bytes))) (e : list txobs) : bool :=
  list_eqb2 (fun a b => match a with Ok (r, vs) => txobs_eqb cmpvoff r vs b | _ => false end) m e.

Fixpoint run_check (cmpvoff : bool) (s : state) (acc : list txobs) (steps : list tstep) : bool :=
  match steps with
  | [] => true
  | t :: rest =>
      let '(s', r) := model_step s t in
      match tstep_obs t with
      | None => run_check cmpvoff s' acc rest
      | Some ob =>
          let acc' := acc ++ o_new ob in
          Bool.eqb (is_ok r) (o_ok ob) &&
          (if is_pre t && o_ok ob
           then match r with Ok (id, a) => (id =? o_id ob) && bytes_eqb a (o_alh ob) | _ => false end
           else true) &&
          (s_committed s' =? o_committed ob) &&
          bytes_eqb (s_calh s') (match rev acc' with t :: _ => t_alh t | [] => Hs [] end) &&
          (s_inmem s' =? o_inmem ob) &&
          o_stable ob &&
          hist_eqb cmpvoff (history s') acc' &&
          run_check cmpvoff s' acc' rest
      end
  end.

Definition case_ok (c : case) : bool :=
  match c with CScript cf cmpvoff steps => run_check cmpvoff (init Hs cf) [] steps end.

(* positional constructors and a compact byte-string literal used by the case files (record syntax
   and the standard string notation elaborate an order of magnitude slower) *)
From Coq Require Import Strings.Byte.
Inductive bstr := BNil | BCons (b : Byte.byte) (r : bstr).
Fixpoint bstr_of_list (l : list Byte.byte) : bstr :=
  match l with nil => BNil | cons b r => BCons b (bstr_of_list r) end.
Fixpoint bstr_to_list (s : bstr) : list Byte.byte :=
  match s with BNil => nil | BCons b r => cons b (bstr_to_list r) end.
Declare Scope bs_scope. Delimit Scope bs_scope with bs.
String Notation bstr bstr_of_list bstr_to_list : bs_scope.
Definition hexv (b : Byte.byte) : N :=
  let n := Byte.to_N b in
  if (48 <=? n) && (n <=? 57) then n - 48 else if (97 <=? n) && (n <=? 102) then n - 87 else 0.
Fixpoint hx (s : bstr) : bytes :=
  match s with
  | BCons a (BCons b r) => (hexv a * 16 + hexv b) :: hx r
  | _ => []
  end.
Definition vo (x : N) : N := 2 ^ 56 + x.

Definition mkM (trunc : option N) (extra : option bytes) : txmd := {| md_trunc := trunc; md_extra := extra |}.
Definition mkH id prevalh ts ver md ne eh bl blroot : txhdr :=
  {| h_id := id; h_prevalh := prevalh; h_ts := ts; h_version := ver; h_md := md; h_nentries := ne;
     h_eh := eh; h_bltxid := bl; h_blroot := blroot |}.
Definition mkK key md val : espec := {| k_key := key; k_md := md; k_val := val |}.
Definition mkP es md ts pc cancel : txspec :=
  {| p_entries := es; p_md := md; p_ts := ts; p_precond := pc; p_cancel := cancel |}.
Definition mkE md key vlen voff val : eobs :=
  {| y_md := md; y_key := key; y_vlen := vlen; y_voff := voff; y_val := val |}.
Definition mkT id ts ver md ne bl alh es : txobs :=
  {| t_id := id; t_ts := ts; t_ver := ver; t_md := md; t_ne := ne; t_bl := bl; t_alh := alh; t_entries := es |}.
Definition mkO ok id alh committed inmem new stable : obs :=
  {| o_ok := ok; o_id := id; o_alh := alh; o_committed := committed; o_inmem := inmem;
     o_new := new; o_stable := stable |}.
Definition mkC synced embedded ver maxactive maxentries maxkey maxval ext0 maxconc prealloc : cfg :=
  {| c_synced := synced; c_embedded := embedded; c_version := ver; c_maxactive := maxactive;
     c_maxentries := maxentries; c_maxkey := maxkey; c_maxval := maxval; c_ext0 := ext0;
     c_maxconc := maxconc; c_prealloc := prealloc |}.
