(* correspondence glue for C12: one case = a table definition, a history of events issued by one or
   two sessions under a harness-chosen schedule, and what the real sql.Engine was observed to do
   after every event (did the event succeed; the whole table read back through the primary index) *)
From V Require Export Base.Hex SQLCons.Model.
From Coq Require Export ZArith String.

(* short constructors for the case files *)
Definition VI (z : Z) : val := VInt z.
Definition VN : val := VNull.
Definition VS (h : string) : val := VStr (hex h).
Definition Rw (id : option val) (v s : val) : option val * val * val := (id, v, s).
Definition Tb (k : Z) (v s : val) : Z * val * val := (k, v, s).
Definition Cf (autoinc notnull : bool) (maxlen : N) (check ucomp : bool) : cfg := mkCfg autoinc notnull maxlen check ucomp.

Inductive obs :=
| OSame (ok : bool)                              (* table equal to the previously observed one *)
| OTab (ok : bool) (rows : list (Z * val * val)).

Inductive case := CHist (g : cfg) (evs : list event) (os : list obs).

Definition row_eqb (a : Z * row) (b : Z * val * val) : bool :=
  (fst a =? fst (fst b))%Z && val_eqb (r_v (snd a)) (snd (fst b)) && val_eqb (r_s (snd a)) (snd b).

Fixpoint rows_eqb (a : list (Z * row)) (b : list (Z * val * val)) : bool :=
  match a, b with
  | [], [] => true
  | x :: a', y :: b' => row_eqb x y && rows_eqb a' b'
  | _, _ => false
  end.

Fixpoint cmp (prev : list (Z * val * val)) (outs : list out) (os : list obs) : bool :=
  match outs, os with
  | [], [] => true
  | o :: outs', b :: os' =>
      match b with
      | OSame ok => Bool.eqb ok (o_ok o) && rows_eqb (o_rows o) prev && cmp prev outs' os'
      | OTab ok rows => Bool.eqb ok (o_ok o) && rows_eqb (o_rows o) rows && cmp rows outs' os'
      end
  | _, _ => false
  end.

(* the model of the code as it is: with the three repairs (c876bb2, 12bf3b7, a77403f) *)
Definition case_ok (c : case) : bool :=
  match c with
  | CHist g evs os => cmp [] (trace g fixed_code s_init evs) os
  end.
