(* correspondence glue for C15: one constructor per codec entry point; the harness records the
   inputs (as model values) and what the Go code produced; case_ok recomputes with the model *)
From V Require Export Base.Hex Store.Codec Store.ProtoConv SQL.KeyEnc.

Definition txmd_eqb (a b : txmd) : bool :=
  opt_eqb N.eqb (md_trunc a) (md_trunc b) && opt_eqb bytes_eqb (md_extra a) (md_extra b).
Definition kvmd_eqb (a b : kvmd) : bool :=
  Bool.eqb (kv_deleted a) (kv_deleted b) && opt_eqb N.eqb (kv_expires a) (kv_expires b) &&
  Bool.eqb (kv_nonindexable a) (kv_nonindexable b).
(* a nil *TxMetadata / *KVMetadata and an empty one are the same observable *)
Definition omd_norm (m : option txmd) : txmd := match m with Some m => m | None => txmd_empty end.
Definition okv_norm (m : option kvmd) : kvmd := match m with Some m => m | None => kvmd_empty end.
Definition txhdr_eqb (a b : txhdr) : bool :=
  (h_id a =? h_id b) && bytes_eqb (h_prevalh a) (h_prevalh b) && (h_ts a =? h_ts b) &&
  (h_version a =? h_version b) && txmd_eqb (omd_norm (h_md a)) (omd_norm (h_md b)) &&
  (h_nentries a =? h_nentries b) && bytes_eqb (h_eh a) (h_eh b) && (h_bltxid a =? h_bltxid b) &&
  bytes_eqb (h_blroot a) (h_blroot b).
Definition xentry_eqb (a b : xentry) : bool :=
  bytes_eqb (x_key a) (x_key b) && kvmd_eqb (okv_norm (x_md a)) (okv_norm (x_md b)) &&
  bytes_eqb (x_val a) (x_val b).

Definition sqlval_eqb (a b : sqlval) : bool :=
  match a, b with
  | VNull, VNull => true
  | VInt x, VInt y => Z.eqb x y
  | VBool x, VBool y => Bool.eqb x y
  | VStr x, VStr y | VBlob x, VBlob y | VUuid x, VUuid y => bytes_eqb x y
  | VTs x, VTs y => Z.eqb x y
  | VFloat x, VFloat y => N.eqb x y
  | _, _ => false
  end.
Definition cmp_eqb (a b : comparison) : bool :=
  match a, b with Eq, Eq | Lt, Lt | Gt, Gt => true | _, _ => false end.
Definition pair_eqb {A B} (ea : A -> A -> bool) (eb : B -> B -> bool) (x y : A * B) : bool :=
  ea (fst x) (fst y) && eb (snd x) (snd y).

Definition p_txmd_eqb (a b : p_txmd) : bool :=
  (pt_trunc a =? pt_trunc b) && bytes_eqb (pt_extra a) (pt_extra b).
Definition p_kvmd_eqb (a b : p_kvmd) : bool :=
  Bool.eqb (pk_deleted a) (pk_deleted b) && opt_eqb N.eqb (pk_exp a) (pk_exp b) &&
  Bool.eqb (pk_nonidx a) (pk_nonidx b).
(* messages are compared field by field, a nil sub-message only with a nil one *)
Definition p_hdr_eqb (a b : p_hdr) : bool :=
  (ph_id a =? ph_id b) && bytes_eqb (ph_prevalh a) (ph_prevalh b) && (ph_ts a =? ph_ts b) &&
  (ph_version a =? ph_version b) && opt_eqb p_txmd_eqb (ph_md a) (ph_md b) &&
  (ph_nentries a =? ph_nentries b) && bytes_eqb (ph_eh a) (ph_eh b) &&
  (ph_bltxid a =? ph_bltxid b) && bytes_eqb (ph_blroot a) (ph_blroot b).
(* store headers coming back from a message: a nil metadata pointer only equals a nil one *)
Definition txhdr_eqb_strict (a b : txhdr) : bool :=
  txhdr_eqb a b && opt_eqb txmd_eqb (h_md a) (h_md b).
Definition p_entry_eqb (a b : p_entry) : bool :=
  bytes_eqb (pe_key a) (pe_key b) && opt_eqb p_kvmd_eqb (pe_md a) (pe_md b) &&
  bytes_eqb (pe_hvalue a) (pe_hvalue b) && (pe_vlen a =? pe_vlen b).
Definition s_entry_eqb (a b : s_entry) : bool :=
  bytes_eqb (se_key a) (se_key b) && opt_eqb kvmd_eqb (se_md a) (se_md b) &&
  (se_vlen a =? se_vlen b) && bytes_eqb (se_hval a) (se_hval b).

Inductive case :=
(* protocol conversions (database_protoconv.go): store value, the message XToProto built from it,
   and what XFromProto made of that message; or a hand-made message and its XFromProto *)
| CPTxMd (m : txmd) (p : p_txmd) (back : txmd)
| CPTxMdFrom (p : p_txmd) (back : txmd)
| CPKvMd (m : kvmd) (p : p_kvmd) (back : kvmd)
| CPHdr (h : txhdr) (p : p_hdr) (back : txhdr)
| CPHdrFrom (p : p_hdr) (back : txhdr)
| CPEntry (e : s_entry) (p : p_entry) (back : s_entry)
(* schema.DigestsFromProto of a list of byte strings of any lengths *)
| CPDigests (l : list bytes) (back : list bytes)
(* EncodeRawValueAsKey(v, ty, maxLen) with sql.MaxKeyLen = mkl: (key, n) or error *)
| CKey (mkl : N) (ty : sqltype) (maxLen : N) (v : sqlval) (out : res (bytes * N))
(* DecodeValueFromKey(buf, ty, maxLen): (value, consumed) or error *)
| CKeyDec (ty : sqltype) (maxLen : N) (buf : bytes) (out : res (sqlval * N))
(* EncodeRawValue(v, ty, maxLen, nullable) *)
| CVal (ty : sqltype) (maxLen : N) (nullable : bool) (v : sqlval) (out : res bytes)
(* decodeValue(buf, ty, nullable) through DecodeValue / DecodeNullableValue *)
| CValDec (ty : sqltype) (nullable : bool) (buf : bytes) (out : res (sqlval * N))
(* two values of one column: bytes.Compare of their keys and a.Compare(b) as the engine computes it *)
| CPair (mkl : N) (ty : sqltype) (maxLen : N) (a b : sqlval) (kc : comparison) (sc : option comparison)
(* an index entry key found in the store after the engine indexed a row *)
| CIndex (mkl : N) (prefix : bytes) (tid iid : N) (cols : list col) (vals : list sqlval)
         (pkcols : list col) (pkvals : list sqlval) (key : bytes)
(* store codecs: Bytes() of a value built through the public API, and ReadFrom of those bytes *)
| CTxMd (m : txmd) (bs : bytes) (back : res txmd)
| CKvMd (m : kvmd) (bs : bytes) (back : res kvmd)
| CHdr (h : txhdr) (bs : res bytes) (back : res txhdr)
(* ExportTx bytes of a committed transaction (header, entries as read from the primary) and the
   transaction as read back from a replica that accepted these bytes through ReplicateTx *)
| CExport (h : txhdr) (es : list xentry) (tr : bool) (bs : bytes) (rh : txhdr) (res_ : list xentry).

Definition case_ok (c : case) : bool :=
  match c with
  | CPTxMd m p back => p_txmd_eqb (txmd_to_proto m) p && txmd_eqb (txmd_from_proto p) back
  | CPTxMdFrom p back => txmd_eqb (txmd_from_proto p) back
  | CPKvMd m p back => p_kvmd_eqb (kvmd_to_proto m) p && kvmd_eqb (kvmd_from_proto p) back
  | CPHdr h p back => p_hdr_eqb (txhdr_to_proto h) p && txhdr_eqb_strict (txhdr_from_proto p) back
  | CPHdrFrom p back => txhdr_eqb_strict (txhdr_from_proto p) back
  | CPEntry e p back => p_entry_eqb (entry_to_proto e) p && s_entry_eqb (entry_from_proto p) back
  | CPDigests l back => list_eqb bytes_eqb (digests_from_proto l) back
  | CKey mkl ty ml v out => res_eqb (pair_eqb bytes_eqb N.eqb) (enc_key mkl ty ml v) out
  | CKeyDec ty ml buf out => res_eqb (pair_eqb sqlval_eqb N.eqb) (dec_key ty ml buf) out
  | CVal ty ml nullable v out => res_eqb bytes_eqb (enc_val ty ml nullable v) out
  | CValDec ty nullable buf out => res_eqb (pair_eqb sqlval_eqb N.eqb) (dec_val ty nullable buf) out
  | CPair mkl ty ml a b kc sc =>
      match enc_key mkl ty ml a, enc_key mkl ty ml b with
      | Ok (ka, _), Ok (kb, _) => cmp_eqb (bcmp ka kb) kc && opt_eqb cmp_eqb (sql_compare a b) sc
      | _, _ => false
      end
  | CIndex mkl prefix tid iid cols vals pkcols pkvals key =>
      res_eqb bytes_eqb (index_key mkl prefix tid iid cols vals pkcols pkvals) (Ok key)
  | CTxMd m bs back => bytes_eqb (txmd_bytes m) bs && res_eqb txmd_eqb (txmd_read bs) back
  | CKvMd m bs back => bytes_eqb (kvmd_bytes m) bs && res_eqb kvmd_eqb (kvmd_read bs) back
  | CHdr h bs back =>
      res_eqb bytes_eqb (txhdr_bytes h) bs &&
      match bs with Ok b => res_eqb txhdr_eqb (txhdr_read b) back | _ => true end
  | CExport h es tr bs rh res_ =>
      match txhdr_bytes h with
      | Ok hb =>
          bytes_eqb (export_tx hb es tr) bs &&
          match repl_parse bs with
          | Ok (ph, pes, ptr) =>
              txhdr_eqb ph rh && list_eqb xentry_eqb pes res_ && Bool.eqb ptr tr
          | _ => false
          end
      | _ => false
      end
  end.
