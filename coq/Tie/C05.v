(* correspondence glue for C05: one case = one schedule of read-write transaction programs,
   write-only committers and commits executed on a real store under the harness's control
   (one goroutine), every step carrying what the implementation returned.  case_ok runs the
   machine of MVCC/Validate.v on the same steps and compares every result and commit outcome.
   Errors are compared by class only: not-found (ErrKeyNotFound incl. ErrExpiredEntry), no more
   entries, read conflict, any other error. *)
From V Require Export Base.Hex MVCC.Validate.

(* short constructors used by the generated case files *)
Definition hx := hex.
Definition E (k v : bytes) (tx : N) (del exp : bool) : entry := mkE k v tx del exp.
Definition W (k v : bytes) (del exp tr : bool) : wentry := mkW k v del exp tr.
Definition RS (seek endk prefix : bytes) (iseek iend desc : bool) : rspec :=
  mkRS seek endk prefix iseek iend desc.

Inductive sstep :=
| SBegin (tid sid : N)                                   (* sid = Ts() of the snapshot the tx got *)
| SOp (tid : N) (o : op) (b : obs)
| SCommit (tid : N) (out : outcome) (txid : N)
| SCancel (tid : N)
| SWO (ws : list wentry) (out : outcome) (txid : N).

Inductive case := Case (steps : list sstep).

(* the value of a committed expired entry cannot be resolved (valueRef.Resolve fails with
   ErrExpiredEntry): the harness records it as empty *)
Definition norm (e : entry) : entry :=
  if e_exp e && negb (own e) then mkE (e_key e) [] (e_tx e) (e_del e) (e_exp e) else e.

Definition entry_eqb (a b : entry) : bool :=
  bytes_eqb (e_key a) (e_key b) && bytes_eqb (e_val a) (e_val b) && (e_tx a =? e_tx b) &&
  Bool.eqb (e_del a) (e_del b) && Bool.eqb (e_exp a) (e_exp b).

Definition obs_eqb (m i : obs) : bool :=
  match m, i with
  | BNotFound, BNotFound | BNoMore, BNoMore | BOk, BOk | BErr, BErr => true
  | BFound a, BFound b => entry_eqb (norm a) b
  | _, _ => false
  end.

Definition outcome_eqb (a b : outcome) : bool :=
  match a, b with
  | CCommitted, CCommitted | CConflict, CConflict | COther, COther => true
  | _, _ => false
  end.

Definition gout_eqb (m : gout) (s : sstep) : bool :=
  match m, s with
  | UNone, SBegin _ _ => true
  | UNone, SCancel _ => true
  | UObs a, SOp _ _ b => obs_eqb a b
  | UOut a ta, SCommit _ b tb => outcome_eqb a b && (match a with CCommitted => ta =? tb | _ => true end)
  | UOut a ta, SWO _ b tb => outcome_eqb a b && (match a with CCommitted => ta =? tb | _ => true end)
  | _, _ => false
  end.

Definition to_gstep (s : sstep) : gstep :=
  match s with
  | SBegin t sid => GBegin t sid
  | SOp t o _ => GOp t o
  | SCommit t _ _ => GCommit t
  | SCancel t => GCancel t
  | SWO ws _ _ => GWriteOnly ws
  end.

Fixpoint steps_ok (g : gstate) (ss : list sstep) : bool :=
  match ss with
  | [] => true
  | s :: r => let '(g', o) := gexec g (to_gstep s) in gout_eqb o s && steps_ok g' r
  end.

Definition case_ok (c : case) : bool :=
  match c with Case ss => steps_ok (g_init []) ss end.
