(* correspondence glue for C07: a case is a whole delivery schedule that was run on real stores
   (embedded/store) or on real pkg/database instances; case_ok replays it on the model with the
   executable SHA-256 and compares, after every step, acceptance and the store's
   (committed id, committed Alh, precommitted id, precommitted Alh). *)
From V Require Export Base.Hex Merkle.Sha256 Repl.Model.

From Coq Require Export Uint63.

Definition Hs := sha256.

(* byte strings in case files: 7 bytes per primitive-integer literal (big endian), n = length *)
Definition i2bytes7 (w : int) : bytes :=
  map (fun k => Z.to_N (to_Z ((w >> k) land 255)%uint63)) [48; 40; 32; 24; 16; 8; 0]%uint63.
Definition ib (n : N) (ws : list int) : bytes := take n (concat (map i2bytes7 ws)).
Definition patch (b : bytes) (off : N) (x : bytes) : bytes :=
  take off b ++ x ++ drop (off + len x) b.

(* CurrentState of a store: CommittedAlh() and PrecommittedAlh() *)
Inductive obs := Obs (cid : N) (calh : bytes) (pid : N) (palh : bytes).

Definition obs_of (st : store) : obs :=
  Obs (com_id st) (com_alh Hs st) (pre_id st) (pre_alh Hs st).
Definition obs_eqb (a b : obs) : bool :=
  match a, b with
  | Obs c1 a1 p1 b1, Obs c2 a2 p2 b2 => (c1 =? c2) && bytes_eqb a1 a2 && (p1 =? p2) && bytes_eqb b1 b2
  end.

Inductive step :=
(* ReplicateTx(b, skipIntegrityCheck) under a 250 ms context: Ok tt = a header was returned,
   Err = an error, Panic = the call panicked *)
| SDeliver (skip : bool) (b : bytes) (out : res unit) (after : obs)
(* concurrent ReplicateTx calls (one goroutine each), listed by ascending header id; number of
   calls that returned a header *)
| SBatch (skip : bool) (bs : list bytes) (accepted : N) (after : obs)
| SAllow (t : N) (ok : bool) (after : obs)                  (* store.AllowCommitUpto *)
| SDbAllow (t : N) (a : bytes) (ok : bool) (after : obs)    (* database.AllowCommitUpto(t, alh) *)
| SDiscard (t : N) (out : res N) (after : obs)              (* DiscardPrecommittedTxsSince *)
| SRestart (after : obs).                                   (* Close + Open *)

Definition unit_eqb (a b : unit) : bool := true.

Definition deliver_all (c : cfg) (skip : bool) (st : store) (bs : list bytes) : store * N :=
  fold_left (fun acc b =>
               match replicate Hs c skip (fst acc) b with
               | Ok st' => (st', snd acc + 1)
               | _ => (replicate_st Hs c skip (fst acc) b, snd acc)
               end) bs (st, 0).

(* one step of the replay: the model's next state, or None when model and implementation differ *)
Definition step_ok (c : cfg) (st : store) (s : step) : option store :=
  match s with
  | SDeliver skip b out after =>
      let r := replicate Hs c skip st b in
      let st' := replicate_st Hs c skip st b in
      if res_eqb unit_eqb (match r with Ok _ => Ok tt | Err e => Err e | Panic => Panic end) out
         && obs_eqb (obs_of st') after then Some st' else None
  | SBatch skip bs n after =>
      let '(st', k) := deliver_all c skip st bs in
      if (k =? n) && obs_eqb (obs_of st') after then Some st' else None
  | SAllow t ok after =>
      let r := allow_commit c st t in
      let st' := match r with Ok s' => s' | _ => st end in
      if Bool.eqb (is_ok r) ok && obs_eqb (obs_of st') after then Some st' else None
  | SDbAllow t a ok after =>
      let r := db_allow Hs c st t a in
      let st' := match r with Ok s' => s' | _ => st end in
      if Bool.eqb (is_ok r) ok && obs_eqb (obs_of st') after then Some st' else None
  | SDiscard t out after =>
      let r := discard st t in
      let st' := match r with Ok (s', _) => s' | _ => st end in
      if res_eqb N.eqb (match r with Ok (_, n) => Ok n | Err e => Err e | Panic => Panic end) out
         && obs_eqb (obs_of st') after then Some st' else None
  | SRestart after =>
      let st' := restart Hs c st in
      if obs_eqb (obs_of st') after then Some st' else None
  end.

Fixpoint run_steps (c : cfg) (st : store) (l : list step) : bool :=
  match l with
  | [] => true
  | s :: r => match step_ok c st s with Some st' => run_steps c st' r | None => false end
  end.

(* synchronous replication between one primary database and several replica databases *)
Inductive dstep :=
(* the primary precommitted a transaction of its own; a = Alh of its header *)
| DNew (a : bytes)
(* ExportTxByID carrying a replica state: did it return without error, the
   (mayCommitUpToTxID, mayCommitUpToAlh) of the reply, the primary's committed id afterwards *)
| DReport (u cid : N) (calh : bytes) (pid : N) (palh : bytes) (ok : bool) (mayid : N) (mayalh : bytes) (pcom : N)
(* a step on replica number r *)
| DRep (r : N) (s : step).

Fixpoint set_nth {A} (n : nat) (l : list A) (x : A) : list A :=
  match l, n with
  | [], _ => []
  | _ :: t, O => x :: t
  | y :: t, S n' => y :: set_nth n' t x
  end.

Definition dstep_ok (acks : N) (c : cfg) (st : primary * list store) (s : dstep) : option (primary * list store) :=
  let '(p, rs) := st in
  match s with
  | DNew a => Some (p_precommit p a, rs)
  | DReport u cid calh pid palh ok mayid mayalh pcom =>
      let r := p_report Hs acks p {| r_uuid := u; r_cid := cid; r_calh := calh; r_pid := pid; r_palh := palh |} in
      match r with
      | Ok (p', (mi, ma)) =>
          if ok && (mi =? mayid) && bytes_eqb ma mayalh && (p_com p' =? pcom) then Some (p', rs) else None
      | _ => if negb ok && (p_com p =? pcom) then Some (p, rs) else None
      end
  | DRep r s =>
      match nth_error rs (N.to_nat r) with
      | None => None
      | Some rst =>
          match step_ok c rst s with
          | Some rst' => Some (p, set_nth (N.to_nat r) rs rst')
          | None => None
          end
      end
  end.

Fixpoint run_dsteps (acks : N) (c : cfg) (st : primary * list store) (l : list dstep) : bool :=
  match l with
  | [] => true
  | s :: r => match dstep_ok acks c st s with Some st' => run_dsteps acks c st' r | None => false end
  end.

(* ---- a SYNCED replica store (Options.Synced = true, no background sync within the case, external
   commit allowance): the three frontiers committed <= durably precommitted <= precommitted in memory
   differ; only an explicit Sync() makes precommitted transactions durable and commits the allowed
   ones.  The durable frontier is kept beside the model's store (this wrapper is an executable
   oracle of the tie; the theorems are about the unsynced store). ---- *)
(* what the store reports: CommittedAlh(), PrecommittedAlh() (the DURABLE precommitted transaction),
   LastPrecommittedTxID() (in memory) *)
Inductive yobs := YObs (cid : N) (calh : bytes) (did : N) (dalh : bytes) (mid : N).

Definition yobs_of (st : store) (d : N) : yobs :=
  let '(did, dalh) :=
    if d =? com_id st then (com_id st, com_alh Hs st)
    else if d =? pre_id st then (pre_id st, pre_alh Hs st)
    else (d, match alh_at st d with Some a => a | None => [] end) in
  YObs (com_id st) (com_alh Hs st) did dalh (pre_id st).
Definition yobs_eqb (a b : yobs) : bool :=
  match a, b with
  | YObs c1 a1 d1 b1 m1, YObs c2 a2 d2 b2 m2 =>
      (c1 =? c2) && bytes_eqb a1 a2 && (d1 =? d2) && bytes_eqb b1 b2 && (m1 =? m2)
  end.

Inductive ystep :=
| YsDeliver (skip : bool) (b : bytes) (after : yobs)   (* ReplicateTx; it returns when its context expires *)
| YsSync (after : yobs)                                (* ImmuStore.Sync() *)
| YsAllow (t : N) (ok : bool) (after : yobs)           (* AllowCommitUpto: takes effect at the next Sync *)
| YsDiscard (t : N) (out : res N) (after : yobs).

(* state: the model's store (its allowance is kept equal to the committed id, so that performPrecommit's
   inline mayCommit does nothing, as in a synced store), the durable frontier, the pending allowance *)
Definition ystep_ok (c : cfg) (sda : store * N * N) (s : ystep) : option (store * N * N) :=
  let '(st, d, al) := sda in
  match s with
  | YsDeliver skip b after =>
      let st' := replicate_st Hs c skip st b in
      if yobs_eqb (yobs_of st' d) after then Some (st', d, al) else None
  | YsSync after =>
      let st' := may_commit c {| s_com := s_com st; s_tail := s_tail st; s_allowed := al;
                                 s_ghost := s_ghost st; s_cap := s_cap st |} in
      let st'' := {| s_com := s_com st'; s_tail := s_tail st'; s_allowed := com_id st';
                     s_ghost := s_ghost st'; s_cap := s_cap st' |} in
      let d' := pre_id st in
      if yobs_eqb (yobs_of st'' d') after then Some (st'', d', al) else None
  | YsAllow t ok after =>
      let r := if negb (c_ext c) then None
               else if t <=? al then Some al
               else Some (if pre_id st <? t then pre_id st else t) in
      let al' := match r with Some x => x | None => al end in
      if Bool.eqb (match r with Some _ => true | None => false end) ok && yobs_eqb (yobs_of st d) after
      then Some (st, d, al') else None
  | YsDiscard t out after =>
      let r := discard st t in
      let st' := match r with Ok (s', _) => s' | _ => st end in
      let d' := if pre_id st' <? d then pre_id st' else d in
      if res_eqb N.eqb (match r with Ok (_, n) => Ok n | Err e => Err e | Panic => Panic end) out
         && yobs_eqb (yobs_of st' d') after then Some (st', d', al) else None
  end.

Fixpoint run_ysteps (c : cfg) (sda : store * N * N) (l : list ystep) : bool :=
  match l with
  | [] => true
  | s :: r => match ystep_ok c sda s with Some x => run_ysteps c x r | None => false end
  end.

Inductive case :=
| CSynced (c : cfg) (steps : list ystep)
| CStore (c : cfg) (steps : list step)
| CSync (acks : N) (c : cfg) (nrep : N) (steps : list dstep)
(* TxHeader.Alh() of a header read from the primary *)
| CAlh (h : txhdr) (a : bytes).

Definition case_ok (c : case) : bool :=
  match c with
  | CSynced c steps => run_ysteps c (store_open c, 0, 0) steps
  | CStore c steps => run_steps c (store_open c) steps
  | CSync acks c nrep steps =>
      run_dsteps acks c (primary_init, repeat (store_open c) (N.to_nat nrep)) steps
  | CAlh h a => bytes_eqb (alh Hs h) a
  end.
