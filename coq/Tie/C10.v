(* correspondence glue for C10: one case = one configuration + one operation sequence run on a
   real tbtree in a temp dir, every operation carrying what the implementation returned.
   case_ok replays the sequence on the model (Index/TBState.v over Index/BTree.v) and compares
   every output.  Errors are compared as "an error" only (never their text or kind). *)
From V Require Export Base.Hex Index.TBState.

(* short constructors used by the generated case files *)
Definition hx := hex.
(* compact byte strings (at most 15 bytes): length in the low 4 bits, big-endian value above *)
Definition y (x : N) : bytes := be_enc (N.to_nat (x mod 16)) (x / 16).
Definition KV (k v t : N) : kvt := (y k, y v, t).
Definition E4 (k v t h : N) : bytes * bytes * N * N := (y k, y v, t, h).
Definition TV (v t : N) : tv := (y v, t).
Definition V3 (v t h : N) : bytes * N * N := (y v, t, h).
Definition CF (maxn maxkey maxval flush maxbuf : N) (cleanup : bool) (cthld maxsnaps : N) : config :=
  {| c_maxn := maxn; c_maxkey := maxkey; c_maxval := maxval; c_flush_thld := flush;
     c_max_buffered := maxbuf; c_cleanup := cleanup; c_compaction_thld := cthld; c_max_snaps := maxsnaps |}.
Definition RS (seek endk prefix : N) (incSeek incEnd desc : bool) (off : N) : rspec :=
  {| rs_seek := y seek; rs_end := y endk; rs_prefix := y prefix; rs_incl_seek := incSeek;
     rs_incl_end := incEnd; rs_desc := desc; rs_offset := off |}.

Inductive target := TCur | TSnap (id : N).

Definition e4 : Type := (bytes * bytes * N * N)%type.   (* key value ts hc *)
Definition v3 : Type := (bytes * N * N)%type.           (* value ts hc *)

Inductive op :=
| OInsert (kvts : list kvt) (ok : bool)
| OIncTs (ts : N) (ok : bool)
| OFlush (pct : bool)                       (* FlushWith(pct, _) / Flush() *)
| OSync
| OCompact (out : option N)
| OReopen (ok : bool)
| OSnap (id ts : N) (renew : bool) (out : option N)   (* Some (snapshot Ts()) *)
| OSnapClose (id : N) (ok : bool)
| OTs (t : target) (out : N)
| OGet (t : target) (k : bytes) (out : option v3)
| OGetBetween (t : target) (k : bytes) (i f : N) (out : option v3)
| OHistory (t : target) (k : bytes) (off : N) (desc : bool) (limit : N) (out : option (versions * N))
| OGetPrefix (t : target) (prefix neq : bytes) (out : option e4)
| ORead (id : N) (s : rspec) (mode : rmode) (out : option (list e4))
| OHistRead (id : N) (k : bytes) (off : N) (desc : bool) (limit : N) (out : list versions).

Inductive case := Case (cfg : config) (ops : list op).

Definition tv_eqb (a b : tv) : bool := bytes_eqb (fst a) (fst b) && (snd a =? snd b).
Definition v3_eqb (a b : v3) : bool :=
  bytes_eqb (fst (fst a)) (fst (fst b)) && (snd (fst a) =? snd (fst b)) && (snd a =? snd b).
Definition e4_eqb (a b : e4) : bool :=
  let '(k1, v1, t1, h1) := a in let '(k2, v2, t2, h2) := b in
  bytes_eqb k1 k2 && bytes_eqb v1 v2 && (t1 =? t2) && (h1 =? h2).
Definition vers_eqb := list_eqb tv_eqb.

Definition tree_of (st : tbstate) (t : target) : option node :=
  match t with TCur => Some (s_root st) | TSnap id => snap_find id st end.

Definition hres_out (h : hres) : option (versions * N) :=
  match h with HOk l hc => Some (l, hc) | _ => None end.
Definition res_opt {A} (r : res (option A)) : option (option A) :=
  match r with Ok x => Some x | _ => None end.

(* one step: new state and whether the recorded output agrees *)
Definition step (cfg : config) (st : tbstate) (o : op) : tbstate * bool :=
  match o with
  | OInsert kvts ok => let '(st', b) := bulk_insert cfg kvts st in (st', Bool.eqb b ok)
  | OIncTs ts ok => let '(st', b) := increase_ts cfg ts st in (st', Bool.eqb b ok)
  | OFlush pct => (flush_tree cfg pct true st, true)
  | OSync => (flush_tree cfg false false st, true)
  | OCompact out => let '(st', r) := compact cfg st in (st', opt_eqb N.eqb r out)
  | OReopen ok => let '(st', b) := reopen cfg st in (st', Bool.eqb b ok)
  | OSnap id ts renew out =>
      let '(st', r) := snapshot cfg id ts renew st in
      (st', opt_eqb N.eqb (option_map node_ts r) out)
  | OSnapClose id ok => let '(st', b) := snap_close id st in (st', Bool.eqb b ok)
  | OTs t out => (st, match tree_of st t with Some n => node_ts n =? out | None => false end)
  | OGet t k out =>
      (st, match tree_of st t with Some n => opt_eqb v3_eqb (get n k) out | None => false end)
  | OGetBetween t k i f out =>
      (st, match tree_of st t with
           | Some n => opt_eqb v3_eqb (get_between (s_h0 st) n k i f) out
           | None => false end)
  | OHistory t k off desc limit out =>
      (st, match tree_of st t with
           | Some n => opt_eqb (fun a b => vers_eqb (fst a) (fst b) && (snd a =? snd b))
                         (hres_out (history n k off desc limit)) out
           | None => false end)
  | OGetPrefix t p neq out =>
      (st, match tree_of st t with
           | Some n => match get_with_prefix n p neq with
                       | Ok r => opt_eqb e4_eqb r out
                       | _ => false
                       end
           | None => false end)
  | ORead id s mode out =>
      (st, match snap_find id st with
           | Some n =>
               match new_reader (c_maxkey cfg) s with
               | None => is_nil (match out with None => [] | Some _ => [tt] end)
               | Some s' => match read_all (s_h0 st) n s' mode, out with
                            | Ok l, Some l' => list_eqb e4_eqb l l'
                            | _, _ => false
                            end
               end
           | None => false end)
  | OHistRead id k off desc limit out =>
      (st, match snap_find id st with
           | Some n =>
               list_eqb vers_eqb
                 (history_reads (S (length (flatten n)) + N.to_nat (match lookup n k with
                                                                    | Some lv => lv_history_count lv
                                                                    | None => 0 end))
                    n k off desc limit) out
           | None => false end)
  end.

Fixpoint run (cfg : config) (st : tbstate) (ops : list op) : bool :=
  match ops with
  | [] => true
  | o :: r => let '(st', b) := step cfg st o in if b then run cfg st' r else false
  end.

Definition case_ok (c : case) : bool :=
  match c with Case cfg ops => run cfg init_state ops end.
