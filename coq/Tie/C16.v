(* correspondence glue for C16: one constructor per decoder entry point *)
From V Require Export Base.Hex Store.Codec Store.AppMeta.

Definition txmd_eqb (a b : txmd) : bool :=
  opt_eqb N.eqb (md_trunc a) (md_trunc b) && opt_eqb bytes_eqb (md_extra a) (md_extra b).
Definition kvmd_eqb (a b : kvmd) : bool :=
  Bool.eqb (kv_deleted a) (kv_deleted b) && opt_eqb N.eqb (kv_expires a) (kv_expires b) &&
  Bool.eqb (kv_nonindexable a) (kv_nonindexable b).
(* a nil *TxMetadata and an empty one are the same observable *)
Definition omd_norm (m : option txmd) : txmd := match m with Some m => m | None => txmd_empty end.
Definition txhdr_eqb (a b : txhdr) : bool :=
  (h_id a =? h_id b) && bytes_eqb (h_prevalh a) (h_prevalh b) && (h_ts a =? h_ts b) &&
  (h_version a =? h_version b) && txmd_eqb (omd_norm (h_md a)) (omd_norm (h_md b)) &&
  (h_nentries a =? h_nentries b) && bytes_eqb (h_eh a) (h_eh b) && (h_bltxid a =? h_bltxid b) &&
  bytes_eqb (h_blroot a) (h_blroot b).

Inductive case :=
| CTxMd (inp : bytes) (out : res txmd)
| CKvMd (inp : bytes) (out : res kvmd)
| CHdr (inp : bytes) (out : res txhdr)
(* ReplicateTx on a real store: did it panic, did it return an error, did the store's
   (precommitted id, committed id) change *)
| CRepl (inp : bytes) (panicked errored changed : bool)
(* appendable.NewMetadata(inp) then Get / GetInt / GetBool of a key: panicked?, what came back *)
| CAppMd (inp key : bytes) (panicked : bool) (got : option bytes) (gotint : option N) (gotbool : option bool).

Definition case_ok (c : case) : bool :=
  match c with
  | CTxMd i o => res_eqb txmd_eqb (txmd_read i) o
  | CKvMd i o => res_eqb kvmd_eqb (kvmd_read i) o
  | CHdr i o => res_eqb txhdr_eqb (txhdr_read i) o
  | CRepl i panicked errored changed =>
      negb panicked &&
      (if is_ok (repl_parse i) then true else errored) &&
      (if errored then negb changed else true)
  | CAppMd i k panicked got gi gb =>
      negb panicked &&
      opt_eqb bytes_eqb (appmd_get i k) got &&
      res_eqb (opt_eqb N.eqb) (appmd_get_int i k) (Ok gi) &&
      res_eqb (opt_eqb Bool.eqb) (appmd_get_bool i k) (Ok gb)
  end.

