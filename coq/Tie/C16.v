(* correspondence glue for C16: one constructor per decoder entry point *)
From V Require Export Base.Hex Store.Codec Store.AppMeta Wire.PgMsg Wire.Stream Store.OpenTime SQLLex.Lexer.

Definition txmd_eqb (a b : txmd) : bool :=
  opt_eqb N.eqb (md_trunc a) (md_trunc b) && opt_eqb bytes_eqb (md_extra a) (md_extra b).
Definition kvmd_eqb (a b : kvmd) : bool :=
  Bool.eqb (kv_deleted a) (kv_deleted b) && opt_eqb N.eqb (kv_expires a) (kv_expires b) &&
  Bool.eqb (kv_nonindexable a) (kv_nonindexable b).
(* a nil *TxMetadata and an empty one are the same observable *)
Definition omd_norm (m : option txmd) : txmd := match m with Some m => m | None => txmd_empty end.
Definition txhdr_eqb (a b : txhdr) : bool :=
  (h_id a =? h_id b) && bytes_eqb (h_prevalh a) (h_prevalh b) && (h_ts a =? h_ts b) &&
  (h_version a =? h_version b) && txmd_eqb (omd_norm (h_md a)) (omd_norm (h_md b)) &&
  (h_nentries a =? h_nentries b) && bytes_eqb (h_eh a) (h_eh b) && (h_bltxid a =? h_bltxid b) &&
  bytes_eqb (h_blroot a) (h_blroot b).

(* ---------------- PostgreSQL wire messages ---------------- *)
(* switch to true when fixes/C16-pgsql-bind-param-length.diff is committed in /repo *)
Definition pg_bind_is_fixed : bool := true.

Definition z_eqb := Z.eqb.
(* a parameter value is compared as (bytes without trailing zeroes, total length) *)
Fixpoint strip0 (l : bytes) : bytes :=
  match l with
  | [] => []
  | x :: r => match strip0 r with
              | [] => if x =? 0 then [] else [x]
              | r' => x :: r'
              end
  end.
Definition pval_eqb (a b : pval) : bool :=
  match a, b with
  | PNull, PNull => true
  | PText d p, PText d' p' | PBin d p, PBin d' p' =>
      bytes_eqb (strip0 d) (strip0 d') && (len d + p =? len d' + p')
  | _, _ => false
  end.
Definition bindmsg_eqb (a b : bindmsg) : bool :=
  bytes_eqb (b_portal a) (b_portal b) && bytes_eqb (b_stmt a) (b_stmt b) &&
  list_eqb pval_eqb (b_params a) (b_params b) && list_eqb Z.eqb (b_rcodes a) (b_rcodes b).
Definition parsemsg_eqb (a b : parsemsg) : bool :=
  bytes_eqb (p_name a) (p_name b) && bytes_eqb (p_query a) (p_query b) &&
  Z.eqb (p_count a) (p_count b) && list_eqb Z.eqb (p_oids a) (p_oids b).
Definition pgmsg_eqb (a b : pgmsg) : bool :=
  match a, b with
  | MPassword x, MPassword y | MQuery x, MQuery y | MCopyData x, MCopyData y | MCopyFail x, MCopyFail y => bytes_eqb x y
  | MTerminate, MTerminate | MSync, MSync | MFlush, MFlush | MCopyDone, MCopyDone => true
  | MParse x, MParse y => parsemsg_eqb x y
  | MBind x, MBind y => bindmsg_eqb x y
  | MDescribe t n, MDescribe t' n' => (t =? t') && bytes_eqb n n'
  | MExecute n r, MExecute n' r' => bytes_eqb n n' && Z.eqb r r'
  | _, _ => false
  end.
(* the bytes Go's allocator handed out during the call (runtime.MemStats.TotalAlloc) stay within a
   constant factor of the model's measure: size-class rounding, amortised append growth, small
   bookkeeping objects (readers, result structs, harness goroutine).
   Error values of immudb's pkg/errors capture a stack trace whose size depends on the depth of the
   caller, not on the input: their cost is taken out of the observation before the comparison --
   errbytes for the errors the caller received (computed by the harness from the length of each
   trace), errunit (the same for an error built at the depth of the receivers' Read) times the
   number of such errors the model says were constructed and dropped. *)
Definition alloc_ok (model observed : N) : bool := observed <=? 4 * model + 4096.
Definition frame_eqb (a b : N * bytes * bytes) : bool :=
  let '(t, p, r) := a in let '(t', p', r') := b in (t =? t') && bytes_eqb p p' && bytes_eqb r r'.

(* ---------------- pkg/stream receivers ---------------- *)
(* switch to true when fixes/C16-stream-message-length.diff is committed in /repo *)
Definition stream_is_fixed : bool := true.

(* errors of pkg/stream built with pkg/errors.New, which captures the goroutine's stack trace
   (debug.Stack: buffers of 1, 2, 4, .. KiB until the trace fits, plus the trace as a string) *)
Definition is_stack_err (e : N) : bool :=
  (e =? ESInvalidLength) || (e =? ESChunkTooSmall) || (e =? ESNotImplemented).

(* one step of the loop a stream handler runs on a msgReceiver: the byte strings it obtains and
   the number of stack-capturing error values constructed and DROPPED inside the step (the caller
   never sees them: exec-all ignores the error of the ReadValue of a ZAdd body) *)
Definition st_step := mrecv -> M (list bytes * N * mrecv).
Definition rd_step (bs : N) : st_step := fun r =>
  dom x <- mr_read stream_is_fixed bs r;
  match x with (RD d, r') => mret ([d], 0, r') | (REOF, _) => merr ESEOF end.
Definition kv_step (bs : N) : st_step := fun r =>
  dom x <- kv_next stream_is_fixed bs r; let '(k, r) := x in
  dom y <- read_value_e stream_is_fixed bs r; let '(v, r) := y in
  mret ([k; v], 0, r).
Definition z_step (bs : N) : st_step := fun r =>
  dom x <- z_next stream_is_fixed bs r; let '(set, key, score, attx, r) := x in
  dom y <- read_value_e stream_is_fixed bs r; let '(v, r) := y in
  mret ([set; key; be_enc 8 score; be_enc 8 attx; v], 0, r).
Definition ve_step (bs : N) : st_step := fun r =>
  dom x <- ventry_next stream_is_fixed bs r; let '(a, b, c, r) := x in
  dom y <- read_value_e stream_is_fixed bs r; let '(v, r) := y in
  mret ([a; b; c; v], 0, r).
Definition ea_step (bs : N) : st_step := fun r =>
  dom x <- execall_next stream_is_fixed bs r; let '(op, r) := x in
  match op with
  | EKv key => dom y <- read_value_e stream_is_fixed bs r; let '(v, r) := y in mret ([[1]; key; v], 0, r)
  | EZAdd _ dropped =>
      mret ([[2]], match dropped with Some e => if is_stack_err e then 1 else 0 | None => 0 end, r)
  end.
Definition st_step_of (kind bs : N) : st_step :=
  if kind =? 0 then rd_step bs else if kind =? 1 then kv_step bs else if kind =? 2 then z_step bs
  else if kind =? 3 then ve_step bs else ea_step bs.

(* the handler loop: at most cap steps, stops at the first error / panic:
   items, panicked?, bytes allocated, dropped stack-capturing errors *)
Fixpoint st_drive (step : st_step) (cap : nat) (r : mrecv) (acc : list (list bytes)) (al nd : N)
  : list (list bytes) * bool * N * N :=
  match cap with
  | O => (rev acc, false, al, nd)
  | S c =>
    let m := step r in
    match fst m with
    | Ok (item, d, r') => st_drive step c r' (item :: acc) (al + snd m) (nd + d)
    | Err _ => (rev acc, false, al + snd m, nd)
    | Panic => (rev acc, true, al + snd m, nd)
    end
  end.
Definition items_eqb := list_eqb (list_eqb bytes_eqb).

(* ---------------- open-time parsing of tbtree / ahtree ---------------- *)
(* switch to true when fixes/C16-tbtree-open-validation.diff resp.
   fixes/C16-ahtree-clog-entry-bounds.diff are committed in /repo *)
Definition tbtree_open_is_fixed : bool := true.
Definition ahtree_open_is_fixed : bool := true.

Definition clog_entry_eqb (a b : clog_entry) : bool :=
  Bool.eqb (ce_synced a) (ce_synced b) && Z.eqb (ce_inl a) (ce_inl b) && Z.eqb (ce_fnl a) (ce_fnl b) &&
  Z.eqb (ce_root a) (ce_root b) && bytes_eqb (ce_nck a) (ce_nck b) && Z.eqb (ce_ihl a) (ce_ihl b) &&
  Z.eqb (ce_fhl a) (ce_fhl b) && bytes_eqb (ce_hck a) (ce_hck b).
Definition res_class {A} (r : res A) : N := match r with Ok _ => 0 | Err _ => 1 | Panic => 2 end.
Definition z3_eqb (a b : Z * Z * Z) : bool :=
  let '(x, y, z) := a in let '(x', y', z') := b in Z.eqb x x' && Z.eqb y y' && Z.eqb z z'.
Definition z2_eqb (a b : Z * Z) : bool := Z.eqb (fst a) (fst b) && Z.eqb (snd a) (snd b).
Definition noderef_eqb (a b : noderef) : bool :=
  bytes_eqb (nr_minkey a) (nr_minkey b) && (nr_ts a =? nr_ts b) && Z.eqb (nr_off a) (nr_off b) &&
  Z.eqb (nr_minoff a) (nr_minoff b).
Definition leafval_eqb (a b : leafval) : bool :=
  bytes_eqb (lv_key a) (lv_key b) && bytes_eqb (lv_value a) (lv_value b) && (lv_ts a =? lv_ts b) &&
  Z.eqb (lv_hoff a) (lv_hoff b) && (lv_hcount a =? lv_hcount b).
Definition pnode_eqb (a b : pnode) : bool :=
  match a, b with
  | NInner x, NInner y => list_eqb noderef_eqb x y
  | NLeaf x, NLeaf y => list_eqb leafval_eqb x y
  | _, _ => false
  end.

Inductive case :=
| CTxMd (inp : bytes) (out : res txmd)
| CKvMd (inp : bytes) (out : res kvmd)
| CHdr (inp : bytes) (out : res txhdr)
(* ReplicateTx on a real store: did it panic, did it return an error, did the store's
   (precommitted id, committed id) change *)
| CRepl (inp : bytes) (panicked errored changed : bool)
(* appendable.NewMetadata(inp) then Get / GetInt / GetBool of a key: panicked?, what came back *)
| CAppMd (inp key : bytes) (panicked : bool) (got : option bytes) (gotint : option N) (gotbool : option bool)
(* session.parseRawMessage(t, payload) with pgmeta.MaxMsgSize = maxmsg: outcome, decoded message,
   bytes allocated during the call *)
| CPgMsg (maxmsg t : N) (payload : bytes) (out : res pgmsg) (allocated : N)
(* messageReader.ReadRawMessage on a connection delivering conn then EOF: (type, payload, unread rest) *)
| CPgFrame (maxmsg : N) (conn : bytes) (out : res (N * bytes * bytes)) (allocated : N)
(* a stream handler loop (kind 0: Read, 1: kv, 2: z, 3: verifiable entry, 4: exec-all) run for at
   most cap steps on a msgReceiver fed with the chunks, then io.EOF (final) or a transport error;
   bs = buffer / chunk size: the items obtained, panicked?, bytes allocated *)
| CStream (kind : N) (chunks : list bytes) (final : bool) (bs cap : N)
          (items : list (list bytes)) (panicked : bool) (allocated : N)
          (errbytes errunit : N)
(* msgReceiver.ReadFully *)
| CStFully (chunks : list bytes) (final : bool) (out : res bytes) (allocated errbytes : N)
(* tbtree: cLogEntry.deserialize + isValid on a 100-byte entry, and the outcome class of the two
   appendable.Checksum calls OpenWith makes for a valid entry (0 value or EOF, 1 other error, 2 panic) *)
| COtEntry (b : bytes) (e : clog_entry) (valid : bool) (ck : N)
(* tbtree.OpenWith on an empty commit log whose metadata block is md: (maxNodeSize, maxKeySize, maxValueSize) *)
| COtParams (md : bytes) (okey oval : Z) (out : res (Z * Z * Z))
(* tbtree readNodeAt(off) on a nodes log *)
| COtNode (log : bytes) (off : N) (out : res pnode) (allocated : N)
(* tbtree readTsFile on a file with content b *)
| COtTs (b : bytes) (out : res N)
(* ahtree.OpenWith: commit log size, its last entry, sizes of the payload and digest logs *)
| COtAhOpen (clog_size : Z) (entry : bytes) (pfile dfile : Z) (out : res (Z * Z))
(* ahtree.DataAt for a leaf whose commit-log entry is `entry`: returned an error?, bytes allocated *)
| COtAhData (plog_size : Z) (entry : bytes) (errored : bool) (allocated : N)
(* sql lexer.Lex called until the end of a text without NUL bytes: bytes taken after each call *)
| CSqlLex (text : bytes) (positions : list N).

Definition case_ok (c : case) : bool :=
  match c with
  | CTxMd i o => res_eqb txmd_eqb (txmd_read i) o
  | CKvMd i o => res_eqb kvmd_eqb (kvmd_read i) o
  | CHdr i o => res_eqb txhdr_eqb (txhdr_read i) o
  | CRepl i panicked errored changed =>
      negb panicked &&
      (if is_ok (repl_parse i) then true else errored) &&
      (if errored then negb changed else true)
  | CAppMd i k panicked got gi gb =>
      negb panicked &&
      opt_eqb bytes_eqb (appmd_get i k) got &&
      res_eqb (opt_eqb N.eqb) (appmd_get_int i k) (Ok gi) &&
      res_eqb (opt_eqb Bool.eqb) (appmd_get_bool i k) (Ok gb)
  | CPgMsg mx t p o a =>
      let m := pg_dispatch pg_bind_is_fixed mx t p in
      res_eqb pgmsg_eqb (fst m) o && alloc_ok (snd m) a
  | CPgFrame mx c o a =>
      let m := raw_read mx c in
      res_eqb frame_eqb (fst m) o && alloc_ok (snd m) a
  | CStream kind chunks final bs cap items p a eb eu =>
      let '(its, pp, al, nd) :=
        st_drive (st_step_of kind bs) (N.to_nat cap)
                 (mr_new {| s_chunks := chunks; s_final_eof := final |}) [] 0 0 in
      items_eqb its items && Bool.eqb pp p && alloc_ok al (a - (eb + nd * eu))
  | CStFully chunks final o a eb =>
      let m := read_fully stream_is_fixed {| s_chunks := chunks; s_final_eof := final |} in
      res_eqb bytes_eqb (fst m) o && alloc_ok (snd m) (a - eb)
  | COtEntry b e valid ck =>
      res_eqb clog_entry_eqb (clog_deser b) (Ok e) &&
      Bool.eqb (clog_valid tbtree_open_is_fixed e) valid &&
      (if valid then res_class (tb_entry_check tbtree_open_is_fixed b) =? ck else true)
  | COtParams md ok ov o => res_eqb z3_eqb (tb_open_params tbtree_open_is_fixed md ok ov) o
  | COtNode log off o a =>
      let m := read_node tbtree_open_is_fixed (drop off log) in
      res_eqb pnode_eqb (fst m) o && alloc_ok (snd m) a
  | COtTs b o => res_eqb N.eqb (ts_read tbtree_open_is_fixed b) o
  | COtAhOpen cs e pf df o => res_eqb z2_eqb (ah_open ahtree_open_is_fixed cs e pf df) o
  | COtAhData ps e errored a =>
      let m := ah_data_at ahtree_open_is_fixed ps e in
      (match fst m with Ok _ => true | Err _ => errored | Panic => false end) && alloc_ok (snd m) a
  | CSqlLex t ps => opt_eqb (list_eqb N.eqb) (lex_positions t) (Some ps)
  end.

