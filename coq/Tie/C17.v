(* correspondence glue for C17: an operation sequence with the outputs the real
   singleapp / multiapp produced; case_ok replays the sequence on the model. *)
From V Require Export Base.Hex App.Spec App.Single App.Multi App.Fixed.

Definition out_eqb (a b : out) : bool :=
  match a, b with
  | OErr, OErr => true
  | OOk, OOk => true
  | OApp o n, OApp o' n' => (o =? o') && (n =? n')
  | OFull o n, OFull o' n' => (o =? o') && (n =? n')
  | ORead d e, ORead d' e' => bytes_eqb d d' && Bool.eqb e e'
  | ON n, ON n' => n =? n'
  | OBytes d, OBytes d' => bytes_eqb d d'
  | OCopy d, OCopy d' => bytes_eqb d d'
  | _, _ => false
  end.

Inductive case :=
(* singleapp.Open(new file, prealloc, metadata, options); ops; observed outputs *)
| CSingle (prealloc : N) (meta : bytes) (o : oopts) (ops : list op) (outs : list out)
(* multiapp.Open(new dir, fileSize, prealloc, metadata, options); ops; observed outputs *)
| CMulti (fs : N) (prealloc : bool) (meta : bytes) (o : oopts) (ops : list op) (outs : list out).

(* SWITCH: true = the models of the code since /repo commit 09014a8 "appendables drop the bytes and chunk
   files behind a rewound offset" (App/Fixed.v: SetOffset truncates / removes the later chunk files; all
   other operations are those of Single.v / Multi.v).  false = the models of the code before that commit
   (kept for the "before 09014a8" refutations of Properties/C17.v). *)
Definition use_fixed_models : bool := true.

Definition case_ok (c : case) : bool :=
  match c with
  | CSingle p m o ops outs =>
      list_eqb out_eqb
        (if use_fixed_models then s_run_fx (negb (p =? 0)) (s_create p m o) ops else s_run (s_create p m o) ops) outs
  | CMulti fs p m o ops outs =>
      list_eqb out_eqb
        (if use_fixed_models then m_run_fx (m_create fs p m o) ops else m_run (m_create fs p m o) ops) outs
  end.
