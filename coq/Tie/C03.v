(* correspondence glue for C03.

   CRun: a schedule of protocol operations DERIVED FROM A RECORDED STORAGE TRACE of the real store
   (harness/c03: every Append / Flush / Sync of the tx, commit and value logs, every physical write,
   every acknowledgement), each with what was observed at that point.  case_ok runs the protocol
   model of Crash/Protocol.v on the schedule: every operation must be ENABLED in the model (so the
   real trace respects the model's write ordering: value logs fsynced, then the tx log, then the
   commit entries appended, then the commit log fsynced, then the acknowledgement) and the projected
   observables must agree (logical offset and size of every tx record, number of transactions per
   commit, committed id after each commit-log fsync, whether the hash tree fsynced during the
   precommit and during sync(), and at every acknowledgement of tx k: k is acknowledged in the model and its commit
   entry, tx record and value extent lie in the DURABLE part of their files).
   CRec: the same schedule cut at a crash point, a crash image chosen per file class (durable
   content only, or everything handed to the OS); the model's `recover` must agree with the real
   store.Open on: success, recovered committed id, number of reloaded precommitted transactions
   (which depends on whether their VALUES are in the value-log image: the values of one transaction
   are one extent of the model, the run of value appends that precedes its tx record in the trace).

   The model is run with a cheap 32-byte hash: no hash VALUE is compared with the real store
   (record bodies are abstract), only lengths, offsets, orders and verdicts. *)
From V Require Export Base.Hex Crash.Storage Crash.Protocol Crash.ToyHash.

(* which code the model is compared with: true = store.sync() fsyncs the hash tree after the tx log and
   before the commit entries are appended (the code since fix b260503); false = the code before it *)
Definition repair_applied : bool := true.
(* RSync = ahtree.ResetSize rewinds the tree's commit log AND fsyncs it (the code since fix 0b488aa);
   RCut = the code between 6a85281 and 0b488aa (rewound, not fsynced); RMem = before 6a85281 *)
Definition aht_durable_reset : rmode := RSync.
(* PreallocFiles is not part of the correspondence run (the cases are recorded without it) *)
Definition code_cfg (thld maxact : N) : cfg := mkCfg thld maxact false 0 aht_durable_reset false repair_applied.

(* what was observed after an operation *)
Inductive obs :=
| ONone
| OOff (off : N)                       (* OVal: logical offset returned by the first Append *)
| OTx (off size : N) (ahtsync : bool)  (* OPre: tx record offset, size; did the tree fsync *)
| OCnt (n : N) (ahtsync : bool)        (* OSyncTx: commit entries appended; did the tree fsync in sync() *)
| OCommitted (c : N).                  (* OSyncC: committed id afterwards *)

Inductive item :=
| IOp (o : op) (e : obs)
| IAck (k : N).                        (* a commit of tx k returned to its caller *)

(* per-class choice of a crash image: true = as the OS saw the files, false = durable only *)
Record pol := mkPol { p_tx : bool; p_cm : bool; p_val : bool; p_aht : bool }.

Inductive case :=
| CRun (thld maxact : N) (nv : nat) (items : list item)
| CRec (thld maxact : N) (nv : nat) (ops : list op) (p : pol) (ok : bool) (c reloaded : N).

Definition values_durable (s : st) (body : bytes) : bool :=
  match body_vref body with
  | Some (v, vo, vn, _) =>
      (vn =? 0) ||
      match nth_error (vls s) (N.to_nat v) with
      | Some f => vo + vn <=? len (durable f)
      | None => false
      end
  | None => false
  end.

(* tx k: commit entry, tx record and value extent are in the durable part of their files *)
Definition acked_durable (s : st) (k : N) : bool :=
  match tx_at (durable (txl s)) (durable (cml s)) k with
  | Some raw =>
      match parse_rec Hc raw with
      | Some (id, _, body, _) => (id =? k) && values_durable s body
      | None => false
      end
  | None => false
  end.

Definition last_pb (s : st) : option (N * bytes * N * N) := nth_error (pbuf s) (length (pbuf s) - 1).

Definition obs_ok (s0 s1 : st) (o : op) (e : obs) : bool :=
  match e with
  | ONone => true
  | OOff off =>
      match o with
      | OVal v _ => match nth_error (vls s0) v with Some f => f_offset f =? off | None => false end
      | _ => false
      end
  | OTx off size ahtsync =>
      match last_pb s1 with
      | Some (_, _, o', n') =>
          (o' =? off) && (n' =? size) &&
          Bool.eqb ahtsync (negb (alatest s1 =? alatest s0))
      | None => false
      end
  | OCnt n ahtsync =>
      (N.of_nat (length (pbuf s0)) =? n) && Bool.eqb ahtsync (negb (alatest s1 =? alatest s0))
  | OCommitted c => committed s1 =? c
  end.

Fixpoint run_items (s : st) (l : list item) : bool :=
  match l with
  | [] => true
  | IOp o e :: r =>
      match step Hc s o with
      | Ok s1 => obs_ok s s1 o e && run_items s1 r
      | _ => false
      end
  | IAck k :: r => (k <=? acked s) && acked_durable s k && run_items s r
  end.

Definition pick (b : bool) (f : file) : bytes := if b then os_view f else durable f.
Definition image_by (p : pol) (s : st) : images :=
  mkImg (pick (p_tx p) (txl s)) (pick (p_cm p) (cml s)) (map (pick (p_val p)) (vls s))
        (pick (p_aht p) (ahd s)) (pick (p_aht p) (ahc s)).

Definition case_ok (c : case) : bool :=
  match c with
  | CRun thld maxact nv items => run_items (init Hc (code_cfg thld maxact) nv) items
  | CRec thld maxact nv ops p ok c reloaded =>
      let cf := code_cfg thld maxact in
      match run Hc (init Hc cf nv) ops with
      | Ok s =>
          match recover Hc cf (image_by p s) with
          | Ok s' => ok && (committed s' =? c) && (N.of_nat (length (pbuf s')) =? reloaded)
          | _ => negb ok
          end
      | _ => false
      end
  end.
