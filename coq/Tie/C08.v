(* correspondence glue for C08: the Go hash trees and verifiers against the reference construction,
   run with the executable SHA-256 *)
From V Require Export Base.Hex Merkle.Sha256 Merkle.RefPath Merkle.Main Merkle.AHT Merkle.VerifyFixed Merkle.HTree.
From V Require Import Merkle.RefutedFixed.

Definition Hs := sha256.
Definition mroot (l : list bytes) : bytes := mth Hs l.

Fixpoint prefixes_roots (n : nat) (l : list bytes) (k : N) : list bytes :=
  match n with
  | O => []
  | S n' => mroot (takeN k l) :: prefixes_roots n' l (k + 1)
  end.

Definition lbytes_eqb := list_eqb bytes_eqb.

(* the consistency verifier the Go code is compared with: `verify_consistency_fixed`
   (Merkle/VerifyFixed.v) IS the model of the current ahtree.VerifyConsistency (since /repo 05f2785:
   length test against consistencyProofLen).  `verify_consistency` (Merkle/Verify.v) is the PRE-FIX
   function, kept for the refutation witnesses and the partial theorems about it. *)
Definition vcons := verify_consistency_fixed Hs.

(* index into the digest log recorded by the harness (N counter: an out-of-range index stays cheap) *)
Fixpoint nthN (l : list bytes) (i : N) : res bytes :=
  match l with
  | [] => Err 0
  | x :: r => if i =? 0 then Ok x else nthN r (i - 1)
  end.
Fixpoint nthsN (l : list bytes) (is_ : list N) : res (list bytes) :=
  match is_ with
  | [] => Ok []
  | i :: r => do x <- nthN l i; do xs <- nthsN l r; Ok (x :: xs)
  end.
Definition res_class {A} (r : res A) : N := match r with Ok _ => 0 | Err _ => 1 | Panic => 2 end.
Fixpoint roots_ok (t : aht) (digs : list bytes) (n : N) (roots : list N) : bool :=
  match roots with
  | [] => true
  | ix :: r => res_eqb bytes_eqb (root_at t n) (nthN digs ix) && roots_ok t digs (n + 1) r
  end.

Inductive case :=
| CSha (inp out : bytes)
(* final payloads of an AHtree after a history of append/reset/sync/reopen; RootAt(1..n) *)
| CAht (payloads : list bytes) (roots : list bytes)
(* the same history run on the digest-log model (Merkle/AHT.v): `digests` = what nodeAt returns for
   every index below dLogSize; RootAt(1..n) and InclusionProof/ConsistencyProof(i,j) as indices
   into `digests` *)
| CAhtModel (ops : list aop2) (digests : list bytes) (roots : list N)
            (iproofs cproofs : list (N * N * list N))
            (* (i, j, outcome class of InclusionProof(i,j), of ConsistencyProof(i,j)):
               0 = a proof, 1 = an error, 2 = a Go panic — for out-of-range arguments *)
            (edges : list (N * N * N * N))
(* Size() after a history with a restart (Close + Open) after a rewind (durable since /repo
   09014a8 + 6a85281; theorem C08_aht_restart_changes_nothing) *)
| CAhtProbe (ops : list aop2) (sz : N)
(* (n, nodesUpto n, nodesUntil n, levelsAt n) *)
| CAhtArith (rows : list (N * N * N * N))
(* AHtree.InclusionProof(i,j) on a tree holding `payloads` *)
| CInclProof (payloads : list bytes) (i j : N) (proof : list bytes)
| CVerIncl (terms : list bytes) (i j : N) (leaf root : bytes) (verdict : bool)
| CVerLast (terms : list bytes) (i : N) (leaf root : bytes) (verdict : bool)
(* verdict: Ok b, or Panic when the Go verifier panicked *)
| CVerCons (terms : list bytes) (i j : N) (iroot jroot : bytes) (verdict : res bool)
(* htree: root of BuildWith(digests); empty list allowed (root = H []) *)
| CHtRoot (digests : list bytes) (root : bytes)
| CHtProof (digests : list bytes) (i : N) (terms : list bytes)
(* outcome class of htree.InclusionProof(i) for an i outside 0 <= i < width: 0 proof, 1 error, 2 panic *)
| CHtEdge (digests : list bytes) (i : Z) (class : N)
| CHtVer (leaf width : Z) (terms : list bytes) (digest root : bytes) (verdict : bool).

Definition case_ok (c : case) : bool :=
  match c with
  | CSha i o => bytes_eqb (Hs i) o
  | CAht p roots => lbytes_eqb (prefixes_roots (length p) p 1) roots
  | CAhtModel ops digs roots ips cps edges =>
      let t := rtree (aht_run2 Hs ops) in
      (dsize t =? lenN digs) && (lenN roots =? size t) &&
      lbytes_eqb (firstn (N.to_nat (dsize t)) (dlog t)) digs &&
      roots_ok t digs 1 roots &&
      forallb (fun '(i, j, ix) => res_eqb lbytes_eqb (inclusion_proof t i j) (nthsN digs ix)) ips &&
      forallb (fun '(i, j, ix) => res_eqb lbytes_eqb (consistency_proof t i j) (nthsN digs ix)) cps &&
      forallb (fun '(i, j, ci, cc) => (res_class (inclusion_proof t i j) =? ci) &&
                                      (res_class (consistency_proof t i j) =? cc)) edges
  | CAhtProbe ops sz => size (rtree (aht_run2 Hs ops)) =? sz
  | CAhtArith rows =>
      forallb (fun '(n, up, un, lv) =>
                 (nodes_upto n =? up) && (nodes_until n =? un) && (levels_at n =? lv)) rows
  | CInclProof p i j proof =>
      (* the Go prover returns the RFC 6962 audit path AND the honest path of the completeness theorem *)
      lbytes_eqb (ref_inclusion_proof Hs p i j) proof &&
      lbytes_eqb (honest_inclusion_proof Hs (takeN j p) i) proof
  | CVerIncl t i j leaf root v => Bool.eqb (verify_inclusion Hs t i j leaf root) v
  | CVerLast t i leaf root v => Bool.eqb (verify_last_inclusion Hs t i leaf root) v
  | CVerCons t i j ir jr v => res_eqb Bool.eqb (vcons t i j ir jr) v
  | CHtRoot ds root =>
      bytes_eqb (match ds with [] => Hs [] | _ => mroot ds end) root &&
      bytes_eqb (ht_root (ht_build Hs ds)) root
  | CHtProof ds i terms =>
      (* the RFC 6962 audit path AND the honest path of C08_htree_inclusion_complete *)
      lbytes_eqb (audit Hs (mk_tree ds) i) terms &&
      lbytes_eqb (honest_inclusion_proof Hs ds (i + 1)) terms &&
      (* the transliterated BuildWith / InclusionProof *)
      res_eqb lbytes_eqb (ht_inclusion_proof (ht_build Hs ds) (Z.of_N i)) (Ok terms)
  | CHtEdge ds i c => res_class (ht_inclusion_proof (ht_build Hs ds) i) =? c
  | CHtVer leaf width t d root v => Bool.eqb (htree_verify_inclusion Hs leaf width t d root) v
  end.
