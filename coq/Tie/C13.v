(* correspondence glue for C13: one case = one interleaved program of up to three sessions with,
   for every step, what the real sql.Engine was observed to do *)
From V Require Export Base.Hex SQLTx.Model.

(* literals written by the Go harness (integer arguments are parsed in Z scope) *)
Inductive rowlit := R (k v : Z).
Definition sz (z : Z) : option Z := Some z.
Arguments sz z%Z.
Inductive klit := KL (upd : N) (la lb lc fa fb fc : option Z).
Inductive obslit :=
  OB (err : bool) (rows : list rowlit) (open oldclosed : bool)
     (cnt : option klit) (ctx : option (klit * bool)) (a b c : list rowlit).
Inductive stepobs := SO (s : sid) (o : op) (ob : obslit).
(* CDdl k: the k-th program of the DDL stream.  Those programs change the catalog, which the model
   (fixed schema) does not cover: they are checked only by the harness-side oracle
   (harness/c13/ddl.go), and are listed here so that they are counted, not compared. *)
Inductive case := C (steps : list stepobs) | CDdl (k : N).

Definition row_of (r : rowlit) : Z * Z := match r with R k v => (k, v) end.
Definition k_of (k : klit) : counters :=
  match k with KL u la lb lc fa fb fc => K u (T3 la lb lc) (T3 fa fb fc) end.
Definition obs_of (o : obslit) : obs :=
  match o with
  | OB e rows op oc cnt ctx a b c =>
      Ob e (map row_of rows) op oc (option_map k_of cnt)
         (option_map (fun p => (k_of (fst p), snd p)) ctx)
         (T3 (map row_of a) (map row_of b) (map row_of c))
  end.

Definition zz_eqb (a b : Z * Z) : bool := (fst a =? fst b)%Z && (snd a =? snd b)%Z.
Definition rows_eqb := list_eqb zz_eqb.
Definition tri_eqb {A} (e : A -> A -> bool) (a b : tri A) : bool :=
  e (t_0 a) (t_0 b) && e (t_1 a) (t_1 b) && e (t_2 a) (t_2 b).
Definition k_eqb (a b : counters) : bool :=
  (k_upd a =? k_upd b) && tri_eqb (opt_eqb Z.eqb) (k_last a) (k_last b) &&
  tri_eqb (opt_eqb Z.eqb) (k_first a) (k_first b).
Definition obs_eqb (a b : obs) : bool :=
  Bool.eqb (o_err a) (o_err b) && rows_eqb (o_rows a) (o_rows b) &&
  Bool.eqb (o_open a) (o_open b) && Bool.eqb (o_oldclosed a) (o_oldclosed b) &&
  opt_eqb k_eqb (o_cnt a) (o_cnt b) &&
  opt_eqb (fun p q => k_eqb (fst p) (fst q) && Bool.eqb (snd p) (snd q)) (o_ctx a) (o_ctx b) &&
  tri_eqb rows_eqb (o_db a) (o_db b).

Definition steps_of (l : list stepobs) : list step := map (fun so => match so with SO s o _ => (s, o) end) l.
Definition obs_list (l : list stepobs) : list obs := map (fun so => match so with SO _ _ ob => obs_of ob end) l.

(* runs the faithful model on the same program + schedule and compares every observation *)
Definition case_ok (c : case) : bool :=
  match c with
  | C l => list_eqb obs_eqb (map snd (mtrace minit (steps_of l))) (obs_list l)
  | CDdl _ => true
  end.

(* for debugging: index of the first step whose observation differs *)
Fixpoint first_diff (i : N) (a b : list obs) : option N :=
  match a, b with
  | x :: a', y :: b' => if obs_eqb x y then first_diff (i + 1) a' b' else Some i
  | [], [] => None
  | _, _ => Some i
  end.
Definition case_diff (c : case) : option N :=
  match c with
  | C l => first_diff 0 (map snd (mtrace minit (steps_of l))) (obs_list l)
  | CDdl _ => None
  end.
