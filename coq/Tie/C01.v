(* correspondence glue for C01: the Go hashing (TxHeader.Alh, entry digests), the proofs the real
   store generates and the verdicts of the real verifiers against the model, run with the
   executable SHA-256 *)
From V Require Export Base.Hex Merkle.Sha256 Proofs.History Proofs.Fixed Proofs.Gen.
From V Require Import Proofs.CompleteFull.
(* the _refuted witnesses of the known findings are re-checked whenever the model changes *)
From V Require Import Proofs.Refuted Proofs.SessionEx.

Definition Hs := sha256.
Definition lbytes_eqb := list_eqb bytes_eqb.

(* LinearProof(i, j).Terms as the store assembles it: Alh_i, innerHash_{i+1}, .., innerHash_j *)
Definition gen_linear_terms (hs : list txhdr) (i j : N) : list bytes :=
  match dropN (i - 1) (takeN j hs) with
  | [] => []
  | h :: r => alh_v Hs h :: map (inner_hash_v Hs) r
  end.

Definition entry_of (t : option kvmd * bytes * bytes) : entry :=
  let '(md, k, hv) := t in {| e_md := opt_kvmd_bytes md; e_key := k; e_hval := hv |}.

(* ---- alterations of a call, written as small edits of a base call (the case files stay small:
   parsing a 32-byte literal costs more than evaluating the verifier on it) ---- *)
Inductive hedit :=
| HId (v : N) | HPrev (d : bytes) | HTs (v : N) | HVer (v : N) | HMd (m : option txmd)
| HNe (v : N) | HEh (d : bytes) | HBl (v : N) | HRoot (d : bytes).

Definition apply_hedit (h : txhdr) (e : hedit) : txhdr :=
  let mk id prev ts ver md ne eh bl root :=
    {| h_id := id; h_prevalh := prev; h_ts := ts; h_version := ver; h_md := md; h_nentries := ne;
       h_eh := eh; h_bltxid := bl; h_blroot := root |} in
  let id := h_id h in let prev := h_prevalh h in let ts := h_ts h in let ver := h_version h in
  let md := h_md h in let ne := h_nentries h in let eh := h_eh h in let bl := h_bltxid h in
  let root := h_blroot h in
  match e with
  | HId v => mk v prev ts ver md ne eh bl root
  | HPrev d => mk id d ts ver md ne eh bl root
  | HTs v => mk id prev v ver md ne eh bl root
  | HVer v => mk id prev ts v md ne eh bl root
  | HMd m => mk id prev ts ver m ne eh bl root
  | HNe v => mk id prev ts ver md v eh bl root
  | HEh d => mk id prev ts ver md ne d bl root
  | HBl v => mk id prev ts ver md ne eh v root
  | HRoot d => mk id prev ts ver md ne eh bl d
  end.

(* l[:keep] ++ ins ++ l[keep+del:] *)
Definition splice {A} (keep del : N) (ins : list A) (l : list A) : list A :=
  takeN keep l ++ ins ++ dropN (keep + del) l.

Fixpoint update_nth {A} (n : nat) (f : A -> A) (l : list A) : list A :=
  match l with
  | [] => []
  | x :: r => match n with O => f x :: r | S n' => x :: update_nth n' f r end
  end.

Inductive edit :=
| ENil                                                (* the proof pointer is nil *)
| EHdr (source : bool) (e : option (list hedit))      (* None: that header pointer is nil *)
| EIncl (keep del : N) (ins : list bytes)
| ECons (keep del : N) (ins : list bytes)
| ELast (keep del : N) (ins : list bytes)
| ETbl (d : bytes)
| ELin (l : option linear_proof)                      (* wholesale *)
| ELinIds (s t : N)
| ELinTerms (keep del : N) (ins : list bytes)
| ELap (l : option linear_advance_proof)              (* wholesale *)
| ELapTerms (keep del : N) (ins : list bytes)
| ELapIncl (idx keep del : N) (ins : list bytes)
| ELapInclsTake (n : N)
| EArgs (src tgt : N) (salh talh : option bytes).     (* None: unchanged *)

Record dcall := { dc_p : option dual_proof; dc_src : N; dc_tgt : N; dc_salh : bytes; dc_talh : bytes }.

Definition on_proof (c : dcall) (f : dual_proof -> dual_proof) : dcall :=
  {| dc_p := option_map f (dc_p c); dc_src := dc_src c; dc_tgt := dc_tgt c;
     dc_salh := dc_salh c; dc_talh := dc_talh c |}.

Definition mkdp s t i c tb la li lp : dual_proof :=
  {| dp_src := s; dp_tgt := t; dp_incl := i; dp_cons := c; dp_tblalh := tb; dp_last := la;
     dp_lin := li; dp_lap := lp |}.

Definition apply_edit (c : dcall) (e : edit) : dcall :=
  match e with
  | ENil => {| dc_p := None; dc_src := dc_src c; dc_tgt := dc_tgt c; dc_salh := dc_salh c; dc_talh := dc_talh c |}
  | EHdr source he =>
      let upd (h : option txhdr) : option txhdr :=
        match he with
        | None => None
        | Some es => option_map (fun h => fold_left apply_hedit es h) h
        end in
      on_proof c (fun p =>
        if source then mkdp (upd (dp_src p)) (dp_tgt p) (dp_incl p) (dp_cons p) (dp_tblalh p) (dp_last p) (dp_lin p) (dp_lap p)
        else mkdp (dp_src p) (upd (dp_tgt p)) (dp_incl p) (dp_cons p) (dp_tblalh p) (dp_last p) (dp_lin p) (dp_lap p))
  | EIncl k d ins => on_proof c (fun p =>
      mkdp (dp_src p) (dp_tgt p) (splice k d ins (dp_incl p)) (dp_cons p) (dp_tblalh p) (dp_last p) (dp_lin p) (dp_lap p))
  | ECons k d ins => on_proof c (fun p =>
      mkdp (dp_src p) (dp_tgt p) (dp_incl p) (splice k d ins (dp_cons p)) (dp_tblalh p) (dp_last p) (dp_lin p) (dp_lap p))
  | ELast k d ins => on_proof c (fun p =>
      mkdp (dp_src p) (dp_tgt p) (dp_incl p) (dp_cons p) (dp_tblalh p) (splice k d ins (dp_last p)) (dp_lin p) (dp_lap p))
  | ETbl x => on_proof c (fun p =>
      mkdp (dp_src p) (dp_tgt p) (dp_incl p) (dp_cons p) x (dp_last p) (dp_lin p) (dp_lap p))
  | ELin l => on_proof c (fun p =>
      mkdp (dp_src p) (dp_tgt p) (dp_incl p) (dp_cons p) (dp_tblalh p) (dp_last p) l (dp_lap p))
  | ELinIds s t => on_proof c (fun p =>
      mkdp (dp_src p) (dp_tgt p) (dp_incl p) (dp_cons p) (dp_tblalh p) (dp_last p)
           (option_map (fun l => {| lp_src := s; lp_tgt := t; lp_terms := lp_terms l |}) (dp_lin p)) (dp_lap p))
  | ELinTerms k d ins => on_proof c (fun p =>
      mkdp (dp_src p) (dp_tgt p) (dp_incl p) (dp_cons p) (dp_tblalh p) (dp_last p)
           (option_map (fun l => {| lp_src := lp_src l; lp_tgt := lp_tgt l; lp_terms := splice k d ins (lp_terms l) |}) (dp_lin p))
           (dp_lap p))
  | ELap l => on_proof c (fun p =>
      mkdp (dp_src p) (dp_tgt p) (dp_incl p) (dp_cons p) (dp_tblalh p) (dp_last p) (dp_lin p) l)
  | ELapTerms k d ins => on_proof c (fun p =>
      mkdp (dp_src p) (dp_tgt p) (dp_incl p) (dp_cons p) (dp_tblalh p) (dp_last p) (dp_lin p)
           (option_map (fun l => {| lap_terms := splice k d ins (lap_terms l); lap_incls := lap_incls l |}) (dp_lap p)))
  | ELapIncl idx k d ins => on_proof c (fun p =>
      mkdp (dp_src p) (dp_tgt p) (dp_incl p) (dp_cons p) (dp_tblalh p) (dp_last p) (dp_lin p)
           (option_map (fun l => {| lap_terms := lap_terms l;
                                    lap_incls := update_nth (N.to_nat idx) (splice k d ins) (lap_incls l) |}) (dp_lap p)))
  | ELapInclsTake n => on_proof c (fun p =>
      mkdp (dp_src p) (dp_tgt p) (dp_incl p) (dp_cons p) (dp_tblalh p) (dp_last p) (dp_lin p)
           (option_map (fun l => {| lap_terms := lap_terms l; lap_incls := takeN n (lap_incls l) |}) (dp_lap p)))
  | EArgs s t sa ta =>
      {| dc_p := dc_p c; dc_src := s; dc_tgt := t;
         dc_salh := match sa with Some x => x | None => dc_salh c end;
         dc_talh := match ta with Some x => x | None => dc_talh c end |}
  end.

Definition to_v2 (p : dual_proof) : dual_proof_v2 :=
  {| d2_src := dp_src p; d2_tgt := dp_tgt p; d2_incl := dp_incl p; d2_cons := dp_cons p |}.

Definition run_call (v2 : bool) (c : dcall) : res bool :=
  if v2 then verify_dual_proof_v2 Hs (option_map to_v2 (dc_p c)) (dc_src c) (dc_tgt c) (dc_salh c) (dc_talh c)
  else verify_dual_proof Hs (dc_p c) (dc_src c) (dc_tgt c) (dc_salh c) (dc_talh c).

(* indices (within the group) of the variants on which model and implementation disagree *)
Definition group_mismatches (v2 : bool) (base : dcall) (vs : list (list edit * res bool)) : list N :=
  mismatches (fun v => res_eqb Bool.eqb (run_call v2 (fold_left apply_edit (fst v) base)) (snd v)) 0 vs.

(* the honest proofs of Proofs/Gen.v (about which completeness is proved) against what the store
   generates (gen_dual_proof_full: consistency terms = cons_ref of coq/Merkle) *)
Definition lin_eqb (a b : option linear_proof) : bool :=
  opt_eqb (fun x y => (lp_src x =? lp_src y) && (lp_tgt x =? lp_tgt y) && lbytes_eqb (lp_terms x) (lp_terms y)) a b.
Definition lap_eqb (a b : option linear_advance_proof) : bool :=
  opt_eqb (fun x y => lbytes_eqb (lap_terms x) (lap_terms y) && list_eqb lbytes_eqb (lap_incls x) (lap_incls y)) a b.
Definition dual_gen_ok (hs : list txhdr) (i j : N) (p : dual_proof) : bool :=
  let g := gen_dual_proof_full Hs hs i j in
  lbytes_eqb (dp_cons g) (dp_cons p) &&
  opt_eqb (fun x y => h_id x =? h_id y) (dp_src g) (dp_src p) &&
  opt_eqb (fun x y => h_id x =? h_id y) (dp_tgt g) (dp_tgt p) &&
  lbytes_eqb (dp_incl g) (dp_incl p) && bytes_eqb (dp_tblalh g) (dp_tblalh p) &&
  lbytes_eqb (dp_last g) (dp_last p) && lin_eqb (dp_lin g) (dp_lin p) && lap_eqb (dp_lap g) (dp_lap p).
Definition entry_gen_ok (v : N) (es : list (option kvmd * bytes * bytes)) (idx : N) (p : Z * Z * list bytes) : bool :=
  match gen_entry_proof Hs v (map entry_of es) idx with
  | Some (l, w, t) => let '(l', w', t') := p in (l =? l')%Z && (w =? w')%Z && lbytes_eqb t t'
  | None => false
  end.

Inductive case :=
(* TxHeader.Alh() (Panic when it panicked) *)
| CAlh (h : txhdr) (out : res bytes)
(* the headers 1..n read back from a real store: a well-formed history; its last Alh *)
| CHist (hs : list txhdr)
(* ImmuStore.LinearProof(i, j).Terms over the history hs *)
| CLinGen (hs : list txhdr) (i j : N) (terms : list bytes)
(* EntrySpecDigestFor(version) (None = unsupported version) on {Key, Metadata, Value} *)
| CSpecDigest (version : N) (md : option kvmd) (key value : bytes) (out : option bytes)
(* TxHeader.TxEntryDigest() on NewTxEntry(key, md, _, hVal, _) *)
| CTxDigest (version : N) (md : option kvmd) (key hval : bytes) (out : res bytes)
(* Eh of a real transaction = reference tree over its entry digests *)
| CEh (version : N) (es : list (option kvmd * bytes * bytes)) (eh : bytes)
(* ImmuStore.DualProof(i, j) (or the harness' mirror of it over a lagging history) = gen_dual_proof *)
| CDualGen (hs : list txhdr) (i j : N) (p : dual_proof)
(* Tx.Proof(key of entry idx) = gen_entry_proof *)
| CEntryGen (version : N) (es : list (option kvmd * bytes * bytes)) (idx : N) (p : Z * Z * list bytes)
| CVerLin (p : option linear_proof) (src tgt : N) (salh talh : bytes) (verdict : bool)
| CVerLap (p : option linear_advance_proof) (s e : N) (ealh root : bytes) (size : N) (verdict : res bool)
| CVerDual (p : option dual_proof) (src tgt : N) (salh talh : bytes) (verdict : res bool)
| CVerDual2 (p : option dual_proof_v2) (src tgt : N) (salh talh : bytes) (verdict : res bool)
| CVerEntry (p : option (Z * Z * list bytes)) (digest eh : bytes) (verdict : bool)
(* a base call (VerifyDualProof, or VerifyDualProofV2 on the V2 projection of the proof when v2) and
   alterations of it, each with the verdict of the Go verifier on the altered call *)
| CDualGroup (v2 : bool) (p : dual_proof) (src tgt : N) (salh talh : bytes)
             (variants : list (list edit * res bool)).

Definition case_ok (c : case) : bool :=
  match c with
  | CAlh h out => res_eqb bytes_eqb (alh Hs h) out
  | CHist hs => wf_histb Hs hs
  | CLinGen hs i j terms => lbytes_eqb (gen_linear_terms hs i j) terms
  | CSpecDigest v md k val out => opt_eqb bytes_eqb (entry_spec_digest Hs v md k val) out
  | CTxDigest v md k hv out => res_eqb bytes_eqb (tx_entry_digest Hs v md k hv) out
  | CEh v es eh => bytes_eqb (eh_of Hs v (map entry_of es)) eh
  | CDualGen hs i j p => dual_gen_ok hs i j p
  | CEntryGen v es idx p => entry_gen_ok v es idx p
  | CVerLin p s t sa ta v => Bool.eqb (verify_linear_proof Hs p s t sa ta) v
  | CVerLap p s e ea root size v => res_eqb Bool.eqb (verify_linear_advance_proof Hs p s e ea root size) v
  | CVerDual p s t sa ta v => res_eqb Bool.eqb (verify_dual_proof Hs p s t sa ta) v
  | CVerDual2 p s t sa ta v => res_eqb Bool.eqb (verify_dual_proof_v2 Hs p s t sa ta) v
  | CVerEntry p d eh v => Bool.eqb (verify_entry_inclusion Hs p d eh) v
  | CDualGroup v2 p s t sa ta vs =>
      match group_mismatches v2 {| dc_p := Some p; dc_src := s; dc_tgt := t; dc_salh := sa; dc_talh := ta |} vs with
      | [] => true
      | _ => false
      end
  end.
