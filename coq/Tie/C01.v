(* correspondence glue for C01: the Go hashing (TxHeader.Alh, entry digests), the proofs the real
   store generates and the verdicts of the real verifiers against the model, run with the
   executable SHA-256 *)
From V Require Export Base.Hex Merkle.Sha256 Proofs.History Proofs.Fixed.

Definition Hs := sha256.
Definition lbytes_eqb := list_eqb bytes_eqb.

(* LinearProof(i, j).Terms as the store assembles it: Alh_i, innerHash_{i+1}, .., innerHash_j *)
Definition gen_linear_terms (hs : list txhdr) (i j : N) : list bytes :=
  match dropN (i - 1) (takeN j hs) with
  | [] => []
  | h :: r => alh_v Hs h :: map (inner_hash_v Hs) r
  end.

Definition entry_of (t : option kvmd * bytes * bytes) : entry :=
  let '(md, k, hv) := t in {| e_md := opt_kvmd_bytes md; e_key := k; e_hval := hv |}.

Inductive case :=
(* TxHeader.Alh() (Panic when it panicked) *)
| CAlh (h : txhdr) (out : res bytes)
(* the headers 1..n read back from a real store: a well-formed history; its last Alh *)
| CHist (hs : list txhdr)
(* ImmuStore.LinearProof(i, j).Terms over the history hs *)
| CLinGen (hs : list txhdr) (i j : N) (terms : list bytes)
(* EntrySpecDigestFor(version) (None = unsupported version) on {Key, Metadata, Value} *)
| CSpecDigest (version : N) (md : option kvmd) (key value : bytes) (out : option bytes)
(* TxHeader.TxEntryDigest() on NewTxEntry(key, md, _, hVal, _) *)
| CTxDigest (version : N) (md : option kvmd) (key hval : bytes) (out : res bytes)
(* Eh of a real transaction = reference tree over its entry digests *)
| CEh (version : N) (es : list (option kvmd * bytes * bytes)) (eh : bytes)
| CVerLin (p : option linear_proof) (src tgt : N) (salh talh : bytes) (verdict : bool)
| CVerLap (p : option linear_advance_proof) (s e : N) (ealh root : bytes) (size : N) (verdict : res bool)
| CVerDual (p : option dual_proof) (src tgt : N) (salh talh : bytes) (verdict : res bool)
| CVerDual2 (p : option dual_proof_v2) (src tgt : N) (salh talh : bytes) (verdict : res bool)
| CVerEntry (p : option (Z * Z * list bytes)) (digest eh : bytes) (verdict : bool).

Definition case_ok (c : case) : bool :=
  match c with
  | CAlh h out => res_eqb bytes_eqb (alh Hs h) out
  | CHist hs => wf_histb Hs hs
  | CLinGen hs i j terms => lbytes_eqb (gen_linear_terms hs i j) terms
  | CSpecDigest v md k val out => opt_eqb bytes_eqb (entry_spec_digest Hs v md k val) out
  | CTxDigest v md k hv out => res_eqb bytes_eqb (tx_entry_digest Hs v md k hv) out
  | CEh v es eh => bytes_eqb (eh_of Hs v (map entry_of es)) eh
  | CVerLin p s t sa ta v => Bool.eqb (verify_linear_proof Hs p s t sa ta) v
  | CVerLap p s e ea root size v => res_eqb Bool.eqb (verify_linear_advance_proof Hs p s e ea root size) v
  | CVerDual p s t sa ta v => res_eqb Bool.eqb (verify_dual_proof Hs p s t sa ta) v
  | CVerDual2 p s t sa ta v => res_eqb Bool.eqb (verify_dual_proof_v2 Hs p s t sa ta) v
  | CVerEntry p d eh v => Bool.eqb (verify_entry_inclusion Hs p d eh) v
  end.
