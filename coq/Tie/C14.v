(* correspondence glue for C14: one case = one run of the real store (a sequence of the model's
   operations performed by the harness) with what the implementation was observed to do *)
From V Require Export Base.Hex Trunc.Model.

(* which model of ExportTx the implementation is compared with: true = the code since 7ccd103 (unlock on both early returns); false = the code before it (both
   "partially truncated transaction" returns keep _valBsMux) *)
Definition export_is_fixed : bool := true.

Inductive obs :=
| BNone
| BTrunc (code : N)                       (* 0 nil, 1 error, 2 panic *)
| BExport (cls : N) (locked : option bool) (* 0 full, 1 by digest, 2 error, 3 no return within the bound;
                                              locked: _valBsMux state after the call when observed *)
| BRead (m : list (list bool))            (* per entry: ReadValue succeeded with the written bytes *)
| BLayout (l : list (list (N * N))).      (* (vLen, vOff) per entry *)

Inductive case := CRun (c : cfg) (ops : list op) (obs : list obs).

Definition dres_code (d : dres) : N := match d with DOk => 0 | DErr => 1 | DPanic => 2 end.
Definition xout_cls (x : xout) : N :=
  match x with XFull _ => 0 | XDigest => 1 | XErrPartial => 2 | XErrOther => 2 | XBlocked => 3 end.
Definition rd_ok (r : rd) : bool := match r with RdOk _ => true | _ => false end.
Definition pair_eqb (a b : N * N) : bool := (fst a =? fst b) && (snd a =? snd b).

Definition obs_ok (emb : bool) (u : out) (b : obs) : bool :=
  match u, b with
  | UNone, BNone => true
  | UTrunc d, BTrunc code => dres_code d =? code
  | UExport x l, BExport cls lo =>
      (xout_cls x =? cls) && (match lo with Some o => Bool.eqb l o | None => true end)
  | URead m, BRead m' => list_eqb (list_eqb Bool.eqb) (map (map rd_ok) m) m'
  | ULayout l, BLayout l' =>
      (* with embedded values the offsets are positions in the tx log, which is not modelled *)
      if emb then list_eqb (list_eqb N.eqb) (map (map fst) l) (map (map fst) l')
      else list_eqb (list_eqb pair_eqb) l l'
  | _, _ => false
  end.

Fixpoint all_ok (emb : bool) (us : list out) (bs : list obs) : bool :=
  match us, bs with
  | [], [] => true
  | u :: ur, b :: br => obs_ok emb u b && all_ok emb ur br
  | _, _ => false
  end.

Definition case_ok (cs : case) : bool :=
  match cs with
  | CRun c ops bs => all_ok (c_embedded c) (run_outs export_is_fixed c ops) bs
  end.
