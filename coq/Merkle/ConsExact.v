(* A position-exact soundness statement for ahtree.VerifyConsistency that IS true of the code:
   when the proof has the length of the proof the generator produces for (i, j), the accepted old
   root is the root of exactly the first i payloads (or a collision is exhibited).  The known
   inexact acceptances (Refuted.v) all use a proof of a different length. *)
From V Require Import Merkle.Verify Merkle.Sound Merkle.Honest Merkle.Exact Merkle.RefEq Merkle.Main.
From V Require Import Merkle.AHT Merkle.AHTArith Merkle.AHTSpec Merkle.AHTInv Merkle.AHTIncl Merkle.AHTCons
  Merkle.ConsPath Merkle.ConsComplete.
From Coq Require Import Lia Arith ZifyN ZifyNat ZifyBool.
Open Scope N_scope.

(* the verifier's directions depend on the NUMBER of terms only *)
Lemma cons_steps_dirs : forall r r' fn sn, length r = length r' ->
  map fst (cons_steps r fn sn) = map fst (cons_steps r' fn sn).
Proof.
  induction r as [|h r IH]; intros [|h' r'] fn sn E; cbn [length] in E; try discriminate; [reflexivity|].
  cbn [cons_steps]. destruct (N.odd fn || (fn =? sn)).
  - destruct (strip_even (S (N.size_nat fn)) fn sn) as [fn' sn']. cbn [map fst]. f_equal. apply IH. lia.
  - cbn [map fst]. f_equal. apply IH. lia.
Qed.

Lemma strip_even_same : forall fuel x, exists y, strip_even fuel x x = (y, y).
Proof.
  induction fuel as [|f IH]; intros x; cbn [strip_even]; [eauto|].
  destruct (N.even x && negb (x =? 0)); [apply IH | eauto].
Qed.

Section Exact.
Variable H : bytes -> bytes.
Hypothesis H_len : forall x, length (H x) = 32%nat.
Notation mth := (mth H).
Notation th := (th H).
Notation Collision := (Collision H).
Notation cons_ref := (cons_ref H).

(* equal sizes: both running values receive the same updates *)
Lemma cons_loop_same : forall r y c, exists x, cons_loop H r y y c c = (x, x).
Proof.
  induction r as [|h r IH]; intros y c; cbn [cons_loop]; [eauto|].
  rewrite N.eqb_refl, orb_true_r.
  destruct (strip_even_same (S (N.size_nat y)) y) as [y' ->]. apply IH.
Qed.

(* the directions from the root determine the node reached *)
Lemma tpath_det t ds s1 pre1 post1 :
  tpath t ds s1 pre1 post1 -> forall s2 pre2 post2, tpath t ds s2 pre2 post2 -> s1 = s2 /\ pre1 = pre2.
Proof.
  induction 1 as [t | l r ds s pre post P IH | l r ds s pre post P IH]; intros s2 pre2 post2 P2.
  - inversion P2; subst. auto.
  - inversion P2 as [ | ? ? ds' ? pre' post' P' | ? ? ds' ? pre' post' P']; subst.
    destruct (IH _ _ _ P') as [-> ->]. auto.
  - inversion P2 as [ | ? ? ds' ? pre' post' P' | ? ? ds' ? pre' post' P']; subst.
    destruct (IH _ _ _ P') as [-> ->]. auto.
Qed.

Theorem consistency_sound_exact_len (L cproof : list bytes) (i j : N) (iroot : bytes) :
  L <> [] -> j = lenN L -> len32 cproof ->
  length cproof = length (cons_ref L (height_of j) i j []) ->
  verify_consistency H cproof i j iroot (mth L) = Ok true ->
  (iroot = mth (firstn (N.to_nat i) L) /\ 1 <= i <= j) \/ Collision.
Proof.
  intros NE Ej F Elen V.
  assert (FL : firstn (N.to_nat j) L = L) by (apply firstn_all2; unfold lenN in Ej; lia).
  unfold verify_consistency in V.
  destruct ((j <? i) || (i =? 0) || ((i <? j) && (lenN cproof =? 0))) eqn:G; [discriminate|].
  apply orb_false_elim in G as [G _]. apply orb_false_elim in G as [G1 G2].
  apply N.ltb_ge in G1. apply N.eqb_neq in G2.
  destruct ((i =? j) && (lenN cproof =? 0)) eqn:G3.
  { apply andb_prop in G3 as [G3 _]. apply N.eqb_eq in G3. subst i.
    injection V as V. apply list_eqb_eq in V. left. rewrite FL. split; [exact V | lia]. }
  unfold eval_consistency in V. destruct cproof as [|c0 r]; [discriminate|].
  destruct (strip_odd (S (N.size_nat (i - 1))) (i - 1) (j - 1)) as [fn sn] eqn:Es.
  cbn [bind] in V.
  destruct (N.eq_dec i j) as [Eij|Nij].
  - (* i = j: the two running values coincide *)
    subst i. destruct (strip_odd_same (S (N.size_nat (j - 1))) (j - 1)) as [y Ey].
    rewrite Ey in Es. injection Es as <- <-.
    destruct (cons_loop_same r y c0) as [x Ex]. rewrite Ex in V. cbn [fst snd] in V.
    injection V as V. apply andb_prop in V as [V1 V2].
    apply list_eqb_eq in V1. apply list_eqb_eq in V2.
    left. rewrite FL. split; [congruence | lia].
  - assert (Lij : i < j) by lia.
    destruct (cons_honest_path H L i j ltac:(lia) Lij ltac:(lia)) as (fn' & sn' & sd & hs & pre' & post' & Ep & Es' & Ec & P' & Epre).
    rewrite FL in P'. rewrite Es in Es'. injection Es' as <- <-.
    rewrite Ep in Elen. cbn [length] in Elen.
    rewrite cons_loop_climb in V. cbn [fst snd] in V. injection V as V.
    apply andb_prop in V as [V1 V2]. apply list_eqb_eq in V1. apply list_eqb_eq in V2.
    pose proof (Forall_inv F) as L0. pose proof (Forall_inv_tail F) as Fr. cbv beta in L0.
    set (cs := cons_steps r fn sn) in *.
    destruct (climb_path H H_len cs (mk_tree L) c0 (cons_steps_ok r fn sn Fr) L0 (eq_sym V2))
      as [(s & pre & post & u & PI & Esd)|C]; [|right; exact C].
    left. split; [|lia].
    assert (Dirs : map fst cs = map fst (hmap H hs)).
    { unfold cs. rewrite <- Ec. apply cons_steps_dirs. lia. }
    pose proof (spath_tpath H _ _ _ _ _ (path_in_spath H _ _ _ _ _ _ PI)) as T1.
    pose proof (spath_tpath H _ _ _ _ _ P') as T2.
    rewrite Dirs in T1.
    destruct (tpath_det _ _ _ _ _ T1 _ _ _ T2) as [-> ->].
    rewrite V1. rewrite <- Esd. rewrite <- (path_in_prefix_tree H _ _ _ _ _ _ PI).
    rewrite (prefix_tree_is_mth H L _ _ _ _ _ NE PI), Epre. reflexivity.
Qed.

(* the premises are satisfiable: the generated proof has the honest length and is accepted *)
Lemma consistency_exact_len_premises_sat (L : list bytes) (i j : N) :
  1 <= i -> i <= j -> j = lenN L ->
  exists cproof, length cproof = length (cons_ref L (height_of j) i j []) /\
                 verify_consistency H cproof i j (mth (firstn (N.to_nat i) L)) (mth L) = Ok true.
Proof.
  intros L1 Li Ej. exists (cons_ref L (height_of j) i j []). split; [reflexivity|].
  pose proof (cons_ref_verifies H L i j L1 Li ltac:(lia)) as V.
  rewrite (firstn_all2 L (n := N.to_nat j)) in V by (unfold lenN in Ej; lia). exact V.
Qed.

End Exact.
