(* Completeness of ahtree.VerifyConsistency for the proofs AHtree.ConsistencyProof generates:
   for all 1 <= i <= j <= |L| the generated proof is accepted against
   (i, mth (first i payloads)) and (j, mth (first j payloads)). *)
From V Require Import Merkle.Verify Merkle.Sound Merkle.Honest Merkle.Exact Merkle.RefEq Merkle.Main.
From V Require Import Merkle.AHT Merkle.AHTArith Merkle.AHTSpec Merkle.AHTInv Merkle.AHTIncl Merkle.AHTCons Merkle.ConsPath.
From Coq Require Import Lia Arith ZifyN ZifyNat ZifyBool.
Open Scope N_scope.

Lemma top_bit m : m <> 0 -> exists h', N.size_nat m = S h' /\ N.testbit m (N.of_nat h') = true.
Proof.
  intros NZ. destruct m as [|p]; [congruence|].
  pose proof (size_nat_gt (N.pos p)) as G. pose proof (size_nat_lb p) as Lb.
  destruct (N.size_nat (N.pos p)) as [|h'] eqn:E; [cbn in G; lia|].
  exists h'. split; [reflexivity|].
  rewrite Nnat.Nat2N.inj_succ, N.pow_succ_r' in *.
  pose proof (pow2_pos (N.of_nat h')) as PP. set (P := 2 ^ N.of_nat h') in *.
  rewrite N.testbit_eqb. fold P.
  assert (D : N.pos p / P = 1) by (symmetry; apply (N.div_unique (N.pos p) P 1 (N.pos p - P)); lia).
  rewrite D. reflexivity.
Qed.

Lemma strip_odd_same : forall fuel x, exists y, strip_odd fuel x x = (y, y).
Proof.
  induction fuel as [|f IH]; intros x; cbn [strip_odd]; [eauto|].
  destruct (N.odd x); [apply IH | eauto].
Qed.

Section Complete.
Variable H : bytes -> bytes.
Hypothesis H_len : forall x, length (H x) = 32%nat.
Notation mth := (mth H).
Notation th := (th H).
Notation nodeh := (nodeh H).
Notation cons_ref := (cons_ref H).

Lemma firstn_firstn_min {A} (l : list A) a b : (a <= b)%nat -> firstn a (firstn b l) = firstn a l.
Proof. intros Le. rewrite firstn_firstn. f_equal. lia. Qed.

(* ---- i = j ---- *)
Lemma cons_verify_eq (L : list bytes) j : 1 <= j -> j <= lenN L ->
  verify_consistency H (cons_ref L (height_of j) j j []) j j
    (mth (firstn (N.to_nat j) L)) (mth (firstn (N.to_nat j) L)) = Ok true.
Proof.
  intros L1 Lj. unfold height_of.
  destruct (N.eq_dec (j - 1) 0) as [Z|NZ].
  - rewrite Z. cbn [N.size_nat cons_ref]. unfold verify_consistency.
    destruct (N.ltb_spec j j); [lia|]. destruct (N.eqb_spec j 0); [lia|].
    cbn [orb andb lenN length N.of_nat]. rewrite N.eqb_refl. cbn [andb N.eqb orb].
    rewrite bytes_eqb_refl. reflexivity.
  - destruct (top_bit (j - 1) NZ) as (h & Es & T). rewrite Es. cbn [cons_ref]. rewrite T.
    pose proof (base_top j) as BT. unfold height_of in BT. rewrite Es in BT.
    pose proof (base_succ j (N.of_nat h)) as BS.
    replace (N.of_nat h + 1) with (N.of_nat (S h)) in BS by lia. rewrite BT, T in BS.
    pose proof (base_bounds j (N.of_nat h)) as BB. pose proof (pow2_pos (N.of_nat h)) as PP.
    set (k := base j (N.of_nat h)) in *.
    destruct (N.leb_spec j k); [lia|]. rewrite N.eqb_refl.
    replace (k - 2 ^ N.of_nat h) with 0 by lia.
    unfold verify_consistency.
    destruct (N.ltb_spec j j); [lia|]. destruct (N.eqb_spec j 0); [lia|].
    cbn [orb andb lenN length N.of_nat]. rewrite N.eqb_refl. cbn [andb].
    unfold eval_consistency.
    destruct (strip_odd_same (S (N.size_nat (j - 1))) (j - 1)) as [y Ey]. rewrite Ey. cbn [bind].
    cbn [cons_loop]. rewrite N.eqb_refl, orb_true_r.
    destruct (strip_even (S (N.size_nat y)) y y) as [fn' sn']. cbn [cons_loop fst snd].
    assert (E : nodeh (mth (slice L 0 k)) (AHTSpec.dig H L j (N.of_nat h)) = mth (firstn (N.to_nat j) L)).
    { unfold AHTSpec.dig. fold k. rewrite <- slice_0. rewrite (slice_split L 0 k j) by lia.
      symmetry. apply (mth_split H _ _ (N.of_nat h)); rewrite slice_length by lia; lia. }
    rewrite E, bytes_eqb_refl. reflexivity.
Qed.

(* ---- i < j: the generated proof is  th S :: honest level path of S, and the verifier's
   direction rule follows that path ---- *)
Lemma cons_honest_path (L : list bytes) i j : 1 <= i -> i < j -> j <= lenN L ->
  let X := firstn (N.to_nat j) L in
  exists fn sn sd hs pre post,
    cons_ref L (height_of j) i j [] = th sd :: hterms H hs /\
    strip_odd (S (N.size_nat (i - 1))) (i - 1) (j - 1) = (fn, sn) /\
    cons_steps (hterms H hs) fn sn = hmap H hs /\
    spath H (mk_tree X) (hmap H hs) sd pre post /\
    pre ++ leaves sd = firstn (N.to_nat i) L.
Proof.
  intros L1 Li Lj X.
  destruct (cons_ref_spath H L (height_of j) i j) as (t & q & steps & pre & post & Ei & Oq & Lo & Eq & P & Lp);
    [rewrite base_top; lia | lia | lia |].
  rewrite base_top in *. rewrite (Eq []), app_nil_r. clear Eq. rewrite slice_0 in P.
  change (mth (slice L (i - 2 ^ N.of_nat t) i)) with (th (mk_tree (slice L (i - 2 ^ N.of_nat t) i))).
  fold X in P.
  assert (LX : length X = N.to_nat j) by (unfold X, lenN in *; rewrite firstn_length; lia).
  assert (NX : X <> []) by (intros E; rewrite E in LX; cbn in LX; lia).
  pose proof (pow2_pos (N.of_nat t)) as PP.
  pose proof (pow_N_nat t) as PN.
  set (PNv := 2 ^ N.of_nat t) in *. set (Pn := (2 ^ t)%nat) in *.
  assert (Q1 : 1 <= q) by (destruct q; [discriminate | lia]).
  set (x := N.to_nat (q - 1)).
  assert (Ein : N.to_nat i = (S x * Pn)%nat).
  { rewrite Ei, Nnat.N2Nat.inj_mul, PN. unfold x. f_equal. lia. }
  assert (Hn : (S x * Pn <= length X)%nat) by lia.
  destruct (upn_node X t x Hn) as (Lx & B1 & B2). fold Pn in B1, B2.
  set (ts := upn t (Exact.lv0 X)) in *.
  assert (L0 : (1 <= length (Exact.lv0 X))%nat) by (unfold Exact.lv0; rewrite map_length; lia).
  destruct (honest_path H (length ts) ts x (le_n _) Lx) as [post' P'].
  unfold ts in P' at 1. rewrite (root_upn t _ L0) in P'.
  change (Exact.lv0 X) with (RefEq.lv0 X) in P' at 1.
  rewrite (level_root_is_reference X NX) in P'.
  set (hs := hsteps (length ts) ts x) in *.
  (* the generator's path IS the level path *)
  assert (LS : length (leaves (mk_tree (slice L (i - PNv) i))) = Pn).
  { rewrite mk_tree_leaves by (apply slice_nonempty; lia).
    pose proof (slice_length L (i - PNv) i ltac:(lia) ltac:(lia)) as SL. unfold lenN in SL. lia. }
  assert (Lpre : length pre = (x * Pn)%nat).
  { unfold lenN in Lp. rewrite Nat.mul_succ_l in Ein. lia. }
  destruct (spath_unique_node H _ _ _ _ _ P _ _ _ _ P') as [Es ES]; [lia | lia |].
  subst steps. rewrite ES in *. clear ES.
  assert (Msnd : map snd (hmap H hs) = hterms H hs).
  { unfold hmap, hterms. rewrite map_map. reflexivity. }
  rewrite Msnd.
  exists (q - 1), (N.shiftr (j - 1) (N.of_nat t)), (nthT ts x), hs, (before ts x), post'.
  split; [reflexivity|]. split.
  { replace (i - 1) with (q * 2 ^ N.of_nat t - 1) by (fold PNv; lia).
    apply (strip_odd_mult t q (j - 1) _ Oq). lia. }
  split.
  { assert (Efn : q - 1 = N.of_nat x) by (unfold x; lia).
    assert (Esn : N.shiftr (j - 1) (N.of_nat t) = N.of_nat (length ts - 1)).
    { unfold ts. rewrite (upn_last t _ L0).
      replace (j - 1) with (N.of_nat (length (Exact.lv0 X) - 1))
        by (unfold Exact.lv0; rewrite map_length; lia).
      apply shiftr_of_nat. }
    rewrite Efn, Esn. unfold hs. apply (cons_steps_hsteps H (length ts) ts x (le_n _) Lx). }
  split; [exact P'|].
  pose proof (spath_leaves H _ _ _ _ _ P') as SL. rewrite mk_tree_leaves in SL by exact NX.
  assert (E : firstn (N.to_nat i) X = before ts x ++ leaves (nthT ts x)).
  { rewrite SL at 1. rewrite app_assoc.
    replace (N.to_nat i) with (length (before ts x ++ leaves (nthT ts x)) + 0)%nat
      by (rewrite app_length, B1, B2, Ein, Nat.mul_succ_l; lia).
    rewrite firstn_app_2. cbn [firstn]. apply app_nil_r. }
  rewrite <- E. unfold X. apply firstn_firstn_min. lia.
Qed.

Lemma cons_verify_lt (L : list bytes) i j : 1 <= i -> i < j -> j <= lenN L ->
  verify_consistency H (cons_ref L (height_of j) i j []) i j
    (mth (firstn (N.to_nat i) L)) (mth (firstn (N.to_nat j) L)) = Ok true.
Proof.
  intros L1 Li Lj.
  destruct (cons_honest_path L i j L1 Li Lj) as (fn & sn & sd & hs & pre & post & Ep & Es & Ec & P & Epre).
  set (X := firstn (N.to_nat j) L) in *.
  assert (NX : X <> []).
  { intros E. apply (f_equal (@length bytes)) in E. unfold X, lenN in *. rewrite firstn_length in E. cbn in E. lia. }
  rewrite Ep. unfold verify_consistency.
  destruct (N.ltb_spec j i); [lia|]. destruct (N.eqb_spec i 0); [lia|].
  destruct (N.ltb_spec i j); [|lia]. cbn [orb andb lenN length].
  destruct (N.eqb_spec (N.of_nat (S (length (hterms H hs)))) 0); [lia|]. cbn [orb].
  destruct (N.eqb_spec i j); [lia|]. cbn [andb].
  unfold eval_consistency. rewrite Es. cbn [bind]. rewrite cons_loop_climb. cbn [fst snd]. rewrite Ec.
  rewrite (spath_climb H _ _ _ _ _ P).
  destruct (spath_path_in H _ _ _ _ _ P) as [u PI].
  rewrite <- (path_in_prefix_tree H _ _ _ _ _ _ PI).
  rewrite (prefix_tree_is_mth H X _ _ _ _ _ NX PI), Epre.
  fold (mth X). rewrite !bytes_eqb_refl. reflexivity.
Qed.

Theorem cons_ref_verifies (L : list bytes) i j : 1 <= i -> i <= j -> j <= lenN L ->
  verify_consistency H (cons_ref L (height_of j) i j []) i j
    (mth (firstn (N.to_nat i) L)) (mth (firstn (N.to_nat j) L)) = Ok true.
Proof.
  intros L1 Li Lj. destruct (N.eq_dec i j) as [->|NE].
  - apply cons_verify_eq; lia.
  - apply cons_verify_lt; lia.
Qed.

End Complete.
