(* Close + Open of the AHtree: a restart at a moment when the commit-log file holds exactly `size`
   entries (no rewind since the largest size was reached) is invisible; after a rewind it is NOT:
   the restart resurrects the pre-rewind size (known finding "ahtree rewind not durable"). *)
From V Require Import Merkle.AHT Merkle.AHTArith Merkle.AHTSpec Merkle.AHTInv Merkle.AHTMain.
From Coq Require Import Lia ZifyN ZifyNat ZifyBool.
Open Scope N_scope.

Section Reopen.
Variable H : bytes -> bytes.

Lemma inv_dlog_len t : Inv H t -> dsize t <= lenN (dlog t).
Proof.
  intros (Lp & Ed & El). apply (f_equal (@length bytes)) in El. rewrite firstn_length in El.
  pose proof (payloads_length t Lp) as PL.
  pose proof (spec_log_upto_length H (payloads t) (length (payloads t))) as SL.
  unfold lenN, spec_log in *.
  assert (dsize t = N.of_nat (length (spec_log_upto H (payloads t) (length (payloads t)))))
    by (rewrite SL, Ed; f_equal; lia).
  lia.
Qed.

(* restart with a commit log of exactly `size` entries: the very same state *)
Theorem reopen_ok t : Inv H t -> reopen_at t (size t) = Ok t.
Proof.
  intros I. pose proof I as (Lp & Ed & _). pose proof (inv_dlog_len t I) as DL.
  unfold reopen_at. destruct (N.ltb_spec (lenN (plog t)) (size t)); [lia|].
  rewrite <- Ed. destruct (N.ltb_spec (lenN (dlog t)) (dsize t)); [lia|].
  destruct t; reflexivity.
Qed.

Lemma run2_snoc ops o : aht_run2 H (ops ++ [o]) = aht_step2 H (aht_run2 H ops) o.
Proof. unfold aht_run2. rewrite fold_left_app. reflexivity. Qed.

Lemma strip2_app a b : strip2 (a ++ b) = strip2 a ++ strip2 b.
Proof. induction a as [|[d|k|] a IH]; cbn [strip2 app]; rewrite ?IH; reflexivity. Qed.

Lemma run_snoc ops o : aht_run H (ops ++ [o]) = aht_step H (aht_run H ops) o.
Proof. unfold aht_run. rewrite fold_left_app. reflexivity. Qed.

(* a history all of whose restarts happen when the commit log holds exactly `size` entries is,
   state for state, the history without the restarts — so every theorem about aht_run applies *)
Theorem aht_run2_durable : forall ops,
  (forall pre post, ops = pre ++ Reopen2 :: post ->
     snd (aht_run2 H pre) = size (fst (aht_run2 H pre))) ->
  fst (aht_run2 H ops) = aht_run H (strip2 ops).
Proof.
  induction ops as [|o ops IH] using rev_ind; intros D; [reflexivity|].
  assert (D' : forall pre post, ops = pre ++ Reopen2 :: post ->
             snd (aht_run2 H pre) = size (fst (aht_run2 H pre))).
  { intros pre post E. apply (D pre (post ++ [o])). rewrite E, <- app_assoc. reflexivity. }
  specialize (IH D'). rewrite run2_snoc, strip2_app.
  destruct (aht_run2 H ops) as [t ce] eqn:E. cbn [fst] in IH.
  destruct o as [d|k|]; cbn [aht_step2 strip2 fst].
  - rewrite run_snoc, IH. reflexivity.
  - rewrite run_snoc, IH. reflexivity.
  - rewrite app_nil_r. specialize (D ops [] eq_refl). rewrite E in D. cbn [fst snd] in D.
    subst ce. destruct (aht_run_inv H (strip2 ops)) as [I _]. rewrite <- IH in I.
    rewrite (reopen_ok t I). exact IH.
Qed.

End Reopen.

(* the premise is satisfiable: append, append, restart *)
Example durable_premises_sat (H : bytes -> bytes) :
  snd (aht_run2 H [A2 [1]; A2 [2]]) = size (fst (aht_run2 H [A2 [1]; A2 [2]])).
Proof. vm_compute. reflexivity. Qed.

(* KNOWN FINDING "ahtree rewind not durable", in the model, for EVERY hash function: append x5,
   ResetSize(2), Append, Close, Open => size 5, although the content is 3 payloads *)
Definition rewind_witness : list aop2 :=
  [A2 [0]; A2 [1]; A2 [2]; A2 [3]; A2 [4]; R2 2; A2 [9]; Reopen2].

Theorem aht_rewind_not_durable_refuted :
  exists ops : list aop2,
    forall H : bytes -> bytes,
      size (fst (aht_run2 H ops)) = 5 /\ lenN (final_payloads (strip2 ops)) = 3.
Proof. exists rewind_witness. intros H. split; vm_compute; reflexivity. Qed.
