(* Sync / Close / Open / crash images of the AHtree (model: run2, aht_step2 in Merkle/AHT.v).
   For EVERY history of Append / ResetSize / restart / crash image the tree is, state for state,
   the tree of the history without the restarts in which every crash image is a ResetSize:
   restarts are invisible, and opening an image whose payload and digest logs extend beyond what the
   commit log commits is a rewind to the committed size.  (Before /repo 6a85281 a ResetSize that no
   append followed was lost at a restart, before 09014a8 every rewind was.) *)
From V Require Import Merkle.AHT Merkle.AHTArith Merkle.AHTSpec Merkle.AHTInv Merkle.AHTMain.
From Coq Require Import Lia ZifyN ZifyNat ZifyBool.
Open Scope N_scope.

Section Reopen.
Variable H : bytes -> bytes.

Lemma inv_dlog_len t : Inv H t -> dsize t <= lenN (dlog t).
Proof.
  intros (Lp & Ed & El). apply (f_equal (@length bytes)) in El. rewrite firstn_length in El.
  pose proof (payloads_length t Lp) as PL.
  pose proof (spec_log_upto_length H (payloads t) (length (payloads t))) as SL.
  unfold lenN, spec_log in *.
  assert (dsize t = N.of_nat (length (spec_log_upto H (payloads t) (length (payloads t)))))
    by (rewrite SL, Ed; f_equal; lia).
  lia.
Qed.

(* OpenWith on files that hold at least c committed elements = ResetSize to c *)
Lemma reopen_is_reset t c : Inv H t -> c <= size t -> reopen_at t c = reset_size t c.
Proof.
  intros I Le. pose proof I as (Lp & Ed & _). pose proof (inv_dlog_len t I) as DL.
  destruct (reset_ok H t c I Le) as (t' & E & I' & _ & St). rewrite E.
  pose proof I' as (Lp' & Ed' & _). pose proof (inv_dlog_len t' I') as DL'.
  unfold reset_size in E. destruct (N.ltb_spec (size t) c); [lia|].
  unfold reopen_at.
  destruct (N.eqb_spec (size t) c) as [Es|NE].
  - injection E as <-. subst c. rewrite <- Ed.
    destruct (N.ltb_spec (lenN (plog t)) (size t)); [lia|].
    destruct (N.ltb_spec (lenN (dlog t)) (dsize t)); [lia|]. destruct t; reflexivity.
  - assert (D : (if 0 <? c then nodes_upto c else 0) = nodes_upto c).
    { destruct (N.ltb_spec 0 c); [reflexivity|]. replace c with 0 by lia. reflexivity. }
    rewrite D in E. destruct ((0 <? c) && (lenN (dlog t) <? nodes_upto c)); [discriminate|].
    injection E as <-. cbn [size plog dlog dsize] in *.
    destruct (N.ltb_spec (lenN (plog t)) c); [lia|].
    destruct (N.ltb_spec (lenN (dlog t)) (nodes_upto c)); [lia|]. reflexivity.
Qed.

(* restart with a commit log of exactly `size` entries: the very same state *)
Theorem reopen_ok t : Inv H t -> reopen_at t (size t) = Ok t.
Proof.
  intros I. rewrite (reopen_is_reset t (size t) I (N.le_refl _)).
  unfold reset_size. rewrite N.ltb_irrefl, N.eqb_refl. reflexivity.
Qed.

(* a crash image (commit log cut to c <= size entries, longer payload and digest logs) opens as
   the tree of the first c payloads: what lies beyond is overwritten by the next appends *)
Theorem crash_image_is_prefix t c : Inv H t -> c <= size t ->
  exists t', reopen_at t c = Ok t' /\ Inv H t' /\
             payloads t' = firstn (N.to_nat c) (payloads t) /\ size t' = c.
Proof. intros I Le. rewrite (reopen_is_reset t c I Le). apply reset_ok; assumption. Qed.

(* ---- runs with restarts ---- *)
Definition Inv2 (s : run2) : Prop :=
  Inv H (rtree s) /\ (dirty s = false -> centries s = size (rtree s)).

Lemma sync2_inv s : Inv2 s -> Inv2 (sync2 s) /\ rtree (sync2 s) = rtree s /\ centries (sync2 s) = size (rtree s).
Proof.
  intros (I & C). unfold sync2. destruct (dirty s) eqn:Ed; cbn [rtree centries dirty].
  - split; [split; [exact I | reflexivity]|]. auto.
  - split; [split; [exact I | intros _; apply C; reflexivity]|]. split; [reflexivity | apply C; reflexivity].
Qed.

Lemma step2_sim s o : Inv2 s ->
  Inv2 (aht_step2 H s o) /\
  rtree (aht_step2 H s o) =
  match o with
  | A2 d => aht_step H (rtree s) (OAppend d)
  | R2 k => aht_step H (rtree s) (OReset k)
  | Reopen2 => rtree s
  | Crash2 c => aht_step H (rtree s) (OReset c)
  end.
Proof.
  intros I2. pose proof I2 as (I & C). destruct o as [d|k| |c]; cbn [aht_step2 aht_step].
  - destruct (append_ok H (rtree s) d I) as (t' & E & I' & _). rewrite E. cbn [rtree].
    split; [split; [exact I' | discriminate] | reflexivity].
  - destruct (N.leb_spec (size (rtree s)) k) as [Le|Gt].
    + split; [exact I2|]. unfold reset_size.
      destruct (N.ltb_spec (size (rtree s)) k); [reflexivity|].
      destruct (N.eqb_spec (size (rtree s)) k); [reflexivity | lia].
    + destruct (sync2_inv s I2) as (_ & Et & _). rewrite Et.
      destruct (reset_ok H (rtree s) k I ltac:(lia)) as (t' & E & I' & _ & St). rewrite E. cbn [rtree].
      split; [split; [exact I' | intros _; cbn [centries rtree]; lia] | reflexivity].
  - destruct (sync2_inv s I2) as (I2' & Et & Ec). rewrite Et, Ec, (reopen_ok _ I). cbn [rtree].
    split; [split; [exact I | reflexivity] | reflexivity].
  - destruct (sync2_inv s I2) as (I2' & Et & Ec). rewrite Ec, Et.
    destruct (N.ltb_spec (size (rtree s)) c) as [Gt|Le].
    + rewrite Et. split; [exact I2'|]. unfold reset_size.
      destruct (N.ltb_spec (size (rtree s)) c); [reflexivity | lia].
    + rewrite (reopen_is_reset _ c I Le).
      destruct (reset_ok H (rtree s) c I Le) as (t' & E & I' & _ & St). rewrite E. cbn [rtree].
      split; [split; [exact I' | intros _; cbn [centries rtree]; lia] | reflexivity].
Qed.

(* restarts are invisible and a crash image is a rewind: state for state *)
Theorem aht_run2_is_run (ops : list aop2) :
  Inv2 (aht_run2 H ops) /\ rtree (aht_run2 H ops) = aht_run H (strip2 ops).
Proof.
  unfold aht_run2, aht_run.
  assert (G : forall s t, Inv2 s -> rtree s = t ->
              Inv2 (fold_left (aht_step2 H) ops s) /\
              rtree (fold_left (aht_step2 H) ops s) = fold_left (aht_step H) (strip2 ops) t).
  { induction ops as [|o ops IH]; intros s t I E; cbn [fold_left strip2]; [auto|].
    destruct (step2_sim s o I) as [I' E']. rewrite E in E'.
    destruct o; cbn [strip2 fold_left]; apply IH; auto. }
  apply G; [|reflexivity]. split; [apply Inv_empty | reflexivity].
Qed.

(* in particular a restart never changes the tree *)
Theorem restart_invisible (ops : list aop2) :
  rtree (aht_run2 H (ops ++ [Reopen2])) = rtree (aht_run2 H ops).
Proof.
  assert (S : strip2 (ops ++ [Reopen2]) = strip2 ops)
    by (induction ops as [|[d|k| |c] ops IH]; cbn [app strip2]; rewrite ?IH; reflexivity).
  destruct (aht_run2_is_run (ops ++ [Reopen2])) as [_ E1]. destruct (aht_run2_is_run ops) as [_ E2].
  rewrite E1, E2, S. reflexivity.
Qed.

End Reopen.

(* the former witnesses of "ahtree (bare) rewind not durable": the rewound size survives the
   restart, for every hash function *)
Example rewind_then_append_durable (H : bytes -> bytes) :
  size (rtree (aht_run2 H [A2 [0]; A2 [1]; A2 [2]; A2 [3]; A2 [4]; R2 2; A2 [9]; Reopen2])) = 3.
Proof. vm_compute. reflexivity. Qed.
Example bare_rewind_durable (H : bytes -> bytes) :
  size (rtree (aht_run2 H [A2 [0]; A2 [1]; A2 [2]; A2 [3]; A2 [4]; R2 2; Reopen2])) = 2.
Proof. vm_compute. reflexivity. Qed.
