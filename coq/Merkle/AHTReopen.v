(* Sync / Close / Open / crash images of the AHtree (model: run2, aht_step2 in Merkle/AHT.v).
   For EVERY history of Append / ResetSize / restart / crash image the tree satisfies the digest-log
   invariant and holds exactly the payload list of the specification spec_run2: a restart is
   invisible whenever an append is buffered or the commit log holds `size` entries; a restart right
   after a ResetSize that no append followed brings the pre-rewind content back (the commit-log file
   is only cut when the next append is synced) — consistently: no mixing of old and new digests. *)
From V Require Import Merkle.AHT Merkle.AHTArith Merkle.AHTSpec Merkle.AHTInv Merkle.AHTMain.
From Coq Require Import Lia ZifyN ZifyNat ZifyBool.
Open Scope N_scope.

Section Reopen.
Variable H : bytes -> bytes.

Lemma inv_dlog_len t : Inv H t -> dsize t <= lenN (dlog t).
Proof.
  intros (Lp & Ed & El). apply (f_equal (@length bytes)) in El. rewrite firstn_length in El.
  pose proof (payloads_length t Lp) as PL.
  pose proof (spec_log_upto_length H (payloads t) (length (payloads t))) as SL.
  unfold lenN, spec_log in *.
  assert (dsize t = N.of_nat (length (spec_log_upto H (payloads t) (length (payloads t)))))
    by (rewrite SL, Ed; f_equal; lia).
  lia.
Qed.

(* the files, read as a tree of c elements, are a good tree *)
Definition FileOk (t : aht) (c : N) : Prop := Inv H (mkAht (plog t) (dlog t) c (nodes_upto c)).

Lemma FileOk_self t : Inv H t -> FileOk t (size t).
Proof.
  intros I. unfold FileOk. pose proof I as (_ & Ed & _). rewrite <- Ed. destruct t; exact I.
Qed.

Lemma reopen_file t c : FileOk t c -> reopen_at t c = Ok (mkAht (plog t) (dlog t) c (nodes_upto c)).
Proof.
  intros F. pose proof F as (Lp & _). pose proof (inv_dlog_len _ F) as DL. cbn [size plog dlog dsize] in *.
  unfold reopen_at. destruct (N.ltb_spec (lenN (plog t)) c); [lia|].
  destruct (N.ltb_spec (lenN (dlog t)) (nodes_upto c)); [lia|]. reflexivity.
Qed.

Lemma FileOk_prefix t c c' : FileOk t c -> c' <= c -> FileOk t c'.
Proof.
  intros F Le. unfold FileOk in *.
  destruct (reset_ok H _ c' F Le) as (t' & E & I' & _).
  unfold reset_size in E. cbn [size plog dlog dsize] in E.
  destruct (N.ltb_spec c c'); [lia|].
  destruct (N.eqb_spec c c') as [->|NE]; [exact F|].
  assert (D : (if 0 <? c' then nodes_upto c' else 0) = nodes_upto c').
  { destruct (N.ltb_spec 0 c'); [reflexivity|]. replace c' with 0 by lia. reflexivity. }
  rewrite D in E. destruct ((0 <? c') && (lenN (dlog t) <? nodes_upto c')); [discriminate|].
  injection E as <-. exact I'.
Qed.

(* restart with a commit log of exactly `size` entries: the very same state *)
Theorem reopen_ok t : Inv H t -> reopen_at t (size t) = Ok t.
Proof.
  intros I. rewrite (reopen_file t (size t) (FileOk_self t I)).
  pose proof I as (_ & Ed & _). rewrite <- Ed. destruct t; reflexivity.
Qed.

(* a crash image (commit log cut to c <= size entries, longer payload and digest logs) opens as
   the tree of the first c payloads: what lies beyond is overwritten by the next appends *)
Theorem crash_image_is_prefix t c : Inv H t -> c <= size t ->
  exists t', reopen_at t c = Ok t' /\ Inv H t' /\
             payloads t' = firstn (N.to_nat c) (payloads t) /\ size t' = c.
Proof.
  intros I Le. pose proof (FileOk_prefix t (size t) c (FileOk_self t I) Le) as F.
  eexists. split; [apply (reopen_file t c F)|]. split; [exact F|]. split; [|reflexivity].
  unfold payloads. cbn [size plog]. rewrite firstn_firstn. f_equal. lia.
Qed.

Lemma reset_logs t k t' : reset_size t k = Ok t' -> plog t' = plog t /\ dlog t' = dlog t.
Proof.
  unfold reset_size. destruct (size t <? k); [discriminate|].
  destruct (size t =? k); [intros E; injection E as <-; auto|].
  destruct (_ && _); [discriminate|]. intros E; injection E as <-. auto.
Qed.

Ltac split_inv2 := split; [ | split; [ | split; [ | intros _; split; [ | split ] ] ] ].

(* ---- the invariant of runs with restarts ---- *)
Definition Inv2 (s : run2) (sp : spec2) : Prop :=
  let '(L, D, b) := sp in
  Inv H (rtree s) /\ payloads (rtree s) = L /\ dirty s = b /\
  (b = false -> size (rtree s) <= centries s /\ FileOk (rtree s) (centries s) /\
                firstn (N.to_nat (centries s)) (plog (rtree s)) = D).

Lemma sync2_inv s sp : Inv2 s sp -> Inv2 (sync2 s) (spec_sync sp) /\ snd (spec_sync sp) = false.
Proof.
  destruct sp as [[L D] b]. intros (I & P & Db & F). unfold sync2, spec_sync. rewrite Db.
  destruct b.
  - split; [|reflexivity]. cbn [Inv2 rtree centries dirty].
    split_inv2; [exact I | exact P | reflexivity | lia | apply FileOk_self; exact I | exact P].
  - split; [|reflexivity]. cbn [Inv2]. auto.
Qed.

Lemma step2_inv s sp o : Inv2 s sp -> Inv2 (aht_step2 H s o) (spec_step2 sp o).
Proof.
  intros I2. destruct o as [d|k| |c].
  - (* Append *)
    destruct sp as [[L D] b]. destruct I2 as (I & P & Db & F). cbn [aht_step2 spec_step2].
    destruct (append_ok H (rtree s) d I) as (t' & E & I' & P' & _). rewrite E.
    cbn [Inv2 rtree dirty]. split; [exact I'|]. split; [rewrite P', P; reflexivity|]. split; [reflexivity|]. discriminate.
  - (* ResetSize *)
    cbn [aht_step2]. destruct sp as [[L D] b]. pose proof I2 as (I & P & Db & F).
    pose proof I as (Lp & _). pose proof (payloads_length (rtree s) Lp) as PL. rewrite P in PL.
    cbn [spec_step2]. rewrite PL.
    destruct (N.leb_spec (size (rtree s)) k) as [Le|Gt]; [exact I2|].
    destruct (sync2_inv s (L, D, b) I2) as [S2 Sb].
    destruct (spec_sync (L, D, b)) as [[L' D'] b'] eqn:Es. cbn [snd] in Sb. subst b'.
    assert (EL : L' = L) by (unfold spec_sync in Es; destruct b; congruence). subst L'.
    destruct S2 as (I' & P' & Db' & F'). destruct (F' eq_refl) as (Sz & FO & ED).
    assert (Et : rtree (sync2 s) = rtree s) by (unfold sync2; destruct (dirty s); reflexivity).
    rewrite Et in *.
    destruct (reset_ok H (rtree s) k I ltac:(lia)) as (t' & E & It & Pt & St).
    rewrite E. destruct (reset_logs _ _ _ E) as [Epl Edl].
    cbn [Inv2 rtree centries dirty].
    split_inv2; [exact It | rewrite Pt, P; reflexivity | reflexivity | lia | | rewrite Epl; exact ED].
    unfold FileOk in *. rewrite Epl, Edl. exact FO.
  - (* Close + Open *)
    cbn [aht_step2 spec_step2].
    destruct (sync2_inv s sp I2) as [S2 Sb].
    destruct (spec_sync sp) as [[L' D'] b'] eqn:Es. cbn [snd] in Sb. subst b'.
    destruct S2 as (I' & P' & Db' & F'). destruct (F' eq_refl) as (Sz & FO & ED).
    rewrite (reopen_file _ _ FO). cbn [Inv2 rtree centries dirty].
    split_inv2; [exact FO | exact ED | reflexivity | cbn [size]; lia | exact FO | exact ED].
  - (* crash image *)
    cbn [aht_step2 spec_step2].
    destruct (sync2_inv s sp I2) as [S2 Sb].
    destruct (spec_sync sp) as [[L' D'] b'] eqn:Es. cbn [snd] in Sb. subst b'.
    pose proof S2 as (I' & P' & Db' & F'). destruct (F' eq_refl) as (Sz & FO & ED).
    assert (LD : lenN D' = centries (sync2 s)).
    { pose proof FO as (Lp & _). cbn [size plog] in Lp. rewrite <- ED. unfold lenN in *. rewrite firstn_length. lia. }
    rewrite LD.
    destruct (N.ltb_spec (centries (sync2 s)) c) as [Gt|Le].
    + cbn [Inv2]. split_inv2; [exact I' | exact P' | exact Db' | exact Sz | exact FO | exact ED].
    + pose proof (FileOk_prefix _ _ c FO Le) as FC.
      rewrite (reopen_file _ _ FC). cbn [Inv2 rtree centries dirty].
      assert (EP : firstn (N.to_nat c) (plog (rtree (sync2 s))) = firstn (N.to_nat c) D').
      { rewrite <- ED, firstn_firstn. f_equal. lia. }
      split_inv2; [exact FC | exact EP | reflexivity | cbn [size]; lia | exact FC | exact EP].
Qed.

Theorem aht_run2_inv (ops : list aop2) : Inv2 (aht_run2 H ops) (spec_run2 ops).
Proof.
  unfold aht_run2, spec_run2.
  assert (G : forall s sp, Inv2 s sp -> Inv2 (fold_left (aht_step2 H) ops s) (fold_left spec_step2 ops sp)).
  { induction ops as [|o ops IH]; intros s sp I; cbn [fold_left]; [exact I|].
    apply IH. apply step2_inv. exact I. }
  apply G. cbn [Inv2 rtree dirty centries].
  split_inv2; [apply Inv_empty | reflexivity | reflexivity | cbn; lia | unfold FileOk; cbn; apply Inv_empty | reflexivity].
Qed.

(* hence: whatever the history, the tree is observationally the tree obtained by appending the
   specified payload list to an empty tree *)
Theorem aht_run2_observables (ops : list aop2) :
  let t := rtree (aht_run2 H ops) in
  let L := fst (fst (spec_run2 ops)) in
  let t0 := aht_run H (map OAppend L) in
  payloads t = L /\ size t = size t0 /\
  (forall n, root_at t n = root_at t0 n) /\
  (forall i j, inclusion_proof t i j = inclusion_proof t0 i j) /\
  (forall i j, consistency_proof t i j = consistency_proof t0 i j).
Proof.
  intros t L t0. pose proof (aht_run2_inv ops) as I2.
  destruct (spec_run2 ops) as [[L' D] b] eqn:Es. cbn [fst] in L. subst L.
  destruct I2 as (I & P & _). fold t in I, P. split; [exact P|].
  destruct (aht_run_inv H (map OAppend L')) as [I0 P0]. fold t0 in I0, P0.
  apply (obs_payloads H t t0 I I0). rewrite P, P0. symmetry. apply final_payloads_appends.
Qed.

(* a restart while an append is buffered (or when the commit log holds `size` entries) is invisible *)
Theorem restart_invisible s sp :
  Inv2 s sp -> dirty s = true \/ centries s = size (rtree s) ->
  rtree (aht_step2 H s Reopen2) = rtree s.
Proof.
  intros I2 C. destruct sp as [[L D] b]. destruct I2 as (I & _).
  cbn [aht_step2]. unfold sync2. destruct (dirty s) eqn:Ed.
  - cbn [rtree centries]. rewrite (reopen_ok _ I). reflexivity.
  - destruct C as [C|C]; [discriminate|]. rewrite C, (reopen_ok _ I). reflexivity.
Qed.

End Reopen.

(* the former witness of "ahtree rewind not durable" (append x5, ResetSize(2), Append, Close, Open)
   now gives size 3, for every hash function *)
Definition rewind_witness : list aop2 :=
  [A2 [0]; A2 [1]; A2 [2]; A2 [3]; A2 [4]; R2 2; A2 [9]; Reopen2].
Example rewind_then_append_durable (H : bytes -> bytes) :
  size (rtree (aht_run2 H rewind_witness)) = 3 /\ fst (fst (spec_run2 rewind_witness)) = [[0]; [1]; [9]].
Proof. split; vm_compute; reflexivity. Qed.

(* RESIDUAL (known finding "ahtree bare rewind not durable"): a ResetSize that no append follows is
   lost at the next restart — ResetSize does not cut the commit-log file; the model has it. *)
Definition bare_rewind_witness : list aop2 :=
  [A2 [0]; A2 [1]; A2 [2]; A2 [3]; A2 [4]; R2 2; Reopen2].
Theorem aht_bare_rewind_not_durable_refuted :
  exists ops : list aop2,
    forall H : bytes -> bytes,
      size (rtree (aht_run2 H (ops ++ [Reopen2]))) <> size (rtree (aht_run2 H ops)).
Proof.
  exists [A2 [0]; A2 [1]; A2 [2]; A2 [3]; A2 [4]; R2 2]. intros H. vm_compute. discriminate.
Qed.
