(* The level-by-level Merkle construction (htree.BuildWith; the shape the AHtree maintains):
   adjacent nodes are paired, an odd last node is promoted unchanged.  Structural facts used by the
   completeness and position-exactness proofs.  No hashing in this file. *)
From V Require Export Merkle.Tree.
From Coq Require Import Lia Arith.

Open Scope nat_scope.

Fixpoint upT (ts : list tree) : list tree :=
  match ts with
  | a :: b :: r => Node a b :: upT r
  | _ => ts
  end.

Lemma pair_ind (P : list tree -> Prop) :
  P [] -> (forall a, P [a]) -> (forall a b r, P r -> P (a :: b :: r)) -> forall l, P l.
Proof.
  intros H0 H1 H2.
  assert (forall n l, length l <= n -> P l) as HH.
  { induction n as [|n IH]; intros l Hl.
    - destruct l; [auto | simpl in Hl; lia].
    - destruct l as [|a [|b r]]; auto. apply H2. apply IH. simpl in Hl. lia. }
  intros l; apply (HH (length l)); auto.
Qed.

Lemma upT_length ts : length (upT ts) = Nat.div2 (S (length ts)).
Proof.
  induction ts as [| a | a b r IH] using pair_ind; auto.
  cbn [upT length]. rewrite IH. reflexivity.
Qed.

Lemma upT_length_lt ts : 2 <= length ts -> length (upT ts) < length ts.
Proof.
  rewrite upT_length. intros H.
  pose proof (Nat.div2_decr (S (length ts)) (length ts)).
  destruct (length ts) as [|[|n]]; try lia. simpl.
  pose proof (Nat.lt_div2 (S n)). simpl in *. lia.
Qed.

Definition dflt : tree := Leaf [].
Definition nthT (ts : list tree) (x : nat) : tree := nth x ts dflt.

(* a pair of children becomes a node *)
Lemma upT_pair ts : forall x, 2 * x + 1 < length ts ->
  nthT (upT ts) x = Node (nthT ts (2 * x)) (nthT ts (2 * x + 1)).
Proof.
  induction ts as [| a | a b r IH] using pair_ind; intros x Hx; simpl in Hx; try lia.
  destruct x as [|x].
  - reflexivity.
  - cbn [upT]. unfold nthT in *. cbn [nth].
    replace (2 * S x) with (S (S (2 * x))) by lia.
    replace (S (S (2 * x)) + 1) with (S (S (2 * x + 1))) by lia.
    cbn [nth]. apply IH. lia.
Qed.

(* an odd-length level promotes its last node unchanged *)
Lemma upT_promote ts : forall j, length ts = S j -> Nat.even j = true ->
  nthT (upT ts) (Nat.div2 j) = nthT ts j.
Proof.
  induction ts as [| a | a b r IH] using pair_ind; intros j Hl He; simpl in Hl; try lia.
  - injection Hl as <-. reflexivity.
  - destruct j as [|[|j]]; try lia. { simpl in He. discriminate. }
    cbn [upT]. unfold nthT in *. cbn [nth Nat.div2]. apply IH; [lia|].
    simpl in He. exact He.
Qed.

Definition lvs (ts : list tree) : list bytes := concat (map leaves ts).

Lemma upT_lvs ts : lvs (upT ts) = lvs ts.
Proof.
  unfold lvs. induction ts as [| a | a b r IH] using pair_ind; auto.
  cbn [upT map concat leaves]. rewrite IH. rewrite app_assoc. reflexivity.
Qed.

(* leaves strictly to the left of index x *)
Definition before (ts : list tree) (x : nat) : list bytes := lvs (firstn x ts).

Lemma before_upT_even ts : forall x, 2 * x <= length ts -> before (upT ts) x = before ts (2 * x).
Proof.
  unfold before, lvs.
  induction ts as [| a | a b r IH] using pair_ind; intros x Hx; simpl in Hx.
  - destruct x; reflexivity.
  - destruct x as [|x]; [reflexivity | lia].
  - destruct x as [|x]; [reflexivity|].
    replace (2 * S x) with (S (S (2 * x))) by lia.
    cbn [upT firstn map concat leaves]. rewrite IH by lia. rewrite app_assoc. reflexivity.
Qed.

Lemma before_S ts x : x < length ts -> before ts (S x) = before ts x ++ leaves (nthT ts x).
Proof.
  unfold before, lvs, nthT. revert x; induction ts as [|a ts IH]; intros x Hx; simpl in Hx; [lia|].
  destruct x as [|x].
  - simpl. rewrite app_nil_r. reflexivity.
  - change (firstn (S (S x)) (a :: ts)) with (a :: firstn (S x) ts).
    change (firstn (S x) (a :: ts)) with (a :: firstn x ts).
    change (nth (S x) (a :: ts) dflt) with (nth x ts dflt).
    cbn [map concat]. rewrite IH by lia. rewrite app_assoc. reflexivity.
Qed.

(* ---- the root: iterate upT until one node is left ---- *)
Fixpoint build (fuel : nat) (ts : list tree) : list tree :=
  match fuel with
  | O => ts
  | S f => match ts with
           | _ :: _ :: _ => build f (upT ts)
           | _ => ts
           end
  end.

Definition root (ts : list tree) : tree := nthT (build (length ts) ts) 0.

Lemma build_step f ts : 2 <= length ts -> build (S f) ts = build f (upT ts).
Proof. destruct ts as [|a [|b r]]; simpl; intros; try lia; reflexivity. Qed.

Lemma build_single f t : build f [t] = [t].
Proof. destruct f; reflexivity. Qed.

Lemma build_root_step ts f f' :
  2 <= length ts -> length ts <= f -> length (upT ts) <= f' ->
  nthT (build f ts) 0 = nthT (build f' (upT ts)) 0.
Proof.
  revert ts f'. induction f as [|f IH]; intros ts f' H2 Hf Hf'; [lia|].
  rewrite build_step by auto.
  (* both fuels suffice for upT ts: show build with enough fuel is fuel-independent *)
  assert (forall n l a b, length l <= a -> length l <= b -> a <= n -> b <= n ->
            nthT (build a l) 0 = nthT (build b l) 0) as Hind.
  { induction n as [|n IHn]; intros l a b Ha Hb Han Hbn.
    - assert (a = 0) by lia. assert (b = 0) by lia. subst. reflexivity.
    - destruct l as [|x [|y r]].
      + destruct a, b; reflexivity.
      + rewrite !build_single. reflexivity.
      + destruct a as [|a]; [simpl in Ha; lia|]. destruct b as [|b]; [simpl in Hb; lia|].
        rewrite !build_step by (simpl; lia).
        pose proof (upT_length_lt (x :: y :: r)) as Hlt. simpl length in Hlt.
        apply IHn; simpl in *; lia. }
  pose proof (upT_length_lt ts H2).
  apply (Hind (f + f')); lia.
Qed.

Lemma root_step ts : 2 <= length ts -> root ts = root (upT ts).
Proof.
  intros H2. unfold root. apply build_root_step; auto.
Qed.

Lemma root_single t : root [t] = t.
Proof. reflexivity. Qed.

(* the root has exactly the leaves of the level, in order *)
Lemma root_leaves : forall n ts, length ts = n -> 1 <= n -> leaves (root ts) = lvs ts.
Proof.
  induction n as [n IH] using lt_wf_ind. intros ts Hl Hn.
  destruct ts as [|a [|b r]]; simpl in Hl; try lia.
  - unfold root, lvs. simpl. rewrite app_nil_r. reflexivity.
  - rewrite root_step by (simpl; lia). rewrite <- upT_lvs.
    assert (Hlt2 : length (upT (a :: b :: r)) < n)
      by (subst n; apply (upT_length_lt (a :: b :: r)); simpl; lia).
    assert (Hge : 1 <= length (upT (a :: b :: r))) by (cbn [upT length]; lia).
    apply (IH (length (upT (a :: b :: r)))); auto.
Qed.
