(* Witnesses (evaluated with the executable SHA-256) that the position-EXACT form of consistency
   soundness is false of the verifier as it stands: the known finding of C08. *)
From V Require Import Merkle.Verify Merkle.Sha256.

Definition d1 : bytes := [1]. Definition d2 : bytes := [2].
Definition R1 := mth sha256 [d1].
Definition R2 := mth sha256 [d1; d2].

(* the full statement would be:
     verify_consistency H cproof i j iroot (mth H L) = Ok true -> lenN L = j ->
     iroot = mth H (takeN i L) \/ Collision H                                           *)
Theorem consistency_exact_refuted :
  exists (L : list bytes) (cproof : list bytes) (i j : N) (iroot : bytes),
    lenN L = j /\
    verify_consistency sha256 cproof i j iroot (mth sha256 L) = Ok true /\
    iroot <> mth sha256 (takeN i L).
Proof.
  exists [d1; d2], [R2], 1, 2, R2. split; [reflexivity|]. split.
  - vm_compute. reflexivity.
  - vm_compute. discriminate.
Qed.
