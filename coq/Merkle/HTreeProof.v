(* htree.InclusionProof (the m, n, offset, l, r, layer, index loop) returns the RFC 6962 audit path
   of the reference tree over the digests = the honest proof of C08_htree_inclusion_complete. *)
From V Require Import Merkle.Verify Merkle.Sound Merkle.Honest Merkle.Exact Merkle.RefEq Merkle.Main Merkle.RefPath.
From V Require Import Merkle.AHTArith Merkle.AHTSpec Merkle.AHTIncl Merkle.AHTCons Merkle.HTree Merkle.HTreeLevels Merkle.HExact.
From Coq Require Import Lia ZArith ZifyN ZifyNat ZifyBool.
Open Scope N_scope.

Lemma size_pow2m1 a : N.size (2 ^ a - 1) = a.
Proof.
  destruct (N.eq_dec a 0) as [->|NZ]; [reflexivity|].
  pose proof (pow2_pos a). assert (2 <= 2 ^ a).
  { replace a with (N.succ (a - 1)) by lia. rewrite N.pow_succ_r'. pose proof (pow2_pos (a - 1)). lia. }
  rewrite N.size_log2 by lia. rewrite N.sub_1_r, N.log2_pred_pow2 by lia. lia.
Qed.

Lemma size_le_of_lt x a : x < 2 ^ a -> N.size x <= a.
Proof.
  intros L. destruct (N.eq_dec x 0) as [->|NZ]; [cbn; lia|].
  rewrite N.size_log2 by exact NZ. apply N.log2_lt_pow2 in L; lia.
Qed.

Lemma pow2_split a b : b <= a -> 2 ^ a = 2 ^ (a - b) * 2 ^ b.
Proof. intros L. rewrite <- N.pow_add_r. f_equal. lia. Qed.

Section Proof.
Variable H : bytes -> bytes.
Notation mth := (mth H).
Notation th := (th H).
Notation audit := (audit H).

(* level_at_ok in N: the block of level t that starts at a = x 2^t *)
Lemma level_at_N (ds : list bytes) (t x : N) :
  ds <> [] -> 2 ^ t <= lenN ds -> x * 2 ^ t < lenN ds ->
  level_at (ht_build H ds) t ((x * 2 ^ t) / N.shiftl 1 t) =
  Ok (mth (slice ds (x * 2 ^ t) (N.min (x * 2 ^ t + 2 ^ t) (lenN ds)))).
Proof.
  intros NE Lt Lx. pose proof (pow2_pos t) as PP.
  rewrite N.shiftl_1_l, N.div_mul by lia.
  pose proof (level_at_ok H ds (N.to_nat t) (N.to_nat x) NE) as E.
  rewrite !Nnat.N2Nat.id in E.
  assert (P2 : (2 ^ N.to_nat t)%nat = N.to_nat (2 ^ t)) by (rewrite Nnat.N2Nat.inj_pow; reflexivity).
  rewrite P2 in E. unfold lenN in *.
  rewrite E by lia. f_equal. f_equal. unfold slice.
  replace (N.to_nat (x * 2 ^ t)) with (N.to_nat x * N.to_nat (2 ^ t))%nat by lia.
  f_equal. lia.
Qed.

Lemma slice_tree_split (ds : list bytes) (off k n a : N) :
  k = 2 ^ a -> k < n -> n <= 2 * k -> off + n <= lenN ds ->
  mk_tree (slice ds off (off + n)) =
  Node (mk_tree (slice ds off (off + k))) (mk_tree (slice ds (off + k) (off + n))) /\
  tsize (mk_tree (slice ds off (off + k))) = k.
Proof.
  intros Ek Lk Ln Lw. pose proof (pow2_pos a).
  rewrite (slice_split ds off (off + k) (off + n)) by lia.
  assert (LA : lenN (slice ds off (off + k)) = 2 ^ a) by (rewrite slice_length by lia; lia).
  split.
  - apply (mk_tree_split _ _ a LA). rewrite slice_length by lia. lia.
  - rewrite tsize_mk_tree; [lia|]. apply slice_nonempty; lia.
Qed.

Lemma mk_tree_one (ds : list bytes) (a : N) : a + 1 <= lenN ds -> exists d, mk_tree (slice ds a (a + 1)) = Leaf d.
Proof.
  intros L. destruct (lenN_1 (slice ds a (a + 1))) as [x Ex]; [rewrite slice_length by lia; lia|].
  rewrite Ex. exists x. reflexivity.
Qed.

Lemma ht_loop_ok (ds : list bytes) : ds <> [] ->
  forall fuel m n offset acc,
  2 <= n -> m < n -> offset + n <= lenN ds ->
  (offset + n = lenN ds \/ n = 2 ^ N.size (n - 1)) ->
  (exists o, offset = o * 2 ^ N.size (n - 1)) ->
  (N.to_nat n <= fuel)%nat ->
  ht_proof_loop fuel (ht_build H ds) m n offset acc =
  Ok (audit (mk_tree (slice ds offset (offset + n))) m ++ acc).
Proof.
  intros NE. set (W := lenN ds).
  induction fuel as [|f IH]; intros m n offset acc L2 Lm Lw Shape [o Eo] Lf; [lia|].
  cbn [ht_proof_loop].
  set (d := N.size (n - 1)) in *.
  assert (Ed : d = N.succ (N.log2 (n - 1))) by (unfold d; apply N.size_log2; lia).
  set (a := N.log2 (n - 1)) in *.
  destruct (N.log2_spec (n - 1) ltac:(lia)) as [Lo Hi]. fold a in Lo, Hi.
  rewrite N.pow_succ_r' in Hi.
  destruct (N.eqb_spec d 0); [lia|].
  replace (d - 1) with a by lia. rewrite N.shiftl_1_l.
  set (k := 2 ^ a) in *.
  assert (Pd : 2 ^ d = 2 * k) by (rewrite Ed, N.pow_succ_r'; reflexivity).
  pose proof (pow2_pos a) as PK. fold k in PK.
  destruct (slice_tree_split ds offset k n a eq_refl ltac:(lia) ltac:(lia) Lw) as [Sp TS].
  rewrite Sp. cbn [RefPath.audit]. rewrite TS.
  destruct (N.ltb_spec m k) as [Lt|Ge].
  - (* the leaf is in the left (complete) part; the term is the right part *)
    set (sB := n - k).
    replace (offset + n - 1 - (offset + k)) with (sB - 1) by (unfold sB; lia).
    set (lam := N.size (sB - 1)).
    assert (Lam1 : sB <= 2 ^ lam) by (pose proof (N.size_gt (sB - 1)) as SG; fold lam in SG; lia).
    assert (Lam2 : lam <= a) by (apply size_le_of_lt; fold k; unfold sB; lia).
    pose proof (pow2_split a lam Lam2) as Ka. fold k in Ka.
    pose proof (pow2_pos lam) as PL. pose proof (pow2_pos (a - lam)) as PAL.
    set (x := o * (2 * 2 ^ (a - lam)) + 2 ^ (a - lam)).
    assert (Ex : offset + k = x * 2 ^ lam) by (unfold x; rewrite Eo, Pd, Ka; ring).
    rewrite Ex.
    rewrite (level_at_N ds lam x NE) by (rewrite <- ?Ex; fold W; nia).
    rewrite <- Ex.
    assert (Eb : N.min (offset + k + 2 ^ lam) (lenN ds) = offset + n).
    { fold W. destruct Shape as [Edge|Comp].
      - unfold sB in Lam1. lia.
      - fold d in Comp. rewrite Pd in Comp.
        assert (EsB : sB = k) by (unfold sB; lia).
        assert (Ela : lam = a) by (unfold lam; rewrite EsB; unfold k; apply size_pow2m1).
        rewrite Ela. fold k. lia. }
    rewrite Eb. cbn [bind].
    destruct (N.ltb_spec k 1); [lia|]. cbn [orb].
    destruct (N.eqb_spec k 1) as [K1|KN].
    + assert (m = 0) by lia. subst m. rewrite N.eqb_refl. cbn [andb].
      destruct (mk_tree_one ds offset ltac:(lia)) as [x0 Ex0]. rewrite K1, Ex0. reflexivity.
    + destruct (N.eqb_spec m 0); cbn [andb].
      * rewrite (IH m k offset) ; [rewrite <- app_assoc; reflexivity | lia | lia | lia | | | lia].
        -- right. unfold k. rewrite size_pow2m1. reflexivity.
        -- exists (2 * o). unfold k at 1. rewrite size_pow2m1. rewrite Eo, Pd. unfold k. ring.
      * rewrite (IH m k offset) ; [rewrite <- app_assoc; reflexivity | lia | lia | lia | | | lia].
        -- right. unfold k. rewrite size_pow2m1. reflexivity.
        -- exists (2 * o). unfold k at 1. rewrite size_pow2m1. rewrite Eo, Pd. unfold k. ring.
  - (* the leaf is in the right part; the term is the left complete part *)
    replace (offset + k - 1 - offset) with (k - 1) by lia.
    assert (La : N.size (k - 1) = a) by (unfold k; apply size_pow2m1).
    rewrite La.
    assert (Ex : offset = (2 * o) * 2 ^ a) by (rewrite Eo, Pd; unfold k; ring).
    rewrite Ex at 1.
    rewrite (level_at_N ds a (2 * o) NE) by (rewrite <- ?Ex; fold k; fold W; lia).
    rewrite <- Ex. fold k.
    replace (N.min (offset + k) (lenN ds)) with (offset + k) by (fold W; lia).
    cbn [bind].
    set (sB := n - k). assert (SB1 : 1 <= sB) by (unfold sB; lia).
    destruct (N.ltb_spec sB 1); [lia|]. cbn [orb].
    destruct (N.eqb_spec sB 1) as [S1|SN].
    + assert (Emk : m - k = 0) by (unfold sB in S1; lia). rewrite Emk. rewrite N.eqb_refl. cbn [andb].
      destruct (mk_tree_one ds (offset + k) ltac:(unfold sB in S1; fold W in Lw |- *; lia)) as [x0 Ex0].
      replace (offset + n) with (offset + k + 1) by (unfold sB in S1; lia). rewrite Ex0. reflexivity.
    + assert (IHcall : ht_proof_loop f (ht_build H ds) (m - k) sB (offset + k) (mth (slice ds offset (offset + k)) :: acc)
                       = Ok (audit (mk_tree (slice ds (offset + k) (offset + k + sB))) (m - k) ++ mth (slice ds offset (offset + k)) :: acc)).
      { apply IH; try (unfold sB; fold W in Lw |- *; lia).
        - destruct Shape as [Edge|Comp]; [left; unfold sB; fold W in Edge |- *; lia|].
          right. fold d in Comp. rewrite Pd in Comp. assert (EsB : sB = k) by (unfold sB; lia).
          rewrite EsB. unfold k. rewrite size_pow2m1. reflexivity.
        - set (lam := N.size (sB - 1)).
          assert (Lam2 : lam <= a) by (apply size_le_of_lt; fold k; unfold sB; lia).
          pose proof (pow2_split a lam Lam2) as Ka. fold k in Ka.
          exists ((2 * o + 1) * 2 ^ (a - lam)). rewrite Eo, Pd, Ka. ring. }
      destruct ((m - k =? 0)); cbn [andb]; rewrite IHcall;
        replace (offset + k + sB) with (offset + n) by (unfold sB; lia);
        rewrite <- app_assoc; reflexivity.
Qed.

Theorem htree_proof_is_audit (ds : list bytes) (i : Z) :
  (0 <= i < Z.of_nat (length ds))%Z ->
  ht_inclusion_proof (ht_build H ds) i = Ok (audit (mk_tree ds) (Z.to_N i)).
Proof.
  intros Li. assert (NE : ds <> []) by (intros ->; cbn in Li; lia).
  assert (Wd : ht_width (ht_build H ds) = lenN ds) by (destruct ds; [congruence | reflexivity]).
  unfold ht_inclusion_proof. rewrite Wd. unfold lenN.
  destruct (Z.ltb_spec i 0); [lia|].
  destruct (Z.leb_spec (Z.of_N (N.of_nat (length ds))) i); [lia|]. cbn [orb].
  destruct (N.eqb_spec (N.of_nat (length ds)) 1) as [E1|N1].
  - destruct ds as [|d [|e r]]; cbn [length] in *; try lia. reflexivity.
  - rewrite (ht_loop_ok ds NE); unfold lenN; try lia.
    + rewrite app_nil_r, N.add_0_l, slice_0, Nnat.Nat2N.id, firstn_all. reflexivity.
    + exists 0. lia.
Qed.

(* ... which is the honest proof: htree.InclusionProof(i) verifies with htree.VerifyInclusion *)
Theorem htree_proof_is_honest (ds : list bytes) (x : nat) :
  (x < length ds)%nat ->
  ht_inclusion_proof (ht_build H ds) (Z.of_nat x) = Ok (honest_inclusion_proof H ds (N.of_nat x + 1)).
Proof.
  intros Lx. rewrite htree_proof_is_audit by lia.
  replace (Z.to_N (Z.of_nat x)) with (N.of_nat x) by lia.
  rewrite (audit_is_honest_proof H ds x Lx). reflexivity.
Qed.

(* BuildWith + InclusionProof + VerifyInclusion: every generated proof is accepted against Root() *)
Theorem htree_proof_verifies (H_len : forall x, length (H x) = 32%nat) (ds : list bytes) (x : nat) (d : bytes) :
  nth_error ds x = Some d ->
  exists terms, ht_inclusion_proof (ht_build H ds) (Z.of_nat x) = Ok terms /\
    htree_verify_inclusion H (Z.of_nat x) (Z.of_N (ht_width (ht_build H ds))) terms d (ht_root (ht_build H ds)) = true.
Proof.
  intros Hd. assert (Lx : (x < length ds)%nat) by (apply nth_error_Some; congruence).
  assert (NE : ds <> []) by (intros ->; cbn in Lx; lia).
  eexists. split; [apply (htree_proof_is_honest ds x Lx)|].
  rewrite (htree_root_is_mth H ds NE).
  replace (Z.of_N (ht_width (ht_build H ds))) with (Z.of_nat (length ds))
    by (destruct ds; [congruence | cbn [ht_build ht_width]; unfold lenN; lia]).
  apply (htree_inclusion_complete H H_len ds x d Hd).
Qed.

End Proof.

(* premises satisfiable *)
Example htree_proof_premises_sat : (0 <= 1 < Z.of_nat (length [[1]; [2]; [3]]))%Z.
Proof. cbn. lia. Qed.
