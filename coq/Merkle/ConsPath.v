(* Ingredients of consistency completeness:
   - upper levels of the level construction (upn), position and size of their nodes;
   - the path to a NODE is determined by the number of leaves to its left and its leaf count;
   - the prefix tree of any path in the reference tree is the reference tree of the prefix;
   - the consistency verifier's direction rule (fn odd or fn = sn, with its strip loops) follows
     the honest level path of the node it starts from. *)
From V Require Import Merkle.Verify Merkle.Sound Merkle.Honest Merkle.Exact Merkle.RefEq.
From V Require Import Merkle.AHTArith Merkle.AHTSpec.
From Coq Require Import Lia Arith ZifyN ZifyNat ZifyBool.
Open Scope nat_scope.

(* ---- upper levels ---- *)
Fixpoint upn (t : nat) (ts : list tree) : list tree :=
  match t with O => ts | S t' => upn t' (upT ts) end.

Lemma upn_nonempty t : forall ts, 1 <= length ts -> 1 <= length (upn t ts).
Proof. induction t as [|t IH]; intros ts L; cbn [upn]; auto using upT_nonempty. Qed.

Lemma root_upn t : forall ts, 1 <= length ts -> root (upn t ts) = root ts.
Proof.
  induction t as [|t IH]; intros ts L; cbn [upn]; [reflexivity|].
  rewrite IH by (apply upT_nonempty; exact L). apply root_upT. exact L.
Qed.

Lemma upn_length_ge t : forall ts y, y * 2 ^ t <= length ts -> y <= length (upn t ts).
Proof.
  induction t as [|t IH]; intros ts y L; cbn [upn]; [cbn in L; lia|].
  apply IH. rewrite upT_length, Nat.div2_div. cbn [Nat.pow] in L.
  apply Nat.div_le_lower_bound; lia.
Qed.

Lemma before_upn t : forall ts x, x * 2 ^ t <= length ts -> before (upn t ts) x = before ts (x * 2 ^ t).
Proof.
  induction t as [|t IH]; intros ts x L; cbn [upn].
  - f_equal. cbn. lia.
  - cbn [Nat.pow] in L. rewrite IH.
    + rewrite before_upT_even by lia. f_equal. cbn [Nat.pow]. lia.
    + rewrite upT_length, Nat.div2_div. apply Nat.div_le_lower_bound; lia.
Qed.

Lemma upn_last t : forall ts, 1 <= length ts -> length (upn t ts) - 1 = halve t (length ts - 1).
Proof.
  induction t as [|t IH]; intros ts L; cbn [upn halve]; [reflexivity|].
  rewrite IH by (apply upT_nonempty; exact L).
  rewrite (upT_last ts (length ts - 1)) by lia. reflexivity.
Qed.

Lemma lvs_length_lv0 X p : p <= length X -> length (before (Exact.lv0 X) p) = p.
Proof. apply before_lv0_length. Qed.

(* the node x of level t over the leaves X: 2^t leaves, x 2^t leaves to its left *)
Lemma upn_node X t x : (S x) * 2 ^ t <= length X ->
  x < length (upn t (Exact.lv0 X)) /\
  length (before (upn t (Exact.lv0 X)) x) = x * 2 ^ t /\
  length (leaves (nthT (upn t (Exact.lv0 X)) x)) = 2 ^ t.
Proof.
  intros L. set (ts := Exact.lv0 X).
  assert (LL : length ts = length X) by (unfold ts, Exact.lv0; apply map_length).
  assert (Lx : S x <= length (upn t ts)) by (apply upn_length_ge; rewrite LL; exact L).
  split; [lia|].
  set (P := 2 ^ t) in *.
  assert (L' : x * P + P <= length X) by (rewrite Nat.mul_succ_l in L; exact L).
  assert (B1 : length (before (upn t ts) x) = x * P).
  { unfold P. rewrite before_upn by (fold P; lia). apply before_lv0_length. fold P. lia. }
  split; [exact B1|].
  pose proof (before_S (upn t ts) x ltac:(lia)) as BS.
  apply (f_equal (@length bytes)) in BS. rewrite app_length, B1 in BS.
  unfold P in BS. rewrite before_upn in BS by (fold P; rewrite LL; exact L).
  unfold ts in BS. rewrite before_lv0_length in BS by (fold P; exact L).
  fold ts in BS. fold P in BS. rewrite Nat.mul_succ_l in BS. lia.
Qed.

Section ConsPath.
Variable H : bytes -> bytes.
Notation th := (th H).
Notation mth := (mth H).
Notation spath := (spath H).
Notation path_in := (path_in H).

Lemma leaves_nonempty (t : tree) : 1 <= length (leaves t).
Proof. induction t; cbn [leaves]; rewrite ?app_length; cbn [length]; lia. Qed.

Lemma spath_leaves t steps s pre post : spath t steps s pre post -> leaves t = pre ++ leaves s ++ post.
Proof. intros P. apply spath_tpath, tpath_leaves in P. exact P. Qed.

(* ---- uniqueness of the path to a node ---- *)
Lemma spath_unique_node t s1 x1 pre1 post1 :
  spath t s1 x1 pre1 post1 ->
  forall s2 x2 pre2 post2, spath t s2 x2 pre2 post2 ->
  length pre1 = length pre2 -> length (leaves x1) = length (leaves x2) -> s1 = s2 /\ x1 = x2.
Proof.
  induction 1 as [t | l r steps s pre post P IH | l r steps s pre post P IH];
    intros s2 x2 pre2 post2 P2 Ln Ll.
  - inversion P2 as [ | ? ? st' ? pre' post' P' | ? ? st' ? pre' post' P']; subst.
    + auto.
    + exfalso. apply spath_leaves in P'. cbn [leaves] in Ll. rewrite app_length in Ll.
      pose proof (leaves_nonempty r).
      assert (length (leaves l) = length pre2 + length (leaves x2) + length post')
        by (rewrite P', !app_length; lia). lia.
    + exfalso. apply spath_leaves in P'. cbn [leaves] in Ll. rewrite app_length in Ll.
      pose proof (leaves_nonempty l).
      assert (length (leaves r) = length pre' + length (leaves x2) + length post2)
        by (rewrite P', !app_length; lia). lia.
  - inversion P2 as [ | ? ? st' ? pre' post' P' | ? ? st' ? pre' post' P']; subst.
    + exfalso. apply spath_leaves in P. cbn [leaves] in Ll. rewrite app_length in Ll.
      pose proof (leaves_nonempty r).
      assert (length (leaves l) = length pre + length (leaves s) + length post)
        by (rewrite P, !app_length; lia). lia.
    + destruct (IH _ _ _ _ P' Ln Ll) as [-> ->]. auto.
    + exfalso. apply spath_leaves in P. rewrite app_length in Ln.
      pose proof (leaves_nonempty s).
      assert (length (leaves l) = length pre + length (leaves s) + length post)
        by (rewrite P, !app_length; lia). lia.
  - inversion P2 as [ | ? ? st' ? pre' post' P' | ? ? st' ? pre' post' P']; subst.
    + exfalso. apply spath_leaves in P. cbn [leaves] in Ll. rewrite app_length in Ll.
      pose proof (leaves_nonempty l).
      assert (length (leaves r) = length pre + length (leaves s) + length post)
        by (rewrite P, !app_length; lia). lia.
    + exfalso. apply spath_leaves in P'. rewrite app_length in Ln.
      pose proof (leaves_nonempty x2).
      assert (length (leaves l) = length pre2 + length (leaves x2) + length post')
        by (rewrite P', !app_length; lia). lia.
    + rewrite !app_length in Ln.
      destruct (IH _ _ _ _ P') as [-> ->]; [lia | exact Ll | auto].
Qed.

Lemma spath_path_in t steps s pre post : spath t steps s pre post -> exists u, path_in t steps s pre post u.
Proof.
  induction 1 as [t | l r steps s pre post _ [u IH] | l r steps s pre post _ [u IH]].
  - exists t. constructor.
  - exists u. constructor. exact IH.
  - exists (Node l u). constructor. exact IH.
Qed.

(* ---- the prefix tree of a path in the reference tree is the reference tree of the prefix ---- *)
Lemma mk_tree_cases (X : list bytes) : X <> [] ->
  (exists d, X = [d]) \/
  (exists A B a, X = A ++ B /\ lenN A = (2 ^ a)%N /\ (1 <= lenN B <= 2 ^ a)%N).
Proof.
  intros NE. set (n := lenN X).
  destruct (N.eq_dec n 1) as [E1|N1].
  - left. unfold n, lenN in E1. destruct X as [|d [|e X]]; cbn in E1; try lia; eauto.
  - right. assert (n2 : (2 <= n)%N) by (unfold n, lenN in *; destruct X; [congruence | cbn [length] in *; lia]).
    set (a := N.log2 (n - 1)).
    assert (Hlog : (2 ^ a <= n - 1 < 2 ^ (a + 1))%N).
    { unfold a. rewrite N.add_1_r. apply N.log2_spec. lia. }
    rewrite pow2_succ in Hlog.
    exists (firstn (N.to_nat (2 ^ a)) X), (skipn (N.to_nat (2 ^ a)) X), a.
    split; [symmetry; apply firstn_skipn|]. unfold n, lenN in *.
    rewrite firstn_length, skipn_length. lia.
Qed.

Lemma prefix_tree_is_mk : forall (n : nat) (X : list bytes), length X = n -> X <> [] ->
  forall steps s pre post u, path_in (mk_tree X) steps s pre post u -> u = mk_tree (pre ++ leaves s).
Proof.
  induction n as [n IHn] using lt_wf_ind. intros X Ln NE steps s pre post u P.
  destruct (mk_tree_cases X NE) as [[d ->]|(A & B & a & -> & LA & LB)].
  - change (mk_tree [d]) with (Leaf d) in P. inversion P; subst. reflexivity.
  - assert (NA : A <> []) by (intros ->; cbn in LA; pose proof (pow2_pos a); lia).
    assert (NB : B <> []) by (intros ->; cbn in LB; lia).
    rewrite (mk_tree_split A B a LA LB) in P.
    rewrite app_length in Ln. unfold lenN in *.
    assert (0 < length A) by (destruct A; [congruence | cbn; lia]).
    assert (0 < length B) by (destruct B; [congruence | cbn; lia]).
    inversion P as [ | ? ? st' ? pre' post' u' P' | ? ? st' ? pre' post' u' P']; subst.
    + cbn [leaves app]. rewrite !mk_tree_leaves by assumption. symmetry. apply (mk_tree_split A B a LA LB).
    + apply (IHn (length A)) with (X := A) (steps := st') (post := post'); auto; lia.
    + rewrite mk_tree_leaves by exact NA. rewrite <- app_assoc.
      pose proof (IHn (length B) ltac:(lia) B eq_refl NB _ _ _ _ _ P') as ->.
      symmetry. apply (mk_tree_split A (pre' ++ leaves s) a LA).
      apply path_in_leaves in P' as [P1 _]. rewrite mk_tree_leaves in P1 by exact NB.
      pose proof (leaves_nonempty s).
      assert (length B = length pre' + length (leaves s) + length post)
        by (rewrite P1, !app_length; lia).
      unfold lenN. rewrite app_length. lia.
Qed.

Lemma prefix_tree_is_mth (X : list bytes) steps s pre post u :
  X <> [] -> path_in (mk_tree X) steps s pre post u -> th u = mth (pre ++ leaves s).
Proof. intros NE P. rewrite (prefix_tree_is_mk (length X) X eq_refl NE _ _ _ _ _ P). reflexivity. Qed.

End ConsPath.

(* ---- the verifier's strip loops ---- *)
Open Scope N_scope.

Lemma size_nat_div2 fn : fn <> 0 -> N.size_nat fn = S (N.size_nat (N.div2 fn)).
Proof. destruct fn as [|[p|p|]]; intros NZ; try congruence; reflexivity. Qed.

(* i - 1 with i = q 2^t, q odd: exactly t trailing ones *)
Lemma strip_odd_mult : forall (t : nat) q sn fuel, N.odd q = true ->
  (N.size_nat (q * 2 ^ N.of_nat t - 1) < fuel)%nat ->
  strip_odd fuel (q * 2 ^ N.of_nat t - 1) sn = (q - 1, N.shiftr sn (N.of_nat t)).
Proof.
  induction t as [|t IH]; intros q sn fuel Oq Lf.
  - change (2 ^ N.of_nat 0) with 1. rewrite N.mul_1_r, N.shiftr_0_r.
    assert (Ev : N.odd (q - 1) = false).
    { rewrite <- N.negb_even. rewrite N.even_sub by (destruct q; [discriminate | lia]).
      rewrite <- N.negb_odd, Oq. reflexivity. }
    destruct fuel; cbn [strip_odd]; [reflexivity|]. rewrite Ev. reflexivity.
  - assert (NZq : q <> 0) by (intros ->; discriminate).
    pose proof (pow2_pos (N.of_nat t)) as PP.
    rewrite Nnat.Nat2N.inj_succ, N.pow_succ_r' in *.
    set (P := 2 ^ N.of_nat t) in *.
    assert (1 <= q * P) by nia.
    set (fn := q * (2 * P) - 1) in *.
    assert (Efn : fn = 2 * (q * P - 1) + 1) by (unfold fn; nia).
    assert (Od : N.odd fn = true) by (rewrite Efn, N.add_1_r, N.odd_succ, N.even_mul; reflexivity).
    assert (D2 : N.div2 fn = q * P - 1).
    { rewrite N.div2_div. symmetry. apply (N.div_unique fn 2 (q * P - 1) 1); lia. }
    destruct fuel as [|f]; [lia|]. cbn [strip_odd]. rewrite Od, D2.
    rewrite (size_nat_div2 fn) in Lf by lia. rewrite D2 in Lf.
    rewrite (IH q (N.div2 sn) f Oq) by lia.
    f_equal. rewrite N.div2_spec, N.shiftr_shiftr. f_equal. lia.
Qed.

Lemma strip_even_odd fuel fn sn : N.odd fn = true -> strip_even fuel fn sn = (fn, sn).
Proof.
  intros O. destruct fuel; cbn [strip_even]; [reflexivity|].
  rewrite <- N.negb_odd, O. reflexivity.
Qed.

(* an even non-zero fn = sn: the promoted levels are skipped the same way from one level up *)
Lemma cons_steps_promoted terms x :
  N.even x = true -> x <> 0 -> cons_steps terms x x = cons_steps terms (N.div2 x) (N.div2 x).
Proof.
  intros Ev NZ. destruct terms as [|h r]; [reflexivity|]. cbn [cons_steps].
  rewrite !N.eqb_refl, !orb_true_r.
  rewrite (size_nat_div2 x NZ).
  change (strip_even (S (S (N.size_nat (N.div2 x)))) x x)
    with (if N.even x && negb (x =? 0) then strip_even (S (N.size_nat (N.div2 x))) (N.div2 x) (N.div2 x) else (x, x)).
  rewrite Ev. destruct (N.eqb_spec x 0); [congruence|]. reflexivity.
Qed.

Section Dirs.
Variable H : bytes -> bytes.

(* the verifier's directions along the honest level path from node x of a level whose last index
   is |ts|-1 *)
Lemma cons_steps_hsteps : forall fuel ts x, (length ts <= fuel)%nat -> (x < length ts)%nat ->
  cons_steps (hterms H (hsteps fuel ts x)) (N.of_nat x) (N.of_nat (length ts - 1)) =
  hmap H (hsteps fuel ts x).
Proof.
  induction fuel as [|f IH]; intros ts x Lf Lx; [lia|].
  cbn [hsteps]. destruct (Nat.eqb_spec (length ts - 1) 0) as [E0|N0]; [reflexivity|].
  assert (H2 : (2 <= length ts)%nat) by lia.
  pose proof (upT_length_lt ts H2) as Hlt.
  set (j := (length ts - 1)%nat) in *. assert (Lj : length ts = S j) by lia.
  pose proof (upT_last ts j Lj) as UL.
  assert (Hx2 : (Nat.div2 x < length (upT ts))%nat).
  { pose proof (div2_le x j). pose proof (upT_nonempty ts). lia. }
  pose proof (IH (upT ts) (Nat.div2 x) ltac:(lia) Hx2) as IH'. rewrite UL in IH'.
  destruct ((x =? j)%nat && Nat.even j) eqn:Epr.
  - apply andb_prop in Epr as [Ex Ee]. apply Nat.eqb_eq in Ex. subst x.
    rewrite cons_steps_promoted.
    + rewrite N_div2_of_nat. exact IH'.
    + rewrite N_even_of_nat. exact Ee.
    + lia.
  - cbn [hterms map hmap snd fst cons_steps].
    fold (hterms H (hsteps f (upT ts) (Nat.div2 x))). fold (hmap H (hsteps f (upT ts) (Nat.div2 x))).
    rewrite <- N.negb_even, N_even_of_nat, N_eqb_of_nat.
    destruct (Nat.even x) eqn:Ex; cbn [negb orb].
    + destruct (Nat.eqb_spec x j) as [->|Nx]; [rewrite Ex in Epr; cbn in Epr; congruence|].
      cbn [fst snd]. rewrite !N_div2_of_nat, IH'. reflexivity.
    + rewrite strip_even_odd by (rewrite <- N.negb_even, N_even_of_nat, Ex; reflexivity).
      cbn [fst snd]. rewrite !N_div2_of_nat, IH'. reflexivity.
Qed.

End Dirs.
