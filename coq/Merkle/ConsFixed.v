(* The current consistency verifier (Merkle/VerifyFixed.v, /repo 05f2785) is position-exact WITHOUT
   any premise on the proof, complete for the generated proofs, and never panics. *)
From V Require Import Merkle.Verify Merkle.VerifyFixed Merkle.Sound Merkle.Exact.
From V Require Import Merkle.AHT Merkle.AHTArith Merkle.AHTSpec Merkle.AHTCons Merkle.ConsComplete Merkle.ConsExact.
From Coq Require Import Lia ZifyN ZifyNat ZifyBool.
Open Scope N_scope.

Section Fixed.
Variable H : bytes -> bytes.
Hypothesis H_len : forall x, length (H x) = 32%nat.
Notation mth := (mth H).
Notation cons_ref := (cons_ref H).

(* consistencyProofLen IS the length of what the generator returns *)
Lemma lenN_cons {A} (x : A) l : lenN (x :: l) = 1 + lenN l.
Proof. unfold lenN. cbn [length]. lia. Qed.
Lemma lenN_app {A} (a b : list A) : lenN (a ++ b) = lenN a + lenN b.
Proof. unfold lenN. rewrite app_length. lia. Qed.

Lemma cons_len_length (L : list bytes) : forall (h : nat) i j acc,
  lenN (cons_ref L h i j acc) = cons_len_f h i j + lenN acc.
Proof.
  induction h as [|h IH]; intros i j acc; cbn [AHTCons.cons_ref cons_len_f]; [lia|].
  destruct (N.testbit (j - 1) (N.of_nat h)); [|apply IH].
  fold (base j (N.of_nat h)). set (k := base j (N.of_nat h)).
  destruct (i <=? k).
  - destruct (i <? k), (i =? k); rewrite ?lenN_cons, ?lenN_app, ?IH, ?lenN_cons; cbn [lenN length N.of_nat]; lia.
  - destruct (i =? j); rewrite ?lenN_cons, ?IH, ?lenN_cons; lia.
Qed.

Lemma consistency_proof_len_spec (L : list bytes) i j :
  lenN (cons_ref L (height_of j) i j []) = consistency_proof_len i j.
Proof. unfold consistency_proof_len, height_of. rewrite cons_len_length. cbn. lia. Qed.

Theorem fixed_implies_old cproof i j iroot jroot :
  verify_consistency_fixed H cproof i j iroot jroot = Ok true ->
  verify_consistency H cproof i j iroot jroot = Ok true /\
  ((i = j /\ cproof = []) \/ lenN cproof = consistency_proof_len i j).
Proof.
  clear H_len. unfold verify_consistency_fixed, verify_consistency. intros V.
  destruct ((j <? i) || (i =? 0) || ((i <? j) && (lenN cproof =? 0))); [discriminate|].
  destruct ((i =? j) && (lenN cproof =? 0)) eqn:G.
  - split; [exact V|]. left. apply andb_prop in G as [G1 G2].
    apply N.eqb_eq in G1. apply N.eqb_eq in G2. split; [exact G1|].
    unfold lenN in G2. destruct cproof; [reflexivity | cbn in G2; lia].
  - destruct (N.eqb_spec (lenN cproof) (consistency_proof_len i j)) as [E|]; [|discriminate].
    cbn [negb] in V. split; [exact V | right; exact E].
Qed.

(* position-exact soundness of the repaired verifier: no premise on the proof *)
Theorem consistency_fixed_sound_exact (L cproof : list bytes) (i j : N) (iroot : bytes) :
  L <> [] -> j = lenN L -> len32 cproof ->
  verify_consistency_fixed H cproof i j iroot (mth L) = Ok true ->
  (iroot = mth (firstn (N.to_nat i) L) /\ 1 <= i <= j) \/ Collision H.
Proof.
  intros NE Ej F V. destruct (fixed_implies_old _ _ _ _ _ V) as [Vo [[Eij Ep]|El]].
  - subst i cproof. unfold verify_consistency in Vo.
    destruct ((j <? j) || (j =? 0) || ((j <? j) && (lenN (@nil bytes) =? 0))) eqn:G; [discriminate|].
    apply orb_false_elim in G as [G _]. apply orb_false_elim in G as [_ G2]. apply N.eqb_neq in G2.
    rewrite N.eqb_refl in Vo. cbn in Vo. injection Vo as Vo. apply list_eqb_eq in Vo.
    left. split; [|lia]. rewrite firstn_all2 by (unfold lenN in Ej; lia). exact Vo.
  - apply (consistency_sound_exact_len H H_len L cproof i j iroot NE Ej F); [|exact Vo].
    pose proof (consistency_proof_len_spec L i j) as S. unfold lenN in *. lia.
Qed.

(* completeness: the generated proofs still pass *)
Theorem consistency_fixed_complete (L : list bytes) (i j : N) :
  1 <= i -> i <= j -> j <= lenN L ->
  verify_consistency_fixed H (cons_ref L (height_of j) i j []) i j
    (mth (firstn (N.to_nat i) L)) (mth (firstn (N.to_nat j) L)) = Ok true.
Proof.
  intros L1 Li Lj. pose proof (cons_ref_verifies H L i j L1 Li Lj) as V.
  unfold verify_consistency in V. unfold verify_consistency_fixed.
  destruct ((j <? i) || (i =? 0) || ((i <? j) && (lenN (cons_ref L (height_of j) i j []) =? 0))); [exact V|].
  destruct ((i =? j) && (lenN (cons_ref L (height_of j) i j []) =? 0)); [exact V|].
  rewrite consistency_proof_len_spec, N.eqb_refl. cbn [negb]. exact V.
Qed.

(* no input makes the repaired verifier panic (cproof[0] is only read on a non-empty proof) *)
Theorem verify_consistency_fixed_no_panic cproof i j iroot jroot :
  verify_consistency_fixed H cproof i j iroot jroot <> Panic.
Proof.
  clear H_len. unfold verify_consistency_fixed.
  destruct ((j <? i) || (i =? 0) || ((i <? j) && (lenN cproof =? 0))) eqn:G; [discriminate|].
  destruct ((i =? j) && (lenN cproof =? 0)) eqn:G3; [discriminate|].
  destruct (negb (lenN cproof =? consistency_proof_len i j)); [discriminate|].
  destruct cproof as [|c0 r].
  - exfalso. apply orb_false_elim in G as [G G4]. apply orb_false_elim in G as [G1 G2].
    apply N.ltb_ge in G1. cbn in G3, G4. rewrite andb_true_r in G3, G4.
    apply N.eqb_neq in G3. apply N.ltb_ge in G4. lia.
  - unfold eval_consistency. destruct (strip_odd _ _ _). cbn [bind]. discriminate.
Qed.

End Fixed.
