(* Soundness of the Merkle proof verifiers against ANY tree whose hash is the trusted root
   (in particular the reference tree mk_tree L): an accepted proof commits to genuine leaves of
   that tree, or the proof exhibits an explicit hash collision. No bound on sizes or proof length. *)
From V Require Import Merkle.Verify.
From Coq Require Import ZifyN ZifyNat ZifyBool.

Lemma list_eqb_eq (a b : bytes) : bytes_eqb a b = true -> a = b.
Proof.
  revert b; induction a as [|x a IH]; intros [|y b]; simpl; try discriminate; auto.
  intros E. apply andb_prop in E as [E1 E2]. apply N.eqb_eq in E1. subst. f_equal; auto.
Qed.

Section Sound.
Variable H : bytes -> bytes.
Hypothesis H_len : forall x, length (H x) = 32%nat.
Notation Collision := (Collision H).
Notation th := (th H).
Notation leafh := (leafh H).
Notation nodeh := (nodeh H).
Notation climb := (climb H).

Definition len32 (l : list bytes) : Prop := Forall (fun h => length h = 32%nat) l.

(* ---------- inclusion ---------- *)
Fixpoint incl_steps (terms : list bytes) (i1 j1 : N) : list (bool * bytes) :=
  match terms with
  | [] => []
  | h :: r => (N.even i1 && negb (i1 =? j1), h) :: incl_steps r (N.div2 i1) (N.div2 j1)
  end.

Lemma eval_inclusion_climb terms : forall i1 j1 c,
  eval_inclusion H terms i1 j1 c = climb (incl_steps terms i1 j1) c.
Proof.
  induction terms as [|h r IH]; intros i1 j1 c; simpl; auto.
Qed.

Lemma incl_steps_ok terms : forall i1 j1, len32 terms -> terms_ok (incl_steps terms i1 j1).
Proof.
  induction terms as [|h r IH]; intros i1 j1 F; simpl; [constructor|].
  inversion F; subst. constructor; auto. apply IH; auto.
Qed.

Lemma chain_to_leaf steps t d :
  terms_ok steps -> climb steps (leafh d) = th t ->
  (exists pre post u, path_in H t steps (Leaf d) pre post u) \/ Collision.
Proof.
  intros Hok E.
  destruct (climb_path H H_len steps t (leafh d) Hok (H_len _) E) as [(s & pre & post & u & P & Es)|C]; auto.
  destruct (th_leaf_inv H s d Es) as [->|C]; auto. left; eauto.
Qed.

Theorem inclusion_sound_membership (t : tree) (terms : list bytes) (i j : N) (d : bytes) :
  len32 terms ->
  verify_inclusion H terms i j (leafh d) (th t) = true ->
  In d (leaves t) \/ Collision.
Proof.
  intros F V. unfold verify_inclusion in V.
  destruct (_ || _); [discriminate|]. destruct (negb _); [discriminate|].
  apply list_eqb_eq in V. rewrite eval_inclusion_climb in V.
  destruct (chain_to_leaf _ t d (incl_steps_ok _ _ _ F) (eq_sym V)) as [(pre & post & u & P)|C]; auto.
  left. apply path_in_leaves in P as [P _]. rewrite P. simpl. apply in_or_app. right. left. reflexivity.
Qed.

(* ---------- last inclusion: exact ---------- *)
Definition last_steps (terms : list bytes) : list (bool * bytes) := map (fun h => (false, h)) terms.

Lemma eval_last_climb terms : forall c, eval_last_inclusion H terms c = climb (last_steps terms) c.
Proof. induction terms as [|h r IH]; intros c; simpl; auto. Qed.

Theorem last_inclusion_sound (t : tree) (terms : list bytes) (i : N) (d : bytes) :
  len32 terms ->
  verify_last_inclusion H terms i (leafh d) (th t) = true ->
  (exists pre, leaves t = pre ++ [d]) \/ Collision.
Proof.
  intros F V. unfold verify_last_inclusion in V. destruct (_ || _); [discriminate|].
  apply list_eqb_eq in V. rewrite eval_last_climb in V.
  assert (Hok : terms_ok (last_steps terms)).
  { unfold last_steps, terms_ok. apply Forall_map. simpl. exact F. }
  destruct (chain_to_leaf _ t d Hok (eq_sym V)) as [(pre & post & u & P)|C]; auto.
  left. pose proof (path_in_all_right H _ _ _ _ _ _ P) as Hp.
  rewrite Hp in P.
  - apply path_in_leaves in P as [P _]. exists pre. rewrite P. simpl. reflexivity.
  - unfold last_steps. apply Forall_map. simpl. apply Forall_forall. auto.
Qed.

(* ---------- consistency: the old root commits to a genuine prefix ---------- *)
Fixpoint cons_steps (terms : list bytes) (fn sn : N) : list (bool * bytes) :=
  match terms with
  | [] => []
  | h :: r =>
      if N.odd fn || (fn =? sn) then
        let '(fn', sn') := strip_even (S (N.size_nat fn)) fn sn in
        (false, h) :: cons_steps r (N.div2 fn') (N.div2 sn')
      else (true, h) :: cons_steps r (N.div2 fn) (N.div2 sn)
  end.

Lemma cons_loop_climb terms : forall fn sn ci cj,
  cons_loop H terms fn sn ci cj =
  (climb (lefts_only (cons_steps terms fn sn)) ci, climb (cons_steps terms fn sn) cj).
Proof.
  induction terms as [|h r IH]; intros fn sn ci cj; cbn [cons_loop cons_steps]; auto.
  destruct (N.odd fn || (fn =? sn)).
  - destruct (strip_even (S (N.size_nat fn)) fn sn) as [fn' sn']. rewrite IH. reflexivity.
  - rewrite IH. reflexivity.
Qed.

Lemma cons_steps_ok terms : forall fn sn, len32 terms -> terms_ok (cons_steps terms fn sn).
Proof.
  induction terms as [|h r IH]; intros fn sn F; cbn [cons_steps]; [constructor|].
  inversion F; subst.
  destruct (N.odd fn || (fn =? sn)).
  - destruct (strip_even (S (N.size_nat fn)) fn sn). constructor; auto. apply IH; auto.
  - constructor; auto. apply IH; auto.
Qed.

(* If a consistency proof is accepted against the root of t, the claimed old root is the hash of a
   tree u whose leaves are a PREFIX of the leaves of t. *)
Theorem consistency_sound_prefix (t : tree) (cproof : list bytes) (i j : N) (iroot : bytes) :
  len32 cproof ->
  verify_consistency H cproof i j iroot (th t) = Ok true ->
  (exists u post, th u = iroot /\ leaves t = leaves u ++ post) \/ Collision.
Proof.
  intros F V. unfold verify_consistency in V.
  destruct (_ || _); [discriminate|].
  destruct ((i =? j) && (lenN cproof =? 0)).
  { injection V as V. apply list_eqb_eq in V. left. exists t, []. rewrite app_nil_r. auto. }
  unfold eval_consistency in V. destruct cproof as [|c0 r]; [discriminate|].
  destruct (strip_odd _ _ _) as [fn sn]. cbn [bind] in V.
  rewrite cons_loop_climb in V. cbn [fst snd] in V. injection V as V.
  apply andb_prop in V as [V1 V2]. apply list_eqb_eq in V1. apply list_eqb_eq in V2.
  inversion F as [|? ? L0 Fr]; subst.
  destruct (climb_path H H_len _ t c0 (cons_steps_ok r fn sn Fr) L0 (eq_sym V2))
    as [(s & pre & post & u & P & Es)|C]; auto.
  left. exists u, post. split.
  - rewrite (path_in_prefix_tree H _ _ _ _ _ _ P). rewrite Es. reflexivity.
  - apply path_in_leaves in P as [P1 P2]. rewrite P1, P2. rewrite <- app_assoc. reflexivity.
Qed.

(* ---------- htree (entry tree of a transaction) ---------- *)
Fixpoint htree_steps (terms : list bytes) (i r : Z) : list (bool * bytes) :=
  match terms with
  | [] => []
  | t :: rest => ((Z.rem i 2 =? 0)%Z && negb (i =? r)%Z, t) :: htree_steps rest (Z.quot i 2) (Z.quot r 2)
  end.

Lemma htree_eval_climb terms : forall i r c,
  fst (fst (htree_eval H terms i r c)) = climb (htree_steps terms i r) c.
Proof.
  induction terms as [|t rest IH]; intros i r c; simpl; auto.
Qed.

Lemma htree_steps_ok terms : forall i r, len32 terms -> terms_ok (htree_steps terms i r).
Proof.
  induction terms as [|h rest IH]; intros i r F; simpl; [constructor|].
  inversion F; subst. constructor; auto. apply IH; auto.
Qed.

Theorem htree_inclusion_sound_membership (t : tree) (leaf width : Z) (terms : list bytes) (d : bytes) :
  len32 terms ->
  htree_verify_inclusion H leaf width terms d (th t) = true ->
  In d (leaves t) \/ Collision.
Proof.
  intros F V. unfold htree_verify_inclusion in V.
  destruct ((leaf <? 0)%Z || (width <=? leaf)%Z); [discriminate|].
  pose proof (htree_eval_climb terms leaf (width - 1)%Z (leafh d)) as E.
  destruct (htree_eval H terms leaf (width - 1)%Z (leafh d)) as [[c i] r]. simpl in E.
  cbn beta iota in V. apply andb_prop in V as [_ V2]. apply list_eqb_eq in V2. rewrite E in V2.
  destruct (chain_to_leaf _ t d (htree_steps_ok _ _ _ F) (eq_sym V2)) as [(pre & post & u & P)|C]; auto.
  left. apply path_in_leaves in P as [P _]. rewrite P. simpl. apply in_or_app. right. left. reflexivity.
Qed.

End Sound.
