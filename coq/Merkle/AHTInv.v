(* The invariant of the AHtree model: below dsize the digest log IS the specification log of the
   payloads below size; preserved by Append (the w,l,k loop reads exactly the complete subtrees
   it needs) and by ResetSize; consequences: rootAt n = mth (first n payloads). *)
From V Require Import Merkle.AHT Merkle.AHTArith Merkle.AHTSpec.
From Coq Require Import Lia ZifyN ZifyNat ZifyBool.
Open Scope N_scope.

Section Inv.
Variable H : bytes -> bytes.
Notation mth := (mth H).
Notation nodeh := (nodeh H).
Notation leafh := (leafh H).
Notation dig := (dig H).
Notation digs_upto := (digs_upto H).
Notation digs_at := (digs_at H).
Notation spec_log := (spec_log H).
Notation spec_log_upto := (spec_log_upto H).

Definition Inv (t : aht) : Prop :=
  size t <= lenN (plog t) /\
  dsize t = nodes_upto (size t) /\
  firstn (N.to_nat (dsize t)) (dlog t) = spec_log (payloads t).

Lemma payloads_length t : size t <= lenN (plog t) -> lenN (payloads t) = size t.
Proof. intros L. unfold payloads, lenN in *. rewrite firstn_length. lia. Qed.

Lemma Inv_empty : Inv aht_empty.
Proof. unfold Inv, aht_empty; cbn. repeat split; reflexivity || lia. Qed.

Lemma nth_error_firstn_lt {A} (l : list A) k i : (i < k)%nat -> nth_error (firstn k l) i = nth_error l i.
Proof.
  revert k i; induction l as [|x l IH]; intros k i Lt.
  - rewrite firstn_nil. reflexivity.
  - destruct k as [|k]; [lia|]. destruct i as [|i]; [reflexivity|]. cbn. apply IH. lia.
Qed.

(* reads below dsize see the specification log *)
Lemma node_at_spec t i : Inv t -> i < dsize t ->
  node_at t i = match nth_error (spec_log (payloads t)) (N.to_nat i) with Some h => Ok h | None => Err EOther end.
Proof.
  intros (_ & _ & E) Li. unfold node_at. rewrite <- E. rewrite nth_error_firstn_lt by lia. reflexivity.
Qed.

(* node(n, index of the set-bit count below h) = the subtree over (base n h, n] *)
Lemma node_ok t n (h : nat) : Inv t -> 1 <= n <= size t ->
  node t n (highest_level n h) = Ok (dig (payloads t) n (N.of_nat h)).
Proof.
  intros I Ln. pose proof I as (Lp & Ed & El).
  pose proof (payloads_length t Lp) as PL.
  set (L := payloads t) in *.
  assert (Lh : highest_level n h < lenN (digs_at L n)).
  { pose proof (digs_at_nth H L n h) as E. assert (X : nth_error (digs_at L n) (N.to_nat (highest_level n h)) <> None) by (rewrite E; discriminate).
    apply nth_error_Some in X. unfold lenN. lia. }
  assert (E : nth_error (spec_log L) (N.to_nat (nodes_until n + highest_level n h)) = Some (dig L n (N.of_nat h))).
  { unfold spec_log. rewrite (spec_log_upto_nth H L (length L) n (highest_level n h)).
    - apply digs_at_nth.
    - unfold lenN in PL. lia.
    - exact Lh. }
  unfold node. rewrite node_at_spec; [fold L; rewrite E; reflexivity | exact I |].
  (* the index is below dsize *)
  assert (X : nth_error (spec_log L) (N.to_nat (nodes_until n + highest_level n h)) <> None) by (rewrite E; discriminate).
  apply nth_error_Some in X.
  unfold spec_log in X. pose proof (spec_log_upto_length H L (length L)) as SL. unfold lenN in SL, PL.
  rewrite Ed. replace (size t) with (N.of_nat (length L)) by lia. lia.
Qed.

Lemma root_at_ok t n : Inv t -> 1 <= n <= size t ->
  root_at t n = Ok (mth (firstn (N.to_nat n) (payloads t))).
Proof.
  intros I Ln. unfold root_at.
  destruct (N.eqb_spec n 0); [lia|]. destruct (N.eqb_spec (size t) 0); [lia|].
  destruct (N.ltb_spec (size t) n); [lia|].
  rewrite (levels_at_highest n (N.size_nat (n - 1))) by lia.
  fold (node t n (highest_level n (N.size_nat (n - 1)))).
  rewrite node_ok by assumption. rewrite dig_stable by lia. rewrite slice_0. reflexivity.
Qed.

(* ---- the Append loop ---- *)
Lemma digs_upto_stable L n a b :
  n - 1 < 2 ^ N.of_nat a -> (a <= b)%nat -> digs_upto L n b = digs_upto L n a /\ dig L n (N.of_nat b) = dig L n (N.of_nat a).
Proof.
  intros G Le. replace b with ((b - a) + a)%nat by lia. generalize (b - a)%nat as e. clear b Le.
  induction e as [|e [IH1 IH2]]; [split; reflexivity|].
  cbn [plus digs_upto]. rewrite IH1.
  assert (T : N.testbit (n - 1) (N.of_nat (e + a)) = false).
  { apply testbit_small. pose proof (pow2_mono (N.of_nat a) (N.of_nat (e + a))). lia. }
  rewrite T, app_nil_r. split; [reflexivity|].
  replace (N.of_nat (S (e + a))) with (N.of_nat (e + a) + 1) by lia.
  rewrite dig_unset by exact T. exact IH2.
Qed.

Lemma digs_final L n (l : nat) :
  n - 1 < 2 ^ N.of_nat l ->
  digs_upto L n l = digs_at L n /\ dig L n (N.of_nat l) = mth (slice L 0 n).
Proof.
  intros G. pose proof (size_nat_gt (n - 1)) as G'. unfold digs_at.
  set (D := N.size_nat (n - 1)) in *.
  destruct (Nat.le_gt_cases l D) as [Le|Gt].
  - destruct (digs_upto_stable L n l D G Le) as [E1 E2]. split; [auto|].
    rewrite <- E2. apply dig_stable. unfold D. lia.
  - destruct (digs_upto_stable L n D l G' ltac:(lia)) as [E1 E2]. split; [auto|].
    apply dig_stable. unfold D. lia.
Qed.

Lemma append_loop_ok t d : Inv t ->
  let L' := payloads t ++ [d] in
  let n := size t + 1 in
  forall fuel (l : nat), (S (N.size_nat (n - 1)) <= fuel + l)%nat ->
  append_loop H t fuel (N.shiftr (n - 1) (N.of_nat l)) (N.of_nat l) (base n (N.of_nat l))
              (dig L' n (N.of_nat l)) (digs_upto L' n l)
  = Ok (mth L', digs_at L' n).
Proof.
  intros I L' n. pose proof I as (Lp & Ed & El). pose proof (payloads_length t Lp) as PL.
  assert (LL' : lenN L' = n) by (unfold L', lenN in *; rewrite app_length; cbn [length]; lia).
  assert (Full : slice L' 0 n = L').
  { rewrite slice_0. apply firstn_all2. unfold lenN in LL'. lia. }
  induction fuel as [|f IH]; intros l Lf.
  - (* out of fuel: only with l above the bit length *)
    cbn [append_loop].
    assert (G : n - 1 < 2 ^ N.of_nat l).
    { pose proof (size_nat_gt (n - 1)). pose proof (pow2_mono (N.of_nat (N.size_nat (n - 1))) (N.of_nat l)). lia. }
    destruct (digs_final L' n l G) as [E1 E2]. rewrite E1, E2, Full. reflexivity.
  - cbn [append_loop].
    set (w := N.shiftr (n - 1) (N.of_nat l)).
    destruct (N.eqb_spec w 0) as [W0|WN].
    + assert (G : n - 1 < 2 ^ N.of_nat l).
      { unfold w in W0. rewrite N.shiftr_div_pow2 in W0.
        pose proof (pow2_pos (N.of_nat l)). pose proof (N.div_mod (n - 1) (2 ^ N.of_nat l)).
        pose proof (N.mod_lt (n - 1) (2 ^ N.of_nat l)). rewrite W0 in *. lia. }
      destruct (digs_final L' n l G) as [E1 E2]. rewrite E1, E2, Full. reflexivity.
    + (* the next loop state *)
      assert (Ew : N.shiftr w 1 = N.shiftr (n - 1) (N.of_nat (S l))).
      { unfold w. rewrite shiftr_shiftr1. f_equal. lia. }
      assert (Ek : N.clearbit (base n (N.of_nat l)) (N.of_nat l) = base n (N.of_nat (S l))).
      { unfold base. fold w. rewrite clearbit_shiftl, Ew. f_equal. lia. }
      assert (El1 : N.of_nat l + 1 = N.of_nat (S l)) by lia.
      assert (Tb : N.testbit (n - 1) (N.of_nat l) = (w mod 2 =? 1)).
      { rewrite odd_mod2. unfold w. apply N.testbit_odd. }
      rewrite Ew, Ek, El1.
      destruct (w mod 2 =? 1) eqn:Odd.
      * (* bit l of n-1 set: read the complete subtree of 2^l leaves ending at k *)
        set (k := base n (N.of_nat l)).
        pose proof (base_bounds n (N.of_nat l)) as BB. fold k in BB.
        pose proof (base_succ n (N.of_nat l)) as BS. rewrite Tb in BS. fold k in BS. rewrite El1 in BS.
        assert (Ok_ : N.odd w = true) by (rewrite <- odd_mod2; exact Odd).
        assert (Kq : k = w * 2 ^ N.of_nat l) by (unfold k, base; fold w; apply N.shiftl_mul_pow2).
        pose proof (pow2_pos (N.of_nat l)) as PP.
        assert (Hk : 1 <= k <= size t) by lia.
        pose proof (node_ok t k l I Hk) as RD.
        assert (HL : highest_level k l = N.of_nat l) by (rewrite Kq; apply highest_level_odd_mult; exact Ok_).
        rewrite HL in RD.
        rewrite RD. cbn [bind].
        assert (Eh : nodeh (dig (payloads t) k (N.of_nat l)) (dig L' n (N.of_nat l)) = dig L' n (N.of_nat (S l))).
        { unfold dig at 1 2 3. fold k.
          assert (Bk : base k (N.of_nat l) = k - 2 ^ N.of_nat l) by (rewrite Kq at 1; rewrite (base_odd_mult w _ Ok_); lia).
          rewrite Bk.
          replace (base n (N.of_nat (S l))) with (k - 2 ^ N.of_nat l) by lia.
          rewrite (slice_split L' (k - 2 ^ N.of_nat l) k n) by lia.
          replace (slice L' (k - 2 ^ N.of_nat l) k) with (slice (payloads t) (k - 2 ^ N.of_nat l) k)
            by (unfold L'; rewrite slice_app_l by lia; reflexivity).
          symmetry. apply (mth_split H _ _ (N.of_nat l)).
          - rewrite slice_length by lia. lia.
          - rewrite slice_length by lia. lia. }
        rewrite Eh.
        replace (digs_upto L' n l ++ [dig L' n (N.of_nat (S l))]) with (digs_upto L' n (S l))
          by (cbn [digs_upto]; rewrite Tb; reflexivity).
        apply IH. lia.
      * assert (Eh : dig L' n (N.of_nat l) = dig L' n (N.of_nat (S l))).
        { rewrite <- El1. symmetry. apply dig_unset. exact Tb. }
        rewrite Eh.
        replace (digs_upto L' n l) with (digs_upto L' n (S l))
          by (cbn [digs_upto]; rewrite Tb; apply app_nil_r).
        apply IH. lia.
Qed.

Lemma firstn_write_at {A} (l new : list A) off :
  (N.to_nat off <= length l)%nat ->
  firstn (N.to_nat off + length new) (write_at l off new) = firstn (N.to_nat off) l ++ new.
Proof.
  intros Lo. unfold write_at.
  assert (E : length (firstn (N.to_nat off) l ++ new) = (N.to_nat off + length new)%nat)
    by (rewrite app_length, firstn_length; lia).
  rewrite <- E. apply firstn_all.
Qed.

Lemma write_at_length {A} (l new : list A) off :
  (N.to_nat off <= length l)%nat -> (N.to_nat off + length new <= length (write_at l off new))%nat.
Proof.
  intros Lo. unfold write_at. rewrite !app_length, firstn_length. lia.
Qed.

(* Append never fails on a state satisfying the invariant, returns (size+1, the new root) and
   re-establishes the invariant over payloads ++ [d] *)
Theorem append_ok t d : Inv t ->
  exists t', append H t d = Ok (t', (size t + 1, mth (payloads t ++ [d]))) /\
             Inv t' /\ payloads t' = payloads t ++ [d] /\ size t' = size t + 1.
Proof.
  intros I. pose proof I as (Lp & Ed & El). pose proof (payloads_length t Lp) as PL.
  set (L := payloads t) in *. set (n := size t + 1).
  unfold append. fold n.
  pose proof (append_loop_ok t d I (S (N.size_nat (size t + 1 - 1))) 0%nat) as LO.
  cbv zeta in LO. specialize (LO ltac:(lia)). fold L n in LO.
  change (N.of_nat 0) with 0 in LO. rewrite N.shiftr_0_r, base_0 in LO.
  assert (D0 : dig (L ++ [d]) n 0 = leafh d).
  { unfold dig. rewrite base_0. unfold n. replace (size t + 1 - 1) with (lenN L) by lia.
    replace (size t + 1) with (lenN L + 1) by lia. rewrite slice_last. reflexivity. }
  cbn [digs_upto] in LO. rewrite D0 in LO.
  rewrite LO. cbn [bind].
  assert (DL : (N.to_nat (dsize t) <= length (dlog t))%nat).
  { apply (f_equal (@length bytes)) in El. rewrite firstn_length in El.
    pose proof (spec_log_upto_length H L (length L)) as SL. unfold lenN, AHTSpec.spec_log in *.
    assert (dsize t = N.of_nat (length (AHTSpec.spec_log_upto H L (length L)))) by (rewrite SL, Ed; f_equal; lia).
    lia. }
  destruct (N.ltb_spec (lenN (dlog t)) (dsize t)) as [Bad|_]; [unfold lenN in Bad; lia|].
  eexists. split; [reflexivity|].
  assert (Pay : payloads (mkAht (write_at (plog t) (size t) [d]) (write_at (dlog t) (dsize t) (digs_at (L ++ [d]) n)) n
                               (dsize t + lenN (digs_at (L ++ [d]) n))) = L ++ [d]).
  { unfold payloads at 1. cbn [size plog]. unfold n.
    replace (N.to_nat (size t + 1)) with (N.to_nat (size t) + length [d])%nat by (cbn [length]; lia).
    rewrite firstn_write_at by (unfold lenN in Lp; lia). reflexivity. }
  split; [|split; [exact Pay | reflexivity]].
  unfold Inv. rewrite Pay. cbn [size plog dlog dsize].
  split; [|split].
  - pose proof (write_at_length (plog t) [d] (size t) ltac:(unfold lenN in Lp; lia)) as WL.
    cbn [length] in WL. unfold lenN, n. lia.
  - rewrite digs_at_length. unfold n. rewrite nodes_upto_succ. lia.
  - replace (N.to_nat (dsize t + lenN (digs_at (L ++ [d]) n)))
      with (N.to_nat (dsize t) + length (digs_at (L ++ [d]) n))%nat by (unfold lenN; lia).
    rewrite firstn_write_at by exact DL. rewrite El.
    rewrite spec_log_snoc. unfold n. rewrite PL. reflexivity.
Qed.

(* ---- ResetSize ---- *)
Lemma firstn_firstn_le {A} (l : list A) a b : (a <= b)%nat -> firstn a (firstn b l) = firstn a l.
Proof. intros Le. rewrite firstn_firstn. f_equal. lia. Qed.

Theorem reset_ok t k : Inv t -> k <= size t ->
  exists t', reset_size t k = Ok t' /\ Inv t' /\
             payloads t' = firstn (N.to_nat k) (payloads t) /\ size t' = k.
Proof.
  intros I Lk. pose proof I as (Lp & Ed & El). pose proof (payloads_length t Lp) as PL.
  unfold reset_size. destruct (N.ltb_spec (size t) k); [lia|].
  destruct (N.eqb_spec (size t) k) as [E|NE].
  - exists t. subst k. repeat split; auto.
    unfold payloads. rewrite firstn_firstn_le; [reflexivity | lia].
  - set (dsz := if 0 <? k then nodes_upto k else 0).
    assert (Edsz : dsz = nodes_upto k).
    { unfold dsz. destruct (N.ltb_spec 0 k); [reflexivity|]. replace k with 0 by lia. reflexivity. }
    set (L := payloads t) in *.
    assert (Pre : firstn (N.to_nat dsz) (spec_log L) = spec_log (firstn (N.to_nat k) L)).
    { unfold AHTSpec.spec_log.
      rewrite Edsz. replace k with (N.of_nat (N.to_nat k)) at 1 by lia.
      rewrite spec_log_upto_prefix by (unfold lenN in PL; lia).
      rewrite firstn_length. replace (Nat.min (N.to_nat k) (length L)) with (N.to_nat k) by (unfold lenN in PL; lia).
      rewrite <- (firstn_skipn (N.to_nat k) L) at 1.
      apply spec_log_upto_app. rewrite firstn_length. unfold lenN in PL. lia. }
    assert (Dle : dsz <= dsize t).
    { apply (f_equal (@length bytes)) in Pre. rewrite firstn_length in Pre.
      pose proof (spec_log_upto_length H (firstn (N.to_nat k) L) (length (firstn (N.to_nat k) L))) as S1.
      pose proof (spec_log_upto_length H L (length L)) as S2.
      unfold lenN, AHTSpec.spec_log in *. rewrite firstn_length in S1.
      replace (Nat.min (N.to_nat k) (length L)) with (N.to_nat k) in S1 by lia.
      replace (N.of_nat (N.to_nat k)) with k in S1 by lia.
      rewrite firstn_length in Pre.
      replace (Nat.min (N.to_nat k) (length L)) with (N.to_nat k) in Pre by lia.
      assert (dsize t = N.of_nat (length (AHTSpec.spec_log_upto H L (length L)))) by (rewrite S2, Ed; f_equal; lia).
      lia. }
    assert (DL : (N.to_nat (dsize t) <= length (dlog t))%nat).
    { apply (f_equal (@length bytes)) in El. rewrite firstn_length in El.
      pose proof (spec_log_upto_length H L (length L)) as SL. unfold lenN, AHTSpec.spec_log in *.
      assert (dsize t = N.of_nat (length (AHTSpec.spec_log_upto H L (length L)))) by (rewrite SL, Ed; f_equal; lia).
      lia. }
    destruct ((0 <? k) && (lenN (dlog t) <? dsz)) eqn:G.
    { apply andb_prop in G as [_ G]. apply N.ltb_lt in G. unfold lenN in G. lia. }
    eexists. split; [reflexivity|].
    assert (Pay : payloads (mkAht (plog t) (dlog t) k dsz) = firstn (N.to_nat k) L).
    { unfold payloads at 1, L, payloads. cbn [size plog]. rewrite firstn_firstn_le; [reflexivity | lia]. }
    split; [|split; [exact Pay | reflexivity]].
    unfold Inv. rewrite Pay. cbn [size plog dlog dsize]. split; [lia|]. split; [exact Edsz|].
    rewrite <- Pre, <- El. rewrite firstn_firstn_le; [reflexivity | lia].
Qed.

(* ---- histories ---- *)
Definition spec_step (L : list bytes) (o : aop) : list bytes :=
  match o with
  | OAppend d => L ++ [d]
  | OReset k => if k <=? lenN L then firstn (N.to_nat k) L else L
  end.

Lemma aht_step_inv t o : Inv t -> Inv (aht_step H t o) /\ payloads (aht_step H t o) = spec_step (payloads t) o.
Proof.
  intros I. pose proof I as (Lp & _). pose proof (payloads_length t Lp) as PL.
  destruct o as [d|k]; cbn [aht_step spec_step].
  - destruct (append_ok t d I) as (t' & E & I' & P' & _). rewrite E. auto.
  - rewrite PL. destruct (N.leb_spec k (size t)) as [Le|Gt].
    + destruct (reset_ok t k I Le) as (t' & E & I' & P' & _). rewrite E. auto.
    + unfold reset_size. destruct (N.ltb_spec (size t) k); [auto | lia].
Qed.

Theorem aht_run_inv ops :
  Inv (aht_run H ops) /\ payloads (aht_run H ops) = fold_left spec_step ops [].
Proof.
  unfold aht_run.
  assert (G : forall t L, Inv t -> payloads t = L ->
              Inv (fold_left (aht_step H) ops t) /\
              payloads (fold_left (aht_step H) ops t) = fold_left spec_step ops L).
  { induction ops as [|o ops IH]; intros t L I P; cbn [fold_left]; [auto|].
    destruct (aht_step_inv t o I) as [I' P']. apply IH; [exact I' | rewrite P', P; reflexivity]. }
  apply G; [apply Inv_empty | reflexivity].
Qed.

End Inv.
